/-
C08 (Blake share) — a change of units in gives the same change out.

For every change of units σ = (M, L, T) (positive reals; temperature plays no role), every real value of every
parameter and every request:

  * `blake_fields_units`: `Blake._run` on the re-expressed attributes (moduli and pressure_scale as pressures
    M L⁻¹ T⁻², ref_density as M L⁻³, cavity_radius and the radius as lengths, the time as a time; Poisson's ratio
    is a pure number) returns every one of the thirteen fields re-expressed by its own dimension — positions
    and displacement by L, strains unchanged, density by M L⁻³, stresses/pressure/deviators/stress difference
    by M L⁻¹ T⁻² — and takes the same branch of the decision tree (raise, disturbed, cavity, ahead of the front);
  * `blake_mod<XY>_units` (fifteen pairs): `set_elastic_params` on the re-expressed pair returns the five moduli
    re-expressed as pressures, the same Poisson ratio, and accepts/rejects on the same branch (the relative
    tolerance tests `isclose(·, ·, rtol, atol=0)` compare like quantities).

Proved by structural dimensional analysis of the traced expressions (`units`, `EPV/Lemmas/Units.lean` with the
`sin`/`cos` rules of `EPV/Lemmas/UnitsBlake.lean`), leaf by leaf and condition by condition
(`EPV/Lemmas/UnitsBlakeFields.lean`, `UnitsBlakeMod{A,B,C}.lean`), assembled here at tree level; no admissibility
hypothesis.
-/
import EPV.Lemmas.UnitsBlakeFields
import EPV.Lemmas.UnitsBlakeModA
import EPV.Lemmas.UnitsBlakeModB
import EPV.Lemmas.UnitsBlakeModC

set_option linter.all false

open EPV EPV.Gen EPV.Spec EPV.Spec.UnitsBlake EPV.UnitsBlake
open Classical

namespace EPV.C08

theorem blake_position_units : UnitCovariant fieldsSP BlakeFields.position Dim.length Everywhere := by
  intro σ p r t _
  apply IsScaled.iff_eq.mp
  unfold BlakeFields.position
  have c0 := fields_c0 σ p r t
  have c1 := fields_c1 σ p r t
  have c2 := fields_c2 σ p r t
  have l1 := fields_L1_position σ p r t
  have l2 := fields_L2_position σ p r t
  have l3 := fields_L3_position σ p r t
  units_tree

theorem blake_displacement_units : UnitCovariant fieldsSP BlakeFields.displacement Dim.length Everywhere := by
  intro σ p r t _
  apply IsScaled.iff_eq.mp
  unfold BlakeFields.displacement
  have c0 := fields_c0 σ p r t
  have c1 := fields_c1 σ p r t
  have c2 := fields_c2 σ p r t
  have l1 := fields_L1_displacement σ p r t
  have l2 := fields_L2_displacement σ p r t
  have l3 := fields_L3_displacement σ p r t
  units_tree

theorem blake_strain_rr_units : UnitCovariant fieldsSP BlakeFields.strain_rr 0 Everywhere := by
  intro σ p r t _
  apply IsScaled.iff_eq.mp
  unfold BlakeFields.strain_rr
  have c0 := fields_c0 σ p r t
  have c1 := fields_c1 σ p r t
  have c2 := fields_c2 σ p r t
  have l1 := fields_L1_strain_rr σ p r t
  have l2 := fields_L2_strain_rr σ p r t
  have l3 := fields_L3_strain_rr σ p r t
  units_tree

theorem blake_curr_posn_units : UnitCovariant fieldsSP BlakeFields.curr_posn Dim.length Everywhere := by
  intro σ p r t _
  apply IsScaled.iff_eq.mp
  unfold BlakeFields.curr_posn
  have c0 := fields_c0 σ p r t
  have c1 := fields_c1 σ p r t
  have c2 := fields_c2 σ p r t
  have l1 := fields_L1_curr_posn σ p r t
  have l2 := fields_L2_curr_posn σ p r t
  have l3 := fields_L3_curr_posn σ p r t
  units_tree

theorem blake_strain_qq_units : UnitCovariant fieldsSP BlakeFields.strain_qq 0 Everywhere := by
  intro σ p r t _
  apply IsScaled.iff_eq.mp
  unfold BlakeFields.strain_qq
  have c0 := fields_c0 σ p r t
  have c1 := fields_c1 σ p r t
  have c2 := fields_c2 σ p r t
  have l1 := fields_L1_strain_qq σ p r t
  have l2 := fields_L2_strain_qq σ p r t
  have l3 := fields_L3_strain_qq σ p r t
  units_tree

theorem blake_strain_vol_units : UnitCovariant fieldsSP BlakeFields.strain_vol 0 Everywhere := by
  intro σ p r t _
  apply IsScaled.iff_eq.mp
  unfold BlakeFields.strain_vol
  have c0 := fields_c0 σ p r t
  have c1 := fields_c1 σ p r t
  have c2 := fields_c2 σ p r t
  have l1 := fields_L1_strain_vol σ p r t
  have l2 := fields_L2_strain_vol σ p r t
  have l3 := fields_L3_strain_vol σ p r t
  units_tree

theorem blake_density_units : UnitCovariant fieldsSP BlakeFields.density Dim.density Everywhere := by
  intro σ p r t _
  apply IsScaled.iff_eq.mp
  unfold BlakeFields.density
  have c0 := fields_c0 σ p r t
  have c1 := fields_c1 σ p r t
  have c2 := fields_c2 σ p r t
  have l1 := fields_L1_density σ p r t
  have l2 := fields_L2_density σ p r t
  have l3 := fields_L3_density σ p r t
  units_tree

theorem blake_stress_rr_units : UnitCovariant fieldsSP BlakeFields.stress_rr Dim.pressure Everywhere := by
  intro σ p r t _
  apply IsScaled.iff_eq.mp
  unfold BlakeFields.stress_rr
  have c0 := fields_c0 σ p r t
  have c1 := fields_c1 σ p r t
  have c2 := fields_c2 σ p r t
  have l1 := fields_L1_stress_rr σ p r t
  have l2 := fields_L2_stress_rr σ p r t
  have l3 := fields_L3_stress_rr σ p r t
  units_tree

theorem blake_stress_qq_units : UnitCovariant fieldsSP BlakeFields.stress_qq Dim.pressure Everywhere := by
  intro σ p r t _
  apply IsScaled.iff_eq.mp
  unfold BlakeFields.stress_qq
  have c0 := fields_c0 σ p r t
  have c1 := fields_c1 σ p r t
  have c2 := fields_c2 σ p r t
  have l1 := fields_L1_stress_qq σ p r t
  have l2 := fields_L2_stress_qq σ p r t
  have l3 := fields_L3_stress_qq σ p r t
  units_tree

theorem blake_pressure_units : UnitCovariant fieldsSP BlakeFields.pressure Dim.pressure Everywhere := by
  intro σ p r t _
  apply IsScaled.iff_eq.mp
  unfold BlakeFields.pressure
  have c0 := fields_c0 σ p r t
  have c1 := fields_c1 σ p r t
  have c2 := fields_c2 σ p r t
  have l1 := fields_L1_pressure σ p r t
  have l2 := fields_L2_pressure σ p r t
  have l3 := fields_L3_pressure σ p r t
  units_tree

theorem blake_stress_dev_rr_units : UnitCovariant fieldsSP BlakeFields.stress_dev_rr Dim.pressure Everywhere := by
  intro σ p r t _
  apply IsScaled.iff_eq.mp
  unfold BlakeFields.stress_dev_rr
  have c0 := fields_c0 σ p r t
  have c1 := fields_c1 σ p r t
  have c2 := fields_c2 σ p r t
  have l1 := fields_L1_stress_dev_rr σ p r t
  have l2 := fields_L2_stress_dev_rr σ p r t
  have l3 := fields_L3_stress_dev_rr σ p r t
  units_tree

theorem blake_stress_dev_qq_units : UnitCovariant fieldsSP BlakeFields.stress_dev_qq Dim.pressure Everywhere := by
  intro σ p r t _
  apply IsScaled.iff_eq.mp
  unfold BlakeFields.stress_dev_qq
  have c0 := fields_c0 σ p r t
  have c1 := fields_c1 σ p r t
  have c2 := fields_c2 σ p r t
  have l1 := fields_L1_stress_dev_qq σ p r t
  have l2 := fields_L2_stress_dev_qq σ p r t
  have l3 := fields_L3_stress_dev_qq σ p r t
  units_tree

theorem blake_stress_diff_units : UnitCovariant fieldsSP BlakeFields.stress_diff Dim.pressure Everywhere := by
  intro σ p r t _
  apply IsScaled.iff_eq.mp
  unfold BlakeFields.stress_diff
  have c0 := fields_c0 σ p r t
  have c1 := fields_c1 σ p r t
  have c2 := fields_c2 σ p r t
  have l1 := fields_L1_stress_diff σ p r t
  have l2 := fields_L2_stress_diff σ p r t
  have l3 := fields_L3_stress_diff σ p r t
  units_tree

theorem blake_leaf_units : SameBranch fieldsSP BlakeFields.leaf Everywhere := by
  intro σ p r t _
  unfold BlakeFields.leaf
  have c0 := fields_c0 σ p r t
  have c1 := fields_c1 σ p r t
  have c2 := fields_c2 σ p r t
  units_selector

theorem blake_outcome_units : SameBranch fieldsSP BlakeFields.outcome Everywhere := by
  intro σ p r t _
  unfold BlakeFields.outcome
  have c0 := fields_c0 σ p r t
  have c1 := fields_c1 σ p r t
  have c2 := fields_c2 σ p r t
  units_selector

/-- **C08 for `Blake._run`** -/
theorem blake_fields_units : CovariantBlake Everywhere :=
  ⟨blake_position_units, blake_curr_posn_units, blake_displacement_units, blake_strain_rr_units, blake_strain_qq_units, blake_strain_vol_units, blake_density_units, blake_stress_rr_units, blake_stress_qq_units, blake_pressure_units, blake_stress_dev_rr_units, blake_stress_dev_qq_units, blake_stress_diff_units, blake_leaf_units, blake_outcome_units⟩

/-- pair (λ, G) -/
theorem blake_modLG_units : CovariantModuli modLGSP BlakeModLG.lame_mod BlakeModLG.shear_mod BlakeModLG.youngs_mod BlakeModLG.poisson_ratio BlakeModLG.bulk_mod BlakeModLG.long_mod BlakeModLG.leaf BlakeModLG.outcome := by
  intro σ p
  have c0 := modLG_c0 σ p
  have c1 := modLG_c1 σ p
  have c2 := modLG_c2 σ p
  have c3 := modLG_c3 σ p
  refine ⟨?_, ?_, ?_, ?_, ?_, ?_, ?_, ?_⟩
  · apply IsScaled.iff_eq.mp
    unfold BlakeModLG.lame_mod
    have l2 := modLG_L2_lame_mod σ p
    units_tree
  · apply IsScaled.iff_eq.mp
    unfold BlakeModLG.shear_mod
    have l2 := modLG_L2_shear_mod σ p
    units_tree
  · apply IsScaled.iff_eq.mp
    unfold BlakeModLG.youngs_mod
    have l2 := modLG_L2_youngs_mod σ p
    units_tree
  · apply IsScaled.eq_of_dim_zero (σ := σ)
    unfold BlakeModLG.poisson_ratio
    have l2 := modLG_L2_poisson_ratio σ p
    units_tree
  · apply IsScaled.iff_eq.mp
    unfold BlakeModLG.bulk_mod
    have l2 := modLG_L2_bulk_mod σ p
    units_tree
  · apply IsScaled.iff_eq.mp
    unfold BlakeModLG.long_mod
    have l2 := modLG_L2_long_mod σ p
    units_tree
  · unfold BlakeModLG.leaf
    units_selector
  · unfold BlakeModLG.outcome
    units_selector

/-- pair (λ, E) -/
theorem blake_modLE_units : CovariantModuli modLESP BlakeModLE.lame_mod BlakeModLE.shear_mod BlakeModLE.youngs_mod BlakeModLE.poisson_ratio BlakeModLE.bulk_mod BlakeModLE.long_mod BlakeModLE.leaf BlakeModLE.outcome := by
  intro σ p
  have c0 := modLE_c0 σ p
  have c1 := modLE_c1 σ p
  have c2 := modLE_c2 σ p
  have c3 := modLE_c3 σ p
  refine ⟨?_, ?_, ?_, ?_, ?_, ?_, ?_, ?_⟩
  · apply IsScaled.iff_eq.mp
    unfold BlakeModLE.lame_mod
    have l2 := modLE_L2_lame_mod σ p
    units_tree
  · apply IsScaled.iff_eq.mp
    unfold BlakeModLE.shear_mod
    have l2 := modLE_L2_shear_mod σ p
    units_tree
  · apply IsScaled.iff_eq.mp
    unfold BlakeModLE.youngs_mod
    have l2 := modLE_L2_youngs_mod σ p
    units_tree
  · apply IsScaled.eq_of_dim_zero (σ := σ)
    unfold BlakeModLE.poisson_ratio
    have l2 := modLE_L2_poisson_ratio σ p
    units_tree
  · apply IsScaled.iff_eq.mp
    unfold BlakeModLE.bulk_mod
    have l2 := modLE_L2_bulk_mod σ p
    units_tree
  · apply IsScaled.iff_eq.mp
    unfold BlakeModLE.long_mod
    have l2 := modLE_L2_long_mod σ p
    units_tree
  · unfold BlakeModLE.leaf
    units_selector
  · unfold BlakeModLE.outcome
    units_selector

/-- pair (λ, ν) -/
theorem blake_modLNu_units : CovariantModuli modLNuSP BlakeModLNu.lame_mod BlakeModLNu.shear_mod BlakeModLNu.youngs_mod BlakeModLNu.poisson_ratio BlakeModLNu.bulk_mod BlakeModLNu.long_mod BlakeModLNu.leaf BlakeModLNu.outcome := by
  intro σ p
  have c0 := modLNu_c0 σ p
  have c1 := modLNu_c1 σ p
  have c2 := modLNu_c2 σ p
  have c3 := modLNu_c3 σ p
  have c4 := modLNu_c4 σ p
  refine ⟨?_, ?_, ?_, ?_, ?_, ?_, ?_, ?_⟩
  · apply IsScaled.iff_eq.mp
    unfold BlakeModLNu.lame_mod
    have l1 := modLNu_L1_lame_mod σ p
    units_tree
  · apply IsScaled.iff_eq.mp
    unfold BlakeModLNu.shear_mod
    have l1 := modLNu_L1_shear_mod σ p
    units_tree
  · apply IsScaled.iff_eq.mp
    unfold BlakeModLNu.youngs_mod
    have l1 := modLNu_L1_youngs_mod σ p
    units_tree
  · apply IsScaled.eq_of_dim_zero (σ := σ)
    unfold BlakeModLNu.poisson_ratio
    have l1 := modLNu_L1_poisson_ratio σ p
    units_tree
  · apply IsScaled.iff_eq.mp
    unfold BlakeModLNu.bulk_mod
    have l1 := modLNu_L1_bulk_mod σ p
    units_tree
  · apply IsScaled.iff_eq.mp
    unfold BlakeModLNu.long_mod
    have l1 := modLNu_L1_long_mod σ p
    units_tree
  · unfold BlakeModLNu.leaf
    units_selector
  · unfold BlakeModLNu.outcome
    units_selector

/-- pair (λ, K) -/
theorem blake_modLK_units : CovariantModuli modLKSP BlakeModLK.lame_mod BlakeModLK.shear_mod BlakeModLK.youngs_mod BlakeModLK.poisson_ratio BlakeModLK.bulk_mod BlakeModLK.long_mod BlakeModLK.leaf BlakeModLK.outcome := by
  intro σ p
  have c0 := modLK_c0 σ p
  have c1 := modLK_c1 σ p
  have c2 := modLK_c2 σ p
  have c3 := modLK_c3 σ p
  have c4 := modLK_c4 σ p
  have c5 := modLK_c5 σ p
  refine ⟨?_, ?_, ?_, ?_, ?_, ?_, ?_, ?_⟩
  · apply IsScaled.iff_eq.mp
    unfold BlakeModLK.lame_mod
    have l3 := modLK_L3_lame_mod σ p
    have l4 := modLK_L4_lame_mod σ p
    units_tree
  · apply IsScaled.iff_eq.mp
    unfold BlakeModLK.shear_mod
    have l3 := modLK_L3_shear_mod σ p
    have l4 := modLK_L4_shear_mod σ p
    units_tree
  · apply IsScaled.iff_eq.mp
    unfold BlakeModLK.youngs_mod
    have l3 := modLK_L3_youngs_mod σ p
    have l4 := modLK_L4_youngs_mod σ p
    units_tree
  · apply IsScaled.eq_of_dim_zero (σ := σ)
    unfold BlakeModLK.poisson_ratio
    have l3 := modLK_L3_poisson_ratio σ p
    have l4 := modLK_L4_poisson_ratio σ p
    units_tree
  · apply IsScaled.iff_eq.mp
    unfold BlakeModLK.bulk_mod
    have l3 := modLK_L3_bulk_mod σ p
    have l4 := modLK_L4_bulk_mod σ p
    units_tree
  · apply IsScaled.iff_eq.mp
    unfold BlakeModLK.long_mod
    have l3 := modLK_L3_long_mod σ p
    have l4 := modLK_L4_long_mod σ p
    units_tree
  · unfold BlakeModLK.leaf
    units_selector
  · unfold BlakeModLK.outcome
    units_selector

/-- pair (λ, M) -/
theorem blake_modLM_units : CovariantModuli modLMSP BlakeModLM.lame_mod BlakeModLM.shear_mod BlakeModLM.youngs_mod BlakeModLM.poisson_ratio BlakeModLM.bulk_mod BlakeModLM.long_mod BlakeModLM.leaf BlakeModLM.outcome := by
  intro σ p
  have c0 := modLM_c0 σ p
  have c1 := modLM_c1 σ p
  have c2 := modLM_c2 σ p
  have c3 := modLM_c3 σ p
  refine ⟨?_, ?_, ?_, ?_, ?_, ?_, ?_, ?_⟩
  · apply IsScaled.iff_eq.mp
    unfold BlakeModLM.lame_mod
    have l2 := modLM_L2_lame_mod σ p
    units_tree
  · apply IsScaled.iff_eq.mp
    unfold BlakeModLM.shear_mod
    have l2 := modLM_L2_shear_mod σ p
    units_tree
  · apply IsScaled.iff_eq.mp
    unfold BlakeModLM.youngs_mod
    have l2 := modLM_L2_youngs_mod σ p
    units_tree
  · apply IsScaled.eq_of_dim_zero (σ := σ)
    unfold BlakeModLM.poisson_ratio
    have l2 := modLM_L2_poisson_ratio σ p
    units_tree
  · apply IsScaled.iff_eq.mp
    unfold BlakeModLM.bulk_mod
    have l2 := modLM_L2_bulk_mod σ p
    units_tree
  · apply IsScaled.iff_eq.mp
    unfold BlakeModLM.long_mod
    have l2 := modLM_L2_long_mod σ p
    units_tree
  · unfold BlakeModLM.leaf
    units_selector
  · unfold BlakeModLM.outcome
    units_selector

/-- pair (G, E) -/
theorem blake_modGE_units : CovariantModuli modGESP BlakeModGE.lame_mod BlakeModGE.shear_mod BlakeModGE.youngs_mod BlakeModGE.poisson_ratio BlakeModGE.bulk_mod BlakeModGE.long_mod BlakeModGE.leaf BlakeModGE.outcome := by
  intro σ p
  have c0 := modGE_c0 σ p
  have c1 := modGE_c1 σ p
  have c2 := modGE_c2 σ p
  have c3 := modGE_c3 σ p
  have c4 := modGE_c4 σ p
  have c5 := modGE_c5 σ p
  have c6 := modGE_c6 σ p
  refine ⟨?_, ?_, ?_, ?_, ?_, ?_, ?_, ?_⟩
  · apply IsScaled.iff_eq.mp
    unfold BlakeModGE.lame_mod
    have l3 := modGE_L3_lame_mod σ p
    have l4 := modGE_L4_lame_mod σ p
    units_tree
  · apply IsScaled.iff_eq.mp
    unfold BlakeModGE.shear_mod
    have l3 := modGE_L3_shear_mod σ p
    have l4 := modGE_L4_shear_mod σ p
    units_tree
  · apply IsScaled.iff_eq.mp
    unfold BlakeModGE.youngs_mod
    have l3 := modGE_L3_youngs_mod σ p
    have l4 := modGE_L4_youngs_mod σ p
    units_tree
  · apply IsScaled.eq_of_dim_zero (σ := σ)
    unfold BlakeModGE.poisson_ratio
    have l3 := modGE_L3_poisson_ratio σ p
    have l4 := modGE_L4_poisson_ratio σ p
    units_tree
  · apply IsScaled.iff_eq.mp
    unfold BlakeModGE.bulk_mod
    have l3 := modGE_L3_bulk_mod σ p
    have l4 := modGE_L4_bulk_mod σ p
    units_tree
  · apply IsScaled.iff_eq.mp
    unfold BlakeModGE.long_mod
    have l3 := modGE_L3_long_mod σ p
    have l4 := modGE_L4_long_mod σ p
    units_tree
  · unfold BlakeModGE.leaf
    units_selector
  · unfold BlakeModGE.outcome
    units_selector

/-- pair (G, ν) -/
theorem blake_modGNu_units : CovariantModuli modGNuSP BlakeModGNu.lame_mod BlakeModGNu.shear_mod BlakeModGNu.youngs_mod BlakeModGNu.poisson_ratio BlakeModGNu.bulk_mod BlakeModGNu.long_mod BlakeModGNu.leaf BlakeModGNu.outcome := by
  intro σ p
  have c0 := modGNu_c0 σ p
  have c1 := modGNu_c1 σ p
  have c2 := modGNu_c2 σ p
  have c3 := modGNu_c3 σ p
  refine ⟨?_, ?_, ?_, ?_, ?_, ?_, ?_, ?_⟩
  · apply IsScaled.iff_eq.mp
    unfold BlakeModGNu.lame_mod
    have l1 := modGNu_L1_lame_mod σ p
    units_tree
  · apply IsScaled.iff_eq.mp
    unfold BlakeModGNu.shear_mod
    have l1 := modGNu_L1_shear_mod σ p
    units_tree
  · apply IsScaled.iff_eq.mp
    unfold BlakeModGNu.youngs_mod
    have l1 := modGNu_L1_youngs_mod σ p
    units_tree
  · apply IsScaled.eq_of_dim_zero (σ := σ)
    unfold BlakeModGNu.poisson_ratio
    have l1 := modGNu_L1_poisson_ratio σ p
    units_tree
  · apply IsScaled.iff_eq.mp
    unfold BlakeModGNu.bulk_mod
    have l1 := modGNu_L1_bulk_mod σ p
    units_tree
  · apply IsScaled.iff_eq.mp
    unfold BlakeModGNu.long_mod
    have l1 := modGNu_L1_long_mod σ p
    units_tree
  · unfold BlakeModGNu.leaf
    units_selector
  · unfold BlakeModGNu.outcome
    units_selector

/-- pair (G, K) -/
theorem blake_modGK_units : CovariantModuli modGKSP BlakeModGK.lame_mod BlakeModGK.shear_mod BlakeModGK.youngs_mod BlakeModGK.poisson_ratio BlakeModGK.bulk_mod BlakeModGK.long_mod BlakeModGK.leaf BlakeModGK.outcome := by
  intro σ p
  have c0 := modGK_c0 σ p
  have c1 := modGK_c1 σ p
  have c2 := modGK_c2 σ p
  have c3 := modGK_c3 σ p
  have c4 := modGK_c4 σ p
  refine ⟨?_, ?_, ?_, ?_, ?_, ?_, ?_, ?_⟩
  · apply IsScaled.iff_eq.mp
    unfold BlakeModGK.lame_mod
    have l2 := modGK_L2_lame_mod σ p
    have l3 := modGK_L3_lame_mod σ p
    units_tree
  · apply IsScaled.iff_eq.mp
    unfold BlakeModGK.shear_mod
    have l2 := modGK_L2_shear_mod σ p
    have l3 := modGK_L3_shear_mod σ p
    units_tree
  · apply IsScaled.iff_eq.mp
    unfold BlakeModGK.youngs_mod
    have l2 := modGK_L2_youngs_mod σ p
    have l3 := modGK_L3_youngs_mod σ p
    units_tree
  · apply IsScaled.eq_of_dim_zero (σ := σ)
    unfold BlakeModGK.poisson_ratio
    have l2 := modGK_L2_poisson_ratio σ p
    have l3 := modGK_L3_poisson_ratio σ p
    units_tree
  · apply IsScaled.iff_eq.mp
    unfold BlakeModGK.bulk_mod
    have l2 := modGK_L2_bulk_mod σ p
    have l3 := modGK_L3_bulk_mod σ p
    units_tree
  · apply IsScaled.iff_eq.mp
    unfold BlakeModGK.long_mod
    have l2 := modGK_L2_long_mod σ p
    have l3 := modGK_L3_long_mod σ p
    units_tree
  · unfold BlakeModGK.leaf
    units_selector
  · unfold BlakeModGK.outcome
    units_selector

/-- pair (G, M) -/
theorem blake_modGM_units : CovariantModuli modGMSP BlakeModGM.lame_mod BlakeModGM.shear_mod BlakeModGM.youngs_mod BlakeModGM.poisson_ratio BlakeModGM.bulk_mod BlakeModGM.long_mod BlakeModGM.leaf BlakeModGM.outcome := by
  intro σ p
  have c0 := modGM_c0 σ p
  have c1 := modGM_c1 σ p
  have c2 := modGM_c2 σ p
  have c3 := modGM_c3 σ p
  have c4 := modGM_c4 σ p
  have c5 := modGM_c5 σ p
  have c6 := modGM_c6 σ p
  refine ⟨?_, ?_, ?_, ?_, ?_, ?_, ?_, ?_⟩
  · apply IsScaled.iff_eq.mp
    unfold BlakeModGM.lame_mod
    have l3 := modGM_L3_lame_mod σ p
    have l4 := modGM_L4_lame_mod σ p
    units_tree
  · apply IsScaled.iff_eq.mp
    unfold BlakeModGM.shear_mod
    have l3 := modGM_L3_shear_mod σ p
    have l4 := modGM_L4_shear_mod σ p
    units_tree
  · apply IsScaled.iff_eq.mp
    unfold BlakeModGM.youngs_mod
    have l3 := modGM_L3_youngs_mod σ p
    have l4 := modGM_L4_youngs_mod σ p
    units_tree
  · apply IsScaled.eq_of_dim_zero (σ := σ)
    unfold BlakeModGM.poisson_ratio
    have l3 := modGM_L3_poisson_ratio σ p
    have l4 := modGM_L4_poisson_ratio σ p
    units_tree
  · apply IsScaled.iff_eq.mp
    unfold BlakeModGM.bulk_mod
    have l3 := modGM_L3_bulk_mod σ p
    have l4 := modGM_L4_bulk_mod σ p
    units_tree
  · apply IsScaled.iff_eq.mp
    unfold BlakeModGM.long_mod
    have l3 := modGM_L3_long_mod σ p
    have l4 := modGM_L4_long_mod σ p
    units_tree
  · unfold BlakeModGM.leaf
    units_selector
  · unfold BlakeModGM.outcome
    units_selector

/-- pair (E, ν) -/
theorem blake_modENu_units : CovariantModuli modENuSP BlakeModENu.lame_mod BlakeModENu.shear_mod BlakeModENu.youngs_mod BlakeModENu.poisson_ratio BlakeModENu.bulk_mod BlakeModENu.long_mod BlakeModENu.leaf BlakeModENu.outcome := by
  intro σ p
  have c0 := modENu_c0 σ p
  have c1 := modENu_c1 σ p
  have c2 := modENu_c2 σ p
  have c3 := modENu_c3 σ p
  refine ⟨?_, ?_, ?_, ?_, ?_, ?_, ?_, ?_⟩
  · apply IsScaled.iff_eq.mp
    unfold BlakeModENu.lame_mod
    have l1 := modENu_L1_lame_mod σ p
    units_tree
  · apply IsScaled.iff_eq.mp
    unfold BlakeModENu.shear_mod
    have l1 := modENu_L1_shear_mod σ p
    units_tree
  · apply IsScaled.iff_eq.mp
    unfold BlakeModENu.youngs_mod
    have l1 := modENu_L1_youngs_mod σ p
    units_tree
  · apply IsScaled.eq_of_dim_zero (σ := σ)
    unfold BlakeModENu.poisson_ratio
    have l1 := modENu_L1_poisson_ratio σ p
    units_tree
  · apply IsScaled.iff_eq.mp
    unfold BlakeModENu.bulk_mod
    have l1 := modENu_L1_bulk_mod σ p
    units_tree
  · apply IsScaled.iff_eq.mp
    unfold BlakeModENu.long_mod
    have l1 := modENu_L1_long_mod σ p
    units_tree
  · unfold BlakeModENu.leaf
    units_selector
  · unfold BlakeModENu.outcome
    units_selector

/-- pair (E, K) -/
theorem blake_modEK_units : CovariantModuli modEKSP BlakeModEK.lame_mod BlakeModEK.shear_mod BlakeModEK.youngs_mod BlakeModEK.poisson_ratio BlakeModEK.bulk_mod BlakeModEK.long_mod BlakeModEK.leaf BlakeModEK.outcome := by
  intro σ p
  have c0 := modEK_c0 σ p
  have c1 := modEK_c1 σ p
  have c2 := modEK_c2 σ p
  have c3 := modEK_c3 σ p
  have c4 := modEK_c4 σ p
  have c5 := modEK_c5 σ p
  have c6 := modEK_c6 σ p
  refine ⟨?_, ?_, ?_, ?_, ?_, ?_, ?_, ?_⟩
  · apply IsScaled.iff_eq.mp
    unfold BlakeModEK.lame_mod
    have l3 := modEK_L3_lame_mod σ p
    have l4 := modEK_L4_lame_mod σ p
    units_tree
  · apply IsScaled.iff_eq.mp
    unfold BlakeModEK.shear_mod
    have l3 := modEK_L3_shear_mod σ p
    have l4 := modEK_L4_shear_mod σ p
    units_tree
  · apply IsScaled.iff_eq.mp
    unfold BlakeModEK.youngs_mod
    have l3 := modEK_L3_youngs_mod σ p
    have l4 := modEK_L4_youngs_mod σ p
    units_tree
  · apply IsScaled.eq_of_dim_zero (σ := σ)
    unfold BlakeModEK.poisson_ratio
    have l3 := modEK_L3_poisson_ratio σ p
    have l4 := modEK_L4_poisson_ratio σ p
    units_tree
  · apply IsScaled.iff_eq.mp
    unfold BlakeModEK.bulk_mod
    have l3 := modEK_L3_bulk_mod σ p
    have l4 := modEK_L4_bulk_mod σ p
    units_tree
  · apply IsScaled.iff_eq.mp
    unfold BlakeModEK.long_mod
    have l3 := modEK_L3_long_mod σ p
    have l4 := modEK_L4_long_mod σ p
    units_tree
  · unfold BlakeModEK.leaf
    units_selector
  · unfold BlakeModEK.outcome
    units_selector

/-- pair (E, M) -/
theorem blake_modEM_units : CovariantModuli modEMSP BlakeModEM.lame_mod BlakeModEM.shear_mod BlakeModEM.youngs_mod BlakeModEM.poisson_ratio BlakeModEM.bulk_mod BlakeModEM.long_mod BlakeModEM.leaf BlakeModEM.outcome := by
  intro σ p
  have c0 := modEM_c0 σ p
  have c1 := modEM_c1 σ p
  have c2 := modEM_c2 σ p
  have c3 := modEM_c3 σ p
  have c4 := modEM_c4 σ p
  have c5 := modEM_c5 σ p
  have c6 := modEM_c6 σ p
  refine ⟨?_, ?_, ?_, ?_, ?_, ?_, ?_, ?_⟩
  · apply IsScaled.iff_eq.mp
    unfold BlakeModEM.lame_mod
    have l3 := modEM_L3_lame_mod σ p
    have l4 := modEM_L4_lame_mod σ p
    units_tree
  · apply IsScaled.iff_eq.mp
    unfold BlakeModEM.shear_mod
    have l3 := modEM_L3_shear_mod σ p
    have l4 := modEM_L4_shear_mod σ p
    units_tree
  · apply IsScaled.iff_eq.mp
    unfold BlakeModEM.youngs_mod
    have l3 := modEM_L3_youngs_mod σ p
    have l4 := modEM_L4_youngs_mod σ p
    units_tree
  · apply IsScaled.eq_of_dim_zero (σ := σ)
    unfold BlakeModEM.poisson_ratio
    have l3 := modEM_L3_poisson_ratio σ p
    have l4 := modEM_L4_poisson_ratio σ p
    units_tree
  · apply IsScaled.iff_eq.mp
    unfold BlakeModEM.bulk_mod
    have l3 := modEM_L3_bulk_mod σ p
    have l4 := modEM_L4_bulk_mod σ p
    units_tree
  · apply IsScaled.iff_eq.mp
    unfold BlakeModEM.long_mod
    have l3 := modEM_L3_long_mod σ p
    have l4 := modEM_L4_long_mod σ p
    units_tree
  · unfold BlakeModEM.leaf
    units_selector
  · unfold BlakeModEM.outcome
    units_selector

/-- pair (ν, K) -/
theorem blake_modNuK_units : CovariantModuli modNuKSP BlakeModNuK.lame_mod BlakeModNuK.shear_mod BlakeModNuK.youngs_mod BlakeModNuK.poisson_ratio BlakeModNuK.bulk_mod BlakeModNuK.long_mod BlakeModNuK.leaf BlakeModNuK.outcome := by
  intro σ p
  have c0 := modNuK_c0 σ p
  have c1 := modNuK_c1 σ p
  have c2 := modNuK_c2 σ p
  have c3 := modNuK_c3 σ p
  refine ⟨?_, ?_, ?_, ?_, ?_, ?_, ?_, ?_⟩
  · apply IsScaled.iff_eq.mp
    unfold BlakeModNuK.lame_mod
    have l3 := modNuK_L3_lame_mod σ p
    units_tree
  · apply IsScaled.iff_eq.mp
    unfold BlakeModNuK.shear_mod
    have l3 := modNuK_L3_shear_mod σ p
    units_tree
  · apply IsScaled.iff_eq.mp
    unfold BlakeModNuK.youngs_mod
    have l3 := modNuK_L3_youngs_mod σ p
    units_tree
  · apply IsScaled.eq_of_dim_zero (σ := σ)
    unfold BlakeModNuK.poisson_ratio
    have l3 := modNuK_L3_poisson_ratio σ p
    units_tree
  · apply IsScaled.iff_eq.mp
    unfold BlakeModNuK.bulk_mod
    have l3 := modNuK_L3_bulk_mod σ p
    units_tree
  · apply IsScaled.iff_eq.mp
    unfold BlakeModNuK.long_mod
    have l3 := modNuK_L3_long_mod σ p
    units_tree
  · unfold BlakeModNuK.leaf
    units_selector
  · unfold BlakeModNuK.outcome
    units_selector

/-- pair (ν, M) -/
theorem blake_modNuM_units : CovariantModuli modNuMSP BlakeModNuM.lame_mod BlakeModNuM.shear_mod BlakeModNuM.youngs_mod BlakeModNuM.poisson_ratio BlakeModNuM.bulk_mod BlakeModNuM.long_mod BlakeModNuM.leaf BlakeModNuM.outcome := by
  intro σ p
  have c0 := modNuM_c0 σ p
  have c1 := modNuM_c1 σ p
  have c2 := modNuM_c2 σ p
  have c3 := modNuM_c3 σ p
  refine ⟨?_, ?_, ?_, ?_, ?_, ?_, ?_, ?_⟩
  · apply IsScaled.iff_eq.mp
    unfold BlakeModNuM.lame_mod
    have l3 := modNuM_L3_lame_mod σ p
    units_tree
  · apply IsScaled.iff_eq.mp
    unfold BlakeModNuM.shear_mod
    have l3 := modNuM_L3_shear_mod σ p
    units_tree
  · apply IsScaled.iff_eq.mp
    unfold BlakeModNuM.youngs_mod
    have l3 := modNuM_L3_youngs_mod σ p
    units_tree
  · apply IsScaled.eq_of_dim_zero (σ := σ)
    unfold BlakeModNuM.poisson_ratio
    have l3 := modNuM_L3_poisson_ratio σ p
    units_tree
  · apply IsScaled.iff_eq.mp
    unfold BlakeModNuM.bulk_mod
    have l3 := modNuM_L3_bulk_mod σ p
    units_tree
  · apply IsScaled.iff_eq.mp
    unfold BlakeModNuM.long_mod
    have l3 := modNuM_L3_long_mod σ p
    units_tree
  · unfold BlakeModNuM.leaf
    units_selector
  · unfold BlakeModNuM.outcome
    units_selector

/-- pair (K, M) -/
theorem blake_modKM_units : CovariantModuli modKMSP BlakeModKM.lame_mod BlakeModKM.shear_mod BlakeModKM.youngs_mod BlakeModKM.poisson_ratio BlakeModKM.bulk_mod BlakeModKM.long_mod BlakeModKM.leaf BlakeModKM.outcome := by
  intro σ p
  have c0 := modKM_c0 σ p
  have c1 := modKM_c1 σ p
  have c2 := modKM_c2 σ p
  have c3 := modKM_c3 σ p
  have c4 := modKM_c4 σ p
  refine ⟨?_, ?_, ?_, ?_, ?_, ?_, ?_, ?_⟩
  · apply IsScaled.iff_eq.mp
    unfold BlakeModKM.lame_mod
    have l2 := modKM_L2_lame_mod σ p
    have l5 := modKM_L5_lame_mod σ p
    units_tree
  · apply IsScaled.iff_eq.mp
    unfold BlakeModKM.shear_mod
    have l2 := modKM_L2_shear_mod σ p
    have l5 := modKM_L5_shear_mod σ p
    units_tree
  · apply IsScaled.iff_eq.mp
    unfold BlakeModKM.youngs_mod
    have l2 := modKM_L2_youngs_mod σ p
    have l5 := modKM_L5_youngs_mod σ p
    units_tree
  · apply IsScaled.eq_of_dim_zero (σ := σ)
    unfold BlakeModKM.poisson_ratio
    have l2 := modKM_L2_poisson_ratio σ p
    have l5 := modKM_L5_poisson_ratio σ p
    units_tree
  · apply IsScaled.iff_eq.mp
    unfold BlakeModKM.bulk_mod
    have l2 := modKM_L2_bulk_mod σ p
    have l5 := modKM_L5_bulk_mod σ p
    units_tree
  · apply IsScaled.iff_eq.mp
    unfold BlakeModKM.long_mod
    have l2 := modKM_L2_long_mod σ p
    have l5 := modKM_L5_long_mod σ p
    units_tree
  · unfold BlakeModKM.leaf
    units_selector
  · unfold BlakeModKM.outcome
    units_selector

/-- non-vacuity: SI → cgs is a change of units -/
example : ∃ σ : Scaling, σ.M = 1000 ∧ σ.L = 100 ∧ σ.T = 1 :=
  ⟨⟨1000, 100, 1, 1, by norm_num, by norm_num, by norm_num, by norm_num⟩, rfl, rfl, rfl⟩

end EPV.C08
