/-
C08 — Cog7: no input carries a mass; the coded density scales like T^(cog7RhoT) (partial + finding).
-/
import EPV.Gen.Cog7
import EPV.Lemmas.UnitsHydro

set_option linter.all false

open EPV EPV.Gen EPV.Spec EPV.Spec.UnitsHydro

namespace EPV.C08

theorem cog7RhoT_values (p : Cog7.P) :
    (p.geometry = 1 → cog7RhoT p = -1) ∧ (p.geometry = 2 → cog7RhoT p = -1) ∧ (p.geometry = 3 → cog7RhoT p = 0) := by
  refine ⟨fun h => ?_, fun h => ?_, fun h => ?_⟩ <;> simp only [cog7RhoT, cog7Gamma, h] <;> norm_num <;> ring

/-- the dimension the coded Cog7 density really has: T^(cog7RhoT), no mass, no length -/
theorem cog7_density_dimension (σ : Scaling) (p : Cog7.P) (r t : ℝ) :
    Cog7.density (cog7SP σ p) (σ.L * r) (σ.T * t) = scale σ ⟨0, 0, cog7RhoT p, 0⟩ (Cog7.density p r t) := by
  apply IsScaled.iff_eq.mp
  simp only [epv_tree, epv_cond, epv_leaf, cog7SP, mul_zero, zero_mul, zero_div, mul_one, one_mul, cog7RhoT, cog7Gamma]
  units_goal

theorem cog7_pressure_dimension (σ : Scaling) (p : Cog7.P) (r t : ℝ) :
    Cog7.pressure (cog7SP σ p) (σ.L * r) (σ.T * t) = scale σ ⟨0, 2, -2 + cog7RhoT p, 0⟩ (Cog7.pressure p r t) := by
  apply IsScaled.iff_eq.mp
  simp only [epv_tree, epv_cond, epv_leaf, cog7SP, mul_zero, zero_mul, zero_div, mul_one, one_mul, cog7RhoT, cog7Gamma]
  units_goal
theorem cog7_factor_tied {σ : Scaling} {p : Cog7.P} {r t : ℝ} (h : Cog7Tied σ p r t) (l τ : ℝ) :
    factor σ ⟨0, l, τ + cog7RhoT p, 0⟩ = factor σ ⟨1, l - 3, τ, 0⟩ := by
  have h : σ.M = σ.L ^ (3 : ℝ) * σ.T ^ cog7RhoT p := h
  simp only [factor, Real.rpow_zero, Real.rpow_one, one_mul, mul_one, h, Real.rpow_add σ.hT, Real.rpow_sub σ.hL]
  have := (Real.rpow_pos_of_pos σ.hL 3).ne'
  field_simp

/-- **partial**: Cog7 position, velocity, temperature and specific internal energy are covariant under every
change of units and the branch is invariant; density and pressure are covariant only when the unit of density
is tied to the unit of time (`Cog7Tied`).  Missing from the property: independent changes of the unit of mass,
see `finding_cog7_no_mass_scale`. -/
theorem cog7_units_partial :
    UnitCovariant cog7SP Cog7.position Dim.length Everywhere ∧
    UnitCovariant cog7SP Cog7.velocity Dim.velocity Everywhere ∧
    UnitCovariant cog7SP Cog7.temperature Dim.temperature Everywhere ∧
    UnitCovariant cog7SP Cog7.specific_internal_energy Dim.sie Everywhere ∧
    SameBranch cog7SP Cog7.leaf Everywhere ∧ SameBranch cog7SP Cog7.outcome Everywhere ∧
    UnitCovariant cog7SP Cog7.density Dim.density Cog7Tied ∧
    UnitCovariant cog7SP Cog7.pressure Dim.pressure Cog7Tied := by
  unfold UnitCovariant SameBranch
  refine ⟨?_, ?_, ?_, ?_, ?_, ?_, ?_, ?_⟩ <;> intro σ p r t h
  · units_field cog7SP
  · units_field cog7SP
  · units_field cog7SP
  · units_field cog7SP
  · units_field cog7SP
  · units_field cog7SP
  · rw [cog7_density_dimension, scale, scale]
    have := cog7_factor_tied h 0 0
    simp only [zero_add, zero_sub] at this
    rw [this]; rfl
  · rw [cog7_pressure_dimension, scale, scale]
    have := cog7_factor_tied h 2 (-2)
    norm_num at this
    rw [this]; rfl

/-- non-vacuity: tied changes of units exist for every parameter set -/
example (p : Cog7.P) : ∃ σ : Scaling, Cog7Tied σ p 0 0 ∧ σ.T ≠ 1 :=
  ⟨⟨(1 : ℝ) ^ (3 : ℝ) * (2 : ℝ) ^ cog7RhoT p, 1, 2, 1, by positivity, by norm_num, by norm_num, by norm_num⟩,
    rfl, by norm_num⟩

/-- **Finding** (C08 is false for Cog7 as quantified): a pure change of the unit of mass (M = 2) changes no
input of Cog7, so the returned density cannot double.  Witness: b = 0, spherical, τ = 1, R₀ = 2, Rᵢ = 1, Γ = 1
at r = 2, t = 3/5, where the density is positive. -/
theorem finding_cog7_no_mass_scale :
    ¬ UnitCovariant cog7SP Cog7.density Dim.density (Everywhere : Scaling → Cog7.P → ℝ → ℝ → Prop) := by
  intro h
  have h1 := h ⟨2, 1, 1, 1, by norm_num, by norm_num, by norm_num, by norm_num⟩
    ⟨1, 2, 1, 0, 0, 0, 0, 0, 3, 0, 1⟩ 2 (3 / 5) trivial
  rw [cog7_density_dimension] at h1
  simp only [scale, factor, Dim.density, Real.one_rpow, Real.rpow_one, Real.rpow_zero, mul_one, one_mul] at h1
  have hpos : 0 < Cog7.density ⟨1, 2, 1, 0, 0, 0, 0, 0, 3, 0, 1⟩ 2 (3 / 5) := by
    simp only [epv_tree, epv_cond, epv_leaf]
    split_ifs with hc
    · norm_num at hc
    norm_num
    positivity
  linarith

end EPV.C08
