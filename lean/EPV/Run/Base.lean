/-
Mathlib-free helpers for the Float twins and the correspondence driver.
Floats cross the process boundary as decimal UInt64 bit patterns, so the
transport is exact.
-/
namespace EPV.Run

def parseFloatBits (s : String) : Float :=
  Float.ofBits (s.toNat!).toUInt64

def showFloatBits (f : Float) : String :=
  toString f.toBits.toNat

def showResult (r : String × Array Float) : String :=
  r.2.foldl (fun acc f => acc ++ " " ++ showFloatBits f) r.1

end EPV.Run
