/-
Mutable objects as state machines (C16, second package; core Lean only).

A Python object with documented setters is modelled by its ATTRIBUTE DICTIONARY `A`: the constructor maps the
constructor constants `C` to a dictionary, every operation maps a dictionary to a dictionary (traced from the
code on a dictionary of independent symbols), and every other method is a function of the dictionary.  The
specification of a setter is the constants a FRESH object would be built with afterwards (`update`).

`Sound`:  one operation applied to a freshly constructed object gives the freshly constructed object of the updated
constants — equality of ALL attributes, so a cached derived attribute that a setter forgets is an unprovable goal.
`reachable_eq_fresh`:  by induction over an arbitrary finite sequence of operations, every reachable object IS the
fresh object with the final constants; hence every method (a function of the dictionary) returns on it what it
returns on the fresh object (`method_on_reachable`).
-/

namespace EPV.Setters

/-- a mutable object: constructor, operations on the attribute dictionary, their meaning on the constants -/
structure Machine (C A Op : Type) where
  /-- `__init__`: constants ↦ attribute dictionary -/
  construct : C → A
  /-- what an operation does to the attribute dictionary (traced) -/
  apply : Op → A → A
  /-- the constants a fresh object is built with to be "the object after the operation" (specification) -/
  update : Op → C → C

variable {C A Op : Type}

/-- the attribute dictionary after a sequence of operations -/
def Machine.run (M : Machine C A Op) : List Op → A → A
  | [], a => a
  | o :: os, a => M.run os (M.apply o a)

/-- the constants after a sequence of operations -/
def Machine.final (M : Machine C A Op) : List Op → C → C
  | [], c => c
  | o :: os, c => M.final os (M.update o c)

/-- every operation, applied to a fresh object, yields the fresh object of the updated constants -/
def Machine.Sound (M : Machine C A Op) : Prop :=
  ∀ o c, M.apply o (M.construct c) = M.construct (M.update o c)

/-- **invariant by induction**: any reachable object equals the fresh object with the final constants -/
theorem reachable_eq_fresh (M : Machine C A Op) (h : M.Sound) :
    ∀ (ops : List Op) (c : C), M.run ops (M.construct c) = M.construct (M.final ops c) := by
  intro ops
  induction ops with
  | nil => intro c; rfl
  | cons o os ih =>
    intro c
    show M.run os (M.apply o (M.construct c)) = M.construct (M.final os (M.update o c))
    rw [h o c]
    exact ih (M.update o c)

/-- every method — a function of the attribute dictionary — returns on a reachable object what it returns on the
fresh object with the final constants -/
theorem method_on_reachable {β : Type} (M : Machine C A Op) (h : M.Sound) (method : A → β) (ops : List Op) (c : C) :
    method (M.run ops (M.construct c)) = method (M.construct (M.final ops c)) := by
  rw [reachable_eq_fresh M h]

/-- a weaker machine invariant: `Inv` holds after the constructor and is preserved by every operation from ANY
dictionary satisfying it (used when `Sound` fails: which operations keep the object consistent) -/
theorem invariant_run (M : Machine C A Op) (Inv : A → Prop) (allowed : Op → Prop)
    (hstep : ∀ o a, allowed o → Inv a → Inv (M.apply o a)) :
    ∀ (ops : List Op) (a : A), (∀ o ∈ ops, allowed o) → Inv a → Inv (M.run ops a) := by
  intro ops
  induction ops with
  | nil => intro a _ h; exact h
  | cons o os ih =>
    intro a hall h
    exact ih (M.apply o a) (fun o' ho' => hall o' (List.mem_cons_of_mem _ ho'))
      (hstep o a (hall o List.mem_cons_self) h)

end EPV.Setters
