/-
Sedov (C11 growth): the mass integral, vacuum solution type, special_singularity none.

On the vacuum branch v2 ≤ v ≤ vv the similarity variable λ decreases from 1 (shock) to
λ_v = λ(vv) > 0 (the vacuum boundary), inside which the density vanishes (`sedov_funcs_vacuum`).
M(v) = λ^k g (1 - X v/2) is continuous on the closed branch — at vv the density g ~ x4^a5 may be
unbounded (a5 < 0: the integrable vacuum-edge singularity), but M ~ x4^(1+a5) with 1 + a5 =
-γ(k-ω)/denom3 > 0 — and M(vv) = 0.  Hence for ANY g with g(λ(v)) = G(v) on v2 < v < vv and g = 0
on 0 < x < λ_v:   ∫₀¹ g x^(k-1) dx = (γ-1)/((γ+1)(k-ω))     (`mass_integral_vac`).
-/
import EPV.Lemmas.SedovMassStd

set_option linter.all false
set_option maxRecDepth 100000

open EPV EPV.Gen EPV.Spec.SedovODE MeasureTheory Set

namespace EPV.Sedov.Mass

noncomputable section

/-- v in the CLOSED branch [v2, vv] of the vacuum solution type -/
structure VacClosed (γ k ω v : ℝ) : Prop where
  par : Params γ k ω
  type : vstar γ k < v2 γ k ω
  lo : v2 γ k ω ≤ v
  hi : v ≤ vv k ω

structure VacClosedSigns (γ k ω v : ℝ) : Prop where
  hγ : 1 < γ
  hX : 0 < k + 2 - ω
  hE : 0 < 2 + k * (γ - 1)
  hv : 0 < v
  x2 : 0 < 1 / 2 * (k + 2 - ω) * γ * v - 1
  x3 : 1 - 1 / 2 * (2 + k * (γ - 1)) * v < 0
  x4 : 0 ≤ 2 - (k + 2 - ω) * v
  dden : (k + 2 - ω) * (γ + 1) - 2 * (2 + k * (γ - 1)) < 0

theorem VacClosed.signs {γ k ω v : ℝ} (I : VacClosed γ k ω v) : VacClosedSigns γ k ω v := by
  obtain ⟨P, ht, hlo, hhi⟩ := I
  have hX := P.X_pos; have hE := P.E_pos; have hγ := P.hγ
  have hγ0 : 0 < γ := by linarith
  have hE' : 0 < (γ - 1) * k + 2 := by nlinarith [P.hk]
  unfold v2 at hlo ht; unfold vv at hhi; unfold vstar at ht
  rw [div_le_iff₀ (mul_pos hX (by linarith))] at hlo
  rw [le_div_iff₀ hX] at hhi
  rw [div_lt_div_iff₀ hE' (mul_pos hX (by linarith))] at ht
  have hv : 0 < v := by
    by_contra hc
    have : v * ((k + 2 - ω) * (γ + 1)) ≤ 0 :=
      mul_nonpos_of_nonpos_of_nonneg (not_lt.mp hc) (mul_pos hX (by linarith)).le
    linarith
  have hXv : 0 < (k + 2 - ω) * v := mul_pos hX hv
  refine ⟨hγ, hX, hE, hv, ?_, ?_, by linarith, by linarith⟩
  · nlinarith
  · have h1 : v * ((k + 2 - ω) * (γ + 1)) < v * (2 * (2 + k * (γ - 1))) := by
      apply mul_lt_mul_of_pos_left _ hv; linarith
    linarith

/-- vacuum type: denom3 < 0 -/
theorem denom3_neg {γ k ω v : ℝ} (S : VacClosedSigns γ k ω v) (hk : 0 < k) : K.denom3 γ k ω < 0 := by
  unfold K.denom3
  have h := S.dden
  have hγ := S.hγ
  -- -denom3 (γ+1) = -dden + k (γ-1)² + 2 (γ-1)
  have e : -(k * (2 - γ) - ω) * (γ + 1)
      = -((k + 2 - ω) * (γ + 1) - 2 * (2 + k * (γ - 1))) + k * (γ - 1) ^ 2 + 2 * (γ - 1) := by ring
  have hpos : 0 < -(k * (2 - γ) - ω) * (γ + 1) := by
    rw [e]
    have := mul_pos hk (pow_pos (by linarith : 0 < γ - 1) 2)
    linarith
  rcases (mul_pos_iff.mp hpos) with ⟨h1, _⟩ | ⟨_, h2⟩
  · linarith
  · linarith

/-- the power bases on the closed vacuum branch: x4 may vanish (at vv), the others are positive -/
structure VacBases (p : SedovFuncs.P) (v : ℝ) : Prop where
  x1 : 0 < p.a_val * v
  x2 : 0 < p.b_val * (p.c_val * v - 1)
  x3 : 0 < p.d_val * (1 - p.e_val * v)
  x4 : 0 ≤ p.b_val * (1 - 1 / 2 * p.xg2 * v)

theorem vacBases {p : SedovFuncs.P} {γ k ω v : ℝ} (hC : StdConsts p γ k ω) (S : VacClosedSigns γ k ω v) :
    VacBases p v := by
  obtain ⟨hγ, hX, hE, hv, h2, h3, h4, hd⟩ := S
  have hb : 0 < (γ + 1) / (γ - 1) := div_pos (by linarith) (by linarith)
  refine ⟨?_, ?_, ?_, ?_⟩
  · rw [hC.a_val]; unfold K.a_val
    exact mul_pos (mul_pos (mul_pos (by norm_num) hX) (by linarith)) hv
  · rw [hC.b_val, hC.c_val]; unfold K.b_val K.c_val
    exact mul_pos hb h2
  · rw [hC.d_val, hC.e_val]; unfold K.d_val K.e_val
    exact mul_pos_of_neg_of_neg (div_neg_of_pos_of_neg (mul_pos hX (by linarith)) hd) h3
  · rw [hC.b_val, hC.xg2]; unfold K.b_val
    exact mul_nonneg hb.le (by linarith)

/-- 1 + a5 = -γ(k-ω)/denom3 > 0 on the vacuum type -/
theorem one_add_a5_pos {p : SedovFuncs.P} {γ k ω : ℝ} (hC : StdConsts p γ k ω) (P : Params γ k ω)
    (hd3 : K.denom3 γ k ω < 0) : 0 < p.a5 + 1 := by
  rw [hC.a5]; unfold K.a5; unfold K.denom3 at hd3
  have e : (ω * (γ + 1) - 2 * k) / (k * (2 - γ) - ω) + 1 = γ * (k - ω) / (-(k * (2 - γ) - ω)) := by
    have := hd3.ne
    rw [div_neg]; field_simp; ring
  rw [e]
  exact div_pos (mul_pos P.γ_pos (by linarith [P.hωk])) (by linarith)

theorem l_continuousOn_vac {p : SedovFuncs.P} (s : Set ℝ) (hs : ∀ v ∈ s, VacBases p v) :
    ContinuousOn (SedovFuncs.L1.l_fun p) s := by
  rw [(funext (EPV.Bridge.Semi.SedovFuncs_L1_l_fun p) : SedovFuncs.L1.l_fun p = _)]
  refine (ContinuousOn.mul (ContinuousOn.rpow_const (by fun_prop) ?_) (ContinuousOn.rpow_const (by fun_prop) ?_)).mul
    (ContinuousOn.rpow_const (by fun_prop) ?_)
  · intro v hv; exact Or.inl (hs v hv).x1.ne'
  · intro v hv; exact Or.inl (hs v hv).x2.ne'
  · intro v hv; exact Or.inl (hs v hv).x3.ne'

/-- M with the two occurrences of x4 combined: x4^a5 (1 - X v/2) = x4^(a5+1)/b_val -/
def Mv (p : SedovFuncs.P) (kn : ℕ) (v : ℝ) : ℝ :=
  SedovFuncs.L1.l_fun p v ^ kn * ((p.a_val * v) ^ (p.a0 * p.omega) * (p.b_val * (p.c_val * v - 1)) ^ (p.a3 + p.a2 * p.omega)
    * (p.d_val * (1 - p.e_val * v)) ^ (p.a4 + p.a1 * p.omega)) * ((p.b_val * (1 - 1 / 2 * p.xg2 * v)) ^ (p.a5 + 1) / p.b_val)

theorem M_eq_Mv {p : SedovFuncs.P} {v : ℝ} (B : VacBases p v) (kn : ℕ) (ha5 : 0 < p.a5 + 1) :
    M p p.xg2 kn v = Mv p kn v := by
  unfold M Mv
  have hb : p.b_val ≠ 0 := left_ne_zero_of_mul B.x2.ne'
  have E4 : (p.b_val * (1 - 1 / 2 * p.xg2 * v)) ^ p.a5 * (1 - p.xg2 / 2 * v)
      = (p.b_val * (1 - 1 / 2 * p.xg2 * v)) ^ (p.a5 + 1) / p.b_val := by
    rcases B.x4.eq_or_lt with h0 | hpos
    · have h1 : 1 - 1 / 2 * p.xg2 * v = 0 := by
        rcases mul_eq_zero.mp h0.symm with h | h
        · exact absurd h hb
        · exact h
      have h2 : 1 - p.xg2 / 2 * v = 0 := by linarith
      rw [← h0, h2, Real.zero_rpow ha5.ne', mul_zero, zero_div]
    · rw [Real.rpow_add hpos, Real.rpow_one]
      field_simp
  simp only [epv_semi_leaf]
  rw [← E4]
  ring

theorem Mv_continuousOn {p : SedovFuncs.P} (kn : ℕ) (s : Set ℝ) (hs : ∀ v ∈ s, VacBases p v) (ha5 : 0 < p.a5 + 1) :
    ContinuousOn (Mv p kn) s := by
  unfold Mv
  refine (((l_continuousOn_vac s hs).pow kn).mul (((ContinuousOn.rpow_const (by fun_prop) ?_).mul
    (ContinuousOn.rpow_const (by fun_prop) ?_)).mul (ContinuousOn.rpow_const (by fun_prop) ?_))).mul
    ((ContinuousOn.rpow_const (by fun_prop) ?_).div_const _)
  · intro v hv; exact Or.inl (hs v hv).x1.ne'
  · intro v hv; exact Or.inl (hs v hv).x2.ne'
  · intro v hv; exact Or.inl (hs v hv).x3.ne'
  · intro v hv; exact Or.inr ha5.le

/-- **The mass integral of the traced density similarity function, vacuum solution type.**
For γ > 1, k ∈ ℕ, k ≥ 1, ω < k, special_singularity none (denom2 ≠ 0; denom3 < 0 is automatic), vacuum
type (vstar < v2), and ANY g : ℝ → ℝ with g(λ(v)) = G(v) for v2 < v < vv and g = 0 strictly inside
the vacuum boundary λ_v = λ(vv):  ∫₀¹ g x^(k-1) dx = (γ-1)/((γ+1)(k-ω)).
No integrability or limit hypothesis. -/
theorem mass_integral_vac {p : SedovFuncs.P} {γ ω : ℝ} (kn : ℕ) (h1 : 1 ≤ kn) (hC : StdConsts p γ kn ω)
    (P : Params γ kn ω) (htype : vstar γ kn < v2 γ kn ω) (hd2 : K.denom2 γ kn ω ≠ 0) (g : ℝ → ℝ)
    (hg : ∀ v ∈ Ioo (v2 γ kn ω) (vv kn ω), g (SedovFuncs.L1.l_fun p v) = SedovFuncs.L1.g_fun p v)
    (hhole : ∀ x ∈ Ioo 0 (SedovFuncs.L1.l_fun p (vv kn ω)), g x = 0) :
    ∫ x in (0:ℝ)..1, g x * x ^ (kn - 1) = (γ - 1) / ((γ + 1) * ((kn : ℝ) - ω)) := by
  set k : ℝ := (kn : ℝ) with hk
  have hX := P.X_pos; have hγ := P.hγ
  have hγ0 := P.γ_pos
  have hab : v2 γ k ω < vv k ω := by
    unfold v2 vv
    rw [div_lt_div_iff₀ (mul_pos hX (by linarith)) hX]
    nlinarith
  have hcl : ∀ v ∈ Icc (v2 γ k ω) (vv k ω), VacClosed γ k ω v := fun v hv => ⟨P, htype, hv.1, hv.2⟩
  have hS0 := (hcl _ (left_mem_Icc.mpr hab.le)).signs
  have hd3neg := denom3_neg hS0 P.hk
  have hd3 := hd3neg.ne
  have ha5 := one_add_a5_pos hC P hd3neg
  have hVB : ∀ v ∈ Icc (v2 γ k ω) (vv k ω), VacBases p v := fun v hv => vacBases hC (hcl v hv).signs
  have hint : ∀ v ∈ Ioo (v2 γ k ω) (vv k ω), VacInterior γ k ω v := fun v hv => ⟨P, htype, hv.1, hv.2⟩
  have hkω : 0 < k - ω := by linarith [P.hωk]
  have hMc : ContinuousOn (M p (k + 2 - ω) kn) (Icc (v2 γ k ω) (vv k ω)) := by
    rw [← hC.xg2]
    exact (Mv_continuousOn kn _ hVB ha5).congr (fun v hv => M_eq_Mv (hVB v hv) kn ha5)
  have key := integral_param_anti hab (L := SedovFuncs.L1.l_fun p) (L' := SedovFuncs.L1.l_fun_dv p)
    (W := fun v => (k - ω) * (SedovFuncs.L1.g_fun p v * SedovFuncs.L1.l_fun p v ^ (kn - 1)))
    (M := M p (k + 2 - ω) kn) (φ := fun x => (k - ω) * (g x * x ^ (kn - 1)))
    (l_continuousOn_vac _ hVB)
    (fun v hv => (Std.hasDerivAt p v (Std.bases hC (hint v hv).toSigns)).1)
    (fun v hv => Std.l_dv_neg hC (hint v hv) hd2 hd3)
    hMc
    (fun v hv => M_hasDerivAt hC (hint v hv).toSigns hd2 hd3 kn rfl h1)
    (fun v hv => by
      have B := Std.bases hC (hint v hv).toSigns
      exact mul_nonneg hkω.le (mul_nonneg (Std.g_pos p v B).le (pow_nonneg (Std.l_pos p v B).le _)))
    (fun v hv => by beta_reduce; rw [hg v hv])
  rw [(at_v2 hC P hS0.dden.ne).1] at key
  have hMvv : M p (k + 2 - ω) kn (vv k ω) = 0 := by
    unfold M vv
    have : (1 : ℝ) - (k + 2 - ω) / 2 * (2 / (k + 2 - ω)) = 0 := by field_simp; ring
    rw [this, mul_zero]
  have hM2 : M p (k + 2 - ω) kn (v2 γ k ω) = (γ - 1) / (γ + 1) := by
    unfold M; rw [(at_v2 hC P hS0.dden.ne).1, (at_v2 hC P hS0.dden.ne).2.1, one_pow, one_mul, one_mul]
    unfold v2
    have : γ + 1 ≠ 0 := by linarith
    field_simp; ring
  rw [hMvv, hM2, sub_zero] at key
  -- the vacuum boundary lies in (0, 1)
  have hBvv := hVB _ (right_mem_Icc.mpr hab.le)
  have hlvv_pos : 0 < SedovFuncs.L1.l_fun p (vv k ω) := by
    simp only [epv_semi_leaf]
    exact mul_pos (mul_pos (Real.rpow_pos_of_pos hBvv.x1 _) (Real.rpow_pos_of_pos hBvv.x2 _)) (Real.rpow_pos_of_pos hBvv.x3 _)
  have hanti : StrictAntiOn (SedovFuncs.L1.l_fun p) (Icc (v2 γ k ω) (vv k ω)) := by
    apply strictAntiOn_of_deriv_neg (convex_Icc _ _) (l_continuousOn_vac _ hVB)
    intro x hx
    rw [interior_Icc] at hx
    rw [((Std.hasDerivAt p x (Std.bases hC (hint x hx).toSigns)).1).deriv]
    exact Std.l_dv_neg hC (hint x hx) hd2 hd3
  have hlvv_lt : SedovFuncs.L1.l_fun p (vv k ω) < 1 := by
    have := hanti (left_mem_Icc.mpr hab.le) (right_mem_Icc.mpr hab.le) hab
    rwa [(at_v2 hC P hS0.dden.ne).1] at this
  -- ∫₀¹ = ∫ over (λ_v, 1): the integrand vanishes a.e. on the rest
  set lv := SedovFuncs.L1.l_fun p (vv k ω) with hlv
  have hsplit : ∫ x in (0:ℝ)..1, (k - ω) * (g x * x ^ (kn - 1)) = ∫ x in lv..1, (k - ω) * (g x * x ^ (kn - 1)) := by
    rw [intervalIntegral.integral_of_le zero_le_one, intervalIntegral.integral_of_le hlvv_lt.le]
    apply setIntegral_eq_of_subset_of_ae_diff_eq_zero measurableSet_Ioc.nullMeasurableSet
      (Ioc_subset_Ioc_left hlvv_pos.le)
    have hne : ∀ᵐ x ∂(volume : Measure ℝ), x ≠ lv := by
      have := (Set.countable_singleton lv).ae_notMem (volume : Measure ℝ)
      filter_upwards [this] with x hx
      simpa using hx
    filter_upwards [hne] with x hx hmem
    have hx0 : x ∈ Ioo 0 lv := by
      obtain ⟨⟨h0, h1⟩, h2⟩ := hmem
      simp only [mem_Ioc, not_and, not_le] at h2
      refine ⟨h0, lt_of_le_of_ne ?_ hx⟩
      by_contra hc
      exact absurd (h2 (not_le.mp hc)) (not_lt.mpr h1)
    rw [hhole x hx0]; ring
  have hfin : ∫ x in (0:ℝ)..1, (k - ω) * (g x * x ^ (kn - 1)) = (γ - 1) / (γ + 1) := by rw [hsplit, key]
  rw [intervalIntegral.integral_const_mul] at hfin
  have hg1 : γ + 1 ≠ 0 := by linarith
  field_simp
  field_simp at hfin
  linarith

end

end EPV.Sedov.Mass
