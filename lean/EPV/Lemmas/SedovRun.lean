/-
Sedov: the generated models of the whole `_run` (two-node grid, one symbolic point:
SedovRunSing / SedovRunStd / SedovRunVac) share their first decisions and their shock state with
the generated SedovShock; pinned here by name so that a change of the traced decision order breaks
these lemmas and not the property theorems silently.  Shared by Props/C11/SedovAmbient.lean and
Props/C01/SedovRun.lean.
-/
import EPV.Gen.SedovShock
import EPV.Gen.SedovRunSing
import EPV.Gen.SedovRunStd
import EPV.Gen.SedovRunVac
import EPV.Tactics
import EPV.Lemmas.Bridge.SemiTac

set_option linter.all false
set_option maxRecDepth 100000

open EPV EPV.Gen

namespace EPV.Sedov

noncomputable section

def singToShock (p : SedovRunSing.P) : SedovShock.P :=
  { alpha := p.alpha, eblast := p.eblast, gamma := p.gamma, geometry := p.geometry, omega := p.omega, rho0 := p.rho0 }
def stdToShock (p : SedovRunStd.P) : SedovShock.P :=
  { alpha := p.alpha, eblast := p.eblast, gamma := p.gamma, geometry := p.geometry, omega := p.omega, rho0 := p.rho0 }
def vacToShock (p : SedovRunVac.P) : SedovShock.P :=
  { alpha := p.alpha, eblast := p.eblast, gamma := p.gamma, geometry := p.geometry, omega := p.omega, rho0 := p.rho0 }

/-- pins: in each run model `c0` is the NaN guard and `c1` is the pre/post-shock selection
`rwant <= self.r2` with the same r2 expression as the generated `SedovShock` (a change of the
traced decision order breaks these, not the theorems silently) -/
theorem runSing_c0 (p : SedovRunSing.P) (r t : ℝ) : SedovRunSing.c0 p r t ↔ t ≤ 0 := by epv_semi_bridge_cond
theorem runSing_c1 (p : SedovRunSing.P) (r t : ℝ) :
    SedovRunSing.c1 p r t ↔ r ≤ SedovShock.L1.r2 (singToShock p) t := Iff.rfl
theorem runStd_c0 (p : SedovRunStd.P) (r t : ℝ) : SedovRunStd.c0 p r t ↔ t ≤ 0 := by epv_semi_bridge_cond
theorem runStd_c1 (p : SedovRunStd.P) (r t : ℝ) :
    SedovRunStd.c1 p r t ↔ r ≤ SedovShock.L1.r2 (stdToShock p) t := Iff.rfl
theorem runStd_c3 (p : SedovRunStd.P) (r t : ℝ) :
    SedovRunStd.c3 p r t ↔ 0 ≤ SedovShock.L1.r2 (stdToShock p) t := Iff.rfl
theorem runVac_c0 (p : SedovRunVac.P) (r t : ℝ) : SedovRunVac.c0 p r t ↔ t ≤ 0 := by epv_semi_bridge_cond
theorem runVac_c1 (p : SedovRunVac.P) (r t : ℝ) :
    SedovRunVac.c1 p r t ↔ r ≤ SedovShock.L1.r2 (vacToShock p) t := Iff.rfl

theorem shock_r2_of_pos (q : SedovShock.P) {t : ℝ} (ht : 0 < t) : SedovShock.r2 q t = SedovShock.L1.r2 q t := by
  simp only [epv_tree]
  epv_semi_prune

end

end EPV.Sedov
