/-
Lemmas for C12 (radiative shocks): the closed forms of the equilibrium-diffusion profile
(`fnctn_ED.py`, `utils.py:make_ED_solution`) in clean variables.  Nothing here mentions the
generated models.
-/
import EPV.Spec.RadShock

set_option linter.all false

namespace EPV.Spec.RadShock

noncomputable section

/-- the root -(b + √(b² - 4ac))/2/a of a x² + b x + c -/
theorem quad_root (a b c : ℝ) (ha : a ≠ 0) (hd : 0 ≤ b ^ 2 - 4 * a * c) :
    a * (-(b + Real.sqrt (b ^ 2 - 4 * a * c)) / 2 / a) ^ 2
      + b * (-(b + Real.sqrt (b ^ 2 - 4 * a * c)) / 2 / a) + c = 0 := by
  have hs := Real.sq_sqrt hd
  generalize Real.sqrt (b ^ 2 - 4 * a * c) = s at *
  field_simp
  linear_combination hs

/-- coefficient b of the momentum-flux quadratic of `fnctn_ED.rho` -/
def edB (γ P0 M0 T : ℝ) : ℝ := P0 * T ^ 4 / 3 - M0 ^ 2 - 1 / γ - P0 / 3

/-- `fnctn_ED.rho(T)` -/
def edRho (γ P0 M0 T : ℝ) : ℝ :=
  -(edB γ P0 M0 T + Real.sqrt (edB γ P0 M0 T ^ 2 - 4 * (T / γ) * M0 ^ 2)) / 2 / (T / γ)

/-- `fnctn_ED.rho(T)` is a root of the momentum-flux quadratic (T/γ) ρ² + b ρ + M₀² -/
theorem edRho_root (γ P0 M0 T : ℝ) (ha : T / γ ≠ 0)
    (hd : 0 ≤ edB γ P0 M0 T ^ 2 - 4 * (T / γ) * M0 ^ 2) :
    T / γ * edRho γ P0 M0 T ^ 2 + edB γ P0 M0 T * edRho γ P0 M0 T + M0 ^ 2 = 0 :=
  quad_root _ _ _ ha hd

/-- hence the total momentum flux at (ρ(T), T, M₀/ρ(T)) equals the upstream one, for every T -/
theorem ed_momentum (γ P0 M0 T : ℝ) (ha : T / γ ≠ 0)
    (hd : 0 ≤ edB γ P0 M0 T ^ 2 - 4 * (T / γ) * M0 ^ 2) (hρ : edRho γ P0 M0 T ≠ 0) :
    momFlux γ P0 (edRho γ P0 M0 T) T (M0 / edRho γ P0 M0 T) = momFlux γ P0 1 1 M0 := by
  have h := edRho_root γ P0 M0 T ha hd
  unfold edB at h
  generalize edRho γ P0 M0 T = ρ at *
  unfold momFlux
  have hγ : γ ≠ 0 := by
    rintro rfl
    simp at ha
  field_simp at h ⊢
  linear_combination h

/-- the upstream end of the profile (T = 1) is the state ρ = 1, provided M₀² ≥ 1/γ -/
theorem edRho_upstream (γ P0 M0 : ℝ) (hγ : 0 < γ) (hM : 1 / γ ≤ M0 ^ 2) : edRho γ P0 M0 1 = 1 := by
  unfold edRho edB
  have e : (P0 * 1 ^ 4 / 3 - M0 ^ 2 - 1 / γ - P0 / 3) ^ 2 - 4 * (1 / γ) * M0 ^ 2 = (M0 ^ 2 - 1 / γ) ^ 2 := by ring
  rw [e, Real.sqrt_sq (by linarith)]
  field_simp
  ring

/-- `fnctn_ED.dxdT` with the density and the total cross-section as given quantities -/
def edDxdT (γ P0 C0 M0 σt ρ T : ℝ) : ℝ :=
  1 / (3 * σt * ((M0 / ρ / C0) * (ρ * (M0 / ρ) ^ 2 / 2 + ρ * (T / γ / (γ - 1)) + ρ * T / γ + 4 * P0 * T ^ 4 / 3)
    - M0 / C0 * (M0 ^ 2 / 2 + 1 / (γ - 1) + 4 * P0 / 3)) / 4 / P0 / T ^ 3)

/-- the radiation flux assembled in `make_ED_solution` -/
def edFr (C0 M0 σt dxdT ρ T : ℝ) : ℝ := -4 * T ^ 3 / 3 / σt / dxdT + 4 / 3 * (M0 / ρ) / C0 * T ^ 4

/-- **F_r is the energy-flux defect**: with F_r as assembled in `make_ED_solution` the total energy
flux at (ρ, T, M₀/ρ) equals the upstream total energy flux M₀(M₀²/2 + 1/(γ-1) + 4P₀/3), for every ρ
and T (no use of the quadratic, no use of the ODE) -/
theorem ed_energy (γ P0 C0 M0 σt ρ T : ℝ) (hγ : γ ≠ 0) (hγ1 : γ - 1 ≠ 0) (hP : P0 ≠ 0) (hC : C0 ≠ 0)
    (hσ : σt ≠ 0) (hρ : ρ ≠ 0) (hT : T ≠ 0) :
    energyFlux γ P0 C0 ρ T (M0 / ρ) (edFr C0 M0 σt (edDxdT γ P0 C0 M0 σt ρ T) ρ T)
      = energyFluxEq γ P0 1 1 M0 := by
  unfold energyFlux energyFluxEq hydroEnergyFlux edFr edDxdT
  rw [div_div_eq_mul_div, div_one]
  field_simp
  ring

/-- with the ODE atom dx/dT (so dT/dx = 1/(dx/dT)) F_r is the diffusion flux plus the advected
radiation enthalpy: F_r = -(4/(3σ_t)) T³ T_x + (4/3) β T⁴ -/
theorem edFr_diffusion (C0 M0 σt dxdT ρ T Tx : ℝ) (hode : Tx = 1 / dxdT) :
    edFr C0 M0 σt dxdT ρ T = -(4 / (3 * σt)) * T ^ 3 * Tx + 4 / 3 * (M0 / ρ / C0) * T ^ 4 := by
  unfold edFr
  rw [hode]
  by_cases h1 : σt = 0
  · subst h1; simp; left; ring
  by_cases h2 : dxdT = 0
  · subst h2; simp; left; ring
  field_simp

/-! ### ion–electron shock: the hydrodynamic jump -/

/-- algebra of the hydrodynamic jump: with X the downstream Mach number squared B/A,
ρ = M²(γX+1)/X/(γM²+1) and T = M²/X/ρ² are the Rankine–Hugoniot density and temperature -/
theorem ie_core_rho (γ M X A B C : ℝ) (hA : A = 2 * γ * M ^ 2 - (γ - 1)) (hB : B = (γ - 1) * M ^ 2 + 2)
    (hC : C = γ * M ^ 2 + 1) (hA0 : A ≠ 0) (hB0 : B ≠ 0) (hC0 : C ≠ 0) (hX : X = B / A) :
    M ^ 2 * (γ * X + 1) / X / C = (γ + 1) * M ^ 2 / B := by
  rw [hX]
  field_simp
  rw [hA, hB, hC]
  ring

theorem ie_core_T (γ M X A B ρ : ℝ) (hA : A = 2 * γ * M ^ 2 - (γ - 1)) (hB : B = (γ - 1) * M ^ 2 + 2)
    (hA0 : A ≠ 0) (hB0 : B ≠ 0) (hM : M ≠ 0) (hg : γ + 1 ≠ 0) (hX : X = B / A) (hρ : ρ = (γ + 1) * M ^ 2 / B) :
    M ^ 2 / X / ρ / ρ = A * B / ((γ + 1) ^ 2 * M ^ 2) := by
  rw [hX, hρ]
  field_simp

theorem ie_core_fluxes (γ M A B ρ T : ℝ) (hA : A = 2 * γ * M ^ 2 - (γ - 1)) (hB : B = (γ - 1) * M ^ 2 + 2)
    (hB0 : B ≠ 0) (hM : M ≠ 0) (hg : γ + 1 ≠ 0) (hg0 : γ ≠ 0) (hg1 : γ - 1 ≠ 0)
    (hρ : ρ = (γ + 1) * M ^ 2 / B) (hT : T = A * B / ((γ + 1) ^ 2 * M ^ 2)) :
    massFlux ρ (M / ρ) = massFlux 1 M ∧ hydroMomFlux γ ρ T (M / ρ) = hydroMomFlux γ 1 1 M ∧
      hydroEnergyFlux γ ρ T (M / ρ) = hydroEnergyFlux γ 1 1 M := by
  unfold massFlux hydroMomFlux hydroEnergyFlux
  rw [hρ, hT]
  refine ⟨by field_simp, ?_, ?_⟩
  · field_simp
    rw [hA, hB]
    ring
  · field_simp
    rw [hA, hB]
    ring

end

end EPV.Spec.RadShock
