/-
Bridge between the traced Cog9 model and the documented formulas (see EPV/Robust.lean, GUIDE §8).
k = geometry - 1.
-/
import EPV.Gen.Cog9
import EPV.Robust
import EPV.Lemmas.HydroRobust

set_option linter.all false
open EPV EPV.Gen

namespace EPV.Bridge

/-- the NaN test is `t ≤ 0` -/
theorem cog9_c0_iff (p : Cog9.P) (r t : ℝ) : Cog9.c0 p r t ↔ t ≤ 0 := by
  simp only [epv_cond] <;> epv_arith_iff

/-- documented temperature T = 2α(γ-1)(k+1) / (Γ c₃² (2α-2β-k-7)) (r/t)², c₃ = 2 + (γ-1)(k+1); the three
denominators must not vanish for the two ways of writing the quotient to agree -/
theorem cog9_L1_temperature (p : Cog9.P) (r t : ℝ) (hΓ : p.Gamma ≠ 0)
    (hc : 2 + (p.gamma - 1) * ((p.geometry - 1) + 1) ≠ 0)
    (hD : 2 * p.alpha - 2 * p.beta - (p.geometry - 1) - 7 ≠ 0) (ht : t ≠ 0) :
    Cog9.L1.temperature p r t
      = 2 * p.alpha * (p.gamma - 1) * ((p.geometry - 1) + 1) / p.Gamma
          / (2 + (p.gamma - 1) * ((p.geometry - 1) + 1)) ^ 2
          / (2 * p.alpha - 2 * p.beta - (p.geometry - 1) - 7) * (r / t) ^ 2 := by
  simp only [epv_leaf] <;> epv_hydro_closed

end EPV.Bridge
