/-
Bridge between the traced general-EOS helper models of `exactpack/solvers/riemann/utils.py`
(`JWL_f`, `JWL_dfdr`, `sie`, `dsdr_cP`, `dsdp_cR`, `sound_speed`, `drdp_dudp`, `shock_jump`,
`shock_speed`, `star_velocity`; ideal-gas and JWL instances) and the formulas the source documents
(GUIDE §8, EPV/Robust.lean).  The ideal-gas wave functions are bridged in `EPV.Lemmas.Riemann`
(`sound_eq … shockVel_eq`).

Every lemma here is `generated tree-level definition = documented formula`, closed by `riem_deep`
(ring normalisation at every level, also inside `sqrt`/`exp`) after selecting the leaf, resp. by
`riem_side_split` for the `==` side-detection trees.  These are the only places that see the shape of
the generated terms; the property files (C02, C03, C04, C07 …) use these lemmas.
-/
import EPV.Gen.RiemSie
import EPV.Gen.RiemSound
import EPV.Gen.RiemShockJumpIG
import EPV.Gen.RiemShockJumpJWL
import EPV.Gen.RiemShockSpeedIG
import EPV.Gen.RiemShockSpeedJWL
import EPV.Gen.RiemStarVelIG
import EPV.Gen.RiemStarVelJWL
import EPV.Gen.RiemOdeIG
import EPV.Gen.RiemOdeJWL
import EPV.Gen.RiemJwlFun
import EPV.Gen.RiemJwlDfun
import EPV.Gen.RiemSieJWL
import EPV.Gen.RiemSoundJWL
import EPV.Gen.RiemDsdrJWL
import EPV.Gen.RiemDsdpJWL
import EPV.Gen.RiemDsdrIG
import EPV.Gen.RiemDsdpIG
import EPV.Lemmas.Bridge.RiemannTac

set_option linter.all false
open EPV EPV.Gen

namespace EPV.Bridge.Riem

noncomputable section

/-! ### ideal-gas closure functions, on the generated parameter records (the views `EPV.Riem.sie`,
`EPV.Riem.sound` of `EPV.Lemmas.Riemann` have the same bridge, `sie_eq`, `sound_eq`) -/

theorem sieIG_eq (P : RiemSie.P) : RiemSie.e P = (P.pk - 0) / (P.gk - 1) / P.rk := by
  simp only [epv_tree, epv_leaf] <;> riem_deep
theorem soundIG_eq (P : RiemSound.P) : RiemSound.a P = Real.sqrt (P.gk * P.pk / P.rk) := by
  simp only [epv_tree, epv_leaf] <;> riem_deep

/-! ### JWL closure functions (utils.py:5-27) -/

/-- `JWL_f(ρ, γ)`: `A (1 - G/R1r) exp(-R1r) + B (1 - G/R2r) exp(-R2r)`, `G = γ-1`, `Rir = Ri r0/ρ` -/
def jwlF (A B R1 R2 r0 g ρ : ℝ) : ℝ :=
  A * (1 - (g - 1) / (R1 * r0 / ρ)) * Real.exp (-(R1 * r0 / ρ))
    + B * (1 - (g - 1) / (R2 * r0 / ρ)) * Real.exp (-(R2 * r0 / ρ))

/-- `JWL_dfdr(ρ, γ)` -/
def jwlDf (A B R1 R2 r0 g ρ : ℝ) : ℝ :=
  A * (R1 * r0 / ρ / ρ - (g - 1) / R1 / r0 - (g - 1) / ρ) * Real.exp (-(R1 * r0 / ρ))
    + B * (R2 * r0 / ρ / ρ - (g - 1) / R2 / r0 - (g - 1) / ρ) * Real.exp (-(R2 * r0 / ρ))

theorem jwlFun_eq (P : RiemJwlFun.P) (ρ : ℝ) :
    RiemJwlFun.f P ρ = jwlF P.A P.B P.R1 P.R2 P.r0 P.gk ρ := by
  simp only [jwlF, epv_tree, epv_leaf] <;> riem_deep

theorem jwlDfun_eq (P : RiemJwlDfun.P) (ρ : ℝ) :
    RiemJwlDfun.df P ρ = jwlDf P.A P.B P.R1 P.R2 P.r0 P.gk ρ := by
  simp only [jwlDf, epv_tree, epv_leaf] <;> riem_deep

/-- `sie(p, ρ, γ)`, problem = 'JWL': `(p - JWL_f(ρ)) / (γ-1) / ρ` -/
theorem sieJWL_eq (P : RiemSieJWL.P) (pk ρ : ℝ) :
    RiemSieJWL.e P pk ρ = (pk - jwlF P.A P.B P.R1 P.R2 P.r0 P.gk ρ) / (P.gk - 1) / ρ := by
  simp only [jwlF, epv_tree, epv_leaf] <;> riem_deep

/-- `dsdr_cP`, JWL: `-JWL_dfdr/G/ρ - (p - JWL_f)/G/ρ²` -/
theorem dsdrJWL_eq (P : RiemDsdrJWL.P) :
    RiemDsdrJWL.d P = -jwlDf P.A P.B P.R1 P.R2 P.r0 P.gk P.rho / (P.gk - 1) / P.rho
      - (P.pk - jwlF P.A P.B P.R1 P.R2 P.r0 P.gk P.rho) / (P.gk - 1) / P.rho ^ 2 := by
  simp only [jwlF, jwlDf, epv_tree, epv_leaf] <;> riem_deep

/-- `dsdr_cP`, ideal gas: `-p/G/ρ²` -/
theorem dsdrIG_eq (P : RiemDsdrIG.P) : RiemDsdrIG.d P = -P.pk / (P.gk - 1) / P.rho ^ 2 := by
  simp only [epv_tree, epv_leaf] <;> riem_deep

/-- `dsdp_cR`: `1/ρ/(γ-1)` for both closures -/
theorem dsdpJWL_eq (P : RiemDsdpJWL.P) : RiemDsdpJWL.d P = 1 / P.rho / (P.gk - 1) := by
  simp only [epv_tree, epv_leaf] <;> riem_deep
theorem dsdpIG_eq (P : RiemDsdpIG.P) : RiemDsdpIG.d P = 1 / P.rho / (P.gk - 1) := by
  simp only [epv_tree, epv_leaf] <;> riem_deep

/-- the argument of the square root in the general `sound_speed`: `(p/ρ² - dsdr_cP)/dsdp_cR` with the
JWL closure -/
def cSqJWL (A B R1 R2 r0 g p ρ : ℝ) : ℝ :=
  (p / ρ ^ 2 - (-jwlDf A B R1 R2 r0 g ρ / (g - 1) / ρ - (p - jwlF A B R1 R2 r0 g ρ) / (g - 1) / ρ ^ 2))
    / (1 / ρ / (g - 1))

theorem soundJWL_eq (P : RiemSoundJWL.P) :
    RiemSoundJWL.a P = Real.sqrt (cSqJWL P.A P.B P.R1 P.R2 P.r0 P.gk P.pk P.rho) := by
  simp only [cSqJWL, jwlF, jwlDf, epv_tree, epv_leaf] <;> riem_deep

/-! ### derivatives of the documented JWL closure functions

Hand-written once for the *documented* formulas, with the same combinators `EPV.D.*` the generated
certificates are built from; the property files transfer them to the traced functions through the
bridge lemmas above, so they do not depend on the shape of the traced terms (nor on the shape of the
regenerated derivative expressions). -/

/-- `JWL_dfdr` is d/dρ of `JWL_f` -/
theorem jwlF_hasDerivAt (A B R1 R2 r0 g ρ : ℝ) (hρ : ρ ≠ 0) (h1 : R1 * r0 ≠ 0) (h2 : R2 * r0 ≠ 0) :
    HasDerivAt (fun r => jwlF A B R1 R2 r0 g r) (jwlDf A B R1 R2 r0 g ρ) ρ := by
  have k1 : R1 * r0 / ρ ≠ 0 := div_ne_zero h1 hρ
  have k2 : R2 * r0 / ρ ≠ 0 := div_ne_zero h2 hρ
  have hR1 : R1 ≠ 0 := left_ne_zero_of_mul h1
  have hR2 : R2 ≠ 0 := left_ne_zero_of_mul h2
  have hr0 : r0 ≠ 0 := right_ne_zero_of_mul h1
  unfold jwlF
  refine (EPV.D.add
    (EPV.D.mul (EPV.D.const_mul A (EPV.D.const_sub (1 : ℝ) (EPV.D.div (hasDerivAt_const ρ (g - 1))
        (EPV.D.div (hasDerivAt_const ρ (R1 * r0)) (hasDerivAt_id' ρ) hρ) k1)))
      (EPV.D.exp (EPV.D.neg (EPV.D.div (hasDerivAt_const ρ (R1 * r0)) (hasDerivAt_id' ρ) hρ))))
    (EPV.D.mul (EPV.D.const_mul B (EPV.D.const_sub (1 : ℝ) (EPV.D.div (hasDerivAt_const ρ (g - 1))
        (EPV.D.div (hasDerivAt_const ρ (R2 * r0)) (hasDerivAt_id' ρ) hρ) k2)))
      (EPV.D.exp (EPV.D.neg (EPV.D.div (hasDerivAt_const ρ (R2 * r0)) (hasDerivAt_id' ρ) hρ))))).congr_deriv ?_
  unfold jwlDf
  field_simp
  ring

/-- `dsdr_cP` (JWL) is ∂/∂ρ at constant p of the documented `sie` -/
theorem sieJWL_hasDerivAt_rho (A B R1 R2 r0 g p ρ : ℝ) (hρ : ρ ≠ 0) (h1 : R1 * r0 ≠ 0) (h2 : R2 * r0 ≠ 0) :
    HasDerivAt (fun r => (p - jwlF A B R1 R2 r0 g r) / (g - 1) / r)
      (-jwlDf A B R1 R2 r0 g ρ / (g - 1) / ρ - (p - jwlF A B R1 R2 r0 g ρ) / (g - 1) / ρ ^ 2) ρ := by
  have hF := jwlF_hasDerivAt A B R1 R2 r0 g ρ hρ h1 h2
  refine (EPV.D.div (EPV.D.div_const (EPV.D.const_sub p hF) (g - 1)) (hasDerivAt_id' ρ) hρ).congr_deriv ?_
  generalize jwlDf A B R1 R2 r0 g ρ = D
  generalize jwlF A B R1 R2 r0 g ρ = F
  field_simp <;> ring

/-- `dsdp_cR` is ∂/∂p at constant ρ of the documented `sie` -/
theorem sieJWL_hasDerivAt_p (F g p ρ : ℝ) :
    HasDerivAt (fun x => (x - F) / (g - 1) / ρ) (1 / ρ / (g - 1)) p := by
  refine (EPV.D.div_const (EPV.D.div_const (EPV.D.sub_const (hasDerivAt_id' p) F) (g - 1)) ρ).congr_deriv ?_
  ring

/-! ### `drdp_dudp` (utils.py:62-67): `[1/a², 1/ρ/a·wave_sign]` -/

theorem odeIG_drdp_eq (P : RiemOdeIG.P) : RiemOdeIG.drdp P = 1 / Real.sqrt (P.gk * P.pz / P.rz) ^ 2 := by
  simp only [epv_tree, epv_leaf] <;> riem_deep
theorem odeIG_dudp_eq (P : RiemOdeIG.P) : RiemOdeIG.dudp P = 1 / P.rz / Real.sqrt (P.gk * P.pz / P.rz) * P.ws := by
  simp only [epv_tree, epv_leaf] <;> riem_deep
theorem odeJWL_drdp_eq (P : RiemOdeJWL.P) :
    RiemOdeJWL.drdp P = 1 / Real.sqrt (cSqJWL P.A P.B P.R1 P.R2 P.r0 P.gk P.pz P.rz) ^ 2 := by
  simp only [cSqJWL, jwlF, jwlDf, epv_tree, epv_leaf] <;> riem_deep
theorem odeJWL_dudp_eq (P : RiemOdeJWL.P) :
    RiemOdeJWL.dudp P = 1 / P.rz / Real.sqrt (cSqJWL P.A P.B P.R1 P.R2 P.r0 P.gk P.pz P.rz) * P.ws := by
  simp only [cSqJWL, jwlF, jwlDf, epv_tree, epv_leaf] <;> riem_deep

/-! ### `shock_jump` (utils.py:70-75) -/

/-- the expression `shock_jump` evaluates, for given energies ahead (`e0`) and behind (`e1`) -/
def jumpForm (e0 e1 p0 r0 p1 r1 : ℝ) : ℝ :=
  (e0 + p0 / r0 + r1 / r0 * (p1 - p0) / (r1 - r0) / 2) - (e1 + p1 / r1 + r0 / r1 * (p1 - p0) / (r1 - r0) / 2)

theorem shockJumpIG_eq (P : RiemShockJumpIG.P) :
    RiemShockJumpIG.res P
      = jumpForm ((P.pk - 0) / (P.gk - 1) / P.rk) ((P.pz - 0) / (P.gk - 1) / P.rz) P.pk P.rk P.pz P.rz := by
  simp only [jumpForm, epv_tree, epv_leaf] <;> riem_deep

theorem shockJumpJWL_eq (P : RiemShockJumpJWL.P) :
    RiemShockJumpJWL.res P
      = jumpForm ((P.pk - jwlF P.A P.B P.R1 P.R2 P.r0 P.gk P.rk) / (P.gk - 1) / P.rk)
          ((P.pz - jwlF P.A P.B P.R1 P.R2 P.r0 P.gk P.rz) / (P.gk - 1) / P.rz) P.pk P.rk P.pz P.rz := by
  simp only [jumpForm, jwlF, epv_tree, epv_leaf] <;> riem_deep

/-! ### `shock_speed`, `star_velocity` (utils.py:78-88): the `==` side detection
`(pb == inst.pl) and (rb == inst.rl) and (u == inst.ul)` picks the sign -/

/-- -1 on the left state, +1 otherwise -/
def sideSgn (pk rk uk pl rl ul : ℝ) : ℝ := if pk = pl ∧ rk = rl ∧ uk = ul then -1 else 1

theorem sideSgn_self (pl rl ul : ℝ) : sideSgn pl rl ul pl rl ul = -1 := if_pos ⟨rfl, rfl, rfl⟩
theorem sideSgn_of_ne {pk rk uk pl rl ul : ℝ} (h : ¬ (pk = pl ∧ rk = rl ∧ uk = ul)) :
    sideSgn pk rk uk pl rl ul = 1 := if_neg h

theorem sideSgn_cases (pk rk uk pl rl ul : ℝ) : sideSgn pk rk uk pl rl ul = -1 ∨ sideSgn pk rk uk pl rl ul = 1 := by
  unfold sideSgn; split_ifs <;> simp

/-- the speed of a discontinuity relative to the gas ahead: `√(ρ₁/ρ₀ (p₁-p₀)/(ρ₁-ρ₀))` -/
def relSpeed (p0 r0 p1 r1 : ℝ) : ℝ := Real.sqrt (r1 / r0 * (p1 - p0) / (r1 - r0))

/-- the second relative speed of `star_velocity` has the same radicand, written from the other side -/
theorem relSpeed_swap (p0 r0 p1 r1 : ℝ) : relSpeed p1 r1 p0 r0 = Real.sqrt (r0 / r1 * (p1 - p0) / (r1 - r0)) := by
  unfold relSpeed
  congr 1
  rw [← neg_sub p1 p0, ← neg_sub r1 r0, mul_neg, neg_div_neg_eq]

theorem shockSpeedIG_eq (P : RiemShockSpeedIG.P) :
    RiemShockSpeedIG.V P = sideSgn P.pk P.rk P.uk P.pl P.rl P.ul * relSpeed P.pk P.rk P.pz P.rz + P.uk := by
  simp only [sideSgn, relSpeed, epv_tree]
  riem_side_split
theorem shockSpeedJWL_eq (P : RiemShockSpeedJWL.P) :
    RiemShockSpeedJWL.V P = sideSgn P.pk P.rk P.uk P.pl P.rl P.ul * relSpeed P.pk P.rk P.pz P.rz + P.uk := by
  simp only [sideSgn, relSpeed, epv_tree]
  riem_side_split

/-- `star_velocity` as `match_shocks` calls it (arrays of star values: the inner side detection of
`shock_speed` is skipped, both relative speeds carry the sign +1) -/
theorem starVelIG_eq (P : RiemStarVelIG.P) :
    RiemStarVelIG.u P
      = P.uk + (relSpeed P.pk P.rk P.pz P.rz - relSpeed P.pz P.rz P.pk P.rk) * sideSgn P.pk P.rk P.uk P.pl P.rl P.ul := by
  simp only [sideSgn, relSpeed, epv_tree]
  riem_side_split
theorem starVelJWL_eq (P : RiemStarVelJWL.P) :
    RiemStarVelJWL.u P
      = P.uk + (relSpeed P.pk P.rk P.pz P.rz - relSpeed P.pz P.rz P.pk P.rk) * sideSgn P.pk P.rk P.uk P.pl P.rl P.ul := by
  simp only [sideSgn, relSpeed, epv_tree]
  riem_side_split

end

end EPV.Bridge.Riem
