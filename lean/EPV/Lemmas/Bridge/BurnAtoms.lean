/-
Shape-independent handling of the square-root atoms in the generated derivative of Kenamond 3's shadow leaf
(`Props/C13/Kenamond3.lean`, gradient in the shadow region).  See GUIDE §8 and `Bridge/DetonTactics.lean`.

The generated derivative contains `√(x_d·x_d)`, `√(q·q)`, `√(‖q‖² - R²)`, `√(1 - u²)` (from `arccos`), … in whatever
writing the Python gives their arguments (`l_od ** 2` or `l_od * l_od`, `np.dot(vec, x_d)` or `np.dot(x_d, vec)`, …).
`epv_deton_sqrt_rw_by y (tac)` takes the first INNERMOST `Real.sqrt e` of the goal, whatever `e` looks like, and
rewrites it to the documented length `y`, given `0 ≤ y` in the context and `tac` proving `e = y ^ 2`; a wrong candidate
simply fails, so `first | … | …` over the documented lengths identifies every atom by its VALUE.
-/
import EPV.Lemmas.Bridge.DetonTactics

open Lean Elab Tactic Meta

elab "epv_deton_sqrt_rw_by " y:term:max " (" tac:tacticSeq ")" : tactic => withMainContext do
  let g ← instantiateMVars (← getMainTarget)
  let isSqrt : Expr → Bool := fun e => e.isAppOfArity ``Real.sqrt 1
  let some e := g.find? (fun e => isSqrt e && !e.hasLooseBVars && ((e.getArg! 0).find? isSqrt).isNone)
    | throwError "epv_deton_sqrt_rw_by: no innermost Real.sqrt in the goal"
  let arg ← Term.exprToSyntax (e.getArg! 0)
  evalTactic (← `(tactic|
    (have hsq : Real.sqrt ($arg) = $y
     · have harg : ($arg) = ($y) ^ 2
       · ($tac)
       rw [harg]; apply Real.sqrt_sq; first | assumption | exact le_of_lt (by assumption) | positivity | linarith
     rw [hsq]; clear hsq)))

/-- the rational parametrisation of a right triangle: `R² + b² = c²`, `0 < b`, `0 < c + R`
⇒ `R = c (1 - m²)/(1 + m²)`, `b = 2 c m/(1 + m²)` with `m = b/(c + R)` — turns the relation into an identity -/
theorem EPV.Bridge.Deton.pythagoras_param {R b c : ℝ} (h : b ^ 2 = c ^ 2 - R ^ 2) (hcR : 0 < c + R) :
    ∃ m : ℝ, R = c * (1 - m ^ 2) / (1 + m ^ 2) ∧ b = 2 * c * m / (1 + m ^ 2) := by
  refine ⟨b / (c + R), ?_, ?_⟩
  · have h1 : (c + R) ^ 2 + b ^ 2 = 2 * c * (c + R) := by rw [h]; ring
    have h2 : (c + R) ^ 2 - b ^ 2 = 2 * R * (c + R) := by rw [h]; ring
    have hne : c + R ≠ 0 := hcR.ne'
    have hpos : 0 < 1 + (b / (c + R)) ^ 2 := by positivity
    rw [eq_div_iff hpos.ne']
    have e1 : 1 + (b / (c + R)) ^ 2 = 2 * c / (c + R) := by
      rw [div_pow]; field_simp; linarith
    have e2 : 1 - (b / (c + R)) ^ 2 = 2 * R / (c + R) := by
      rw [div_pow]; field_simp; linarith
    rw [e1, e2]; field_simp
  · have h1 : (c + R) ^ 2 + b ^ 2 = 2 * c * (c + R) := by rw [h]; ring
    have hne : c + R ≠ 0 := hcR.ne'
    have hpos : 0 < 1 + (b / (c + R)) ^ 2 := by positivity
    rw [eq_div_iff hpos.ne']
    have e1 : 1 + (b / (c + R)) ^ 2 = 2 * c / (c + R) := by
      rw [div_pow]; field_simp; linarith
    rw [e1]; field_simp
