/-
Shape-independent closing tactics for the semi-analytic family (Sedov, Guderley, RMTV, radiative
shocks, Su-Olson, 2-D steady Riemann) — robust-semi, GUIDE §8.

The generated models follow the shape of the Python expression.  A bridge lemma states that a
generated leaf / condition is the documented one; it is proved by comparing the two sides *up to ring
normalisation at every level* (also inside the arguments of `Real.rpow`, `Real.sqrt`, `Real.exp`,
`Real.arctan` …), so renaming or hoisting locals, reassociating and commuting sums and products,
`x**2` ↔ `x*x`, `/2` ↔ `0.5*`, `a/b/c` ↔ `a/(b*c)`, `max(a, b)` ↔ `max(b, a)` do not break it.

NB `ring` (the macro) *succeeds* when `ring_nf` merely makes progress, so inside `first` it would hide
the later alternatives: the tactics below use `ring1`.

All names carry the prefix `epv_semi_`.
-/
import EPV.Robust
import EPV.Lemmas.Bridge.SemiAttr
import Mathlib.Tactic.Ring.RingNF
import Mathlib.Tactic.FieldSimp
import Mathlib.Tactic.Linarith
import Mathlib.Tactic.NormNum
import Mathlib.Tactic.Tauto
import Mathlib.Analysis.SpecialFunctions.Pow.Real

/-- push inverses inwards: afterwards `⁻¹` is applied only to sums and atoms -/
macro "epv_semi_inv_nf" : tactic =>
  `(tactic| simp only [div_eq_mul_inv, mul_inv, inv_inv, ← inv_pow, inv_neg, mul_pow, one_mul, mul_one, inv_one])

/-- `A = B` for two real expressions that agree up to ring normalisation at every level -/
macro "epv_semi_eq" : tactic =>
  `(tactic| first
    | done
    | with_reducible rfl
    | ring1
    | (ring_nf; done)
    | (simp only [div_eq_mul_inv, mul_inv, inv_inv]; ring_nf; done)
    | (epv_semi_inv_nf; ring_nf; done)
    | (field_simp; ring1)
    | (field_simp; ring_nf; done)
    | (simp only [div_eq_mul_inv, mul_inv, inv_inv, mul_one, one_mul, mul_neg, neg_mul, add_zero, zero_add,
        sub_zero, mul_zero, zero_mul, neg_zero, zero_div]; ring_nf; done)
    | (norm_num; first | done | ring1 | (ring_nf; done))
    -- last: `rfl` at default transparency (on two different large real terms it can run into the heartbeat limit
    -- instead of failing, so it must not come before the normalising alternatives)
    | rfl)

/-- a conjunction of `epv_semi_eq` goals, whatever its length -/
macro "epv_semi_conj" : tactic =>
  `(tactic| ((repeat' apply And.intro) <;> epv_semi_eq))

/-- a (negated) linear comparison from the comparisons in context, whichever way the Python wrote the
test (`t <= 0`, `not t > 0`, `0 >= t`) -/
macro "epv_semi_lin" : tactic =>
  `(tactic| first
    | assumption
    | linarith
    | (push Not; linarith)
    | (push Not at *; linarith)
    | (intro h; linarith)
    | nlinarith)

/-- `A ↔ B` for two comparisons whose sides are the same polynomials written differently
(also `¬ a < b` against `b ≤ a`) -/
macro "epv_semi_iff" : tactic =>
  `(tactic| first
    | exact Iff.rfl
    | exact not_lt
    | exact not_le
    | (constructor <;> intro h <;>
        first | exact h | linarith | (push Not at h ⊢; linarith) | nlinarith
              | (ring_nf at h ⊢; first | exact h | linarith)))

/-- tree-level identity of a generated model: unfold the tree, split on the traced path conditions,
close the cases the hypotheses in context exclude (linear arithmetic on the unfolded conditions),
compare the remaining leaves with the documented form up to normalisation.  Indifferent to the order
of the branches and to how the guard is written. -/
macro "epv_semi_tree" : tactic =>
  `(tactic| (simp only [epv_tree]
             (try split_ifs) <;>
             first
             | (simp only [epv_leaf]; epv_semi_eq)
             | (exfalso; simp only [epv_cond] at *; epv_semi_lin)))

open Lean Elab Tactic Meta in
/-- `epv_semi_prune1`: find the outermost `if c then _ else _` of the goal, decide `c` from the context
(either `c` / `¬ c` is a hypothesis as it stands, or it follows by linear arithmetic after unfolding the traced
condition) and rewrite the goal with `if_pos` / `if_neg`.  Fails if `c` cannot be decided.  It never looks at
the *number* of the condition, so the order in which the Python makes its tests does not matter. -/
elab "epv_semi_prune1" : tactic => withMainContext do
  let g ← instantiateMVars (← getMainTarget)
  let some e := g.find? (fun e => e.isAppOfArity ``ite 5 && !(e.getArg! 1).hasLooseBVars)
    | throwError "epv_semi_prune1: no if-then-else in the goal"
  let stx ← Term.exprToSyntax (e.getArg! 1)
  evalTactic (← `(tactic| first
    | (have hprune : $stx := by
         first | assumption | (simp only [epv_cond]; epv_semi_lin) | (simp only [epv_cond]; norm_num; done)
               | (simp only [epv_cond]; simp only [*]; norm_num; done)
       simp only [if_pos hprune]
       try clear hprune)
    | (have hprune : ¬ $stx := by
         first | assumption | (simp only [epv_cond]; epv_semi_lin) | (simp only [epv_cond]; norm_num; done)
               | (simp only [epv_cond]; simp only [*]; norm_num; done)
       simp only [if_neg hprune]
       try clear hprune)))

/-- decide one traced condition (or its negation) from the context: it is a hypothesis as it stands, or follows
by linear arithmetic after unfolding (cheap on purpose: it is tried on every condition along a path) -/
macro "epv_semi_decide" : tactic =>
  `(tactic| first
    | assumption
    | (simp only [epv_cond]; first | assumption | linarith | (intro h; linarith) | (push Not; linarith)))

namespace EPV.Bridge.SemiTac
open Lean Elab Tactic Meta in
/-- walk the decision trees in `e` from their roots, following the branch `decide` selects; stop where it cannot decide -/
partial def walkIte (decide : Expr → TacticM (Option Bool)) (e : Expr) : TacticM Unit := do
  if e.isAppOfArity ``ite 5 && !(e.getArg! 1).hasLooseBVars then
    match ← decide (e.getArg! 1) with
    | some true => walkIte decide (e.getArg! 3)
    | some false => walkIte decide (e.getArg! 4)
    | none => pure ()
  else
    match e with
    | .app f a => walkIte decide f; walkIte decide a
    | .lam _ _ b _ => walkIte decide b
    | .forallE _ t b _ => walkIte decide t; walkIte decide b
    | .letE _ _ v b _ => walkIte decide v; walkIte decide b
    | .mdata _ b => walkIte decide b
    | .proj _ _ b => walkIte decide b
    | _ => pure ()
end EPV.Bridge.SemiTac

namespace EPV.Bridge.SemiTac
/-- marker left in the context by `epv_semi_facts`: "the context does not decide `c`" (so that the many goals a
later split produces do not try again) -/
def Undecided (_c : Prop) : Prop := True

open Lean Elab Tactic Meta in
/-- decide the conditions along the spines of the decision trees in `e` (each distinct condition once);
returns the names of the facts added to the context.  With `keep`, undecided conditions get an `Undecided` marker. -/
def spineFacts (e : Expr) (keep : Bool) : TacticM (Array Ident) := do
  let cache ← IO.mkRef (#[] : Array (Expr × Option Bool))
  let names ← IO.mkRef (#[] : Array Ident)
  let decide (c : Expr) : TacticM (Option Bool) := withMainContext do
    for (c', r) in (← cache.get) do
      if c' == c then return r
    -- a marker from an earlier `epv_semi_facts`?
    for d in (← getLCtx) do
      if d.isImplementationDetail then continue
      let ty ← instantiateMVars d.type
      if ty.isAppOfArity ``Undecided 1 && ty.getArg! 0 == c then
        cache.modify (·.push (c, none))
        return none
    let stx ← Term.exprToSyntax c
    let n := mkIdent (Name.mkSimple s!"hprune{(← cache.get).size}")
    let r ← (do
      try
        withoutRecover (evalTactic (← `(tactic| have $n : $stx := by epv_semi_decide)))
        names.modify (·.push n)
        pure (some true)
      catch _ =>
        try
          withoutRecover (evalTactic (← `(tactic| have $n : ¬ $stx := by epv_semi_decide)))
          names.modify (·.push n)
          pure (some false)
        catch _ =>
          if keep then
            evalTactic (← `(tactic| have $n : EPV.Bridge.SemiTac.Undecided $stx := trivial))
          pure none)
    cache.modify (·.push (c, r))
    return r
  walkIte decide e
  names.get
end EPV.Bridge.SemiTac

open Lean Elab Tactic Meta in
/-- `epv_semi_prune`: prune the traced decision trees in the goal by everything the context decides.  Each tree is
walked from its root: the condition `c` of `if c then a else b` is decided (`epv_semi_decide`; each distinct
condition once), the walk goes on in the selected branch and stops at the first condition the context does not
decide; then the goal is rewritten with all the decided conditions at once.  It never looks at the *number* of a
condition, so the order in which the Python makes its tests does not matter. -/
elab "epv_semi_prune" : tactic => withMainContext do
  let g ← instantiateMVars (← getMainTarget)
  let ns ← EPV.Bridge.SemiTac.spineFacts g false
  if ns.isEmpty then return
  let lems ← ns.mapM fun n => `(Lean.Parser.Tactic.simpLemma| $n:ident)
  evalTactic (← `(tactic| simp only [$lems,*, if_true, if_false]))
  for n in ns do
    try evalTactic (← `(tactic| clear $n)) catch _ => pure ()

open Lean Elab Tactic Meta in
/-- `epv_semi_facts t`: `t` is an application of a tree-level generated definition (e.g. `M.outcome p`).  Decides the
conditions along the spine of its decision tree as `epv_semi_prune` does and LEAVES the facts in the context (plus
a marker for the first undecided condition), so that the `epv_semi_prune` calls in the goals of a later split find
them by `assumption`. -/
elab "epv_semi_facts " t:term : tactic => withMainContext do
  let e ← elabTerm t none
  let e ← instantiateMVars e
  let some body ← unfoldDefinition? e | throwError "epv_semi_facts: cannot unfold{indentExpr e}"
  let _ ← EPV.Bridge.SemiTac.spineFacts body true

open Lean Elab Tactic Meta in
/-- split on the sign of the argument of one absolute value occurring in the goal or in a hypothesis
(`abs_cases`), rewrite `|X|` everywhere accordingly; the sign fact stays in the context -/
elab "epv_semi_abs_split1" : tactic => withMainContext do
  let check (e : Expr) : Option Expr := e.find? (fun s => s.isAppOfArity ``abs 4 && !s.hasLooseBVars)
  let mut found : Option Expr := check (← instantiateMVars (← getMainTarget))
  if found.isNone then
    for d in (← getLCtx) do
      if d.isImplementationDetail then continue
      if let some s := check (← instantiateMVars d.type) then
        found := some s
        break
  let some s := found | throwError "epv_semi_abs_split1: no absolute value"
  let x ← Term.exprToSyntax (s.getArg! 3)
  evalTactic (← `(tactic| rcases abs_cases $x with ⟨habs, hsgn⟩ | ⟨habs, hsgn⟩ <;>
    (simp only [habs] at * <;> clear habs)))

/-- linear arithmetic with absolute values: case split on the sign of every `|X|`, then `epv_semi_lin` -/
macro "epv_semi_abs_lin" : tactic =>
  `(tactic| ((repeat' epv_semi_abs_split1) <;> epv_semi_lin))

open Lean Elab Tactic Meta in
/-- case analysis on the outermost `if c then _ else _` of the goal (`by_cases`, goal rewritten with
`if_pos` / `if_neg`); linear in the number of leaves when repeated along a traced decision tree -/
elab "epv_semi_split1" : tactic => withMainContext do
  let g ← instantiateMVars (← getMainTarget)
  let some e := g.find? (fun e => e.isAppOfArity ``ite 5 && !(e.getArg! 1).hasLooseBVars)
    | throwError "epv_semi_split1: no if-then-else in the goal"
  let stx ← Term.exprToSyntax (e.getArg! 1)
  evalTactic (← `(tactic| by_cases hsplit : $stx <;>
    first | simp only [if_pos hsplit] | simp only [if_neg hsplit]))

/-- walk a traced decision tree: decide what the context decides, split on the rest -/
macro "epv_semi_walk" : tactic => `(tactic| repeat' (first | epv_semi_prune1 | epv_semi_split1))

/-- proof of a bridge lemma `M.L<i>.<field> … = <closed form>` -/
macro "epv_semi_bridge_leaf" : tactic =>
  `(tactic| first | (simp only [epv_leaf]; done) | (simp only [epv_leaf] <;> epv_semi_eq))

/-- proof of a bridge lemma `M.L<i>.<field>_d<v> … = <closed form>` -/
macro "epv_semi_bridge_deriv" : tactic =>
  `(tactic| first | (simp only [epv_deriv]; done) | (simp only [epv_deriv] <;> epv_semi_eq))

/-- proof of a bridge lemma `M.c<i> … ↔ <documented test>` -/
macro "epv_semi_bridge_cond" : tactic =>
  `(tactic| first
    | exact Iff.rfl
    | (simp only [epv_cond] <;>
       first
       | epv_semi_iff
       | (ring_nf; done)
       | (constructor <;> intro h <;> ring_nf at h ⊢ <;> first | exact h | linarith)))
