/-
Shape-independent closing tactics for the semi-analytic family (Sedov, Guderley, RMTV, radiative
shocks, Su-Olson, 2-D steady Riemann) — robust-semi, GUIDE §8.

The generated models follow the shape of the Python expression.  A bridge lemma states that a
generated leaf / condition is the documented one; it is proved by comparing the two sides *up to ring
normalisation at every level* (also inside the arguments of `Real.rpow`, `Real.sqrt`, `Real.exp`,
`Real.arctan` …), so renaming or hoisting locals, reassociating and commuting sums and products,
`x**2` ↔ `x*x`, `/2` ↔ `0.5*`, `a/b/c` ↔ `a/(b*c)`, `max(a, b)` ↔ `max(b, a)` do not break it.

NB `ring` (the macro) *succeeds* when `ring_nf` merely makes progress, so inside `first` it would hide
the later alternatives: the tactics below use `ring1`.

All names carry the prefix `epv_semi_`.
-/
import EPV.Robust
import Mathlib.Tactic.Ring.RingNF
import Mathlib.Tactic.FieldSimp
import Mathlib.Tactic.Linarith
import Mathlib.Tactic.NormNum
import Mathlib.Tactic.Tauto
import Mathlib.Analysis.SpecialFunctions.Pow.Real

/-- push inverses inwards: afterwards `⁻¹` is applied only to sums and atoms -/
macro "epv_semi_inv_nf" : tactic =>
  `(tactic| simp only [div_eq_mul_inv, mul_inv, inv_inv, ← inv_pow, inv_neg, mul_pow, one_mul, mul_one, inv_one])

/-- `A = B` for two real expressions that agree up to ring normalisation at every level -/
macro "epv_semi_eq" : tactic =>
  `(tactic| first
    | done
    | rfl
    | ring1
    | (ring_nf; done)
    | (simp only [div_eq_mul_inv, mul_inv, inv_inv]; ring_nf; done)
    | (epv_semi_inv_nf; ring_nf; done)
    | (field_simp; ring1)
    | (field_simp; ring_nf; done)
    | (simp only [div_eq_mul_inv, mul_inv, inv_inv, mul_one, one_mul, mul_neg, neg_mul, add_zero, zero_add,
        sub_zero, mul_zero, zero_mul, neg_zero, zero_div]; ring_nf; done)
    | (norm_num; first | done | ring1 | (ring_nf; done)))

/-- a conjunction of `epv_semi_eq` goals, whatever its length -/
macro "epv_semi_conj" : tactic =>
  `(tactic| ((repeat' apply And.intro) <;> epv_semi_eq))

/-- a (negated) linear comparison from the comparisons in context, whichever way the Python wrote the
test (`t <= 0`, `not t > 0`, `0 >= t`) -/
macro "epv_semi_lin" : tactic =>
  `(tactic| first
    | assumption
    | linarith
    | (push_neg; linarith)
    | (push_neg at *; linarith)
    | (intro h; linarith)
    | nlinarith)

/-- `A ↔ B` for two comparisons whose sides are the same polynomials written differently
(also `¬ a < b` against `b ≤ a`) -/
macro "epv_semi_iff" : tactic =>
  `(tactic| first
    | exact Iff.rfl
    | exact not_lt
    | exact not_le
    | (constructor <;> intro h <;>
        first | exact h | linarith | (push_neg at h ⊢; linarith) | nlinarith
              | (ring_nf at h ⊢; first | exact h | linarith)))

/-- tree-level identity of a generated model: unfold the tree, split on the traced path conditions,
close the cases the hypotheses in context exclude (linear arithmetic on the unfolded conditions),
compare the remaining leaves with the documented form up to normalisation.  Indifferent to the order
of the branches and to how the guard is written. -/
macro "epv_semi_tree" : tactic =>
  `(tactic| (simp only [epv_tree]
             (try split_ifs) <;>
             first
             | (simp only [epv_leaf]; epv_semi_eq)
             | (exfalso; simp only [epv_cond] at *; epv_semi_lin)))

open Lean Elab Tactic Meta in
/-- `epv_semi_prune1`: find the outermost `if c then _ else _` of the goal, decide `c` from the context
(either `c` / `¬ c` is a hypothesis as it stands, or it follows by linear arithmetic after unfolding the traced
condition) and rewrite the goal with `if_pos` / `if_neg`.  Fails if `c` cannot be decided.  It never looks at
the *number* of the condition, so the order in which the Python makes its tests does not matter. -/
elab "epv_semi_prune1" : tactic => withMainContext do
  let g ← instantiateMVars (← getMainTarget)
  let some e := g.find? (fun e => e.isAppOfArity ``ite 5 && !(e.getArg! 1).hasLooseBVars)
    | throwError "epv_semi_prune1: no if-then-else in the goal"
  let stx ← Term.exprToSyntax (e.getArg! 1)
  evalTactic (← `(tactic| first
    | (have hprune : $stx := by
         first | assumption | (simp only [epv_cond]; epv_semi_lin) | (simp only [epv_cond]; norm_num; done)
               | (simp only [epv_cond]; simp only [*]; norm_num; done)
       simp only [if_pos hprune]
       clear hprune)
    | (have hprune : ¬ $stx := by
         first | assumption | (simp only [epv_cond]; epv_semi_lin) | (simp only [epv_cond]; norm_num; done)
               | (simp only [epv_cond]; simp only [*]; norm_num; done)
       simp only [if_neg hprune]
       clear hprune)))

/-- prune a traced decision tree by everything the context decides (see `epv_semi_prune1`) -/
macro "epv_semi_prune" : tactic => `(tactic| repeat epv_semi_prune1)
