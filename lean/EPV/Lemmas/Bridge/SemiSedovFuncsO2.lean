/-
Bridge lemmas of the generated model SedovFuncsO2 (GUIDE §8; written by tools/dev/mk_semi_bridge.py from the pinned tree,
hand-maintained from then on): every generated leaf field / path condition / derivative definition equals the closed form the
pinned source computes.  These lemmas are the only place that sees the shape of the generated terms: `rfl` on
the pinned tree, ring normalisation at every level (`epv_semi_eq`) after a harmless rewrite of the Python.
Property proofs unfold with `simp only [epv_semi_leaf]` (`epv_semi_cond`, `epv_semi_deriv`).
-/
import EPV.Gen.SedovFuncsO2
import EPV.Gen.SedovFuncsO2D
import EPV.Lemmas.Bridge.SemiTac

set_option linter.all false
set_option maxRecDepth 100000

open EPV EPV.Gen

namespace EPV.Bridge.Semi

@[epv_semi_cond] theorem SedovFuncsO2_c0 (p : SedovFuncsO2.P) (v : ℝ) :
    SedovFuncsO2.c0 p v ↔ (((p.c_val * v) - (1 : ℝ)) ≤ ((178405961588245 : ℝ) / 178405961588244985132285746181186892047843328)) := by
  epv_semi_bridge_cond

@[epv_semi_cond] theorem SedovFuncsO2_c1 (p : SedovFuncsO2.P) (v : ℝ) :
    SedovFuncsO2.c1 p v ↔ (((4951760157141521 : ℝ) / 4951760157141521099596496896) ≤ (p.b_val * ((1 : ℝ) - ((((1 : ℝ) / 2) * p.xg2) * v)))) := by
  epv_semi_bridge_cond

@[epv_semi_leaf] theorem SedovFuncsO2_L1_l_fun (p : SedovFuncsO2.P) (v : ℝ) :
    SedovFuncsO2.L1.l_fun p v = ((((p.a_val * v) ^ (-p.a0)) * ((p.b_val * ((p.c_val * v) - (1 : ℝ))) ^ (p.gamm1 * ((1 : ℝ) / ((2 : ℝ) * p.e_val))))) * (Real.exp ((p.gamp1 * ((1 : ℝ) / ((2 : ℝ) * p.e_val))) * (((1 : ℝ) - (p.a_val * v)) * ((1 : ℝ) / ((p.a_val * v) - ((((1 : ℝ) / 2) * p.gamp1) / p.gamma))))))) := by
  epv_semi_bridge_leaf

@[epv_semi_leaf] theorem SedovFuncsO2_L1_dlamdv (p : SedovFuncsO2.P) (v : ℝ) :
    SedovFuncsO2.L1.dlamdv p v = ((((((-p.a0) * p.a_val) / (p.a_val * v)) + (((p.gamm1 * ((1 : ℝ) / ((2 : ℝ) * p.e_val))) * (p.b_val * p.c_val)) / (p.b_val * ((p.c_val * v) - (1 : ℝ))))) + (((((-p.gamp1) * ((1 : ℝ) / ((2 : ℝ) * p.e_val))) * p.a_val) * ((1 : ℝ) / ((p.a_val * v) - ((((1 : ℝ) / 2) * p.gamp1) / p.gamma)))) * ((1 : ℝ) + (((1 : ℝ) - (p.a_val * v)) * ((1 : ℝ) / ((p.a_val * v) - ((((1 : ℝ) / 2) * p.gamp1) / p.gamma))))))) * ((((p.a_val * v) ^ (-p.a0)) * ((p.b_val * ((p.c_val * v) - (1 : ℝ))) ^ (p.gamm1 * ((1 : ℝ) / ((2 : ℝ) * p.e_val))))) * (Real.exp ((p.gamp1 * ((1 : ℝ) / ((2 : ℝ) * p.e_val))) * (((1 : ℝ) - (p.a_val * v)) * ((1 : ℝ) / ((p.a_val * v) - ((((1 : ℝ) / 2) * p.gamp1) / p.gamma)))))))) := by
  epv_semi_bridge_leaf

@[epv_semi_leaf] theorem SedovFuncsO2_L1_f_fun (p : SedovFuncsO2.P) (v : ℝ) :
    SedovFuncsO2.L1.f_fun p v = ((p.a_val * v) * ((((p.a_val * v) ^ (-p.a0)) * ((p.b_val * ((p.c_val * v) - (1 : ℝ))) ^ (p.gamm1 * ((1 : ℝ) / ((2 : ℝ) * p.e_val))))) * (Real.exp ((p.gamp1 * ((1 : ℝ) / ((2 : ℝ) * p.e_val))) * (((1 : ℝ) - (p.a_val * v)) * ((1 : ℝ) / ((p.a_val * v) - ((((1 : ℝ) / 2) * p.gamp1) / p.gamma)))))))) := by
  epv_semi_bridge_leaf

@[epv_semi_leaf] theorem SedovFuncsO2_L1_g_fun (p : SedovFuncsO2.P) (v : ℝ) :
    SedovFuncsO2.L1.g_fun p v = (((((p.a_val * v) ^ (p.a0 * p.omega)) * ((p.b_val * ((p.c_val * v) - (1 : ℝ))) ^ ((((4 : ℝ) - p.geometry) - ((2 : ℝ) * p.gamma)) * ((1 : ℝ) / ((2 : ℝ) * p.e_val))))) * ((p.b_val * ((1 : ℝ) - ((((1 : ℝ) / 2) * p.xg2) * v))) ^ p.a5)) * (Real.exp ((-2 : ℝ) * ((p.gamp1 * ((1 : ℝ) / ((2 : ℝ) * p.e_val))) * (((1 : ℝ) - (p.a_val * v)) * ((1 : ℝ) / ((p.a_val * v) - ((((1 : ℝ) / 2) * p.gamp1) / p.gamma)))))))) := by
  epv_semi_bridge_leaf

@[epv_semi_leaf] theorem SedovFuncsO2_L1_h_fun (p : SedovFuncsO2.P) (v : ℝ) :
    SedovFuncsO2.L1.h_fun p v = ((((p.a_val * v) ^ (p.a0 * p.geometry)) * ((p.b_val * ((p.c_val * v) - (1 : ℝ))) ^ (((-p.geometry) * p.gamma) * ((1 : ℝ) / ((2 : ℝ) * p.e_val))))) * ((p.b_val * ((1 : ℝ) - ((((1 : ℝ) / 2) * p.xg2) * v))) ^ ((1 : ℝ) + p.a5))) := by
  epv_semi_bridge_leaf

@[epv_semi_leaf] theorem SedovFuncsO2_L1_efun01 (p : SedovFuncsO2.P) (v : ℝ) :
    SedovFuncsO2.L1.efun01 p v = ((((((((((-p.a0) * p.a_val) / (p.a_val * v)) + (((p.gamm1 * ((1 : ℝ) / ((2 : ℝ) * p.e_val))) * (p.b_val * p.c_val)) / (p.b_val * ((p.c_val * v) - (1 : ℝ))))) + (((((-p.gamp1) * ((1 : ℝ) / ((2 : ℝ) * p.e_val))) * p.a_val) * ((1 : ℝ) / ((p.a_val * v) - ((((1 : ℝ) / 2) * p.gamp1) / p.gamma)))) * ((1 : ℝ) + (((1 : ℝ) - (p.a_val * v)) * ((1 : ℝ) / ((p.a_val * v) - ((((1 : ℝ) / 2) * p.gamp1) / p.gamma))))))) * ((((p.a_val * v) ^ (-p.a0)) * ((p.b_val * ((p.c_val * v) - (1 : ℝ))) ^ (p.gamm1 * ((1 : ℝ) / ((2 : ℝ) * p.e_val))))) * (Real.exp ((p.gamp1 * ((1 : ℝ) / ((2 : ℝ) * p.e_val))) * (((1 : ℝ) - (p.a_val * v)) * ((1 : ℝ) / ((p.a_val * v) - ((((1 : ℝ) / 2) * p.gamp1) / p.gamma)))))))) * (((((p.a_val * v) ^ (-p.a0)) * ((p.b_val * ((p.c_val * v) - (1 : ℝ))) ^ (p.gamm1 * ((1 : ℝ) / ((2 : ℝ) * p.e_val))))) * (Real.exp ((p.gamp1 * ((1 : ℝ) / ((2 : ℝ) * p.e_val))) * (((1 : ℝ) - (p.a_val * v)) * ((1 : ℝ) / ((p.a_val * v) - ((((1 : ℝ) / 2) * p.gamp1) / p.gamma))))))) ^ (p.geometry + (1 : ℝ)))) * p.gpogm) * (((((p.a_val * v) ^ (p.a0 * p.omega)) * ((p.b_val * ((p.c_val * v) - (1 : ℝ))) ^ ((((4 : ℝ) - p.geometry) - ((2 : ℝ) * p.gamma)) * ((1 : ℝ) / ((2 : ℝ) * p.e_val))))) * ((p.b_val * ((1 : ℝ) - ((((1 : ℝ) / 2) * p.xg2) * v))) ^ p.a5)) * (Real.exp ((-2 : ℝ) * ((p.gamp1 * ((1 : ℝ) / ((2 : ℝ) * p.e_val))) * (((1 : ℝ) - (p.a_val * v)) * ((1 : ℝ) / ((p.a_val * v) - ((((1 : ℝ) / 2) * p.gamp1) / p.gamma))))))))) * (v ^ (2 : ℕ))) := by
  epv_semi_bridge_leaf

@[epv_semi_leaf] theorem SedovFuncsO2_L1_efun02 (p : SedovFuncsO2.P) (v : ℝ) :
    SedovFuncsO2.L1.efun02 p v = (((((((((-p.a0) * p.a_val) / (p.a_val * v)) + (((p.gamm1 * ((1 : ℝ) / ((2 : ℝ) * p.e_val))) * (p.b_val * p.c_val)) / (p.b_val * ((p.c_val * v) - (1 : ℝ))))) + (((((-p.gamp1) * ((1 : ℝ) / ((2 : ℝ) * p.e_val))) * p.a_val) * ((1 : ℝ) / ((p.a_val * v) - ((((1 : ℝ) / 2) * p.gamp1) / p.gamma)))) * ((1 : ℝ) + (((1 : ℝ) - (p.a_val * v)) * ((1 : ℝ) / ((p.a_val * v) - ((((1 : ℝ) / 2) * p.gamp1) / p.gamma))))))) * ((((p.a_val * v) ^ (-p.a0)) * ((p.b_val * ((p.c_val * v) - (1 : ℝ))) ^ (p.gamm1 * ((1 : ℝ) / ((2 : ℝ) * p.e_val))))) * (Real.exp ((p.gamp1 * ((1 : ℝ) / ((2 : ℝ) * p.e_val))) * (((1 : ℝ) - (p.a_val * v)) * ((1 : ℝ) / ((p.a_val * v) - ((((1 : ℝ) / 2) * p.gamp1) / p.gamma)))))))) * (((((p.a_val * v) ^ (-p.a0)) * ((p.b_val * ((p.c_val * v) - (1 : ℝ))) ^ (p.gamm1 * ((1 : ℝ) / ((2 : ℝ) * p.e_val))))) * (Real.exp ((p.gamp1 * ((1 : ℝ) / ((2 : ℝ) * p.e_val))) * (((1 : ℝ) - (p.a_val * v)) * ((1 : ℝ) / ((p.a_val * v) - ((((1 : ℝ) / 2) * p.gamp1) / p.gamma))))))) ^ (p.geometry - (1 : ℝ)))) * ((((p.a_val * v) ^ (p.a0 * p.geometry)) * ((p.b_val * ((p.c_val * v) - (1 : ℝ))) ^ (((-p.geometry) * p.gamma) * ((1 : ℝ) / ((2 : ℝ) * p.e_val))))) * ((p.b_val * ((1 : ℝ) - ((((1 : ℝ) / 2) * p.xg2) * v))) ^ ((1 : ℝ) + p.a5)))) * ((8 : ℝ) / ((((p.geometry + (2 : ℝ)) - p.omega) ^ (2 : ℕ)) * p.gamp1))) := by
  epv_semi_bridge_leaf

@[epv_semi_deriv] theorem SedovFuncsO2_L1_l_fun_dv (p : SedovFuncsO2.P) (v : ℝ) :
    SedovFuncsO2.L1.l_fun_dv p v = (((((((p.a_val * (1 : ℝ)) * (-p.a0)) * (((p.a_val * v) ^ (-p.a0)) / (p.a_val * v))) * ((p.b_val * ((p.c_val * v) - (1 : ℝ))) ^ (p.gamm1 * ((1 : ℝ) / ((2 : ℝ) * p.e_val))))) + (((p.a_val * v) ^ (-p.a0)) * (((p.b_val * (p.c_val * (1 : ℝ))) * (p.gamm1 * ((1 : ℝ) / ((2 : ℝ) * p.e_val)))) * (((p.b_val * ((p.c_val * v) - (1 : ℝ))) ^ (p.gamm1 * ((1 : ℝ) / ((2 : ℝ) * p.e_val)))) / (p.b_val * ((p.c_val * v) - (1 : ℝ))))))) * (Real.exp ((p.gamp1 * ((1 : ℝ) / ((2 : ℝ) * p.e_val))) * (((1 : ℝ) - (p.a_val * v)) * ((1 : ℝ) / ((p.a_val * v) - ((((1 : ℝ) / 2) * p.gamp1) / p.gamma))))))) + ((((p.a_val * v) ^ (-p.a0)) * ((p.b_val * ((p.c_val * v) - (1 : ℝ))) ^ (p.gamm1 * ((1 : ℝ) / ((2 : ℝ) * p.e_val))))) * ((Real.exp ((p.gamp1 * ((1 : ℝ) / ((2 : ℝ) * p.e_val))) * (((1 : ℝ) - (p.a_val * v)) * ((1 : ℝ) / ((p.a_val * v) - ((((1 : ℝ) / 2) * p.gamp1) / p.gamma)))))) * ((p.gamp1 * ((1 : ℝ) / ((2 : ℝ) * p.e_val))) * (((-(p.a_val * (1 : ℝ))) * ((1 : ℝ) / ((p.a_val * v) - ((((1 : ℝ) / 2) * p.gamp1) / p.gamma)))) + (((1 : ℝ) - (p.a_val * v)) * ((((0 : ℝ) * ((p.a_val * v) - ((((1 : ℝ) / 2) * p.gamp1) / p.gamma))) - ((1 : ℝ) * (p.a_val * (1 : ℝ)))) / (((p.a_val * v) - ((((1 : ℝ) / 2) * p.gamp1) / p.gamma)) ^ (2 : ℕ))))))))) := by
  epv_semi_bridge_deriv

@[epv_semi_deriv] theorem SedovFuncsO2_L1_f_fun_dv (p : SedovFuncsO2.P) (v : ℝ) :
    SedovFuncsO2.L1.f_fun_dv p v = (((p.a_val * (1 : ℝ)) * ((((p.a_val * v) ^ (-p.a0)) * ((p.b_val * ((p.c_val * v) - (1 : ℝ))) ^ (p.gamm1 * ((1 : ℝ) / ((2 : ℝ) * p.e_val))))) * (Real.exp ((p.gamp1 * ((1 : ℝ) / ((2 : ℝ) * p.e_val))) * (((1 : ℝ) - (p.a_val * v)) * ((1 : ℝ) / ((p.a_val * v) - ((((1 : ℝ) / 2) * p.gamp1) / p.gamma)))))))) + ((p.a_val * v) * (((((((p.a_val * (1 : ℝ)) * (-p.a0)) * (((p.a_val * v) ^ (-p.a0)) / (p.a_val * v))) * ((p.b_val * ((p.c_val * v) - (1 : ℝ))) ^ (p.gamm1 * ((1 : ℝ) / ((2 : ℝ) * p.e_val))))) + (((p.a_val * v) ^ (-p.a0)) * (((p.b_val * (p.c_val * (1 : ℝ))) * (p.gamm1 * ((1 : ℝ) / ((2 : ℝ) * p.e_val)))) * (((p.b_val * ((p.c_val * v) - (1 : ℝ))) ^ (p.gamm1 * ((1 : ℝ) / ((2 : ℝ) * p.e_val)))) / (p.b_val * ((p.c_val * v) - (1 : ℝ))))))) * (Real.exp ((p.gamp1 * ((1 : ℝ) / ((2 : ℝ) * p.e_val))) * (((1 : ℝ) - (p.a_val * v)) * ((1 : ℝ) / ((p.a_val * v) - ((((1 : ℝ) / 2) * p.gamp1) / p.gamma))))))) + ((((p.a_val * v) ^ (-p.a0)) * ((p.b_val * ((p.c_val * v) - (1 : ℝ))) ^ (p.gamm1 * ((1 : ℝ) / ((2 : ℝ) * p.e_val))))) * ((Real.exp ((p.gamp1 * ((1 : ℝ) / ((2 : ℝ) * p.e_val))) * (((1 : ℝ) - (p.a_val * v)) * ((1 : ℝ) / ((p.a_val * v) - ((((1 : ℝ) / 2) * p.gamp1) / p.gamma)))))) * ((p.gamp1 * ((1 : ℝ) / ((2 : ℝ) * p.e_val))) * (((-(p.a_val * (1 : ℝ))) * ((1 : ℝ) / ((p.a_val * v) - ((((1 : ℝ) / 2) * p.gamp1) / p.gamma)))) + (((1 : ℝ) - (p.a_val * v)) * ((((0 : ℝ) * ((p.a_val * v) - ((((1 : ℝ) / 2) * p.gamp1) / p.gamma))) - ((1 : ℝ) * (p.a_val * (1 : ℝ)))) / (((p.a_val * v) - ((((1 : ℝ) / 2) * p.gamp1) / p.gamma)) ^ (2 : ℕ))))))))))) := by
  epv_semi_bridge_deriv

@[epv_semi_deriv] theorem SedovFuncsO2_L1_g_fun_dv (p : SedovFuncsO2.P) (v : ℝ) :
    SedovFuncsO2.L1.g_fun_dv p v = (((((((((p.a_val * (1 : ℝ)) * (p.a0 * p.omega)) * (((p.a_val * v) ^ (p.a0 * p.omega)) / (p.a_val * v))) * ((p.b_val * ((p.c_val * v) - (1 : ℝ))) ^ ((((4 : ℝ) - p.geometry) - ((2 : ℝ) * p.gamma)) * ((1 : ℝ) / ((2 : ℝ) * p.e_val))))) + (((p.a_val * v) ^ (p.a0 * p.omega)) * (((p.b_val * (p.c_val * (1 : ℝ))) * ((((4 : ℝ) - p.geometry) - ((2 : ℝ) * p.gamma)) * ((1 : ℝ) / ((2 : ℝ) * p.e_val)))) * (((p.b_val * ((p.c_val * v) - (1 : ℝ))) ^ ((((4 : ℝ) - p.geometry) - ((2 : ℝ) * p.gamma)) * ((1 : ℝ) / ((2 : ℝ) * p.e_val)))) / (p.b_val * ((p.c_val * v) - (1 : ℝ))))))) * ((p.b_val * ((1 : ℝ) - ((((1 : ℝ) / 2) * p.xg2) * v))) ^ p.a5)) + ((((p.a_val * v) ^ (p.a0 * p.omega)) * ((p.b_val * ((p.c_val * v) - (1 : ℝ))) ^ ((((4 : ℝ) - p.geometry) - ((2 : ℝ) * p.gamma)) * ((1 : ℝ) / ((2 : ℝ) * p.e_val))))) * (((p.b_val * (-((((1 : ℝ) / 2) * p.xg2) * (1 : ℝ)))) * p.a5) * (((p.b_val * ((1 : ℝ) - ((((1 : ℝ) / 2) * p.xg2) * v))) ^ p.a5) / (p.b_val * ((1 : ℝ) - ((((1 : ℝ) / 2) * p.xg2) * v))))))) * (Real.exp ((-2 : ℝ) * ((p.gamp1 * ((1 : ℝ) / ((2 : ℝ) * p.e_val))) * (((1 : ℝ) - (p.a_val * v)) * ((1 : ℝ) / ((p.a_val * v) - ((((1 : ℝ) / 2) * p.gamp1) / p.gamma)))))))) + (((((p.a_val * v) ^ (p.a0 * p.omega)) * ((p.b_val * ((p.c_val * v) - (1 : ℝ))) ^ ((((4 : ℝ) - p.geometry) - ((2 : ℝ) * p.gamma)) * ((1 : ℝ) / ((2 : ℝ) * p.e_val))))) * ((p.b_val * ((1 : ℝ) - ((((1 : ℝ) / 2) * p.xg2) * v))) ^ p.a5)) * ((Real.exp ((-2 : ℝ) * ((p.gamp1 * ((1 : ℝ) / ((2 : ℝ) * p.e_val))) * (((1 : ℝ) - (p.a_val * v)) * ((1 : ℝ) / ((p.a_val * v) - ((((1 : ℝ) / 2) * p.gamp1) / p.gamma))))))) * ((-2 : ℝ) * ((p.gamp1 * ((1 : ℝ) / ((2 : ℝ) * p.e_val))) * (((-(p.a_val * (1 : ℝ))) * ((1 : ℝ) / ((p.a_val * v) - ((((1 : ℝ) / 2) * p.gamp1) / p.gamma)))) + (((1 : ℝ) - (p.a_val * v)) * ((((0 : ℝ) * ((p.a_val * v) - ((((1 : ℝ) / 2) * p.gamp1) / p.gamma))) - ((1 : ℝ) * (p.a_val * (1 : ℝ)))) / (((p.a_val * v) - ((((1 : ℝ) / 2) * p.gamp1) / p.gamma)) ^ (2 : ℕ)))))))))) := by
  epv_semi_bridge_deriv

@[epv_semi_deriv] theorem SedovFuncsO2_L1_h_fun_dv (p : SedovFuncsO2.P) (v : ℝ) :
    SedovFuncsO2.L1.h_fun_dv p v = (((((((p.a_val * (1 : ℝ)) * (p.a0 * p.geometry)) * (((p.a_val * v) ^ (p.a0 * p.geometry)) / (p.a_val * v))) * ((p.b_val * ((p.c_val * v) - (1 : ℝ))) ^ (((-p.geometry) * p.gamma) * ((1 : ℝ) / ((2 : ℝ) * p.e_val))))) + (((p.a_val * v) ^ (p.a0 * p.geometry)) * (((p.b_val * (p.c_val * (1 : ℝ))) * (((-p.geometry) * p.gamma) * ((1 : ℝ) / ((2 : ℝ) * p.e_val)))) * (((p.b_val * ((p.c_val * v) - (1 : ℝ))) ^ (((-p.geometry) * p.gamma) * ((1 : ℝ) / ((2 : ℝ) * p.e_val)))) / (p.b_val * ((p.c_val * v) - (1 : ℝ))))))) * ((p.b_val * ((1 : ℝ) - ((((1 : ℝ) / 2) * p.xg2) * v))) ^ ((1 : ℝ) + p.a5))) + ((((p.a_val * v) ^ (p.a0 * p.geometry)) * ((p.b_val * ((p.c_val * v) - (1 : ℝ))) ^ (((-p.geometry) * p.gamma) * ((1 : ℝ) / ((2 : ℝ) * p.e_val))))) * (((p.b_val * (-((((1 : ℝ) / 2) * p.xg2) * (1 : ℝ)))) * ((1 : ℝ) + p.a5)) * (((p.b_val * ((1 : ℝ) - ((((1 : ℝ) / 2) * p.xg2) * v))) ^ ((1 : ℝ) + p.a5)) / (p.b_val * ((1 : ℝ) - ((((1 : ℝ) / 2) * p.xg2) * v))))))) := by
  epv_semi_bridge_deriv

end EPV.Bridge.Semi
