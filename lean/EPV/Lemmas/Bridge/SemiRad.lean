/-
Bridge lemmas and closing tactics for the radiative-shock models (C12, C03 share) — robust-semi, part `rad`
(GUIDE §8).

The generated models RadAttr<X>, RadConst<X>, RadWrap<X> inline the upstream sound speed
`numpy.sqrt(gamma * (gamma - 1.) * Cv * Tref)` of `radshock.py` wherever `self.sound` is used.  A proof that
names that term (`generalize Real.sqrt (p.gamma * (p.gamma - 1) * p.Cv * p.Tref) = c`) breaks as soon as the
product under the root is commuted.  The bridge lemmas below say, once per model, that the generated
`sound` IS `soundSpeed γ C_v T_ref` (compared up to ring normalisation under the root);
`epv_semi_rad_fold_sound` then replaces the generated root — whatever its shape — by `soundSpeed …`
everywhere, so that the property proofs can `generalize soundSpeed … = c`.

All tactic names carry the prefix `epv_semi_rad_`; lemmas live in `EPV.Bridge.SemiRad`.
-/
import EPV.Gen.RadAttrED
import EPV.Gen.RadAttrNED
import EPV.Gen.RadAttrSn
import EPV.Gen.RadAttrIE
import EPV.Gen.RadConstED
import EPV.Gen.RadConstNED
import EPV.Spec.RadShockUnits
import EPV.Lemmas.RadShock2
import EPV.Tactics
import EPV.Lemmas.Bridge.SemiTac

set_option linter.all false

/-- `A = B` up to ring normalisation at every level (`epv_semi_eq`), also when one side writes a square
root as `x ^ (1/2)` -/
macro "epv_semi_rad_eq" : tactic =>
  `(tactic| first
    | epv_semi_eq
    | (simp only [Real.sqrt_eq_rpow]; epv_semi_eq))

/-- run a tactic with default transparency (`field_simp` calls its discharger with reducible transparency, under
which `intro` on `≠` and `linarith`'s matching of `a * a` with `a ^ 2` fail) -/
elab "epv_semi_rad_with_default " t:tacticSeq : tactic =>
  Lean.Meta.withTransparency .default (Lean.Elab.Tactic.evalTactic t)

open Lean Elab Tactic Meta in
/-- goal `d ≠ 0` from a hypothesis `e ≠ 0` about the same quantity written differently (`1 + M0 ^ 2 * γ` against
`γ * (M0 * M0) + 1`, `… + γ * P0 * 0`): `d = 0 → e = 0` by linear arithmetic over normalised monomials -/
elab "epv_semi_rad_ne_hyps" : tactic => withMainContext do
  let g ← getMainGoal
  for ldecl in ← getLCtx do
    if ldecl.isImplementationDetail then continue
    let ty ← instantiateMVars ldecl.type
    let isNe := ty.isAppOfArity ``Ne 3 || (ty.isAppOfArity ``Not 1 && (ty.getArg! 0).isAppOfArity ``Eq 3)
    unless isNe do continue
    let hstx ← Term.exprToSyntax ldecl.toExpr
    try
      withoutRecover (evalTactic (← `(tactic|
        (refine mt ?_ $hstx; intro hd; first | linarith | (ring_nf at hd ⊢; linarith)))))
      return
    catch _ => pure ()
  throwError "epv_semi_rad_ne_hyps: no hypothesis gives{indentExpr (← g.getType)}"

/-- `d ≠ 0` from the non-vanishing facts in context, whatever form `d` has: factor by factor through products,
quotients, powers and inverses -/
syntax "epv_semi_rad_ne" : tactic
macro_rules
  | `(tactic| epv_semi_rad_ne) => `(tactic| first
    | assumption
    | (norm_num; done)
    | epv_semi_rad_ne_hyps
    | (refine mul_ne_zero ?_ ?_ <;> epv_semi_rad_ne)
    | (refine div_ne_zero ?_ ?_ <;> epv_semi_rad_ne)
    | (refine pow_ne_zero _ ?_; epv_semi_rad_ne)
    | (refine inv_ne_zero ?_; epv_semi_rad_ne)
    | positivity)

/-- discharger for `field_simp`: whatever form `field_simp` gives a denominator, reduce it to the hypotheses -/
macro "epv_semi_rad_disch" : tactic => `(tactic| epv_semi_rad_with_default epv_semi_rad_ne)

/-- a polynomial identity, possibly with denominators that could not be cleared (not known to be non-zero) and are written
differently on the two sides (`1 / (γ * (γ - 1))` against `1 / γ / (γ - 1)`): `ring1`, after pushing inverses to the factors
if need be -/
macro "epv_semi_rad_ring" : tactic =>
  `(tactic| first
    | done
    | ring1
    | (simp only [div_eq_mul_inv, mul_inv, inv_inv] <;> ring1)
    | (ring_nf; done))

/-- `A = B` for two field expressions that agree after clearing the denominators the context declares
non-zero — in whatever form the context declares it.  (`field_simp` alone often closes such a goal — then nothing
is left to do — and otherwise leaves a polynomial identity.) -/
macro "epv_semi_rad_field" : tactic =>
  `(tactic| first
    | done
    | ring1
    | (field_simp <;> epv_semi_rad_ring)
    | (field_simp (disch := epv_semi_rad_disch) <;> epv_semi_rad_ring)
    | (ring_nf; done)
    | (epv_semi_inv_nf; ring_nf; done))

namespace EPV.Bridge.SemiRad

open Lean in
/-- is `e` a real power `x ^ (y : ℝ)` with real base (`Real.rpow` through `HPow ℝ ℝ ℝ`)? -/
def isRpow (e : Expr) : Bool :=
  e.isAppOfArity ``HPow.hPow 6 && (e.getArg! 0).isConstOf ``Real && (e.getArg! 1).isConstOf ``Real

open Lean in
/-- all subterms of `e` satisfying `f` (without loose bound variables), outermost first, no duplicates -/
partial def collect (f : Expr → Bool) (e : Expr) (acc : Array Expr := #[]) : Array Expr :=
  let acc := if f e && !e.hasLooseBVars && !acc.contains e then acc.push e else acc
  match e with
  | .app g a => collect f a (collect f g acc)
  | .lam _ t b _ => collect f b (collect f t acc)
  | .forallE _ t b _ => collect f b (collect f t acc)
  | .letE _ t v b _ => collect f b (collect f v (collect f t acc))
  | .mdata _ b => collect f b acc
  | .proj _ _ b => collect f b acc
  | _ => acc

end EPV.Bridge.SemiRad

namespace EPV.Bridge.SemiRad
open Lean

/-- the denominator if `e` is a real division `a / b` or inverse `b⁻¹` -/
def realDenominator? (e : Expr) : Option Expr :=
  if e.isAppOfArity ``HDiv.hDiv 6 && (e.getArg! 0).isConstOf ``Real then some (e.getArg! 5)
  else if e.isAppOfArity ``Inv.inv 3 && (e.getArg! 0).isConstOf ``Real then some (e.getArg! 2)
  else none

/-- the factors of a denominator: through products, quotients, powers with numeral exponent, negation, inverse -/
partial def factors (e : Expr) (acc : Array Expr := #[]) : Array Expr :=
  if e.isAppOfArity ``HMul.hMul 6 then factors (e.getArg! 5) (factors (e.getArg! 4) acc)
  else if e.isAppOfArity ``HDiv.hDiv 6 then factors (e.getArg! 5) (factors (e.getArg! 4) acc)
  else if e.isAppOfArity ``HPow.hPow 6 && (e.getArg! 1).isConstOf ``Nat then factors (e.getArg! 4) acc
  else if e.isAppOfArity ``Neg.neg 3 then factors (e.getArg! 2) acc
  else if e.isAppOfArity ``Inv.inv 3 then factors (e.getArg! 2) acc
  else if acc.contains e then acc else acc.push e

/-- a sum or difference (a factor worth naming) -/
def isSum (e : Expr) : Bool := e.isAppOfArity ``HAdd.hAdd 6 || e.isAppOfArity ``HSub.hSub 6

end EPV.Bridge.SemiRad

open Lean Elab Tactic Meta in
/-- if the context holds `nm : e = d` (left by an earlier call of `nameTerm`) with `t = e` provable by `tac`, rewrite `t` to
`d` everywhere in the goal -/
def EPV.Bridge.SemiRad.unifyTerm (nm : Name) (t : Expr) (tac : TSyntax ``Lean.Parser.Tactic.tacticSeq)
    (screen : Expr → Expr → Bool := fun _ _ => true) : TacticM Bool :=
  withMainContext do
    let stx ← Term.exprToSyntax t
    let mut found := false
    for ldecl in ← getLCtx do
      if ldecl.isImplementationDetail then continue
      unless ldecl.userName.eraseMacroScopes == nm do continue
      let ty ← instantiateMVars ldecl.type
      unless ty.isAppOfArity ``Eq 3 do continue
      unless screen t (ty.getArg! 1) do continue
      let d ← Term.exprToSyntax (ty.getArg! 2)
      let h ← Term.exprToSyntax ldecl.toExpr
      try
        withoutRecover (evalTactic (← `(tactic|
          (have epv_hx : $stx = $d := by
             refine Eq.trans ?_ $h
             ($tac:tacticSeq)
           simp only [epv_hx]
           try clear epv_hx))))
        found := true
        break
      catch _ => pure ()
    pure found

open Lean Elab Tactic Meta in
/-- give `t` a name: the name of an already named term it equals (`unifyTerm`), otherwise `generalize nm : t = d` -/
def EPV.Bridge.SemiRad.nameTerm (nm : Name) (t : Expr) (tac : TSyntax ``Lean.Parser.Tactic.tacticSeq)
    (screen : Expr → Expr → Bool := fun _ _ => true) : TacticM Unit := do
  unless ← EPV.Bridge.SemiRad.unifyTerm nm t tac screen do
    withMainContext do
      let stx ← Term.exprToSyntax t
      let hid := mkIdent nm
      evalTactic (← `(tactic| generalize $hid:ident : $stx = epv_d))

open Lean Elab Tactic Meta in
/-- name the sums in the goal's denominators: every factor of a denominator (through products, quotients, numeral powers)
that is a sum / difference becomes an atom `d`, the defining equation `epv_hsum : <sum> = d` stays in the context, and a sum
that is the same polynomial as an already named one — written differently (`1 + M0 ^ 2 * γ + P0 * γ * (1/3 - P)` against
`γ * (M0 * M0) + 1 + γ * P0 * (1/3 - P)`) — gets the SAME atom.  With `withRpow = false` sums containing real powers wait
(their powers are named first). -/
def EPV.Bridge.SemiRad.genSums (withRpow : Bool) : TacticM Unit := do
  let mut fuel := 60
  while fuel > 0 do
    fuel := fuel - 1
    if (← getUnsolvedGoals).isEmpty then break
    let tgt ← withMainContext do instantiateMVars (← getMainTarget)
    let dens := (EPV.Bridge.SemiRad.collect (fun e => (EPV.Bridge.SemiRad.realDenominator? e).isSome) tgt).filterMap
      EPV.Bridge.SemiRad.realDenominator?
    let mut cands : Array Expr := #[]
    for d in dens do
      for f in EPV.Bridge.SemiRad.factors d do
        if EPV.Bridge.SemiRad.isSum f && !f.hasLooseBVars && !cands.contains f
            && (withRpow || !(f.find? EPV.Bridge.SemiRad.isRpow).isSome) then
          cands := cands.push f
    if cands.isEmpty then break
    -- outermost first: the defining equations stay in the original atoms
    let some t := cands.find? (fun t => cands.all fun u => u == t || !(u.find? (· == t)).isSome)
      | break
    EPV.Bridge.SemiRad.nameTerm `epv_hsum t (← `(tacticSeq| ring1))

/-- name the polynomial sums in the goal's denominators (see `genSums`) -/
elab "epv_semi_rad_gen_sums" : tactic => EPV.Bridge.SemiRad.genSums false
/-- … also those that contain (named or unnamed) real powers -/
elab "epv_semi_rad_gen_sums!" : tactic => EPV.Bridge.SemiRad.genSums true

namespace EPV.Bridge.SemiRad
open Lean in
/-- does `e` contain a quotient / inverse whose denominator is not a numeral? -/
def hasProperDenominator (e : Expr) : Bool :=
  (e.find? fun s => match realDenominator? s with
    | some d => !(d.isAppOfArity ``OfNat.ofNat 3)
    | none => false).isSome
end EPV.Bridge.SemiRad

open Lean Elab Tactic Meta in
/-- a sum that stands in a NUMERATOR and is the same polynomial as an already named denominator sum (the total cross
section `σ_a + σ_s` multiplying a bracket on one side, dividing on the other) gets that sum's atom too; other sums are
left alone -/
elab "epv_semi_rad_unify_sums" : tactic => do
  let mut fuel := 40
  let mut failed : Array Expr := #[]
  while fuel > 0 do
    fuel := fuel - 1
    if (← getUnsolvedGoals).isEmpty then break
    let tgt ← withMainContext do instantiateMVars (← getMainTarget)
    let cands := (EPV.Bridge.SemiRad.collect EPV.Bridge.SemiRad.isSum tgt).filter fun f =>
      !EPV.Bridge.SemiRad.hasProperDenominator f && !(f.find? EPV.Bridge.SemiRad.isRpow).isSome && !failed.contains f
    let mut progress := false
    for t in cands do
      if ← EPV.Bridge.SemiRad.unifyTerm `epv_hsum t (← `(tacticSeq| ring1)) then
        progress := true
        break
      else
        failed := failed.push t
    unless progress do break

open Lean Elab Tactic Meta in
/-- name the real powers `b ^ e` of the goal (innermost first): each becomes an atom, `epv_hpow : b ^ e = w` stays in the
context, and two powers whose bases and exponents agree up to ring normalisation and `1/(a*b) = 1/a/b` get the SAME atom -/
elab "epv_semi_rad_gen_rpow" : tactic => do
  let mut fuel := 60
  while fuel > 0 do
    fuel := fuel - 1
    if (← getUnsolvedGoals).isEmpty then break
    let tgt ← withMainContext do instantiateMVars (← getMainTarget)
    let pows := EPV.Bridge.SemiRad.collect EPV.Bridge.SemiRad.isRpow tgt
    -- innermost first
    let some t := pows.find? (fun t => pows.all fun u => u == t || !(t.find? (· == u)).isSome)
      | break
    -- two powers are compared only if their exponents are written alike (or are not plain symbols)
    EPV.Bridge.SemiRad.nameTerm `epv_hpow t
      (← `(tacticSeq| (congr 1 <;>
            first | (with_reducible rfl) | ring1 | (simp only [div_eq_mul_inv, mul_inv, inv_inv] <;> ring1))))
      (fun a b => EPV.Bridge.SemiRad.isRpow b &&
        (a.getArg! 5 == b.getArg! 5 || (a.getArg! 5).getAppNumArgs > 1 || (b.getArg! 5).getAppNumArgs > 1))

/-- `A = B` for two LARGE field expressions with real powers that are the same formal rational function (no cancellation
`x / x = 1` needed) written differently — a generated leaf that inlines its own copy of the density / temperature
formulas against the tree-level fields.  Ring normalisation of the whole term (`epv_semi_eq`) is too slow there; here the
sums in denominators and the real powers are named first (equal ones alike), and `ring1` sees a small identity between
Laurent monomials. -/
macro "epv_semi_rad_big" : tactic =>
  `(tactic| first
     | done
     | (with_reducible rfl)
     | (epv_semi_rad_gen_sums; epv_semi_rad_gen_rpow; epv_semi_rad_gen_sums!; epv_semi_rad_unify_sums
        first | done | ring1 | (simp only [div_eq_mul_inv, mul_inv, inv_inv] <;> ring1)))

/-- `epv_semi_rad_tree` for large leaves: closes with `epv_semi_rad_big` -/
syntax "epv_semi_rad_bigtree" (" [" Lean.Parser.Tactic.simpLemma,* "]")? : tactic
macro_rules
  | `(tactic| epv_semi_rad_bigtree) =>
    `(tactic| (simp only [epv_tree]
               (try split_ifs) <;> (simp only [epv_leaf]) <;> epv_semi_rad_big))
  | `(tactic| epv_semi_rad_bigtree [$ls,*]) =>
    `(tactic| (simp only [epv_tree]
               (try split_ifs) <;> (simp only [epv_leaf, $ls,*]) <;> epv_semi_rad_big))

/-- a conjunction of large tree-level identities -/
syntax "epv_semi_rad_bigtrees" (" [" Lean.Parser.Tactic.simpLemma,* "]")? : tactic
macro_rules
  | `(tactic| epv_semi_rad_bigtrees) =>
    `(tactic| ((repeat' apply And.intro) <;> epv_semi_rad_bigtree))
  | `(tactic| epv_semi_rad_bigtrees [$ls,*]) =>
    `(tactic| ((repeat' apply And.intro) <;> epv_semi_rad_bigtree [$ls,*]))

open Lean Elab Tactic Meta in
/-- every real power `b ^ e` of the goal whose base `b` — in whatever form the code gives it — equals 1 by the
non-vanishing facts in context (the reference density and temperature of the upstream equilibrium state) is
replaced by 1 -/
elab "epv_semi_rad_rpow_one" : tactic => do
  let mut fuel := 24
  let mut failed : Array Expr := #[]
  while fuel > 0 do
    fuel := fuel - 1
    let mut progress := false
    let tgt ← withMainContext do instantiateMVars (← getMainTarget)
    for a in EPV.Bridge.SemiRad.collect EPV.Bridge.SemiRad.isRpow tgt do
      let b := a.getArg! 4
      if failed.contains b then continue
      let ok ← withMainContext do
        let stx ← Term.exprToSyntax b
        try
          withoutRecover (evalTactic (← `(tactic|
            (have hb : $stx = (1 : ℝ) := by epv_semi_rad_field
             simp only [hb, Real.one_rpow]
             try clear hb))))
          pure true
        catch _ => pure false
      if ok then
        progress := true
        break
      else
        failed := failed.push b
    unless progress do break

/-- `f A = f B` (an uninterpreted profile applied to two abscissae) with `A`, `B` equal up to ring
normalisation at every level (the sound speed under the root included) -/
macro "epv_semi_rad_arg" : tactic =>
  `(tactic| first
    | epv_semi_rad_eq
    | (congr 1 <;> epv_semi_rad_eq)
    | (congr 2 <;> epv_semi_rad_eq))

/-- tree-level identity `M.field p = <documented form>`: unfold the tree, split on the traced conditions (if
any), unfold the leaves together with the given specification definitions, compare up to normalisation -/
syntax "epv_semi_rad_tree" (" [" Lean.Parser.Tactic.simpLemma,* "]")? : tactic
macro_rules
  | `(tactic| epv_semi_rad_tree) =>
    `(tactic| (simp only [epv_tree]
               (try split_ifs) <;> (simp only [epv_leaf]) <;> epv_semi_rad_eq))
  | `(tactic| epv_semi_rad_tree [$ls,*]) =>
    `(tactic| (simp only [epv_tree]
               (try split_ifs) <;> (simp only [epv_leaf, $ls,*]) <;> epv_semi_rad_eq))

/-- a conjunction of tree-level identities -/
syntax "epv_semi_rad_trees" (" [" Lean.Parser.Tactic.simpLemma,* "]")? : tactic
macro_rules
  | `(tactic| epv_semi_rad_trees) =>
    `(tactic| ((repeat' apply And.intro) <;> epv_semi_rad_tree))
  | `(tactic| epv_semi_rad_trees [$ls,*]) =>
    `(tactic| ((repeat' apply And.intro) <;> epv_semi_rad_tree [$ls,*]))

/-- `epv_semi_rad_fold_sound h` with `h : M.sound p = soundSpeed γ C_v T_ref` (a bridge lemma below): in a goal
and context where the generated attributes have been unfolded (`simp only [epv_tree, epv_leaf]`), replace every
occurrence of the generated sound-speed term — whatever its shape — by `soundSpeed γ C_v T_ref` -/
macro "epv_semi_rad_fold_sound " t:term : tactic =>
  `(tactic| (have hsnd := $t
             simp only [epv_tree, epv_leaf] at hsnd
             simp only [hsnd] at *
             clear hsnd))

open EPV EPV.Gen EPV.Spec.RadShock

namespace EPV.Bridge.SemiRad

noncomputable section

/-! ### the sound speed of the solver attributes -/

theorem attrED_sound (p : RadAttrED.P) : RadAttrED.sound p = soundSpeed p.gamma p.Cv p.Tref := by
  epv_semi_rad_tree [soundSpeed]

theorem attrNED_sound (p : RadAttrNED.P) : RadAttrNED.sound p = soundSpeed p.gamma p.Cv p.Tref := by
  epv_semi_rad_tree [soundSpeed]

theorem attrSn_sound (p : RadAttrSn.P) : RadAttrSn.sound p = soundSpeed p.gamma p.Cv p.Tref := by
  epv_semi_rad_tree [soundSpeed]

theorem attrIE_sound (p : RadAttrIE.P) : RadAttrIE.sound p = soundSpeed p.gamma p.Cv p.Tref := by
  epv_semi_rad_tree [soundSpeed]

/-! ### the constants the profile object of a user holds (ED, nED) -/

theorem constED_p_sound (p : RadConstED.P) : RadConstED.p_sound p = soundSpeed p.gamma p.Cv p.Tref := by
  epv_semi_rad_tree [soundSpeed]

theorem constNED_p_sound (p : RadConstNED.P) : RadConstNED.p_sound p = soundSpeed p.gamma p.Cv p.Tref := by
  epv_semi_rad_tree [soundSpeed]

theorem constED_f_P0 (p : RadConstED.P) : RadConstED.f_P0 p = specP0 p.Tref p.rho0 p.gamma p.Cv := by
  epv_semi_rad_tree [specP0, physP0, radConstF, soundSpeed]

theorem constED_f_C0 (p : RadConstED.P) : RadConstED.f_C0 p = specC0 p.Tref p.gamma p.Cv := by
  epv_semi_rad_tree [specC0, physC0, cLight, soundSpeed]

theorem constNED_f_P0 (p : RadConstNED.P) : RadConstNED.f_P0 p = specP0 p.Tref p.rho0 p.gamma p.Cv := by
  epv_semi_rad_tree [specP0, physP0, radConstF, soundSpeed]

theorem constNED_f_C0 (p : RadConstNED.P) : RadConstNED.f_C0 p = specC0 p.Tref p.gamma p.Cv := by
  epv_semi_rad_tree [specC0, physC0, cLight, soundSpeed]

/-- the user's parameters and reference scales as the profile object / problem class hold them -/
theorem constED_copies (p : RadConstED.P) :
    RadConstED.f_M0 p = p.M0 ∧ RadConstED.f_gamma p = p.gamma ∧ RadConstED.p_rho0 p = p.rho0 ∧ RadConstED.p_Tref p = p.Tref := by
  epv_semi_rad_trees

theorem constNED_copies (p : RadConstNED.P) :
    RadConstNED.f_M0 p = p.M0 ∧ RadConstNED.f_gamma p = p.gamma ∧ RadConstNED.p_rho0 p = p.rho0 ∧ RadConstNED.p_Tref p = p.Tref := by
  epv_semi_rad_trees

end

end EPV.Bridge.SemiRad
