/-
Closing tactics for the Guderley / RMTV part of the semi-analytic family (robust-semi, GUIDE §8).

`epv_semi_eq` (SemiTac) tries `rfl` at default transparency before `ring1`; on two *different*
products of reals that attempt can unfold the Cauchy-sequence construction of ℝ and run into the
heartbeat limit (seen on the refactored `GudState` leaves).  The variants below try only the cheap
`with_reducible rfl` first, then ring normalisation, and fall back to `epv_semi_eq` last.

Below the tactics: bridge lemmas `generated tree = documented form` for the traced `ramsey.state`
(models GudState, GudJump).  They are the only places that see the shape of those generated terms;
`Spec/Guderley.lean` and the property files use them.  One lemma per field: `split_ifs` on a single
traced tree is cheap, on a conjunction of five of them it is close to the heartbeat limit.

All tactic names carry the prefix `epv_semi_gud_`; lemmas live in `EPV.Bridge.SemiGud`.
-/
import EPV.Lemmas.Bridge.SemiTac
import EPV.Gen.GudState
import EPV.Gen.GudJump
import EPV.Gen.GudG
import EPV.Gen.GudF
import EPV.Gen.GudFe
import EPV.Gen.RmtvJump

/-- `A = B` up to ring normalisation at every level; never a default-transparency `rfl` before `ring1` -/
macro "epv_semi_gud_eq" : tactic =>
  `(tactic| first
    | done
    | (with_reducible rfl)
    | ring1
    | (ring_nf; done)
    | (simp only [div_eq_mul_inv, mul_inv, inv_inv]; ring_nf; done)
    | (field_simp; ring1)
    | epv_semi_eq)

/-- a conjunction of `epv_semi_gud_eq` goals, whatever its length -/
macro "epv_semi_gud_conj" : tactic =>
  `(tactic| ((repeat' apply And.intro) <;> epv_semi_gud_eq))

/-- contradiction from the traced path conditions in context (unfolded, linear); fails fast -/
macro "epv_semi_gud_absurd" : tactic =>
  `(tactic| (exfalso; simp only [epv_cond] at *;
             (first | contradiction | linarith | (push_neg at *; linarith) | tauto)))

/-- a `WellDefined` side condition (a conjunction of `0 < a`, `a ≠ 0`, `0 ≤ a` facts about products of
quantities whose sign is in context), whatever the order and the association of its parts -/
macro "epv_semi_gud_wd" : tactic =>
  `(tactic| ((repeat' apply And.intro) <;>
      first
      | assumption
      | positivity
      | (ring_nf; positivity)
      | (simp only [ne_eq, mul_eq_zero, div_eq_zero_iff, pow_eq_zero_iff, not_or, one_ne_zero, neg_eq_zero,
           not_false_eq_true, and_true, true_and]; norm_num; tauto)))

/-- an equality test of the traced code against the documented one, whichever side the constant is on -/
macro "epv_semi_gud_eq_iff" : tactic =>
  `(tactic| first
    | exact Iff.rfl
    | exact eq_comm
    | (constructor <;> intro h <;> linarith))

/-- `a ≠ 0` from a hypothesis `h` that is a conjunction (of any length up to 8, in any order) one of whose
parts is `a' ≠ 0` with `a' = a` up to ring normalisation — for picking a denominator out of a generated
`WellDefined` record without counting its position -/
macro "epv_semi_gud_pick_ne " h:ident : tactic =>
  `(tactic| (intro h0; first
    | exact ($h) (by linear_combination h0)
    | exact ($h).1 (by linear_combination h0)
    | exact ($h).2 (by linear_combination h0)
    | exact ($h).2.1 (by linear_combination h0)
    | exact ($h).2.2 (by linear_combination h0)
    | exact ($h).2.2.1 (by linear_combination h0)
    | exact ($h).2.2.2 (by linear_combination h0)
    | exact ($h).2.2.2.1 (by linear_combination h0)
    | exact ($h).2.2.2.2 (by linear_combination h0)
    | exact ($h).2.2.2.2.1 (by linear_combination h0)
    | exact ($h).2.2.2.2.2 (by linear_combination h0)
    | exact ($h).2.2.2.2.2.1 (by linear_combination h0)
    | exact ($h).2.2.2.2.2.2 (by linear_combination h0)
    | exact ($h).2.2.2.2.2.2.1 (by linear_combination h0)
    | exact ($h).2.2.2.2.2.2.2 (by linear_combination h0)))

/-- tree-level identity under a hypothesis that selects some of the leaves: split on the traced
conditions, close the excluded cases by linear arithmetic first (cheap), compare the others with
the documented form up to normalisation -/
macro "epv_semi_gud_tree" : tactic =>
  `(tactic| (simp only [epv_tree]
             (try split_ifs) <;>
             first
             | epv_semi_gud_absurd
             | (simp only [epv_leaf]; epv_semi_gud_eq)))

set_option linter.all false

open EPV EPV.Gen

namespace EPV.Bridge.SemiGud

/-! ### `ramsey.state` behind the converging shock (x ≥ -1): Lazarus Eq. (2.5) on the atoms -/

theorem state_density_behind (p : GudState.P) (hx : ¬ p.targetx < -1) :
    GudState.density p = p.R * p.rho0 := by
  epv_semi_gud_tree

theorem state_velocity_behind (p : GudState.P) (hx : ¬ p.targetx < -1) :
    GudState.velocity p = p.V * p.r ^ (1 - p.lambda_d) / (p.targetx * (-1) * p.lambda_d) := by
  epv_semi_gud_tree

theorem state_sound_speed_behind (p : GudState.P) (hx : ¬ p.targetx < -1) :
    GudState.sound_speed p = p.C * p.r ^ (1 - p.lambda_d) / (p.targetx * (-1) * p.lambda_d) := by
  epv_semi_gud_tree

theorem state_pressure_behind (p : GudState.P) (hx : ¬ p.targetx < -1) :
    GudState.pressure p
      = (p.C * p.r ^ (1 - p.lambda_d) / (p.targetx * (-1) * p.lambda_d)) ^ 2
          / (p.gamma_d * (1 / p.rho0) * (1 / p.R)) := by
  epv_semi_gud_tree

theorem state_sie_behind (p : GudState.P) (hx : ¬ p.targetx < -1) :
    GudState.specific_internal_energy p
      = (p.C * p.r ^ (1 - p.lambda_d) / (p.targetx * (-1) * p.lambda_d)) ^ 2
          / (p.gamma_d * (1 / p.rho0) * (1 / p.R)) / ((p.gamma_d - 1) * p.rho0 * p.R) := by
  epv_semi_gud_tree

/-! ### `ramsey.state` ahead of the converging shock (x < -1): the undisturbed gas -/

theorem state_density_ahead (p : GudState.P) (hx : p.targetx < -1) : GudState.density p = p.rho0 := by
  epv_semi_gud_tree
theorem state_velocity_ahead (p : GudState.P) (hx : p.targetx < -1) : GudState.velocity p = 0 := by
  epv_semi_gud_tree
theorem state_sound_speed_ahead (p : GudState.P) (hx : p.targetx < -1) : GudState.sound_speed p = 0 := by
  epv_semi_gud_tree
theorem state_pressure_ahead (p : GudState.P) (hx : p.targetx < -1) : GudState.pressure p = 0 := by
  epv_semi_gud_tree
theorem state_sie_ahead (p : GudState.P) (hx : p.targetx < -1) : GudState.specific_internal_energy p = 0 := by
  epv_semi_gud_tree

/-! ### the right-hand sides `ramsey.g` (model GudG) and `ramsey.f` (model GudF): Lazarus Eqs. (2.8), (2.9)
and the R-equation over the common denominator (C² - (1+V)²) x λ — the form of `Lemmas/Guderley.lean` -/

theorem g_dV (p : GudG.P) :
    GudG.dV p = (((p.nu + 1) * p.V + 2 * ((p.lambda_ - 1) / p.gamma)) * (p.C * p.C) - p.V * (p.V + 1) * (p.V + p.lambda_))
      / ((p.C * p.C - (p.V + 1) ^ 2) * p.x * p.lambda_) := by
  epv_semi_gud_tree

theorem g_dC (p : GudG.P) :
    GudG.dC p = p.C * ((1 + (p.lambda_ - 1) / p.gamma / (p.V + 1)) * (p.C * p.C)
        - 1 / 2 * p.nu * (p.gamma - 1) * p.V * (p.V + 1) - (p.V + 1) ^ 2
        - 1 / 2 * (p.lambda_ - 1) * ((3 - p.gamma) * p.V + 2))
      / ((p.C * p.C - (p.V + 1) ^ 2) * p.x * p.lambda_) := by
  epv_semi_gud_tree

theorem g_dR (p : GudG.P) :
    GudG.dR p = p.R * (-2 * ((p.lambda_ - 1) / p.gamma) * (p.C * p.C) / (p.V + 1) + p.V * (p.V + p.lambda_)
        - (p.nu + 1) * p.V * (p.V + 1))
      / ((p.C * p.C - (p.V + 1) ^ 2) * p.x * p.lambda_) := by
  epv_semi_gud_tree

/-- `f` in the x-integration (intno ≠ 2): the same system -/
theorem f_dV_x (p : GudF.P) (h : p.intno ≠ 2) :
    GudF.dV p = (((p.nu + 1) * p.V + 2 * ((p.lambda_ - 1) / p.gamma)) * (p.C * p.C) - p.V * (p.V + 1) * (p.V + p.lambda_))
      / ((p.C * p.C - (p.V + 1) ^ 2) * p.x * p.lambda_) := by
  epv_semi_gud_tree

theorem f_dC_x (p : GudF.P) (h : p.intno ≠ 2) :
    GudF.dC p = p.C * ((1 + (p.lambda_ - 1) / p.gamma / (p.V + 1)) * (p.C * p.C)
        - 1 / 2 * p.nu * (p.gamma - 1) * p.V * (p.V + 1) - (p.V + 1) ^ 2
        - 1 / 2 * (p.lambda_ - 1) * ((3 - p.gamma) * p.V + 2))
      / ((p.C * p.C - (p.V + 1) ^ 2) * p.x * p.lambda_) := by
  epv_semi_gud_tree

theorem f_dR_x (p : GudF.P) (h : p.intno ≠ 2) :
    GudF.dR p = p.R * (-2 * ((p.lambda_ - 1) / p.gamma) * (p.C * p.C) / (p.V + 1) + p.V * (p.V + p.lambda_)
        - (p.nu + 1) * p.V * (p.V + 1))
      / ((p.C * p.C - (p.V + 1) ^ 2) * p.x * p.lambda_) := by
  epv_semi_gud_tree

/-- `f` in the w-integration (intno = 2): the system over the denominator -(…) σ -/
theorem f_dV_w (p : GudF.P) (h : p.intno = 2) :
    GudF.dV p = (((p.nu + 1) * p.V + 2 * ((p.lambda_ - 1) / p.gamma)) * (p.C * p.C) - p.V * (p.V + 1) * (p.V + p.lambda_))
      / (-((p.C * p.C - (p.V + 1) ^ 2) * p.x * p.lambda_) * p.sigma) := by
  epv_semi_gud_tree

theorem f_dC_w (p : GudF.P) (h : p.intno = 2) :
    GudF.dC p = p.C * ((1 + (p.lambda_ - 1) / p.gamma / (p.V + 1)) * (p.C * p.C)
        - 1 / 2 * p.nu * (p.gamma - 1) * p.V * (p.V + 1) - (p.V + 1) ^ 2
        - 1 / 2 * (p.lambda_ - 1) * ((3 - p.gamma) * p.V + 2))
      / (-((p.C * p.C - (p.V + 1) ^ 2) * p.x * p.lambda_) * p.sigma) := by
  epv_semi_gud_tree

theorem f_dR_w (p : GudF.P) (h : p.intno = 2) :
    GudF.dR p = p.R * (-2 * ((p.lambda_ - 1) / p.gamma) * (p.C * p.C) / (p.V + 1) + p.V * (p.V + p.lambda_)
        - (p.nu + 1) * p.V * (p.V + 1))
      / (-((p.C * p.C - (p.V + 1) ^ 2) * p.x * p.lambda_) * p.sigma) := by
  epv_semi_gud_tree

/-! ### the coded isothermal-shock jump of `rmtv_1d` (model RmtvJump): Kamm 2000 Eq. 15 -/

theorem rmtv_U1 (p : RmtvJump.P) : RmtvJump.U1 p = 1 - p.T2 / (1 - p.U2) := by
  epv_semi_gud_tree
theorem rmtv_H1 (p : RmtvJump.P) : RmtvJump.H1 p = (1 - p.U2) ^ 2 / p.T2 * p.H2 := by
  epv_semi_gud_tree
theorem rmtv_W1 (p : RmtvJump.P) :
    RmtvJump.W1 p = (p.T2 * p.W2 - 1 / 2 * ((1 - p.U2) ^ 4 - p.T2 ^ 2) / (1 - p.U2)) / (1 - p.U2) ^ 2 := by
  epv_semi_gud_tree
theorem rmtv_T1 (p : RmtvJump.P) : RmtvJump.T1 p = p.T2 := by
  epv_semi_gud_tree

/-! ### two returned quantities that are one quantity in two units (RMTV temperature and energy) -/

/-- `A = Q / Γ · 1000` and `B = Q / g · 10¹⁶` for one `Q`, from facts that do not depend on how `A` and `B`
are written: they vanish with their divisor, and `B g / 10¹⁶ = A Γ / 1000` otherwise -/
theorem exists_Q_of {A B Γ g : ℝ} (h1 : Γ = 0 → A = 0) (h2 : g = 0 → B = 0)
    (h3 : Γ ≠ 0 → g ≠ 0 → B * g * 1000 = A * Γ * 10000000000000000) :
    ∃ Q, A = Q / Γ * 1000 ∧ B = Q / g * 10000000000000000 := by
  by_cases hG : Γ = 0
  · refine ⟨B * g / 10000000000000000, by rw [hG, h1 hG]; simp, ?_⟩
    by_cases hg : g = 0
    · rw [hg, h2 hg]; simp
    · field_simp
  · refine ⟨A * Γ / 1000, by field_simp, ?_⟩
    by_cases hg : g = 0
    · rw [hg, h2 hg]; simp
    · have := h3 hG hg
      field_simp
      linarith

/-! ### the right-hand side `eexp.fe` (model GudFe): Chisnell 1998, Eq. (3.1) -/

/-- numerator of Chisnell's Eq. (3.1) as `fe` codes it -/
noncomputable def feNum (p : GudFe.P) : ℝ :=
  p.y0 * (2 * ((p.t - p.a) ^ 2 - p.y0) * ((p.a - p.t) + (1 - p.a) * (1 / p.g))
    + (p.g - 1) * (p.a - p.t) * (p.n * p.t * (p.t - p.a) + 2 / p.g * (1 - p.a) * (p.a - p.t) - p.t * (p.t - 1)))

/-- denominator of Chisnell's Eq. (3.1) as `fe` codes it (`(a - t) ** 2.` is a float power) -/
noncomputable def feDen (p : GudFe.P) : ℝ :=
  ((p.t - p.a) ^ 2 - p.y0) * (p.n * p.t - 2 * (1 - p.a) * (1 / p.g)) * (p.a - p.t)
    + (p.a - p.t) ^ (2 : ℝ) * (p.n * p.t * (p.t - p.a) + 2 / p.g * (1 - p.a) * (p.a - p.t) - p.t * (p.t - 1))

theorem fe_dy0 (p : GudFe.P) : GudFe.dy0 p = feNum p / feDen p := by
  unfold feNum feDen
  epv_semi_gud_tree

/-- the side condition of the traced leaf contains "the denominator is not zero" -/
theorem fe_den_ne (p : GudFe.P) (hW : GudFe.L0.WellDefined p) : feDen p ≠ 0 := by
  unfold GudFe.L0.WellDefined at hW
  unfold feDen
  epv_semi_gud_pick_ne hW

end EPV.Bridge.SemiGud
