/-
Bridge lemmas of the generated model SedovInit (GUIDE §8; written by tools/dev/mk_semi_bridge.py from the pinned tree,
hand-maintained from then on): every generated leaf field / path condition equals the closed form the
pinned source computes.  These lemmas are the only place that sees the shape of the generated terms: `rfl` on
the pinned tree, ring normalisation at every level (`epv_semi_eq`) after a harmless rewrite of the Python.
Property proofs unfold with `simp only [epv_semi_leaf]` (`epv_semi_cond`, `epv_semi_deriv`).
-/
import EPV.Gen.SedovInit
import EPV.Lemmas.Bridge.SemiTac

set_option linter.all false
set_option maxRecDepth 100000

open EPV EPV.Gen

namespace EPV.Bridge.Semi

@[epv_semi_cond] theorem SedovInit_c0 (p : SedovInit.P) :
    SedovInit.c0 p ↔ (p.geometry = (1 : ℝ)) := by
  epv_semi_bridge_cond

@[epv_semi_cond] theorem SedovInit_c1 (p : SedovInit.P) :
    SedovInit.c1 p ↔ (p.gamma < (1 : ℝ)) := by
  epv_semi_bridge_cond

@[epv_semi_cond] theorem SedovInit_c2 (p : SedovInit.P) :
    SedovInit.c2 p ↔ (p.geometry = (2 : ℝ)) := by
  epv_semi_bridge_cond

@[epv_semi_cond] theorem SedovInit_c3 (p : SedovInit.P) :
    SedovInit.c3 p ↔ (p.geometry = (3 : ℝ)) := by
  epv_semi_bridge_cond

@[epv_semi_cond] theorem SedovInit_c4 (p : SedovInit.P) :
    SedovInit.c4 p ↔ (p.rho0 < (0 : ℝ)) := by
  epv_semi_bridge_cond

@[epv_semi_cond] theorem SedovInit_c5 (p : SedovInit.P) :
    SedovInit.c5 p ↔ (p.eblast < (0 : ℝ)) := by
  epv_semi_bridge_cond

@[epv_semi_cond] theorem SedovInit_c6 (p : SedovInit.P) :
    SedovInit.c6 p ↔ (p.omega < (0 : ℝ)) := by
  epv_semi_bridge_cond

@[epv_semi_cond] theorem SedovInit_c7 (p : SedovInit.P) :
    SedovInit.c7 p ↔ (p.geometry ≤ p.omega) := by
  epv_semi_bridge_cond

@[epv_semi_cond] theorem SedovInit_c8 (p : SedovInit.P) :
    SedovInit.c8 p ↔ (|(((4 : ℝ) / (((p.geometry + (2 : ℝ)) - p.omega) * (p.gamma + (1 : ℝ)))) - ((2 : ℝ) / (((p.gamma - (1 : ℝ)) * p.geometry) + (2 : ℝ))))| ≤ ((1 : ℝ) / 10000)) := by
  epv_semi_bridge_cond

@[epv_semi_cond] theorem SedovInit_c9 (p : SedovInit.P) :
    SedovInit.c9 p ↔ (|((((2 : ℝ) * (p.gamma - (1 : ℝ))) + p.geometry) - (p.gamma * p.omega))| ≤ ((1 : ℝ) / 10000)) := by
  epv_semi_bridge_cond

@[epv_semi_cond] theorem SedovInit_c10 (p : SedovInit.P) :
    SedovInit.c10 p ↔ (((4 : ℝ) / (((p.geometry + (2 : ℝ)) - p.omega) * (p.gamma + (1 : ℝ)))) < (((2 : ℝ) / (((p.gamma - (1 : ℝ)) * p.geometry) + (2 : ℝ))) - ((1 : ℝ) / 10000))) := by
  epv_semi_bridge_cond

@[epv_semi_cond] theorem SedovInit_c11 (p : SedovInit.P) :
    SedovInit.c11 p ↔ ((((2 : ℝ) / (((p.gamma - (1 : ℝ)) * p.geometry) + (2 : ℝ))) + ((1 : ℝ) / 10000)) < ((4 : ℝ) / (((p.geometry + (2 : ℝ)) - p.omega) * (p.gamma + (1 : ℝ))))) := by
  epv_semi_bridge_cond

@[epv_semi_cond] theorem SedovInit_c12 (p : SedovInit.P) :
    SedovInit.c12 p ↔ (|((p.geometry * ((2 : ℝ) - p.gamma)) - p.omega)| ≤ ((1 : ℝ) / 10000)) := by
  epv_semi_bridge_cond

end EPV.Bridge.Semi
