/-
Bridge between the traced Cog21 model and the documented formulas (see EPV/Robust.lean, GUIDE §8).
-/
import EPV.Gen.Cog21
import EPV.Robust
import EPV.Lemmas.HydroRobust

set_option linter.all false
open EPV EPV.Gen

namespace EPV.Bridge

/-- the NaN test is `t ≤ 0` -/
theorem cog21_c0_iff (p : Cog21.P) (r t : ℝ) : Cog21.c0 p r t ↔ t ≤ 0 := by
  simp only [epv_cond] <;> epv_arith_iff

/-- the coded branch test is `r < 2 / (Γ T₀ t²)`, however the Python writes the product -/
theorem cog21_c1_iff (p : Cog21.P) (r t : ℝ) :
    Cog21.c1 p r t ↔ r < 2 / ((p.Gamma * p.temp0) * t ^ 2) := by
  simp only [epv_cond] <;> epv_arith_iff

/-! documented closed forms (k = 2, γ = 5): behind the shock (leaf `r < R(t)`) … -/

theorem cog21_post_density (p : Cog21.P) (r t : ℝ) :
    Cog21.L1.density p r t = p.rho0 * (r ^ 3)⁻¹ * (3 / 2) := by
  simp only [epv_leaf] <;> epv_hydro_closed

theorem cog21_post_velocity (p : Cog21.P) (r t : ℝ) : Cog21.L1.velocity p r t = 0 := by
  simp only [epv_leaf] <;> epv_hydro_closed

theorem cog21_post_temperature (p : Cog21.P) (r t : ℝ) : Cog21.L1.temperature p r t = p.temp0 * r ^ 3 := by
  simp only [epv_leaf] <;> epv_hydro_closed

/-- p = Γ ρ T -/
theorem cog21_post_pressure (p : Cog21.P) (r t : ℝ) :
    Cog21.L1.pressure p r t = p.Gamma * (p.rho0 * (r ^ 3)⁻¹ * (3 / 2)) * (p.temp0 * r ^ 3) := by
  simp only [epv_leaf] <;> epv_hydro_closed

/-- e = p / ρ / (γ - 1) = Γ T / 4; the code divides by ρ -/
theorem cog21_post_sie (p : Cog21.P) (r t : ℝ) (hρ : p.rho0 ≠ 0) (hr : r ≠ 0) :
    Cog21.L1.specific_internal_energy p r t = p.Gamma * (p.temp0 * r ^ 3) / 4 := by
  simp only [epv_leaf] <;> epv_hydro_closed

/-! … and ahead of it -/

theorem cog21_pre_density (p : Cog21.P) (r t : ℝ) : Cog21.L2.density p r t = p.rho0 * (r ^ 3)⁻¹ := by
  simp only [epv_leaf] <;> epv_hydro_closed

theorem cog21_pre_velocity (p : Cog21.P) (r t : ℝ) : Cog21.L2.velocity p r t = r / t := by
  simp only [epv_leaf] <;> epv_hydro_closed

theorem cog21_pre_temperature (p : Cog21.P) (r t : ℝ) : Cog21.L2.temperature p r t = 0 := by
  simp only [epv_leaf] <;> epv_hydro_closed

theorem cog21_pre_pressure (p : Cog21.P) (r t : ℝ) : Cog21.L2.pressure p r t = 0 := by
  simp only [epv_leaf] <;> epv_hydro_closed

theorem cog21_pre_sie (p : Cog21.P) (r t : ℝ) : Cog21.L2.specific_internal_energy p r t = 0 := by
  simp only [epv_leaf] <;> epv_hydro_closed

end EPV.Bridge
