/-
Simp sets of the bridge lemmas of the semi-analytic family (robust-semi, GUIDE §8): the lemmas
`M.L<i>.<field> … = <closed form of the pinned source>` (files EPV/Lemmas/Bridge/Semi<M>.lean).
`simp only [epv_semi_leaf]` does what `simp only [epv_leaf]` does on the pinned tree — and the same after a
harmless rewrite of the Python, when the generated definitions have another shape.
-/
import Mathlib.Tactic.Attr.Register

/-- bridge lemmas for generated leaf fields -/
register_simp_attr epv_semi_leaf
/-- bridge lemmas for generated path conditions -/
register_simp_attr epv_semi_cond
/-- bridge lemmas for generated derivative definitions -/
register_simp_attr epv_semi_deriv
