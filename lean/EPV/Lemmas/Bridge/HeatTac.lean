/-
Shape-independent closing tactics for the heat family (robust-heat, GUIDE §8).

`ring` / `ring_nf` decide equality of *polynomials* in the atoms and are complete for quotients whose
denominators are monomials, but a denominator that is a SUM is kept as an opaque atom `(Σ)⁻¹` after
multiplying every factor of the product it occurs in into the sum: `x / (s * b ^ 2)` and `x / s / b ^ 2`
(s a sum) normalise to different atoms, although they are the same real number for all values (also at
s = 0 or b = 0, where both are 0).  `heat_inv_nf` first pushes every inverse through products, powers
and negations (`mul_inv`, `← inv_pow`, `inv_neg`, `inv_inv`: unconditional identities of a field with
`0⁻¹ = 0`), so that `⁻¹` is applied to sums and atoms only; after that `ring_nf` sees the same atoms on
both sides however the Python grouped a chain of divisions (`a/b/c` ↔ `a/(b*c)`, `/w**2` ↔ `/(w*w)` ↔
`/w/w`).

`heat_eq` closes an equation between two such expressions; `heat_conj` closes a conjunction of them
whatever its length and whichever conjuncts an earlier `simp` has already discharged.
-/
import EPV.Robust
import Mathlib.Tactic.Ring
import Mathlib.Tactic.FieldSimp
import Mathlib.Tactic.NormNum
import Mathlib.Algebra.Order.Field.Basic
import Mathlib.Analysis.SpecialFunctions.Trigonometric.Basic

/-- push inverses inwards: afterwards `⁻¹` is applied only to sums and atoms -/
macro "heat_inv_nf" : tactic =>
  `(tactic| simp only [div_eq_mul_inv, mul_inv, inv_inv, ← inv_pow, inv_neg, mul_pow, one_mul, mul_one, inv_one])

/-- equality of two field expressions (transcendental atoms allowed), independent of association, commutation,
hoisting, `x**2` ↔ `x*x`, `/2` ↔ `0.5*`, `a/b/c` ↔ `a/(b*c)` -/
macro "heat_eq" : tactic =>
  `(tactic| first
    | done
    | rfl
    | trivial
    | ring1
    | (ring_nf; done)
    | (heat_inv_nf; ring_nf; done)
    | (norm_num; heat_inv_nf; ring_nf; done)
    | (field_simp; ring_nf; done))

/-- a conjunction of `heat_eq` goals -/
macro "heat_conj" : tactic =>
  `(tactic| ((repeat' apply And.intro) <;> heat_eq))

/-- the same after evaluating numerals, casts of literals and decided `if`s (concrete mode numbers) -/
macro "heat_num_eq" : tactic =>
  `(tactic| first
    | heat_eq
    | (norm_num [Real.pi_ne_zero]; first | done | heat_eq)
    | (push_cast; heat_eq))

/-- a conjunction of `heat_num_eq` goals -/
macro "heat_num_conj" : tactic =>
  `(tactic| ((repeat' apply And.intro) <;> heat_num_eq))
