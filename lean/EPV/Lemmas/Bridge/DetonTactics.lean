/-
Shape-independent proof steps for the bridge lemmas of the detonation / burn-time / elastic family
(Kenamond 1-3, DSD cylinder, Mader, EHEP, SDRZ, Blake); see EPV/Robust.lean and GUIDE §8.

The bridge lemmas (`EPV/Lemmas/Burn*.lean`, `Mader.lean`, `EHEP.lean`, `SDRZ.lean`, `Blake*.lean`) are the
only places that look at the shape of a generated term.  The tactics below keep even those places
independent of

* the ORDER and the WRITING of the validation checks of a constructor (`epv_deton_conj_iff`, `epv_deton_ok_reduce`),
* how a sum of squares under a square root, a product or a quotient is written (`epv_deton_nf_eq`),
* how a side condition of a derivative certificate is written (`epv_deton_side`).
-/
import EPV.Robust
import Mathlib.Tactic.CasesM
import Mathlib.Tactic.Have
import Mathlib.Tactic.NormNum
import Mathlib.Tactic.Push
import Mathlib.Analysis.SpecialFunctions.Sqrt

open Lean Elab Tactic Meta

namespace EPV.Bridge.Deton

/-- one rejecting level of a traced tree: the request gets past it iff its condition is false -/
theorem ite_raise_ok {c : Prop} [Decidable c] {s : String} {X : EPV.Out} :
    (if c then EPV.Out.raise s else X) = EPV.Out.ok ↔ ¬c ∧ X = EPV.Out.ok := by
  by_cases h : c <;> simp [h]

/-- the same for a check written `if not (…): raise` -/
theorem ite_else_raise_ok {c : Prop} [Decidable c] {s : String} {X : EPV.Out} :
    (if c then X else EPV.Out.raise s) = EPV.Out.ok ↔ c ∧ X = EPV.Out.ok := by
  by_cases h : c <;> simp [h]

theorem ite_nan_ok {c : Prop} [Decidable c] {X : EPV.Out} :
    (if c then EPV.Out.nan else X) = EPV.Out.ok ↔ ¬c ∧ X = EPV.Out.ok := by
  by_cases h : c <;> simp [h]

theorem ok_eq_ok : (EPV.Out.ok = EPV.Out.ok) ↔ True := by simp

end EPV.Bridge.Deton

/-- a (negated) linear fact from the context, whatever side the terms are written on -/
macro "epv_deton_lin" : tactic =>
  `(tactic| first | assumption | linarith | (push_neg; linarith) | (intro h; linarith) | nlinarith
                  | (push_neg; nlinarith) | (intro h; nlinarith))

/-- `A₁ ∧ … ∧ Aₙ ↔ B₁ ∧ … ∧ Bₘ` where every `B` follows from the `A`s by linear arithmetic and conversely:
independent of the order in which a constructor makes its checks and of how each check is written -/
macro "epv_deton_conj_iff" : tactic =>
  `(tactic| first | done | (constructor <;>
      (intro h
       try casesm* _ ∧ _
       (try constructorm* _ ∧ _) <;> first | assumption | trivial | linarith | (push_neg at *; linarith))))

/-- `h : M.outcome … = .ok` for a tree whose rejecting leaves raise: turn `h` into the list of the
path conditions it implies (still folded: `¬M.c0 …`, `M.c7 …`), whatever their number and order, and use
them to reduce every traced `if` of the goal.  Leaves the conditions in the context. -/
macro "epv_deton_ok_reduce " h:ident : tactic =>
  `(tactic| (simp only [epv_tree, EPV.Bridge.Deton.ite_raise_ok, EPV.Bridge.Deton.ite_else_raise_ok, EPV.Bridge.Deton.ite_nan_ok,
               ite_self, EPV.Bridge.Deton.ok_eq_ok, and_true] at $h:ident
             try casesm* _ ∧ _
             simp only [epv_tree, *, if_true, if_false, ite_true, ite_false, not_true_eq_false, not_false_eq_true]))

/-- equality of two real expressions that are the same after ring normalisation *inside* the
transcendental atoms too (`√(a*a + b*b)` vs `√(b^2 + a^2)`, `log (x / y)`, `x ^ (e+1)` …) -/
macro "epv_deton_nf_eq" : tactic =>
  `(tactic| first | done | rfl | ring1 | (ring_nf; done) | (field_simp; ring_nf; done) | (ring_nf; field_simp; ring_nf; done)
                  | (simp only [mul_one, one_mul, add_zero, zero_add, sub_zero, neg_zero, mul_zero, zero_mul, zero_div];
                     first | done | rfl | ring1 | (ring_nf; done)))

/-- side condition of a generated derivative certificate (`e ≠ 0`, `0 < e`, `0 ≤ e`) from facts in the
context that say the same in another writing -/
macro "epv_deton_side" : tactic =>
  `(tactic| first
      | assumption
      | positivity
      | linarith
      | nlinarith
      | exact ne_of_gt (by first | assumption | positivity | linarith | nlinarith)
      | exact ne_of_lt (by first | assumption | linarith | nlinarith)
      | (intro h0; first | linarith | nlinarith))

/-- `epv_deton_sqrt_gen`: replace the first `Real.sqrt e` of the goal (whatever `e` looks like) by a fresh
variable `s` with `hs0 : 0 ≤ s` and `hs2 : s * s = e`; needs `0 ≤ e` from `positivity` / `nlinarith` /
the context. -/
elab "epv_deton_sqrt_gen " s:ident hs0:ident hs2:ident : tactic => withMainContext do
  let g ← instantiateMVars (← getMainTarget)
  let some e := g.find? (fun e => e.isAppOfArity ``Real.sqrt 1 && !e.hasLooseBVars)
    | throwError "epv_deton_sqrt_gen: no Real.sqrt in the goal"
  let arg ← Term.exprToSyntax (e.getArg! 0)
  evalTactic (← `(tactic|
    (have $hs2:ident : Real.sqrt ($arg) * Real.sqrt ($arg) = ($arg) :=
        Real.mul_self_sqrt (by first | positivity | assumption | linarith | nlinarith [mul_self_nonneg]
                                     | (apply le_of_lt; first | assumption | linarith | nlinarith))
     have $hs0:ident : 0 ≤ Real.sqrt ($arg) := Real.sqrt_nonneg _
     generalize Real.sqrt ($arg) = $s at *)))

/-- split on the outermost `if` of the goal (`by_cases`, linear in the number of leaves) -/
elab "epv_deton_bsplit1" : tactic => withMainContext do
  let g ← instantiateMVars (← getMainTarget)
  let some e := g.find? (fun e => e.isAppOfArity ``ite 5 && !(e.getArg! 1).hasLooseBVars)
    | throwError "epv_deton_bsplit1: no if-then-else in the goal"
  let stx ← Term.exprToSyntax (e.getArg! 1)
  evalTactic (← `(tactic| by_cases hsplit : $stx <;>
    first | simp only [if_pos hsplit] | simp only [if_neg hsplit]))

/-- one atom of a documented domain from the path conditions of an accepting leaf -/
macro "epv_deton_doc_atom" : tactic =>
  `(tactic| first
      | assumption | trivial | linarith
      | exact Or.inl (by first | assumption | linarith)
      | exact Or.inr (by first | assumption | linarith)
      | exact Or.inr (Or.inl (by first | assumption | linarith))
      | exact Or.inr (Or.inr (by first | assumption | linarith))
      | (push_neg at *; first | assumption | linarith)
      | nlinarith)

/-- a rejecting leaf contradicts the documented domain -/
macro "epv_deton_doc_absurd" : tactic =>
  `(tactic| first
      | contradiction | linarith
      | (push_neg at *; first | contradiction | linarith)
      | (exfalso; simp_all; done)
      | nlinarith)

/-- `M.outcome p … = .ok ↔ A₁ ∧ … ∧ Aₙ` for a constructor tree of any shape (chains of checks in any
order, checks written `if not …`, both-way splits such as `geometry in [2, 3]`): case analysis along the
tree; an accepting leaf must imply every documented atom, a rejecting leaf must contradict one, both by
linear arithmetic over the path conditions.  The right-hand side must be unfolded to a conjunction of
(disjunctions of) comparisons first. -/
macro "epv_deton_accept_iff" : tactic =>
  `(tactic| (simp only [epv_tree]
             repeat' epv_deton_bsplit1
             all_goals (simp only [epv_cond] at *)
             all_goals first
               | refine iff_of_true trivial ?_
               | refine iff_of_true rfl ?_
               | refine iff_of_false (by simp) (fun hdoc => ?_)
             all_goals first
               | (show False
                  (try casesm* _ ∧ _)
                  (try casesm* _ ∨ _) <;> epv_deton_doc_absurd)
               | ((try constructorm* _ ∧ _) <;> epv_deton_doc_atom)))

/-- `M.L<i>.WellDefined …` (a conjunction of side conditions `e ≠ 0`, `0 < e`, `0 ≤ e` in the order and the
writing of the traced expression) from a pool of facts in the context that say the same in the documented
vocabulary: each conjunct is an assumption, or follows by `positivity`, or IS a fact of the pool after
unfolding the given abbreviations everywhere and ring normalisation.  Independent of the order, number and
writing of the side conditions. -/
syntax "epv_deton_wd_pool" "[" Lean.Parser.Tactic.simpLemma,* "]" : tactic
macro_rules
  | `(tactic| epv_deton_wd_pool [$ls,*]) =>
    `(tactic| ((try constructorm* _ ∧ _) <;>
        first
          | assumption
          | trivial
          | positivity
          | (refine mul_ne_zero ?_ ?_ <;> first | assumption | positivity)
          | ((try simp only [$ls,*] at *); (try ring_nf at *); first | assumption | positivity | linarith)))

/-- equality of two field expressions (denominators non-zero by facts in the context) -/
macro "epv_deton_feq" : tactic =>
  `(tactic| first | done | rfl | ring1 | (field_simp; first | done | ring1) | epv_deton_nf_eq)

/-- `field_simp` whose side goals `d ≠ 0` are closed from sign facts written in another normal form -/
macro "epv_deton_ne" : tactic =>
  `(tactic| first | assumption | positivity | (apply ne_of_gt; linarith) | (apply ne_of_lt; linarith)
                  | (apply ne_of_gt; nlinarith))
macro "epv_deton_fs" : tactic => `(tactic| field_simp (disch := epv_deton_ne))

/-- equality of two field expressions, denominators non-zero by sign facts in any linear writing -/
macro "epv_deton_feqd" : tactic =>
  `(tactic| first | done | rfl | ring1 | (epv_deton_fs; first | done | ring1) | epv_deton_feq)

/-- `epv_deton_sqrt_rw y`: rewrite an innermost `Real.sqrt e` of the goal (whatever `e` looks like) to `y`, given that
`e = y ^ 2` is a field identity (denominators non-zero by facts in the context) and `0 ≤ y` follows from the
context by linear arithmetic. -/
elab "epv_deton_sqrt_rw " y:term : tactic => withMainContext do
  let g ← instantiateMVars (← getMainTarget)
  let isSqrt : Expr → Bool := fun e => e.isAppOfArity ``Real.sqrt 1
  let some e := g.find? (fun e => isSqrt e && !e.hasLooseBVars && ((e.getArg! 0).find? isSqrt).isNone)
    | throwError "epv_deton_sqrt_rw: no innermost Real.sqrt in the goal"
  let arg ← Term.exprToSyntax (e.getArg! 0)
  -- (tactic-level `have` without a value: a failure inside must FAIL instead of being recovered by error recovery)
  evalTactic (← `(tactic|
    (have hsq : Real.sqrt ($arg) = $y
     · have harg : ($arg) = ($y) ^ 2
       · epv_deton_feqd
       rw [harg]; apply Real.sqrt_sq; first | assumption | linarith | positivity
     rw [hsq]; clear hsq)))

namespace EPV.Bridge.Deton
theorem rpow_half_nonneg' (x : ℝ) : 0 ≤ x ^ ((1 : ℝ) / 2) := by
  rw [← Real.sqrt_eq_rpow]; exact Real.sqrt_nonneg x
theorem rpow_half_mul_self' {x : ℝ} (hx : 0 ≤ x) : x ^ ((1 : ℝ) / 2) * x ^ ((1 : ℝ) / 2) = x := by
  rw [← Real.sqrt_eq_rpow]; exact Real.mul_self_sqrt hx
end EPV.Bridge.Deton

/-- `epv_deton_rpow_half_gen R hR0 hR2`: replace the first `x ^ ((1:ℝ)/2)` of the goal (Python's `pow(x, 0.5)`, whatever `x`
looks like) EVERYWHERE by a fresh variable `R` with `hR0 : 0 ≤ R` and `hR2 : R * R = x`; `0 ≤ x` must follow from
the context by `positivity` / `nlinarith`. -/
elab "epv_deton_rpow_half_gen " R:ident hR0:ident hR2:ident : tactic => withMainContext do
  let g ← instantiateMVars (← getMainTarget)
  let isLit (e : Expr) (n : Nat) : Bool :=
    e.isAppOfArity ``OfNat.ofNat 3 && (e.getArg! 1) == mkRawNatLit n
  let isHalf (e : Expr) : Bool :=
    e.isAppOfArity ``HDiv.hDiv 6 && isLit (e.getArg! 4) 1 && isLit (e.getArg! 5) 2
  let some e := g.find? (fun e => e.isAppOfArity ``HPow.hPow 6 && !e.hasLooseBVars && isHalf (e.getArg! 5))
    | throwError "epv_deton_rpow_half_gen: no `x ^ ((1:ℝ)/2)` in the goal"
  let arg ← Term.exprToSyntax (e.getArg! 4)
  evalTactic (← `(tactic|
    (have $hR2:ident : ($arg) ^ ((1 : ℝ) / 2) * ($arg) ^ ((1 : ℝ) / 2) = ($arg) := by
       apply EPV.Bridge.Deton.rpow_half_mul_self'
       first | positivity | assumption | linarith | nlinarith
     have $hR0:ident : 0 ≤ ($arg) ^ ((1 : ℝ) / 2) := EPV.Bridge.Deton.rpow_half_nonneg' _
     generalize ($arg) ^ ((1 : ℝ) / 2) = $R at *)))

namespace EPV.Bridge.Deton
theorem rpow_half_eq_of_sq {x y : ℝ} (hy : 0 ≤ y) (h : y * y = x) : x ^ ((1 : ℝ) / 2) = y := by
  rw [← Real.sqrt_eq_rpow, ← h]; exact Real.sqrt_mul_self hy
end EPV.Bridge.Deton

/-- `epv_deton_rpow_half_eval y`: replace the first `x ^ ((1:ℝ)/2)` of the goal, `x` a numeric expression in whatever
writing, by its value `y` (`0 ≤ y` and `y * y = x` by `norm_num`) -/
elab "epv_deton_rpow_half_eval " y:term : tactic => withMainContext do
  let g ← instantiateMVars (← getMainTarget)
  let isLit (e : Expr) (n : Nat) : Bool :=
    e.isAppOfArity ``OfNat.ofNat 3 && (e.getArg! 1) == mkRawNatLit n
  let isHalf (e : Expr) : Bool :=
    e.isAppOfArity ``HDiv.hDiv 6 && isLit (e.getArg! 4) 1 && isLit (e.getArg! 5) 2
  let some e := g.find? (fun e => e.isAppOfArity ``HPow.hPow 6 && !e.hasLooseBVars && isHalf (e.getArg! 5))
    | throwError "epv_deton_rpow_half_eval: no `x ^ ((1:ℝ)/2)` in the goal"
  let arg ← Term.exprToSyntax (e.getArg! 4)
  evalTactic (← `(tactic|
    (have hval : ($arg) ^ ((1 : ℝ) / 2) = $y
     · apply EPV.Bridge.Deton.rpow_half_eq_of_sq <;> norm_num
     simp only [hval]; clear hval)))

/-- `epv_deton_rpow_half_to y (tac)`: rewrite the first `x ^ ((1:ℝ)/2)` of the goal (whatever `x` looks like) to `y`;
`tac` must prove `y * y = x`, and `0 ≤ y` must follow from the context (`assumption` / `linarith` / `positivity`). -/
elab "epv_deton_rpow_half_to " y:term:max " (" tac:tacticSeq ")" : tactic => withMainContext do
  let g ← instantiateMVars (← getMainTarget)
  let isLit (e : Expr) (n : Nat) : Bool :=
    e.isAppOfArity ``OfNat.ofNat 3 && (e.getArg! 1) == mkRawNatLit n
  let isHalf (e : Expr) : Bool :=
    e.isAppOfArity ``HDiv.hDiv 6 && isLit (e.getArg! 4) 1 && isLit (e.getArg! 5) 2
  let some e := g.find? (fun e => e.isAppOfArity ``HPow.hPow 6 && !e.hasLooseBVars && isHalf (e.getArg! 5))
    | throwError "epv_deton_rpow_half_to: no `x ^ ((1:ℝ)/2)` in the goal"
  let arg ← Term.exprToSyntax (e.getArg! 4)
  evalTactic (← `(tactic|
    (have hval : ($arg) ^ ((1 : ℝ) / 2) = $y
     · apply EPV.Bridge.Deton.rpow_half_eq_of_sq
       · first | assumption | linarith | positivity
       · ($tac)
     rw [hval]; clear hval)))

/-- `epv_deton_ctx_lt h : a < b`: find a hypothesis `a' < b'` of the context (a path condition in whatever writing the
traced code gives it) with `a' = a` and `b' = b` up to ring normalisation (resp. field normalisation with the sign
facts of the context), and add it as `h : a < b` in the DOCUMENTED writing.  Shape-independent replacement for
`‹0 < p.lame_mod * (1 - 2 * p.poisson_ratio) / (2 * p.poisson_ratio)›`. -/
elab "epv_deton_ctx_lt " h:ident " : " a:term:51 " < " b:term:51 : tactic => withMainContext do
  let lctx ← getLCtx
  let mut alts : Array (TSyntax ``Lean.Parser.Tactic.tacticSeq) := #[]
  for d in lctx do
    if d.isImplementationDetail then continue
    let ty ← instantiateMVars d.type
    if ty.isAppOfArity ``LT.lt 4 then
      let a' ← Term.exprToSyntax (ty.getArg! 2)
      let b' ← Term.exprToSyntax (ty.getArg! 3)
      let H ← Term.exprToSyntax (mkFVar d.fvarId)
      alts := alts.push (← `(tacticSeq|
        (have $h:ident : $a < $b
         · have e1 : ($a') = $a
           · first | rfl | ring1 | (field_simp (disch := epv_deton_ne); first | done | ring1)
           have e2 : ($b') = $b
           · first | rfl | ring1 | (field_simp (disch := epv_deton_ne); first | done | ring1)
           rw [← e1, ← e2]; exact $H)))
  let alts' := alts.reverse
  let failTac ← `(tacticSeq| fail "epv_deton_ctx_lt: no hypothesis of the context says this")
  evalTactic (← `(tactic| first $[| $alts']* | $failTac))
