/-
Shape-independent proof steps for the black-box Noh family (EOS library, residual classes, solution assembly,
EP piston) — GUIDE §8.  Every tactic carries the family prefix `epv_eos_`.

The generated model follows the shape of the Python expression.  What a property proof may NOT depend on:

* the syntactic form of a traced guard (`rho == 0`, `1 - b*rho == 0`, `eta <= 0`, …): a proof that feeds hypotheses to
  `simp only [epv_cond, hρ, hη, if_false]` works only while `hη` is syntactically the generated condition
  (`b * ρ = 1` vs `ρ * b = 1`);
* the number, order and form of the side conditions of a generated derivative certificate (`cert p ρ P (mul_ne_zero hρ h1)`);
* the form of denominators when `field_simp` looks for `_ ≠ 0` facts.

The tactics below decide guards and side conditions *semantically* from the sign / non-vanishing facts in the context
(linear arithmetic over ring-normalised monomials; quotients cleared with the facts in context):

* `epv_eos_cond`        proves a traced condition or its negation (goal `c` / `¬ c`, `c` an (in)equality of field expressions);
* `epv_eos_ifs`         resolves every `if c then _ else _` of the goal whose condition is decided by the context;
* `epv_eos_side`        one side condition of a certificate (`d ≠ 0`, `0 < b`);
* `epv_eos_have_cert h : cert p ρ P`, `epv_eos_cert cert p ρ P`   instantiate / apply a certificate up to its side conditions;
* `epv_eos_field_simp`, `epv_eos_field`    `field_simp` with a semantic discharger, and the closing `… ; ring`;
* `epv_eos_at_leaf`, `epv_eos_eq`, `epv_eos_res_eq`, `epv_eos_res_unfold`   the usual chains: unfold trees (select a vector /
                        matrix component), resolve guards, unfold leaves / derivative definitions, field arithmetic;
* `epv_eos_fact`        a documented fact (sign, `≠`) from the unfolded path facts of an `ok` branch, whatever their form;
* `epv_eos_gen_dens`    names the compound non-vanishing factors of the goal's denominators (replaces literal `generalize`);
* `epv_eos_gen_ne h`, `epv_eos_inv_entry`   `F_prime_inv · F_prime = 1`: name the determinant, clear it, unfold it again;
* `epv_eos_unify_args`  equal quantities written differently inside `exp` / `√` / compound denominators made syntactically equal;
* `epv_eos_scale_iff c, hc`   a comparison re-expressed in scaled units (`A' < B' ↔ A < B`, `A' = c A`, `B' = c B`).

A guard the context does NOT decide (a warning branch returning the same value on both sides, the shock test when both
sides agree) is split by `epv_eos_ifs` and both cases are continued.  Guards are tried in three stages (in the context /
linear arithmetic / quotients cleared and products of hypotheses), first for `¬ c`, then for `c`, so the common cases cost
one `assumption`.

Still shape-dependent by construction: leaf NUMBERS (`M.L<k>.f`) — they change when a guard is added, removed or first
evaluated at another place (hoisting a guarded call above another guarded call); proofs name the leaf in one `hev`
statement per theorem and the `*_leaves` pins break the build instead of letting a new leaf escape.
-/
import EPV.Tactics
import EPV.Robust
import EPV.Lemmas.C16Attr
import Mathlib.Tactic.Linarith
import Mathlib.Tactic.Ring
import Mathlib.Tactic.FieldSimp
import Mathlib.Tactic.Positivity
import Mathlib.Tactic.Push
import Mathlib.Tactic.NormNum
import Mathlib.Tactic.FinCases
import Mathlib.LinearAlgebra.Matrix.Notation

set_option linter.all false

open Lean Elab Tactic Meta

namespace EPV.Bridge.Eos

/-- all subterms of `e` satisfying `f` (without loose bound variables), outermost first, no duplicates -/
partial def collect (f : Expr → Bool) (e : Expr) (acc : Array Expr := #[]) : Array Expr :=
  let acc := if f e && !e.hasLooseBVars && !acc.contains e then acc.push e else acc
  match e with
  | .app g a => collect f a (collect f g acc)
  | .lam _ t b _ => collect f b (collect f t acc)
  | .forallE _ t b _ => collect f b (collect f t acc)
  | .letE _ t v b _ => collect f b (collect f v (collect f t acc))
  | .mdata _ b => collect f b acc
  | .proj _ _ b => collect f b acc
  | _ => acc

/-- is `e` a real quotient `a / b`? -/
def isRealDiv (e : Expr) : Bool :=
  e.isAppOfArity ``HDiv.hDiv 6 && (e.getArg! 0).isConstOf ``Real

/-- the denominator if `e` is a real division `a / b` or inverse `b⁻¹` -/
def realDenominator? (e : Expr) : Option Expr :=
  if e.isAppOfArity ``HDiv.hDiv 6 && (e.getArg! 0).isConstOf ``Real then some (e.getArg! 5)
  else if e.isAppOfArity ``Inv.inv 3 && (e.getArg! 0).isConstOf ``Real then some (e.getArg! 2)
  else none

/-- the factors of a denominator: through products, quotients, powers with numeral exponent, negation, inverse -/
partial def factors (e : Expr) (acc : Array Expr := #[]) : Array Expr :=
  if e.isAppOfArity ``HMul.hMul 6 then factors (e.getArg! 5) (factors (e.getArg! 4) acc)
  else if e.isAppOfArity ``HDiv.hDiv 6 then factors (e.getArg! 5) (factors (e.getArg! 4) acc)
  else if e.isAppOfArity ``HPow.hPow 6 && (e.getArg! 1).isConstOf ``Nat then factors (e.getArg! 4) acc
  else if e.isAppOfArity ``Neg.neg 3 then factors (e.getArg! 2) acc
  else if e.isAppOfArity ``Inv.inv 3 then factors (e.getArg! 2) acc
  else if acc.contains e then acc else acc.push e

/-- a sum or difference (a factor worth naming) -/
def isSum (e : Expr) : Bool := e.isAppOfArity ``HAdd.hAdd 6 || e.isAppOfArity ``HSub.hSub 6

end EPV.Bridge.Eos

/-- run a tactic with default transparency (`field_simp` calls its discharger with reducible transparency, under which
`intro` on `≠` fails) -/
elab "epv_eos_with_default " t:tacticSeq : tactic => withTransparency .default (evalTactic t)

/-- for every real quotient `a / b` occurring in the goal or in a hypothesis, add `a / b * b = a` when `b ≠ 0` follows
from the context — so that linear arithmetic with products (`nlinarith`) can clear the quotient -/
elab "epv_eos_div_facts" : tactic => withMainContext do
  let mut tgt ← instantiateMVars (← getMainTarget)
  let mut divs := EPV.Bridge.Eos.collect EPV.Bridge.Eos.isRealDiv tgt
  for ldecl in ← getLCtx do
    if ldecl.isImplementationDetail then continue
    let ty ← instantiateMVars ldecl.type
    if (← isProp ty) then
      divs := EPV.Bridge.Eos.collect EPV.Bridge.Eos.isRealDiv ty divs
  for d in divs do
    let a ← Term.exprToSyntax (d.getArg! 4)
    let b ← Term.exprToSyntax (d.getArg! 5)
    try
      withoutRecover (evalTactic (← `(tactic|
        have : $a / $b * $b = $a :=
          div_mul_cancel₀ $a (by first | assumption | positivity | (apply ne_of_gt; assumption) | (apply ne_of_gt; linarith)
                                       | (apply ne_of_lt; linarith)))))
    catch _ => pure ()

/-- goal `d ≠ 0` (or `¬ d = e`) from a hypothesis `e' ≠ 0` (`e' ≠ e''`, `0 < e'`, `e' < 0`) about the same quantity written
differently: `d = 0 → e' = 0` by linear arithmetic over ring-normalised monomials -/
elab "epv_eos_ne_hyps" : tactic => withMainContext do
  let g ← getMainGoal
  try
    withoutRecover (evalTactic (← `(tactic| first
      | (refine LT.lt.ne' ?_; first | assumption | linarith)
      | (refine LT.lt.ne ?_; first | assumption | linarith)
      | (intro epv_hd; linarith))))
    return
  catch _ => pure ()
  for ldecl in ← getLCtx do
    if ldecl.isImplementationDetail then continue
    let ty ← instantiateMVars ldecl.type
    let isNe := ty.isAppOfArity ``Ne 3 || (ty.isAppOfArity ``Not 1 && (ty.getArg! 0).isAppOfArity ``Eq 3)
    unless isNe do continue
    let hstx ← Term.exprToSyntax ldecl.toExpr
    try
      withoutRecover (evalTactic (← `(tactic|
        (refine mt ?_ $hstx; intro epv_hd
         first | linarith | (ring_nf at epv_hd ⊢; linarith) | (field_simp at epv_hd ⊢; linarith)
               | (epv_eos_div_facts; nlinarith)))))
      return
    catch _ => pure ()
  throwError "epv_eos_ne_hyps: no hypothesis gives{indentExpr (← g.getType)}"

/-- one side condition of a generated certificate (`d ≠ 0`, `0 < b`, `0 ≤ b`): products, quotients and powers are taken
apart, the factors are found in the context in whatever form they are written there -/
syntax "epv_eos_ifs" : tactic
syntax "epv_eos_side" : tactic
macro_rules
  | `(tactic| epv_eos_side) => `(tactic| first
    | assumption
    | positivity
    | linarith
    | (apply ne_of_gt; first | assumption | positivity | linarith)
    | (apply ne_of_lt; first | assumption | linarith)
    | epv_eos_ne_hyps
    | (refine mul_ne_zero ?_ ?_ <;> epv_eos_side)
    | (refine div_ne_zero ?_ ?_ <;> epv_eos_side)
    | (refine pow_ne_zero _ ?_; epv_eos_side)
    | (refine inv_ne_zero ?_; epv_eos_side)
    | (refine neg_ne_zero.mpr ?_; epv_eos_side)
    | (simp only [epv_c16, epv_leaf]; epv_eos_side)
    | epv_pos)

/-- `epv_eos_have_cert h : c` — `c` is a generated certificate applied to its parameters and point only; its remaining
hypotheses (the side conditions, however many and in whatever form) are discharged by `epv_eos_side`; the resulting
`HasDerivAt` fact is added to the context as `h` -/
elab "epv_eos_have_cert " h:ident " : " c:term : tactic => withMainContext do
  let e ← elabTerm c none
  let ty ← inferType e
  let (args, _, _) ← forallMetaTelescopeReducing ty
  for a in args do
    let g := a.mvarId!
    unless (← g.isAssigned) do
      let gty ← instantiateMVars (← g.getType)
      let rest ← try
          Tactic.run g (withoutRecover (evalTactic (← `(tactic| (try simp only [epv_c16]); epv_eos_side))))
        catch _ => throwError "epv_eos_have_cert: cannot discharge the side condition{indentExpr gty}"
      unless rest.isEmpty do
        throwError "epv_eos_have_cert: cannot discharge the side condition{indentExpr gty}"
  let pf ← instantiateMVars (mkAppN e args)
  let pfTy ← instantiateMVars (← inferType pf)
  let g ← getMainGoal
  let g' ← g.assert h.getId pfTy pf
  let (_, g'') ← g'.intro1P
  replaceMainGoal [g'']

/-- close `HasDerivAt f f' x` with a generated certificate given up to its side conditions -/
macro "epv_eos_cert " c:term : tactic =>
  `(tactic| (epv_eos_have_cert epv_hd : $c
             exact epv_hd))

/-- cheap version of `epv_eos_ne_hyps`: only linear arithmetic -/
elab "epv_eos_ne_hyps_cheap" : tactic => withMainContext do
  let g ← getMainGoal
  -- an equation in the context may rename the quantity (`epv_eos_gen_ne`): rewrite with the context first
  try
    withoutRecover (evalTactic (← `(tactic| (simp only [*]; done))))
    return
  catch _ => pure ()
  let decls := (← getLCtx).decls.toArray.filterMap id |>.reverse
  for ldecl in decls do
    if ldecl.isImplementationDetail then continue
    let ty ← instantiateMVars ldecl.type
    let isNe := ty.isAppOfArity ``Ne 3 || (ty.isAppOfArity ``Not 1 && (ty.getArg! 0).isAppOfArity ``Eq 3)
    unless isNe do continue
    let hstx ← Term.exprToSyntax ldecl.toExpr
    try
      withoutRecover (evalTactic (← `(tactic| (refine mt ?_ $hstx; intro epv_hd; linarith))))
      return
    catch _ => pure ()
  try
    withoutRecover (evalTactic (← `(tactic| first
      | (intro epv_hd; linarith)
      | (refine LT.lt.ne' ?_; first | assumption | linarith)
      | (refine LT.lt.ne ?_; first | assumption | linarith))))
    return
  catch _ => pure ()
  throwError "epv_eos_ne_hyps_cheap: no hypothesis gives{indentExpr (← g.getType)}"

/-- is the goal (after unfolding the traced condition) an equation / a negated equation? -/
elab "epv_eos_goal_is_eq" : tactic => withMainContext do
  let t ← instantiateMVars (← getMainTarget)
  let t := if t.isAppOfArity ``Not 1 then t.getArg! 0 else t
  unless t.isAppOfArity ``Eq 3 || t.isAppOfArity ``Ne 3 do throwError "not an equation"

/-- stage 0 of `epv_eos_cond`: the fact is in the context -/
macro "epv_eos_cond_trivial" : tactic => `(tactic| first
  | assumption
  | rfl
  | (exact le_refl _)
  | (exact lt_irrefl _)
  | (exact Ne.symm (by assumption))
  | (exact Eq.symm (by assumption)))

/-- the arithmetic core of `epv_eos_cond`, cheap stage: assumptions and linear arithmetic only -/
macro "epv_eos_cond_cheap" : tactic => `(tactic| first
  | assumption
  | rfl
  | (exact le_refl _)
  | (exact lt_irrefl _)
  | (epv_eos_goal_is_eq; first | epv_eos_ne_hyps_cheap | linarith)
  | linarith
  | (push_neg; first | assumption | linarith))

/-- the arithmetic core of `epv_eos_cond`, full stage: quotients are cleared with the facts in context, products of
hypotheses are tried -/
macro "epv_eos_cond_full" : tactic => `(tactic| first
  | (epv_eos_goal_is_eq; first | epv_eos_ne_hyps | (norm_num; done) | (field_simp; first | done | linarith))
  | (norm_num; done)
  | ((try push_neg); epv_eos_div_facts; first | linarith | nlinarith)
  | (intro epv_hd; epv_eos_div_facts; first | linarith | nlinarith))

/-- prove a traced path condition `M.c<i> p …` or its negation from the sign / non-vanishing facts in the context,
whatever form the code gives the comparison -/
macro "epv_eos_cond" : tactic =>
  `(tactic| ((try simp only [epv_cond, epv_c16]) <;> first | epv_eos_cond_cheap | epv_eos_cond_full))

/-- resolve every `if c then a else b` in the goal whose condition the context decides (outermost first) -/
elab_rules : tactic | `(tactic| epv_eos_ifs) => do
  let mut fuel := 60
  while fuel > 0 do
    fuel := fuel - 1
    if (← getUnsolvedGoals).isEmpty then break
    let g ← withMainContext do instantiateMVars (← getMainTarget)
    let some e := g.find? (fun e => e.isAppOfArity ``ite 5 && !(e.getArg! 1).hasLooseBVars)
      | break
    let cE := e.getArg! 1
    -- prove `ty` from the context (no syntax round trip: the condition may contain `if`s whose `Decidable`
    -- instances are classical)
    let tryProve (ty : Expr) (full : Nat) : TacticM (Option Expr) := withMainContext do
      let s ← saveState
      try
        let m ← mkFreshExprMVar ty
        let tac ← match full with
          | 2 => `(tactic| ((try simp only [epv_cond, epv_c16]) <;> epv_eos_cond_full))
          | 1 => `(tactic| ((try simp only [epv_cond, epv_c16]) <;> epv_eos_cond_cheap))
          | _ => `(tactic| ((try simp only [epv_cond, epv_c16]) <;> epv_eos_cond_trivial))
        let rest ← Tactic.run m.mvarId! (withoutRecover (evalTactic tac))
        if rest.isEmpty then
          return some (← instantiateMVars m)
        else
          s.restore
          return none
      catch _ =>
        s.restore
        return none
    let use (ty pf : Expr) (pos : Bool) : TacticM Unit := withMainContext do
      let g ← getMainGoal
      let g' ← g.assert `epv_hc ty pf
      let (fv, g'') ← g'.intro1P
      replaceMainGoal [g'']
      withMainContext do
        let h ← Term.exprToSyntax (mkFVar fv)
        if pos then
          evalTactic (← `(tactic| simp only [eq_true $h, if_true]))
        else
          evalTactic (← `(tactic| simp only [eq_false $h, if_false]))
        unless (← getUnsolvedGoals).isEmpty do
          try
            let g3 ← getMainGoal
            replaceMainGoal [← g3.clear fv]
          catch _ => pure ()
    let nE := mkNot cE
    if let some pf ← tryProve nE 0 then use nE pf false
    else if let some pf ← tryProve cE 0 then use cE pf true
    else if let some pf ← tryProve nE 1 then use nE pf false
    else if let some pf ← tryProve cE 1 then use cE pf true
    else if let some pf ← tryProve nE 2 then use nE pf false
    else if let some pf ← tryProve cE 2 then use cE pf true
    else
      -- undecided (e.g. a warning branch that returns the same value on both sides): split, continue in both cases
      if fuel < 40 then
        withMainContext do throwError "epv_eos_ifs: the context does not decide the condition{indentExpr cE}"
      let g ← getMainGoal
      let (pos, neg) ← g.byCases cE `epv_hs
      let rest := (← getGoals).tail
      let mut out : Array MVarId := #[]
      for (sg, isPos) in [(pos, true), (neg, false)] do
        setGoals [sg.mvarId]
        withMainContext do
          let h ← Term.exprToSyntax (mkFVar sg.fvarId)
          if isPos then
            evalTactic (← `(tactic| simp only [eq_true $h, if_true]))
          else
            evalTactic (← `(tactic| simp only [eq_false $h, if_false]))
        unless (← getUnsolvedGoals).isEmpty do
          evalTactic (← `(tactic| epv_eos_ifs))
        out := out ++ (← getUnsolvedGoals).toArray
      setGoals (out.toList ++ rest)
      break

/-- discharger for `field_simp`: whatever form `field_simp` gives a denominator, reduce it to the hypotheses -/
macro "epv_eos_disch" : tactic =>
  `(tactic| epv_eos_with_default (first | assumption | positivity | epv_eos_side))

/-- `field_simp` with the shape-independent discharger -/
macro "epv_eos_field_simp" : tactic => `(tactic| field_simp (disch := epv_eos_disch))

/-- equality of two field expressions written differently (`ring` alone cannot see `1 / (a * b) = 1 / a / b`) -/
macro "epv_eos_field" : tactic => `(tactic| first
  | rfl
  | ring1
  | (field_simp <;> ring1)
  | (epv_eos_field_simp <;> ring1)
  | (epv_eos_field_simp <;> ring_nf <;> done)
  | (ring_nf; done))

/-- the traced tree equals one of its leaves at a point where the context decides every guard:
goal `M.f p x y = M.L<k>.f p x y` (or any goal that becomes trivial once the `if`s are resolved) -/
macro "epv_eos_at_leaf" : tactic =>
  `(tactic| ((try simp only [epv_c16]); simp only [epv_tree] <;> epv_eos_ifs <;> try rfl))

/-- goal `<generated derivative / leaf expression> = <tree-level method at the point>` (either side): unfold the trees,
resolve the guards from the context, unfold leaves and derivative definitions, finish with field arithmetic -/
macro "epv_eos_eq" : tactic =>
  `(tactic| ((try simp only [epv_c16]); (try simp only [epv_tree]) <;> epv_eos_ifs <;>
             first | rfl | ((try simp only [epv_deriv, epv_leaf]); epv_eos_field)))

/-- name the compound factors of the goal's denominators: every factor `t` of a denominator that is a sum / difference and
that the context shows to be non-zero (in whatever form: `epv_eos_side`) becomes a fresh atom `d` with `d ≠ 0` in the
context, everywhere it occurs (the generator prints a shared sub-expression identically everywhere).  `field_simp`/`ring`
then work on a small polynomial identity — replaces literal `generalize (c.Γ₀ * (1 - η) + c.b * η) = G at *`. -/
elab "epv_eos_gen_dens" : tactic => do
  let mut fuel := 12
  let mut skip : Array Expr := #[]
  while fuel > 0 do
    fuel := fuel - 1
    if (← getUnsolvedGoals).isEmpty then break
    let tgt ← withMainContext do instantiateMVars (← getMainTarget)
    let dens := (EPV.Bridge.Eos.collect (fun e => (EPV.Bridge.Eos.realDenominator? e).isSome) tgt).filterMap
      EPV.Bridge.Eos.realDenominator?
    let mut cands : Array Expr := #[]
    for d in dens do
      for f in EPV.Bridge.Eos.factors d do
        if EPV.Bridge.Eos.isSum f && !f.hasLooseBVars && !cands.contains f && !skip.contains f then
          cands := cands.push f
    if cands.isEmpty then break
    -- innermost first: a candidate that contains another candidate waits for the next round
    let some t := cands.find? (fun t => cands.all fun u => u == t || !(t.find? (· == u)).isSome)
      | break
    let stx ← withMainContext do Term.exprToSyntax t
    try
      withoutRecover (evalTactic (← `(tactic|
        (have epv_hg : $stx ≠ (0 : ℝ) := by epv_eos_side
         generalize $stx = epv_d at *))))
    catch _ =>
      skip := skip.push t

/-- a documented fact (sign, non-vanishing, comparison) from the traced path facts in the context, whatever form the code
gave them -/
macro "epv_eos_fact" : tactic => `(tactic| first
  | assumption
  | linarith
  | (push_neg at *; first | assumption | linarith)
  | epv_eos_ne_hyps_cheap
  | epv_eos_cond_full
  | tauto)

/-- `epv_eos_eq` for goals about a component of a traced vector / matrix (`![…] i`, `!![…] i j`): select the component,
unfold the trees, resolve the guards from the context, unfold leaves and derivative definitions, field arithmetic -/
macro "epv_eos_res_eq" : tactic =>
  `(tactic| ((try simp only [epv_c16, Matrix.of_apply, Matrix.cons_val, Fin.zero_eta, Fin.mk_one, Fin.reduceFinMk, Fin.isValue]);
             (try simp only [epv_tree]) <;> epv_eos_ifs <;>
             first | rfl | ((try simp only [epv_leaf, epv_deriv]); epv_eos_field)))

/-- `epv_eos_gen_ne h` — `h : e ≠ 0`: name `e` everywhere (`epv_dgen`), keeping the definition `epv_hgen : e = epv_dgen` -/
elab "epv_eos_gen_ne " h:ident : tactic => withMainContext do
  let fv ← getFVarId h
  let ty ← instantiateMVars (← fv.getType)
  let e ← if ty.isAppOfArity ``Ne 3 then pure (ty.getArg! 1)
    else if ty.isAppOfArity ``Not 1 && (ty.getArg! 0).isAppOfArity ``Eq 3 then pure ((ty.getArg! 0).getArg! 1)
    else throwError "epv_eos_gen_ne: not of the form e ≠ 0"
  let stx ← Term.exprToSyntax e
  let hn := mkIdent `epv_hgen
  let dn := mkIdent `epv_dgen
  evalTactic (← `(tactic| generalize $hn:ident : $stx = $dn:ident at *))

set_option hygiene false in
/-- one entry of `F_prime_inv · F_prime = 1` after `epv_eos_gen_ne`: fold the determinant into its name, clear the
denominators, unfold it again, ring arithmetic -/
macro "epv_eos_inv_entry" : tactic => `(tactic| first
  | ((try simp only [epv_hgen]); (try field_simp); (try simp only [← epv_hgen]); (try field_simp); ring1)
  | ((try simp only [epv_hgen]); field_simp; simp only [← epv_hgen]; ring1)
  | epv_eos_field)

/-- the unfolding part of `epv_eos_res_eq` (component selection, trees, guards, leaves), without the closing arithmetic -/
macro "epv_eos_res_unfold" : tactic =>
  `(tactic| ((try simp only [epv_c16, Matrix.of_apply, Matrix.cons_val, Fin.zero_eta, Fin.mk_one, Fin.reduceFinMk, Fin.isValue]);
             (try simp only [epv_tree]) <;> epv_eos_ifs <;> (try simp only [epv_leaf, epv_deriv])))

namespace EPV.Bridge.Eos

/-- arguments of `Real.exp`, `Real.log`, `Real.sqrt` and compound denominators (`_ / d`, `d⁻¹` with `d` a sum): the places
where `ring` sees an atom and two equal quantities written differently block it -/
def opaqueArg? (e : Expr) : Option Expr :=
  if e.isAppOfArity ``Real.exp 1 || e.isAppOfArity ``Real.log 1 || e.isAppOfArity ``Real.sqrt 1 then some (e.getArg! 0)
  else match realDenominator? e with
    | some d => if isSum d then some d else none
    | none => none

end EPV.Bridge.Eos

/-- make equal quantities that sit where `ring` only sees atoms (arguments of `exp` / `log` / `√`, compound denominators)
*syntactically* equal: for every pair of such terms `x`, `y` in the goal with `x = y` provable by field arithmetic from the
non-vanishing facts in context (`Y s / (2 (G s)) = Y / (2 G)` for a scale `s ≠ 0`), rewrite `x` to `y` -/
elab "epv_eos_unify_args" : tactic => do
  let mut fuel := 12
  let mut progress := true
  while progress && fuel > 0 do
    progress := false
    fuel := fuel - 1
    if (← getUnsolvedGoals).isEmpty then break
    let tgt ← withMainContext do instantiateMVars (← getMainTarget)
    let args := (EPV.Bridge.Eos.collect (fun e => (EPV.Bridge.Eos.opaqueArg? e).isSome) tgt).filterMap
      EPV.Bridge.Eos.opaqueArg?
    let mut ts : Array Expr := #[]
    for a in args do
      if !a.hasLooseBVars && !ts.contains a then ts := ts.push a
    for i in [0:ts.size] do
      if progress then break
      for j in [0:ts.size] do
        if progress then break
        if i == j then continue
        let x := ts[i]!
        let y := ts[j]!
        -- rewrite the larger term to the smaller one
        if x.approxDepth < y.approxDepth then continue
        if x.approxDepth == y.approxDepth && i < j then continue
        let sx ← withMainContext do Term.exprToSyntax x
        let sy ← withMainContext do Term.exprToSyntax y
        try
          withoutRecover (evalTactic (← `(tactic|
            (have epv_u : $sx = $sy := by
               first | ring1 | (field_simp; done) | (field_simp; ring1) | (epv_eos_field_simp; ring1)
             rw [epv_u] <;> clear epv_u))))
          progress := true
        catch _ => pure ()

/-- goal `A' < B' ↔ A < B` (or `≤`) where `A' = c * A`, `B' = c * B` by field arithmetic and `hc : 0 < c`: a comparison
re-expressed in scaled units, however the code writes the two sides -/
elab "epv_eos_scale_iff " c:term ", " hc:term : tactic => withMainContext do
  let tgt ← instantiateMVars (← getMainTarget)
  unless tgt.isAppOfArity ``Iff 2 do throwError "epv_eos_scale_iff: not an iff"
  let l := tgt.getArg! 0
  let r := tgt.getArg! 1
  let isLt := l.isAppOfArity ``LT.lt 4 && r.isAppOfArity ``LT.lt 4
  let isLe := l.isAppOfArity ``LE.le 4 && r.isAppOfArity ``LE.le 4
  unless isLt || isLe do throwError "epv_eos_scale_iff: not a comparison of the same kind on both sides"
  let a' ← Term.exprToSyntax (l.getArg! 2)
  let b' ← Term.exprToSyntax (l.getArg! 3)
  let a ← Term.exprToSyntax (r.getArg! 2)
  let b ← Term.exprToSyntax (r.getArg! 3)
  evalTactic (← `(tactic|
    (have epv_ha : $a' = $c * $a := by first | ring1 | (field_simp; done) | (field_simp; ring1)
     have epv_hb : $b' = $c * $b := by first | ring1 | (field_simp; done) | (field_simp; ring1)
     rw [epv_ha, epv_hb])))
  if isLt then
    evalTactic (← `(tactic| exact ⟨fun h => lt_of_mul_lt_mul_left h (le_of_lt $hc), fun h => mul_lt_mul_of_pos_left h $hc⟩))
  else
    evalTactic (← `(tactic| exact ⟨fun h => le_of_mul_le_mul_left h $hc, fun h => mul_le_mul_of_nonneg_left h (le_of_lt $hc)⟩))
