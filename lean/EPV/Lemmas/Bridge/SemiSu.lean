/-
Closing tactics for the Su-Olson models (C18, C20 share) and the 2-D steady Riemann models (C19, C03 share)
— robust-semi, part `su` (GUIDE §8).

The generated models follow the shape of the Python expression.  The property files of this part compare a
generated leaf with its documented form

* up to ring normalisation at every level (under `Real.sqrt`, `Real.arccos`, `Real.sin`, `Real.exp`, `max`,
  in the arguments of the uninterpreted `Usol`/`Vsol`), with `x ** 2.` (a real power) read as `x ^ 2`
  (`epv_semi_su_eq`);
* clamps `max(tiny, ·)`: the documented form keeps its `max`; `epv_semi_su_clamp` closes one leaf of the traced
  tree: the traced comparisons of the branch either contradict the context (linear arithmetic) or — after
  hypotheses and goal have been normalised *together*, so that the traced comparison and the documented clamp
  are written alike whatever the Python looked like — decide every `max`.

All tactic names carry the prefix `epv_semi_su_`.

NB (learnt the hard way): inside a term-level `by` that is itself inside `first | … | …`, a failing `done` in
the *last* position is logged and swallowed (abort exception), the alternative then "succeeds" with an error
message.  End such blocks with `| fail "…"`.
-/
import EPV.Lemmas.Bridge.SemiTac
import Mathlib.Analysis.SpecialFunctions.Pow.Real

set_option linter.all false

/-- read `x ** 2.` as `x ^ 2`, drop the `0 * x +` a broadcast leaves behind -/
macro "epv_semi_su_pre" : tactic =>
  `(tactic| simp only [Real.rpow_two, zero_mul, zero_add, add_zero, mul_one, one_mul, div_one])

/-- `A = B` up to ring normalisation at every level, `x ** 2.` read as `x ^ 2` — the cheap attempts first,
then the shared `epv_semi_eq` (with `field_simp`).  No `rfl` at default transparency before the normalising
attempts: on two *different* large real terms it can run into the heartbeat limit instead of failing. -/
macro "epv_semi_su_eq" : tactic =>
  `(tactic| first
    | done
    | with_reducible rfl
    | ring1
    | (ring_nf; done)
    | (epv_semi_su_pre; ring_nf; done)
    | ((try epv_semi_su_pre); epv_semi_inv_nf; ring_nf; done)
    | epv_semi_eq
    | (epv_semi_su_pre; epv_semi_eq))

/-- a conjunction of `epv_semi_su_eq` goals -/
macro "epv_semi_su_conj" : tactic =>
  `(tactic| ((repeat' apply And.intro) <;> epv_semi_su_eq))

/-- rewrite `max a b` / `min a b` with the comparisons in context (which must be written like the arguments:
normalise hypotheses and goal together first) -/
macro "epv_semi_su_minmax" : tactic =>
  `(tactic| simp only [max_eq_left, max_eq_right, max_eq_left_of_lt, max_eq_right_of_lt,
      min_eq_left, min_eq_right, min_eq_left_of_lt, min_eq_right_of_lt, *])

/-- one leaf of a traced tree against a documented form that keeps its clamps `max tiny (·)`; the traced
comparisons of the branch are in context (unfolded).  Either they contradict the context (branch excluded),
or — after normalising hypotheses and goal together — they decide every `max`, and the two sides agree. -/
macro "epv_semi_su_clamp" : tactic =>
  `(tactic| ((try simp only [not_le, not_lt] at *)
             first
             | (exfalso; linarith)
             | (ring_nf at *
                first
                | (exfalso; linarith)
                | ((try epv_semi_su_minmax); first | done | (ring_nf; done) | ring1))))

/-- walk a traced tree: unfold the tree together with its leaves, drop the splits on traced conditions the field
at hand does not depend on (both branches then carry the same term: `ite_self` — a model traces several fields
at once and every field's tree carries the conditions of all of them), split on the conditions that remain and
unfold them in the context -/
macro "epv_semi_su_split" : tactic =>
  `(tactic| (simp only [epv_tree, epv_leaf, ite_self]
             (try split_ifs) <;> (try simp only [epv_cond, not_le, not_lt] at *)))
