/-
Bridge lemmas of the generated model SedovQuad (GUIDE §8; written by tools/dev/mk_semi_bridge.py from the pinned tree,
hand-maintained from then on): every generated leaf field / path condition equals the closed form the
pinned source computes.  These lemmas are the only place that sees the shape of the generated terms: `rfl` on
the pinned tree, ring normalisation at every level (`epv_semi_eq`) after a harmless rewrite of the Python.
Property proofs unfold with `simp only [epv_semi_leaf]` (`epv_semi_cond`, `epv_semi_deriv`).
-/
import EPV.Gen.SedovQuad
import EPV.Lemmas.Bridge.SemiTac

set_option linter.all false
set_option maxRecDepth 100000

open EPV EPV.Gen

namespace EPV.Bridge.Semi

@[epv_semi_cond] theorem SedovQuad_c0 (p : SedovQuad.P) :
    SedovQuad.c0 p ↔ (p.geometry = (1 : ℝ)) := by
  epv_semi_bridge_cond

@[epv_semi_cond] theorem SedovQuad_c1 (p : SedovQuad.P) :
    SedovQuad.c1 p ↔ (p.gamma < (1 : ℝ)) := by
  epv_semi_bridge_cond

@[epv_semi_cond] theorem SedovQuad_c2 (p : SedovQuad.P) :
    SedovQuad.c2 p ↔ (p.geometry = (2 : ℝ)) := by
  epv_semi_bridge_cond

@[epv_semi_cond] theorem SedovQuad_c3 (p : SedovQuad.P) :
    SedovQuad.c3 p ↔ (p.geometry = (3 : ℝ)) := by
  epv_semi_bridge_cond

@[epv_semi_cond] theorem SedovQuad_c4 (p : SedovQuad.P) :
    SedovQuad.c4 p ↔ (p.rho0 < (0 : ℝ)) := by
  epv_semi_bridge_cond

@[epv_semi_cond] theorem SedovQuad_c5 (p : SedovQuad.P) :
    SedovQuad.c5 p ↔ (p.eblast < (0 : ℝ)) := by
  epv_semi_bridge_cond

@[epv_semi_cond] theorem SedovQuad_c6 (p : SedovQuad.P) :
    SedovQuad.c6 p ↔ (p.omega < (0 : ℝ)) := by
  epv_semi_bridge_cond

@[epv_semi_cond] theorem SedovQuad_c7 (p : SedovQuad.P) :
    SedovQuad.c7 p ↔ (p.geometry ≤ p.omega) := by
  epv_semi_bridge_cond

@[epv_semi_cond] theorem SedovQuad_c8 (p : SedovQuad.P) :
    SedovQuad.c8 p ↔ (|(((4 : ℝ) / (((p.geometry + (2 : ℝ)) - p.omega) * (p.gamma + (1 : ℝ)))) - ((2 : ℝ) / (((p.gamma - (1 : ℝ)) * p.geometry) + (2 : ℝ))))| ≤ ((1 : ℝ) / 10000)) := by
  epv_semi_bridge_cond

@[epv_semi_cond] theorem SedovQuad_c9 (p : SedovQuad.P) :
    SedovQuad.c9 p ↔ (|((((2 : ℝ) * (p.gamma - (1 : ℝ))) + p.geometry) - (p.gamma * p.omega))| ≤ ((1 : ℝ) / 10000)) := by
  epv_semi_bridge_cond

@[epv_semi_cond] theorem SedovQuad_c10 (p : SedovQuad.P) :
    SedovQuad.c10 p ↔ (((4 : ℝ) / (((p.geometry + (2 : ℝ)) - p.omega) * (p.gamma + (1 : ℝ)))) < (((2 : ℝ) / (((p.gamma - (1 : ℝ)) * p.geometry) + (2 : ℝ))) - ((1 : ℝ) / 10000))) := by
  epv_semi_bridge_cond

@[epv_semi_cond] theorem SedovQuad_c11 (p : SedovQuad.P) :
    SedovQuad.c11 p ↔ ((((2 : ℝ) / (((p.gamma - (1 : ℝ)) * p.geometry) + (2 : ℝ))) + ((1 : ℝ) / 10000)) < ((4 : ℝ) / (((p.geometry + (2 : ℝ)) - p.omega) * (p.gamma + (1 : ℝ))))) := by
  epv_semi_bridge_cond

@[epv_semi_cond] theorem SedovQuad_c12 (p : SedovQuad.P) :
    SedovQuad.c12 p ↔ (|((p.geometry * ((2 : ℝ) - p.gamma)) - p.omega)| ≤ ((1 : ℝ) / 10000)) := by
  epv_semi_bridge_cond

end EPV.Bridge.Semi
