/-
Shape-independent closing tactics for the bridge lemmas of the 1-D Riemann family
(`EPV.Lemmas.Riemann`, `EPV.Lemmas.Bridge.RiemannGen`): the generated term and the documented
formula are compared *up to ring normalisation at every level*, i.e. also inside the arguments
of `Real.sqrt`, `Real.rpow`, `Real.exp`.  A rewrite of the Python that renames or hoists locals,
reassociates or commutes sums and products, turns `a/b/c` into `a/(b*c)`, `x**2` into `x*x`,
`/2.` into `0.5*`, `sqrt(x)` into `x**0.5` … changes none of these normal forms (see GUIDE §8, EPV/Robust.lean).

`ring` alone is not enough: it treats `√A` as an atom and never looks inside `A`, and it does not
distribute an inverse over a product one of whose factors is a sum (`((γ+1)·ρ)⁻¹`); `ring_nf`
normalises recursively, and the `simp only` pre-pass pushes inverses through products first.
NB `ring` (the macro) *succeeds* when `ring_nf` merely makes progress, so `first | ring | …` never
reaches its later alternatives: use `ring1`.
-/
import EPV.Robust
import Mathlib.Tactic.Ring.RingNF
import Mathlib.Tactic.FieldSimp
import Mathlib.Tactic.Linarith
import Mathlib.Tactic.Tauto
import Mathlib.Analysis.SpecialFunctions.Pow.Real

/-- `A = B` for two real expressions that agree up to ring normalisation at every level -/
macro "riem_deep" : tactic =>
  `(tactic| first
    | rfl
    | ring1
    | (simp only [div_eq_mul_inv, mul_inv, inv_inv]; ring_nf; done)
    | (ring_nf; done)
    | (field_simp; ring1)
    | (field_simp; ring_nf; done)
    | (simp only [div_eq_mul_inv, mul_inv, inv_inv, mul_one, one_mul, mul_neg, neg_mul, add_zero, zero_add,
        sub_zero, mul_zero, zero_mul]; ring_nf; done)
    -- `x ** 0.5` written for `sqrt(x)` (the same real function: `Real.sqrt_eq_rpow`, unconditional)
    | (simp only [← Real.sqrt_eq_rpow] <;>
       first
       | rfl
       | ring1
       | (simp only [div_eq_mul_inv, mul_inv, inv_inv]; ring_nf; done)
       | (ring_nf; done)))

/-- `riem_side_split [defs]`: split a side-detection tree (`p == pl and u == ul and r == rl`, in whatever
order the Python writes the conjunction) and close every case: contradictory cases propositionally, the
others by unfolding the selected leaf and comparing up to `riem_deep`.

The tree must still be *folded* when this is called (`simp only [view, epv_tree]` only): `split_ifs`
cannot rewrite an `if` whose condition was rewritten underneath its `Decidable` instance, so the
conditions (`epv_cond`) and the argument records (`defs`, e.g. `toShockVel`) are unfolded after the split.
Contradictory cases are closed by `grind` (congruence closure: indifferent to the orientation `p == inst.pl` /
`inst.pl == p` of the tests; `simp_all` would loop on `a = b`, `b = a`). -/
syntax "riem_side_split" (" [" Lean.Parser.Tactic.simpLemma,* "]")? : tactic
macro_rules
  | `(tactic| riem_side_split) => `(tactic| riem_side_split [epv_cond])
  | `(tactic| riem_side_split [$ls,*]) =>
    `(tactic| ((try split_ifs) <;> (try simp only [epv_cond, $ls,*] at *) <;>
        first
        | (exfalso; grind)
        | (exfalso; tauto)
        | (simp only [epv_leaf, $ls,*] <;> riem_deep)))
