/-
Bridge between the traced Cog19 model and the documented formulas (see EPV/Robust.lean, GUIDE §8):
the only lemmas that see the shape of the generated terms.  k = geometry - 1.
-/
import EPV.Gen.Cog19
import EPV.Robust
import EPV.Lemmas.HydroRobust

set_option linter.all false
open EPV EPV.Gen

namespace EPV.Bridge

/-- the coded branch test is `r < -(γ-1) u₀ t / 2`, however the Python writes the product -/
theorem cog19_c0_iff (p : Cog19.P) (r t : ℝ) :
    Cog19.c0 p r t ↔ r < (-(p.gamma - 1)) * p.u0 * t / 2 := by
  simp only [epv_cond] <;> epv_arith_iff

theorem cog19_not_c0_iff (p : Cog19.P) (r t : ℝ) :
    ¬ Cog19.c0 p r t ↔ (-(p.gamma - 1)) * p.u0 * t / 2 ≤ r := by
  rw [cog19_c0_iff, not_lt]

/-- leaf 0 ⇔ the shock test holds -/
theorem cog19_leaf_zero_iff (p : Cog19.P) (r t : ℝ) : Cog19.leaf p r t = 0 ↔ Cog19.c0 p r t := by
  simp only [epv_tree]; split_ifs with h <;> simp [h]

/-! documented closed forms: behind the shock (leaf 0) -/

theorem cog19_L0_density (p : Cog19.P) (r t : ℝ) :
    Cog19.L0.density p r t = p.rho0 * ((p.gamma + 1) / (p.gamma - 1)) ^ ((p.geometry - 1) + 1) := by
  simp only [epv_leaf] <;> epv_hydro_closed

theorem cog19_L0_velocity (p : Cog19.P) (r t : ℝ) : Cog19.L0.velocity p r t = 0 := by
  simp only [epv_leaf] <;> epv_hydro_closed

theorem cog19_L0_temperature (p : Cog19.P) (r t : ℝ) :
    Cog19.L0.temperature p r t = p.u0 ^ 2 * (p.gamma - 1) / (2 * p.Gamma) := by
  simp only [epv_leaf] <;> epv_hydro_closed

/-- p = Γ ρ T -/
theorem cog19_L0_pressure (p : Cog19.P) (r t : ℝ) :
    Cog19.L0.pressure p r t = p.Gamma * (p.rho0 * ((p.gamma + 1) / (p.gamma - 1)) ^ ((p.geometry - 1) + 1))
      * (p.u0 ^ 2 * (p.gamma - 1) / (2 * p.Gamma)) := by
  simp only [epv_leaf] <;> epv_hydro_closed

/-- e = p / ρ / (γ - 1) = Γ T / (γ - 1); the code divides by ρ and by γ - 1 -/
theorem cog19_L0_sie (p : Cog19.P) (r t : ℝ) (hρ : p.rho0 ≠ 0) (hγ : 1 < p.gamma) (hΓ : p.Gamma ≠ 0) :
    Cog19.L0.specific_internal_energy p r t = p.u0 ^ 2 / 2 := by
  have h1 : 0 < p.gamma - 1 := by linarith
  have h2 : 0 < p.gamma + 1 := by linarith
  simp only [epv_leaf] <;> epv_hydro_closed

/-! ahead of the shock (leaf 1) -/

/-- ρ = ρ₀ ((r - u₀ t) / r)^k; r ≠ 0 so that `(r - u₀ t) / r` and `1 - u₀ t / r` are the same number -/
theorem cog19_L1_density (p : Cog19.P) (r t : ℝ) (hr : r ≠ 0) :
    Cog19.L1.density p r t = p.rho0 * ((r - p.u0 * t) / r) ^ (p.geometry - 1) := by
  simp only [epv_leaf] <;> epv_hydro_closed

theorem cog19_L1_velocity (p : Cog19.P) (r t : ℝ) : Cog19.L1.velocity p r t = p.u0 := by
  simp only [epv_leaf] <;> epv_hydro_closed

theorem cog19_L1_temperature (p : Cog19.P) (r t : ℝ) : Cog19.L1.temperature p r t = 0 := by
  simp only [epv_leaf] <;> epv_hydro_closed

theorem cog19_L1_pressure (p : Cog19.P) (r t : ℝ) : Cog19.L1.pressure p r t = 0 := by
  simp only [epv_leaf] <;> epv_hydro_closed

theorem cog19_L1_sie (p : Cog19.P) (r t : ℝ) : Cog19.L1.specific_internal_energy p r t = 0 := by
  simp only [epv_leaf] <;> epv_hydro_closed

end EPV.Bridge
