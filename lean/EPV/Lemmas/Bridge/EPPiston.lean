/-
Bridge between the traced elastic–plastic piston constructor models `EPPiston{Hypo,Ifin,Fin}` (let-normal form, GUIDE §8)
and the documented formulas of `ep_piston.py`.  This is the only place that sees the shape of the generated definitions:
every property theorem of C02 / C03 / C17 about the constructor goes through `EPP.Doc`.

For an accepted request (`outcome = ok`) whose attributes satisfy their generated definitions (`<M>Consistent`):

  G, Y, ρ₀ > 0, up ≥ 0                                   (what the constructor checks, in whatever order)
  s  = -(2/3) Y
  e_y = (P_H - ρ_y Γ E_H + (2/3) Y)(ρ_y - ρ₀) / (2 ρ₀ ρ_y - ρ_y Γ (ρ_y - ρ₀))        P_H, E_H: `EPV.EPP.PH`, `EPV.EPP.EH`
  p_y = P_H + Γ ρ_y (e_y - E_H)
  W  = √(ρ_y (s - p_y) / (ρ₀ (ρ₀ - ρ_y)))
  v_y = W (ρ_y - ρ₀) / ρ_y                               (given ρ_y ≠ 0: the code may divide first)
  p2 = p_y + ρ_y (W_p - v_y)(up - v_y),   ρ2 = ρ_y ((W_p - v_y)/(W_p - up)),
  e2 = e_y + 1/(2 ρ_y ρ2) (p_y + p2 - 2 s)(ρ2 - ρ_y)
  Plastic_Residual(W_p) = p2 - P_H(ρ2) - Γ ρ2 (e2 - E_H(ρ2))
and the model-specific density at yield ρ_y.  Each equation is proved by ring normalisation of the generated definition
(after `Real.rpow_two`, `Real.rpow_neg_one`), so renaming / hoisting locals, commuting, reassociating, `x**2.` ↔ `x*x`,
`a/b/c` ↔ `a/(b*c)`, `x**(-1.)` ↔ `1/x` and reordering the validation checks do not matter.
-/
import EPV.Gen.EPPistonHypo
import EPV.Gen.EPPistonIfin
import EPV.Gen.EPPistonFin
import EPV.Lemmas.EPPiston
import EPV.Lemmas.EPPistonModels
import EPV.Lemmas.Bridge.EosTac

set_option linter.all false

open EPV EPV.Gen EPV.Spec

namespace EPV.EPP

noncomputable section

/-- the documented relations between the parameters and the attributes the constructor assigns, common to the three
elasticity models (which differ only in ρ_y) -/
structure Doc (ρ₀ Γ c₀ s₀ Y G up s ρy ey py W vy Wp p2 ρ2 e2 res : ℝ) : Prop where
  G_pos : 0 < G
  Y_pos : 0 < Y
  rho0_pos : 0 < ρ₀
  up_nonneg : 0 ≤ up
  sdev_eq : s = -(2 / 3) * Y
  e_y_eq : ey = (PH ρ₀ c₀ s₀ ρy - ρy * Γ * EH ρ₀ c₀ s₀ ρy + 2 / 3 * Y) * (ρy - ρ₀) / (2 * ρ₀ * ρy - ρy * Γ * (ρy - ρ₀))
  p_y_eq : py = PH ρ₀ c₀ s₀ ρy + Γ * ρy * (ey - EH ρ₀ c₀ s₀ ρy)
  wv_el_eq : W = Real.sqrt (ρy * (s - py) / (ρ₀ * (ρ₀ - ρy)))
  vel_y_eq : ρy ≠ 0 → vy = W * (ρy - ρ₀) / ρy
  p2_eq : p2 = py + ρy * (Wp - vy) * (up - vy)
  rho2_eq : ρ2 = ρy * ((Wp - vy) / (Wp - up))
  e2_eq : e2 = ey + 1 / (2 * ρy * ρ2) * (py + p2 - 2 * s) * (ρ2 - ρy)
  residual_eq : res = p2 - mieGruneisen ρ₀ Γ c₀ s₀ ρ2 e2

/-- equality of two expressions that agree up to ring normalisation, also inside `Real.sqrt` / `Real.exp` -/
macro "epv_epp_eq" : tactic => `(tactic| first
  | rfl
  | ring1
  | (congr 1 <;> ring1)
  | (ring_nf; done)
  | (simp only [PH, EH]; first | ring1 | (ring_nf; done))
  | epv_eos_field)

/-- model = 'hypo': the accepted, consistent constructor result satisfies the documented relations -/
theorem hypo_doc (p : EPPistonHypo.P) (h : EPPistonHypo.outcome p = .ok) (hc : hypoConsistent p) :
    Doc p.rho0 p.gamma p.c0 p.s0 p.Y p.G p.up p.sdev_y p.rho_y p.e_y p.p_y p.wv_el p.vel_y p.wv_pl p.p2 p.rho2
      (EPPistonHypo.e2 p) (EPPistonHypo.plastic_residual p)
    ∧ p.rho_y = p.rho0 * Real.exp (p.Y / (2 * p.G)) := by
  obtain ⟨hs, hry, he, hp, hW, hv, hp2, hr2⟩ := hc
  simp only [epv_tree] at *
  split_ifs at * <;> first
    | epv_absurd
    | (simp only [epv_cond] at *
       simp only [epv_leaf, Real.rpow_two, Real.rpow_neg_one] at hs hry he hp hW hv hp2 hr2 ⊢
       refine ⟨⟨by epv_eos_fact, by epv_eos_fact, by epv_eos_fact, by epv_eos_fact, ?_, ?_, ?_, ?_, ?_, ?_, ?_, ?_, ?_⟩, ?_⟩
       · rw [hs] <;> epv_epp_eq
       · rw [he] <;> simp only [PH, EH] <;> epv_epp_eq
       · rw [hp] <;> simp only [PH, EH] <;> epv_epp_eq
       · rw [hW] <;> epv_epp_eq
       · intro hρy; rw [hv] <;> epv_epp_eq
       · rw [hp2] <;> epv_epp_eq
       · rw [hr2] <;> epv_epp_eq
       · epv_epp_eq
       · rw [mieGruneisen_eq, hp2, hr2] <;> simp only [PH, EH] <;> epv_epp_eq
       · rw [hry] <;> epv_epp_eq)

/-- model = 'hyperIfin': the accepted, consistent constructor result satisfies the documented relations -/
theorem ifin_doc (p : EPPistonIfin.P) (h : EPPistonIfin.outcome p = .ok) (hc : ifinConsistent p) :
    Doc p.rho0 p.gamma p.c0 p.s0 p.Y p.G p.up p.sdev_y p.rho_y p.e_y p.p_y p.wv_el p.vel_y p.wv_pl p.p2 p.rho2
      (EPPistonIfin.e2 p) (EPPistonIfin.plastic_residual p)
    ∧ p.rho_y = p.rho0 * (1 - p.Y / (2 * p.G))⁻¹ := by
  obtain ⟨hs, hry, he, hp, hW, hv, hp2, hr2⟩ := hc
  simp only [epv_tree] at *
  split_ifs at * <;> first
    | epv_absurd
    | (simp only [epv_cond] at *
       simp only [epv_leaf, Real.rpow_two, Real.rpow_neg_one] at hs hry he hp hW hv hp2 hr2 ⊢
       refine ⟨⟨by epv_eos_fact, by epv_eos_fact, by epv_eos_fact, by epv_eos_fact, ?_, ?_, ?_, ?_, ?_, ?_, ?_, ?_, ?_⟩, ?_⟩
       · rw [hs] <;> epv_epp_eq
       · rw [he] <;> simp only [PH, EH] <;> epv_epp_eq
       · rw [hp] <;> simp only [PH, EH] <;> epv_epp_eq
       · rw [hW] <;> epv_epp_eq
       · intro hρy; rw [hv] <;> epv_epp_eq
       · rw [hp2] <;> epv_epp_eq
       · rw [hr2] <;> epv_epp_eq
       · epv_epp_eq
       · rw [mieGruneisen_eq, hp2, hr2] <;> simp only [PH, EH] <;> epv_epp_eq
       · rw [hry] <;> epv_epp_eq)

/-- model = 'hyperFin': the accepted, consistent constructor result satisfies the documented relations -/
theorem fin_doc (p : EPPistonFin.P) (h : EPPistonFin.outcome p = .ok) (hc : finConsistent p) :
    Doc p.rho0 p.gamma p.c0 p.s0 p.Y p.G p.up p.sdev_y p.rho_y p.e_y p.p_y p.wv_el p.vel_y p.wv_pl p.p2 p.rho2
      (EPPistonFin.e2 p) (EPPistonFin.plastic_residual p)
    ∧ p.rho_y = p.rho0 / p.F_y := by
  obtain ⟨hs, hry, he, hp, hW, hv, hp2, hr2⟩ := hc
  simp only [epv_tree] at *
  split_ifs at * <;> first
    | epv_absurd
    | (simp only [epv_cond] at *
       simp only [epv_leaf, Real.rpow_two, Real.rpow_neg_one] at hs hry he hp hW hv hp2 hr2 ⊢
       refine ⟨⟨by epv_eos_fact, by epv_eos_fact, by epv_eos_fact, by epv_eos_fact, ?_, ?_, ?_, ?_, ?_, ?_, ?_, ?_, ?_⟩, ?_⟩
       · rw [hs] <;> epv_epp_eq
       · rw [he] <;> simp only [PH, EH] <;> epv_epp_eq
       · rw [hp] <;> simp only [PH, EH] <;> epv_epp_eq
       · rw [hW] <;> epv_epp_eq
       · intro hρy; rw [hv] <;> epv_epp_eq
       · rw [hp2] <;> epv_epp_eq
       · rw [hr2] <;> epv_epp_eq
       · epv_epp_eq
       · rw [mieGruneisen_eq, hp2, hr2] <;> simp only [PH, EH] <;> epv_epp_eq
       · rw [hry] <;> epv_epp_eq)

/-- model = 'hyperFin': the residual `finite_yield` handed to `fsolve` for the stretch at yield F -/
theorem fin_yield_residual (p : EPPistonFin.P) (h : EPPistonFin.outcome p = .ok) :
    EPPistonFin.yield_residual p
      = 2 / 3 * p.Y + 2 / 3 * p.G * (p.F_y ^ ((7 : ℝ) / 3) - p.F_y ^ (-((5 : ℝ) / 3)) + p.F_y ^ (-1 : ℝ) - p.F_y) := by
  simp only [epv_tree] at *
  split_ifs at * <;> first
    | epv_absurd
    | (simp only [epv_leaf, Real.rpow_neg_one] <;> epv_epp_eq)

end

end EPV.EPP
