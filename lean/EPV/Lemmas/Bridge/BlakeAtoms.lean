/-
Shape-independent handling of the closed-form Blake solution (`Blake._run`, leaf 1) in the C15 differential theorems
(strain = ∂u/∂r, wave equation, wall stress).  See GUIDE §8.

The generated leaf and derivative expressions are huge (up to 32 kB); the proofs tame them by replacing the
transcendental sub-expressions by variables and then clearing denominators.  Naming these sub-expressions by a literal
pattern (`generalize (p.long_mod / p.ref_density) ^ (1/2) = cl`, `generalize Real.exp (-n * (t - (r - a) / cl)) = W`,
`rw [show exp (n * (t + a/cl)) = (exp (-n * (t + a/cl)))⁻¹ …]`) breaks as soon as the Python reassociates a product,
hoists a local or writes `-(n*x)` for `-n*x`.  The tactics below select them by what they ARE:

* `epv_deton_gen_rpow_half x h`   the (first) innermost `_ ^ ((1:ℝ)/2)` (Python `pow(_, 0.5)`): here `c_L`, then `b`;
* `epv_deton_gen_only fld x h`    the maximal sub-expression built from one structure field and numerals only: here the
                                  Poisson fraction `(1 - 2ν)/(1 - ν)`;
* ring normalisation of the whole goal (`ring_nf`) makes the arguments of `exp`, `sin`, `cos` canonical, and
  `Real.exp_add/sub/neg` split every exponential into exponentials of canonical MONOMIALS, so that the relations between
  the coded exponentials (`eacts * emacts = 1`, `enrc_r * emacts = emntp_r`) become ring identities between atoms;
* `epv_deton_gen_app f x h`       the first application of `f` (`Real.exp`, `Real.sin`, `Real.cos`);
* `epv_deton_gen_inv_sum x`       an inverse of a sum (a denominator that only occurs as a common factor, `k1`).

`epv_deton_blake_identity` is the whole pipeline for a rational identity between leaf-1 expressions.
-/
import EPV.Lemmas.BlakeFields
import EPV.Lemmas.Bridge.DetonTactics
import Mathlib.Analysis.SpecialFunctions.Exp

open Lean Elab Tactic Meta

namespace EPV.Bridge.Deton

/-- `e` is built from the projection `fn _`, numerals and arithmetic only -/
partial def onlyField (fn : Name) (e : Expr) : Bool :=
  if e.isAppOf fn then true
  else if e.isAppOfArity ``OfNat.ofNat 3 then true
  else if e.isRawNatLit then true
  else
    let f := e.getAppFn
    let un := f.isConstOf ``Neg.neg || f.isConstOf ``Inv.inv
    let bin := f.isConstOf ``HAdd.hAdd || f.isConstOf ``HSub.hSub || f.isConstOf ``HMul.hMul ||
      f.isConstOf ``HDiv.hDiv || f.isConstOf ``HPow.hPow
    if un && e.getAppNumArgs == 3 then onlyField fn (e.getArg! 2)
    else if bin && e.getAppNumArgs == 6 then onlyField fn (e.getArg! 4) && onlyField fn (e.getArg! 5)
    else false

def isNumLit (e : Expr) (n : Nat) : Bool :=
  e.isAppOfArity ``OfNat.ofNat 3 && (e.getArg! 1) == mkRawNatLit n

/-- `_ ^ ((1:ℝ)/2)` -/
def isRpowHalf (e : Expr) : Bool :=
  e.isAppOfArity ``HPow.hPow 6 &&
    (let x := e.getArg! 5; x.isAppOfArity ``HDiv.hDiv 6 && isNumLit (x.getArg! 4) 1 && isNumLit (x.getArg! 5) 2)

end EPV.Bridge.Deton

open EPV.Bridge.Deton

/-- generalize the first innermost `x ^ ((1:ℝ)/2)` of the goal everywhere: `h : x ^ (1/2) = R` -/
elab "epv_deton_gen_rpow_half " R:ident h:ident : tactic => withMainContext do
  let g ← instantiateMVars (← getMainTarget)
  let some e := g.find? (fun e => isRpowHalf e && !e.hasLooseBVars && ((e.getArg! 4).find? isRpowHalf).isNone)
    | throwError "epv_deton_gen_rpow_half: no innermost `x ^ ((1:ℝ)/2)` in the goal"
  let stx ← Term.exprToSyntax e
  evalTactic (← `(tactic| generalize $h:ident : $stx = $R at *))

/-- generalize a maximal subterm of the goal that mentions the structure field `fld` and, besides, only numerals
(e.g. the Poisson fraction `(1 - 2ν)/(1 - ν)`, however the product around it is written): `h : _ = R` -/
elab "epv_deton_gen_only " fld:ident R:ident h:ident : tactic => withMainContext do
  let g ← instantiateMVars (← getMainTarget)
  let fn ← Lean.Elab.realizeGlobalConstNoOverloadWithInfo fld
  let mentions (e : Expr) : Bool := (e.find? (fun x => x.isAppOf fn)).isSome
  let some e := g.find? (fun e => !e.hasLooseBVars && mentions e && onlyField fn e)
    | throwError "epv_deton_gen_only: nothing to generalize"
  let stx ← Term.exprToSyntax e
  evalTactic (← `(tactic| generalize $h:ident : $stx = $R at *))

/-- generalize the first application of the given one-argument function (e.g. `Real.exp`): `h : f _ = R` -/
elab "epv_deton_gen_app " f:ident R:ident h:ident : tactic => withMainContext do
  let g ← instantiateMVars (← getMainTarget)
  let fn ← Lean.Elab.realizeGlobalConstNoOverloadWithInfo f
  let some e := g.find? (fun e => e.isAppOfArity fn 1 && !e.hasLooseBVars)
    | throwError "epv_deton_gen_app: no application in the goal"
  let stx ← Term.exprToSyntax e
  evalTactic (← `(tactic| generalize $h:ident : $stx = $R at *))

/-- generalize an inverse of a sum / difference (a denominator that is not a monomial) -/
elab "epv_deton_gen_inv_sum " R:ident : tactic => withMainContext do
  let g ← instantiateMVars (← getMainTarget)
  let some e := g.find? (fun e => e.isAppOfArity ``Inv.inv 3 && !e.hasLooseBVars &&
      ((e.getArg! 2).isAppOf ``HAdd.hAdd || (e.getArg! 2).isAppOf ``HSub.hSub))
    | throwError "epv_deton_gen_inv_sum: no inverse of a sum in the goal"
  let stx ← Term.exprToSyntax e
  evalTactic (← `(tactic| generalize $stx = $R at *))

namespace EPV.Bridge.Deton

open EPV EPV.Gen EPV.Blake

theorem rpow_two_float' (x : ℝ) : x ^ (2 : ℝ) = x ^ (2 : ℕ) := by
  rw [← Real.rpow_natCast]; norm_num

end EPV.Bridge.Deton

set_option hygiene false in
/-- The atoms of the Blake closed form, selected by what they are (see the header).  Expects the goal to be a
statement about unfolded leaf-1 expressions of `BlakeFields` and the hypotheses `hc : cL p ≠ 0`, `hn : nn p ≠ 0`,
`hb : bb p ≠ 0` (folded).  Leaves: variables `cl b q` with `ecl : cl = cL p`, `eb : b = bb p`,
`eq : q = (1 - 2ν)/(1 - ν)`, and the facts `hcl : cl ≠ 0`, `hb' : b ≠ 0`, `hq : q ≠ 0`, `ha0 : p.cavity_radius ≠ 0`. -/
macro "epv_deton_blake_atoms " hc:ident hn:ident hb:ident : tactic =>
  `(tactic|
    (simp only [EPV.Bridge.Deton.rpow_two_float'] at *
     epv_deton_gen_rpow_half cl hcl0
     have ecl : cl = EPV.Blake.cL p := by rw [← hcl0]; unfold EPV.Blake.cL; epv_deton_nf_eq
     epv_deton_gen_rpow_half b hb0
     have eb : b = EPV.Blake.bb p := by
       rw [← hb0, ecl]; unfold EPV.Blake.bb; simp only [EPV.Bridge.Deton.rpow_two_float']; epv_deton_nf_eq
     epv_deton_gen_only EPV.Gen.BlakeFields.P.poisson_ratio q hq0
     have eq : q = (1 - 2 * p.poisson_ratio) / (1 - p.poisson_ratio) := by rw [← hq0]; epv_deton_nf_eq
     have hcl : cl ≠ 0 := by rw [ecl]; exact $hc
     have hb' : b ≠ 0 := by rw [eb]; exact $hb
     have ha0 : p.cavity_radius ≠ 0 := by intro h; apply $hn; unfold EPV.Blake.nn; rw [h]; simp
     have hq : q ≠ 0 := by intro h; apply $hn; unfold EPV.Blake.nn; rw [← eq, h]; simp
     clear hcl0 hb0 hq0))

set_option hygiene false in
/-- after `epv_deton_blake_atoms`: canonical arguments, exponentials of monomials, every transcendental an atom -/
macro "epv_deton_blake_canon" : tactic =>
  `(tactic|
    (ring_nf
     simp only [Real.exp_add, Real.exp_sub, Real.exp_neg]
     repeat (epv_deton_gen_app Real.exp E hE; have := (hE ▸ Real.exp_ne_zero _ : E ≠ 0); clear hE)
     repeat (epv_deton_gen_app Real.cos C hC; clear hC)
     repeat (epv_deton_gen_app Real.sin S hS; clear hS)))

set_option hygiene false in
/-- a rational identity between leaf-1 expressions of `BlakeFields` (already unfolded: `simp only [epv_deriv,
epv_leaf]`), true with `c_L`, `b`, the Poisson fraction and `k1`'s denominator as free parameters -/
macro "epv_deton_blake_identity " hc:ident hn:ident hb:ident : tactic =>
  `(tactic|
    (epv_deton_blake_atoms $hc $hn $hb
     try simp only [← ecl, ← eb]
     clear ecl eb eq
     epv_deton_blake_canon
     repeat epv_deton_gen_inv_sum K
     field_simp
     ring))
