/-
Bridge between the traced Cog18 model and the documented formulas (see EPV/Robust.lean, GUIDE §8).
k = geometry - 1.
-/
import EPV.Gen.Cog18
import EPV.Robust
import EPV.Lemmas.HydroRobust

set_option linter.all false
open EPV EPV.Gen

namespace EPV.Bridge

/-- documented temperature T = α τ² / (Γ (2α-2β-k-7)) · r² / (τ² - t²)²; the denominators must not vanish for the
two ways of writing the quotient to agree -/
theorem cog18_L0_temperature (p : Cog18.P) (r t : ℝ) (hΓ : p.Gamma ≠ 0)
    (hD : 2 * p.alpha - 2 * p.beta - (p.geometry - 1) - 7 ≠ 0) (hx : p.tau ^ 2 - t ^ 2 ≠ 0) :
    Cog18.L0.temperature p r t
      = p.alpha * p.tau ^ 2 / p.Gamma / (2 * p.alpha - 2 * p.beta - (p.geometry - 1) - 7)
          * (r ^ 2 / (p.tau ^ 2 - t ^ 2) ^ 2) := by
  simp only [epv_leaf] <;> epv_hydro_closed

end EPV.Bridge
