/-
Bridge between the traced Noh model and the documented formulas (see EPV/Robust.lean).
-/
import EPV.Gen.Noh
import EPV.Robust
import EPV.Lemmas.HydroRobust

set_option linter.all false
open EPV EPV.Gen

namespace EPV.Bridge

/-- the coded branch test is `r < |u₀| t (γ-1)/2`, however the Python writes the product -/
theorem noh_c0_iff (p : Noh.P) (r t : ℝ) :
    Noh.c0 p r t ↔ r < |p.u0| * t * (p.gamma - 1) / 2 := by
  simp only [epv_cond] <;> epv_arith_iff

theorem noh_not_c0_iff (p : Noh.P) (r t : ℝ) :
    ¬ Noh.c0 p r t ↔ |p.u0| * t * (p.gamma - 1) / 2 ≤ r := by
  rw [noh_c0_iff, not_lt]

/-- leaf 0 ⇔ the shock test holds -/
theorem noh_leaf_zero_iff (p : Noh.P) (r t : ℝ) : Noh.leaf p r t = 0 ↔ Noh.c0 p r t := by
  simp only [epv_tree]; split_ifs with h <;> simp [h]

/-! documented closed forms of the leaf fields: behind the shock (leaf 0) … -/

theorem noh_L0_density (p : Noh.P) (r t : ℝ) :
    Noh.L0.density p r t = p.rho0 * ((p.gamma + 1) / (p.gamma - 1)) ^ p.geometry := by
  simp only [epv_leaf] <;> epv_hydro_closed

theorem noh_L0_velocity (p : Noh.P) (r t : ℝ) : Noh.L0.velocity p r t = 0 := by
  simp only [epv_leaf] <;> epv_hydro_closed

theorem noh_L0_pressure (p : Noh.P) (r t : ℝ) :
    Noh.L0.pressure p r t = (p.gamma - 1) * p.rho0 * ((p.gamma + 1) / (p.gamma - 1)) ^ p.geometry * p.u0 ^ 2 / 2 := by
  simp only [epv_leaf] <;> epv_hydro_closed

theorem noh_L0_sie (p : Noh.P) (r t : ℝ) : Noh.L0.specific_internal_energy p r t = p.u0 ^ 2 / 2 := by
  simp only [epv_leaf] <;> epv_hydro_closed

/-! … and ahead of it (leaf 1) -/

/-- ρ = ρ₀ (1 + |u₀| t / r)^(k-1); r ≠ 0 so that `1 + |u₀| t / r` and `(r + |u₀| t) / r` are the same number -/
theorem noh_L1_density (p : Noh.P) (r t : ℝ) (hr : r ≠ 0) :
    Noh.L1.density p r t = p.rho0 * (1 + |p.u0| * t / r) ^ (p.geometry - 1) := by
  simp only [epv_leaf] <;> epv_hydro_closed

theorem noh_L1_velocity (p : Noh.P) (r t : ℝ) : Noh.L1.velocity p r t = p.u0 := by
  simp only [epv_leaf] <;> epv_hydro_closed

theorem noh_L1_pressure (p : Noh.P) (r t : ℝ) : Noh.L1.pressure p r t = 0 := by
  simp only [epv_leaf] <;> epv_hydro_closed

theorem noh_L1_sie (p : Noh.P) (r t : ℝ) : Noh.L1.specific_internal_energy p r t = 0 := by
  simp only [epv_leaf] <;> epv_hydro_closed

end EPV.Bridge
