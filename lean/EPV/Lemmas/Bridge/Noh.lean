/-
Bridge between the traced Noh model and the documented formulas (see EPV/Robust.lean).
-/
import EPV.Gen.Noh
import EPV.Robust

set_option linter.all false
open EPV EPV.Gen

namespace EPV.Bridge

/-- the coded branch test is `r < |u₀| t (γ-1)/2`, however the Python writes the product -/
theorem noh_c0_iff (p : Noh.P) (r t : ℝ) :
    Noh.c0 p r t ↔ r < |p.u0| * t * (p.gamma - 1) / 2 := by
  simp only [epv_cond] <;> epv_arith_iff

theorem noh_not_c0_iff (p : Noh.P) (r t : ℝ) :
    ¬ Noh.c0 p r t ↔ |p.u0| * t * (p.gamma - 1) / 2 ≤ r := by
  rw [noh_c0_iff, not_lt]

/-- leaf 0 ⇔ the shock test holds -/
theorem noh_leaf_zero_iff (p : Noh.P) (r t : ℝ) : Noh.leaf p r t = 0 ↔ Noh.c0 p r t := by
  simp only [epv_tree]; split_ifs with h <;> simp [h]

end EPV.Bridge
