/-
Bridge between the traced `Rod1D.modes_BCgen` (model `RodModesGen`: symbolic mode index `n`, fsolve root = atom `mu`)
and the documented formulas (GUIDE §8, `EPV/Robust.lean`, `Lemmas/Bridge/HeatTac.lean`).

Every lemma is stated on the TREE-level definitions (`RodModesGen.kn/An/Bn/residual`) under the documented case
conditions (α₁ ≠ 0 ∧ n ≠ 0, or α₁ = 0) and proved by splitting the traced decision tree, discarding the branches that
contradict the case conditions and comparing the remaining leaf with the documented closed form as field
expressions: no leaf number and no syntactic shape of a generated term is used, so the lemmas survive renaming and
hoisting of locals, reassociation, `x**2` ↔ `x*x`, `a/b/c` ↔ `a/(b*c)`, exchanging the `if`/`else` arms and a
renumbering of the leaves.  The property theorems (`Props/C14/RodRobin.lean`, `Props/C14/FindingRobin.lean`,
`Props/C08/FindingHeat.lean`) see the traced model only through these lemmas.
-/
import EPV.Gen.RodModesGen
import EPV.Lemmas.Bridge.HeatTac

set_option linter.all false
open EPV EPV.Gen

namespace EPV.Bridge

/-- split the traced tree; branches contradicting the case hypotheses are closed, the others are compared with the
documented closed form -/
macro "gen_bridge" : tactic =>
  `(tactic| (simp only [epv_tree]
             (try split_ifs) <;> (try simp only [epv_cond] at *) <;> first
               | contradiction
               | (exfalso; simp_all; done)
               | (simp only [epv_leaf]; heat_eq)))

/-! ### case α₁ ≠ 0, mode index n ≠ 0 (sine–cosine modes) -/

/-- wave number `k_n = μ / L` -/
theorem rodModesGen_kn_ne (q : RodModesGen.P) (hα : q.alpha1 ≠ 0) (hn : q.n ≠ 0) :
    RodModesGen.kn q = q.mu / q.L := by
  gen_bridge

/-- the transcendental equation whose root `fsolve` is asked for:
`tan μ − (α₂ b₁ − α₁ b₂) μ / (α₁ α₂ + b₁ b₂ μ²)`, `b_i = β_i / L` -/
theorem rodModesGen_residual_ne (q : RodModesGen.P) (hα : q.alpha1 ≠ 0) (hn : q.n ≠ 0) :
    RodModesGen.residual q = Real.tan q.mu
      - ((q.alpha2 * (q.beta1 / q.L) - q.alpha1 * (q.beta2 / q.L)) * q.mu)
          / (q.alpha1 * q.alpha2 + q.beta1 / q.L * (q.beta2 / q.L) * q.mu ^ 2) := by
  gen_bridge

/-- `B_n = (constant part + linear part) / N_n` as documented in `modes_BCgen` -/
theorem rodModesGen_Bn_ne (q : RodModesGen.P) (hα : q.alpha1 ≠ 0) (hn : q.n ≠ 0) :
    RodModesGen.Bn q
      = (q.TL * (1 - Real.cos q.mu) / (q.mu / q.L) - (q.beta1 / q.L * q.L / q.alpha1) * Real.sin q.mu
          + ((q.TR - q.TL) / (q.L * q.alpha1 * (q.mu / q.L) ^ 2))
            * (q.beta1 / q.L * q.mu - (q.alpha1 * q.mu + q.beta1 / q.L * q.mu) * Real.cos q.mu
                + (q.alpha1 - (q.beta1 / q.L) ^ 2 * q.mu ^ 2) * Real.sin q.mu))
        / ((-2 * q.alpha1 * (q.beta1 / q.L) * q.mu + 2 * ((q.beta1 / q.L) ^ 2 * q.mu ^ 2 + q.alpha1 ^ 2) * q.mu
            + 2 * q.alpha1 * (q.beta1 / q.L) * q.mu * Real.cos (2 * q.mu)
            + ((q.beta1 / q.L) ^ 2 * q.mu ^ 2 - q.alpha1 ^ 2) * Real.sin (2 * q.mu)) / (4 * q.alpha1 ^ 2 * (q.mu / q.L))) := by
  gen_bridge

/-- `A_n = −(b₁ μ / α₁) B_n` -/
theorem rodModesGen_An_ne (q : RodModesGen.P) (hα : q.alpha1 ≠ 0) (hn : q.n ≠ 0) :
    RodModesGen.An q = -((q.beta1 / q.L * q.mu) / q.alpha1) * RodModesGen.Bn q := by
  gen_bridge

/-! ### case α₁ = 0 (cosine modes), every mode index -/

theorem rodModesGen_kn_zero (q : RodModesGen.P) (hα : q.alpha1 = 0) : RodModesGen.kn q = q.mu / q.L := by
  gen_bridge

theorem rodModesGen_Bn_zero (q : RodModesGen.P) (hα : q.alpha1 = 0) : RodModesGen.Bn q = 0 := by
  gen_bridge

/-- the transcendental equation of this case: `tan μ − (α₂ / b₂) / μ` -/
theorem rodModesGen_residual_zero (q : RodModesGen.P) (hα : q.alpha1 = 0) :
    RodModesGen.residual q = Real.tan q.mu - q.alpha2 / (q.beta2 / q.L) / q.mu := by
  gen_bridge

end EPV.Bridge
