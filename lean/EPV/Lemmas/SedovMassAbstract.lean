/-
Sedov (C11 growth): the analytic core of the mass integral, free of Sedov details.

A weight φ on λ-space is given parametrically, φ(L(v)) = W(v) on a < v < b, with L continuous on
[a, b], differentiable with L' > 0 (resp. < 0) inside, and W L' = M' for a function M that is
continuous on [a, b] (an "exact differential").  Then ∫ φ dλ between L(a) and L(b) is the boundary
term M(b) - M(a) — no integrability hypothesis: M' = W L' has one sign, so it is integrable
(`integrableOn_deriv_of_nonneg`), and the change of variables for monotone maps
(`integral_image_eq_integral_deriv_smul_of_monotoneOn`) needs none.  The end points may be
singular (L need not be differentiable at a, b; W may be unbounded there).
-/
import Mathlib.MeasureTheory.Function.JacobianOneDim
import Mathlib.MeasureTheory.Integral.IntervalIntegral.FundThmCalculus
import Mathlib.Analysis.Calculus.Deriv.MeanValue
import Mathlib.Topology.Order.IntermediateValue

set_option linter.all false

open MeasureTheory Set intervalIntegral

namespace EPV.Sedov.Mass

/-- image of an open interval under a continuous strictly increasing map -/
theorem image_Ioo_of_strictMono {a b : ℝ} (hab : a ≤ b) {L : ℝ → ℝ} (hc : ContinuousOn L (Icc a b))
    (hm : StrictMonoOn L (Icc a b)) : L '' Ioo a b = Ioo (L a) (L b) := by
  apply Subset.antisymm
  · rintro _ ⟨x, hx, rfl⟩
    exact ⟨hm (left_mem_Icc.mpr hab) (Ioo_subset_Icc_self hx) hx.1, hm (Ioo_subset_Icc_self hx) (right_mem_Icc.mpr hab) hx.2⟩
  · exact intermediate_value_Ioo hab hc

/-- image of an open interval under a continuous strictly decreasing map -/
theorem image_Ioo_of_strictAnti {a b : ℝ} (hab : a ≤ b) {L : ℝ → ℝ} (hc : ContinuousOn L (Icc a b))
    (hm : StrictAntiOn L (Icc a b)) : L '' Ioo a b = Ioo (L b) (L a) := by
  apply Subset.antisymm
  · rintro _ ⟨x, hx, rfl⟩
    exact ⟨hm (Ioo_subset_Icc_self hx) (right_mem_Icc.mpr hab) hx.2, hm (left_mem_Icc.mpr hab) (Ioo_subset_Icc_self hx) hx.1⟩
  · exact intermediate_value_Ioo' hab hc

/-- increasing parametrisation: ∫_{L a}^{L b} φ = M b - M a -/
theorem integral_param_mono {a b : ℝ} (hab : a < b) {L L' W M φ : ℝ → ℝ}
    (hLc : ContinuousOn L (Icc a b)) (hLd : ∀ v ∈ Ioo a b, HasDerivAt L (L' v) v) (hLpos : ∀ v ∈ Ioo a b, 0 < L' v)
    (hMc : ContinuousOn M (Icc a b)) (hMd : ∀ v ∈ Ioo a b, HasDerivAt M (W v * L' v) v)
    (hW : ∀ v ∈ Ioo a b, 0 ≤ W v) (hφ : ∀ v ∈ Ioo a b, φ (L v) = W v) :
    ∫ x in (L a)..(L b), φ x = M b - M a := by
  have hmono : StrictMonoOn L (Icc a b) := by
    apply strictMonoOn_of_deriv_pos (convex_Icc a b) hLc
    intro x hx
    rw [interior_Icc] at hx
    rw [(hLd x hx).deriv]
    exact hLpos x hx
  have hLab : L a ≤ L b := (hmono (left_mem_Icc.mpr hab.le) (right_mem_Icc.mpr hab.le) hab).le
  have himg := image_Ioo_of_strictMono hab.le hLc hmono
  have hcv := integral_image_eq_integral_deriv_smul_of_monotoneOn measurableSet_Ioo
    (fun x hx => (hLd x hx).hasDerivWithinAt) (hmono.monotoneOn.mono Ioo_subset_Icc_self) φ
  have hint : IntervalIntegrable (fun v => W v * L' v) volume a b :=
    (intervalIntegrable_iff_integrableOn_Ioc_of_le hab.le).2
      (integrableOn_deriv_of_nonneg hMc hMd (fun x hx => mul_nonneg (hW x hx) (hLpos x hx).le))
  have hftc := integral_eq_sub_of_hasDerivAt_of_le hab.le hMc hMd hint
  rw [integral_of_le hLab, integral_Ioc_eq_integral_Ioo, ← himg, hcv, ← hftc, integral_of_le hab.le,
    integral_Ioc_eq_integral_Ioo]
  apply setIntegral_congr_fun measurableSet_Ioo
  intro v hv
  simp only [smul_eq_mul]
  rw [hφ v hv, mul_comm]

/-- decreasing parametrisation: ∫_{L b}^{L a} φ = M a - M b -/
theorem integral_param_anti {a b : ℝ} (hab : a < b) {L L' W M φ : ℝ → ℝ}
    (hLc : ContinuousOn L (Icc a b)) (hLd : ∀ v ∈ Ioo a b, HasDerivAt L (L' v) v) (hLneg : ∀ v ∈ Ioo a b, L' v < 0)
    (hMc : ContinuousOn M (Icc a b)) (hMd : ∀ v ∈ Ioo a b, HasDerivAt M (W v * L' v) v)
    (hW : ∀ v ∈ Ioo a b, 0 ≤ W v) (hφ : ∀ v ∈ Ioo a b, φ (L v) = W v) :
    ∫ x in (L b)..(L a), φ x = M a - M b := by
  have hanti : StrictAntiOn L (Icc a b) := by
    apply strictAntiOn_of_deriv_neg (convex_Icc a b) hLc
    intro x hx
    rw [interior_Icc] at hx
    rw [(hLd x hx).deriv]
    exact hLneg x hx
  have hLab : L b ≤ L a := (hanti (left_mem_Icc.mpr hab.le) (right_mem_Icc.mpr hab.le) hab).le
  have himg := image_Ioo_of_strictAnti hab.le hLc hanti
  have hcv := integral_image_eq_integral_deriv_smul_of_antitoneOn measurableSet_Ioo
    (fun x hx => (hLd x hx).hasDerivWithinAt) (hanti.antitoneOn.mono Ioo_subset_Icc_self) φ
  have hMd' : ∀ v ∈ Ioo a b, HasDerivAt (fun v => -M v) (W v * (-L' v)) v := by
    intro v hv
    exact ((hMd v hv).neg).congr_deriv (by ring)
  have hint : IntervalIntegrable (fun v => W v * (-L' v)) volume a b :=
    (intervalIntegrable_iff_integrableOn_Ioc_of_le hab.le).2
      (integrableOn_deriv_of_nonneg hMc.neg hMd' (fun x hx => mul_nonneg (hW x hx) (by linarith [hLneg x hx])))
  have hftc : ∫ y in a..b, W y * -L' y = -M b - -M a :=
    integral_eq_sub_of_hasDerivAt_of_le (f := fun v => -M v) hab.le hMc.neg hMd' hint
  rw [integral_of_le hLab, integral_Ioc_eq_integral_Ioo, ← himg, hcv]
  have e : M a - M b = -M b - -M a := by ring
  rw [e, ← hftc, integral_of_le hab.le, integral_Ioc_eq_integral_Ioo]
  apply setIntegral_congr_fun measurableSet_Ioo
  intro v hv
  simp only [smul_eq_mul]
  rw [hφ v hv, mul_comm]

end EPV.Sedov.Mass
