/-
Sedov (C11 growth, wp sedov3): INSIDE the band |denom3| ≤ 1e-4 around ω3 = k(2-γ) the code evaluates the
omega3 closed forms at an ω that is NOT exactly special; they are approximations of the Sedov functions
there (the similarity ODEs and the mass integral are violated by O(|denom3|): oracles `o_sedov2.ode`,
`o_sedov3.band`).  What this file shows: the ENERGY statement is not affected.  The substitution
v ↔ λ and the integrability of both energy integrands hold for the omega3 closed forms at EVERY ω of the
standard type for which three sign conditions on the coded constants hold:

    0 ≤ a1 (as coded),    0 ≤ a3 + ω a2  (= (k - γω)/denom2: g bounded at the origin),
    2 denom2 ≤ (k+2-ω)(γ+1)              (equivalently (γ-1)(k+ω-2) + 4 ≥ 0: always for k ≥ 2 or γ ≤ 5),

all of which hold on the band (|ω - k(2-γ)| ≤ 1e-4) as soon as k(γ-1)² ≥ 1.01e-4 γ — `band_conditions_example`
checks them at a band point.  No exact mass differential exists off the special ω; integrability of the
kinetic integrand comes from continuity of g on the closed branch (`mass_integrable_of_continuous`), and
the monotonicity of the coded λ from the elementary bound
    d log λ/dv = -2/(Xv) + ((γ-1)/denom2) c/(cv-1) + a1 X/(2-Xv) > -γ + γ X(γ+1)/(2 denom2) ≥ 0
on v0 < v < v2 (`tL_pos_band`).
-/
import EPV.Lemmas.SedovEnergyO3

set_option linter.all false
set_option maxRecDepth 100000

open EPV EPV.Gen EPV.Spec.Sedov EPV.Spec.SedovODE MeasureTheory Set

namespace EPV.Sedov.Energy

noncomputable section

/-- the coded λ (omega3 closed form) increases on the standard branch, for any ω with the sign conditions -/
theorem tL_pos_band {p : SedovFuncsO3.P} {γ k ω v : ℝ} (hC : O3Consts p γ k ω) (I : StdInterior γ k ω v)
    (hd2 : 0 < K.denom2 γ k ω) (ha1 : 0 ≤ p.a1) (hX : 2 * K.denom2 γ k ω ≤ (k + 2 - ω) * (γ + 1)) :
    0 < Alg.tL p.a0 p.a1 p.a2 p.c_val p.xg2 v := by
  obtain ⟨hXp, hE, hv, h2, h3, h4, h1, hdd⟩ := I.signs
  have hγ := I.par.hγ
  unfold K.denom2 at hd2 hX
  unfold Alg.tL
  rw [hC.a0, hC.a2, hC.c_val, hC.xg2]
  unfold K.a0 K.a2 K.c_val
  have hXv : 0 < (k + 2 - ω) * v := mul_pos hXp hv
  have hc : 0 < 1 / 2 * (k + 2 - ω) * γ := by positivity
  -- first term: 2/(X v) < γ
  have T1 : 2 / (k + 2 - ω) / v < γ := by
    rw [div_div, div_lt_iff₀ hXv]; nlinarith
  -- second term: ((γ-1)/d2) c/(c v - 1) > c (γ+1)/d2 because c v - 1 < (γ-1)/(γ+1)
  have hu2 : (1 / 2 * (k + 2 - ω) * γ * v - 1) * (γ + 1) < γ - 1 := by nlinarith
  have key : γ + 1 < (γ - 1) / (1 / 2 * (k + 2 - ω) * γ * v - 1) := by
    rw [lt_div_iff₀ h2]; linarith
  have hcd : 0 < 1 / 2 * (k + 2 - ω) * γ / (2 * (γ - 1) + k - γ * ω) := div_pos hc hd2
  have T2 : 1 / 2 * (k + 2 - ω) * γ / (2 * (γ - 1) + k - γ * ω) * (γ + 1)
      < (γ - 1) / (2 * (γ - 1) + k - γ * ω) * (1 / 2 * (k + 2 - ω) * γ) / (1 / 2 * (k + 2 - ω) * γ * v - 1) := by
    have := mul_lt_mul_of_pos_left key hcd
    have e : 1 / 2 * (k + 2 - ω) * γ / (2 * (γ - 1) + k - γ * ω) * ((γ - 1) / (1 / 2 * (k + 2 - ω) * γ * v - 1))
        = (γ - 1) / (2 * (γ - 1) + k - γ * ω) * (1 / 2 * (k + 2 - ω) * γ) / (1 / 2 * (k + 2 - ω) * γ * v - 1) := by
      field_simp
    rwa [e] at this
  -- third term
  have T3 : 0 ≤ p.a1 * (k + 2 - ω) / (2 - (k + 2 - ω) * v) := div_nonneg (mul_nonneg ha1 hXp.le) h4.le
  -- the lower bound is non-negative: γ ≤ c (γ+1)/d2
  have T0 : γ ≤ 1 / 2 * (k + 2 - ω) * γ / (2 * (γ - 1) + k - γ * ω) * (γ + 1) := by
    rw [div_mul_eq_mul_div, le_div_iff₀ hd2]
    nlinarith [mul_nonneg (by linarith : (0:ℝ) ≤ γ) (sub_nonneg.mpr hX)]
  have hmid : -(γ - 1) / (2 * (γ - 1) + k - γ * ω) * (1 / 2 * (k + 2 - ω) * γ) / (1 / 2 * (k + 2 - ω) * γ * v - 1)
      = -((γ - 1) / (2 * (γ - 1) + k - γ * ω) * (1 / 2 * (k + 2 - ω) * γ) / (1 / 2 * (k + 2 - ω) * γ * v - 1)) := by ring
  rw [hmid]
  linarith

/-- the density similarity function (omega3 closed form) is continuous on the closed branch when its
x2-exponent is non-negative -/
theorem g_continuousOn3 {p : SedovFuncsO3.P} (s : Set ℝ) (hs : ∀ v ∈ s, Mass.ClosedBases3 p v)
    (hpp1 : 0 ≤ p.a3 + p.omega * p.a2) : ContinuousOn (SedovFuncsO3.L1.g_fun p) s := by
  rw [(funext (EPV.Bridge.Semi.SedovFuncsO3_L1_g_fun p) : SedovFuncsO3.L1.g_fun p = _)]
  refine (((ContinuousOn.rpow_const (by fun_prop) ?_).mul (ContinuousOn.rpow_const (by fun_prop) ?_)).mul
    (ContinuousOn.rpow_const (by fun_prop) ?_)).mul (Real.continuous_exp.comp_continuousOn
      (ContinuousOn.div (by fun_prop) (by fun_prop) ?_))
  · intro v hv; exact Or.inl (hs v hv).x1.ne'
  · intro v hv; exact Or.inr hpp1
  · intro v hv; exact Or.inl (hs v hv).x4.ne'
  · intro v hv; exact (hs v hv).y

/-- the standard branch of the omega3 closed forms at ANY ω with the sign conditions is a `Branch`, and λ increases -/
theorem o3_band_branch {p : SedovFuncsO3.P} {γ ω : ℝ} (kn : ℕ) (h1 : 1 ≤ kn) (hC : O3Consts p γ kn ω)
    (P : Params γ kn ω) (htype : v2 γ kn ω < vstar γ kn) (ha1 : 0 ≤ p.a1) (hpp1 : 0 ≤ p.a3 + p.omega * p.a2)
    (hX : 2 * K.denom2 γ kn ω ≤ ((kn : ℝ) + 2 - ω) * (γ + 1)) :
    Branch (v0 γ kn ω) (v2 γ kn ω) (SedovFuncsO3.L1.l_fun p) (SedovFuncsO3.L1.l_fun_dv p) (SedovFuncsO3.L1.g_fun p)
      (SedovFuncsO3.L1.h_fun p) (fun v => p.a_val * v) kn
    ∧ ∀ v ∈ Ioo (v0 γ kn ω) (v2 γ kn ω), 0 < SedovFuncsO3.L1.l_fun_dv p v := by
  set k : ℝ := (kn : ℝ) with hk
  have hXp := P.X_pos; have hγ := P.hγ
  have hγ0 := P.γ_pos
  have hab : v0 γ k ω < v2 γ k ω := by
    unfold v0 v2
    rw [div_lt_div_iff₀ (mul_pos hXp hγ0) (mul_pos hXp (by linarith))]
    nlinarith
  have hcl : ∀ v ∈ Icc (v0 γ k ω) (v2 γ k ω), Mass.StdClosed γ k ω v := fun v hv => ⟨P, htype, hv.1, hv.2⟩
  have hS0 := (hcl _ (left_mem_Icc.mpr hab.le)).signs
  have hd2pos := Mass.denom2_pos hS0 P.hk
  have ha2 := Mass.neg_a2_pos3 hC hγ hd2pos
  have hCB : ∀ v ∈ Icc (v0 γ k ω) (v2 γ k ω), Mass.ClosedBases3 p v := fun v hv => Mass.closedBases3 hC (hcl v hv).signs
  have hI : ∀ v ∈ Ioo (v0 γ k ω) (v2 γ k ω), StdInterior γ k ω v := fun v hv => ⟨P, htype, hv.1, hv.2⟩
  have hint : ∀ v ∈ Ioo (v0 γ k ω) (v2 γ k ω), O2.Signs γ k ω v := fun v hv => (hI v hv).toSigns.toO2
  have hB : ∀ v ∈ Ioo (v0 γ k ω) (v2 γ k ω), O3.Bases p v := fun v hv => O3.bases hC (hint v hv)
  have hL' : ∀ v ∈ Ioo (v0 γ k ω) (v2 γ k ω), 0 < SedovFuncsO3.L1.l_fun_dv p v := by
    intro v hv
    rw [O3.l_dv p v (hB v hv)]
    exact mul_pos (O3.l_pos p v (hB v hv)) (tL_pos_band hC (hI v hv) hd2pos ha1 hX)
  have Lc := Mass.l_continuousOn3 _ hCB ha2
  have Ld : ∀ v ∈ Ioo (v0 γ k ω) (v2 γ k ω), HasDerivAt (SedovFuncsO3.L1.l_fun p) (SedovFuncsO3.L1.l_fun_dv p v) v :=
    fun v hv => (O3.hasDerivAt p v (hB v hv)).1
  have Lpos : ∀ v ∈ Ioo (v0 γ k ω) (v2 γ k ω), 0 < SedovFuncsO3.L1.l_fun p v := fun v hv => O3.l_pos p v (hB v hv)
  refine ⟨?_, hL'⟩
  exact
    { hab := hab
      h1 := h1
      Lc := Lc
      Ld := Ld
      Lpos := Lpos
      Gnn := fun v hv => (O3.g_pos p v (hB v hv)).le
      Ki := mass_integrable_of_continuous hab.le h1 Lc Ld Lpos (Or.inl fun v hv => (hL' v hv).le)
        (g_continuousOn3 _ hCB hpp1)
      Ac := by fun_prop
      Hc := h_continuousOn3 _ hCB }

/-- **The two energy integrals of the omega3 closed forms INSIDE THE BAND** (any ω of the standard type with
the three sign conditions): the quadratures are the λ-space integrals of the coded (approximate) similarity
functions, both integrands integrable, eval1 ≥ 0, eval2 > 0. -/
theorem eval_o3_band {p : SedovFuncsO3.P} {γ ω : ℝ} (kn : ℕ) (h1 : 1 ≤ kn) (hC : O3Consts p γ kn ω)
    (P : Params γ kn ω) (htype : v2 γ kn ω < vstar γ kn) (ha1 : 0 ≤ p.a1) (hpp1 : 0 ≤ p.a3 + p.omega * p.a2)
    (hX : 2 * K.denom2 γ kn ω ≤ ((kn : ℝ) + 2 - ω) * (γ + 1)) (f g h : ℝ → ℝ)
    (hf : ∀ v ∈ Ioo (v0 γ kn ω) (v2 γ kn ω), f (SedovFuncsO3.L1.l_fun p v) = SedovFuncsO3.L1.f_fun p v)
    (hg : ∀ v ∈ Ioo (v0 γ kn ω) (v2 γ kn ω), g (SedovFuncsO3.L1.l_fun p v) = SedovFuncsO3.L1.g_fun p v)
    (hh : ∀ v ∈ Ioo (v0 γ kn ω) (v2 γ kn ω), h (SedovFuncsO3.L1.l_fun p v) = SedovFuncsO3.L1.h_fun p v) :
    IntervalIntegrable (fun x => g x * f x ^ 2 * x ^ (kn - 1)) volume 0 1 ∧
    IntervalIntegrable (fun x => h x * x ^ (kn - 1)) volume 0 1 ∧
    ∫ v in (v0 γ kn ω)..(v2 γ kn ω), SedovFuncsO3.L1.efun01 p v = eval1 kn γ ω f g ∧
    ∫ v in (v0 γ kn ω)..(v2 γ kn ω), SedovFuncsO3.L1.efun02 p v = eval2 kn γ ω h ∧
    0 ≤ eval1 kn γ ω f g ∧ 0 < eval2 kn γ ω h := by
  obtain ⟨Br, hL'⟩ := o3_band_branch kn h1 hC P htype ha1 hpp1 hX
  exact eval_o3_of_branch kn h1 hC P htype Br hL' f g h hf hg hh

/-- non-vacuity of the root-finder atom inside the band -/
theorem exists_funcs_o3_band {p : SedovFuncsO3.P} {γ ω : ℝ} (kn : ℕ) (h1 : 1 ≤ kn) (hC : O3Consts p γ kn ω)
    (P : Params γ kn ω) (htype : v2 γ kn ω < vstar γ kn) (ha1 : 0 ≤ p.a1) (hpp1 : 0 ≤ p.a3 + p.omega * p.a2)
    (hX : 2 * K.denom2 γ kn ω ≤ ((kn : ℝ) + 2 - ω) * (γ + 1)) :
    ∃ f g h : ℝ → ℝ,
      (∀ v ∈ Ioo (v0 γ kn ω) (v2 γ kn ω), f (SedovFuncsO3.L1.l_fun p v) = SedovFuncsO3.L1.f_fun p v) ∧
      (∀ v ∈ Ioo (v0 γ kn ω) (v2 γ kn ω), g (SedovFuncsO3.L1.l_fun p v) = SedovFuncsO3.L1.g_fun p v) ∧
      (∀ v ∈ Ioo (v0 γ kn ω) (v2 γ kn ω), h (SedovFuncsO3.L1.l_fun p v) = SedovFuncsO3.L1.h_fun p v) := by
  obtain ⟨Br, hL'⟩ := o3_band_branch kn h1 hC P htype ha1 hpp1 hX
  obtain ⟨f, g, h, hf, hg, hh, -⟩ := exists_param_functions (Br.injOn_mono hL') (SedovFuncsO3.L1.f_fun p)
    (SedovFuncsO3.L1.g_fun p) (SedovFuncsO3.L1.h_fun p)
  exact ⟨f, g, h, hf, hg, hh⟩

end

end EPV.Sedov.Energy
