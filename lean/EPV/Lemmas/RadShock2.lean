/-
Lemmas for C12 (work package rad2): a node (P, M) of a nonequilibrium-diffusion profile in clean variables
(`fnctn_nED.mat_density`, `mat_temp`).  Nothing here mentions the generated models.
-/
import EPV.Spec.RadShockUnits

set_option linter.all false

namespace EPV.Spec.RadShock

noncomputable section

/-- nondimensional density of a nED-type node (P, M): from mass + momentum conservation and 𝓜 = u/√T -/
def nedRho (γ P0 M0 P M : ℝ) : ℝ := M0 * M0 * (γ * (M * M) + 1) / (M * M) / (γ * (M0 * M0) + 1 + γ * P0 * (1 / 3 - P))

/-- nondimensional temperature of such a node: T = (u/𝓜)² -/
def nedT (γ P0 M0 P M : ℝ) : ℝ := (M0 / M / nedRho γ P0 M0 P M) * (M0 / M / nedRho γ P0 M0 P M)

/-- **momentum flux at a nED-type node**: ρu² + ρT/γ + P₀P = M₀² + 1/γ + P₀/3 -/
theorem ned_momentum (γ P0 M0 P M : ℝ) (hγ : γ ≠ 0) (hM : M ≠ 0) (hM0 : M0 ≠ 0) (hn : γ * (M * M) + 1 ≠ 0)
    (hd : γ * (M0 * M0) + 1 + γ * P0 * (1 / 3 - P) ≠ 0) :
    nedRho γ P0 M0 P M * (M0 / nedRho γ P0 M0 P M) ^ 2 + nedRho γ P0 M0 P M * nedT γ P0 M0 P M / γ + P0 * P
      = M0 ^ 2 + 1 / γ + P0 * (1 / 3) := by
  have hρ : nedRho γ P0 M0 P M * (γ * (M0 * M0) + 1 + γ * P0 * (1 / 3 - P)) * (M * M) = M0 * M0 * (γ * (M * M) + 1) := by
    unfold nedRho
    generalize γ * (M0 * M0) + 1 + γ * P0 * (1 / 3 - P) = D at *
    field_simp
  have hρ0 : nedRho γ P0 M0 P M ≠ 0 := by
    intro h; rw [h] at hρ; simp at hρ
    rcases hρ with h1 | h1
    · exact hM0 h1
    · exact hn h1
  unfold nedT
  generalize nedRho γ P0 M0 P M = ρ at *
  have hD : γ * (M0 * M0) + 1 + γ * P0 * (1 / 3 - P) = M0 * M0 * (γ * (M * M) + 1) / (ρ * (M * M)) := by
    field_simp
    linear_combination 3 * hρ
  have e : M0 ^ 2 + 1 / γ + P0 * (1 / 3) = (γ * (M0 * M0) + 1 + γ * P0 * (1 / 3 - P)) / γ + P0 * P := by
    field_simp
    ring
  rw [e, hD]
  field_simp

/-- the specified P₀ of a user's (T_ref, ρ₀, γ, C_v) -/
def specP0 (Tref rho0 gamma Cv : ℝ) : ℝ := physP0 radConstF Tref rho0 (soundSpeed gamma Cv Tref)

/-- the specified C₀ -/
def specC0 (Tref gamma Cv : ℝ) : ℝ := physC0 (soundSpeed gamma Cv Tref)

end

end EPV.Spec.RadShock
