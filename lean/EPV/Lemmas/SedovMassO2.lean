/-
Sedov (C11 growth): the mass integral for special_singularity omega2 (generated model SedovFuncsO2,
leaf 1), at the exactly special ω = (2(γ-1)+k)/γ — always the vacuum solution type.  Same argument
as `Lemmas/SedovMassVac.lean` with the exponents and exponential factors of the omega2 closed form
(the essential singularity of exp(pp2) sits at v0 < v2, outside the vacuum branch [v2, vv]).
-/
import EPV.Lemmas.SedovODEO2
import EPV.Lemmas.SedovMassVac

set_option linter.all false
set_option maxRecDepth 100000

open EPV EPV.Gen EPV.Spec.SedovODE MeasureTheory Set

namespace EPV.Sedov.Mass

noncomputable section

/-- M(v) = λ(v)^k g(v) (1 - X v/2), omega2 closed forms -/
def M2 (p : SedovFuncsO2.P) (X : ℝ) (kn : ℕ) (v : ℝ) : ℝ :=
  SedovFuncsO2.L1.l_fun p v ^ kn * SedovFuncsO2.L1.g_fun p v * (1 - X / 2 * v)

/-- the mass ODE is an exact differential (omega2) -/
theorem M2_hasDerivAt {p : SedovFuncsO2.P} {γ k ω v : ℝ} (hC : O2Consts p γ k ω) (S : O2.Signs γ k ω v)
    (hω2 : K.denom2 γ k ω = 0) (kn : ℕ) (hkn : (kn : ℝ) = k) (h1 : 1 ≤ kn) :
    HasDerivAt (M2 p (k + 2 - ω) kn)
      ((k - ω) * (SedovFuncsO2.L1.g_fun p v * SedovFuncsO2.L1.l_fun p v ^ (kn - 1)) * SedovFuncsO2.L1.l_fun_dv p v) v := by
  have B := O2.bases hC S hω2
  obtain ⟨dL, -, dG, -⟩ := O2.hasDerivAt p v B
  have dA : HasDerivAt (fun v : ℝ => 1 - (k + 2 - ω) / 2 * v) (-((k + 2 - ω) / 2)) v := by
    have := ((hasDerivAt_id v).const_mul ((k + 2 - ω) / 2)).const_sub 1
    simpa using this
  have hprod := ((dL.pow kn).mul dG).mul dA
  have hm := O2.mass_ode hC S hω2
  have hLpos := O2.l_pos p v B
  have hv := S.hv
  have hγ := S.hγ
  have hF : SedovFuncsO2.L1.f_fun p v = p.a_val * v * SedovFuncsO2.L1.l_fun p v := by simp only [epv_semi_leaf]
  have hFd : SedovFuncsO2.L1.f_fun_dv p v = p.a_val * SedovFuncsO2.L1.l_fun p v + p.a_val * v * SedovFuncsO2.L1.l_fun_dv p v := by
    rw [O2.f_dv p γ v B hC.gamm1 hC.gamp1, O2.l_dv p γ v B hC.gamm1 hC.gamp1]; field_simp
  have hav : p.a_val = 1 / 4 * (k + 2 - ω) * (γ + 1) := hC.a_val
  obtain ⟨j, rfl⟩ : ∃ j, kn = j + 1 := ⟨kn - 1, by omega⟩
  unfold massODEv at hm
  rw [hF, hFd, hav] at hm
  refine hprod.congr_deriv ?_
  simp only [Pi.mul_apply, Pi.pow_apply, Nat.add_sub_cancel, Nat.cast_add, Nat.cast_one]
  have hk : (j : ℝ) + 1 = k := by rw [← hkn]; push_cast; ring
  generalize SedovFuncsO2.L1.l_fun p v = L at *
  generalize SedovFuncsO2.L1.g_fun p v = G at *
  generalize SedovFuncsO2.L1.l_fun_dv p v = Ld at *
  generalize SedovFuncsO2.L1.g_fun_dv p v = Gd at *
  have hL0 := hLpos.ne'
  have hg1 : γ + 1 ≠ 0 := by linarith
  field_simp at hm
  rw [← hk]
  rw [← hk] at hm
  linear_combination (-(L ^ j) / 4) * hm

/-- the omega2 exponent is of vacuum type: vstar < v2 -/
theorem o2_is_vacuum {γ k ω : ℝ} (P : Params γ k ω) (hω2 : K.denom2 γ k ω = 0) : vstar γ k < v2 γ k ω := by
  unfold K.denom2 at hω2
  have hE := P.E_pos
  have hγ := P.hγ
  have hE' : 0 < (γ - 1) * k + 2 := by nlinarith [P.hk]
  have hX := P.X_pos
  -- γ X = E
  have hXE : γ * (k + 2 - ω) = 2 + k * (γ - 1) := by linarith
  unfold v2 vstar
  rw [div_lt_div_iff₀ hE' (mul_pos hX (by linarith))]
  nlinarith [mul_pos hX (by linarith : 0 < γ - 1)]

/-- the power bases on the closed vacuum branch (omega2): x4 may vanish at vv -/
structure VacBases2 (p : SedovFuncsO2.P) (v : ℝ) : Prop where
  x1 : 0 < p.a_val * v
  x2 : 0 < p.b_val * (p.c_val * v - 1)
  x4 : 0 ≤ p.b_val * (1 - 1 / 2 * p.xg2 * v)
  y : p.a_val * v - 1 / 2 * p.gamp1 / p.gamma ≠ 0

theorem vacBases2 {p : SedovFuncsO2.P} {γ k ω v : ℝ} (hC : O2Consts p γ k ω) (S : VacClosedSigns γ k ω v) :
    VacBases2 p v := by
  obtain ⟨hγ, hX, hE, hv, h2, h3, h4, hd⟩ := S
  have hb : 0 < (γ + 1) / (γ - 1) := div_pos (by linarith) (by linarith)
  refine ⟨?_, ?_, ?_, ?_⟩
  · rw [hC.a_val]; unfold K.a_val
    exact mul_pos (mul_pos (mul_pos (by norm_num) hX) (by linarith)) hv
  · rw [hC.b_val, hC.c_val]; unfold K.b_val K.c_val
    exact mul_pos hb h2
  · rw [hC.b_val, hC.xg2]; unfold K.b_val
    exact mul_nonneg hb.le (by linarith)
  · rw [hC.a_val, hC.gamp1, hC.gamma]; unfold K.a_val
    have hγ0 : γ ≠ 0 := by linarith
    have e : 1 / 4 * (k + 2 - ω) * (γ + 1) * v - 1 / 2 * (γ + 1) / γ
        = (γ + 1) / (2 * γ) * (1 / 2 * (k + 2 - ω) * γ * v - 1) := by
      field_simp; ring
    rw [e]
    exact (mul_pos (div_pos (by linarith) (by linarith)) h2).ne'

theorem one_add_a5_pos2 {p : SedovFuncsO2.P} {γ k ω : ℝ} (hC : O2Consts p γ k ω) (P : Params γ k ω)
    (hd3 : K.denom3 γ k ω < 0) : 0 < p.a5 + 1 := by
  rw [hC.a5]; unfold K.a5; unfold K.denom3 at hd3
  have e : (ω * (γ + 1) - 2 * k) / (k * (2 - γ) - ω) + 1 = γ * (k - ω) / (-(k * (2 - γ) - ω)) := by
    have := hd3.ne
    rw [div_neg]; field_simp; ring
  rw [e]
  exact div_pos (mul_pos P.γ_pos (by linarith [P.hωk])) (by linarith)

theorem l_continuousOn2 {p : SedovFuncsO2.P} (s : Set ℝ) (hs : ∀ v ∈ s, VacBases2 p v) :
    ContinuousOn (SedovFuncsO2.L1.l_fun p) s := by
  rw [(funext (EPV.Bridge.Semi.SedovFuncsO2_L1_l_fun p) : SedovFuncsO2.L1.l_fun p = _)]
  refine (ContinuousOn.mul (ContinuousOn.rpow_const (by fun_prop) ?_) (ContinuousOn.rpow_const (by fun_prop) ?_)).mul
    (Real.continuous_exp.comp_continuousOn (ContinuousOn.mul (by fun_prop)
      (ContinuousOn.mul (by fun_prop) (ContinuousOn.div (by fun_prop) (by fun_prop) ?_))))
  · intro v hv; exact Or.inl (hs v hv).x1.ne'
  · intro v hv; exact Or.inl (hs v hv).x2.ne'
  · intro v hv; exact (hs v hv).y

/-- M2 with the two occurrences of x4 combined -/
def Mv2 (p : SedovFuncsO2.P) (kn : ℕ) (v : ℝ) : ℝ :=
  SedovFuncsO2.L1.l_fun p v ^ kn * ((p.a_val * v) ^ (p.a0 * p.omega)
      * (p.b_val * (p.c_val * v - 1)) ^ ((4 - p.geometry - 2 * p.gamma) * (1 / (2 * p.e_val))))
    * Real.exp (-2 * (p.gamp1 * (1 / (2 * p.e_val)) * ((1 - p.a_val * v) * (1 / (p.a_val * v - 1 / 2 * p.gamp1 / p.gamma)))))
    * ((p.b_val * (1 - 1 / 2 * p.xg2 * v)) ^ (p.a5 + 1) / p.b_val)

theorem M2_eq_Mv2 {p : SedovFuncsO2.P} {v : ℝ} (B : VacBases2 p v) (kn : ℕ) (ha5 : 0 < p.a5 + 1) :
    M2 p p.xg2 kn v = Mv2 p kn v := by
  unfold M2 Mv2
  have hb : p.b_val ≠ 0 := left_ne_zero_of_mul B.x2.ne'
  have E4 : (p.b_val * (1 - 1 / 2 * p.xg2 * v)) ^ p.a5 * (1 - p.xg2 / 2 * v)
      = (p.b_val * (1 - 1 / 2 * p.xg2 * v)) ^ (p.a5 + 1) / p.b_val := by
    rcases B.x4.eq_or_lt with h0 | hpos
    · have h1 : 1 - 1 / 2 * p.xg2 * v = 0 := by
        rcases mul_eq_zero.mp h0.symm with h | h
        · exact absurd h hb
        · exact h
      have h2 : 1 - p.xg2 / 2 * v = 0 := by linarith
      rw [← h0, h2, Real.zero_rpow ha5.ne', mul_zero, zero_div]
    · rw [Real.rpow_add hpos, Real.rpow_one]
      field_simp
  simp only [epv_semi_leaf]
  rw [← E4]
  ring

theorem Mv2_continuousOn {p : SedovFuncsO2.P} (kn : ℕ) (s : Set ℝ) (hs : ∀ v ∈ s, VacBases2 p v) (ha5 : 0 < p.a5 + 1) :
    ContinuousOn (Mv2 p kn) s := by
  unfold Mv2
  refine ((((l_continuousOn2 s hs).pow kn).mul ((ContinuousOn.rpow_const (by fun_prop) ?_).mul
    (ContinuousOn.rpow_const (by fun_prop) ?_))).mul (Real.continuous_exp.comp_continuousOn
      (ContinuousOn.mul (by fun_prop) (ContinuousOn.mul (by fun_prop)
        (ContinuousOn.mul (by fun_prop) (ContinuousOn.div (by fun_prop) (by fun_prop) ?_)))))).mul
    ((ContinuousOn.rpow_const (by fun_prop) ?_).div_const _)
  · intro v hv; exact Or.inl (hs v hv).x1.ne'
  · intro v hv; exact Or.inl (hs v hv).x2.ne'
  · intro v hv; exact (hs v hv).y
  · intro v hv; exact Or.inr ha5.le

theorem at_v2_2 {p : SedovFuncsO2.P} {γ k ω : ℝ} (hC : O2Consts p γ k ω) (P : Params γ k ω) :
    SedovFuncsO2.L1.l_fun p (v2 γ k ω) = 1 ∧ SedovFuncsO2.L1.g_fun p (v2 γ k ω) = 1 := by
  have hX := P.X_pos.ne'; have hγ := P.hγ
  have hg1 : γ + 1 ≠ 0 := by linarith
  have hg2 : γ - 1 ≠ 0 := by linarith
  have h1 : p.a_val * v2 γ k ω = 1 := by
    rw [hC.a_val]; unfold K.a_val v2; field_simp
  have h2 : p.b_val * (p.c_val * v2 γ k ω - 1) = 1 := by
    rw [hC.b_val, hC.c_val]; unfold K.b_val K.c_val v2; field_simp; ring
  have h4 : p.b_val * (1 - 1 / 2 * p.xg2 * v2 γ k ω) = 1 := by
    rw [hC.b_val, hC.xg2]; unfold K.b_val v2; field_simp; ring
  simp only [epv_semi_leaf, h1, h2, h4, Real.one_rpow, mul_one, sub_self, zero_mul, mul_zero, Real.exp_zero, and_self]

/-- **The mass integral, special_singularity omega2** (exactly special ω; vacuum type): for ANY g with
g(λ(v)) = G(v) on v2 < v < vv and g = 0 strictly inside the vacuum boundary λ(vv),
∫₀¹ g x^(k-1) dx = (γ-1)/((γ+1)(k-ω)). -/
theorem mass_integral_o2 {p : SedovFuncsO2.P} {γ ω : ℝ} (kn : ℕ) (h1 : 1 ≤ kn) (hC : O2Consts p γ kn ω)
    (P : Params γ kn ω) (hω2 : K.denom2 γ kn ω = 0) (g : ℝ → ℝ)
    (hg : ∀ v ∈ Ioo (v2 γ kn ω) (vv kn ω), g (SedovFuncsO2.L1.l_fun p v) = SedovFuncsO2.L1.g_fun p v)
    (hhole : ∀ x ∈ Ioo 0 (SedovFuncsO2.L1.l_fun p (vv kn ω)), g x = 0) :
    ∫ x in (0:ℝ)..1, g x * x ^ (kn - 1) = (γ - 1) / ((γ + 1) * ((kn : ℝ) - ω)) := by
  set k : ℝ := (kn : ℝ) with hk
  have htype := o2_is_vacuum P hω2
  have hX := P.X_pos; have hγ := P.hγ
  have hγ0 := P.γ_pos
  have hab : v2 γ k ω < vv k ω := by
    unfold v2 vv
    rw [div_lt_div_iff₀ (mul_pos hX (by linarith)) hX]
    nlinarith
  have hcl : ∀ v ∈ Icc (v2 γ k ω) (vv k ω), VacClosed γ k ω v := fun v hv => ⟨P, htype, hv.1, hv.2⟩
  have hS0 := (hcl _ (left_mem_Icc.mpr hab.le)).signs
  have hd3neg := denom3_neg hS0 P.hk
  have ha5 := one_add_a5_pos2 hC P hd3neg
  have hVB : ∀ v ∈ Icc (v2 γ k ω) (vv k ω), VacBases2 p v := fun v hv => vacBases2 hC (hcl v hv).signs
  have hint : ∀ v ∈ Ioo (v2 γ k ω) (vv k ω), O2.Signs γ k ω v := fun v hv =>
    (VacInterior.toSigns ⟨P, htype, hv.1, hv.2⟩).toO2
  have hkω : 0 < k - ω := by linarith [P.hωk]
  have hMc : ContinuousOn (M2 p (k + 2 - ω) kn) (Icc (v2 γ k ω) (vv k ω)) := by
    rw [← hC.xg2]
    exact (Mv2_continuousOn kn _ hVB ha5).congr (fun v hv => M2_eq_Mv2 (hVB v hv) kn ha5)
  have key := integral_param_anti hab (L := SedovFuncsO2.L1.l_fun p) (L' := SedovFuncsO2.L1.l_fun_dv p)
    (W := fun v => (k - ω) * (SedovFuncsO2.L1.g_fun p v * SedovFuncsO2.L1.l_fun p v ^ (kn - 1)))
    (M := M2 p (k + 2 - ω) kn) (φ := fun x => (k - ω) * (g x * x ^ (kn - 1)))
    (l_continuousOn2 _ hVB)
    (fun v hv => (O2.hasDerivAt p v (O2.bases hC (hint v hv) hω2)).1)
    (fun v hv => O2.l_dv_neg hC (hint v hv) hω2)
    hMc
    (fun v hv => M2_hasDerivAt hC (hint v hv) hω2 kn rfl h1)
    (fun v hv => by
      have B := O2.bases hC (hint v hv) hω2
      exact mul_nonneg hkω.le (mul_nonneg (O2.g_pos p v B).le (pow_nonneg (O2.l_pos p v B).le _)))
    (fun v hv => by beta_reduce; rw [hg v hv])
  rw [(at_v2_2 hC P).1] at key
  have hMvv : M2 p (k + 2 - ω) kn (vv k ω) = 0 := by
    unfold M2 vv
    have : (1 : ℝ) - (k + 2 - ω) / 2 * (2 / (k + 2 - ω)) = 0 := by field_simp; ring
    rw [this, mul_zero]
  have hM2 : M2 p (k + 2 - ω) kn (v2 γ k ω) = (γ - 1) / (γ + 1) := by
    unfold M2; rw [(at_v2_2 hC P).1, (at_v2_2 hC P).2, one_pow, one_mul, one_mul]
    unfold v2
    have : γ + 1 ≠ 0 := by linarith
    field_simp; ring
  rw [hMvv, hM2, sub_zero] at key
  have hBvv := hVB _ (right_mem_Icc.mpr hab.le)
  have hlvv_pos : 0 < SedovFuncsO2.L1.l_fun p (vv k ω) := by
    simp only [epv_semi_leaf]
    exact mul_pos (mul_pos (Real.rpow_pos_of_pos hBvv.x1 _) (Real.rpow_pos_of_pos hBvv.x2 _)) (Real.exp_pos _)
  have hanti : StrictAntiOn (SedovFuncsO2.L1.l_fun p) (Icc (v2 γ k ω) (vv k ω)) := by
    apply strictAntiOn_of_deriv_neg (convex_Icc _ _) (l_continuousOn2 _ hVB)
    intro x hx
    rw [interior_Icc] at hx
    rw [((O2.hasDerivAt p x (O2.bases hC (hint x hx) hω2)).1).deriv]
    exact O2.l_dv_neg hC (hint x hx) hω2
  have hlvv_lt : SedovFuncsO2.L1.l_fun p (vv k ω) < 1 := by
    have := hanti (left_mem_Icc.mpr hab.le) (right_mem_Icc.mpr hab.le) hab
    rwa [(at_v2_2 hC P).1] at this
  set lv := SedovFuncsO2.L1.l_fun p (vv k ω) with hlv
  have hsplit : ∫ x in (0:ℝ)..1, (k - ω) * (g x * x ^ (kn - 1)) = ∫ x in lv..1, (k - ω) * (g x * x ^ (kn - 1)) := by
    rw [intervalIntegral.integral_of_le zero_le_one, intervalIntegral.integral_of_le hlvv_lt.le]
    apply setIntegral_eq_of_subset_of_ae_diff_eq_zero measurableSet_Ioc.nullMeasurableSet
      (Ioc_subset_Ioc_left hlvv_pos.le)
    have hne : ∀ᵐ x ∂(volume : Measure ℝ), x ≠ lv := by
      have := (Set.countable_singleton lv).ae_notMem (volume : Measure ℝ)
      filter_upwards [this] with x hx
      simpa using hx
    filter_upwards [hne] with x hx hmem
    have hx0 : x ∈ Ioo 0 lv := by
      obtain ⟨⟨h0, h1⟩, h2⟩ := hmem
      simp only [mem_Ioc, not_and, not_le] at h2
      refine ⟨h0, lt_of_le_of_ne ?_ hx⟩
      by_contra hc
      exact absurd (h2 (not_le.mp hc)) (not_lt.mpr h1)
    rw [hhole x hx0]; ring
  have hfin : ∫ x in (0:ℝ)..1, (k - ω) * (g x * x ^ (kn - 1)) = (γ - 1) / (γ + 1) := by rw [hsplit, key]
  rw [intervalIntegral.integral_const_mul] at hfin
  have hg1 : γ + 1 ≠ 0 := by linarith
  field_simp
  field_simp at hfin
  linarith

end

end EPV.Sedov.Mass
