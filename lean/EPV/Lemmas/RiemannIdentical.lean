/-
The degenerate Riemann problem with identical (p, ρ, u) on the two sides and unequal γ — a material
interface at rest in the gas — evaluated exactly on the hand model over ℝ.  Shared by the Finding
files of C02 and C03 (the same defect is recorded for C04 by `EPV.Props.C04.FindingIdentical`).

`shock_velocity` decides which side it is called for by `(p == inst.pl) and (u == inst.ul) and
(r == inst.rl)`; here the right state passes that test, the right "shock" gets the speed ur - ar and
the last `reg_state` overwrites everything right of xd0 + t (ur - ar) with the right state.
-/
import EPV.Lemmas.Riemann

set_option linter.all false

open EPV EPV.Gen EPV.Model EPV.Spec.Riemann

namespace EPV.Riem

noncomputable section

/-- identical p, ρ, u on both sides; γ_L = 25/16, γ_R = 9/4 (sound speeds 5/4 and 3/2) -/
def qId : Prob := { pl := 1, rl := 1, ul := 0, gl := 25/16, pr := 1, rr := 1, ur := 0, gr := 9/4 }

theorem qId_admissible : qId.Admissible ∧ ¬ qId.Distinct := by
  unfold Prob.Admissible Prob.Distinct qId; norm_num

theorem qId_classify : RiemannIG.classify (toData qId) = .SCS := by
  simp [RiemannIG.classify, RiemannIG.uSCN, toData, qId]

theorem qId_root : SCS qId 1 = 0 := by
  rw [SCS_eq, shock_eq, shock_eq]; simp [qId]

theorem sqrt_25_16 : Real.sqrt (25 / 16) = 5 / 4 := by
  rw [Real.sqrt_eq_iff_mul_self_eq_of_pos (by norm_num)]; norm_num
theorem sqrt_9_4 : Real.sqrt (9 / 4) = 3 / 2 := by
  rw [Real.sqrt_eq_iff_mul_self_eq_of_pos (by norm_num)]; norm_num

theorem qId_ux : uxS qId 1 = 0 := by
  unfold uxS; rw [shock_eq]; simp [qId]

/-- the speeds the driver computes: the right "shock" is given the LEFT-going speed ur - ar -/
theorem qId_vregs : RiemannIG.vregs (toData qId) .SCS 1 = [-(5 / 4), 0, -(3 / 2)] := by
  rw [vregs_SCS, shockVel_left, shockVel_right_degenerate qId qId_admissible.2, qId_ux]
  have e1 : (25 / 16 + 1 : ℝ) * 1 / 2 / (25 / 16) / 1 + (25 / 16 - 1) / 2 / (25 / 16) = 1 := by norm_num
  have e2 : (9 / 4 + 1 : ℝ) * 1 / 2 / (9 / 4) / 1 + (9 / 4 - 1) / 2 / (9 / 4) = 1 := by norm_num
  have e3 : (25 / 16 : ℝ) * 1 / 1 = 25 / 16 := by norm_num
  have e4 : (9 / 4 : ℝ) * 1 / 1 = 9 / 4 := by norm_num
  simp only [qId, e1, e2, e3, e4, Real.sqrt_one, sqrt_25_16, sqrt_9_4]
  norm_num

/-- what the driver returns at t = 1/5 (membrane at 1/2): the left state left of x = 1/4, the left star
state (= left state) up to 1/5 … and the RIGHT state from x = 1/5 on — although the interface between
the two gases is at rest at x = 1/2 -/
theorem qId_solve (x : ℝ) :
    Riem.solve qId 1 (1 / 2) x (1 / 5)
      = (.SCS, if 1 / 5 ≤ x then (3, RiemannIG.rightState (toData qId))
               else if 1 / 2 ≤ x then (2, RiemannIG.starR (toData qId) .SCS 1)
               else if 1 / 4 ≤ x then (1, RiemannIG.starL (toData qId) .SCS 1)
               else (0, RiemannIG.leftState (toData qId))) := by
  simp only [Riem.solve, RiemannIG.solve, qId_classify, RiemannIG.solveWith, qId_vregs, RiemannIG.regStates,
    RiemannIG.xregs, List.map, RiemannIG.assemble, num_le]
  have e1 : (1 / 2 : ℝ) + 1 / 5 * -(3 / 2) = 1 / 5 := by norm_num
  have e2 : (1 / 2 : ℝ) + 1 / 5 * 0 = 1 / 2 := by norm_num
  have e3 : (1 / 2 : ℝ) + 1 / 5 * -(5 / 4) = 1 / 4 := by norm_num
  rw [e1, e2, e3]
  by_cases h1 : (1 / 5 : ℝ) ≤ x <;> by_cases h2 : (1 / 2 : ℝ) ≤ x <;> by_cases h3 : (1 / 4 : ℝ) ≤ x <;>
    simp [h1, h2, h3]

end

end EPV.Riem
