/-
C04 — the abstract conservation theorem at the level of hydrodynamic states.

`EPV.Lemmas.Conservation` treats one scalar component.  Here the three components are
bundled: a self-similar solution is a function `ξ ↦ State`, pieced together from regions
separated by waves; each region is required to satisfy `G_c' = U_c` for the three
components `c` (`SGood`), and each wave to satisfy the Rankine–Hugoniot conditions of
`EPV.Spec.Jump` with its own speed between the states on its two sides (`SValid`).
Contacts and the heads/tails of fans are special cases (`Contact.rankineHugoniot`,
`rankineHugoniot_of_eq`).  Conclusion: `Spec.ConservationFormula`, and from it
`Spec.IntegralConservation` when the membrane lies in `[a, b]`.
-/
import EPV.Spec.Conservation
import EPV.Lemmas.Conservation

set_option linter.all false

namespace EPV.Conservation

open MeasureTheory Set intervalIntegral EPV.Spec

noncomputable section

/-- component `c` of a state-valued region: `U = cons c`, `G = ξ cons c - flux c` -/
def statePiece (W : ℝ → State) (c : Comp) : Piece :=
  ⟨fun ξ => (W ξ).cons c, fun ξ => ξ * (W ξ).cons c - (W ξ).flux c⟩

/-- a wave of speed `V` and the state-valued region to its right -/
structure SWave where
  V : ℝ
  right : ℝ → State

/-- the piecewise state -/
def spw (W₀ : ℝ → State) : List SWave → ℝ → State
  | [] => W₀
  | w :: ws => fun ξ => if w.V ≤ ξ then spw w.right ws ξ else W₀ ξ

/-- the region right of all waves -/
def slast (W₀ : ℝ → State) : List SWave → ℝ → State
  | [] => W₀
  | w :: ws => slast w.right ws

/-- the region satisfies the similarity form of the three conservation laws on `(a, b)`,
continuously up to the ends -/
def SGood (W : ℝ → State) (a b : ℝ) : Prop := ∀ c, (statePiece W c).Good a b

/-- ordered speeds, good regions, Rankine–Hugoniot at every wave -/
def SValid (a : ℝ) (W₀ : ℝ → State) : List SWave → ℝ → Prop
  | [], b => a ≤ b ∧ SGood W₀ a b
  | w :: ws, b => a ≤ w.V ∧ SGood W₀ a w.V ∧ RankineHugoniot (W₀ w.V) (w.right w.V) w.V ∧
      SValid w.V w.right ws b

/-- Rankine–Hugoniot ⟺ `G = V U - F` has the same value on both sides -/
theorem rankineHugoniot_iff_match (a b : State) (V : ℝ) :
    RankineHugoniot a b V ↔ ∀ c, V * a.cons c - a.flux c = V * b.cons c - b.flux c := by
  constructor
  · rintro ⟨h1, h2, h3⟩ c
    simp only [State.massFlux, State.momFlux, State.energyFlux] at h1 h2 h3
    cases c <;> simp only [State.cons, State.flux] <;> linarith
  · intro h
    have h1 := h .mass
    have h2 := h .momentum
    have h3 := h .energy
    simp only [State.cons, State.flux] at h1 h2 h3
    refine ⟨?_, ?_, ?_⟩ <;> simp only [State.massFlux, State.momFlux, State.energyFlux] <;> linarith

/-- no jump at all (head or tail of a fan) -/
theorem rankineHugoniot_of_eq {a b : State} (h : a = b) (V : ℝ) : RankineHugoniot a b V := by
  subst h
  exact ⟨rfl, rfl, rfl⟩

theorem rankineHugoniot_symm {a b : State} {V : ℝ} (h : RankineHugoniot a b V) :
    RankineHugoniot b a V := ⟨h.1.symm, h.2.1.symm, h.2.2.symm⟩

/-- a constant state is a good region -/
theorem sgood_const (s : State) (a b : ℝ) : SGood (fun _ => s) a b := fun c =>
  constPiece_good (s.cons c) (s.flux c) a b

/-- the scalar list of waves of component `c` -/
def toWaves (c : Comp) : List SWave → List Wave
  | [] => []
  | w :: ws => ⟨w.V, statePiece w.right c⟩ :: toWaves c ws

theorem spw_cons (c : Comp) (W₀ : ℝ → State) (ws : List SWave) (ξ : ℝ) :
    (spw W₀ ws ξ).cons c = pw (statePiece W₀ c) (toWaves c ws) ξ := by
  induction ws generalizing W₀ with
  | nil => rfl
  | cons w ws ih =>
    simp only [spw, toWaves, pw]
    split_ifs
    · exact ih w.right
    · rfl

theorem lastPiece_toWaves (c : Comp) (W₀ : ℝ → State) (ws : List SWave) :
    lastPiece (statePiece W₀ c) (toWaves c ws) = statePiece (slast W₀ ws) c := by
  induction ws generalizing W₀ with
  | nil => rfl
  | cons w ws ih => simp only [toWaves, lastPiece, slast]; exact ih w.right

theorem SValid.valid {a : ℝ} {W₀ : ℝ → State} {ws : List SWave} {b : ℝ} (h : SValid a W₀ ws b)
    (c : Comp) : Valid a (statePiece W₀ c) (toWaves c ws) b := by
  induction ws generalizing a W₀ with
  | nil => exact ⟨h.1, h.2 c⟩
  | cons w ws ih =>
    obtain ⟨h1, h2, h3, h4⟩ := h
    exact ⟨h1, h2 c, (rankineHugoniot_iff_match _ _ _).mp h3 c, ih h4⟩

/-- **Abstract conservation theorem.**  A piecewise self-similar solution whose regions
satisfy the similarity form of the equations and whose waves satisfy Rankine–Hugoniot,
undisturbed (`= L`, `= R`) at the two ends of `[a, b]`, satisfies the conservation formula. -/
theorem conservationFormula_of_svalid {W₀ : ℝ → State} {ws : List SWave} {xd0 a b t : ℝ}
    {L R : State} (ht : 0 < t) (h : SValid ((a - xd0) / t) W₀ ws ((b - xd0) / t))
    (hL : W₀ ((a - xd0) / t) = L) (hR : slast W₀ ws ((b - xd0) / t) = R) :
    ConservationFormula (fun x s => spw W₀ ws ((x - xd0) / s)) xd0 L R a b t := by
  intro c
  have hv := h.valid c
  have key := conservation_of_valid (UL := L.cons c) (FL := L.flux c) (UR := R.cons c)
    (FR := R.flux c) ht hv (by simp only [statePiece, hL])
    (by rw [lastPiece_toWaves]; simp only [statePiece, hR])
  simp only [spw_cons]
  exact key

/-- the integral of the initial data -/
theorem integral_riemannInitial (xd0 a b : ℝ) (L R : State) (c : Comp) (ha : a ≤ xd0) (hb : xd0 ≤ b) :
    ∫ x in a..b, (riemannInitial xd0 L R x).cons c = (xd0 - a) * L.cons c + (b - xd0) * R.cons c := by
  have h1 : ∫ x in a..xd0, (riemannInitial xd0 L R x).cons c = (xd0 - a) * L.cons c := by
    rw [integral_congr_Ioo_of_le ha (g := fun _ => L.cons c)]
    · simp
    · intro x hx
      simp only [riemannInitial, if_pos hx.2]
  have h2 : ∫ x in xd0..b, (riemannInitial xd0 L R x).cons c = (b - xd0) * R.cons c := by
    rw [integral_congr (g := fun _ => R.cons c)]
    · simp
    · intro x hx
      rw [uIcc_of_le hb] at hx
      simp only [riemannInitial, if_neg (not_lt.mpr hx.1)]
  have i1 : IntervalIntegrable (fun x => (riemannInitial xd0 L R x).cons c) volume a xd0 := by
    refine (intervalIntegrable_const (c := L.cons c)).congr_uIoo ?_
    intro x hx
    rw [uIoo_of_le ha] at hx
    simp only [riemannInitial, if_pos hx.2]
  have i2 : IntervalIntegrable (fun x => (riemannInitial xd0 L R x).cons c) volume xd0 b := by
    refine (intervalIntegrable_const (c := R.cons c)).congr ?_
    intro x hx
    rw [uIoc_of_le hb] at hx
    simp only [riemannInitial, if_neg (not_lt.mpr hx.1.le)]
  rw [← integral_add_adjacent_intervals i1 i2, h1, h2]

/-- from the evaluated form to the literal form of C04, when the membrane lies in `[a, b]` -/
theorem IntegralConservation.of_formula {W : ℝ → ℝ → State} {xd0 a b t : ℝ} {L R : State}
    (ha : a ≤ xd0) (hb : xd0 ≤ b) (h : ConservationFormula W xd0 L R a b t) :
    IntegralConservation W xd0 L R a b t := fun c =>
  ⟨(h c).1, by rw [(h c).2, integral_riemannInitial xd0 a b L R c ha hb]⟩


/-! ### Gluing lists of waves -/

theorem slast_append (W₀ : ℝ → State) (ws₁ : List SWave) (w : SWave) (ws₂ : List SWave) :
    slast W₀ (ws₁ ++ w :: ws₂) = slast w.right ws₂ := by
  induction ws₁ generalizing W₀ with
  | nil => rfl
  | cons v ws ih => simp only [List.cons_append, slast]; exact ih v.right

/-- gluing: waves `ws₁` valid up to the speed `V` of a further wave, Rankine–Hugoniot at that
wave, and the remaining waves valid from `V` on -/
theorem svalid_append {a : ℝ} {W₀ : ℝ → State} {ws₁ : List SWave} {w : SWave} {ws₂ : List SWave} {b : ℝ}
    (h₁ : SValid a W₀ ws₁ w.V) (hw : RankineHugoniot (slast W₀ ws₁ w.V) (w.right w.V) w.V)
    (h₂ : SValid w.V w.right ws₂ b) : SValid a W₀ (ws₁ ++ w :: ws₂) b := by
  induction ws₁ generalizing a W₀ with
  | nil => exact ⟨h₁.1, h₁.2, hw, h₂⟩
  | cons v ws ih =>
    obtain ⟨h1, h2, h3, h4⟩ := h₁
    exact ⟨h1, h2, h3, ih h4 hw⟩

/-- **Left waves – contact – right waves.**  The left family of waves (valid up to the contact speed
`ux`, ending in the constant state `S₁`), a contact between `S₁` and `S₂`, and the right family (valid
from `ux` on, starting from the constant state `S₂`, ending in `R`). -/
theorem conservationFormula_of_halves {L S₁ S₂ R : State} {wsL wsR : List SWave} {ux xd0 a b t : ℝ}
    (ht : 0 < t) (hL : SValid ((a - xd0) / t) (fun _ => L) wsL ux)
    (hlL : slast (fun _ => L) wsL ux = S₁) (hc : Contact S₁ S₂ ux)
    (hR : SValid ux (fun _ => S₂) wsR ((b - xd0) / t))
    (hlR : slast (fun _ => S₂) wsR ((b - xd0) / t) = R) :
    ConservationFormula (fun x s => spw (fun _ => L) (wsL ++ ⟨ux, fun _ => S₂⟩ :: wsR) ((x - xd0) / s))
      xd0 L R a b t := by
  have hv : SValid ((a - xd0) / t) (fun _ => L) (wsL ++ ⟨ux, fun _ => S₂⟩ :: wsR) ((b - xd0) / t) :=
    svalid_append (w := ⟨ux, fun _ => S₂⟩) hL (by rw [hlL]; exact hc.rankineHugoniot) hR
  exact conservationFormula_of_svalid ht hv rfl (by rw [slast_append]; exact hlR)

end

end EPV.Conservation
