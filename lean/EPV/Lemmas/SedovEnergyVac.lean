/-
Sedov (C11 growth, wp sedov3): the two energy integrals of the traced similarity functions,
special_singularity none (generated model SedovFuncs, leaf 1), VACUUM solution type.

On the closed branch [v2, vv]: λ decreases from 1 (shock) to λ_v = λ(vv) ∈ (0, 1) (vacuum boundary) and
is smooth up to vv; the density g ~ x4^a5 may be unbounded at vv, but ALWAYS with a5 > -1
(`Mass.one_add_a5_pos`: 1 + a5 = -γ(k-ω)/denom3 > 0 because denom3 < 0 on the vacuum type), so the
kinetic integrand is integrable for EVERY admissible parameter set — proved here through the exact
mass differential of wp sedov2 (`Mass.Mv_continuousOn`); the pressure h ~ x4^(1+a5) is continuous up
to vv with h(vv) = 0.  `__init__` integrates from vmin = vv DOWN to v2 (quad with reversed limits),
which is the orientation of `branch_anti`.  Hence (`eval_vac`) for ANY f, g, h with
f(λ(v)) = F(v), g(λ(v)) = G(v), h(λ(v)) = H(v) on v2 < v < vv and g = h = 0 strictly inside the vacuum
boundary (`sedov_funcs_vacuum`):

    ∫_{vv}^{v2} efun01 dv = eval1 k γ ω f g ,      ∫_{vv}^{v2} efun02 dv = eval2 k γ ω h ,

the λ-space integrands are interval integrable on [0, 1], eval1 ≥ 0 and eval2 > 0.
-/
import EPV.Lemmas.SedovEnergyStd
import EPV.Lemmas.SedovMassVac

set_option linter.all false
set_option maxRecDepth 100000

open EPV EPV.Gen EPV.Spec.Sedov EPV.Spec.SedovODE MeasureTheory Set

namespace EPV.Sedov.Energy

noncomputable section

/-- the pressure similarity function is continuous on the closed vacuum branch: x4 may vanish, with
the non-negative exponent 1 + a5 -/
theorem h_continuousOn_vac {p : SedovFuncs.P} (s : Set ℝ) (hs : ∀ v ∈ s, Mass.VacBases p v) (ha5 : 0 < p.a5 + 1) :
    ContinuousOn (SedovFuncs.L1.h_fun p) s := by
  rw [(funext (EPV.Bridge.Semi.SedovFuncs_L1_h_fun p) : SedovFuncs.L1.h_fun p = _)]
  refine (ContinuousOn.mul (ContinuousOn.rpow_const (by fun_prop) ?_) (ContinuousOn.rpow_const (by fun_prop) ?_)).mul
    (ContinuousOn.rpow_const (by fun_prop) ?_)
  · intro v hv; exact Or.inl (hs v hv).x1.ne'
  · intro v hv; exact Or.inl (hs v hv).x3.ne'
  · intro v hv; exact Or.inr (by linarith)

/-- the vacuum branch of SedovFuncs is a `Branch` -/
theorem vac_branch {p : SedovFuncs.P} {γ ω : ℝ} (kn : ℕ) (h1 : 1 ≤ kn) (hC : StdConsts p γ kn ω)
    (P : Params γ kn ω) (htype : vstar γ kn < v2 γ kn ω) (hd2 : K.denom2 γ kn ω ≠ 0) :
    Branch (v2 γ kn ω) (vv kn ω) (SedovFuncs.L1.l_fun p) (SedovFuncs.L1.l_fun_dv p) (SedovFuncs.L1.g_fun p)
      (SedovFuncs.L1.h_fun p) (fun v => p.a_val * v) kn := by
  set k : ℝ := (kn : ℝ) with hk
  have hX := P.X_pos; have hγ := P.hγ
  have hγ0 := P.γ_pos
  have hab : v2 γ k ω < vv k ω := by
    unfold v2 vv
    rw [div_lt_div_iff₀ (mul_pos hX (by linarith)) hX]
    nlinarith
  have hcl : ∀ v ∈ Icc (v2 γ k ω) (vv k ω), Mass.VacClosed γ k ω v := fun v hv => ⟨P, htype, hv.1, hv.2⟩
  have hS0 := (hcl _ (left_mem_Icc.mpr hab.le)).signs
  have hd3neg := Mass.denom3_neg hS0 P.hk
  have ha5 := Mass.one_add_a5_pos hC P hd3neg
  have hVB : ∀ v ∈ Icc (v2 γ k ω) (vv k ω), Mass.VacBases p v := fun v hv => Mass.vacBases hC (hcl v hv).signs
  have hint : ∀ v ∈ Ioo (v2 γ k ω) (vv k ω), VacInterior γ k ω v := fun v hv => ⟨P, htype, hv.1, hv.2⟩
  have hB : ∀ v ∈ Ioo (v2 γ k ω) (vv k ω), Std.Bases p v := fun v hv => Std.bases hC (hint v hv).toSigns
  exact
    { hab := hab
      h1 := h1
      Lc := Mass.l_continuousOn_vac _ hVB
      Ld := fun v hv => (Std.hasDerivAt p v (hB v hv)).1
      Lpos := fun v hv => Std.l_pos p v (hB v hv)
      Gnn := fun v hv => (Std.g_pos p v (hB v hv)).le
      Ki := mass_integrable_of_exact_nonpos hab.le (κ := k - ω) (Mf := Mass.M p (k + 2 - ω) kn) (by linarith [P.hωk])
        (by rw [← hC.xg2]
            exact (Mass.Mv_continuousOn kn _ hVB ha5).congr (fun v hv => Mass.M_eq_Mv (hVB v hv) kn ha5))
        (fun v hv => Mass.M_hasDerivAt hC (hint v hv).toSigns hd2 hd3neg.ne kn rfl h1)
        (fun v hv => mul_nonpos_of_nonneg_of_nonpos
          (mul_nonneg (Std.g_pos p v (hB v hv)).le (pow_nonneg (Std.l_pos p v (hB v hv)).le _))
          (Std.l_dv_neg hC (hint v hv) hd2 hd3neg.ne).le)
      Ac := by fun_prop
      Hc := h_continuousOn_vac _ hVB ha5 }

/-- **The two energy integrals of the traced similarity functions, vacuum solution type.** -/
theorem eval_vac {p : SedovFuncs.P} {γ ω : ℝ} (kn : ℕ) (h1 : 1 ≤ kn) (hC : StdConsts p γ kn ω)
    (P : Params γ kn ω) (htype : vstar γ kn < v2 γ kn ω) (hd2 : K.denom2 γ kn ω ≠ 0) (f g h : ℝ → ℝ)
    (hf : ∀ v ∈ Ioo (v2 γ kn ω) (vv kn ω), f (SedovFuncs.L1.l_fun p v) = SedovFuncs.L1.f_fun p v)
    (hg : ∀ v ∈ Ioo (v2 γ kn ω) (vv kn ω), g (SedovFuncs.L1.l_fun p v) = SedovFuncs.L1.g_fun p v)
    (hh : ∀ v ∈ Ioo (v2 γ kn ω) (vv kn ω), h (SedovFuncs.L1.l_fun p v) = SedovFuncs.L1.h_fun p v)
    (hgh : ∀ x ∈ Ioo 0 (SedovFuncs.L1.l_fun p (vv kn ω)), g x = 0)
    (hhh : ∀ x ∈ Ioo 0 (SedovFuncs.L1.l_fun p (vv kn ω)), h x = 0) :
    IntervalIntegrable (fun x => g x * f x ^ 2 * x ^ (kn - 1)) volume 0 1 ∧
    IntervalIntegrable (fun x => h x * x ^ (kn - 1)) volume 0 1 ∧
    ∫ v in (vv kn ω)..(v2 γ kn ω), SedovFuncs.L1.efun01 p v = eval1 kn γ ω f g ∧
    ∫ v in (vv kn ω)..(v2 γ kn ω), SedovFuncs.L1.efun02 p v = eval2 kn γ ω h ∧
    0 ≤ eval1 kn γ ω f g ∧ 0 < eval2 kn γ ω h := by
  have Br := vac_branch kn h1 hC P htype hd2
  set k : ℝ := (kn : ℝ) with hk
  have hγ := P.hγ; have hX := P.X_pos
  have hint : ∀ v ∈ Ioo (v2 γ k ω) (vv k ω), VacInterior γ k ω v := fun v hv => ⟨P, htype, hv.1, hv.2⟩
  have hB : ∀ v ∈ Ioo (v2 γ k ω) (vv k ω), Std.Bases p v := fun v hv => Std.bases hC (hint v hv).toSigns
  have hcl : ∀ v ∈ Icc (v2 γ k ω) (vv k ω), Mass.VacClosed γ k ω v := fun v hv => ⟨P, htype, hv.1, hv.2⟩
  have hS0 := (hcl _ (left_mem_Icc.mpr Br.hab.le)).signs
  have hd3neg := Mass.denom3_neg hS0 P.hk
  have hL' : ∀ v ∈ Ioo (v2 γ k ω) (vv k ω), SedovFuncs.L1.l_fun_dv p v < 0 :=
    fun v hv => Std.l_dv_neg hC (hint v hv) hd2 hd3neg.ne
  have hf' : ∀ v ∈ Ioo (v2 γ k ω) (vv k ω), f (SedovFuncs.L1.l_fun p v) = p.a_val * v * SedovFuncs.L1.l_fun p v := by
    intro v hv; rw [hf v hv]; simp only [epv_semi_leaf]
  obtain ⟨⟨I1, E1⟩, ⟨I2, E2⟩⟩ := branch_anti Br hL' f g h hf' hg hh
  obtain ⟨N1, N2⟩ := Br.pos_anti hL' (fun v hv => Std.h_pos p v (hB v hv))
  rw [(Mass.at_v2 hC P hS0.dden.ne).1] at I1 E1 I2 E2
  -- the vacuum boundary lies in (0, 1)
  have hBvv := Mass.vacBases hC (hcl _ (right_mem_Icc.mpr Br.hab.le)).signs
  have hlvv_pos : 0 < SedovFuncs.L1.l_fun p (vv k ω) := by
    simp only [epv_semi_leaf]
    exact mul_pos (mul_pos (Real.rpow_pos_of_pos hBvv.x1 _) (Real.rpow_pos_of_pos hBvv.x2 _)) (Real.rpow_pos_of_pos hBvv.x3 _)
  have hlvv_le : SedovFuncs.L1.l_fun p (vv k ω) ≤ 1 := by
    have hanti : AntitoneOn (SedovFuncs.L1.l_fun p) (Icc (v2 γ k ω) (vv k ω)) := by
      apply antitoneOn_of_deriv_nonpos (convex_Icc _ _) Br.Lc
      · rw [interior_Icc]; exact fun z hz => (Br.Ld z hz).differentiableAt.differentiableWithinAt
      · rw [interior_Icc]; intro z hz; rw [(Br.Ld z hz).deriv]; exact (hL' z hz).le
    have := hanti (left_mem_Icc.mpr Br.hab.le) (right_mem_Icc.mpr Br.hab.le) Br.hab.le
    rwa [(Mass.at_v2 hC P hS0.dden.ne).1] at this
  obtain ⟨J1i, J1e⟩ := extend_hole (φ := fun x => g x * f x ^ 2 * x ^ (kn - 1)) hlvv_pos hlvv_le
    (fun x hx => by simp only [hgh x hx, zero_mul]) I1
  obtain ⟨J2i, J2e⟩ := extend_hole (φ := fun x => h x * x ^ (kn - 1)) hlvv_pos hlvv_le
    (fun x hx => by simp only [hhh x hx, zero_mul]) I2
  have hq1 : ∫ v in (vv k ω)..(v2 γ k ω), SedovFuncs.L1.efun01 p v = p.gpogm / p.a_val ^ 2
      * ∫ v in (vv k ω)..(v2 γ k ω), psi1 (SedovFuncs.L1.l_fun p) (SedovFuncs.L1.l_fun_dv p) (SedovFuncs.L1.g_fun p)
          (fun v => p.a_val * v) kn v := by
    rw [← intervalIntegral.integral_const_mul, intervalIntegral.integral_symm, intervalIntegral.integral_symm (v2 γ k ω),
      intervalIntegral.integral_of_le Br.hab.le,
      intervalIntegral.integral_of_le Br.hab.le, integral_Ioc_eq_integral_Ioo, integral_Ioc_eq_integral_Ioo]
    congr 1
    exact setIntegral_congr_fun measurableSet_Ioo (fun v hv => efun01_eq p v (hB v hv) kn hC.geometry h1)
  have hq2 : ∫ v in (vv k ω)..(v2 γ k ω), SedovFuncs.L1.efun02 p v = 8 / ((p.geometry + 2 - p.omega) ^ 2 * p.gamp1)
      * ∫ v in (vv k ω)..(v2 γ k ω), psi2 (SedovFuncs.L1.l_fun p) (SedovFuncs.L1.l_fun_dv p) (SedovFuncs.L1.h_fun p) kn v := by
    rw [← intervalIntegral.integral_const_mul, intervalIntegral.integral_symm, intervalIntegral.integral_symm (v2 γ k ω),
      intervalIntegral.integral_of_le Br.hab.le,
      intervalIntegral.integral_of_le Br.hab.le, integral_Ioc_eq_integral_Ioo, integral_Ioc_eq_integral_Ioo]
    congr 1
    exact setIntegral_congr_fun measurableSet_Ioo (fun v hv => efun02_eq p v (hB v hv) kn hC.geometry h1)
  have hc1 : p.gpogm / p.a_val ^ 2 = ((γ + 1) / (γ - 1)) / ((1 / 4) * (k + 2 - ω) * (γ + 1)) ^ 2 := by
    rw [hC.gpogm, hC.a_val]; rfl
  have hc2 : 8 / ((p.geometry + 2 - p.omega) ^ 2 * p.gamp1) = 8 / ((k + 2 - ω) ^ 2 * (γ + 1)) := by
    rw [hC.geometry, hC.omega, hC.gamp1]
  have hc1pos : 0 < ((γ + 1) / (γ - 1)) / ((1 / 4) * (k + 2 - ω) * (γ + 1)) ^ 2 := by
    have : 0 < γ - 1 := by linarith
    positivity
  have hc2pos : 0 < 8 / ((k + 2 - ω) ^ 2 * (γ + 1)) := by
    have : 0 < γ + 1 := by linarith
    positivity
  refine ⟨J1i, J2i, ?_, ?_, ?_, ?_⟩
  · rw [hq1, hc1, ← E1, ← J1e]; rfl
  · rw [hq2, hc2, ← E2, ← J2e]; rfl
  · unfold eval1 J1; rw [J1e, E1]; exact mul_nonneg hc1pos.le N1
  · unfold eval2 J2; rw [J2e, E2]; exact mul_pos hc2pos N2

/-- non-vacuity of the root-finder atom (vacuum type): similarity functions of λ with the traced parametric
values on the branch and zero density and pressure inside the vacuum boundary exist -/
theorem exists_funcs_vac {p : SedovFuncs.P} {γ ω : ℝ} (kn : ℕ) (h1 : 1 ≤ kn) (hC : StdConsts p γ kn ω)
    (P : Params γ kn ω) (htype : vstar γ kn < v2 γ kn ω) (hd2 : K.denom2 γ kn ω ≠ 0) :
    ∃ f g h : ℝ → ℝ,
      (∀ v ∈ Ioo (v2 γ kn ω) (vv kn ω), f (SedovFuncs.L1.l_fun p v) = SedovFuncs.L1.f_fun p v) ∧
      (∀ v ∈ Ioo (v2 γ kn ω) (vv kn ω), g (SedovFuncs.L1.l_fun p v) = SedovFuncs.L1.g_fun p v) ∧
      (∀ v ∈ Ioo (v2 γ kn ω) (vv kn ω), h (SedovFuncs.L1.l_fun p v) = SedovFuncs.L1.h_fun p v) ∧
      (∀ x ∈ Ioo 0 (SedovFuncs.L1.l_fun p (vv kn ω)), g x = 0) ∧
      (∀ x ∈ Ioo 0 (SedovFuncs.L1.l_fun p (vv kn ω)), h x = 0) := by
  have Br := vac_branch kn h1 hC P htype hd2
  have hS0 := (Mass.VacClosed.mk P htype le_rfl Br.hab.le).signs
  have hd3neg := Mass.denom3_neg hS0 P.hk
  have hL' : ∀ v ∈ Ioo (v2 γ kn ω) (vv kn ω), SedovFuncs.L1.l_fun_dv p v < 0 :=
    fun v hv => Std.l_dv_neg hC ⟨P, htype, hv.1, hv.2⟩ hd2 hd3neg.ne
  obtain ⟨hinj, hhole⟩ := Br.injOn_anti hL'
  obtain ⟨f, g, h, hf, hg, hh, hz⟩ := exists_param_functions hinj (SedovFuncs.L1.f_fun p)
    (SedovFuncs.L1.g_fun p) (SedovFuncs.L1.h_fun p)
  exact ⟨f, g, h, hf, hg, hh, fun x hx => (hz x (hhole x hx)).1, fun x hx => (hz x (hhole x hx)).2⟩

end

end EPV.Sedov.Energy
