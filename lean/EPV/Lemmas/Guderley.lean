/-
Lemmas for the Guderley converging-shock solver (C01, C02, C10): fields of the form

    ρ(r,t) = ρ₀ R(x) ,   u(r,t) = -(r/(λ t)) V(x) ,   c(r,t) = -(r/(λ t)) C(x) ,
    p = ρ c² / γ ,        e = c² / (γ (γ-1)) ,          x = t / r^λ

(Lazarus 1981, Eq. 2.5, in the form `ramsey.state` evaluates them) and the chain rule through
the similarity variable x.  `V, C, R : ℝ → ℝ` are arbitrary differentiable functions; nothing is
assumed about the similarity exponent λ beyond λ ≠ 0.

`euler_of_similarity` : if (V, C, R) satisfies, at x = t / r^λ,

    D x λ V' = N₀ ,   D x λ C' = C N₁ ,   D x λ R' = R N₂ ,      D = C² - (1+V)²

with the numerators of Lazarus Eqs. (2.8), (2.9) and the R-equation, then the three Euler
residuals of `Spec.Euler1D` (mass, momentum in (ρ,u,p), internal energy) vanish at (r, t) for
every real geometry factor k = ν.  The hypotheses are stated in *solved* form
(V' = N₀ / (D x λ), …) because that is the form the traced right-hand side `ramsey.g` has.
-/
import EPV.Spec.Euler1D

set_option linter.all false

open Filter Topology

namespace EPV.Gud

noncomputable section

/-- the similarity variable of `ramsey.guderley_1d`:  x = t / r^λ  (t = Lazarus time) -/
def sx (lam r t : ℝ) : ℝ := t / r ^ lam

theorem sx_hasDerivAt_t (lam r t : ℝ) : HasDerivAt (fun s => sx lam r s) (1 / r ^ lam) t := by
  unfold sx
  simpa using (hasDerivAt_id t).div_const (r ^ lam)

theorem sx_hasDerivAt_r (lam r t : ℝ) (hr : 0 < r) :
    HasDerivAt (fun y => sx lam y t) (-(lam * sx lam r t / r)) r := by
  unfold sx
  have h1 : HasDerivAt (fun y : ℝ => y ^ lam) (lam * r ^ (lam - 1)) r :=
    Real.hasDerivAt_rpow_const (Or.inl hr.ne')
  have hp : r ^ lam ≠ 0 := (Real.rpow_pos_of_pos hr lam).ne'
  have h2 := (hasDerivAt_const r t).div h1 hp
  refine h2.congr_deriv ?_
  rw [Real.rpow_sub_one hr.ne' lam]
  field_simp
  ring

/-- composition of a function of x with the similarity variable, derivative in r -/
theorem comp_sx_r {φ : ℝ → ℝ} {φ' : ℝ} (lam r t : ℝ) (hr : 0 < r) (h : HasDerivAt φ φ' (sx lam r t)) :
    HasDerivAt (fun y => φ (sx lam y t)) (φ' * -(lam * sx lam r t / r)) r :=
  HasDerivAt.comp r h (sx_hasDerivAt_r lam r t hr)

/-- composition of a function of x with the similarity variable, derivative in t -/
theorem comp_sx_t {φ : ℝ → ℝ} {φ' : ℝ} (lam r t : ℝ) (h : HasDerivAt φ φ' (sx lam r t)) :
    HasDerivAt (fun s => φ (sx lam r s)) (φ' * (1 / r ^ lam)) t :=
  HasDerivAt.comp t h (sx_hasDerivAt_t lam r t)

/-! ### The fields in normal form -/

/-- ρ = ρ₀ R(x) -/
def rhoN (R : ℝ → ℝ) (lam rho0 : ℝ) : Spec.Field := fun r t => R (sx lam r t) * rho0
/-- u = -(r/(λ t)) V(x) -/
def uN (V : ℝ → ℝ) (lam : ℝ) : Spec.Field := fun r t => -(r / (lam * t)) * V (sx lam r t)
/-- c = -(r/(λ t)) C(x) -/
def cN (C : ℝ → ℝ) (lam : ℝ) : Spec.Field := fun r t => -(r / (lam * t)) * C (sx lam r t)
/-- p = ρ c² / γ -/
def pN (C R : ℝ → ℝ) (lam gam rho0 : ℝ) : Spec.Field := fun r t =>
  R (sx lam r t) * rho0 * ((r / (lam * t)) * C (sx lam r t)) ^ 2 / gam
/-- e = c² / (γ (γ-1)) -/
def eN (C : ℝ → ℝ) (lam gam : ℝ) : Spec.Field := fun r t =>
  ((r / (lam * t)) * C (sx lam r t)) ^ 2 / (gam * (gam - 1))

section derivs

variable {V C R : ℝ → ℝ} {V' C' R' : ℝ} (lam gam rho0 r t : ℝ)

theorem rhoN_dr (hr : 0 < r) (hR : HasDerivAt R R' (sx lam r t)) :
    HasDerivAt (fun y => rhoN R lam rho0 y t) (R' * -(lam * sx lam r t / r) * rho0) r :=
  (comp_sx_r lam r t hr hR).mul_const rho0

theorem rhoN_dt (hR : HasDerivAt R R' (sx lam r t)) :
    HasDerivAt (fun s => rhoN R lam rho0 r s) (R' * (1 / r ^ lam) * rho0) t :=
  (comp_sx_t lam r t hR).mul_const rho0

theorem uN_dr (hr : 0 < r) (hV : HasDerivAt V V' (sx lam r t)) :
    HasDerivAt (fun y => uN V lam y t)
      (-(1 / (lam * t)) * V (sx lam r t) + -(r / (lam * t)) * (V' * -(lam * sx lam r t / r))) r := by
  have h1 : HasDerivAt (fun y : ℝ => -(y / (lam * t))) (-(1 / (lam * t))) r :=
    ((hasDerivAt_id r).div_const (lam * t)).neg
  exact h1.mul (comp_sx_r lam r t hr hV)

theorem uN_dt (ht : t ≠ 0) (hl : lam ≠ 0) (hV : HasDerivAt V V' (sx lam r t)) :
    HasDerivAt (fun s => uN V lam r s)
      ((r / (lam * t ^ 2)) * V (sx lam r t) + -(r / (lam * t)) * (V' * (1 / r ^ lam))) t := by
  have h0 : HasDerivAt (fun s : ℝ => lam * s) lam t := by
    simpa using (hasDerivAt_id t).const_mul lam
  have h1 : HasDerivAt (fun s : ℝ => -(r / (lam * s))) (r / (lam * t ^ 2)) t := by
    have := ((hasDerivAt_const t r).div h0 (mul_ne_zero hl ht)).neg
    refine this.congr_deriv ?_
    field_simp
    ring
  exact h1.mul (comp_sx_t lam r t hV)

/-- the square (r/(λ t) C(x))² that pressure and energy share, derivative in r -/
theorem q_dr (hr : 0 < r) (hC : HasDerivAt C C' (sx lam r t)) :
    HasDerivAt (fun y => ((y / (lam * t)) * C (sx lam y t)) ^ 2)
      (2 * ((r / (lam * t)) * C (sx lam r t))
        * ((1 / (lam * t)) * C (sx lam r t) + (r / (lam * t)) * (C' * -(lam * sx lam r t / r)))) r := by
  have h1 : HasDerivAt (fun y : ℝ => y / (lam * t)) (1 / (lam * t)) r :=
    (hasDerivAt_id r).div_const (lam * t)
  have h2 := (h1.mul (comp_sx_r lam r t hr hC)).pow 2
  refine h2.congr_deriv ?_
  simp
  try ring

/-- the same square, derivative in t -/
theorem q_dt (ht : t ≠ 0) (hl : lam ≠ 0) (hC : HasDerivAt C C' (sx lam r t)) :
    HasDerivAt (fun s => ((r / (lam * s)) * C (sx lam r s)) ^ 2)
      (2 * ((r / (lam * t)) * C (sx lam r t))
        * (-(r / (lam * t ^ 2)) * C (sx lam r t) + (r / (lam * t)) * (C' * (1 / r ^ lam)))) t := by
  have h0 : HasDerivAt (fun s : ℝ => lam * s) lam t := by
    simpa using (hasDerivAt_id t).const_mul lam
  have h1 : HasDerivAt (fun s : ℝ => r / (lam * s)) (-(r / (lam * t ^ 2))) t := by
    have := (hasDerivAt_const t r).div h0 (mul_ne_zero hl ht)
    refine this.congr_deriv ?_
    field_simp
    ring
  have h2 := (h1.mul (comp_sx_t lam r t hC)).pow 2
  refine h2.congr_deriv ?_
  simp
  try ring

theorem pN_dr (hr : 0 < r) (hC : HasDerivAt C C' (sx lam r t)) (hR : HasDerivAt R R' (sx lam r t)) :
    HasDerivAt (fun y => pN C R lam gam rho0 y t)
      ((R' * -(lam * sx lam r t / r) * rho0 * ((r / (lam * t)) * C (sx lam r t)) ^ 2
        + R (sx lam r t) * rho0 * (2 * ((r / (lam * t)) * C (sx lam r t))
          * ((1 / (lam * t)) * C (sx lam r t) + (r / (lam * t)) * (C' * -(lam * sx lam r t / r))))) / gam) r :=
  (((comp_sx_r lam r t hr hR).mul_const rho0).mul (q_dr lam r t hr hC)).div_const gam

theorem eN_dr (hr : 0 < r) (hC : HasDerivAt C C' (sx lam r t)) :
    HasDerivAt (fun y => eN C lam gam y t)
      ((2 * ((r / (lam * t)) * C (sx lam r t))
          * ((1 / (lam * t)) * C (sx lam r t) + (r / (lam * t)) * (C' * -(lam * sx lam r t / r))))
        / (gam * (gam - 1))) r :=
  (q_dr lam r t hr hC).div_const _

theorem eN_dt (ht : t ≠ 0) (hl : lam ≠ 0) (hC : HasDerivAt C C' (sx lam r t)) :
    HasDerivAt (fun s => eN C lam gam r s)
      ((2 * ((r / (lam * t)) * C (sx lam r t))
          * (-(r / (lam * t ^ 2)) * C (sx lam r t) + (r / (lam * t)) * (C' * (1 / r ^ lam))))
        / (gam * (gam - 1))) t :=
  (q_dt lam r t ht hl hC).div_const _

end derivs

/-! ### The similarity ODEs imply the Euler equations -/

/-- numerator of the V-equation (Lazarus 2.8) -/
def N0 (lam gam nu V C : ℝ) : ℝ :=
  ((nu + 1) * V + 2 * ((lam - 1) / gam)) * (C * C) - V * (V + 1) * (V + lam)
/-- numerator of the C-equation (Lazarus 2.9), without the factor C -/
def N1 (lam gam nu V C : ℝ) : ℝ :=
  (1 + ((lam - 1) / gam) / (V + 1)) * (C * C) - 1 / 2 * nu * (gam - 1) * V * (V + 1) - (V + 1) ^ 2
    - 1 / 2 * (lam - 1) * ((3 - gam) * V + 2)
/-- numerator of the R-equation, without the factor R -/
def N2 (lam gam nu V C : ℝ) : ℝ :=
  -2 * ((lam - 1) / gam) * (C * C) / (V + 1) + V * (V + lam) - (nu + 1) * V * (V + 1)
/-- common denominator  (C² - (1+V)²) x λ -/
def Den (lam V C x : ℝ) : ℝ := (C * C - (V + 1) ^ 2) * x * lam

/-- the similarity ODE system in the form `ramsey.g` evaluates it, at the abscissa `x` -/
structure SolvesAt (V C R : ℝ → ℝ) (lam gam nu x : ℝ) : Prop where
  hV : HasDerivAt V (N0 lam gam nu (V x) (C x) / Den lam (V x) (C x) x) x
  hC : HasDerivAt C (C x * N1 lam gam nu (V x) (C x) / Den lam (V x) (C x) x) x
  hR : HasDerivAt R (R x * N2 lam gam nu (V x) (C x) / Den lam (V x) (C x) x) x

variable {V C R : ℝ → ℝ} {lam gam nu rho0 r t : ℝ}

/-- mass balance -/
theorem mass_of_similarity (h : SolvesAt V C R lam gam nu (sx lam r t)) (hr : 0 < r) (ht : t ≠ 0)
    (hl : lam ≠ 0) (hD : Den lam (V (sx lam r t)) (C (sx lam r t)) (sx lam r t) ≠ 0)
    (hV1 : V (sx lam r t) + 1 ≠ 0) (hg : gam ≠ 0) :
    Spec.massRes (rhoN R lam rho0) (uN V lam) nu r t = 0 := by
  unfold Spec.massRes Spec.dr Spec.dt
  rw [(rhoN_dt lam rho0 r t h.hR).deriv, (rhoN_dr lam rho0 r t hr h.hR).deriv,
    (uN_dr lam r t hr h.hV).deriv]
  have hA : 0 < r ^ lam := Real.rpow_pos_of_pos hr lam
  unfold rhoN uN
  simp only [Den, N0, N1, N2] at *
  generalize hx : sx lam r t = x at *
  have hxA : x * r ^ lam = t := by
    rw [← hx]; unfold sx; field_simp
  generalize r ^ lam = A at *
  subst hxA
  generalize V x = v at *
  generalize C x = c at *
  generalize R x = ρ at *
  have hx0 : x ≠ 0 := fun h0 => ht (by rw [h0]; ring)
  have hD0 : c * c - (v + 1) ^ 2 ≠ 0 := fun h0 => hD (by rw [h0]; ring)
  obtain ⟨d, hd⟩ : ∃ d, c * c - (v + 1) ^ 2 = d := ⟨_, rfl⟩
  rw [hd] at hD0 ⊢
  field_simp
  subst hd
  ring

/-- momentum balance in (ρ, u, p) -/
theorem momentum_of_similarity (h : SolvesAt V C R lam gam nu (sx lam r t)) (hr : 0 < r) (ht : t ≠ 0)
    (hl : lam ≠ 0) (hD : Den lam (V (sx lam r t)) (C (sx lam r t)) (sx lam r t) ≠ 0)
    (hV1 : V (sx lam r t) + 1 ≠ 0) (hg : gam ≠ 0) (hρ : rho0 ≠ 0) (hR0 : R (sx lam r t) ≠ 0) :
    Spec.momResP (rhoN R lam rho0) (uN V lam) (pN C R lam gam rho0) r t = 0 := by
  unfold Spec.momResP Spec.dr Spec.dt
  rw [(uN_dt lam r t ht hl h.hV).deriv, (uN_dr lam r t hr h.hV).deriv,
    (pN_dr lam gam rho0 r t hr h.hC h.hR).deriv]
  have hA : 0 < r ^ lam := Real.rpow_pos_of_pos hr lam
  unfold rhoN uN
  simp only [Den, N0, N1, N2] at *
  generalize hx : sx lam r t = x at *
  have hxA : x * r ^ lam = t := by
    rw [← hx]; unfold sx; field_simp
  generalize r ^ lam = A at *
  subst hxA
  generalize V x = v at *
  generalize C x = c at *
  generalize R x = ρ at *
  have hx0 : x ≠ 0 := fun h0 => ht (by rw [h0]; ring)
  have hD0 : c * c - (v + 1) ^ 2 ≠ 0 := fun h0 => hD (by rw [h0]; ring)
  obtain ⟨d, hd⟩ : ∃ d, c * c - (v + 1) ^ 2 = d := ⟨_, rfl⟩
  rw [hd] at hD0 ⊢
  field_simp
  subst hd
  ring

/-- internal-energy balance -/
theorem energy_of_similarity (h : SolvesAt V C R lam gam nu (sx lam r t)) (hr : 0 < r) (ht : t ≠ 0)
    (hl : lam ≠ 0) (hD : Den lam (V (sx lam r t)) (C (sx lam r t)) (sx lam r t) ≠ 0)
    (hV1 : V (sx lam r t) + 1 ≠ 0) (hg : gam ≠ 0) (hg1 : gam - 1 ≠ 0) (hρ : rho0 ≠ 0)
    (hR0 : R (sx lam r t) ≠ 0) :
    Spec.energyResE (rhoN R lam rho0) (uN V lam) (pN C R lam gam rho0) (eN C lam gam) nu r t = 0 := by
  unfold Spec.energyResE Spec.dr Spec.dt
  rw [(eN_dt lam gam r t ht hl h.hC).deriv, (eN_dr lam gam r t hr h.hC).deriv,
    (uN_dr lam r t hr h.hV).deriv]
  have hA : 0 < r ^ lam := Real.rpow_pos_of_pos hr lam
  unfold rhoN uN pN
  simp only [Den, N0, N1, N2] at *
  generalize hx : sx lam r t = x at *
  have hxA : x * r ^ lam = t := by
    rw [← hx]; unfold sx; field_simp
  generalize r ^ lam = A at *
  subst hxA
  generalize V x = v at *
  generalize C x = c at *
  generalize R x = ρ at *
  have hx0 : x ≠ 0 := fun h0 => ht (by rw [h0]; ring)
  have hD0 : c * c - (v + 1) ^ 2 ≠ 0 := fun h0 => hD (by rw [h0]; ring)
  obtain ⟨d, hd⟩ : ∃ d, c * c - (v + 1) ^ 2 = d := ⟨_, rfl⟩
  rw [hd] at hD0 ⊢
  field_simp
  subst hd
  ring

end

end EPV.Gud
