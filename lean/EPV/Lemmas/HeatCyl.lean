/-
Lemmas for the two solvers with Bessel functions (atoms; Mathlib has none):
  Hutchens 2:  Σ_n (P_n I(λ_n r) + Q_n) sin(λ_n z) + static(z)   — cylindrical Laplacian, given only the
               modified Bessel equation for I; and the loop structure of the hand model `h2Loop`
  CylindricalSandwich:  Σ_i C_i R_i(r) sin(k_i θ) e^{-κ e_i t} + static(θ)  — polar heat residual, given only
               Bessel's equation for each R_i.
-/
import EPV.Spec.Heat

set_option linter.all false

open EPV EPV.Spec.Heat EPV.Model.HeatSeries Finset Filter Topology

namespace EPV.Lemmas.Heat

noncomputable section

private theorem hlin' (c z : ℝ) : HasDerivAt (fun u : ℝ => c * u) c z := by
  simpa using (hasDerivAt_id z).const_mul c

/-! ### Hutchens 2 -/

/-- the loop of `hutchens2.py`: the running `sum` and the running `temperature` -/
theorem h2Loop_real (k g0 Tb T0 TL L z : ℝ) (I0r I0b : ℕ → ℝ) (N : ℕ) :
    (h2Loop k g0 Tb T0 TL L z I0r I0b N).2 = ∑ n ∈ range N, h2Inc k g0 Tb T0 TL L z I0r I0b n
    ∧ (h2Loop k g0 Tb T0 TL L z I0r I0b N).1
        = h2Static k g0 T0 TL L z + ∑ j ∈ range N, ∑ n ∈ range (j + 1), h2Inc k g0 Tb T0 TL L z I0r I0b n := by
  induction N with
  | zero => simp [h2Loop, ofNat_real]
  | succ N ih =>
    obtain ⟨ih2, ih1⟩ := ih
    have hs : (h2Loop k g0 Tb T0 TL L z I0r I0b (N + 1)).2
        = (h2Loop k g0 Tb T0 TL L z I0r I0b N).2 + h2Inc k g0 Tb T0 TL L z I0r I0b N := rfl
    have ht : (h2Loop k g0 Tb T0 TL L z I0r I0b (N + 1)).1
        = (h2Loop k g0 Tb T0 TL L z I0r I0b N).1
          + ((h2Loop k g0 Tb T0 TL L z I0r I0b N).2 + h2Inc k g0 Tb T0 TL L z I0r I0b N) := rfl
    refine ⟨?_, ?_⟩
    · rw [hs, ih2, Finset.sum_range_succ]
    · rw [ht, ih1, ih2, Finset.sum_range_succ (fun j => ∑ n ∈ range (j + 1), _), Finset.sum_range_succ _ N]
      ring

/-- **what the code returns**: static part + Σ_{j<N} (partial sum up to j) — every partial sum is added again -/
theorem hutchens2_eq_partial_sums (N : ℕ) (k g0 Tb T0 TL L z : ℝ) (I0r I0b : ℕ → ℝ) :
    hutchens2 N k g0 Tb T0 TL L z I0r I0b
      = h2Static k g0 T0 TL L z + ∑ j ∈ range N, ∑ n ∈ range (j + 1), h2Inc k g0 Tb T0 TL L z I0r I0b n :=
  (h2Loop_real k g0 Tb T0 TL L z I0r I0b N).2

/-- the same with weights: term n enters `N - n` times -/
theorem sum_partial_sums (f : ℕ → ℝ) (N : ℕ) :
    ∑ j ∈ range N, ∑ n ∈ range (j + 1), f n = ∑ n ∈ range N, ((N : ℝ) - n) * f n := by
  induction N with
  | zero => simp
  | succ N ih =>
    rw [Finset.sum_range_succ, ih, Finset.sum_range_succ (fun n => f n), Finset.sum_range_succ (fun n => ((N + 1 : ℕ) - (n : ℝ)) * f n)]
    have : ∑ n ∈ range N, ((N + 1 : ℕ) - (n : ℝ)) * f n = ∑ n ∈ range N, ((N : ℝ) - n) * f n + ∑ n ∈ range N, f n := by
      rw [← Finset.sum_add_distrib]
      refine Finset.sum_congr rfl fun n _ => ?_
      push_cast; ring
    rw [this]
    push_cast
    ring

theorem h2Static_real (k g0 T0 TL L z : ℝ) :
    h2Static k g0 T0 TL L z = T0 + (TL - T0) * z / L + g0 / (2 * k) * z * (L - z) := by
  unfold h2Static; heat_ops; push_cast; ring

/-- wave number `λ_n = (2n+1) π / L` -/
def h2lam (L : ℝ) (n : ℕ) : ℝ := (2 * (n : ℝ) + 1) * Real.pi / L

theorem h2Inc_real (k g0 Tb T0 TL L z : ℝ) (I0r I0b : ℕ → ℝ) (n : ℕ) :
    h2Inc k g0 Tb T0 TL L z I0r I0b n
      = ((2 * Tb - T0 - TL) * (2 / Real.pi) / (2 * n + 1) * (I0r n / I0b n)
          - 2 * g0 * (L * L) / (Real.pi * Real.pi * k) / ((2 * n + 1) * (2 * n + 1))) * Real.sin (h2lam L n * z) := by
  unfold h2Inc h2lam
  heat_ops
  push_cast
  ring

/-- generic form: Bessel part `P`, Bessel-free part `Q` -/
def h2gen (N : ℕ) (P Q lam : ℕ → ℝ) (I : ℝ → ℝ) (st : ℝ → ℝ) (r z : ℝ) : ℝ :=
  (∑ n ∈ range N, (P n * I (lam n * r) + Q n) * Real.sin (lam n * z)) + st z

theorem h2gen_laplace (N : ℕ) (P Q lam : ℕ → ℝ) (I I' I'' : ℝ → ℝ) (hI : IsModBessel0 I I' I'')
    (st st' : ℝ → ℝ) (c : ℝ) (hst : ∀ y, HasDerivAt st (st' y) y) (hst' : ∀ y, HasDerivAt st' c y)
    (r z : ℝ) (hr : r ≠ 0) :
    deriv (fun u => deriv (fun v => h2gen N P Q lam I st v z) u) r + 1 / r * deriv (fun v => h2gen N P Q lam I st v z) r
      + deriv (fun u => deriv (fun v => h2gen N P Q lam I st r v) u) z
      = (∑ n ∈ range N, -(lam n * lam n) * Q n * Real.sin (lam n * z)) + c := by
  have hr1 : ∀ u, HasDerivAt (fun v => h2gen N P Q lam I st v z)
      (∑ n ∈ range N, (P n * (I' (lam n * u) * lam n)) * Real.sin (lam n * z)) u := by
    intro u
    unfold h2gen
    refine HasDerivAt.add_const _ (HasDerivAt.fun_sum fun n _ => ?_)
    have h1 : HasDerivAt (fun v => I (lam n * v)) (I' (lam n * u) * lam n) u :=
      (hI.d1 (lam n * u)).comp u (hlin' (lam n) u)
    exact ((h1.const_mul (P n)).add_const (Q n)).mul_const _
  have hr2 : HasDerivAt (fun u => ∑ n ∈ range N, (P n * (I' (lam n * u) * lam n)) * Real.sin (lam n * z))
      (∑ n ∈ range N, (P n * (I'' (lam n * r) * lam n * lam n)) * Real.sin (lam n * z)) r := by
    refine HasDerivAt.fun_sum fun n _ => ?_
    have h1 : HasDerivAt (fun v => I' (lam n * v)) (I'' (lam n * r) * lam n) r :=
      (hI.d2 (lam n * r)).comp r (hlin' (lam n) r)
    exact ((h1.mul_const (lam n)).const_mul (P n)).mul_const _
  have hz1 : ∀ u, HasDerivAt (fun v => h2gen N P Q lam I st r v)
      ((∑ n ∈ range N, (P n * I (lam n * r) + Q n) * (Real.cos (lam n * u) * lam n)) + st' u) u := by
    intro u
    unfold h2gen
    refine HasDerivAt.add (HasDerivAt.fun_sum fun n _ => ?_) (hst u)
    exact ((hlin' (lam n) u).sin).const_mul _
  have hz2 : HasDerivAt (fun u => (∑ n ∈ range N, (P n * I (lam n * r) + Q n) * (Real.cos (lam n * u) * lam n)) + st' u)
      ((∑ n ∈ range N, (P n * I (lam n * r) + Q n) * (-Real.sin (lam n * z) * lam n * lam n)) + c) z := by
    refine HasDerivAt.add (HasDerivAt.fun_sum fun n _ => ?_) (hst' z)
    exact (((hlin' (lam n) z).cos).mul_const (lam n)).const_mul _
  have e1 : (fun u => deriv (fun v => h2gen N P Q lam I st v z) u) = _ := funext fun u => (hr1 u).deriv
  have e2 : (fun u => deriv (fun v => h2gen N P Q lam I st r v) u) = _ := funext fun u => (hz1 u).deriv
  rw [e1, e2, hr2.deriv, hz2.deriv, (hr1 r).deriv, Finset.mul_sum]
  rw [← add_assoc, ← Finset.sum_add_distrib, ← Finset.sum_add_distrib]
  congr 1
  refine Finset.sum_congr rfl fun n _ => ?_
  have hode := hI.ode (lam n * r)
  have hr2' : r ^ 2 ≠ 0 := pow_ne_zero 2 hr
  have hrr : r ^ 2 * (1 / r) = r := by field_simp
  have key : I'' (lam n * r) * lam n * lam n + 1 / r * (I' (lam n * r) * lam n) - lam n * lam n * I (lam n * r) = 0 := by
    have h2 : r ^ 2 * (I'' (lam n * r) * lam n * lam n + 1 / r * (I' (lam n * r) * lam n) - lam n * lam n * I (lam n * r)) = 0 := by
      linear_combination hode + (I' (lam n * r) * lam n) * hrr
    exact (mul_eq_zero.mp h2).resolve_left hr2'
  linear_combination (P n * Real.sin (lam n * z)) * key

/-! ### cylindrical sandwich -/

/-- generic form of the series: radial atoms `R i`, angular numbers `kk i`, decay exponents `e i` -/
def cylgen (M : ℕ) (κ : ℝ) (C kk e : ℕ → ℝ) (R : ℕ → ℝ → ℝ) (st : ℝ → ℝ) (r θ t : ℝ) : ℝ :=
  (∑ i ∈ range M, C i * R i r * Real.sin (kk i * θ) * Real.exp (-κ * e i * t)) + st θ

/-- **residual of the polar heat equation**: each term contributes `κ (α_i² - e_i)` times itself -/
theorem cylgen_residual (M : ℕ) (κ : ℝ) (C kk al e : ℕ → ℝ) (R R' R'' : ℕ → ℝ → ℝ)
    (hR : ∀ i, IsBesselRadial (kk i) (al i) (R i) (R' i) (R'' i))
    (st : ℝ → ℝ) (s1 : ℝ) (hst : ∀ y, HasDerivAt st s1 y) (r θ t : ℝ) (hr : 0 < r) :
    heatResPolar κ (cylgen M κ C kk e R st) r θ t
      = ∑ i ∈ range M, κ * (al i ^ 2 - e i) * (C i * R i r * Real.sin (kk i * θ) * Real.exp (-κ * e i * t)) := by
  unfold heatResPolar
  have ht : HasDerivAt (fun s => cylgen M κ C kk e R st r θ s)
      (∑ i ∈ range M, C i * R i r * Real.sin (kk i * θ) * (Real.exp (-κ * e i * t) * (-κ * e i))) t := by
    unfold cylgen
    refine HasDerivAt.add_const _ (HasDerivAt.fun_sum fun i _ => ?_)
    exact ((hlin' (-κ * e i) t).exp).const_mul _
  have hr1 : ∀ u, 0 < u → HasDerivAt (fun v => cylgen M κ C kk e R st v θ t)
      (∑ i ∈ range M, C i * R' i u * Real.sin (kk i * θ) * Real.exp (-κ * e i * t)) u := by
    intro u hu
    unfold cylgen
    refine HasDerivAt.add_const _ (HasDerivAt.fun_sum fun i _ => ?_)
    exact ((((hR i).d1 u hu).const_mul (C i)).mul_const _).mul_const _
  have hr2 : HasDerivAt (fun u => ∑ i ∈ range M, C i * R' i u * Real.sin (kk i * θ) * Real.exp (-κ * e i * t))
      (∑ i ∈ range M, C i * R'' i r * Real.sin (kk i * θ) * Real.exp (-κ * e i * t)) r := by
    refine HasDerivAt.fun_sum fun i _ => ?_
    exact ((((hR i).d2 r hr).const_mul (C i)).mul_const _).mul_const _
  have hθ1 : ∀ u, HasDerivAt (fun v => cylgen M κ C kk e R st r v t)
      ((∑ i ∈ range M, C i * R i r * (Real.cos (kk i * u) * kk i) * Real.exp (-κ * e i * t)) + s1) u := by
    intro u
    unfold cylgen
    refine HasDerivAt.add (HasDerivAt.fun_sum fun i _ => ?_) (hst u)
    exact (((hlin' (kk i) u).sin).const_mul (C i * R i r)).mul_const _
  have hθ2 : HasDerivAt (fun u => (∑ i ∈ range M, C i * R i r * (Real.cos (kk i * u) * kk i) * Real.exp (-κ * e i * t)) + s1)
      (∑ i ∈ range M, C i * R i r * (-Real.sin (kk i * θ) * kk i * kk i) * Real.exp (-κ * e i * t)) θ := by
    refine HasDerivAt.add_const _ (HasDerivAt.fun_sum fun i _ => ?_)
    exact ((((hlin' (kk i) θ).cos).mul_const (kk i)).const_mul (C i * R i r)).mul_const _
  have e1 : (fun u => deriv (fun v => cylgen M κ C kk e R st v θ t) u) =ᶠ[𝓝 r]
      fun u => ∑ i ∈ range M, C i * R' i u * Real.sin (kk i * θ) * Real.exp (-κ * e i * t) := by
    filter_upwards [Ioi_mem_nhds hr] with u hu
    exact (hr1 u hu).deriv
  have e2 : (fun u => deriv (fun v => cylgen M κ C kk e R st r v t) u) = _ := funext fun u => (hθ1 u).deriv
  rw [ht.deriv, e1.deriv_eq, hr2.deriv, (hr1 r hr).deriv, e2, hθ2.deriv]
  rw [Finset.mul_sum, Finset.mul_sum, ← Finset.sum_add_distrib, ← Finset.sum_add_distrib, Finset.mul_sum, ← Finset.sum_sub_distrib]
  refine Finset.sum_congr rfl fun i _ => ?_
  have hode := (hR i).ode r hr
  have hr2' : r ^ 2 ≠ 0 := pow_ne_zero 2 hr.ne'
  have hr' := hr.ne'
  have hrr : r ^ 2 * (1 / r) = r := by field_simp
  have hrr2 : r ^ 2 * (1 / r ^ 2) = 1 := by field_simp
  have key : R'' i r + 1 / r * R' i r - 1 / r ^ 2 * (kk i ^ 2 * R i r) + al i ^ 2 * R i r = 0 := by
    have h2 : r ^ 2 * (R'' i r + 1 / r * R' i r - 1 / r ^ 2 * (kk i ^ 2 * R i r) + al i ^ 2 * R i r) = 0 := by
      linear_combination hode + R' i r * hrr - (kk i ^ 2 * R i r) * hrr2
    exact (mul_eq_zero.mp h2).resolve_left hr2'
  linear_combination (-κ * C i * Real.sin (kk i * θ) * Real.exp (-κ * e i * t)) * key

end

end EPV.Lemmas.Heat
