/-
The bridge between the generated burn-time models (one file per solver: BurnK1, BurnK2, BurnK3, BurnDSD —
so that a change of one solver breaks only its own theorems) and the documented solutions of `EPV.Spec.Burn`:

* `…_outcome`  : the traced request is served (`outcome = .ok`) exactly under the conditions the
                 constructor enforces, written in the vocabulary of the specification;
* `…_eq_spec` / `…_eq_cone` : wherever it is served, the traced `burntime` IS the documented
                 formula, with points read as elements of `EuclideanSpace ℝ (Fin n)`.

Everything the property files (C13, C09, C07, C08, C20 shares) prove about the code goes through
these statements.  They are proved by reducing the traced tree with the acceptance conditions (whatever
their order), rewriting the documented norms / distances / inner products into coordinates and ring
normalisation inside and outside the square roots (EPV/Lemmas/Bridge/DetonTactics.lean), so they do not
depend on how the Python writes the formula, and break — loudly — when the traced formula changes.
-/
import EPV.Gen.K1d2
import EPV.Gen.K1d3
import EPV.Spec.Burn
import EPV.Lemmas.Burn
import EPV.Tactics
import EPV.Lemmas.Bridge.DetonTactics

set_option linter.all false

open EPV EPV.Gen EPV.Spec.Burn

namespace EPV.Burn

/-! ### Kenamond 1 -/

/-- the traced models have exactly the leaves the theorems below cover -/
theorem k1d2_leaves : K1d2.okLeaves = [1] := rfl
theorem k1d3_leaves : K1d3.okLeaves = [1] := rfl

/-- detonator of the 2-D / 3-D model as a point of Euclidean space -/
noncomputable def K1d2.det (p : K1d2.P) : E2 := !₂[p.xd0, p.xd1]
noncomputable def K1d3.det (p : K1d3.P) : E3 := !₂[p.xd0, p.xd1, p.xd2]

/-- the request is accepted exactly when D > 0 (geometry and the length of `x_d` are concrete here) -/
theorem k1d2_outcome (p : K1d2.P) (x y : ℝ) : K1d2.outcome p x y = .ok ↔ 0 < p.D := by
  simp only [epv_tree, Bridge.Deton.ite_raise_ok, Bridge.Deton.ite_else_raise_ok, ite_self, Bridge.Deton.ok_eq_ok, and_true]
  simp only [epv_cond, not_le, not_lt]

theorem k1d3_outcome (p : K1d3.P) (x y z : ℝ) : K1d3.outcome p x y z = .ok ↔ 0 < p.D := by
  simp only [epv_tree, Bridge.Deton.ite_raise_ok, Bridge.Deton.ite_else_raise_ok, ite_self, Bridge.Deton.ok_eq_ok, and_true]
  simp only [epv_cond, not_le, not_lt]

theorem K1d2.det_0 (p : K1d2.P) : (K1d2.det p) 0 = p.xd0 := by simp [K1d2.det]
theorem K1d2.det_1 (p : K1d2.P) : (K1d2.det p) 1 = p.xd1 := by simp [K1d2.det]
theorem K1d3.det_0 (p : K1d3.P) : (K1d3.det p) 0 = p.xd0 := by simp [K1d3.det]
theorem K1d3.det_1 (p : K1d3.P) : (K1d3.det p) 1 = p.xd1 := by simp [K1d3.det]
theorem K1d3.det_2 (p : K1d3.P) : (K1d3.det p) 2 = p.xd2 := by simp [K1d3.det]

/-- under D > 0 the traced tree is its only `ok` leaf (whatever its number) -/
theorem k1d2_eq_leaf (p : K1d2.P) (hD : 0 < p.D) (x y : ℝ) :
    K1d2.burntime p x y = K1d2.L1.burntime p x y := by
  have hok := (k1d2_outcome p x y).mpr hD
  epv_deton_ok_reduce hok

theorem k1d3_eq_leaf (p : K1d3.P) (hD : 0 < p.D) (x y z : ℝ) :
    K1d3.burntime p x y z = K1d3.L1.burntime p x y z := by
  have hok := (k1d3_outcome p x y z).mpr hD
  epv_deton_ok_reduce hok

/-- the traced burn time is the documented cone -/
theorem k1d2_eq_cone (p : K1d2.P) (hD : 0 < p.D) (q : E2) :
    K1d2.burntime p (q 0) (q 1) = cone p.t_d p.D (K1d2.det p) q := by
  have hok := (k1d2_outcome p (q 0) (q 1)).mpr hD
  epv_deton_ok_reduce hok
  simp only [epv_leaf]
  unfold cone
  rw [← sqrt_dist2 q (K1d2.det p)]
  simp only [K1d2.det_0, K1d2.det_1]
  epv_deton_nf_eq

theorem k1d3_eq_cone (p : K1d3.P) (hD : 0 < p.D) (q : E3) :
    K1d3.burntime p (q 0) (q 1) (q 2) = cone p.t_d p.D (K1d3.det p) q := by
  have hok := (k1d3_outcome p (q 0) (q 1) (q 2)).mpr hD
  epv_deton_ok_reduce hok
  simp only [epv_leaf]
  unfold cone
  rw [← sqrt_dist3 q (K1d3.det p)]
  simp only [K1d3.det_0, K1d3.det_1, K1d3.det_2]
  epv_deton_nf_eq

end EPV.Burn
