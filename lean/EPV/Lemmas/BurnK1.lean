/-
The bridge between the generated burn-time models (one file per solver: BurnK1, BurnK2, BurnK3, BurnDSD —
so that a change of one solver breaks only its own theorems) and the documented solutions of `EPV.Spec.Burn`:

* `…_outcome`  : the traced request is served (`outcome = .ok`) exactly under the conditions the
                 constructor enforces, written in the vocabulary of the specification;
* `…_eq_spec` / `…_eq_cone` : wherever it is served, the traced `burntime` IS the documented
                 formula, with points read as elements of `EuclideanSpace ℝ (Fin n)`.

Everything the property files (C13, C09, C07, C08, C20 shares) prove about the code goes through
these statements.  They are proved by unfolding the generated definitions and rewriting
`Real.sqrt (… * … + …)` into norms / distances / inner products, so they break — loudly — when
the traced formula changes.
-/
import EPV.Gen.K1d2
import EPV.Gen.K1d3
import EPV.Spec.Burn
import EPV.Lemmas.Burn
import EPV.Tactics

set_option linter.all false

open EPV EPV.Gen EPV.Spec.Burn

namespace EPV.Burn

/-! ### Kenamond 1 -/

/-- the traced models have exactly the leaves the theorems below cover -/
theorem k1d2_leaves : K1d2.okLeaves = [1] := rfl
theorem k1d3_leaves : K1d3.okLeaves = [1] := rfl

/-- detonator of the 2-D / 3-D model as a point of Euclidean space -/
noncomputable def K1d2.det (p : K1d2.P) : E2 := !₂[p.xd0, p.xd1]
noncomputable def K1d3.det (p : K1d3.P) : E3 := !₂[p.xd0, p.xd1, p.xd2]

/-- the request is accepted exactly when D > 0 (geometry and the length of `x_d` are concrete here) -/
theorem k1d2_outcome (p : K1d2.P) (x y : ℝ) : K1d2.outcome p x y = .ok ↔ 0 < p.D := by
  simp only [epv_tree]
  by_cases h : K1d2.c0 p x y
  · rw [if_pos h]; simp only [epv_cond] at h
    exact ⟨fun h' => absurd h' (by decide), fun h' => absurd h (not_le.mpr h')⟩
  · rw [if_neg h]; simp only [epv_cond] at h
    exact ⟨fun _ => not_le.mp h, fun _ => rfl⟩

theorem k1d3_outcome (p : K1d3.P) (x y z : ℝ) : K1d3.outcome p x y z = .ok ↔ 0 < p.D := by
  simp only [epv_tree]
  by_cases h : K1d3.c0 p x y z
  · rw [if_pos h]; simp only [epv_cond] at h
    exact ⟨fun h' => absurd h' (by decide), fun h' => absurd h (not_le.mpr h')⟩
  · rw [if_neg h]; simp only [epv_cond] at h
    exact ⟨fun _ => not_le.mp h, fun _ => rfl⟩

/-- the traced burn time is the documented cone -/
theorem k1d2_eq_cone (p : K1d2.P) (hD : 0 < p.D) (q : E2) :
    K1d2.burntime p (q 0) (q 1) = cone p.t_d p.D (K1d2.det p) q := by
  have hc : ¬ K1d2.c0 p (q 0) (q 1) := by simp only [epv_cond]; exact not_le.mpr hD
  simp only [epv_tree, if_neg hc, epv_leaf]
  unfold cone
  rw [← sqrt_dist2 q (K1d2.det p)]
  simp only [K1d2.det, PiLp.toLp_apply, Matrix.cons_val_zero, Matrix.cons_val_one]
  first | done | rfl | ring_nf

theorem k1d3_eq_cone (p : K1d3.P) (hD : 0 < p.D) (q : E3) :
    K1d3.burntime p (q 0) (q 1) (q 2) = cone p.t_d p.D (K1d3.det p) q := by
  have hc : ¬ K1d3.c0 p (q 0) (q 1) (q 2) := by simp only [epv_cond]; exact not_le.mpr hD
  simp only [epv_tree, if_neg hc, epv_leaf]
  unfold cone
  rw [← sqrt_dist3 q (K1d3.det p)]
  simp only [K1d3.det, PiLp.toLp_apply, Matrix.cons_val_zero, Matrix.cons_val_one, Matrix.cons_val_two,
    Matrix.cons_val]
  first | done | rfl | ring_nf

end EPV.Burn
