/-
C04 (P) — the elementary waves of the GENERAL-EOS Riemann solver in normal form, with the numerical
primitives as atoms.

`RiemannGenEOS.driver` builds its waves from two numerical primitives: the isentrope through a state,
integrated in pressure by `scipy.integrate.ode` with the right-hand side `drdp_dudp`
(`dρ/dp = 1/a²`, `du/dp = ± 1/(ρ a)`), and the Hugoniot density, the `bisect` root of `shock_jump`.
Here both are ATOMS: functions / numbers about which only the defining property is assumed.

* `gen_shock_rankineHugoniot`: with `shock_jump = 0`, the coded `shock_speed` and `star_velocity`
  satisfy the three Rankine–Hugoniot conditions — for ANY equation of state (the energies enter only
  through `shock_jump`); `gen_shock_order`: the star state lies behind the shock.
* `gen_first_law`: the coded definition of the sound speed, `a² e_p = p/ρ² - e_ρ`, makes the curve
  `dρ/dp = 1/a²` an isentrope, `de = (p/ρ²) dρ`.
* `gen_fan_hasDerivAt`, `GenFan.sgood`: a centred fan (`ξ = u ± a`) whose fields vary as the ODE
  prescribes satisfies the similarity form of the three conservation laws (`G_c' = U_c`).
* `*_half`: the left and right families of waves in the form `conservationFormula_of_halves` consumes.
-/
import EPV.Support
import EPV.Lemmas.ConservationState

set_option linter.all false

namespace EPV.C04

open EPV.Spec EPV.Conservation Set

noncomputable section

/-- **General-EOS shock.**  `V = shock_speed(px, rx, p0, r0, u0)`, `ux = star_velocity(p0, r0, u0, px, rx)`
as coded, with `shock_jump(p0, r0, ·, px, rx) = 0` (the Hugoniot root `rx` is an atom): the three
Rankine–Hugoniot conditions hold, for any equation of state (the energies `e0`, `ex` enter only through
`shock_jump`). -/
theorem gen_shock_rankineHugoniot {sgn p0 r0 u0 e0 px rx ex : ℝ} (hs : sgn = 1 ∨ sgn = -1)
    (hr0 : 0 < r0) (hrx : 0 < rx) (hne : rx - r0 ≠ 0) (hK : 0 ≤ (px - p0) / (rx - r0))
    (hjump : e0 + p0 / r0 + rx / r0 * (px - p0) / (rx - r0) / 2
      - (ex + px / rx + r0 / rx * (px - p0) / (rx - r0) / 2) = 0) :
    RankineHugoniot ⟨r0, u0, p0, e0⟩
      ⟨rx, u0 + (Real.sqrt (rx / r0 * (px - p0) / (rx - r0)) - Real.sqrt (r0 / rx * (px - p0) / (rx - r0))) * sgn,
        px, ex⟩
      (sgn * Real.sqrt (rx / r0 * (px - p0) / (rx - r0)) + u0) := by
  obtain ⟨s, hs0, hsK⟩ : ∃ s, 0 ≤ s ∧ (px - p0) / (rx - r0) = s ^ 2 :=
    ⟨Real.sqrt ((px - p0) / (rx - r0)), Real.sqrt_nonneg _, (Real.sq_sqrt hK).symm⟩
  obtain ⟨ρ, hρ0, hρ⟩ : ∃ ρ, 0 < ρ ∧ rx = ρ ^ 2 * r0 :=
    ⟨Real.sqrt (rx / r0), Real.sqrt_pos.mpr (by positivity), by rw [Real.sq_sqrt (by positivity)]; field_simp⟩
  have e1 : rx / r0 * (px - p0) / (rx - r0) = (ρ * s) ^ 2 := by
    rw [mul_div_assoc, hsK, hρ]; field_simp
  have e2 : r0 / rx * (px - p0) / (rx - r0) = (s / ρ) ^ 2 := by
    rw [mul_div_assoc, hsK, hρ]; field_simp
  have hpx : px = p0 + s ^ 2 * (rx - r0) := by
    field_simp at hsK; linarith
  have hex : ex = e0 + p0 / r0 + rx / r0 * (px - p0) / (rx - r0) / 2 - (px / rx + r0 / rx * (px - p0) / (rx - r0) / 2) := by
    linarith
  rw [e1, e2, Real.sqrt_sq (by positivity), Real.sqrt_sq (by positivity)] at *
  subst hex
  rw [e1, e2]
  subst hpx
  subst hρ
  refine ⟨?_, ?_, ?_⟩ <;> simp only [State.massFlux, State.momFlux, State.energyFlux] <;>
    rcases hs with rfl | rfl <;> field_simp <;> ring

/-- the star state lies behind the shock: `W' = √(r0/rx K) ≥ 0` -/
theorem gen_shock_order (r0 rx K : ℝ) : 0 ≤ Real.sqrt (r0 / rx * K) := Real.sqrt_nonneg _

/-- the sound speed as coded, `a² e_p = p/ρ² - e_ρ`, makes the curve `dρ/dp = 1/a²` an isentrope:
`de = (p/ρ²) dρ` along it -/
theorem gen_first_law {ep er a p r P' R' : ℝ} (ha : a ≠ 0) (ha2 : a ^ 2 * ep = p / r ^ 2 - er)
    (hdr : R' = 1 / a ^ 2 * P') : ep * P' + er * R' = p / r ^ 2 * R' := by
  have : P' = a ^ 2 * R' := by rw [hdr]; field_simp
  rw [this]
  linear_combination R' * ha2

/-- **General-EOS fan.**  `P R Uv E` are pressure, density, velocity and specific internal energy in the
fan as functions of ξ (atoms: the ODE solution of `drdp_dudp`, tabulated and inverted by interpolation).
If, at ξ, they vary as the ODE prescribes (`dρ = dp/a²`, `du = ws dp/(ρ a)`), the energy obeys the first
law along the curve (`gen_first_law`), and the fan is centred (`ξ = u + ws a`), then `G_c' = U_c` for the
three conservation laws. -/
theorem gen_fan_hasDerivAt {P R Uv E : ℝ → ℝ} {P' R' Uv' E' a ws ξ : ℝ}
    (hP : HasDerivAt P P' ξ) (hR : HasDerivAt R R' ξ) (hU : HasDerivAt Uv Uv' ξ) (hE : HasDerivAt E E' ξ)
    (hws : ws = 1 ∨ ws = -1) (ha : a ≠ 0) (hρ : R ξ ≠ 0)
    (hdr : R' = 1 / a ^ 2 * P') (hdu : Uv' = 1 / R ξ / a * ws * P') (hde : E' = P ξ / R ξ ^ 2 * R')
    (hξ : ξ = Uv ξ + ws * a) (c : Comp) :
    HasDerivAt (statePiece (fun ξ => (⟨R ξ, Uv ξ, P ξ, E ξ⟩ : State)) c).G
      ((statePiece (fun ξ => (⟨R ξ, Uv ξ, P ξ, E ξ⟩ : State)) c).U ξ) ξ := by
  have hid := hasDerivAt_id' ξ
  have hU2 := EPV.D.pow hU 2 1 2 rfl (by norm_num)
  have hEt := EPV.D.mul hR (EPV.D.add hE (EPV.D.div_const hU2 2))
  cases c <;> simp only [statePiece, State.cons, State.flux]
  · refine (EPV.D.sub (EPV.D.mul hid hR) (EPV.D.mul hR hU)).congr_deriv ?_
    subst hdr hdu
    generalize R ξ = r at *
    generalize Uv ξ = u at *
    subst hξ
    rcases hws with rfl | rfl <;> field_simp <;> ring
  · refine (EPV.D.sub (EPV.D.mul hid (EPV.D.mul hR hU)) (EPV.D.add (EPV.D.mul hR hU2) hP)).congr_deriv ?_
    subst hdr hdu
    generalize R ξ = r at *
    generalize Uv ξ = u at *
    subst hξ
    rcases hws with rfl | rfl <;> field_simp <;> ring
  · refine (EPV.D.sub (EPV.D.mul hid hEt) (EPV.D.mul hU (EPV.D.add hEt hP))).congr_deriv ?_
    subst hde hdr hdu
    generalize R ξ = r at *
    generalize Uv ξ = u at *
    generalize P ξ = p at *
    generalize E ξ = e at *
    subst hξ
    rcases hws with rfl | rfl <;> field_simp <;> ring

/-- the fields of a general-EOS fan as functions of ξ, their derivatives, the sound speed along the
fan and the wave sign (−1 left, +1 right): all atoms -/
structure GenFan where
  P : ℝ → ℝ
  R : ℝ → ℝ
  Uv : ℝ → ℝ
  E : ℝ → ℝ
  dP : ℝ → ℝ
  dR : ℝ → ℝ
  dU : ℝ → ℝ
  dE : ℝ → ℝ
  a : ℝ → ℝ
  ws : ℝ

def GenFan.state (F : GenFan) : ℝ → State := fun ξ => ⟨F.R ξ, F.Uv ξ, F.P ξ, F.E ξ⟩

/-- what is assumed of the atoms at one ξ -/
structure GenFan.Holds (F : GenFan) (ξ : ℝ) : Prop where
  hP : HasDerivAt F.P (F.dP ξ) ξ
  hR : HasDerivAt F.R (F.dR ξ) ξ
  hU : HasDerivAt F.Uv (F.dU ξ) ξ
  hE : HasDerivAt F.E (F.dE ξ) ξ
  a_ne : F.a ξ ≠ 0
  rho_ne : F.R ξ ≠ 0
  /-- `drdp_dudp`, first component, through the chain rule -/
  drdp : F.dR ξ = 1 / F.a ξ ^ 2 * F.dP ξ
  /-- `drdp_dudp`, second component -/
  dudp : F.dU ξ = 1 / F.R ξ / F.a ξ * F.ws * F.dP ξ
  /-- first law along the curve (`gen_first_law`) -/
  first_law : F.dE ξ = F.P ξ / F.R ξ ^ 2 * F.dR ξ
  /-- the fan is centred: `xr = xd0 + t (u ± a)` -/
  centred : ξ = F.Uv ξ + F.ws * F.a ξ

theorem GenFan.sgood (F : GenFan) (hws : F.ws = 1 ∨ F.ws = -1) {ξ₁ ξ₂ : ℝ} (h12 : ξ₁ ≤ ξ₂)
    (h : ∀ ξ ∈ Icc ξ₁ ξ₂, F.Holds ξ) : SGood F.state ξ₁ ξ₂ := by
  intro c
  have hd : ∀ ξ ∈ Icc ξ₁ ξ₂, HasDerivAt (statePiece F.state c).G ((statePiece F.state c).U ξ) ξ := by
    intro ξ hξ
    obtain ⟨hP, hR, hU, hE, a_ne, rho_ne, drdp, dudp, fl, cen⟩ := h ξ hξ
    exact gen_fan_hasDerivAt hP hR hU hE hws a_ne rho_ne drdp dudp fl cen c
  refine Piece.good_of_continuousOn h12 (fun ξ hξ => (hd ξ hξ).continuousAt.continuousWithinAt)
    (fun ξ hξ => hd ξ (Ioo_subset_Icc_self hξ)) ?_
  intro ξ hξ
  obtain ⟨hP, hR, hU, hE, -, -, -, -, -, -⟩ := h ξ hξ
  apply ContinuousAt.continuousWithinAt
  cases c <;> simp only [statePiece, GenFan.state, State.cons]
  · exact hR.continuousAt
  · exact (EPV.D.mul hR hU).continuousAt
  · exact (EPV.D.mul hR (EPV.D.add hE (EPV.D.div_const (EPV.D.pow hU 2 1 2 rfl (by norm_num)) 2))).continuousAt

/-! ### The two families of waves -/

theorem left_shock_half {L S₁ : State} {a V ux : ℝ} (h1 : a ≤ V) (hrh : RankineHugoniot L S₁ V)
    (h2 : V ≤ ux) : SValid a (fun _ => L) [⟨V, fun _ => S₁⟩] ux :=
  ⟨h1, sgood_const _ _ _, hrh, h2, sgood_const _ _ _⟩

theorem left_fan_half {L S₁ : State} {W : ℝ → State} {a hd tl ux : ℝ} (h1 : a ≤ hd) (h2 : hd ≤ tl)
    (hg : SGood W hd tl) (hh : W hd = L) (ht : W tl = S₁) (h3 : tl ≤ ux) :
    SValid a (fun _ => L) [⟨hd, W⟩, ⟨tl, fun _ => S₁⟩] ux :=
  ⟨h1, sgood_const _ _ _, rankineHugoniot_of_eq hh.symm _, h2, hg, rankineHugoniot_of_eq ht _, h3,
    sgood_const _ _ _⟩

theorem right_shock_half {S₂ R : State} {ux V b : ℝ} (h1 : ux ≤ V) (hrh : RankineHugoniot S₂ R V)
    (h2 : V ≤ b) : SValid ux (fun _ => S₂) [⟨V, fun _ => R⟩] b :=
  ⟨h1, sgood_const _ _ _, hrh, h2, sgood_const _ _ _⟩

theorem right_fan_half {S₂ R : State} {W : ℝ → State} {ux tl hd b : ℝ} (h1 : ux ≤ tl) (h2 : tl ≤ hd)
    (hg : SGood W tl hd) (ht : W tl = S₂) (hh : W hd = R) (h3 : hd ≤ b) :
    SValid ux (fun _ => S₂) [⟨tl, W⟩, ⟨hd, fun _ => R⟩] b :=
  ⟨h1, sgood_const _ _ _, rankineHugoniot_of_eq ht.symm _, h2, hg, rankineHugoniot_of_eq hh _, h3,
    sgood_const _ _ _⟩

end

end EPV.C04
