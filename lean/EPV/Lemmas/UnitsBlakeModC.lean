/-
C08 (Blake), lemmas: dimensional analysis of `set_elastic_params`, pairs (E, K), (E, M), (ν, K), (ν, M), (K, M) — every path condition compares
like quantities (also the relative-tolerance tests), every returned modulus is a pressure, Poisson's ratio a
pure number.
-/
import EPV.Lemmas.UnitsBlake

set_option linter.all false

open EPV EPV.Gen EPV.Spec EPV.Spec.UnitsBlake

namespace EPV.UnitsBlake

section
variable (σ : Scaling) (p : BlakeModEK.P)

theorem modEK_c0 : BlakeModEK.c0 (modEKSP σ p) ↔ BlakeModEK.c0 p := by
  units_cond modEKSP

theorem modEK_c1 : BlakeModEK.c1 (modEKSP σ p) ↔ BlakeModEK.c1 p := by
  units_cond modEKSP

theorem modEK_c2 : BlakeModEK.c2 (modEKSP σ p) ↔ BlakeModEK.c2 p := by
  units_cond modEKSP

theorem modEK_c3 : BlakeModEK.c3 (modEKSP σ p) ↔ BlakeModEK.c3 p := by
  units_cond modEKSP

theorem modEK_c4 : BlakeModEK.c4 (modEKSP σ p) ↔ BlakeModEK.c4 p := by
  units_cond modEKSP

theorem modEK_c5 : BlakeModEK.c5 (modEKSP σ p) ↔ BlakeModEK.c5 p := by
  units_cond modEKSP

theorem modEK_c6 : BlakeModEK.c6 (modEKSP σ p) ↔ BlakeModEK.c6 p := by
  units_cond modEKSP

theorem modEK_L3_lame_mod : IsScaled σ Dim.pressure (BlakeModEK.L3.lame_mod (modEKSP σ p)) (BlakeModEK.L3.lame_mod p) := by
  units_leaf modEKSP

theorem modEK_L3_shear_mod : IsScaled σ Dim.pressure (BlakeModEK.L3.shear_mod (modEKSP σ p)) (BlakeModEK.L3.shear_mod p) := by
  units_leaf modEKSP

theorem modEK_L3_youngs_mod : IsScaled σ Dim.pressure (BlakeModEK.L3.youngs_mod (modEKSP σ p)) (BlakeModEK.L3.youngs_mod p) := by
  units_leaf modEKSP

theorem modEK_L3_poisson_ratio : IsScaled σ 0 (BlakeModEK.L3.poisson_ratio (modEKSP σ p)) (BlakeModEK.L3.poisson_ratio p) := by
  units_leaf modEKSP

theorem modEK_L3_bulk_mod : IsScaled σ Dim.pressure (BlakeModEK.L3.bulk_mod (modEKSP σ p)) (BlakeModEK.L3.bulk_mod p) := by
  units_leaf modEKSP

theorem modEK_L3_long_mod : IsScaled σ Dim.pressure (BlakeModEK.L3.long_mod (modEKSP σ p)) (BlakeModEK.L3.long_mod p) := by
  units_leaf modEKSP

theorem modEK_L4_lame_mod : IsScaled σ Dim.pressure (BlakeModEK.L4.lame_mod (modEKSP σ p)) (BlakeModEK.L4.lame_mod p) := by
  units_leaf modEKSP

theorem modEK_L4_shear_mod : IsScaled σ Dim.pressure (BlakeModEK.L4.shear_mod (modEKSP σ p)) (BlakeModEK.L4.shear_mod p) := by
  units_leaf modEKSP

theorem modEK_L4_youngs_mod : IsScaled σ Dim.pressure (BlakeModEK.L4.youngs_mod (modEKSP σ p)) (BlakeModEK.L4.youngs_mod p) := by
  units_leaf modEKSP

theorem modEK_L4_poisson_ratio : IsScaled σ 0 (BlakeModEK.L4.poisson_ratio (modEKSP σ p)) (BlakeModEK.L4.poisson_ratio p) := by
  units_leaf modEKSP

theorem modEK_L4_bulk_mod : IsScaled σ Dim.pressure (BlakeModEK.L4.bulk_mod (modEKSP σ p)) (BlakeModEK.L4.bulk_mod p) := by
  units_leaf modEKSP

theorem modEK_L4_long_mod : IsScaled σ Dim.pressure (BlakeModEK.L4.long_mod (modEKSP σ p)) (BlakeModEK.L4.long_mod p) := by
  units_leaf modEKSP

end

section
variable (σ : Scaling) (p : BlakeModEM.P)

theorem modEM_c0 : BlakeModEM.c0 (modEMSP σ p) ↔ BlakeModEM.c0 p := by
  units_cond modEMSP

theorem modEM_c1 : BlakeModEM.c1 (modEMSP σ p) ↔ BlakeModEM.c1 p := by
  units_cond modEMSP

theorem modEM_c2 : BlakeModEM.c2 (modEMSP σ p) ↔ BlakeModEM.c2 p := by
  units_cond modEMSP

theorem modEM_c3 : BlakeModEM.c3 (modEMSP σ p) ↔ BlakeModEM.c3 p := by
  units_cond modEMSP

theorem modEM_c4 : BlakeModEM.c4 (modEMSP σ p) ↔ BlakeModEM.c4 p := by
  units_cond modEMSP

theorem modEM_c5 : BlakeModEM.c5 (modEMSP σ p) ↔ BlakeModEM.c5 p := by
  units_cond modEMSP

theorem modEM_c6 : BlakeModEM.c6 (modEMSP σ p) ↔ BlakeModEM.c6 p := by
  units_cond modEMSP

theorem modEM_L3_lame_mod : IsScaled σ Dim.pressure (BlakeModEM.L3.lame_mod (modEMSP σ p)) (BlakeModEM.L3.lame_mod p) := by
  units_leaf modEMSP

theorem modEM_L3_shear_mod : IsScaled σ Dim.pressure (BlakeModEM.L3.shear_mod (modEMSP σ p)) (BlakeModEM.L3.shear_mod p) := by
  units_leaf modEMSP

theorem modEM_L3_youngs_mod : IsScaled σ Dim.pressure (BlakeModEM.L3.youngs_mod (modEMSP σ p)) (BlakeModEM.L3.youngs_mod p) := by
  units_leaf modEMSP

theorem modEM_L3_poisson_ratio : IsScaled σ 0 (BlakeModEM.L3.poisson_ratio (modEMSP σ p)) (BlakeModEM.L3.poisson_ratio p) := by
  units_leaf modEMSP

theorem modEM_L3_bulk_mod : IsScaled σ Dim.pressure (BlakeModEM.L3.bulk_mod (modEMSP σ p)) (BlakeModEM.L3.bulk_mod p) := by
  units_leaf modEMSP

theorem modEM_L3_long_mod : IsScaled σ Dim.pressure (BlakeModEM.L3.long_mod (modEMSP σ p)) (BlakeModEM.L3.long_mod p) := by
  units_leaf modEMSP

theorem modEM_L4_lame_mod : IsScaled σ Dim.pressure (BlakeModEM.L4.lame_mod (modEMSP σ p)) (BlakeModEM.L4.lame_mod p) := by
  units_leaf modEMSP

theorem modEM_L4_shear_mod : IsScaled σ Dim.pressure (BlakeModEM.L4.shear_mod (modEMSP σ p)) (BlakeModEM.L4.shear_mod p) := by
  units_leaf modEMSP

theorem modEM_L4_youngs_mod : IsScaled σ Dim.pressure (BlakeModEM.L4.youngs_mod (modEMSP σ p)) (BlakeModEM.L4.youngs_mod p) := by
  units_leaf modEMSP

theorem modEM_L4_poisson_ratio : IsScaled σ 0 (BlakeModEM.L4.poisson_ratio (modEMSP σ p)) (BlakeModEM.L4.poisson_ratio p) := by
  units_leaf modEMSP

theorem modEM_L4_bulk_mod : IsScaled σ Dim.pressure (BlakeModEM.L4.bulk_mod (modEMSP σ p)) (BlakeModEM.L4.bulk_mod p) := by
  units_leaf modEMSP

theorem modEM_L4_long_mod : IsScaled σ Dim.pressure (BlakeModEM.L4.long_mod (modEMSP σ p)) (BlakeModEM.L4.long_mod p) := by
  units_leaf modEMSP

end

section
variable (σ : Scaling) (p : BlakeModNuK.P)

theorem modNuK_c0 : BlakeModNuK.c0 (modNuKSP σ p) ↔ BlakeModNuK.c0 p := by
  units_cond modNuKSP

theorem modNuK_c1 : BlakeModNuK.c1 (modNuKSP σ p) ↔ BlakeModNuK.c1 p := by
  units_cond modNuKSP

theorem modNuK_c2 : BlakeModNuK.c2 (modNuKSP σ p) ↔ BlakeModNuK.c2 p := by
  units_cond modNuKSP

theorem modNuK_c3 : BlakeModNuK.c3 (modNuKSP σ p) ↔ BlakeModNuK.c3 p := by
  units_cond modNuKSP

theorem modNuK_L3_lame_mod : IsScaled σ Dim.pressure (BlakeModNuK.L3.lame_mod (modNuKSP σ p)) (BlakeModNuK.L3.lame_mod p) := by
  units_leaf modNuKSP

theorem modNuK_L3_shear_mod : IsScaled σ Dim.pressure (BlakeModNuK.L3.shear_mod (modNuKSP σ p)) (BlakeModNuK.L3.shear_mod p) := by
  units_leaf modNuKSP

theorem modNuK_L3_youngs_mod : IsScaled σ Dim.pressure (BlakeModNuK.L3.youngs_mod (modNuKSP σ p)) (BlakeModNuK.L3.youngs_mod p) := by
  units_leaf modNuKSP

theorem modNuK_L3_poisson_ratio : IsScaled σ 0 (BlakeModNuK.L3.poisson_ratio (modNuKSP σ p)) (BlakeModNuK.L3.poisson_ratio p) := by
  units_leaf modNuKSP

theorem modNuK_L3_bulk_mod : IsScaled σ Dim.pressure (BlakeModNuK.L3.bulk_mod (modNuKSP σ p)) (BlakeModNuK.L3.bulk_mod p) := by
  units_leaf modNuKSP

theorem modNuK_L3_long_mod : IsScaled σ Dim.pressure (BlakeModNuK.L3.long_mod (modNuKSP σ p)) (BlakeModNuK.L3.long_mod p) := by
  units_leaf modNuKSP

end

section
variable (σ : Scaling) (p : BlakeModNuM.P)

theorem modNuM_c0 : BlakeModNuM.c0 (modNuMSP σ p) ↔ BlakeModNuM.c0 p := by
  units_cond modNuMSP

theorem modNuM_c1 : BlakeModNuM.c1 (modNuMSP σ p) ↔ BlakeModNuM.c1 p := by
  units_cond modNuMSP

theorem modNuM_c2 : BlakeModNuM.c2 (modNuMSP σ p) ↔ BlakeModNuM.c2 p := by
  units_cond modNuMSP

theorem modNuM_c3 : BlakeModNuM.c3 (modNuMSP σ p) ↔ BlakeModNuM.c3 p := by
  units_cond modNuMSP

theorem modNuM_L3_lame_mod : IsScaled σ Dim.pressure (BlakeModNuM.L3.lame_mod (modNuMSP σ p)) (BlakeModNuM.L3.lame_mod p) := by
  units_leaf modNuMSP

theorem modNuM_L3_shear_mod : IsScaled σ Dim.pressure (BlakeModNuM.L3.shear_mod (modNuMSP σ p)) (BlakeModNuM.L3.shear_mod p) := by
  units_leaf modNuMSP

theorem modNuM_L3_youngs_mod : IsScaled σ Dim.pressure (BlakeModNuM.L3.youngs_mod (modNuMSP σ p)) (BlakeModNuM.L3.youngs_mod p) := by
  units_leaf modNuMSP

theorem modNuM_L3_poisson_ratio : IsScaled σ 0 (BlakeModNuM.L3.poisson_ratio (modNuMSP σ p)) (BlakeModNuM.L3.poisson_ratio p) := by
  units_leaf modNuMSP

theorem modNuM_L3_bulk_mod : IsScaled σ Dim.pressure (BlakeModNuM.L3.bulk_mod (modNuMSP σ p)) (BlakeModNuM.L3.bulk_mod p) := by
  units_leaf modNuMSP

theorem modNuM_L3_long_mod : IsScaled σ Dim.pressure (BlakeModNuM.L3.long_mod (modNuMSP σ p)) (BlakeModNuM.L3.long_mod p) := by
  units_leaf modNuMSP

end

section
variable (σ : Scaling) (p : BlakeModKM.P)

theorem modKM_c0 : BlakeModKM.c0 (modKMSP σ p) ↔ BlakeModKM.c0 p := by
  units_cond modKMSP

theorem modKM_c1 : BlakeModKM.c1 (modKMSP σ p) ↔ BlakeModKM.c1 p := by
  units_cond modKMSP

theorem modKM_c2 : BlakeModKM.c2 (modKMSP σ p) ↔ BlakeModKM.c2 p := by
  units_cond modKMSP

theorem modKM_c3 : BlakeModKM.c3 (modKMSP σ p) ↔ BlakeModKM.c3 p := by
  units_cond modKMSP

theorem modKM_c4 : BlakeModKM.c4 (modKMSP σ p) ↔ BlakeModKM.c4 p := by
  units_cond modKMSP

theorem modKM_L2_lame_mod : IsScaled σ Dim.pressure (BlakeModKM.L2.lame_mod (modKMSP σ p)) (BlakeModKM.L2.lame_mod p) := by
  units_leaf modKMSP

theorem modKM_L2_shear_mod : IsScaled σ Dim.pressure (BlakeModKM.L2.shear_mod (modKMSP σ p)) (BlakeModKM.L2.shear_mod p) := by
  units_leaf modKMSP

theorem modKM_L2_youngs_mod : IsScaled σ Dim.pressure (BlakeModKM.L2.youngs_mod (modKMSP σ p)) (BlakeModKM.L2.youngs_mod p) := by
  units_leaf modKMSP

theorem modKM_L2_poisson_ratio : IsScaled σ 0 (BlakeModKM.L2.poisson_ratio (modKMSP σ p)) (BlakeModKM.L2.poisson_ratio p) := by
  units_leaf modKMSP

theorem modKM_L2_bulk_mod : IsScaled σ Dim.pressure (BlakeModKM.L2.bulk_mod (modKMSP σ p)) (BlakeModKM.L2.bulk_mod p) := by
  units_leaf modKMSP

theorem modKM_L2_long_mod : IsScaled σ Dim.pressure (BlakeModKM.L2.long_mod (modKMSP σ p)) (BlakeModKM.L2.long_mod p) := by
  units_leaf modKMSP

theorem modKM_L5_lame_mod : IsScaled σ Dim.pressure (BlakeModKM.L5.lame_mod (modKMSP σ p)) (BlakeModKM.L5.lame_mod p) := by
  units_leaf modKMSP

theorem modKM_L5_shear_mod : IsScaled σ Dim.pressure (BlakeModKM.L5.shear_mod (modKMSP σ p)) (BlakeModKM.L5.shear_mod p) := by
  units_leaf modKMSP

theorem modKM_L5_youngs_mod : IsScaled σ Dim.pressure (BlakeModKM.L5.youngs_mod (modKMSP σ p)) (BlakeModKM.L5.youngs_mod p) := by
  units_leaf modKMSP

theorem modKM_L5_poisson_ratio : IsScaled σ 0 (BlakeModKM.L5.poisson_ratio (modKMSP σ p)) (BlakeModKM.L5.poisson_ratio p) := by
  units_leaf modKMSP

theorem modKM_L5_bulk_mod : IsScaled σ Dim.pressure (BlakeModKM.L5.bulk_mod (modKMSP σ p)) (BlakeModKM.L5.bulk_mod p) := by
  units_leaf modKMSP

theorem modKM_L5_long_mod : IsScaled σ Dim.pressure (BlakeModKM.L5.long_mod (modKMSP σ p)) (BlakeModKM.L5.long_mod p) := by
  units_leaf modKMSP

end

end EPV.UnitsBlake
