/-
Sedov: the fields `_run` returns behind the shock, written on the generated model SedovShock
(sedov.py:185-242: shock radius, shock speed, post-shock state), the documented admissible
parameter domain, and the elementary facts every Sedov theorem uses (C02, C03, C08, C10, C11, C17).
-/
import EPV.Gen.SedovShock
import EPV.Lemmas.Sedov
import EPV.Tactics
import EPV.Lemmas.Bridge.SemiTac

set_option linter.all false

open EPV EPV.Gen EPV.Lemmas.Sedov

namespace EPV.Sedov

noncomputable section

/-- the fields `_run` returns behind the shock at time t for similarity functions f, g, h of
λ = r / r2(t)  (`physical`: density = rho2·g, velocity = u2·f, pressure = p2·h; generated models
SedovPhysical, SedovRunSing/Std/Vac) -/
def density (p : SedovShock.P) (g : ℝ → ℝ) (t r : ℝ) : ℝ := SedovShock.rho2 p t * g (r / SedovShock.r2 p t)
def velocity (p : SedovShock.P) (f : ℝ → ℝ) (t r : ℝ) : ℝ := SedovShock.u2 p t * f (r / SedovShock.r2 p t)
def pressure (p : SedovShock.P) (h : ℝ → ℝ) (t r : ℝ) : ℝ := SedovShock.p2 p t * h (r / SedovShock.r2 p t)

/-- the generated model has the leaves the theorems cover: NaN for t ≤ 0, one ok leaf -/
theorem shock_leaves : SedovShock.okLeaves = [1] ∧ SedovShock.nLeaves = 2 := ⟨rfl, rfl⟩

/-- admissible Sedov problem (documented restrictions: geometry 1, 2 or 3, γ > 1, ρ₀ > 0, E > 0,
0 ≤ ω < geometry) with a positive energy integral α -/
structure Admissible (p : SedovShock.P) (k : ℕ) : Prop where
  hk : k = 1 ∨ k = 2 ∨ k = 3
  geo : p.geometry = k
  gamma : 1 < p.gamma
  rho0 : 0 < p.rho0
  eblast : 0 < p.eblast
  omega0 : 0 ≤ p.omega
  omegak : p.omega < k
  alpha : 0 < p.alpha

/-- non-vacuity: the default spherical problem (γ = 7/5, ρ₀ = 1, ω = 0, E = 0.851072 = α) -/
example : Admissible ⟨851072/1000000, 851072/1000000, 7/5, 3, 0, 1⟩ 3 :=
  ⟨Or.inr (Or.inr rfl), by norm_num, by norm_num, by norm_num, by norm_num, by norm_num, by norm_num, by norm_num⟩

theorem Admissible.xg2_pos {p : SedovShock.P} {k : ℕ} (A : Admissible p k) :
    0 < p.geometry + 2 - p.omega := by
  have := A.omegak; have := A.geo; linarith

theorem Admissible.a_pos {p : SedovShock.P} {k : ℕ} (A : Admissible p k) :
    0 < p.eblast / (p.alpha * p.rho0) := div_pos A.eblast (mul_pos A.alpha A.rho0)

theorem Admissible.gm1 {p : SedovShock.P} {k : ℕ} (A : Admissible p k) : p.gamma - 1 ≠ 0 := by
  have := A.gamma; linarith
theorem Admissible.gp1 {p : SedovShock.P} {k : ℕ} (A : Admissible p k) : p.gamma + 1 ≠ 0 := by
  have := A.gamma; linarith

/-! the shock state for t > 0, each quantity in terms of the shock radius (tree level).
These are the *bridge lemmas* of SedovShock (GUIDE §8): the only place that sees the shape of the
generated terms; `epv_semi_tree` compares up to ring normalisation at every level. -/

theorem r2_eq (p : SedovShock.P) {t : ℝ} (ht : 0 < t) :
    SedovShock.r2 p t = (p.eblast / (p.alpha * p.rho0)) ^ (1 / (p.geometry + 2 - p.omega))
      * t ^ (2 / (p.geometry + 2 - p.omega)) := by
  epv_semi_tree
theorem rho1_eq (p : SedovShock.P) {t : ℝ} (ht : 0 < t) :
    SedovShock.rho1 p t = p.rho0 * SedovShock.r2 p t ^ (-p.omega) := by
  epv_semi_tree
theorem us_eq (p : SedovShock.P) {t : ℝ} (ht : 0 < t) :
    SedovShock.us p t = 2 / (p.geometry + 2 - p.omega) * SedovShock.r2 p t / t := by
  epv_semi_tree
theorem u2_eq (p : SedovShock.P) {t : ℝ} (ht : 0 < t) :
    SedovShock.u2 p t = 2 * SedovShock.us p t / (p.gamma + 1) := by
  epv_semi_tree
theorem rho2_eq (p : SedovShock.P) {t : ℝ} (ht : 0 < t) :
    SedovShock.rho2 p t = (p.gamma + 1) / (p.gamma - 1) * SedovShock.rho1 p t := by
  epv_semi_tree
theorem p2_eq (p : SedovShock.P) {t : ℝ} (ht : 0 < t) :
    SedovShock.p2 p t = 2 * SedovShock.rho1 p t * SedovShock.us p t ^ 2 / (p.gamma + 1) := by
  epv_semi_tree
theorem u1_eq (p : SedovShock.P) {t : ℝ} (ht : 0 < t) : SedovShock.u1 p t = 0 := by
  epv_semi_tree
theorem p1_eq (p : SedovShock.P) {t : ℝ} (ht : 0 < t) : SedovShock.p1 p t = 0 := by
  epv_semi_tree

theorem r2_pos {p : SedovShock.P} {k : ℕ} (A : Admissible p k) {t : ℝ} (ht : 0 < t) :
    0 < SedovShock.r2 p t := by
  rw [r2_eq p ht]
  exact EPV.Lemmas.Sedov.r2_pos _ _ _ A.a_pos ht

/-- the scaling law: r2(t)^(k+2-ω) = E t² / (α ρ₀) -/
theorem r2_rpow_xg2 {p : SedovShock.P} {k : ℕ} (A : Admissible p k) {t : ℝ} (ht : 0 < t) :
    SedovShock.r2 p t ^ (p.geometry + 2 - p.omega) = p.eblast / (p.alpha * p.rho0) * t ^ 2 := by
  rw [r2_eq p ht]
  exact r2_rpow _ _ _ A.a_pos ht A.xg2_pos.ne'

end

end EPV.Sedov
