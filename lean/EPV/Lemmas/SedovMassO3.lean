/-
Sedov (C11 growth): the mass integral for special_singularity omega3 (generated model SedovFuncsO3,
leaf 1), at the exactly special ω = k(2-γ) — always the standard solution type.  Same argument as
`Lemmas/SedovMassStd.lean` with the exponents and the exponential factor of the omega3 closed form:
M(v) = λ^k g (1 - X v/2) is an exact differential of the mass ODE, continuous on the closed branch
[v0, v2] with M(v0) = 0 (λ^k g ~ x2^(γ(k-ω)/denom2), positive exponent), M(v2) = (γ-1)/(γ+1).
-/
import EPV.Lemmas.SedovODEO3
import EPV.Lemmas.SedovMassStd

set_option linter.all false
set_option maxRecDepth 100000

open EPV EPV.Gen EPV.Spec.SedovODE MeasureTheory Set

namespace EPV.Sedov.Mass

noncomputable section

/-- M(v) = λ(v)^k g(v) (1 - X v/2), omega3 closed forms -/
def M3 (p : SedovFuncsO3.P) (X : ℝ) (kn : ℕ) (v : ℝ) : ℝ :=
  SedovFuncsO3.L1.l_fun p v ^ kn * SedovFuncsO3.L1.g_fun p v * (1 - X / 2 * v)

/-- the mass ODE is an exact differential (omega3) -/
theorem M3_hasDerivAt {p : SedovFuncsO3.P} {γ k ω v : ℝ} (hC : O3Consts p γ k ω) (S : O2.Signs γ k ω v)
    (hω3 : K.denom3 γ k ω = 0) (kn : ℕ) (hkn : (kn : ℝ) = k) (h1 : 1 ≤ kn) :
    HasDerivAt (M3 p (k + 2 - ω) kn)
      ((k - ω) * (SedovFuncsO3.L1.g_fun p v * SedovFuncsO3.L1.l_fun p v ^ (kn - 1)) * SedovFuncsO3.L1.l_fun_dv p v) v := by
  have B := O3.bases hC S
  obtain ⟨dL, -, dG, -⟩ := O3.hasDerivAt p v B
  have dA : HasDerivAt (fun v : ℝ => 1 - (k + 2 - ω) / 2 * v) (-((k + 2 - ω) / 2)) v := by
    have := ((hasDerivAt_id v).const_mul ((k + 2 - ω) / 2)).const_sub 1
    simpa using this
  have hprod := ((dL.pow kn).mul dG).mul dA
  have hm := O3.mass_ode hC S hω3
  have hLpos := O3.l_pos p v B
  have hv := S.hv
  have hγ := S.hγ
  have hF : SedovFuncsO3.L1.f_fun p v = p.a_val * v * SedovFuncsO3.L1.l_fun p v := by simp only [epv_semi_leaf]
  have hFd : SedovFuncsO3.L1.f_fun_dv p v = p.a_val * SedovFuncsO3.L1.l_fun p v + p.a_val * v * SedovFuncsO3.L1.l_fun_dv p v := by
    rw [O3.f_dv p v B, O3.l_dv p v B]; field_simp
  have hav : p.a_val = 1 / 4 * (k + 2 - ω) * (γ + 1) := hC.a_val
  obtain ⟨j, rfl⟩ : ∃ j, kn = j + 1 := ⟨kn - 1, by omega⟩
  unfold massODEv at hm
  rw [hF, hFd, hav] at hm
  refine hprod.congr_deriv ?_
  simp only [Pi.mul_apply, Pi.pow_apply, Nat.add_sub_cancel, Nat.cast_add, Nat.cast_one]
  have hk : (j : ℝ) + 1 = k := by rw [← hkn]; push_cast; ring
  generalize SedovFuncsO3.L1.l_fun p v = L at *
  generalize SedovFuncsO3.L1.g_fun p v = G at *
  generalize SedovFuncsO3.L1.l_fun_dv p v = Ld at *
  generalize SedovFuncsO3.L1.g_fun_dv p v = Gd at *
  have hL0 := hLpos.ne'
  have hg1 : γ + 1 ≠ 0 := by linarith
  field_simp at hm
  rw [← hk]
  rw [← hk] at hm
  linear_combination (-(L ^ j) / 4) * hm

/-- the omega3 exponent is of standard type: v2 < vstar -/
theorem o3_is_standard {γ k ω : ℝ} (P : Params γ k ω) (hω3 : K.denom3 γ k ω = 0) : v2 γ k ω < vstar γ k := by
  unfold K.denom3 at hω3
  have hω : ω = k * (2 - γ) := by linarith
  have hE := P.E_pos
  have hE' : 0 < (γ - 1) * k + 2 := by nlinarith [P.hk, P.hγ]
  have hX : k + 2 - ω = 2 + k * (γ - 1) := by rw [hω]; ring
  unfold v2 vstar
  rw [hX, div_lt_div_iff₀ (mul_pos hE (by linarith [P.hγ])) hE']
  nlinarith [P.hγ, P.hk, mul_pos P.hk (by linarith [P.hγ] : 0 < γ - 1)]

/-- the power bases on the closed branch (omega3): x2 may vanish at v0 -/
structure ClosedBases3 (p : SedovFuncsO3.P) (v : ℝ) : Prop where
  x1 : 0 < p.a_val * v
  x2 : 0 ≤ p.b_val * (p.c_val * v - 1)
  x4 : 0 < p.b_val * (1 - 1 / 2 * p.xg2 * v)
  y : 1 / 2 * p.gamp1 - p.a_val * v ≠ 0

theorem closedBases3 {p : SedovFuncsO3.P} {γ k ω v : ℝ} (hC : O3Consts p γ k ω) (S : StdClosedSigns γ k ω v) :
    ClosedBases3 p v := by
  obtain ⟨hγ, hX, hE, hv, h2, h3, h4, hd⟩ := S
  have hb : 0 < (γ + 1) / (γ - 1) := div_pos (by linarith) (by linarith)
  refine ⟨?_, ?_, ?_, ?_⟩
  · rw [hC.a_val]; unfold K.a_val
    exact mul_pos (mul_pos (mul_pos (by norm_num) hX) (by linarith)) hv
  · rw [hC.b_val, hC.c_val]; unfold K.b_val K.c_val
    exact mul_nonneg hb.le h2
  · rw [hC.b_val, hC.xg2]; unfold K.b_val
    exact mul_pos hb (by linarith)
  · rw [hC.a_val, hC.gamp1]; unfold K.a_val
    have e : 1 / 2 * (γ + 1) - 1 / 4 * (k + 2 - ω) * (γ + 1) * v = (γ + 1) / 4 * (2 - (k + 2 - ω) * v) := by ring
    rw [e]
    exact (mul_pos (by linarith) h4).ne'

theorem neg_a2_pos3 {p : SedovFuncsO3.P} {γ k ω : ℝ} (hC : O3Consts p γ k ω) (hγ : 1 < γ) (hd2 : 0 < K.denom2 γ k ω) :
    0 < -p.a2 := by
  rw [hC.a2]; unfold K.a2; unfold K.denom2 at hd2
  rw [neg_div, neg_neg]
  exact div_pos (by linarith) hd2

theorem e2_pos3 {p : SedovFuncsO3.P} {γ k ω : ℝ} (hC : O3Consts p γ k ω) (P : Params γ k ω) (hd2 : 0 < K.denom2 γ k ω)
    (kn : ℕ) (hkn : (kn : ℝ) = k) : 0 < p.a3 + p.omega * p.a2 + (-p.a2) * kn := by
  rw [hC.a3, hC.a2, hC.omega, hkn]; unfold K.a3 K.a2; unfold K.denom2 at hd2
  have e : (k - ω) / (2 * (γ - 1) + k - γ * ω) + ω * (-(γ - 1) / (2 * (γ - 1) + k - γ * ω))
      + -(-(γ - 1) / (2 * (γ - 1) + k - γ * ω)) * k = γ * (k - ω) / (2 * (γ - 1) + k - γ * ω) := by
    field_simp; ring
  rw [e]
  exact div_pos (mul_pos P.γ_pos (by linarith [P.hωk])) hd2

theorem l_continuousOn3 {p : SedovFuncsO3.P} (s : Set ℝ) (hs : ∀ v ∈ s, ClosedBases3 p v) (ha2 : 0 < -p.a2) :
    ContinuousOn (SedovFuncsO3.L1.l_fun p) s := by
  rw [(funext (EPV.Bridge.Semi.SedovFuncsO3_L1_l_fun p) : SedovFuncsO3.L1.l_fun p = _)]
  refine (ContinuousOn.mul (ContinuousOn.rpow_const (by fun_prop) ?_) (ContinuousOn.rpow_const (by fun_prop) ?_)).mul
    (ContinuousOn.rpow_const (by fun_prop) ?_)
  · intro v hv; exact Or.inl (hs v hv).x1.ne'
  · intro v hv; exact Or.inr ha2.le
  · intro v hv; exact Or.inl (hs v hv).x4.ne'

/-- the combined form of M3: one power per base -/
def Mc3 (p : SedovFuncsO3.P) (X : ℝ) (kn : ℕ) (v : ℝ) : ℝ :=
  (p.a_val * v) ^ (p.a0 * p.omega + (-p.a0) * kn) * (p.b_val * (p.c_val * v - 1)) ^ (p.a3 + p.omega * p.a2 + (-p.a2) * kn)
    * (p.b_val * (1 - 1 / 2 * p.xg2 * v)) ^ (1 - 4 * (1 / (2 * p.e_val)) + (-p.a1) * kn)
    * Real.exp (-p.geometry * p.gamma * p.gamp1 * (1 / (2 * p.e_val)) * (1 - p.a_val * v) / (1 / 2 * p.gamp1 - p.a_val * v))
    * (1 - X / 2 * v)

theorem M3_eq_Mc3 {p : SedovFuncsO3.P} {v : ℝ} (B : ClosedBases3 p v) (X : ℝ) (kn : ℕ) (h1 : 1 ≤ kn) (ha2 : 0 < -p.a2)
    (he2 : 0 < p.a3 + p.omega * p.a2 + (-p.a2) * kn) : M3 p X kn v = Mc3 p X kn v := by
  unfold M3 Mc3
  simp only [epv_semi_leaf]
  rw [mul_pow, mul_pow]
  have E1 := Std.rpow_combine B.x1 (p.a0 * p.omega) (-p.a0) _ kn rfl
  have E2 := rpow_combine0 B.x2 (p.a3 + p.omega * p.a2) (-p.a2) kn ha2.ne' h1 he2.ne'
  have E4 := Std.rpow_combine B.x4 (1 - 4 * (1 / (2 * p.e_val))) (-p.a1) _ kn rfl
  rw [← E1, ← E2, ← E4]
  ring

theorem Mc3_continuousOn {p : SedovFuncsO3.P} (X : ℝ) (kn : ℕ) (s : Set ℝ) (hs : ∀ v ∈ s, ClosedBases3 p v)
    (he2 : 0 < p.a3 + p.omega * p.a2 + (-p.a2) * kn) : ContinuousOn (Mc3 p X kn) s := by
  unfold Mc3
  refine ((((ContinuousOn.rpow_const (by fun_prop) ?_).mul (ContinuousOn.rpow_const (by fun_prop) ?_)).mul
    (ContinuousOn.rpow_const (by fun_prop) ?_)).mul (Real.continuous_exp.comp_continuousOn
      (ContinuousOn.div (by fun_prop) (by fun_prop) ?_))).mul (by fun_prop)
  · intro v hv; exact Or.inl (hs v hv).x1.ne'
  · intro v hv; exact Or.inr he2.le
  · intro v hv; exact Or.inl (hs v hv).x4.ne'
  · intro v hv; exact (hs v hv).y

theorem l_at_v0_3 {p : SedovFuncsO3.P} {γ k ω : ℝ} (hC : O3Consts p γ k ω) (P : Params γ k ω) (ha2 : 0 < -p.a2) :
    SedovFuncsO3.L1.l_fun p (v0 γ k ω) = 0 := by
  have hx : p.c_val * v0 γ k ω - 1 = 0 := by
    rw [hC.c_val]; unfold K.c_val v0
    have := P.X_pos.ne'; have := P.γ_pos.ne'
    field_simp; ring
  simp only [epv_semi_leaf, hx, mul_zero, Real.zero_rpow ha2.ne', zero_mul]

theorem at_v2_3 {p : SedovFuncsO3.P} {γ k ω : ℝ} (hC : O3Consts p γ k ω) (P : Params γ k ω) :
    SedovFuncsO3.L1.l_fun p (v2 γ k ω) = 1 ∧ SedovFuncsO3.L1.g_fun p (v2 γ k ω) = 1 := by
  have hX := P.X_pos.ne'; have hγ := P.hγ
  have hg1 : γ + 1 ≠ 0 := by linarith
  have hg2 : γ - 1 ≠ 0 := by linarith
  have h1 : p.a_val * v2 γ k ω = 1 := by
    rw [hC.a_val]; unfold K.a_val v2; field_simp
  have h2 : p.b_val * (p.c_val * v2 γ k ω - 1) = 1 := by
    rw [hC.b_val, hC.c_val]; unfold K.b_val K.c_val v2; field_simp; ring
  have h4 : p.b_val * (1 - 1 / 2 * p.xg2 * v2 γ k ω) = 1 := by
    rw [hC.b_val, hC.xg2]; unfold K.b_val v2; field_simp; ring
  simp only [epv_semi_leaf, h1, h2, h4, Real.one_rpow, mul_one, sub_self, mul_zero, zero_div, Real.exp_zero, and_self]

/-- **The mass integral, special_singularity omega3** (exactly special ω = k(2-γ); standard type):
for ANY g with g(λ(v)) = G(v) on v0 < v < v2, ∫₀¹ g x^(k-1) dx = (γ-1)/((γ+1)(k-ω)). -/
theorem mass_integral_o3 {p : SedovFuncsO3.P} {γ ω : ℝ} (kn : ℕ) (h1 : 1 ≤ kn) (hC : O3Consts p γ kn ω)
    (P : Params γ kn ω) (hω3 : K.denom3 γ kn ω = 0) (g : ℝ → ℝ)
    (hg : ∀ v ∈ Ioo (v0 γ kn ω) (v2 γ kn ω), g (SedovFuncsO3.L1.l_fun p v) = SedovFuncsO3.L1.g_fun p v) :
    ∫ x in (0:ℝ)..1, g x * x ^ (kn - 1) = (γ - 1) / ((γ + 1) * ((kn : ℝ) - ω)) := by
  set k : ℝ := (kn : ℝ) with hk
  have htype := o3_is_standard P hω3
  have hX := P.X_pos; have hγ := P.hγ
  have hγ0 := P.γ_pos
  have hab : v0 γ k ω < v2 γ k ω := by
    unfold v0 v2
    rw [div_lt_div_iff₀ (mul_pos hX hγ0) (mul_pos hX (by linarith))]
    nlinarith
  have hcl : ∀ v ∈ Icc (v0 γ k ω) (v2 γ k ω), StdClosed γ k ω v := fun v hv => ⟨P, htype, hv.1, hv.2⟩
  have hS0 := (hcl _ (left_mem_Icc.mpr hab.le)).signs
  have hd2pos := denom2_pos hS0 P.hk
  have ha2 := neg_a2_pos3 hC hγ hd2pos
  have he2 := e2_pos3 hC P hd2pos kn rfl
  have hCB : ∀ v ∈ Icc (v0 γ k ω) (v2 γ k ω), ClosedBases3 p v := fun v hv => closedBases3 hC (hcl v hv).signs
  have hint : ∀ v ∈ Ioo (v0 γ k ω) (v2 γ k ω), O2.Signs γ k ω v := fun v hv =>
    (StdInterior.toSigns ⟨P, htype, hv.1, hv.2⟩).toO2
  have hkω : 0 < k - ω := by linarith [P.hωk]
  have key := integral_param_mono hab (L := SedovFuncsO3.L1.l_fun p) (L' := SedovFuncsO3.L1.l_fun_dv p)
    (W := fun v => (k - ω) * (SedovFuncsO3.L1.g_fun p v * SedovFuncsO3.L1.l_fun p v ^ (kn - 1)))
    (M := M3 p (k + 2 - ω) kn) (φ := fun x => (k - ω) * (g x * x ^ (kn - 1)))
    (l_continuousOn3 _ hCB ha2)
    (fun v hv => (O3.hasDerivAt p v (O3.bases hC (hint v hv))).1)
    (fun v hv => O3.l_dv_pos hC (hint v hv) hω3)
    ((Mc3_continuousOn (k + 2 - ω) kn _ hCB he2).congr (fun v hv => M3_eq_Mc3 (hCB v hv) _ kn h1 ha2 he2))
    (fun v hv => M3_hasDerivAt hC (hint v hv) hω3 kn rfl h1)
    (fun v hv => by
      have B := O3.bases hC (hint v hv)
      exact mul_nonneg hkω.le (mul_nonneg (O3.g_pos p v B).le (pow_nonneg (O3.l_pos p v B).le _)))
    (fun v hv => by beta_reduce; rw [hg v hv])
  rw [l_at_v0_3 hC P ha2, (at_v2_3 hC P).1] at key
  have hM0 : M3 p (k + 2 - ω) kn (v0 γ k ω) = 0 := by
    unfold M3; rw [l_at_v0_3 hC P ha2, zero_pow (by omega), zero_mul, zero_mul]
  have hM2 : M3 p (k + 2 - ω) kn (v2 γ k ω) = (γ - 1) / (γ + 1) := by
    unfold M3; rw [(at_v2_3 hC P).1, (at_v2_3 hC P).2, one_pow, one_mul, one_mul]
    unfold v2
    have : γ + 1 ≠ 0 := by linarith
    field_simp; ring
  rw [hM0, hM2, sub_zero, intervalIntegral.integral_const_mul] at key
  have hg1 : γ + 1 ≠ 0 := by linarith
  field_simp
  field_simp at key
  linarith

end

end EPV.Sedov.Mass
