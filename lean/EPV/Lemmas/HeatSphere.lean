/-
Lemmas for Hutchens 1 (sphere): the radial mode  sin(c r)/r · e^{-a c² t}, its derivatives for r ≠ 0,
its limit c as r → 0, and the real-number form of the hand model's `h1Series`.
-/
import EPV.Spec.Heat
import EPV.Gen.Hutchens1N3
import EPV.Tactics
import EPV.Lemmas.Bridge.HeatTac

set_option linter.all false

open EPV EPV.Gen EPV.Spec.Heat EPV.Model.HeatSeries Finset Filter Topology

namespace EPV.Lemmas.Heat

noncomputable section

/-- radial profile of one mode -/
def sph (c r : ℝ) : ℝ := Real.sin (c * r) / r
/-- its first derivative (r ≠ 0) -/
def sphR (c r : ℝ) : ℝ := (c * Real.cos (c * r) * r - Real.sin (c * r)) / r ^ 2
/-- its second derivative (r ≠ 0) -/
def sphRR (c r : ℝ) : ℝ :=
  ((-(c * c) * Real.sin (c * r) * r) * r ^ 2 - (c * Real.cos (c * r) * r - Real.sin (c * r)) * (2 * r)) / (r ^ 2) ^ 2

theorem sph_hasDerivAt (c r : ℝ) (hr : r ≠ 0) : HasDerivAt (sph c) (sphR c r) r := by
  have h1 : HasDerivAt (fun y : ℝ => c * y) c r := by simpa using (hasDerivAt_id r).const_mul c
  have := h1.sin.div (hasDerivAt_id r) hr
  refine this.congr_deriv ?_
  simp only [sphR, id]
  ring

theorem sphR_hasDerivAt (c r : ℝ) (hr : r ≠ 0) : HasDerivAt (sphR c) (sphRR c r) r := by
  have h1 : HasDerivAt (fun y : ℝ => c * y) c r := by simpa using (hasDerivAt_id r).const_mul c
  have hnum : HasDerivAt (fun y : ℝ => c * Real.cos (c * y) * y - Real.sin (c * y)) (-(c * c) * Real.sin (c * r) * r) r := by
    have := ((h1.cos.const_mul c).mul (hasDerivAt_id r)).sub h1.sin
    refine this.congr_deriv ?_
    simp only [id]
    ring
  have hden : HasDerivAt (fun y : ℝ => y ^ 2) (2 * r) r := by simpa using hasDerivAt_pow 2 r
  have := hnum.div hden (pow_ne_zero 2 hr)
  exact this

/-- the radial operator on one mode: `f'' + (2/r) f' = -c² f` -/
theorem sph_operator (c r : ℝ) (hr : r ≠ 0) : sphRR c r + 2 / r * sphR c r = -(c * c) * sph c r := by
  unfold sphRR sphR sph
  field_simp
  ring

/-- `sin(c r)/r → c` as `r → 0`, `r ≠ 0` -/
theorem sph_tendsto_zero (c : ℝ) : Tendsto (sph c) (𝓝[≠] 0) (𝓝 c) := by
  have h1 : HasDerivAt (fun y : ℝ => Real.sin (c * y)) (Real.cos (c * 0) * c) 0 := by
    have h0 : HasDerivAt (fun y : ℝ => c * y) c 0 := by simpa using (hasDerivAt_id (0:ℝ)).const_mul c
    exact h0.sin
  have h2 := hasDerivAt_iff_tendsto_slope.mp h1
  simp only [mul_zero, Real.cos_zero, one_mul] at h2
  refine h2.congr' ?_
  filter_upwards [self_mem_nhdsWithin] with r hr
  simp [slope, sph, div_eq_inv_mul]

/-! ### the hand model over ℝ -/

/-- amplitude of mode n: `(-1)^n / n · 2b/π` -/
def h1K (b : ℝ) (n : ℕ) : ℝ := (-1) ^ n / n * (2 * b / Real.pi)
/-- radial wave number of mode n: `π n / b` -/
def h1c (b : ℝ) (n : ℕ) : ℝ := Real.pi * n / b

theorem h1Term_real (a b r t : ℝ) (n : ℕ) :
    h1Term a b r t n = h1K b n * sph (h1c b n) r * Real.exp (-a * (h1c b n * h1c b n) * t) := by
  unfold h1Term
  heat_ops
  rw [negOnePow_real]
  unfold h1K h1c sph
  push_cast
  ring

/-- Mathlib form of the r ≠ 0 formula -/
def h1ser (N : ℕ) (a b Tb T0 r t : ℝ) : ℝ :=
  Tb + (Tb - T0) * ∑ m ∈ range (N - 1), h1K b (m + 1) * sph (h1c b (m + 1)) r * Real.exp (-a * (h1c b (m + 1) * h1c b (m + 1)) * t)

theorem h1Series_eq (N : ℕ) (a b Tb T0 : ℝ) : h1Series N a b Tb T0 = h1ser N a b Tb T0 := by
  funext r t
  unfold h1Series h1ser
  heat_ops
  rw [sumTo_real]
  simp only [h1Term_real]

theorem h1AtZero_real (Tb T0 : ℝ) : h1AtZero Tb T0 = T0 := by
  unfold h1AtZero
  heat_ops
  push_cast
  ring

theorem h1c_ne_zero (b : ℝ) (hb : b ≠ 0) (n : ℕ) (hn : n ≠ 0) : h1c b n ≠ 0 := by
  unfold h1c
  have := Real.pi_ne_zero
  have : (n : ℝ) ≠ 0 := by exact_mod_cast hn
  positivity

/-- r-derivative of the series -/
def h1serR (N : ℕ) (a b Tb T0 r t : ℝ) : ℝ :=
  (Tb - T0) * ∑ m ∈ range (N - 1), h1K b (m + 1) * sphR (h1c b (m + 1)) r * Real.exp (-a * (h1c b (m + 1) * h1c b (m + 1)) * t)

theorem h1ser_hasDerivAt_r (N : ℕ) (a b Tb T0 r t : ℝ) (hr : r ≠ 0) :
    HasDerivAt (fun y => h1ser N a b Tb T0 y t) (h1serR N a b Tb T0 r t) r := by
  unfold h1ser h1serR
  refine HasDerivAt.const_add Tb (HasDerivAt.const_mul (Tb - T0) ?_)
  refine HasDerivAt.fun_sum fun m _ => ?_
  exact ((sph_hasDerivAt (h1c b (m + 1)) r hr).const_mul (h1K b (m + 1))).mul_const _

theorem h1serR_hasDerivAt_r (N : ℕ) (a b Tb T0 r t : ℝ) (hr : r ≠ 0) :
    HasDerivAt (fun y => h1serR N a b Tb T0 y t)
      ((Tb - T0) * ∑ m ∈ range (N - 1), h1K b (m + 1) * sphRR (h1c b (m + 1)) r * Real.exp (-a * (h1c b (m + 1) * h1c b (m + 1)) * t)) r := by
  unfold h1serR
  refine HasDerivAt.const_mul (Tb - T0) ?_
  refine HasDerivAt.fun_sum fun m _ => ?_
  exact ((sphR_hasDerivAt (h1c b (m + 1)) r hr).const_mul (h1K b (m + 1))).mul_const _

theorem h1ser_hasDerivAt_t (N : ℕ) (a b Tb T0 r t : ℝ) :
    HasDerivAt (fun s => h1ser N a b Tb T0 r s)
      ((Tb - T0) * ∑ m ∈ range (N - 1), -a * (h1c b (m + 1) * h1c b (m + 1)) *
        (h1K b (m + 1) * sph (h1c b (m + 1)) r * Real.exp (-a * (h1c b (m + 1) * h1c b (m + 1)) * t))) t := by
  unfold h1ser
  refine HasDerivAt.const_add Tb (HasDerivAt.const_mul (Tb - T0) ?_)
  refine HasDerivAt.fun_sum fun m _ => ?_
  have h1 : HasDerivAt (fun s : ℝ => -a * (h1c b (m + 1) * h1c b (m + 1)) * s) (-a * (h1c b (m + 1) * h1c b (m + 1))) t := by
    simpa using (hasDerivAt_id t).const_mul (-a * (h1c b (m + 1) * h1c b (m + 1)))
  have := h1.exp.const_mul (h1K b (m + 1) * sph (h1c b (m + 1)) r)
  refine this.congr_deriv ?_
  ring

/-- radial heat equation for the r ≠ 0 formula, every N -/
theorem h1_heat_eq (N : ℕ) (a b Tb T0 r t : ℝ) (hr : r ≠ 0) :
    HeatEqSphere a (h1Series N a b Tb T0) r t := by
  rw [h1Series_eq]
  unfold HeatEqSphere dt dxx
  have hx : (fun y => dx (h1ser N a b Tb T0) y t) =ᶠ[𝓝 r] fun y => h1serR N a b Tb T0 y t := by
    filter_upwards [isOpen_ne.mem_nhds hr] with y hy
    exact (h1ser_hasDerivAt_r N a b Tb T0 y t hy).deriv
  rw [hx.deriv_eq, (h1serR_hasDerivAt_r N a b Tb T0 r t hr).deriv, (h1ser_hasDerivAt_t N a b Tb T0 r t).deriv]
  have hdx : dx (h1ser N a b Tb T0) r t = h1serR N a b Tb T0 r t := (h1ser_hasDerivAt_r N a b Tb T0 r t hr).deriv
  rw [hdx]
  unfold h1serR
  simp only [mul_add, Finset.mul_sum]
  rw [← Finset.sum_add_distrib]
  refine Finset.sum_congr rfl fun m _ => ?_
  have := sph_operator (h1c b (m + 1)) r hr
  linear_combination (-(Tb - T0) * a * h1K b (m + 1) * Real.exp (-a * (h1c b (m + 1) * h1c b (m + 1)) * t)) * this

/-- the limit of the r ≠ 0 formula at the coordinate singularity -/
def h1Centre (N : ℕ) (a b Tb T0 t : ℝ) : ℝ :=
  Tb + (Tb - T0) * ∑ m ∈ range (N - 1), h1K b (m + 1) * h1c b (m + 1) * Real.exp (-a * (h1c b (m + 1) * h1c b (m + 1)) * t)

/-- the r ≠ 0 formula has a limit at the centre, for every N and t -/
theorem h1_centre_limit (N : ℕ) (a b Tb T0 t : ℝ) :
    Tendsto (fun r => h1Series N a b Tb T0 r t) (𝓝[≠] 0) (𝓝 (h1Centre N a b Tb T0 t)) := by
  rw [h1Series_eq]
  unfold h1ser h1Centre
  refine Tendsto.const_add Tb (Tendsto.const_mul (Tb - T0) ?_)
  refine tendsto_finset_sum _ fun m _ => ?_
  exact ((sph_tendsto_zero (h1c b (m + 1))).const_mul (h1K b (m + 1))).mul_const _

/-- the centre value in closed form: `Tb + 2 (Tb - T0) Σ_{n=1}^{N-1} (-1)^n e^{-a (nπ/b)² t}`  (b ≠ 0) -/
theorem h1Centre_eq (N : ℕ) (a b Tb T0 t : ℝ) (hb : b ≠ 0) :
    h1Centre N a b Tb T0 t
      = Tb + 2 * (Tb - T0) * ∑ m ∈ range (N - 1), (-1) ^ (m + 1) * Real.exp (-a * (h1c b (m + 1) * h1c b (m + 1)) * t) := by
  unfold h1Centre
  rw [mul_assoc 2, Finset.mul_sum, Finset.mul_sum, Finset.mul_sum]
  congr 1
  refine Finset.sum_congr rfl fun m _ => ?_
  unfold h1K h1c
  have : ((m + 1 : ℕ) : ℝ) ≠ 0 := by exact_mod_cast Nat.succ_ne_zero m
  have := Real.pi_ne_zero
  field_simp

/-- the traced `Hutchens1._run` (Nsum = 3) is the hand model -/
theorem h1N3_eq (p : Hutchens1N3.P) (r t : ℝ) :
    Hutchens1N3.temperature p r t
      = if r = 0 then h1AtZero p.Tb p.T0 else h1Series 3 (p.k / (p.rho * p.cp)) p.b p.Tb p.T0 r t := by
  rw [h1Series_eq, h1AtZero_real]
  -- no leaf numbers: the traced test is decided from `hr` in whichever form the Python writes it
  -- (`r != 0`, `r == 0`, `0 != r`), the selected leaf is unfolded through the simp set `epv_leaf`
  simp only [epv_tree, epv_cond]
  by_cases hr : r = 0
  · have hr' : (0 : ℝ) = r := hr.symm
    subst hr
    simp only [if_true, if_false, ne_eq, not_true_eq_false, not_false_eq_true, epv_leaf]
    heat_eq
  · have hr' : ¬ (0 : ℝ) = r := fun h => hr h.symm
    simp only [hr, hr', if_true, if_false, ne_eq, not_true_eq_false, not_false_eq_true, epv_leaf, h1ser, Finset.sum_range_succ,
      Finset.sum_range_zero, h1K, h1c, sph]
    push_cast
    heat_eq


end

end EPV.Lemmas.Heat
