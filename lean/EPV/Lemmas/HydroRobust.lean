/-
Shape-independent proof steps for the closed-form hydro solvers (GUIDE §8).

The generated derivative certificates `M.L<i>.<field>_hasDerivAt_<v> p r t hs1 hs2 …` take their side
conditions (denominator ≠ 0, 0 < rpow base, …) as explicit hypotheses whose *number, order and syntactic form*
follow the shape of the Python expression.  A proof that passes them positionally (`cert p r t h1 hq.ne'`) or
names a generated exponent literally (`Real.rpow_pos_of_pos ht (((-p.b) - (p.geometry - 1)) - 1)`) breaks on a
harmless rewrite.  The tactics below never look at the shape:

* `epv_hydro_side`        one side condition / one `WellDefined` conjunct from the sign facts in context (`0 < r`,
                          `0 < 1 - t`, `p.rho0 ≠ 0`, …): assumption, positivity, linear arithmetic over normalised
                          monomials (`τ ^ 2 - t ^ 2` vs `τ * τ - t * t`), a hypothesis about the same quantity written
                          differently (`epv_hydro_ne_hyps`), products / quotients / powers factor by factor;
* `epv_hydro_rw_derivs [c₁, c₂, …]`  for each certificate `cᵢ` (applied to `p r t` only) rewrites `deriv (fun …) x` with the
                          certified derivative, proving whatever side conditions `cᵢ` has by `epv_hydro_side`;
  `epv_hydro_cert c` closes a `HasDerivAt` goal the same way, `epv_hydro_have_cert h : c` names the fact;
* `epv_hydro_pos_facts`, `epv_hydro_rpow_pos`, `epv_hydro_den_facts`, `epv_hydro_facts`  add to the context `0 < a - b`,
                          `0 < x` (bases), `0 < x ^ e`, `d ≠ 0` (denominators) for the goal's *own* subterms — replace
                          literal `Real.rpow_pos_of_pos h <exponent>`, `hx.ne'`;
* `epv_hydro_gen_rpow`    then generalises every real power to a fresh positive atom, so that `field_simp` cannot merge
                          powers — replaces literal `generalize (1 - t) ^ <exponent> = q`;
* `epv_hydro_field_simp`  = the facts + `field_simp (disch := epv_hydro_disch)`: whatever form `field_simp` gives a
                          denominator, the discharger reduces it to the hypotheses (default transparency: `field_simp`
                          calls dischargers with reducible transparency, under which `intro`/`linarith` misbehave);
* `epv_hydro_split h`     every conjunct of `h` (an unfolded generated `WellDefined`) and every factor of a product `h` says
                          is non-zero becomes a hypothesis — replaces positional `obtain ⟨h1, …, h10⟩ := hwd`;
* `epv_hydro_rpow_unify`  makes real powers that agree up to ring / field normalisation of base and exponent syntactically
                          equal (also `b ^ (-e)` ↦ `(b ^ e)⁻¹`), so that `ring` sees one atom;
* `epv_hydro_closed`      a generated leaf expression equals its documented closed form (used in `Lemmas/Bridge/*`);
* `epv_hydro_via_atoms P R`  tree-level identity between returned fields with two of them treated as atoms (the generator
                          prints a shared sub-expression identically everywhere): `e = p / ρ / (γ-1)` however it is coded.
-/
import EPV.Tactics
import EPV.Robust
import Mathlib.Analysis.SpecialFunctions.Pow.Real
import Mathlib.Tactic.Positivity
import Mathlib.Tactic.Linarith
import Mathlib.Tactic.FieldSimp
import Mathlib.Tactic.Ring

set_option linter.all false

open Lean Elab Tactic Meta

namespace EPV.HydroRobust

/-- is `e` a real power `x ^ (y : ℝ)` with real base (i.e. `Real.rpow` through `HPow ℝ ℝ ℝ`)? -/
def isRpow (e : Expr) : Bool :=
  (e.isAppOfArity ``HPow.hPow 6 && (e.getArg! 0).isConstOf ``Real && (e.getArg! 1).isConstOf ``Real)
    || e.isAppOfArity ``Real.rpow 2

/-- all real powers occurring in `e` (without loose bound variables), outermost first, no duplicates -/
partial def collectRpow (e : Expr) (acc : Array Expr := #[]) : Array Expr :=
  let acc := if isRpow e && !e.hasLooseBVars && !acc.contains e then acc.push e else acc
  match e with
  | .app f a => collectRpow a (collectRpow f acc)
  | .lam _ t b _ => collectRpow b (collectRpow t acc)
  | .forallE _ t b _ => collectRpow b (collectRpow t acc)
  | .letE _ t v b _ => collectRpow b (collectRpow v (collectRpow t acc))
  | .mdata _ b => collectRpow b acc
  | .proj _ _ b => collectRpow b acc
  | _ => acc

/-- is `e` a real subtraction `a - b`? -/
def isRealSub (e : Expr) : Bool :=
  e.isAppOfArity ``HSub.hSub 6 && (e.getArg! 0).isConstOf ``Real

/-- the denominator if `e` is a real division `a / b` or inverse `b⁻¹` -/
def realDenominator? (e : Expr) : Option Expr :=
  if e.isAppOfArity ``HDiv.hDiv 6 && (e.getArg! 0).isConstOf ``Real then some (e.getArg! 5)
  else if e.isAppOfArity ``Inv.inv 3 && (e.getArg! 0).isConstOf ``Real then some (e.getArg! 2)
  else none

/-- all subterms of `e` satisfying `f` (without loose bound variables), outermost first, no duplicates -/
partial def collect (f : Expr → Bool) (e : Expr) (acc : Array Expr := #[]) : Array Expr :=
  let acc := if f e && !e.hasLooseBVars && !acc.contains e then acc.push e else acc
  match e with
  | .app g a => collect f a (collect f g acc)
  | .lam _ t b _ => collect f b (collect f t acc)
  | .forallE _ t b _ => collect f b (collect f t acc)
  | .letE _ t v b _ => collect f b (collect f v (collect f t acc))
  | .mdata _ b => collect f b acc
  | .proj _ _ b => collect f b acc
  | _ => acc

end EPV.HydroRobust

/-- goal `0 < e` (or `e ≠ 0`, `0 ≤ e`) where `e` contains quotients `a / b` with `b ≠ 0` known: add `a / b * b = a` for each and
let `nlinarith` multiply through (`0 < 1 - u t / r` from `0 < r - u t`, `0 < r`) -/
elab "epv_hydro_pos_div" : tactic => withMainContext do
  let tgt ← instantiateMVars (← getMainTarget)
  let divs := EPV.HydroRobust.collect
    (fun e => e.isAppOfArity ``HDiv.hDiv 6 && (e.getArg! 0).isConstOf ``Real) tgt
  if divs.isEmpty then throwError "epv_hydro_pos_div: no quotient in the goal"
  for d in divs do
    let a ← Term.exprToSyntax (d.getArg! 4)
    let b ← Term.exprToSyntax (d.getArg! 5)
    try
      withoutRecover (evalTactic (← `(tactic|
        have : $a / $b * $b = $a :=
          div_mul_cancel₀ $a (by first | assumption | positivity | (apply ne_of_gt; assumption)))))
    catch _ => pure ()
  evalTactic (← `(tactic| nlinarith))

/-- sign facts `positivity` cannot derive by itself: for every real subtraction `a - b` and every base `x` of a real
power in the goal, add `0 < a - b` / `0 < x` to the context when linear arithmetic over the hypotheses proves it
(`linarith` identifies `τ ^ 2` with `τ * τ`), so that `positivity` finds it whatever form the code gives it -/
elab "epv_hydro_pos_facts" : tactic => withMainContext do
  let tgt ← instantiateMVars (← getMainTarget)
  let subs := EPV.HydroRobust.collect EPV.HydroRobust.isRealSub tgt
  let bases := (EPV.HydroRobust.collectRpow tgt).map fun a => a.getArg! (a.getAppNumArgs - 2)
  let mut seen : Array Expr := #[]
  for a in subs ++ bases do
    if seen.contains a then continue
    seen := seen.push a
    let stx ← Term.exprToSyntax a
    try
      withoutRecover (evalTactic (← `(tactic| have : (0 : ℝ) < $stx := by first | assumption | linarith | epv_hydro_pos_div)))
    catch _ => pure ()

/-- goal `d ≠ 0` from a hypothesis `e ≠ 0` (or `0 < e`, `e < 0`) about the same quantity written differently:
`d = 0 → e = 0` by linear arithmetic over normalised monomials -/
elab "epv_hydro_ne_hyps" : tactic => withMainContext do
  let g ← getMainGoal
  -- sign known by linear arithmetic (no `intro`: `field_simp` runs its discharger with reducible transparency)
  try
    withoutRecover (evalTactic (← `(tactic| first
      | (refine LT.lt.ne' ?_; first | assumption | linarith)
      | (refine LT.lt.ne ?_; first | assumption | linarith))))
    return
  catch _ => pure ()
  for ldecl in ← getLCtx do
    if ldecl.isImplementationDetail then continue
    let ty ← instantiateMVars ldecl.type
    let isNe := ty.isAppOfArity ``Ne 3 || (ty.isAppOfArity ``Not 1 && (ty.getArg! 0).isAppOfArity ``Eq 3)
    unless isNe do continue
    let hstx ← Term.exprToSyntax ldecl.toExpr
    try
      withoutRecover (evalTactic (← `(tactic| (refine mt ?_ $hstx; intro hd; first | linarith | (ring_nf at hd ⊢; linarith)))))
      return
    catch _ => pure ()
  throwError "epv_hydro_ne_hyps: no hypothesis gives{indentExpr (← g.getType)}"

/-- one side condition of a generated certificate / one conjunct of a generated `WellDefined` -/
syntax "epv_hydro_side" : tactic
macro_rules
  | `(tactic| epv_hydro_side) => `(tactic| first
    | assumption
    | positivity
    | linarith
    | (simp only [epv_leaf]; positivity)
    | (simp only [epv_leaf]; epv_hydro_pos_facts; positivity)
    | (apply ne_of_gt; first | assumption | positivity | linarith)
    | (apply ne_of_lt; first | assumption | linarith)
    | (epv_hydro_pos_facts; positivity)
    | epv_hydro_ne_hyps
    | (refine mul_ne_zero ?_ ?_ <;> epv_hydro_side)
    | (refine div_ne_zero ?_ ?_ <;> epv_hydro_side)
    | (refine pow_ne_zero _ ?_; epv_hydro_side)
    | (refine inv_ne_zero ?_; epv_hydro_side)
    | epv_pos)

/-- `epv_hydro_have_cert h : c` — `c` is a generated certificate applied to `p r t` only; its remaining hypotheses (the side
conditions, however many and in whatever form) are discharged by `epv_hydro_side`; the resulting `HasDerivAt` fact is added
to the context as `h` -/
elab "epv_hydro_have_cert " h:ident " : " c:term : tactic => withMainContext do
  let e ← elabTerm c none
  let ty ← inferType e
  let (args, _, _) ← forallMetaTelescopeReducing ty
  for a in args do
    let g := a.mvarId!
    unless (← g.isAssigned) do
      let gty ← instantiateMVars (← g.getType)
      let rest ← try
          Tactic.run g (withoutRecover (evalTactic (← `(tactic| epv_hydro_side))))
        catch _ => throwError "epv_hydro_have_cert: cannot discharge the side condition{indentExpr gty}"
      unless rest.isEmpty do
        throwError "epv_hydro_have_cert: cannot discharge the side condition{indentExpr gty}"
  let pf ← instantiateMVars (mkAppN e args)
  let pfTy ← instantiateMVars (← inferType pf)
  let g ← getMainGoal
  let g' ← g.assert h.getId pfTy pf
  let (_, g'') ← g'.intro1P
  replaceMainGoal [g'']

/-- close `HasDerivAt f f' x` with a generated certificate given up to its side conditions -/
macro "epv_hydro_cert " c:term : tactic =>
  `(tactic| (epv_hydro_have_cert epv_hd : $c
             exact epv_hd))

/-- rewrite `deriv` of leaf fields with generated certificates (given up to their side conditions) -/
syntax "epv_hydro_rw_derivs " "[" term,* "]" : tactic
macro_rules
  | `(tactic| epv_hydro_rw_derivs [$cs,*]) => do
    let tacs ← cs.getElems.mapM fun c =>
      `(tactic| (epv_hydro_have_cert epv_hd : $c
                 rw [HasDerivAt.deriv epv_hd]; clear epv_hd))
    `(tactic| ($[$tacs]*))


/-- for every real power `x ^ e` in the goal add `0 < x ^ e` to the context when `positivity` proves it -/
elab "epv_hydro_rpow_pos" : tactic => withMainContext do
  evalTactic (← `(tactic| epv_hydro_pos_facts))
  let tgt ← instantiateMVars (← getMainTarget)
  for a in EPV.HydroRobust.collectRpow tgt do
    let stx ← Term.exprToSyntax a
    try
      withoutRecover (evalTactic (← `(tactic| have : (0 : ℝ) < $stx := by positivity)))
    catch _ => pure ()

/-- for every denominator `d` in the goal (`_ / d`, `d⁻¹`, not a numeral) add `d ≠ 0` to the context when it follows from
the hypotheses (`epv_hydro_side`: assumption, positivity, or a hypothesis about the same quantity written differently), so that
`field_simp` clears it whatever form the code gives it -/
elab "epv_hydro_den_facts" : tactic => withMainContext do
  let tgt ← instantiateMVars (← getMainTarget)
  let dens := (EPV.HydroRobust.collect (fun e => (EPV.HydroRobust.realDenominator? e).isSome) tgt).filterMap
    EPV.HydroRobust.realDenominator?
  let mut seen : Array Expr := #[]
  for d in dens do
    if seen.contains d || d.hasLooseBVars then continue
    seen := seen.push d
    if (d.nat?).isSome || d.isAppOfArity ``OfNat.ofNat 3 then continue
    let stx ← Term.exprToSyntax d
    try
      withoutRecover (evalTactic (← `(tactic| have : $stx ≠ (0 : ℝ) := by epv_hydro_side)))
    catch _ => pure ()

/-- all the sign / non-vanishing facts about the goal's own subterms that `field_simp` needs -/
macro "epv_hydro_facts" : tactic => `(tactic| (epv_hydro_rpow_pos; epv_hydro_den_facts))

/-- run a tactic with default transparency (`field_simp` calls its discharger with reducible transparency, under which
`intro` on `≠` and `linarith`'s matching of `a * a` with `a ^ 2` fail) -/
elab "epv_hydro_with_default " t:tacticSeq : tactic => withTransparency .default (evalTactic t)

namespace EPV.HydroRobust

/-- `ty` is `a * b ≠ 0` / `a / b ≠ 0` over ℝ: which one -/
def neZeroOf? (ty : Expr) : Option (Name × Expr) :=
  if ty.isAppOfArity ``Ne 3 then
    let lhs := ty.getArg! 1
    if lhs.isAppOfArity ``HMul.hMul 6 then some (``HMul.hMul, lhs)
    else if lhs.isAppOfArity ``HDiv.hDiv 6 then some (``HDiv.hDiv, lhs)
    else none
  else none

/-- add to the context every consequence of hypothesis `fv` obtained by splitting conjunctions and
`a * b ≠ 0` ⇒ `a ≠ 0`, `b ≠ 0` (also `a / b ≠ 0`), recursively -/
partial def splitHyp (fv : FVarId) (top : Bool := false) : TacticM Unit := withMainContext do
  let ty ← instantiateMVars (← fv.getType)
  let e := Expr.fvar fv
  let add (pf : Expr) : TacticM FVarId := do
    let t ← instantiateMVars (← inferType pf)
    let g ← getMainGoal
    let (f, g') ← (← g.assert `this t pf).intro1
    replaceMainGoal [g']
    return f
  if ty.isAppOfArity ``And 2 then
    let f1 ← add (← mkAppM ``And.left #[e])
    let f2 ← add (← mkAppM ``And.right #[e])
    splitHyp f1
    splitHyp f2
    if top then pure () else (try replaceMainGoal [← (← getMainGoal).clear fv] catch _ => pure ())
  else match neZeroOf? ty with
    | some (``HMul.hMul, _) =>
      let f1 ← add (← mkAppM ``left_ne_zero_of_mul #[e])
      let f2 ← add (← mkAppM ``right_ne_zero_of_mul #[e])
      splitHyp f1
      splitHyp f2
      if top then pure () else (try replaceMainGoal [← (← getMainGoal).clear fv] catch _ => pure ())
    | some (``HDiv.hDiv, _) =>
      let lhs := ty.getArg! 1
      let iff ← mkAppOptM ``div_ne_zero_iff #[some (mkConst ``Real), none, some (lhs.getArg! 4), some (lhs.getArg! 5)]
      let both ← mkAppM ``Iff.mp #[iff, e]
      let f ← add both
      splitHyp f
      if top then pure () else (try replaceMainGoal [← (← getMainGoal).clear fv] catch _ => pure ())
    | _ => pure ()

end EPV.HydroRobust

/-- `epv_hydro_split h`: every conjunct of `h` (e.g. an unfolded generated `WellDefined`) and every factor of a product that
`h` says is non-zero becomes a hypothesis of its own (anonymous: use `epv_hydro_side` / `assumption` / `positivity`) -/
elab "epv_hydro_split " h:ident : tactic => withMainContext do
  let fv ← getFVarId h
  EPV.HydroRobust.splitHyp fv true

/-- discharger for `field_simp`: whatever form `field_simp` gives a denominator, reduce it to the hypotheses -/
macro "epv_hydro_disch" : tactic =>
  `(tactic| epv_hydro_with_default (first | assumption | positivity | epv_hydro_ne_hyps | (epv_hydro_pos_facts; positivity)))

/-- `field_simp` with the sign / non-vanishing facts of the goal's own subterms and the shape-independent discharger -/
macro "epv_hydro_field_simp" : tactic => `(tactic| (epv_hydro_facts; field_simp (disch := epv_hydro_disch)))

/-- equality of two field expressions written differently (`ring` alone cannot see `1 / (a * (b + c)) = 1 / a / (b + c)`) -/
macro "epv_hydro_field_eq" : tactic => `(tactic| first | ring1 | (epv_hydro_field_simp <;> ring1) | (epv_hydro_field_simp <;> ring_nf))

/-- `epv_hydro_rpow_pos`, then every real power that is not inside another one becomes a fresh atom -/
elab "epv_hydro_gen_rpow" : tactic => withMainContext do
  evalTactic (← `(tactic| epv_hydro_rpow_pos))
  let mut fuel := 40
  while fuel > 0 do
    fuel := fuel - 1
    if (← getUnsolvedGoals).isEmpty then break
    let tgt ← withMainContext do instantiateMVars (← getMainTarget)
    let atoms := EPV.HydroRobust.collectRpow tgt
    if atoms.isEmpty then break
    -- outermost-first order: the first collected atom is not a subterm of a later one
    let a := atoms[0]!
    let stx ← withMainContext do Term.exprToSyntax a
    evalTactic (← `(tactic| generalize $stx = q at *))

/-- make real powers that are equal up to ring normalisation of base and exponent *syntactically* equal: for every
pair of distinct real powers `a₁ = b₁ ^ e₁`, `a₂ = b₂ ^ e₂` in the goal with `b₁ = b₂` and `e₁ = e₂` provable by `ring1`,
rewrite `a₂` to `a₁` (`(r - t * u) / r` vs `(r - u * t) / r`, `(k - 1) + 1` vs `k + 1 - 1`, …); bases may also be equal only
after clearing denominators with the hypotheses in context (`1 + v t / r` vs `(r + v t) / r`, `r ≠ 0`); and when base
agrees and the exponents are opposite, `a₂` becomes `a₁⁻¹` (`t ** (-c)` vs `1 / t ** c`) -/
elab "epv_hydro_rpow_unify" : tactic => withMainContext do
  let mut fuel := 30
  let mut progress := true
  while progress && fuel > 0 do
    progress := false
    fuel := fuel - 1
    if (← getUnsolvedGoals).isEmpty then break
    let tgt ← withMainContext do instantiateMVars (← getMainTarget)
    let atoms := EPV.HydroRobust.collectRpow tgt
    for i in [0:atoms.size] do
      if progress then break
      for j in [i+1:atoms.size] do
        if progress then break
        let a1 := atoms[i]!
        let a2 := atoms[j]!
        let s1 ← withMainContext do Term.exprToSyntax a1
        let s2 ← withMainContext do Term.exprToSyntax a2
        let b1 ← withMainContext do Term.exprToSyntax (a1.getArg! (a1.getAppNumArgs - 2))
        let e1 ← withMainContext do Term.exprToSyntax (a1.getArg! (a1.getAppNumArgs - 1))
        try
          withoutRecover (evalTactic (← `(tactic|
            (have epv_u : $s2 = $s1 := by (congr 1 <;> first | ring1 | (field_simp (disch := epv_hydro_disch) <;> ring1))
             rw [epv_u] <;> clear epv_u))))
          progress := true
        catch _ =>
          -- same base, opposite exponents: `b ^ (-e) = (b ^ e)⁻¹` (needs `0 < b` from the context)
          try
            withoutRecover (evalTactic (← `(tactic|
              (have epv_u : $s2 = ($s1)⁻¹ := by
                 rw [← Real.rpow_neg (show (0 : ℝ) ≤ $b1 from le_of_lt (by epv_hydro_side)) $e1]
                 congr 1 <;> first | ring1 | (field_simp (disch := epv_hydro_disch) <;> ring1)
               rw [epv_u] <;> clear epv_u))))
            progress := true
          catch _ => pure ()

/-- a generated leaf expression equals its documented closed form: same rational function of the same atoms, the
real powers compared after normalising their bases and exponents; denominators are cleared with the hypotheses in
context -/
macro "epv_hydro_closed" : tactic =>
  `(tactic| first
    | rfl
    | ring1
    | (epv_hydro_rpow_unify <;> ring1)
    | (epv_hydro_rpow_unify <;> epv_hydro_gen_rpow <;> epv_hydro_field_simp <;> ring1)
    | (ring_nf; done))

/-- tree-level identity between returned fields in which two of them (`P`, `R`: pressure and density) may be treated
as opaque atoms: name them, go to the leaves, replace their generated expressions by the names wherever they occur in
the unfolded goal (the generator prints a shared sub-expression identically everywhere), and finish with field
arithmetic in the atoms.  Works whether the code writes `p / ρ / (γ-1)`, `p / (ρ * (γ-1))`, `p / (γ-1) / ρ`, `0.25 * p / ρ`. -/
syntax "epv_hydro_via_atoms " term:max term:max : tactic
macro_rules
  | `(tactic| epv_hydro_via_atoms $P $R) => `(tactic|
    (generalize epv_hP : $P = epvP at *
     generalize epv_hR : $R = epvR at *
     epv_on_leaves (
       simp only [epv_leaf] at epv_hP epv_hR ⊢ <;>
       (try simp only [epv_hP]) <;>
       (try simp only [epv_hR]) <;>
       first | rfl | ring1 | (field_simp (disch := epv_hydro_disch) <;> ring1))))
