/-
Dimensional analysis as a derivation system (C08).

`IsScaled σ d x' x` says: `x'` is `x` re-expressed in the units `σ` as a quantity of dimension
`d`.  The lemmas below are the typing rules of dimensional analysis (product, quotient, sum
of like quantities, real and natural powers, |·|, √, exp of a pure number, comparisons,
`if`), so that covariance of a traced closed form is proved by *structural recursion on the
expression the code computed* — tactic `units` — and what is left are equalities of
dimension vectors, closed by `ring` (tactic `dim_eq`).  The proofs never look at the shape of
a generated term beyond its head symbol, so reassociating, commuting or renaming in the
Python does not break them.
-/
import EPV.Spec.Units
import Mathlib.Analysis.SpecialFunctions.Sqrt
import Mathlib.Tactic

namespace EPV.Spec

open Real

noncomputable section

/-- `(c x)^e = c^e x^e` for `c > 0` and EVERY real `x` (also negative `x`, where Mathlib's
`rpow` is `exp (e log|x|) cos (e π)`) -/
theorem pos_mul_rpow {c : ℝ} (hc : 0 < c) (x e : ℝ) : (c * x) ^ e = c ^ e * x ^ e := by
  rcases lt_trichotomy x 0 with hx | hx | hx
  · have hcx : c * x < 0 := mul_neg_of_pos_of_neg hc hx
    rw [Real.rpow_def_of_neg hcx, Real.rpow_def_of_neg hx, Real.rpow_def_of_pos hc,
      Real.log_mul hc.ne' hx.ne, add_mul, Real.exp_add]
    ring
  · subst hx
    by_cases he : e = 0
    · subst he; simp
    · simp [Real.zero_rpow he]
  · exact Real.mul_rpow hc.le hx.le

namespace Dim

@[simp] theorem zero_m : (0 : Dim).m = 0 := rfl
@[simp] theorem zero_l : (0 : Dim).l = 0 := rfl
@[simp] theorem zero_t : (0 : Dim).t = 0 := rfl
@[simp] theorem zero_θ : (0 : Dim).θ = 0 := rfl
@[simp] theorem add_m (a b : Dim) : (a + b).m = a.m + b.m := rfl
@[simp] theorem add_l (a b : Dim) : (a + b).l = a.l + b.l := rfl
@[simp] theorem add_t (a b : Dim) : (a + b).t = a.t + b.t := rfl
@[simp] theorem add_θ (a b : Dim) : (a + b).θ = a.θ + b.θ := rfl
@[simp] theorem sub_m (a b : Dim) : (a - b).m = a.m - b.m := rfl
@[simp] theorem sub_l (a b : Dim) : (a - b).l = a.l - b.l := rfl
@[simp] theorem sub_t (a b : Dim) : (a - b).t = a.t - b.t := rfl
@[simp] theorem sub_θ (a b : Dim) : (a - b).θ = a.θ - b.θ := rfl
@[simp] theorem neg_m (a : Dim) : (-a).m = -a.m := rfl
@[simp] theorem neg_l (a : Dim) : (-a).l = -a.l := rfl
@[simp] theorem neg_t (a : Dim) : (-a).t = -a.t := rfl
@[simp] theorem neg_θ (a : Dim) : (-a).θ = -a.θ := rfl
@[simp] theorem smul_m (e : ℝ) (a : Dim) : (e • a).m = e * a.m := rfl
@[simp] theorem smul_l (e : ℝ) (a : Dim) : (e • a).l = e * a.l := rfl
@[simp] theorem smul_t (e : ℝ) (a : Dim) : (e • a).t = e * a.t := rfl
@[simp] theorem smul_θ (e : ℝ) (a : Dim) : (e • a).θ = e * a.θ := rfl

end Dim

theorem factor_pos (σ : Scaling) (d : Dim) : 0 < factor σ d := by
  unfold factor
  have := Real.rpow_pos_of_pos σ.hM d.m
  have := Real.rpow_pos_of_pos σ.hL d.l
  have := Real.rpow_pos_of_pos σ.hT d.t
  have := Real.rpow_pos_of_pos σ.hΘ d.θ
  positivity

@[simp] theorem factor_zero (σ : Scaling) : factor σ 0 = 1 := by
  simp [factor]

theorem factor_add (σ : Scaling) (a b : Dim) : factor σ (a + b) = factor σ a * factor σ b := by
  simp only [factor, Dim.add_m, Dim.add_l, Dim.add_t, Dim.add_θ,
    Real.rpow_add σ.hM, Real.rpow_add σ.hL, Real.rpow_add σ.hT, Real.rpow_add σ.hΘ]
  ring

theorem factor_neg (σ : Scaling) (a : Dim) : factor σ (-a) = (factor σ a)⁻¹ := by
  simp only [factor, Dim.neg_m, Dim.neg_l, Dim.neg_t, Dim.neg_θ,
    Real.rpow_neg σ.hM.le, Real.rpow_neg σ.hL.le, Real.rpow_neg σ.hT.le, Real.rpow_neg σ.hΘ.le, mul_inv]

theorem factor_sub (σ : Scaling) (a b : Dim) : factor σ (a - b) = factor σ a / factor σ b := by
  have : a - b = a + -b := by ext <;> simp [sub_eq_add_neg]
  rw [this, factor_add, factor_neg, div_eq_mul_inv]

theorem factor_smul (σ : Scaling) (e : ℝ) (a : Dim) : factor σ (e • a) = factor σ a ^ e := by
  have hM := Real.rpow_pos_of_pos σ.hM a.m
  have hL := Real.rpow_pos_of_pos σ.hL a.l
  have hT := Real.rpow_pos_of_pos σ.hT a.t
  have hΘ := Real.rpow_pos_of_pos σ.hΘ a.θ
  simp only [factor, Dim.smul_m, Dim.smul_l, Dim.smul_t, Dim.smul_θ]
  rw [Real.mul_rpow (by positivity) hΘ.le, Real.mul_rpow (by positivity) hT.le,
    Real.mul_rpow hM.le hL.le, ← Real.rpow_mul σ.hM.le, ← Real.rpow_mul σ.hL.le,
    ← Real.rpow_mul σ.hT.le, ← Real.rpow_mul σ.hΘ.le]
  simp only [mul_comm]

theorem scale_length (σ : Scaling) (x : ℝ) : scale σ Dim.length x = σ.L * x := by
  simp [scale, factor, Dim.length]

theorem scale_time (σ : Scaling) (x : ℝ) : scale σ Dim.time x = σ.T * x := by
  simp [scale, factor, Dim.time]

@[simp] theorem scale_zero_dim (σ : Scaling) (x : ℝ) : scale σ 0 x = x := by
  simp [scale]

/-- `x'` is `x` re-expressed in the units `σ` as a quantity of dimension `d` -/
def IsScaled (σ : Scaling) (d : Dim) (x' x : ℝ) : Prop := x' = scale σ d x

namespace IsScaled

variable {σ : Scaling} {d d₁ d₂ : Dim} {x x' y y' : ℝ}

theorem iff_eq : IsScaled σ d x' x ↔ x' = scale σ d x := Iff.rfl

/-- change the dimension vector to an equal one -/
theorem cast (h : IsScaled σ d₁ x' x) (e : d₁ = d) : IsScaled σ d x' x := e ▸ h

/-- an input re-expressed according to its dimension -/
theorem atom : IsScaled σ d (scale σ d x) x := rfl
/-- a position -/
theorem len : IsScaled σ Dim.length (σ.L * x) x := (scale_length σ x).symm
/-- a time -/
theorem tim : IsScaled σ Dim.time (σ.T * x) x := (scale_time σ x).symm
/-- a pure number (anything that is literally the same on both sides) -/
theorem pure (x : ℝ) : IsScaled σ 0 x x := (scale_zero_dim σ x).symm
/-- zero has every dimension -/
theorem zero : IsScaled σ d 0 0 := by simp [IsScaled, scale]

theorem mul (hx : IsScaled σ d₁ x' x) (hy : IsScaled σ d₂ y' y) :
    IsScaled σ (d₁ + d₂) (x' * y') (x * y) := by
  unfold IsScaled scale at *
  rw [hx, hy, factor_add]; ring

theorem div (hx : IsScaled σ d₁ x' x) (hy : IsScaled σ d₂ y' y) :
    IsScaled σ (d₁ - d₂) (x' / y') (x / y) := by
  unfold IsScaled scale at *
  rw [hx, hy, factor_sub, mul_div_mul_comm]

theorem inv (hx : IsScaled σ d₁ x' x) : IsScaled σ (-d₁) (x'⁻¹) (x⁻¹) := by
  unfold IsScaled scale at *
  rw [hx, factor_neg, mul_inv]

theorem add (hx : IsScaled σ d x' x) (hy : IsScaled σ d₂ y' y) (e : d₂ = d) :
    IsScaled σ d (x' + y') (x + y) := by
  subst e
  unfold IsScaled scale at *
  rw [hx, hy]; ring

theorem sub (hx : IsScaled σ d x' x) (hy : IsScaled σ d₂ y' y) (e : d₂ = d) :
    IsScaled σ d (x' - y') (x - y) := by
  subst e
  unfold IsScaled scale at *
  rw [hx, hy]; ring

theorem neg (hx : IsScaled σ d x' x) : IsScaled σ d (-x') (-x) := by
  unfold IsScaled scale at *
  rw [hx]; ring

theorem abs (hx : IsScaled σ d x' x) : IsScaled σ d |x'| |x| := by
  unfold IsScaled scale at *
  rw [hx, abs_mul, abs_of_pos (factor_pos σ d)]

/-- a real power with a (dimensionless) exponent that is the same on both sides -/
theorem rpow (e : ℝ) (hx : IsScaled σ d x' x) : IsScaled σ (e • d) (x' ^ e) (x ^ e) := by
  unfold IsScaled scale at *
  rw [hx, pos_mul_rpow (factor_pos σ d), factor_smul]

theorem npow (n : ℕ) (hx : IsScaled σ d x' x) : IsScaled σ ((n : ℝ) • d) (x' ^ n) (x ^ n) := by
  have := rpow (n : ℝ) hx
  simpa only [Real.rpow_natCast] using this

theorem sqrt (hx : IsScaled σ d x' x) : IsScaled σ (((1 : ℝ) / 2) • d) (Real.sqrt x') (Real.sqrt x) := by
  have := rpow ((1 : ℝ) / 2) hx
  simpa only [← Real.sqrt_eq_rpow] using this

/-- a constant base under an exponent that is a pure number -/
theorem rpow_exponent (c : ℝ) (hx : IsScaled σ d x' x) (e : d = 0) : IsScaled σ 0 (c ^ x') (c ^ x) := by
  subst e
  have : x' = x := by simpa [IsScaled] using hx
  rw [this]; exact pure _

theorem exp (hx : IsScaled σ d x' x) (e : d = 0) : IsScaled σ 0 (Real.exp x') (Real.exp x) := by
  subst e
  have : x' = x := by simpa [IsScaled] using hx
  rw [this]; exact pure _

theorem ite {c' c : Prop} [Decidable c'] [Decidable c] (hc : c' ↔ c)
    (hx : IsScaled σ d x' x) (hy : IsScaled σ d₂ y' y) (e : d₂ = d) :
    IsScaled σ d (if c' then x' else y') (if c then x else y) := by
  subst e
  by_cases h : c
  · rw [if_pos h, if_pos (hc.mpr h)]; exact hx
  · rw [if_neg h, if_neg (fun h' => h (hc.mp h'))]; exact hy

/-! comparisons of like quantities do not depend on the units -/

theorem lt_iff (hx : IsScaled σ d x' x) (hy : IsScaled σ d₂ y' y) (e : d₂ = d) : x' < y' ↔ x < y := by
  subst e
  unfold IsScaled scale at *
  rw [hx, hy]
  exact mul_lt_mul_iff_right₀ (factor_pos σ _)

theorem le_iff (hx : IsScaled σ d x' x) (hy : IsScaled σ d₂ y' y) (e : d₂ = d) : x' ≤ y' ↔ x ≤ y := by
  subst e
  unfold IsScaled scale at *
  rw [hx, hy]
  exact mul_le_mul_iff_right₀ (factor_pos σ _)

theorem eq_iff (hx : IsScaled σ d x' x) (hy : IsScaled σ d₂ y' y) (e : d₂ = d) : x' = y' ↔ x = y := by
  subst e
  unfold IsScaled scale at *
  rw [hx, hy]
  exact mul_right_inj' (factor_pos σ _).ne'

end IsScaled

end

end EPV.Spec

/-- equality of two dimension vectors: componentwise, by `ring` -/
macro "dim_eq" : tactic =>
  `(tactic| first
    | rfl
    | (apply EPV.Spec.Dim.ext <;>
        simp only [EPV.Spec.Dim.zero_m, EPV.Spec.Dim.zero_l, EPV.Spec.Dim.zero_t, EPV.Spec.Dim.zero_θ,
          EPV.Spec.Dim.add_m, EPV.Spec.Dim.add_l, EPV.Spec.Dim.add_t, EPV.Spec.Dim.add_θ,
          EPV.Spec.Dim.sub_m, EPV.Spec.Dim.sub_l, EPV.Spec.Dim.sub_t, EPV.Spec.Dim.sub_θ,
          EPV.Spec.Dim.neg_m, EPV.Spec.Dim.neg_l, EPV.Spec.Dim.neg_t, EPV.Spec.Dim.neg_θ,
          EPV.Spec.Dim.smul_m, EPV.Spec.Dim.smul_l, EPV.Spec.Dim.smul_t, EPV.Spec.Dim.smul_θ,
          EPV.Spec.Dim.one, EPV.Spec.Dim.mass, EPV.Spec.Dim.length, EPV.Spec.Dim.time,
          EPV.Spec.Dim.temperature, EPV.Spec.Dim.density, EPV.Spec.Dim.velocity, EPV.Spec.Dim.pressure,
          EPV.Spec.Dim.sie, EPV.Spec.Dim.gruneisen, EPV.Spec.Dim.rate] <;>
        (try push_cast) <;> ring))

/-- one derivation step of dimensional analysis; recursion through `units` -/
syntax "units" : tactic

macro_rules
  | `(tactic| units) => `(tactic| first
      | exact EPV.Spec.IsScaled.atom
      | exact EPV.Spec.IsScaled.len
      | exact EPV.Spec.IsScaled.tim
      | (with_reducible apply EPV.Spec.IsScaled.zero)
      | (with_reducible exact EPV.Spec.IsScaled.pure _)
      | (apply EPV.Spec.IsScaled.mul <;> units)
      | (apply EPV.Spec.IsScaled.div <;> units)
      | (apply EPV.Spec.IsScaled.add <;> units)
      | (apply EPV.Spec.IsScaled.sub <;> units)
      | (apply EPV.Spec.IsScaled.neg <;> units)
      | (apply EPV.Spec.IsScaled.rpow <;> units)
      | (apply EPV.Spec.IsScaled.npow <;> units)
      | (apply EPV.Spec.IsScaled.abs <;> units)
      | (apply EPV.Spec.IsScaled.sqrt <;> units)
      | (apply EPV.Spec.IsScaled.inv <;> units)
      | (apply EPV.Spec.IsScaled.exp <;> units)
      | (apply EPV.Spec.IsScaled.rpow_exponent <;> units)
      | (apply EPV.Spec.IsScaled.ite <;> units)
      | (apply EPV.Spec.IsScaled.lt_iff <;> units)
      | (apply EPV.Spec.IsScaled.le_iff <;> units)
      | (apply EPV.Spec.IsScaled.eq_iff <;> units)
      | dim_eq)

/-- prove `IsScaled σ d lhs rhs` for a concrete `d`: derive the dimension of `lhs`, then compare -/
macro "units_goal" : tactic =>
  `(tactic| first
    | (with_reducible exact EPV.Spec.IsScaled.zero)
    | (apply EPV.Spec.IsScaled.cast <;> units))

namespace EPV.Spec

theorem ite_congr_iff {α : Type} {c' c : Prop} [Decidable c'] [Decidable c] {a' a b' b : α}
    (hc : c' ↔ c) (ha : a' = a) (hb : b' = b) : (if c' then a' else b') = (if c then a else b) := by
  subst ha; subst hb
  by_cases h : c
  · rw [if_pos h, if_pos (hc.mpr h)]
  · rw [if_neg h, if_neg (fun h' => h (hc.mp h'))]

end EPV.Spec

/-- the decision tree of the re-expressed request takes the same branch: every traced path
condition compares like quantities -/
syntax "units_branch" : tactic

macro_rules
  | `(tactic| units_branch) => `(tactic| first
      | (with_reducible rfl)
      | (apply EPV.Spec.ite_congr_iff <;> units_branch)
      | units)
