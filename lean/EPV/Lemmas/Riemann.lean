/-
1-D ideal-gas Riemann solver: plain-function views of the generated helper models
(`EPV.Gen.Riem*`, traced from `exactpack/solvers/riemann/utils.py`) and the analytic facts
about them that several property files share (C02, C03, C07, C08, C09, C10, C17; C04 may
reuse them).

Nothing here restates the code: every definition is an application of a generated
tree-level definition to a record of arguments; `*_eq` lemmas only unfold them.
-/
import EPV.Gen.RiemSound
import EPV.Gen.RiemSie
import EPV.Gen.RiemShock
import EPV.Gen.RiemRare
import EPV.Gen.RiemRhoShock
import EPV.Gen.RiemRhoRare
import EPV.Gen.RiemShockVel
import EPV.Gen.RiemFan
import EPV.Gen.RiemUSCN
import EPV.Gen.RiemUNCS
import EPV.Gen.RiemUNCR
import EPV.Gen.RiemURCN
import EPV.Gen.RiemURCVR
import EPV.Gen.RiemSCS
import EPV.Gen.RiemSCR
import EPV.Gen.RiemRCS
import EPV.Gen.RiemRCR
import EPV.Gen.RiemSetup
import EPV.Spec.JumpRiemann
import EPV.Model.RiemannIG
import EPV.Tactics
import EPV.Lemmas.Bridge.RiemannTac

set_option linter.all false

open EPV EPV.Gen EPV.Model EPV.Spec.Riemann

namespace EPV.Riem

noncomputable section

/-- the data of a Riemann problem: left and right (p, ρ, u) with their own γ -/
structure Prob where
  pl : ℝ
  rl : ℝ
  ul : ℝ
  gl : ℝ
  pr : ℝ
  rr : ℝ
  ur : ℝ
  gr : ℝ

/-- the documented admissible data: positive pressures and densities, γ > 1 -/
def Prob.Admissible (q : Prob) : Prop :=
  0 < q.pl ∧ 0 < q.rl ∧ 1 < q.gl ∧ 0 < q.pr ∧ 0 < q.rr ∧ 1 < q.gr

/-- exchange the two states and negate the velocities -/
def Prob.mirror (q : Prob) : Prob :=
  { pl := q.pr, rl := q.rr, ul := -q.ur, gl := q.gr, pr := q.pl, rr := q.rl, ur := -q.ul, gr := q.gl }

/-- add a constant velocity to both states -/
def Prob.boost (q : Prob) (v : ℝ) : Prob := { q with ul := q.ul + v, ur := q.ur + v }

/-- rescale by mass, length and time factors: pressure × M L⁻¹ T⁻², density × M L⁻³, velocity × L T⁻¹ -/
def Prob.scale (q : Prob) (M L T : ℝ) : Prob :=
  { pl := M / (L * T ^ 2) * q.pl, rl := M / L ^ 3 * q.rl, ul := L / T * q.ul, gl := q.gl,
    pr := M / (L * T ^ 2) * q.pr, rr := M / L ^ 3 * q.rr, ur := L / T * q.ur, gr := q.gr }

/-- the `==`-based side detection of `shock_velocity`, `rho_p_u_rarefaction`, `shock_speed`
labels the right state correctly only when it differs from the left state -/
def Prob.Distinct (q : Prob) : Prop := ¬ (q.pr = q.pl ∧ q.ur = q.ul ∧ q.rr = q.rl)

/-- the solver's default data (Sod shock tube), used for the non-vacuity examples -/
def sod : Prob := { pl := 1, rl := 1, ul := 0, gl := 7/5, pr := 1/10, rr := 1/8, ur := 0, gr := 7/5 }

theorem sod_admissible : sod.Admissible ∧ sod.Distinct := by
  unfold Prob.Admissible Prob.Distinct sod; norm_num

/-! ### views of the generated models -/

def sound (p ρ γ : ℝ) : ℝ := RiemSound.a { pk := p, rk := ρ, gk := γ }
def sie (p ρ γ : ℝ) : ℝ := RiemSie.e { pk := p, rk := ρ, gk := γ }
def shock (px p ρ u γ : ℝ) : ℝ := RiemShock.du { pk := p, rk := ρ, uk := u, gk := γ } px
def rare (px p ρ u γ : ℝ) : ℝ := RiemRare.du { pk := p, rk := ρ, uk := u, gk := γ } px
def rhoShock (px p ρ γ : ℝ) : ℝ := RiemRhoShock.rho { px := px, pk := p, rk := ρ, gk := γ }
def rhoRare (px p ρ γ : ℝ) : ℝ := RiemRhoRare.rho { pk := p, rk := ρ, gk := γ } px

def toShockVel (q : Prob) (px p ρ u γ : ℝ) : RiemShockVel.P :=
  { pl := q.pl, rl := q.rl, ul := q.ul, px := px, pk := p, rk := ρ, uk := u, gk := γ }
/-- `shock_velocity(px, p, r, u, g, inst)` -/
def shockVel (q : Prob) (px p ρ u γ : ℝ) : ℝ := RiemShockVel.V (toShockVel q px p ρ u γ)

def toFan (q : Prob) (p ρ u γ xd0 : ℝ) : RiemFan.P :=
  { pl := q.pl, rl := q.rl, ul := q.ul, pk := p, rk := ρ, uk := u, gk := γ, xd0 := xd0 }
/-- `rho_p_u_rarefaction(p, r, u, g, x, xd0, t, inst)` -/
def fanRho (q : Prob) (p ρ u γ xd0 x t : ℝ) : ℝ := RiemFan.density (toFan q p ρ u γ xd0) x t
def fanP (q : Prob) (p ρ u γ xd0 x t : ℝ) : ℝ := RiemFan.pressure (toFan q p ρ u γ xd0) x t
def fanU (q : Prob) (p ρ u γ xd0 x t : ℝ) : ℝ := RiemFan.velocity (toFan q p ρ u γ xd0) x t

def uSCN (q : Prob) (px : ℝ) : ℝ := RiemUSCN.u { gl := q.gl, pl := q.pl, px := px, rl := q.rl, ul := q.ul }
def uNCS (q : Prob) (px : ℝ) : ℝ := RiemUNCS.u { gr := q.gr, pl := q.pl, px := px, rr := q.rr, ul := q.ul }
def uNCR (q : Prob) (px : ℝ) : ℝ := RiemUNCR.u { gr := q.gr, pl := q.pl, px := px, rr := q.rr, ul := q.ul }
def uRCN (q : Prob) (px : ℝ) : ℝ := RiemURCN.u { gl := q.gl, pl := q.pl, px := px, rl := q.rl, ul := q.ul }
def uRCVR (q : Prob) (px : ℝ) : ℝ :=
  RiemURCVR.u { gl := q.gl, gr := q.gr, pl := q.pl, px := px, rl := q.rl, rr := q.rr, ul := q.ul }

def toSCS (q : Prob) : RiemSCS.P :=
  { gl := q.gl, gr := q.gr, pl := q.pl, pr := q.pr, rl := q.rl, rr := q.rr, ul := q.ul, ur := q.ur }
def toSCR (q : Prob) : RiemSCR.P :=
  { gl := q.gl, gr := q.gr, pl := q.pl, pr := q.pr, rl := q.rl, rr := q.rr, ul := q.ul, ur := q.ur }
def toRCS (q : Prob) : RiemRCS.P :=
  { gl := q.gl, gr := q.gr, pl := q.pl, pr := q.pr, rl := q.rl, rr := q.rr, ul := q.ul, ur := q.ur }
def toRCR (q : Prob) : RiemRCR.P :=
  { gl := q.gl, gr := q.gr, pl := q.pl, pr := q.pr, rl := q.rl, rr := q.rr, ul := q.ul, ur := q.ur }
def SCS (q : Prob) (px : ℝ) : ℝ := RiemSCS.res (toSCS q) px
def SCR (q : Prob) (px : ℝ) : ℝ := RiemSCR.res (toSCR q) px
def RCS (q : Prob) (px : ℝ) : ℝ := RiemRCS.res (toRCS q) px
def RCR (q : Prob) (px : ℝ) : ℝ := RiemRCR.res (toRCR q) px

def toSetup (q : Prob) : RiemSetup.P :=
  { gl := q.gl, gr := q.gr, pl := q.pl, pr := q.pr, rl := q.rl, rr := q.rr }

/-! ### unfolding lemmas — the BRIDGE between the traced terms and the documented formulas

These are the only lemmas of the family that see the shape of the generated terms, and they are closed
by `riem_deep` (ring normalisation at every level, `EPV.Lemmas.Bridge.RiemannTac`), so a rewrite of the
Python that keeps each expression the same rational function inside and outside `sqrt`/`**` leaves
them — and therefore every property file — intact (GUIDE §8). -/

theorem sound_eq (p ρ γ : ℝ) : sound p ρ γ = Real.sqrt (γ * p / ρ) := by
  simp only [sound, epv_tree, epv_leaf] <;> riem_deep
theorem sie_eq (p ρ γ : ℝ) : sie p ρ γ = (p - 0) / (γ - 1) / ρ := by
  simp only [sie, epv_tree, epv_leaf] <;> riem_deep
theorem shock_eq (px p ρ u γ : ℝ) :
    shock px p ρ u γ = (px - p) * Real.sqrt (2 / (γ + 1) / ρ / (px + (γ - 1) / (γ + 1) * p)) + u := by
  simp only [shock, epv_tree, epv_leaf] <;> riem_deep
theorem rare_eq (px p ρ u γ : ℝ) :
    rare px p ρ u γ = 2 * Real.sqrt (γ * p / ρ) / (γ - 1) * (1 - (px / p) ^ ((γ - 1) / 2 / γ)) + u := by
  simp only [rare, epv_tree, epv_leaf] <;> riem_deep
theorem rhoShock_eq (px p ρ γ : ℝ) :
    rhoShock px p ρ γ = ρ * (p * (γ - 1) + px * (γ + 1)) / (px * (γ - 1) + p * (γ + 1)) := by
  simp only [rhoShock, epv_tree, epv_leaf] <;> riem_deep
theorem rhoRare_eq (px p ρ γ : ℝ) : rhoRare px p ρ γ = ρ * (px / p) ^ (1 / γ) := by
  simp only [rhoRare, epv_tree, epv_leaf] <;> riem_deep

/-- the classification speeds `u_SCN … u_RCVR` of Gottlieb & Groth's Fig. 3, as `utils.py` documents them -/
theorem uSCN_eq (q : Prob) (px : ℝ) :
    uSCN q px = q.ul - Real.sqrt (q.gl * q.pl / q.rl) / q.gl * (px / q.pl - 1)
      / Real.sqrt ((q.gl + 1) / 2 / q.gl * px / q.pl + (q.gl - 1) / 2 / q.gl) := by
  simp only [uSCN, epv_tree, epv_leaf] <;> riem_deep
theorem uNCS_eq (q : Prob) (px : ℝ) :
    uNCS q px = q.ul - Real.sqrt (q.gr * px / q.rr) / q.gr * (q.pl / px - 1)
      / Real.sqrt ((q.gr + 1) / 2 / q.gr * q.pl / px + (q.gr - 1) / 2 / q.gr) := by
  simp only [uNCS, epv_tree, epv_leaf] <;> riem_deep
theorem uNCR_eq (q : Prob) (px : ℝ) :
    uNCR q px = q.ul + 2 * Real.sqrt (q.gr * px / q.rr) / (q.gr - 1) * (1 - (q.pl / px) ^ ((q.gr - 1) / 2 / q.gr)) := by
  simp only [uNCR, epv_tree, epv_leaf] <;> riem_deep
theorem uRCN_eq (q : Prob) (px : ℝ) :
    uRCN q px = q.ul + 2 * Real.sqrt (q.gl * q.pl / q.rl) / (q.gl - 1) * (1 - (px / q.pl) ^ ((q.gl - 1) / 2 / q.gl)) := by
  simp only [uRCN, epv_tree, epv_leaf] <;> riem_deep
theorem uRCVR_eq (q : Prob) (px : ℝ) :
    uRCVR q px = q.ul + 2 * Real.sqrt (q.gl * q.pl / q.rl) / (q.gl - 1) + 2 * Real.sqrt (q.gr * px / q.rr) / (q.gr - 1) := by
  simp only [uRCVR, epv_tree, epv_leaf] <;> riem_deep

/-- the constructor's bracket bound of the root search, `self.pmax = 10. * max(pl, pr)` (both leaves of the
traced `max`, however the comparison and the product are written) -/
theorem pmax_eq (q : Prob) : RiemSetup.pmax (toSetup q) = 10 * max q.pl q.pr := by
  simp only [epv_tree]
  split_ifs with h <;> simp only [epv_cond, toSetup] at h <;> simp only [epv_leaf, toSetup] <;>
    rcases le_total q.pl q.pr with h' | h' <;> simp only [max_eq_right h', max_eq_left h'] <;>
    first | riem_deep | linarith

/-- the wave functions depend on the state velocity only additively -/
theorem shock_u (px p ρ u γ : ℝ) : shock px p ρ u γ = shock px p ρ 0 γ + u := by
  simp only [shock_eq]; ring
theorem rare_u (px p ρ u γ : ℝ) : rare px p ρ u γ = rare px p ρ 0 γ + u := by
  simp only [rare_eq]; ring

/-- the four star-state residuals in terms of the two wave functions, exactly as
`SCS_call`, `SCR_call`, `RCS_call`, `RCR_call` combine them -/
theorem SCS_eq (q : Prob) (px : ℝ) :
    SCS q px = shock px q.pr q.rr q.ur q.gr + shock px q.pl q.rl (-q.ul) q.gl := by
  simp only [SCS, toSCS, shock, epv_tree, epv_leaf] <;> riem_deep
theorem SCR_eq (q : Prob) (px : ℝ) :
    SCR q px = rare px q.pr q.rr (-q.ur) q.gr - shock px q.pl q.rl (-q.ul) q.gl := by
  simp only [SCR, toSCR, shock, rare, epv_tree, epv_leaf] <;> riem_deep
theorem RCS_eq (q : Prob) (px : ℝ) :
    RCS q px = shock px q.pr q.rr q.ur q.gr - rare px q.pl q.rl q.ul q.gl := by
  simp only [RCS, toRCS, shock, rare, epv_tree, epv_leaf] <;> riem_deep
theorem RCR_eq (q : Prob) (px : ℝ) :
    RCR q px = rare px q.pr q.rr (-q.ur) q.gr + rare px q.pl q.rl q.ul q.gl := by
  simp only [RCR, toRCR, rare, epv_tree, epv_leaf] <;> riem_deep

/-! ### the atom `px`: `X_call px = 0` makes the two one-sided star velocities agree -/

theorem scs_ux (q : Prob) (px : ℝ) (h : SCS q px = 0) :
    q.ul + -1 * shock px q.pl q.rl 0 q.gl = q.ur + 1 * shock px q.pr q.rr 0 q.gr := by
  rw [SCS_eq, shock_u px q.pr, shock_u px q.pl] at h; linear_combination -h
theorem scr_ux (q : Prob) (px : ℝ) (h : SCR q px = 0) :
    q.ul + -1 * shock px q.pl q.rl 0 q.gl = q.ur + -1 * rare px q.pr q.rr 0 q.gr := by
  rw [SCR_eq, rare_u px q.pr, shock_u px q.pl] at h; linear_combination h
theorem rcs_ux (q : Prob) (px : ℝ) (h : RCS q px = 0) :
    q.ul + 1 * rare px q.pl q.rl 0 q.gl = q.ur + 1 * shock px q.pr q.rr 0 q.gr := by
  rw [RCS_eq, shock_u px q.pr, rare_u px q.pl] at h; linear_combination -h
theorem rcr_ux (q : Prob) (px : ℝ) (h : RCR q px = 0) :
    q.ul + 1 * rare px q.pl q.rl 0 q.gl = q.ur + -1 * rare px q.pr q.rr 0 q.gr := by
  rw [RCR_eq, rare_u px q.pr, rare_u px q.pl] at h; linear_combination h

/-! ### shock algebra: the mass flux -/

/-- (γ+1) p* + (γ-1) p₀ -/
def NN (px p γ : ℝ) : ℝ := (γ + 1) * px + (γ - 1) * p

/-- mass flux through a shock from (p,ρ) to the pressure px: m = √(ρ((γ+1)p* + (γ-1)p₀)/2) -/
def mflux (px p ρ γ : ℝ) : ℝ := Real.sqrt (ρ * NN px p γ / 2)

theorem NN_pos {px p γ : ℝ} (hp : 0 < p) (hγ : 1 < γ) (hpx : 0 ≤ px) : 0 < NN px p γ := by
  unfold NN; nlinarith

theorem mflux_sq {px p ρ γ : ℝ} (hρ : 0 < ρ) (hN : 0 < NN px p γ) :
    mflux px p ρ γ ^ 2 = ρ * NN px p γ / 2 := by
  unfold mflux; rw [Real.sq_sqrt]; positivity

theorem mflux_pos {px p ρ γ : ℝ} (hρ : 0 < ρ) (hN : 0 < NN px p γ) : 0 < mflux px p ρ γ := by
  unfold mflux; apply Real.sqrt_pos.mpr; positivity

theorem shock_factor {px p ρ γ : ℝ} (hρ : 0 < ρ) (hγ : 0 < γ + 1) (hN : 0 < NN px p γ) :
    Real.sqrt (2 / (γ + 1) / ρ / (px + (γ - 1) / (γ + 1) * p)) = 1 / mflux px p ρ γ := by
  have h : 2 / (γ + 1) / ρ / (px + (γ - 1) / (γ + 1) * p) = (ρ * NN px p γ / 2)⁻¹ := by
    unfold NN at *
    have : px + (γ - 1) / (γ + 1) * p = ((γ + 1) * px + (γ - 1) * p) / (γ + 1) := by field_simp
    rw [this]; field_simp
  rw [h, Real.sqrt_inv, one_div]; rfl

/-- `shock` is u₀ + (p* - p₀)/m -/
theorem shock_mflux {px p ρ u γ : ℝ} (hρ : 0 < ρ) (hγ : 0 < γ + 1) (hN : 0 < NN px p γ) :
    shock px p ρ u γ = u + (px - p) / mflux px p ρ γ := by
  rw [shock_eq, shock_factor hρ hγ hN]; ring

theorem vel_factor {px p ρ γ : ℝ} (hp : 0 < p) (hρ : 0 < ρ) (hγ : 0 < γ) (hN : 0 < NN px p γ) :
    Real.sqrt (γ * p / ρ) * Real.sqrt ((γ + 1) * px / 2 / γ / p + (γ - 1) / 2 / γ) = mflux px p ρ γ / ρ := by
  have h2 : (γ + 1) * px / 2 / γ / p + (γ - 1) / 2 / γ = NN px p γ / (2 * γ * p) := by
    unfold NN; field_simp
  rw [h2, ← Real.sqrt_mul (by positivity)]
  have h3 : γ * p / ρ * (NN px p γ / (2 * γ * p)) = (ρ * NN px p γ / 2) / ρ ^ 2 := by field_simp
  rw [h3, Real.sqrt_div (by positivity), Real.sqrt_sq hρ.le]; rfl

/-- `shock_velocity` called on the left state (as the driver does): the side detection compares
the state with itself, the sign is -1 -/
theorem shockVel_left (q : Prob) (px : ℝ) :
    shockVel q px q.pl q.rl q.ul q.gl
      = q.ul + -1 * Real.sqrt (q.gl * q.pl / q.rl)
          * Real.sqrt ((q.gl + 1) * px / 2 / q.gl / q.pl + (q.gl - 1) / 2 / q.gl) := by
  simp only [shockVel, epv_tree]
  riem_side_split [toShockVel]

/-- `shock_velocity` called on a right state that differs from the left state: sign +1 -/
theorem shockVel_right (q : Prob) (hd : q.Distinct) (px : ℝ) :
    shockVel q px q.pr q.rr q.ur q.gr
      = q.ur + 1 * Real.sqrt (q.gr * q.pr / q.rr)
          * Real.sqrt ((q.gr + 1) * px / 2 / q.gr / q.pr + (q.gr - 1) / 2 / q.gr) := by
  unfold Prob.Distinct at hd
  simp only [shockVel, epv_tree]
  riem_side_split [toShockVel]

/-- the degenerate case the `==` test mislabels: a right state equal to the left state is
treated as the left state (sign -1) -/
theorem shockVel_right_degenerate (q : Prob) (hd : ¬ q.Distinct) (px : ℝ) :
    shockVel q px q.pr q.rr q.ur q.gr
      = q.ur + -1 * Real.sqrt (q.gr * q.pr / q.rr)
          * Real.sqrt ((q.gr + 1) * px / 2 / q.gr / q.pr + (q.gr - 1) / 2 / q.gr) := by
  unfold Prob.Distinct at hd
  obtain ⟨h0, h1, h2⟩ := not_not.mp hd
  simp only [shockVel, epv_tree]
  riem_side_split [toShockVel]

theorem shockVel_left_mflux (q : Prob) (hq : q.Admissible) {px : ℝ} (hpx : 0 ≤ px) :
    shockVel q px q.pl q.rl q.ul q.gl = q.ul + -1 * (mflux px q.pl q.rl q.gl / q.rl) := by
  obtain ⟨hpl, hrl, hgl, -, -, -⟩ := hq
  rw [shockVel_left, mul_assoc, vel_factor hpl hrl (by linarith) (NN_pos hpl hgl hpx)]

theorem shockVel_right_mflux (q : Prob) (hq : q.Admissible) (hd : q.Distinct) {px : ℝ} (hpx : 0 ≤ px) :
    shockVel q px q.pr q.rr q.ur q.gr = q.ur + 1 * (mflux px q.pr q.rr q.gr / q.rr) := by
  obtain ⟨-, -, -, hpr, hrr, hgr⟩ := hq
  rw [shockVel_right q hd, mul_assoc, vel_factor hpr hrr (by linarith) (NN_pos hpr hgr hpx)]

/-- algebraic core of C02: with mass flux `m`, `m² = ρ((γ+1)p* + (γ-1)p₀)/2`, the state
(p*, rho_star_shock, u₀ + σ(p*-p₀)/m) and the speed u₀ + σ m/ρ₀ satisfy the three jump
conditions of the γ-law gas (σ = -1: left-facing, σ = +1: right-facing) -/
theorem rh_core (σ : ℝ) (hσ : σ = 1 ∨ σ = -1) {p ρ u γ px m : ℝ} (hp : 0 < p) (hρ : 0 < ρ) (hγ : 1 < γ)
    (hpx : 0 < px) (hm : 0 < m) (hm2 : m ^ 2 = ρ * ((γ + 1) * px + (γ - 1) * p) / 2) :
    RH p ρ u (sie p ρ γ) px (rhoShock px p ρ γ) (u + σ * ((px - p) / m)) (sie px (rhoShock px p ρ γ) γ)
      (u + σ * (m / ρ)) := by
  obtain ⟨g, hg, rfl⟩ : ∃ g, 0 < g ∧ γ = 1 + g := ⟨γ - 1, by linarith, by ring⟩
  have hN : 0 < p * g + px * (g + 2) := by positivity
  have hρ' : ρ = 2 * m ^ 2 / (p * g + px * (g + 2)) := by
    field_simp; linear_combination (-2) * hm2
  clear hm2 hρ
  unfold RH massJump momJump energyJump
  rw [rhoShock_eq, sie_eq, sie_eq]
  subst hρ'
  have e1 : (1 + g - 1) = g := by ring
  have e2 : (1 + g + 1) = g + 2 := by ring
  simp only [e1, e2]
  have hD : 0 < px * g + p * (g + 2) := by positivity
  rcases hσ with rfl | rfl
  · refine ⟨?_, ?_, ?_⟩
    · field_simp; ring
    · field_simp; ring
    · field_simp; ring
  · refine ⟨?_, ?_, ?_⟩
    · field_simp; ring
    · field_simp; ring
    · field_simp; ring

/-! ### isentrope -/

/-- along the isentrope ρ = ρ₀ (p/p₀)^{1/γ} the sound speed is c₀ (p/p₀)^{(γ-1)/(2γ)} -/
theorem sound_on_isentrope {px p ρ γ : ℝ} (hp : 0 < p) (hρ : 0 < ρ) (hγ : 1 < γ) (hpx : 0 < px) :
    sound px (rhoRare px p ρ γ) γ = sound p ρ γ * (px / p) ^ ((γ - 1) / 2 / γ) := by
  have hγ0 : 0 < γ := by linarith
  have hz : 0 < px / p := by positivity
  rw [sound_eq, sound_eq, rhoRare_eq]
  have h1 : 0 < (px / p) ^ (1 / γ) := Real.rpow_pos_of_pos hz _
  have h2 : 0 < (px / p) ^ ((γ - 1) / 2 / γ) := Real.rpow_pos_of_pos hz _
  have key : (px / p) ^ ((γ - 1) / 2 / γ) * (px / p) ^ ((γ - 1) / 2 / γ) * (px / p) ^ (1 / γ) = px / p := by
    rw [← Real.rpow_add hz, ← Real.rpow_add hz]
    have : (γ - 1) / 2 / γ + (γ - 1) / 2 / γ + 1 / γ = 1 := by field_simp; ring
    rw [this, Real.rpow_one]
  generalize (px / p) ^ ((γ - 1) / 2 / γ) = A at *
  generalize (px / p) ^ (1 / γ) = B at *
  have hpx' : px = p * (A * A * B) := by rw [key]; field_simp
  have e : γ * px / (ρ * B) = (γ * p / ρ) * (A * A) := by
    rw [hpx']; field_simp
  rw [e, Real.sqrt_mul (by positivity), Real.sqrt_mul_self h2.le]

/-! ### the fan in closed form -/

/-- the sign `rho_p_u_rarefaction` derives from its `==` side detection: +1 on the left state -/
def fanSgn (q : Prob) (p ρ u : ℝ) : ℝ := if p = q.pl ∧ u = q.ul ∧ ρ = q.rl then 1 else -1

/-- the similarity variable of the fan, `y` in `rho_p_u_rarefaction` -/
def fanY (q : Prob) (p ρ u γ xd0 x t : ℝ) : ℝ :=
  2 / (γ + 1) + fanSgn q p ρ u * (γ - 1) / Real.sqrt (γ * p / ρ) / (γ + 1) * (u - (x - xd0) / t)

theorem fanRho_eq (q : Prob) (p ρ u γ xd0 x t : ℝ) :
    fanRho q p ρ u γ xd0 x t = ρ * fanY q p ρ u γ xd0 x t ^ (2 / (γ - 1)) := by
  simp only [fanRho, fanY, fanSgn, epv_tree]
  riem_side_split [toFan]
theorem fanP_eq (q : Prob) (p ρ u γ xd0 x t : ℝ) :
    fanP q p ρ u γ xd0 x t = p * fanY q p ρ u γ xd0 x t ^ (2 * γ / (γ - 1)) := by
  simp only [fanP, fanY, fanSgn, epv_tree]
  riem_side_split [toFan]
theorem fanU_eq (q : Prob) (p ρ u γ xd0 x t : ℝ) :
    fanU q p ρ u γ xd0 x t
      = 2 * (fanSgn q p ρ u * Real.sqrt (γ * p / ρ) + (γ - 1) * u / 2 + (x - xd0) / t) / (γ + 1) := by
  simp only [fanU, fanSgn, epv_tree]
  riem_side_split [toFan]

theorem fanSgn_left (q : Prob) : fanSgn q q.pl q.rl q.ul = 1 := by simp [fanSgn]
theorem fanSgn_right (q : Prob) (hd : q.Distinct) : fanSgn q q.pr q.rr q.ur = -1 := by
  unfold Prob.Distinct at hd; simp [fanSgn, hd]
theorem fanSgn_sq (q : Prob) (p ρ u : ℝ) : fanSgn q p ρ u = 1 ∨ fanSgn q p ρ u = -1 := by
  unfold fanSgn; split_ifs <;> simp

/-- `shock_velocity` in closed form; its sign is opposite to the fan's (-1 on the left state) -/
theorem shockVel_eq (q : Prob) (px p ρ u γ : ℝ) :
    shockVel q px p ρ u γ
      = u + -fanSgn q p ρ u * Real.sqrt (γ * p / ρ) * Real.sqrt ((γ + 1) * px / 2 / γ / p + (γ - 1) / 2 / γ) := by
  simp only [shockVel, fanSgn, epv_tree]
  riem_side_split [toShockVel]

/-! ### the hand model `EPV.Model.RiemannIG` over ℝ

The model is polymorphic; this is its real instantiation.  Each helper formula of the model
equals the generated model of the corresponding `utils.py` function, so the assembled
solution below is the composition of *traced* pieces. -/

instance : RiemannIG.Num ℝ where
  ofNat n := (n : ℝ)
  sqrt := Real.sqrt
  pow a b := a ^ b
  le a b := decide (a ≤ b)
  lt a b := decide (a < b)
  beq a b := decide (a = b)

@[simp] theorem num_ofNat (n : ℕ) : (RiemannIG.Num.ofNat n : ℝ) = (n : ℝ) := rfl
@[simp] theorem num_sqrt (x : ℝ) : RiemannIG.Num.sqrt x = Real.sqrt x := rfl
@[simp] theorem num_pow (x y : ℝ) : RiemannIG.Num.pow x y = x ^ y := rfl
@[simp] theorem num_le (x y : ℝ) : RiemannIG.Num.le x y = decide (x ≤ y) := rfl
@[simp] theorem num_lt (x y : ℝ) : RiemannIG.Num.lt x y = decide (x < y) := rfl
@[simp] theorem num_beq (x y : ℝ) : RiemannIG.Num.beq x y = decide (x = y) := rfl

def toData (q : Prob) : RiemannIG.Data ℝ :=
  { pl := q.pl, rl := q.rl, ul := q.ul, gl := q.gl, pr := q.pr, rr := q.rr, ur := q.ur, gr := q.gr }

theorem m_sound (p ρ γ : ℝ) : RiemannIG.soundSpeed p ρ γ = sound p ρ γ := by
  simp only [RiemannIG.soundSpeed, sound_eq, num_sqrt]
theorem m_sie (p ρ γ : ℝ) : RiemannIG.sie p ρ γ = sie p ρ γ := by
  simp only [RiemannIG.sie, sie_eq, num_ofNat]; norm_num
theorem m_shock (px p ρ u γ : ℝ) : RiemannIG.shock px p ρ u γ = shock px p ρ u γ := by
  simp only [RiemannIG.shock, shock_eq, num_ofNat, num_sqrt]; norm_num
theorem m_rare (px p ρ u γ : ℝ) : RiemannIG.rarefaction px p ρ u γ = rare px p ρ u γ := by
  simp only [RiemannIG.rarefaction, RiemannIG.soundSpeed, rare_eq, num_ofNat, num_sqrt, num_pow]; norm_num
theorem m_rhoShock (px p ρ γ : ℝ) : RiemannIG.rhoStarShock px p ρ γ = rhoShock px p ρ γ := by
  simp only [RiemannIG.rhoStarShock, rhoShock_eq, num_ofNat]; norm_num
theorem m_rhoRare (px p ρ γ : ℝ) : RiemannIG.rhoStarRarefaction px p ρ γ = rhoRare px p ρ γ := by
  simp only [RiemannIG.rhoStarRarefaction, rhoRare_eq, num_ofNat, num_pow]; norm_num

theorem m_shockVel (q : Prob) (px p ρ u γ : ℝ) :
    RiemannIG.shockVelocity (toData q) px p ρ u γ = shockVel q px p ρ u γ := by
  rw [shockVel_eq]
  simp only [RiemannIG.shockVelocity, RiemannIG.isLeft, RiemannIG.soundSpeed, toData, fanSgn,
    num_ofNat, num_sqrt, num_beq]
  by_cases h0 : p = q.pl <;> by_cases h1 : u = q.ul <;> by_cases h2 : ρ = q.rl <;> simp [h0, h1, h2]

theorem m_fanP (q : Prob) (p ρ u γ x xd0 t : ℝ) :
    (RiemannIG.fanState (toData q) p ρ u γ x xd0 t).p = fanP q p ρ u γ xd0 x t := by
  rw [fanP_eq]
  simp only [RiemannIG.fanState, RiemannIG.isLeft, RiemannIG.soundSpeed, toData, fanY, fanSgn,
    num_ofNat, num_sqrt, num_beq, num_pow]
  by_cases h0 : p = q.pl <;> by_cases h1 : u = q.ul <;> by_cases h2 : ρ = q.rl <;> simp [h0, h1, h2]
theorem m_fanRho (q : Prob) (p ρ u γ x xd0 t : ℝ) :
    (RiemannIG.fanState (toData q) p ρ u γ x xd0 t).r = fanRho q p ρ u γ xd0 x t := by
  rw [fanRho_eq]
  simp only [RiemannIG.fanState, RiemannIG.isLeft, RiemannIG.soundSpeed, toData, fanY, fanSgn,
    num_ofNat, num_sqrt, num_beq, num_pow]
  by_cases h0 : p = q.pl <;> by_cases h1 : u = q.ul <;> by_cases h2 : ρ = q.rl <;> simp [h0, h1, h2]
theorem m_fanU (q : Prob) (p ρ u γ x xd0 t : ℝ) :
    (RiemannIG.fanState (toData q) p ρ u γ x xd0 t).u = fanU q p ρ u γ xd0 x t := by
  rw [fanU_eq]
  simp only [RiemannIG.fanState, RiemannIG.isLeft, RiemannIG.soundSpeed, toData, fanSgn,
    num_ofNat, num_sqrt, num_beq, num_pow]
  by_cases h0 : p = q.pl <;> by_cases h1 : u = q.ul <;> by_cases h2 : ρ = q.rl <;> simp [h0, h1, h2]
theorem m_fanE (q : Prob) (p ρ u γ x xd0 t : ℝ) :
    (RiemannIG.fanState (toData q) p ρ u γ x xd0 t).e
      = sie (fanP q p ρ u γ xd0 x t) (fanRho q p ρ u γ xd0 x t) γ := by
  rw [← m_fanP, ← m_fanRho, ← m_sie]; rfl

theorem m_uSCN (q : Prob) (px : ℝ) : RiemannIG.uSCN (toData q) px = uSCN q px := by
  simp only [RiemannIG.uSCN, RiemannIG.soundSpeed, toData, uSCN_eq, num_ofNat, num_sqrt]
  norm_num
theorem m_uNCS (q : Prob) (px : ℝ) : RiemannIG.uNCS (toData q) px = uNCS q px := by
  simp only [RiemannIG.uNCS, RiemannIG.soundSpeed, toData, uNCS_eq, num_ofNat, num_sqrt]
  norm_num
theorem m_uNCR (q : Prob) (px : ℝ) : RiemannIG.uNCR (toData q) px = uNCR q px := by
  simp only [RiemannIG.uNCR, RiemannIG.soundSpeed, toData, uNCR_eq, num_ofNat, num_sqrt, num_pow]
  norm_num
theorem m_uRCN (q : Prob) (px : ℝ) : RiemannIG.uRCN (toData q) px = uRCN q px := by
  simp only [RiemannIG.uRCN, RiemannIG.soundSpeed, toData, uRCN_eq, num_ofNat, num_sqrt, num_pow]
  norm_num
theorem m_uRCVR (q : Prob) (px : ℝ) : RiemannIG.uRCVR (toData q) px = uRCVR q px := by
  simp only [RiemannIG.uRCVR, RiemannIG.soundSpeed, toData, uRCVR_eq, num_ofNat, num_sqrt]
  norm_num

/-! ### the model's star states and region speeds in terms of the generated helpers -/

/-- the star velocity as the driver computes it (from the LEFT wave): shock, resp. fan -/
def uxS (q : Prob) (px : ℝ) : ℝ := q.ul + -1 * shock px q.pl q.rl 0 q.gl
def uxF (q : Prob) (px : ℝ) : ℝ := q.ul + 1 * rare px q.pl q.rl 0 q.gl

theorem starL_shock (q : Prob) (px : ℝ) (pat : RiemannIG.Pattern) (h : pat = .SCS ∨ pat = .SCR) :
    RiemannIG.starL (toData q) pat px
      = { p := px, r := rhoShock px q.pl q.rl q.gl, u := uxS q px, e := sie px (rhoShock px q.pl q.rl q.gl) q.gl } := by
  rcases h with rfl | rfl <;>
  simp only [RiemannIG.starL, RiemannIG.ux, RiemannIG.rx1, m_shock, m_sie, m_rhoShock, toData, uxS, num_ofNat,
    Nat.cast_one, Nat.cast_zero]

theorem starL_fan (q : Prob) (px : ℝ) (pat : RiemannIG.Pattern) (h : pat = .RCS ∨ pat = .RCR) :
    RiemannIG.starL (toData q) pat px
      = { p := px, r := rhoRare px q.pl q.rl q.gl, u := uxF q px, e := sie px (rhoRare px q.pl q.rl q.gl) q.gl } := by
  rcases h with rfl | rfl <;>
  simp only [RiemannIG.starL, RiemannIG.ux, RiemannIG.rx1, m_rare, m_sie, m_rhoRare, toData, uxF, num_ofNat,
    Nat.cast_one, Nat.cast_zero]

theorem starR_shock (q : Prob) (px : ℝ) (pat : RiemannIG.Pattern) (h : pat = .SCS ∨ pat = .RCS) :
    RiemannIG.starR (toData q) pat px
      = { p := px, r := rhoShock px q.pr q.rr q.gr, u := RiemannIG.ux (toData q) pat px,
          e := sie px (rhoShock px q.pr q.rr q.gr) q.gr } := by
  rcases h with rfl | rfl <;>
  simp only [RiemannIG.starR, RiemannIG.rx2, m_sie, m_rhoShock, toData]

theorem starR_fan (q : Prob) (px : ℝ) (pat : RiemannIG.Pattern) (h : pat = .SCR ∨ pat = .RCR) :
    RiemannIG.starR (toData q) pat px
      = { p := px, r := rhoRare px q.pr q.rr q.gr, u := RiemannIG.ux (toData q) pat px,
          e := sie px (rhoRare px q.pr q.rr q.gr) q.gr } := by
  rcases h with rfl | rfl <;>
  simp only [RiemannIG.starR, RiemannIG.rx2, m_sie, m_rhoRare, toData]

theorem ux_shock (q : Prob) (px : ℝ) (pat : RiemannIG.Pattern) (h : pat = .SCS ∨ pat = .SCR) :
    RiemannIG.ux (toData q) pat px = uxS q px := by
  rcases h with rfl | rfl <;>
  simp only [RiemannIG.ux, m_shock, toData, uxS, num_ofNat, Nat.cast_one, Nat.cast_zero]
theorem ux_fan (q : Prob) (px : ℝ) (pat : RiemannIG.Pattern) (h : pat = .RCS ∨ pat = .RCR) :
    RiemannIG.ux (toData q) pat px = uxF q px := by
  rcases h with rfl | rfl <;>
  simp only [RiemannIG.ux, m_rare, toData, uxF, num_ofNat, Nat.cast_one, Nat.cast_zero]

theorem leftState_eq (q : Prob) :
    RiemannIG.leftState (toData q) = { p := q.pl, r := q.rl, u := q.ul, e := sie q.pl q.rl q.gl } := by
  simp only [RiemannIG.leftState, m_sie, toData]
theorem rightState_eq (q : Prob) :
    RiemannIG.rightState (toData q) = { p := q.pr, r := q.rr, u := q.ur, e := sie q.pr q.rr q.gr } := by
  simp only [RiemannIG.rightState, m_sie, toData]

theorem vregs_SCS (q : Prob) (px : ℝ) :
    RiemannIG.vregs (toData q) .SCS px
      = [shockVel q px q.pl q.rl q.ul q.gl, uxS q px, shockVel q px q.pr q.rr q.ur q.gr] := by
  simp only [RiemannIG.vregs, ← ux_shock q px .SCS (Or.inl rfl), m_shockVel]; rfl
theorem vregs_SCR (q : Prob) (px : ℝ) :
    RiemannIG.vregs (toData q) .SCR px
      = [shockVel q px q.pl q.rl q.ul q.gl, uxS q px, uxS q px + sound px (rhoRare px q.pr q.rr q.gr) q.gr,
         q.ur + sound q.pr q.rr q.gr] := by
  simp only [RiemannIG.vregs, ← ux_shock q px .SCR (Or.inr rfl), m_shockVel, m_sound, RiemannIG.rx2, m_rhoRare]; rfl
theorem vregs_RCS (q : Prob) (px : ℝ) :
    RiemannIG.vregs (toData q) .RCS px
      = [q.ul - sound q.pl q.rl q.gl, uxF q px - sound px (rhoRare px q.pl q.rl q.gl) q.gl, uxF q px,
         shockVel q px q.pr q.rr q.ur q.gr] := by
  simp only [RiemannIG.vregs, ← ux_fan q px .RCS (Or.inl rfl), m_shockVel, m_sound, RiemannIG.rx1, m_rhoRare]; rfl
theorem vregs_RCR (q : Prob) (px : ℝ) :
    RiemannIG.vregs (toData q) .RCR px
      = [q.ul - sound q.pl q.rl q.gl, uxF q px - sound px (rhoRare px q.pl q.rl q.gl) q.gl, uxF q px,
         uxF q px + sound px (rhoRare px q.pr q.rr q.gr) q.gr, q.ur + sound q.pr q.rr q.gr] := by
  simp only [RiemannIG.vregs, ← ux_fan q px .RCR (Or.inr rfl), m_sound, RiemannIG.rx1, RiemannIG.rx2, m_rhoRare]; rfl

/-! ### relating two runs of the assembly -/

/-- two runs of the `reg_state` sequence whose boundary tests agree pairwise and whose installed
states correspond under `f` end in the same region with corresponding states -/
theorem assemble_rel (f : RiemannIG.State ℝ → RiemannIG.State ℝ) (x x' : ℝ) :
    ∀ (Xs Xs' : List ℝ) (ss ss' : List (RiemannIG.State ℝ)) (i : ℕ) (cur : ℕ × RiemannIG.State ℝ),
      List.Forall₂ (fun X X' => (X' ≤ x' ↔ X ≤ x)) Xs Xs' → List.Forall₂ (fun s s' => s' = f s) ss ss' →
      RiemannIG.assemble x' Xs' ss' i (cur.1, f cur.2)
        = ((RiemannIG.assemble x Xs ss i cur).1, f (RiemannIG.assemble x Xs ss i cur).2) := by
  intro Xs Xs' ss ss' i cur hX
  induction hX generalizing ss ss' i cur with
  | nil => intro _; simp [RiemannIG.assemble]
  | @cons X X' Xs Xs' hXX' _ ih =>
    intro hs
    cases hs with
    | nil => simp [RiemannIG.assemble]
    | @cons s s' ss ss' hss' hrest =>
      subst hss'
      simp only [RiemannIG.assemble, num_le]
      by_cases h : X ≤ x
      · have h' : X' ≤ x' := hXX'.mpr h
        simp only [h, h', decide_true, if_true]
        exact ih ss ss' (i + 1) (i + 1, s) hrest
      · have h' : ¬ X' ≤ x' := fun hh => h (hXX'.mp hh)
        simp only [h, h', decide_false, if_false]
        exact ih ss ss' (i + 1) cur hrest

theorem state_ext {s s' : RiemannIG.State ℝ} (hp : s.p = s'.p) (hr : s.r = s'.r) (hu : s.u = s'.u) (he : s.e = s'.e) :
    s = s' := by
  cases s; cases s'; simp_all

/-- the fan entry of the `reg_state` sequence in terms of the generated fan model -/
theorem fanState_eq (q : Prob) (p ρ u γ x xd0 t : ℝ) :
    RiemannIG.fanState (toData q) p ρ u γ x xd0 t
      = { p := fanP q p ρ u γ xd0 x t, r := fanRho q p ρ u γ xd0 x t, u := fanU q p ρ u γ xd0 x t,
          e := sie (fanP q p ρ u γ xd0 x t) (fanRho q p ρ u γ xd0 x t) γ } :=
  state_ext (m_fanP ..) (m_fanRho ..) (m_fanU ..) (m_fanE ..)

/-! ### the classification chain on abstract thresholds -/

/-- the driver's `if/elif` chain on abstract threshold values a = u_SCN, b = u_NCS, c = u_NCR,
d = u_RCN, e = u_RCVR (all evaluated at `pr`) -/
def chain (pl pr ur a b c d e : ℝ) : RiemannIG.Pattern :=
  if (pl ≤ pr ∧ ur ≤ a) ∨ (pr < pl ∧ ur ≤ b) then .SCS
  else if pl ≤ pr ∧ (a < ur ∧ ur ≤ c) then .SCR
  else if pr < pl ∧ (b < ur ∧ ur ≤ d) then .RCS
  else if (pl ≤ pr ∧ (c < ur ∧ ur ≤ e)) ∨ (pr < pl ∧ (d < ur ∧ ur ≤ e)) then .RCR
  else if e < ur then .RCVCR else .none

/-- the model's classification is the chain on the generated classification speeds -/
theorem classify_eq (q : Prob) :
    RiemannIG.classify (toData q)
      = chain q.pl q.pr q.ur (uSCN q q.pr) (uNCS q q.pr) (uNCR q q.pr) (uRCN q q.pr) (uRCVR q q.pr) := by
  have d5 : (toData q).pr = q.pr := rfl
  have d1 : (toData q).pl = q.pl := rfl
  have d7 : (toData q).ur = q.ur := rfl
  simp only [RiemannIG.classify, chain, m_uSCN, m_uNCS, m_uNCR, m_uRCN, m_uRCVR, d1, d5, d7, num_le, num_lt,
    Bool.or_eq_true, Bool.and_eq_true, decide_eq_true_eq]

/-- mirror image of a wave pattern -/
def mirrorPat : RiemannIG.Pattern → RiemannIG.Pattern
  | .SCR => .RCS
  | .RCS => .SCR
  | p => p

/-- the solver's answer at one point, over ℝ: pattern, region index, (p, ρ, u, e) -/
def solve (q : Prob) (px xd0 x t : ℝ) : RiemannIG.Pattern × ℕ × RiemannIG.State ℝ :=
  RiemannIG.solve (toData q) px xd0 x t

end

end EPV.Riem
