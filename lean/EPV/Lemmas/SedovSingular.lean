/-
Sedov, singular solution type: the closed-form similarity functions f = λ, g = λ^(k-2), h = λ^k
(generated model SedovSingular of `sedov_funcs_singular`, evaluated with r2 = 1 so that the
argument is λ), their two λ-space energy integrals and the mass integral, and the closed forms
`__init__` codes for eval1, eval2, alpha (sedov.py:143-150).  Shared by Props/C11/Sedov.lean and
Props/C11/SedovAlpha.lean.
-/
import EPV.Gen.SedovSingular
import EPV.Spec.Sedov
import EPV.Tactics
import Mathlib.Analysis.SpecialFunctions.Integrals.Basic

set_option linter.all false
set_option maxRecDepth 100000

open EPV EPV.Gen EPV.Spec.Sedov MeasureTheory

namespace EPV.Sedov

noncomputable section

/-- the singular similarity functions (generated SedovSingular with r2 = 1, i.e. functions of λ) -/
def fS (k : ℕ) : ℝ → ℝ := fun x => SedovSingular.f_fun ⟨k, 1⟩ x
def gS (k : ℕ) : ℝ → ℝ := fun x => SedovSingular.g_fun ⟨k, 1⟩ x
def hS (k : ℕ) : ℝ → ℝ := fun x => SedovSingular.h_fun ⟨k, 1⟩ x

theorem singular_leaves : SedovSingular.okLeaves = [0] := rfl

/-- ∫₀¹ g f² λ^(k-1) = ∫₀¹ h λ^(k-1) = 1/(2k) for the singular functions -/
theorem singular_integrals (k : ℕ) (hk : k = 1 ∨ k = 2 ∨ k = 3) :
    J1 k (fS k) (gS k) = 1 / (2 * k) ∧ J2 k (hS k) = 1 / (2 * k) := by
  unfold J1 J2 fS gS hS
  simp only [epv_tree, epv_leaf, div_one]
  rcases hk with rfl | rfl | rfl
  · constructor
    · have : ∫ x in (0:ℝ)..1, x ^ (((1:ℕ):ℝ) - 2) * x ^ 2 * x ^ (1 - 1) = ∫ x in (0:ℝ)..1, x := by
        apply intervalIntegral.integral_congr_ae
        refine Filter.Eventually.of_forall fun x hx => ?_
        rw [Set.uIoc_of_le zero_le_one] at hx
        have e : ((1:ℕ):ℝ) - 2 = -1 := by norm_num
        rw [e, Real.rpow_neg_one, Nat.sub_self, pow_zero, mul_one]
        field_simp [hx.1.ne']
      rw [this]; simp
    · have : ∫ x in (0:ℝ)..1, x ^ ((1:ℕ):ℝ) * x ^ (1 - 1) = ∫ x in (0:ℝ)..1, x := by
        congr 1; funext x; simp
      rw [this]; simp
  · constructor
    · have : ∫ x in (0:ℝ)..1, x ^ (((2:ℕ):ℝ) - 2) * x ^ 2 * x ^ (2 - 1) = ∫ x in (0:ℝ)..1, x ^ 3 := by
        congr 1; funext x
        have e : ((2:ℕ):ℝ) - 2 = 0 := by norm_num
        rw [e, Real.rpow_zero]; ring
      rw [this, integral_pow]; norm_num
    · have : ∫ x in (0:ℝ)..1, x ^ ((2:ℕ):ℝ) * x ^ (2 - 1) = ∫ x in (0:ℝ)..1, x ^ 3 := by
        congr 1; funext x
        rw [Real.rpow_natCast]; ring
      rw [this, integral_pow]; norm_num
  · constructor
    · have : ∫ x in (0:ℝ)..1, x ^ (((3:ℕ):ℝ) - 2) * x ^ 2 * x ^ (3 - 1) = ∫ x in (0:ℝ)..1, x ^ 5 := by
        congr 1; funext x
        have e : ((3:ℕ):ℝ) - 2 = 1 := by norm_num
        rw [e, Real.rpow_one]; ring
      rw [this, integral_pow]; norm_num
    · have : ∫ x in (0:ℝ)..1, x ^ ((3:ℕ):ℝ) * x ^ (3 - 1) = ∫ x in (0:ℝ)..1, x ^ 5 := by
        congr 1; funext x
        rw [Real.rpow_natCast]; ring
      rw [this, integral_pow]; norm_num

/-- closed forms of sedov.py:143-150 = the definitions, when v2 = vstar exactly -/
theorem singular_closed_forms (k : ℕ) (hk : k = 1 ∨ k = 2 ∨ k = 3) (γ ω : ℝ) (hγ : 1 < γ)
    (hx : (k : ℝ) + 2 - ω ≠ 0)
    (hsing : 4 / (((k : ℝ) + 2 - ω) * (γ + 1)) = 2 / ((γ - 1) * k + 2)) :
    eval2 k γ ω (hS k) = (γ + 1) / (k * ((γ - 1) * k + 2) ^ 2) ∧
    eval1 k γ ω (fS k) (gS k) = 2 / (γ - 1) * ((γ + 1) / (k * ((γ - 1) * k + 2) ^ 2)) ∧
    alphaCode k γ (eval1 k γ ω (fS k) (gS k)) (eval2 k γ ω (hS k))
      = (γ + 1) / (γ - 1) * 2 ^ k / (k * ((γ - 1) * k + 2) ^ 2) * (if k = 1 then 1 else Real.pi) := by
  obtain ⟨h1, h2⟩ := singular_integrals k hk
  have hγ1 : γ - 1 ≠ 0 := by linarith
  have hγ2 : γ + 1 ≠ 0 := by linarith
  have hk0 : (k : ℝ) ≠ 0 := by rcases hk with rfl | rfl | rfl <;> norm_num
  have hkpos : (0 : ℝ) < k := by rcases hk with rfl | rfl | rfl <;> norm_num
  have hd : (γ - 1) * k + 2 ≠ 0 := by
    have : 0 < (γ - 1) * k := mul_pos (by linarith) hkpos
    linarith
  -- v2 = vstar  ⟺  (k+2-ω)(γ+1) = 2((γ-1)k + 2)
  have hrel : ((k : ℝ) + 2 - ω) * (γ + 1) = 2 * ((γ - 1) * k + 2) := by
    rw [div_eq_div_iff (mul_ne_zero hx hγ2) hd] at hsing
    linarith
  have hX : (k : ℝ) + 2 - ω = 2 * ((γ - 1) * k + 2) / (γ + 1) := by
    field_simp; linarith
  unfold eval1 eval2 alphaCode
  rw [h1, h2, hX]
  refine ⟨?_, ?_, ?_⟩
  · field_simp; norm_num
  · field_simp; ring
  · rcases hk with rfl | rfl | rfl
    · simp only [Nat.cast_one, if_true]; field_simp; ring
    · rw [if_neg (by norm_num), if_neg (by norm_num)]; push_cast; field_simp; ring
    · rw [if_neg (by norm_num), if_neg (by norm_num)]; push_cast; field_simp; norm_num

/-- the mass integral of the singular density function: ∫₀¹ g λ^(k-1) = 1/(2(k-1)), k = 2, 3 -/
theorem singular_mass_integral (k : ℕ) (hk : k = 2 ∨ k = 3) :
    ∫ x in (0:ℝ)..1, gS k x * x ^ (k - 1) = 1 / (2 * ((k : ℝ) - 1)) := by
  unfold gS
  simp only [epv_tree, epv_leaf, div_one]
  rcases hk with rfl | rfl
  · have : ∫ x in (0:ℝ)..1, x ^ (((2:ℕ):ℝ) - 2) * x ^ (2 - 1) = ∫ x in (0:ℝ)..1, x := by
      congr 1; funext x
      have e : ((2:ℕ):ℝ) - 2 = 0 := by norm_num
      rw [e, Real.rpow_zero]; ring
    rw [this]; norm_num
  · have : ∫ x in (0:ℝ)..1, x ^ (((3:ℕ):ℝ) - 2) * x ^ (3 - 1) = ∫ x in (0:ℝ)..1, x ^ 3 := by
      congr 1; funext x
      have e : ((3:ℕ):ℝ) - 2 = 1 := by norm_num
      rw [e, Real.rpow_one]; ring
    rw [this, integral_pow]; norm_num

/-- the two energy integrands of the singular functions are integrable on [0,1] (k = 2, 3) -/
theorem singular_integrable (k : ℕ) (hk : k = 2 ∨ k = 3) :
    IntervalIntegrable (fun x => gS k x * fS k x ^ 2 * x ^ (k - 1)) volume 0 1 ∧
    IntervalIntegrable (fun x => hS k x * x ^ (k - 1)) volume 0 1 := by
  unfold fS gS hS
  simp only [epv_tree, epv_leaf, div_one]
  rcases hk with rfl | rfl
  · constructor
    · apply Continuous.intervalIntegrable
      have e : ((2:ℕ):ℝ) - 2 = 0 := by norm_num
      simp only [e, Real.rpow_zero]; fun_prop
    · apply Continuous.intervalIntegrable
      simp only [Real.rpow_natCast]; fun_prop
  · constructor
    · apply Continuous.intervalIntegrable
      have e : ((3:ℕ):ℝ) - 2 = 1 := by norm_num
      simp only [e, Real.rpow_one]; fun_prop
    · apply Continuous.intervalIntegrable
      simp only [Real.rpow_natCast]; fun_prop

end

end EPV.Sedov
