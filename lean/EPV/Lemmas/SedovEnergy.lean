/-
Sedov (C11 growth, work package sedov3): the two energy integrals of one solution branch, for
abstract parametric similarity functions, and the energy theorem they feed.

A branch is an interval a < v < b of the similarity velocity on which
  * λ = L(v) is continuous on [a, b], differentiable inside with L' of one strict sign, L > 0 inside;
  * the density similarity function G ≥ 0 has an interval-integrable MASS INTEGRAND G L^(k-1) L' — from
    the EXACT MASS DIFFERENTIAL of wp sedov2, Mf' = κ G L^(k-1) L' with Mf continuous on [a, b]
    (`mass_integrable_of_exact_*`; this is what makes the kinetic integrand integrable although G may be
    unbounded at the singular end), or simply from continuity of G on [a, b]
    (`mass_integrable_of_continuous`: the bands off the special ω, where no exact differential exists);
  * the velocity similarity function is F = A·L with A (= a_val·v) continuous on [a, b];
  * the pressure similarity function H is continuous on [a, b].
Then (`branch_mono`, `branch_anti`) for ANY f, g, h with f∘L = A·L, g∘L = G, h∘L = H inside:
the v-space integrands  G (A L)² L^(k-1) L'  and  H L^(k-1) L'  are interval integrable on [a, b],
the λ-space integrands  g f² x^(k-1)  and  h x^(k-1)  are interval integrable between L a and L b,
and the integrals agree — no integrability or limit hypothesis is left.

`extend_hole`: an integrand that vanishes on (0, ℓ) (the vacuum hole) is integrable on [0, 1] as soon
as it is on [ℓ, 1], with the same integral.

`energy_of_alpha`: the energy theorem for arbitrary similarity functions (the statement of
`EPV.C11.sedov_energy`, Props/C11/Sedov.lean; Props files are leaves, so the proof is repeated here,
as wp sedov2 did for `mass_iff_integral`), and `alphaCode_pos`.
-/
import EPV.Lemmas.SedovEnergyAbstract
import EPV.Lemmas.SedovFields
import EPV.Spec.Sedov

set_option linter.all false

open EPV EPV.Gen EPV.Spec.Sedov EPV.Lemmas.Sedov EPV.Sedov MeasureTheory Set intervalIntegral

namespace EPV.Sedov.Energy

noncomputable section

/-- the v-space kinetic-energy integrand G (A L)² L^(k-1) L' -/
def psi1 (L L' G Av : ℝ → ℝ) (kn : ℕ) (v : ℝ) : ℝ := G v * (Av v * L v) ^ 2 * L v ^ (kn - 1) * L' v
/-- the v-space internal-energy integrand H L^(k-1) L' -/
def psi2 (L L' H : ℝ → ℝ) (kn : ℕ) (v : ℝ) : ℝ := H v * L v ^ (kn - 1) * L' v

/-- what a branch provides, apart from the sign of L' -/
structure Branch (a b : ℝ) (L L' G H Av : ℝ → ℝ) (kn : ℕ) : Prop where
  hab : a < b
  h1 : 1 ≤ kn
  Lc : ContinuousOn L (Icc a b)
  Ld : ∀ v ∈ Ioo a b, HasDerivAt L (L' v) v
  Lpos : ∀ v ∈ Ioo a b, 0 < L v
  Gnn : ∀ v ∈ Ioo a b, 0 ≤ G v
  Ki : IntervalIntegrable (fun v => G v * L v ^ (kn - 1) * L' v) volume a b
  Ac : ContinuousOn Av (Icc a b)
  Hc : ContinuousOn H (Icc a b)

/-- the mass integrand is integrable when it is a non-negative exact differential (wp sedov2) -/
theorem mass_integrable_of_exact_nonneg {a b : ℝ} (hab : a ≤ b) {L L' G Mf : ℝ → ℝ} {kn : ℕ} {κ : ℝ} (hκ : 0 < κ)
    (Mc : ContinuousOn Mf (Icc a b)) (Md : ∀ v ∈ Ioo a b, HasDerivAt Mf (κ * (G v * L v ^ (kn - 1)) * L' v) v)
    (hnn : ∀ v ∈ Ioo a b, 0 ≤ G v * L v ^ (kn - 1) * L' v) :
    IntervalIntegrable (fun v => G v * L v ^ (kn - 1) * L' v) volume a b := by
  have h := integrable_mul_deriv_nonneg hab (B := fun _ => 1 / κ) Mc Md
    (fun v hv => by have := mul_nonneg hκ.le (hnn v hv); linarith [this]) continuousOn_const
  refine h.congr ?_
  intro v _
  have := hκ.ne'
  simp only; field_simp

/-- the same for a non-positive exact differential (decreasing branch) -/
theorem mass_integrable_of_exact_nonpos {a b : ℝ} (hab : a ≤ b) {L L' G Mf : ℝ → ℝ} {kn : ℕ} {κ : ℝ} (hκ : 0 < κ)
    (Mc : ContinuousOn Mf (Icc a b)) (Md : ∀ v ∈ Ioo a b, HasDerivAt Mf (κ * (G v * L v ^ (kn - 1)) * L' v) v)
    (hnp : ∀ v ∈ Ioo a b, G v * L v ^ (kn - 1) * L' v ≤ 0) :
    IntervalIntegrable (fun v => G v * L v ^ (kn - 1) * L' v) volume a b := by
  have h := integrable_mul_deriv_nonpos hab (B := fun _ => 1 / κ) Mc Md
    (fun v hv => by have := mul_nonneg hκ.le (neg_nonneg.mpr (hnp v hv)); linarith [this]) continuousOn_const
  refine h.congr ?_
  intro v _
  have := hκ.ne'
  simp only; field_simp

/-- the mass integrand is integrable when G is continuous on the closed branch (L' of either sign) -/
theorem mass_integrable_of_continuous {a b : ℝ} (hab : a ≤ b) {L L' G : ℝ → ℝ} {kn : ℕ} (h1 : 1 ≤ kn)
    (Lc : ContinuousOn L (Icc a b)) (Ld : ∀ v ∈ Ioo a b, HasDerivAt L (L' v) v) (Lpos : ∀ v ∈ Ioo a b, 0 < L v)
    (hL' : (∀ v ∈ Ioo a b, 0 ≤ L' v) ∨ (∀ v ∈ Ioo a b, L' v ≤ 0)) (Gc : ContinuousOn G (Icc a b)) :
    IntervalIntegrable (fun v => G v * L v ^ (kn - 1) * L' v) volume a b := by
  have hd : ∀ v ∈ Ioo a b, HasDerivAt (fun v => L v ^ kn / kn) (L v ^ (kn - 1) * L' v) v := by
    intro v hv
    have hk0 : (kn : ℝ) ≠ 0 := by positivity
    have := ((Ld v hv).pow kn).div_const (kn : ℝ)
    refine this.congr_deriv ?_
    field_simp
  have h : IntervalIntegrable (fun v => G v * (L v ^ (kn - 1) * L' v)) volume a b := by
    rcases hL' with hp | hn
    · exact integrable_mul_deriv_nonneg hab ((Lc.pow kn).div_const _) hd
        (fun v hv => mul_nonneg (pow_nonneg (Lpos v hv).le _) (hp v hv)) Gc
    · exact integrable_mul_deriv_nonpos hab ((Lc.pow kn).div_const _) hd
        (fun v hv => mul_nonpos_of_nonneg_of_nonpos (pow_nonneg (Lpos v hv).le _) (hn v hv)) Gc
  refine h.congr ?_
  intro v _
  simp only; ring

theorem Branch.powDeriv {a b : ℝ} {L L' G H Av : ℝ → ℝ} {kn : ℕ} (Br : Branch a b L L' G H Av kn) :
    ∀ v ∈ Ioo a b, HasDerivAt (fun v => L v ^ kn / kn) (L v ^ (kn - 1) * L' v) v := by
  intro v hv
  have hk0 : (kn : ℝ) ≠ 0 := by have := Br.h1; positivity
  have := ((Br.Ld v hv).pow kn).div_const (kn : ℝ)
  refine this.congr_deriv ?_
  field_simp

/-- the two v-space integrands are interval integrable: increasing branch -/
theorem Branch.integrable_mono {a b : ℝ} {L L' G H Av : ℝ → ℝ} {kn : ℕ} (Br : Branch a b L L' G H Av kn)
    (hL' : ∀ v ∈ Ioo a b, 0 < L' v) :
    IntervalIntegrable (psi1 L L' G Av kn) volume a b ∧ IntervalIntegrable (psi2 L L' H kn) volume a b := by
  constructor
  · have h := Br.Ki.continuousOn_mul (g := fun v => (Av v * L v) ^ 2)
      (by rw [uIcc_of_le Br.hab.le]; exact (Br.Ac.mul Br.Lc).pow 2)
    refine h.congr ?_
    intro v _
    simp only [psi1]; ring
  · have h := integrable_mul_deriv_nonneg Br.hab.le (B := H) ((Br.Lc.pow kn).div_const _) Br.powDeriv
      (fun v hv => mul_nonneg (pow_nonneg (Br.Lpos v hv).le _) (hL' v hv).le) Br.Hc
    refine h.congr ?_
    intro v _
    simp only [psi2]; ring

/-- the two v-space integrands are interval integrable: decreasing branch -/
theorem Branch.integrable_anti {a b : ℝ} {L L' G H Av : ℝ → ℝ} {kn : ℕ} (Br : Branch a b L L' G H Av kn)
    (hL' : ∀ v ∈ Ioo a b, L' v < 0) :
    IntervalIntegrable (psi1 L L' G Av kn) volume a b ∧ IntervalIntegrable (psi2 L L' H kn) volume a b := by
  constructor
  · have h := Br.Ki.continuousOn_mul (g := fun v => (Av v * L v) ^ 2)
      (by rw [uIcc_of_le Br.hab.le]; exact (Br.Ac.mul Br.Lc).pow 2)
    refine h.congr ?_
    intro v _
    simp only [psi1]; ring
  · have h := integrable_mul_deriv_nonpos Br.hab.le (B := H) ((Br.Lc.pow kn).div_const _) Br.powDeriv
      (fun v hv => mul_nonpos_of_nonneg_of_nonpos (pow_nonneg (Br.Lpos v hv).le _) (hL' v hv).le) Br.Hc
    refine h.congr ?_
    intro v _
    simp only [psi2]; ring

/-- **the two energy integrals of an increasing branch** (standard solution type) -/
theorem branch_mono {a b : ℝ} {L L' G H Av : ℝ → ℝ} {kn : ℕ} (Br : Branch a b L L' G H Av kn)
    (hL' : ∀ v ∈ Ioo a b, 0 < L' v) (f g h : ℝ → ℝ)
    (hf : ∀ v ∈ Ioo a b, f (L v) = Av v * L v) (hg : ∀ v ∈ Ioo a b, g (L v) = G v) (hh : ∀ v ∈ Ioo a b, h (L v) = H v) :
    (IntervalIntegrable (fun x => g x * f x ^ 2 * x ^ (kn - 1)) volume (L a) (L b) ∧
      ∫ x in (L a)..(L b), g x * f x ^ 2 * x ^ (kn - 1) = ∫ v in a..b, psi1 L L' G Av kn v) ∧
    (IntervalIntegrable (fun x => h x * x ^ (kn - 1)) volume (L a) (L b) ∧
      ∫ x in (L a)..(L b), h x * x ^ (kn - 1) = ∫ v in a..b, psi2 L L' H kn v) := by
  obtain ⟨i1, i2⟩ := Br.integrable_mono hL'
  constructor
  · exact subst_mono Br.hab.le Br.Lc Br.Ld (fun v hv => (hL' v hv).le) i1
      (fun v hv => by simp only [psi1]; rw [hf v hv, hg v hv])
  · exact subst_mono Br.hab.le Br.Lc Br.Ld (fun v hv => (hL' v hv).le) i2
      (fun v hv => by simp only [psi2]; rw [hh v hv])

/-- **the two energy integrals of a decreasing branch** (vacuum solution type), oriented the way
`__init__` integrates: from v = b (= vv, the vacuum boundary) to v = a (= v2, the shock) -/
theorem branch_anti {a b : ℝ} {L L' G H Av : ℝ → ℝ} {kn : ℕ} (Br : Branch a b L L' G H Av kn)
    (hL' : ∀ v ∈ Ioo a b, L' v < 0) (f g h : ℝ → ℝ)
    (hf : ∀ v ∈ Ioo a b, f (L v) = Av v * L v) (hg : ∀ v ∈ Ioo a b, g (L v) = G v) (hh : ∀ v ∈ Ioo a b, h (L v) = H v) :
    (IntervalIntegrable (fun x => g x * f x ^ 2 * x ^ (kn - 1)) volume (L b) (L a) ∧
      ∫ x in (L b)..(L a), g x * f x ^ 2 * x ^ (kn - 1) = ∫ v in b..a, psi1 L L' G Av kn v) ∧
    (IntervalIntegrable (fun x => h x * x ^ (kn - 1)) volume (L b) (L a) ∧
      ∫ x in (L b)..(L a), h x * x ^ (kn - 1) = ∫ v in b..a, psi2 L L' H kn v) := by
  obtain ⟨i1, i2⟩ := Br.integrable_anti hL'
  constructor
  · exact subst_anti Br.hab.le Br.Lc Br.Ld (fun v hv => (hL' v hv).le) i1
      (fun v hv => by simp only [psi1]; rw [hf v hv, hg v hv])
  · exact subst_anti Br.hab.le Br.Lc Br.Ld (fun v hv => (hL' v hv).le) i2
      (fun v hv => by simp only [psi2]; rw [hh v hv])

/-- an integrand that is non-negative strictly inside has a non-negative interval integral -/
theorem integral_nonneg_of_Ioo {F : ℝ → ℝ} {a b : ℝ} (hab : a ≤ b) (h : ∀ v ∈ Ioo a b, 0 ≤ F v) :
    0 ≤ ∫ v in a..b, F v := by
  apply intervalIntegral.integral_nonneg_of_ae_restrict hab
  have hne : ∀ᵐ x ∂(volume.restrict (Icc a b)), x ∈ Ioo a b := by
    rw [ae_restrict_iff' measurableSet_Icc]
    have h1 := (Set.countable_singleton a).ae_notMem (volume : Measure ℝ)
    have h2 := (Set.countable_singleton b).ae_notMem (volume : Measure ℝ)
    filter_upwards [h1, h2] with x hx1 hx2 hx
    exact ⟨lt_of_le_of_ne hx.1 (fun h => hx1 (by simp [h])), lt_of_le_of_ne hx.2 (fun h => hx2 (by simp [h]))⟩
  filter_upwards [hne] with v hv
  exact h v hv

/-- the internal-energy integral of an increasing branch is positive, the kinetic one non-negative -/
theorem Branch.pos_mono {a b : ℝ} {L L' G H Av : ℝ → ℝ} {kn : ℕ} (Br : Branch a b L L' G H Av kn)
    (hL' : ∀ v ∈ Ioo a b, 0 < L' v) (hH : ∀ v ∈ Ioo a b, 0 < H v) :
    0 ≤ ∫ v in a..b, psi1 L L' G Av kn v ∧ 0 < ∫ v in a..b, psi2 L L' H kn v := by
  constructor
  · apply integral_nonneg_of_Ioo Br.hab.le
    intro v hv
    simp only [psi1]
    exact mul_nonneg (mul_nonneg (mul_nonneg (Br.Gnn v hv) (sq_nonneg _)) (pow_nonneg (Br.Lpos v hv).le _)) (hL' v hv).le
  · exact intervalIntegral_pos_of_pos_on (Br.integrable_mono hL').2
      (fun v hv => mul_pos (mul_pos (hH v hv) (pow_pos (Br.Lpos v hv) _)) (hL' v hv)) Br.hab

/-- the same on a decreasing branch, in the orientation of `__init__` (from b to a) -/
theorem Branch.pos_anti {a b : ℝ} {L L' G H Av : ℝ → ℝ} {kn : ℕ} (Br : Branch a b L L' G H Av kn)
    (hL' : ∀ v ∈ Ioo a b, L' v < 0) (hH : ∀ v ∈ Ioo a b, 0 < H v) :
    0 ≤ ∫ v in b..a, psi1 L L' G Av kn v ∧ 0 < ∫ v in b..a, psi2 L L' H kn v := by
  rw [integral_symm a b, integral_symm a b, ← intervalIntegral.integral_neg, ← intervalIntegral.integral_neg]
  constructor
  · apply integral_nonneg_of_Ioo Br.hab.le
    intro v hv
    simp only [psi1]
    have := mul_nonneg (mul_nonneg (mul_nonneg (Br.Gnn v hv) (sq_nonneg (Av v * L v))) (pow_nonneg (Br.Lpos v hv).le (kn - 1)))
      (neg_nonneg.mpr (hL' v hv).le)
    linarith
  · refine intervalIntegral_pos_of_pos_on (Br.integrable_anti hL').2.neg (fun v hv => ?_) Br.hab
    simp only [psi2]
    have := mul_pos (mul_pos (hH v hv) (pow_pos (Br.Lpos v hv) (kn - 1))) (neg_pos.mpr (hL' v hv))
    linarith

/-- an integrand that vanishes on (0, ℓ) — the vacuum hole — and is integrable on [ℓ, 1] is integrable
on [0, 1] with the same integral -/
theorem extend_hole {φ : ℝ → ℝ} {l : ℝ} (hl0 : 0 < l) (hl1 : l ≤ 1) (hhole : ∀ x ∈ Ioo 0 l, φ x = 0)
    (hi : IntervalIntegrable φ volume l 1) :
    IntervalIntegrable φ volume 0 1 ∧ ∫ x in (0:ℝ)..1, φ x = ∫ x in l..1, φ x := by
  have h0 : IntervalIntegrable φ volume 0 l := by
    rw [intervalIntegrable_iff_integrableOn_Ioo_of_le hl0.le]
    exact (integrableOn_zero (α := ℝ) (μ := volume) (s := Ioo 0 l) (ε' := ℝ)).congr_fun
      (fun x hx => (hhole x hx).symm) measurableSet_Ioo
  refine ⟨h0.trans hi, ?_⟩
  rw [← intervalIntegral.integral_add_adjacent_intervals h0 hi]
  have hz : ∫ x in (0:ℝ)..l, φ x = 0 := by
    rw [intervalIntegral.integral_of_le hl0.le, integral_Ioc_eq_integral_Ioo]
    rw [setIntegral_congr_fun measurableSet_Ioo (fun x hx => hhole x hx)]
    simp
  rw [hz, zero_add]

/-- similarity functions of λ with prescribed parametric values EXIST as soon as λ(v) is injective on
the open branch (what the root finding v(λ) computes); outside the image of the branch they vanish
(the vacuum hole) — non-vacuity of the hypotheses `hf`, `hg`, `hh`, `hhole` of the theorems -/
theorem exists_param_functions {a b : ℝ} {L : ℝ → ℝ} (hinj : InjOn L (Ioo a b)) (F G H : ℝ → ℝ) :
    ∃ f g h : ℝ → ℝ, (∀ v ∈ Ioo a b, f (L v) = F v) ∧ (∀ v ∈ Ioo a b, g (L v) = G v) ∧ (∀ v ∈ Ioo a b, h (L v) = H v)
      ∧ (∀ x, x ∉ L '' Ioo a b → g x = 0 ∧ h x = 0) := by
  classical
  refine ⟨fun x => F (Function.invFunOn L (Ioo a b) x),
    fun x => if x ∈ L '' Ioo a b then G (Function.invFunOn L (Ioo a b) x) else 0,
    fun x => if x ∈ L '' Ioo a b then H (Function.invFunOn L (Ioo a b) x) else 0, ?_, ?_, ?_, ?_⟩
  · intro v hv; simp only; rw [hinj.leftInvOn_invFunOn hv]
  · intro v hv; simp only; rw [if_pos (mem_image_of_mem L hv), hinj.leftInvOn_invFunOn hv]
  · intro v hv; simp only; rw [if_pos (mem_image_of_mem L hv), hinj.leftInvOn_invFunOn hv]
  · intro x hx; simp only [if_neg hx, and_self]

/-- λ is injective on an increasing branch -/
theorem Branch.injOn_mono {a b : ℝ} {L L' G H Av : ℝ → ℝ} {kn : ℕ} (Br : Branch a b L L' G H Av kn)
    (hL' : ∀ v ∈ Ioo a b, 0 < L' v) : InjOn L (Ioo a b) := by
  have hm : StrictMonoOn L (Ioo a b) := by
    apply strictMonoOn_of_deriv_pos (convex_Ioo a b) (Br.Lc.mono Ioo_subset_Icc_self)
    intro x hx
    rw [interior_Ioo] at hx
    rw [(Br.Ld x hx).deriv]; exact hL' x hx
  exact hm.injOn

/-- λ is injective on a decreasing branch, and the hole (0, λ(b)) is disjoint from the image -/
theorem Branch.injOn_anti {a b : ℝ} {L L' G H Av : ℝ → ℝ} {kn : ℕ} (Br : Branch a b L L' G H Av kn)
    (hL' : ∀ v ∈ Ioo a b, L' v < 0) : InjOn L (Ioo a b) ∧ ∀ x ∈ Ioo 0 (L b), x ∉ L '' Ioo a b := by
  have hm : StrictAntiOn L (Icc a b) := by
    apply strictAntiOn_of_deriv_neg (convex_Icc a b) Br.Lc
    intro x hx
    rw [interior_Icc] at hx
    rw [(Br.Ld x hx).deriv]; exact hL' x hx
  refine ⟨(hm.mono Ioo_subset_Icc_self).injOn, ?_⟩
  rintro x hx ⟨v, hv, rfl⟩
  have := hm (Ioo_subset_Icc_self hv) (right_mem_Icc.mpr Br.hab.le) hv.2
  exact absurd hx.2 (not_lt.mpr this.le)

/-! ### The energy theorem for arbitrary similarity functions -/

/-- `alphaCode` of a non-negative first and a positive second energy integral is positive -/
theorem alphaCode_pos {k : ℕ} (hk : k = 1 ∨ k = 2 ∨ k = 3) {γ e1 e2 : ℝ} (hγ : 1 < γ) (h1 : 0 ≤ e1) (h2 : 0 < e2) :
    0 < alphaCode k γ e1 e2 := by
  have hg : 0 < γ - 1 := by linarith
  have hq : 0 < e2 / (γ - 1) := div_pos h2 hg
  have hs : 0 < e1 + 2 * e2 / (γ - 1) := by
    have e : 2 * e2 / (γ - 1) = 2 * (e2 / (γ - 1)) := by ring
    rw [e]; linarith
  have hp := Real.pi_pos
  unfold alphaCode
  rcases hk with rfl | rfl | rfl
  · rw [if_pos (by norm_num)]; linarith
  · rw [if_neg (by norm_num)]
    exact mul_pos (mul_pos (by norm_num) hp) hs
  · rw [if_neg (by norm_num)]
    exact mul_pos (mul_pos (by norm_num) hp) hs

/-- **C11, energy, for arbitrary similarity functions** (statement and proof of `EPV.C11.sedov_energy`):
if `alpha` is what `__init__` computes from the two λ-space energy integrals, the energy behind the
shock of the returned fields equals eblast at every t > 0. -/
theorem energy_of_alpha (p : SedovShock.P) (k : ℕ) (A : Admissible p k) (f g h : ℝ → ℝ)
    (hI1 : IntervalIntegrable (fun x => g x * f x ^ 2 * x ^ (k - 1)) volume 0 1)
    (hI2 : IntervalIntegrable (fun x => h x * x ^ (k - 1)) volume 0 1)
    (hα : p.alpha = alphaCode k p.gamma (eval1 k p.gamma p.omega f g) (eval2 k p.gamma p.omega h))
    (t : ℝ) (ht : 0 < t) :
    EnergyConserved k p.gamma p.eblast (density p g t) (velocity p f t) (pressure p h t)
      (SedovShock.r2 p t) := by
  have hRpos := r2_pos A ht
  have hkey := r2_rpow_xg2 A ht
  have hγ1 : p.gamma - 1 ≠ 0 := by have := A.gamma; linarith
  have hγ2 : p.gamma + 1 ≠ 0 := by have := A.gamma; linarith
  have hx : p.geometry + 2 - p.omega ≠ 0 := A.xg2_pos.ne'
  have hα0 := A.alpha.ne'
  have hρ0 := A.rho0.ne'
  obtain ⟨j, hj⟩ : ∃ j, k = j + 1 := by
    rcases A.hk with h | h | h <;> exact ⟨k - 1, by omega⟩
  have hrho2 : SedovShock.rho2 p t = (p.gamma + 1) / (p.gamma - 1) * (p.rho0 * SedovShock.r2 p t ^ (-p.omega)) := by
    epv_semi_tree
  have hu2 : SedovShock.u2 p t = 2 * (2 / (p.geometry + 2 - p.omega) * SedovShock.r2 p t / t) / (p.gamma + 1) := by
    epv_semi_tree
  have hp2 : SedovShock.p2 p t = 2 * (p.rho0 * SedovShock.r2 p t ^ (-p.omega))
      * (2 / (p.geometry + 2 - p.omega) * SedovShock.r2 p t / t) ^ 2 / (p.gamma + 1) := by
    epv_semi_tree
  unfold EnergyConserved energyBehind density velocity pressure
  rw [hrho2, hu2, hp2]
  have hpc := pow_combine (SedovShock.r2 p t) p.omega k hRpos
  rw [← A.geo, hkey] at hpc
  generalize SedovShock.r2 p t = R at *
  generalize R ^ (-p.omega) = Rω at *
  obtain ⟨c, hc⟩ : ∃ c, c = 8 * p.rho0 * Rω * R ^ 2
      / (t ^ 2 * (p.geometry + 2 - p.omega) ^ 2 * (p.gamma - 1) * (p.gamma + 1)) := ⟨_, rfl⟩
  obtain ⟨F, hF⟩ : ∃ F : ℝ → ℝ, F = fun x => c * (g x * f x ^ 2) + c * h x := ⟨_, rfl⟩
  have hform : (fun r : ℝ => ((p.gamma + 1) / (p.gamma - 1) * (p.rho0 * Rω) * g (r / R)
        * (2 * (2 / (p.geometry + 2 - p.omega) * R / t) / (p.gamma + 1) * f (r / R)) ^ 2 / 2
        + 2 * (p.rho0 * Rω) * (2 / (p.geometry + 2 - p.omega) * R / t) ^ 2 / (p.gamma + 1) * h (r / R)
          / (p.gamma - 1)) * r ^ (k - 1))
      = fun r : ℝ => F (r / R) * r ^ (k - 1) := by
    funext r
    rw [hF, hc]
    simp only
    field_simp
    ring
  rw [hform, integral_similarity F R hRpos (k - 1)]
  have hsplit : ∫ x in (0:ℝ)..1, F x * x ^ (k - 1) = c * J1 k f g + c * J2 k h := by
    unfold J1 J2
    rw [← integral_lin _ _ _ _ 0 1 hI1 hI2, hF]
    congr 1
    funext x
    ring
  rw [hsplit, hc]
  have hk1 : k - 1 + 1 = k := by omega
  rw [hk1]
  have hE : p.eblast = R ^ k * Rω * R ^ 2 * (p.alpha * p.rho0) / t ^ 2 := by
    rw [hpc]; field_simp
  have hgeo := A.geo
  rw [hE, hα]
  unfold alphaCode eval1 eval2
  rw [← hgeo]
  rcases A.hk with h1 | h1 | h1
  · subst h1
    have hg1 : p.geometry = 1 := by rw [hgeo]; norm_num
    rw [Ak_one, if_pos hg1, hg1]
    field_simp
    ring
  · subst h1
    have hg1 : p.geometry = 2 := by rw [hgeo]; norm_num
    rw [Ak_two, if_neg (by rw [hg1]; norm_num), hg1]
    field_simp
    ring
  · subst h1
    have hg1 : p.geometry = 3 := by rw [hgeo]; norm_num
    rw [Ak_three, if_neg (by rw [hg1]; norm_num), hg1]
    field_simp
    ring

end

end EPV.Sedov.Energy
