/-
Consistency predicates of the generated elastic–plastic piston constructor models
(let-normal form, see tools/py2lean/targets/t_detonation.py:cut_class): every attribute the
constructor assigns equals its generated definition.  True of the real constructor's results by
construction; checked on every run by the tie `harness/o_detonation.py:tie_eppiston`.
-/
import EPV.Gen.EPPistonHypo
import EPV.Gen.EPPistonIfin
import EPV.Gen.EPPistonFin

set_option linter.all false

open EPV EPV.Gen

namespace EPV.EPP

/-- every attribute assigned by the constructor (model = 'hypo') equals its generated definition -/
def hypoConsistent (p : EPPistonHypo.P) : Prop :=
  p.sdev_y = EPPistonHypo.sdev_y p ∧ p.rho_y = EPPistonHypo.rho_y p ∧ p.e_y = EPPistonHypo.e_y p ∧ p.p_y = EPPistonHypo.p_y p ∧
  p.wv_el = EPPistonHypo.wv_el p ∧ p.vel_y = EPPistonHypo.vel_y p ∧ p.p2 = EPPistonHypo.p2 p ∧ p.rho2 = EPPistonHypo.rho2 p

/-- every attribute assigned by the constructor (model = 'hyperIfin') equals its generated definition -/
def ifinConsistent (p : EPPistonIfin.P) : Prop :=
  p.sdev_y = EPPistonIfin.sdev_y p ∧ p.rho_y = EPPistonIfin.rho_y p ∧ p.e_y = EPPistonIfin.e_y p ∧ p.p_y = EPPistonIfin.p_y p ∧
  p.wv_el = EPPistonIfin.wv_el p ∧ p.vel_y = EPPistonIfin.vel_y p ∧ p.p2 = EPPistonIfin.p2 p ∧ p.rho2 = EPPistonIfin.rho2 p

/-- every attribute assigned by the constructor (model = 'hyperFin') equals its generated definition -/
def finConsistent (p : EPPistonFin.P) : Prop :=
  p.sdev_y = EPPistonFin.sdev_y p ∧ p.rho_y = EPPistonFin.rho_y p ∧ p.e_y = EPPistonFin.e_y p ∧ p.p_y = EPPistonFin.p_y p ∧
  p.wv_el = EPPistonFin.wv_el p ∧ p.vel_y = EPPistonFin.vel_y p ∧ p.p2 = EPPistonFin.p2 p ∧ p.rho2 = EPPistonFin.rho2 p

end EPV.EPP
