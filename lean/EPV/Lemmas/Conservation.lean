/-
C04 — the abstract conservation theorem for a piecewise self-similar solution.

A self-similar solution of  U_t + F(U)_x = 0  is a function of ξ = (x - x_d0)/t alone.  Put

    G(ξ) = ξ U(ξ) - F(U(ξ)) .

In each smooth region G' = U (constant states: trivially; centred fans: this *is* the
similarity form  -ξ U' + F(U)' = 0  of the equations), and the Rankine–Hugoniot condition
F⁺ - F⁻ = V (U⁺ - U⁻) at a discontinuity of speed V says precisely that G is continuous
at ξ = V.  Hence  ∫ U dξ = G(ξ_b) - G(ξ_a)  by the fundamental theorem of calculus, and with
x = x_d0 + t ξ, G(ξ) = ξ U_L - F_L left of all waves and G(ξ) = ξ U_R - F_R right of them,

    ∫_a^b U((x - x_d0)/t) dx = (x_d0 - a) U_L + (b - x_d0) U_R + t (F_L - F_R) .

This file proves that statement for one scalar component and an arbitrary finite list of
waves (by induction over the list), each region being given by a `Piece` (U, G).

* `pw P₀ ws`        the piecewise function: `P₀.U` left of the first wave, then region by region;
* `Valid a P₀ ws b` speeds ordered between `a` and `b`, every piece has `G' = U` inside its
                    region and `G` continuous on the closed region, `G` matches at every wave;
* `integral_pw`     ∫_a^b pw = G_last(b) - G_first(a);
* `overwrite`       the way the code builds the profile (successive `where(V ≤ ξ, new, old)`),
                    equal to the piecewise form when the speeds are ordered (`overwrite_eq_pwFun`);
* `integral_comp_selfsimilar`   the change of variable x = x_d0 + t ξ;
* `conservation_of_valid`       the formula above.
-/
import Mathlib.MeasureTheory.Integral.IntervalIntegral.FundThmCalculus
import Mathlib.Analysis.Calculus.Deriv.Mul
import Mathlib.Tactic

set_option linter.all false

namespace EPV.Conservation

open MeasureTheory Set intervalIntegral

noncomputable section

/-- one smooth region of a self-similar solution, one scalar component: the conserved
density `U ξ` and the potential `G ξ = ξ U ξ - F (U ξ)` -/
structure Piece where
  U : ℝ → ℝ
  G : ℝ → ℝ

/-- a wave of speed `V` and the region to its right -/
structure Wave where
  V : ℝ
  right : Piece

/-- `G' = U` inside `(a, b)`, `G` continuous on `[a, b]`, `U` integrable -/
def Piece.Good (P : Piece) (a b : ℝ) : Prop :=
  ContinuousOn P.G (Icc a b) ∧ (∀ ξ ∈ Ioo a b, HasDerivAt P.G (P.U ξ) ξ) ∧
    IntervalIntegrable P.U volume a b

/-- the piecewise function: `P₀.U` left of the first wave, `w.right.U` from each wave
(inclusive) up to the next -/
def pw (P₀ : Piece) : List Wave → ℝ → ℝ
  | [] => P₀.U
  | w :: ws => fun ξ => if w.V ≤ ξ then pw w.right ws ξ else P₀.U ξ

/-- the region right of all waves -/
def lastPiece (P₀ : Piece) : List Wave → Piece
  | [] => P₀
  | w :: ws => lastPiece w.right ws

/-- ordered speeds in `[a, b]`, good pieces, and `G` continuous across every wave -/
def Valid (a : ℝ) (P₀ : Piece) : List Wave → ℝ → Prop
  | [], b => a ≤ b ∧ P₀.Good a b
  | w :: ws, b => a ≤ w.V ∧ P₀.Good a w.V ∧ P₀.G w.V = w.right.G w.V ∧ Valid w.V w.right ws b

theorem Valid.le {a : ℝ} {P₀ : Piece} {ws : List Wave} {b : ℝ} (h : Valid a P₀ ws b) : a ≤ b := by
  induction ws generalizing a P₀ with
  | nil => exact h.1
  | cons w ws ih => exact h.1.trans (ih h.2.2.2)

/-- **Piecewise fundamental theorem of calculus**: the integral of the piecewise function
telescopes to `G_last b - G_first a`. -/
theorem integral_pw {a : ℝ} {P₀ : Piece} {ws : List Wave} {b : ℝ} (h : Valid a P₀ ws b) :
    IntervalIntegrable (pw P₀ ws) volume a b ∧
      ∫ ξ in a..b, pw P₀ ws ξ = (lastPiece P₀ ws).G b - P₀.G a := by
  induction ws generalizing a P₀ with
  | nil =>
    obtain ⟨hab, hc, hd, hi⟩ := h
    exact ⟨hi, integral_eq_sub_of_hasDerivAt_of_le hab hc hd hi⟩
  | cons w ws ih =>
    obtain ⟨haV, ⟨hc, hd, hi⟩, hm, hrest⟩ := h
    obtain ⟨hi2, he2⟩ := ih hrest
    -- left of the wave the piecewise function is P₀.U (except at the single point w.V)
    have hL : EqOn P₀.U (pw P₀ (w :: ws)) (Ioo a w.V) := by
      intro ξ hξ
      simp only [pw, if_neg (not_le.mpr hξ.2)]
    have hiL : IntervalIntegrable (pw P₀ (w :: ws)) volume a w.V :=
      hi.congr_uIoo (by rwa [uIoo_of_le haV])
    have heL : ∫ ξ in a..w.V, pw P₀ (w :: ws) ξ = P₀.G w.V - P₀.G a := by
      rw [← integral_congr_Ioo_of_le haV hL]
      exact integral_eq_sub_of_hasDerivAt_of_le haV hc hd hi
    -- right of the wave it is the piecewise function of the remaining waves
    have hVb : w.V ≤ b := hrest.le
    have hR : EqOn (pw w.right ws) (pw P₀ (w :: ws)) (uIcc w.V b) := by
      intro ξ hξ
      rw [uIcc_of_le hVb] at hξ
      simp only [pw, if_pos hξ.1]
    have hiR : IntervalIntegrable (pw P₀ (w :: ws)) volume w.V b :=
      hi2.congr (hR.mono uIoc_subset_uIcc)
    have heR : ∫ ξ in w.V..b, pw P₀ (w :: ws) ξ = (lastPiece w.right ws).G b - w.right.G w.V := by
      rw [← integral_congr hR]
      exact he2
    refine ⟨hiL.trans hiR, ?_⟩
    rw [← integral_add_adjacent_intervals hiL hiR, heL, heR, hm]
    simp only [lastPiece]
    ring

/-! ### The code's way of building the profile -/

/-- `reg_state`: `where(V ≤ ξ, new, old)` -/
def regState (V : ℝ) (new old : ℝ → ℝ) : ℝ → ℝ := fun ξ => if V ≤ ξ then new ξ else old ξ

/-- successive overwriting, in the order of the list -/
def overwrite (f₀ : ℝ → ℝ) : List (ℝ × (ℝ → ℝ)) → ℝ → ℝ
  | [] => f₀
  | (V, f) :: ws => overwrite (regState V f f₀) ws

/-- the same list as waves with given potentials -/
def pwFun (f₀ : ℝ → ℝ) : List (ℝ × (ℝ → ℝ)) → ℝ → ℝ
  | [] => f₀
  | (V, f) :: ws => fun ξ => if V ≤ ξ then pwFun f ws ξ else f₀ ξ

theorem overwrite_regState {V : ℝ} {f f₀ : ℝ → ℝ} {ws : List (ℝ × (ℝ → ℝ))}
    (h : ∀ w ∈ ws, V ≤ w.1) (ξ : ℝ) :
    overwrite (regState V f f₀) ws ξ = if V ≤ ξ then overwrite f ws ξ else f₀ ξ := by
  induction ws generalizing f f₀ with
  | nil => rfl
  | cons w ws ih =>
    obtain ⟨V', f'⟩ := w
    have hVV' : V ≤ V' := h (V', f') (List.mem_cons_self)
    have e : regState V' f' (regState V f f₀) = regState V (regState V' f' f) f₀ := by
      funext η
      simp only [regState]
      by_cases h1 : V' ≤ η
      · simp [h1, hVV'.trans h1]
      · simp [h1]
    simp only [overwrite]
    rw [e, ih (fun w hw => h w (List.mem_cons_of_mem _ hw))]

/-- with ordered speeds, successive overwriting is the piecewise function -/
theorem overwrite_eq_pwFun {f₀ : ℝ → ℝ} {ws : List (ℝ × (ℝ → ℝ))}
    (h : ws.Pairwise (fun v w => v.1 ≤ w.1)) : overwrite f₀ ws = pwFun f₀ ws := by
  induction ws generalizing f₀ with
  | nil => rfl
  | cons w ws ih =>
    obtain ⟨V, f⟩ := w
    rw [List.pairwise_cons] at h
    funext ξ
    simp only [overwrite, pwFun]
    rw [overwrite_regState (fun w hw => h.1 w hw), ih h.2]

/-! ### Change of variable and the conservation formula -/

/-- `x = x_d0 + t ξ` -/
theorem integral_comp_selfsimilar (f : ℝ → ℝ) (xd0 a b t : ℝ) (ht : t ≠ 0) :
    ∫ x in a..b, f ((x - xd0) / t) = t * ∫ ξ in (a - xd0) / t..(b - xd0) / t, f ξ := by
  have h := intervalIntegral.integral_comp_div_sub (a := a) (b := b) f ht (xd0 / t)
  have e : ∀ x : ℝ, x / t - xd0 / t = (x - xd0) / t := fun x => by ring
  simp only [e, smul_eq_mul] at h
  exact h

theorem intervalIntegrable_comp_selfsimilar {f : ℝ → ℝ} {xd0 a b t : ℝ} (ht : t ≠ 0)
    (hf : IntervalIntegrable f volume ((a - xd0) / t) ((b - xd0) / t)) :
    IntervalIntegrable (fun x => f ((x - xd0) / t)) volume a b := by
  have h := (hf.comp_mul_left (c := t⁻¹)).comp_sub_right xd0
  have e1 : (a - xd0) / t / t⁻¹ + xd0 = a := by field_simp; ring
  have e2 : (b - xd0) / t / t⁻¹ + xd0 = b := by field_simp; ring
  rw [e1, e2] at h
  refine h.congr (fun x _ => ?_)
  show f (t⁻¹ * (x - xd0)) = f ((x - xd0) / t)
  congr 1
  ring

/-- **Abstract conservation theorem** (one component).  `UL, FL` and `UR, FR` are the
conserved density and flux of the undisturbed left and right states; the first piece is
the left state, the last piece the right state. -/
theorem conservation_of_valid {P₀ : Piece} {ws : List Wave} {xd0 a b t UL FL UR FR : ℝ}
    (ht : 0 < t) (h : Valid ((a - xd0) / t) P₀ ws ((b - xd0) / t))
    (hL : P₀.G ((a - xd0) / t) = (a - xd0) / t * UL - FL)
    (hR : (lastPiece P₀ ws).G ((b - xd0) / t) = (b - xd0) / t * UR - FR) :
    IntervalIntegrable (fun x => pw P₀ ws ((x - xd0) / t)) volume a b ∧
      ∫ x in a..b, pw P₀ ws ((x - xd0) / t) = (xd0 - a) * UL + (b - xd0) * UR + t * (FL - FR) := by
  obtain ⟨hi, he⟩ := integral_pw h
  refine ⟨intervalIntegrable_comp_selfsimilar ht.ne' hi, ?_⟩
  rw [integral_comp_selfsimilar _ _ _ _ _ ht.ne', he, hL, hR]
  field_simp
  ring

/-- `a` left of the wave position `xd0 + t V` means `ξ_a ≤ V` -/
theorem xi_le_of_lt {xd0 t V a : ℝ} (ht : 0 < t) (h : a < xd0 + t * V) : (a - xd0) / t ≤ V := by
  rw [div_le_iff₀ ht]; linarith
/-- `b` right of the wave position `xd0 + t V` means `V ≤ ξ_b` -/
theorem le_xi_of_lt {xd0 t V b : ℝ} (ht : 0 < t) (h : xd0 + t * V < b) : V ≤ (b - xd0) / t := by
  rw [le_div_iff₀ ht]; linarith

/-- a constant state: `G ξ = ξ U - F` -/
def constPiece (U F : ℝ) : Piece := ⟨fun _ => U, fun ξ => ξ * U - F⟩

theorem constPiece_good (U F a b : ℝ) : (constPiece U F).Good a b := by
  refine ⟨?_, ?_, ?_⟩
  · exact (by fun_prop : Continuous fun ξ : ℝ => ξ * U - F).continuousOn
  · intro ξ _
    have h : HasDerivAt (fun ξ : ℝ => ξ * U - F) (1 * U) ξ :=
      HasDerivAt.sub_const F (HasDerivAt.mul_const (hasDerivAt_id' ξ) U)
    simpa [constPiece] using h
  · exact intervalIntegrable_const

/-- a piece whose `U` is continuous on the closed region is integrable there -/
theorem Piece.good_of_continuousOn {P : Piece} {a b : ℝ} (hab : a ≤ b)
    (hG : ContinuousOn P.G (Icc a b)) (hd : ∀ ξ ∈ Ioo a b, HasDerivAt P.G (P.U ξ) ξ)
    (hU : ContinuousOn P.U (Icc a b)) : P.Good a b :=
  ⟨hG, hd, (hU.mono (by rw [uIcc_of_le hab])).intervalIntegrable⟩

end

end EPV.Conservation
