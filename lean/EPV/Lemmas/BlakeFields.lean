/-
Blake: the admissible domain of `Blake._run` (what the constructor establishes), the constants of the
closed-form solution as the code computes them, their elementary properties under that domain, and the
leaf of the traced decision tree a point selects.  Shared by the C15, C08 and C20 property files.
-/
import EPV.Gen.BlakeFields
import EPV.Spec.Blake
import EPV.Lemmas.Blake
import EPV.Tactics

set_option linter.all false

open EPV EPV.Gen EPV.Spec.Blake

namespace EPV.Blake

/-- documented admissible domain of `Blake._run`: what the constructor guarantees -/
structure Admissible (p : BlakeFields.P) : Prop where
  material : ∃ E K : ℝ, IsoMaterial p.lame_mod p.shear_mod E p.poisson_ratio K p.long_mod
  density : 0 < p.ref_density
  radius : 0 < p.cavity_radius
  pressure : 0 < p.pressure_scale

/-- the default problem (SI units) -/
noncomputable def dflt : BlakeFields.P :=
  { cavity_radius := 1 / 10, lame_mod := 25000000000, long_mod := 75000000000, poisson_ratio := 1 / 4,
    pressure_scale := 1000000, ref_density := 3000, shear_mod := 25000000000 }

theorem dflt_admissible : Admissible dflt := by
  refine ⟨⟨62500000000, 125000000000 / 3, ?_⟩, ?_, ?_, ?_⟩
  · constructor <;> norm_num [dflt]
  all_goals norm_num [dflt]

/-- longitudinal wave speed as the code computes it, `pow(pm / ref_dens, 0.5)` -/
noncomputable def cL (p : BlakeFields.P) : ℝ := (p.long_mod / p.ref_density) ^ ((1 : ℝ) / 2)

/-- the code's `n` (Hutchens' α) and `b` (Hutchens' β) -/
noncomputable def nn (p : BlakeFields.P) : ℝ :=
  (1 - 2 * p.poisson_ratio) / (1 - p.poisson_ratio) * (cL p / p.cavity_radius)
noncomputable def bb (p : BlakeFields.P) : ℝ :=
  ((1 - 2 * p.poisson_ratio) / (1 - p.poisson_ratio) ^ (2 : ℝ) * (cL p / p.cavity_radius) ^ (2 : ℝ)) ^ ((1 : ℝ) / 2)

theorem dflt_cL : cL dflt = 5000 := by
  unfold cL dflt
  exact rpow_half_eq (by norm_num) (by norm_num)

section material
variable {p : BlakeFields.P} (h : Admissible p)
include h

theorem long_pos : 0 < p.long_mod := by
  obtain ⟨E, K, m⟩ := h.material
  have := m.shear_pos; have := m.bulk_pos; have := m.long; linarith

theorem lam_add_G_pos : 0 < p.lame_mod + p.shear_mod := by
  obtain ⟨E, K, m⟩ := h.material
  exact m.lame_add_shear_pos

theorem one_sub_two_nu : 1 - 2 * p.poisson_ratio = p.shear_mod / (p.lame_mod + p.shear_mod) := by
  obtain ⟨E, K, m⟩ := h.material
  have hp := lam_add_G_pos h
  rw [m.poisson]; field_simp; ring

theorem one_sub_nu : 1 - p.poisson_ratio = p.long_mod / (2 * (p.lame_mod + p.shear_mod)) := by
  obtain ⟨E, K, m⟩ := h.material
  have hp := lam_add_G_pos h
  rw [m.poisson, m.long]; field_simp; ring

theorem one_sub_two_nu_pos : 0 < 1 - 2 * p.poisson_ratio := by
  obtain ⟨E, K, m⟩ := h.material
  rw [one_sub_two_nu h]; exact div_pos m.shear_pos (lam_add_G_pos h)

theorem one_sub_nu_pos : 0 < 1 - p.poisson_ratio := by
  rw [one_sub_nu h]; exact div_pos (long_pos h) (by have := lam_add_G_pos h; positivity)

theorem cL_pos : 0 < cL p := rpow_half_pos (div_pos (long_pos h) h.density)

/-- c_L² = M/ρ₀ = (λ + 2G)/ρ₀, "the longitudinal wave speed of the material" -/
theorem cL_sq : cL p ^ 2 = p.long_mod / p.ref_density :=
  rpow_half_sq (le_of_lt (div_pos (long_pos h) h.density))

theorem cL_sq_lame : cL p ^ 2 = (p.lame_mod + 2 * p.shear_mod) / p.ref_density := by
  obtain ⟨E, K, m⟩ := h.material
  rw [cL_sq h, m.long]

theorem nn_pos : 0 < nn p := by
  unfold nn
  have := one_sub_two_nu_pos h; have := one_sub_nu_pos h; have := cL_pos h; have := h.radius
  positivity

theorem bb_arg_pos : 0 < (1 - 2 * p.poisson_ratio) / (1 - p.poisson_ratio) ^ (2 : ℝ) * (cL p / p.cavity_radius) ^ (2 : ℝ) := by
  have := one_sub_two_nu_pos h; have := one_sub_nu_pos h; have := cL_pos h; have := h.radius
  rw [rpow_two_float, rpow_two_float]
  positivity

theorem bb_pos : 0 < bb p := rpow_half_pos (bb_arg_pos h)

theorem bb_sq : bb p ^ 2 = (1 - 2 * p.poisson_ratio) / (1 - p.poisson_ratio) ^ 2 * (cL p / p.cavity_radius) ^ 2 := by
  unfold bb
  rw [rpow_half_sq (le_of_lt (bb_arg_pos h)), rpow_two_float, rpow_two_float]

/-- b² + n² = 2 n c_L / a  (so the code's `(b2pn2/(n*cl))*radii - 1` is `2r/a - 1`) -/
theorem bb_nn_rel : (bb p ^ 2 + nn p ^ 2) * p.cavity_radius = 2 * nn p * cL p := by
  have h1 := one_sub_nu_pos h; have ha := h.radius
  rw [bb_sq h]; unfold nn
  field_simp; ring

/-- n = 2 G c_L / (M a)  (Hutchens' α = 2 c_T² / (a c_L)) -/
theorem nn_rel : nn p * p.long_mod * p.cavity_radius = 2 * p.shear_mod * cL p := by
  have h1 := one_sub_nu_pos h; have ha := h.radius; have hp := lam_add_G_pos h; have hM := long_pos h
  unfold nn
  rw [one_sub_two_nu h, one_sub_nu h]
  field_simp

end material

/-! ### which leaf a point selects -/

/-- the reduced time t' = t - (r - a)/c_L -/
noncomputable def tred (p : BlakeFields.P) (r t : ℝ) : ℝ := t - (r - p.cavity_radius) / cL p

/-- behind the front and outside the cavity the solver evaluates the closed form (leaf 1) -/
theorem disturbed_leaf {p : BlakeFields.P} (ha : 0 < p.cavity_radius) {r t : ℝ}
    (hr : p.cavity_radius ≤ r) (hτ : 0 < tred p r t) :
    BlakeFields.displacement p r t = BlakeFields.L1.displacement p r t
    ∧ BlakeFields.strain_rr p r t = BlakeFields.L1.strain_rr p r t
    ∧ BlakeFields.stress_rr p r t = BlakeFields.L1.stress_rr p r t := by
  have h0 : ¬ BlakeFields.c0 p r t := by simp only [epv_cond]; linarith
  have h1 : BlakeFields.c1 p r t := by simp only [epv_cond]; exact hr
  have h2 : BlakeFields.c2 p r t := by simp only [epv_cond]; exact hτ
  simp only [epv_tree, h0, h1, h2, if_true, if_false, and_self]

/-- ahead of the front (and at it) the solver returns the undisturbed state (leaves 2, 3) -/
theorem quiet_leaf {p : BlakeFields.P} {r t : ℝ} (hr : 0 ≤ r) (hτ : tred p r t ≤ 0) :
    BlakeFields.outcome p r t = .ok
    ∧ BlakeFields.displacement p r t = 0 ∧ BlakeFields.strain_rr p r t = 0 ∧ BlakeFields.strain_qq p r t = 0
    ∧ BlakeFields.stress_rr p r t = 0 ∧ BlakeFields.stress_qq p r t = 0 ∧ BlakeFields.pressure p r t = 0 := by
  have h0 : ¬ BlakeFields.c0 p r t := by simp only [epv_cond]; linarith
  have h2 : ¬ BlakeFields.c2 p r t := by simp only [epv_cond]; unfold tred cL at hτ; linarith
  simp only [epv_tree, h0, h2, if_true, if_false]
  split_ifs <;> simp [epv_leaf]

end EPV.Blake
