/-
C08 (Blake), lemmas: dimensional analysis of `set_elastic_params`, pairs (G, E), (G, ν), (G, K), (G, M), (E, ν) — every path condition compares
like quantities (also the relative-tolerance tests), every returned modulus is a pressure, Poisson's ratio a
pure number.
-/
import EPV.Lemmas.UnitsBlake

set_option linter.all false

open EPV EPV.Gen EPV.Spec EPV.Spec.UnitsBlake

namespace EPV.UnitsBlake

section
variable (σ : Scaling) (p : BlakeModGE.P)

theorem modGE_c0 : BlakeModGE.c0 (modGESP σ p) ↔ BlakeModGE.c0 p := by
  units_cond modGESP

theorem modGE_c1 : BlakeModGE.c1 (modGESP σ p) ↔ BlakeModGE.c1 p := by
  units_cond modGESP

theorem modGE_c2 : BlakeModGE.c2 (modGESP σ p) ↔ BlakeModGE.c2 p := by
  units_cond modGESP

theorem modGE_c3 : BlakeModGE.c3 (modGESP σ p) ↔ BlakeModGE.c3 p := by
  units_cond modGESP

theorem modGE_c4 : BlakeModGE.c4 (modGESP σ p) ↔ BlakeModGE.c4 p := by
  units_cond modGESP

theorem modGE_c5 : BlakeModGE.c5 (modGESP σ p) ↔ BlakeModGE.c5 p := by
  units_cond modGESP

theorem modGE_c6 : BlakeModGE.c6 (modGESP σ p) ↔ BlakeModGE.c6 p := by
  units_cond modGESP

theorem modGE_L3_lame_mod : IsScaled σ Dim.pressure (BlakeModGE.L3.lame_mod (modGESP σ p)) (BlakeModGE.L3.lame_mod p) := by
  units_leaf modGESP

theorem modGE_L3_shear_mod : IsScaled σ Dim.pressure (BlakeModGE.L3.shear_mod (modGESP σ p)) (BlakeModGE.L3.shear_mod p) := by
  units_leaf modGESP

theorem modGE_L3_youngs_mod : IsScaled σ Dim.pressure (BlakeModGE.L3.youngs_mod (modGESP σ p)) (BlakeModGE.L3.youngs_mod p) := by
  units_leaf modGESP

theorem modGE_L3_poisson_ratio : IsScaled σ 0 (BlakeModGE.L3.poisson_ratio (modGESP σ p)) (BlakeModGE.L3.poisson_ratio p) := by
  units_leaf modGESP

theorem modGE_L3_bulk_mod : IsScaled σ Dim.pressure (BlakeModGE.L3.bulk_mod (modGESP σ p)) (BlakeModGE.L3.bulk_mod p) := by
  units_leaf modGESP

theorem modGE_L3_long_mod : IsScaled σ Dim.pressure (BlakeModGE.L3.long_mod (modGESP σ p)) (BlakeModGE.L3.long_mod p) := by
  units_leaf modGESP

theorem modGE_L4_lame_mod : IsScaled σ Dim.pressure (BlakeModGE.L4.lame_mod (modGESP σ p)) (BlakeModGE.L4.lame_mod p) := by
  units_leaf modGESP

theorem modGE_L4_shear_mod : IsScaled σ Dim.pressure (BlakeModGE.L4.shear_mod (modGESP σ p)) (BlakeModGE.L4.shear_mod p) := by
  units_leaf modGESP

theorem modGE_L4_youngs_mod : IsScaled σ Dim.pressure (BlakeModGE.L4.youngs_mod (modGESP σ p)) (BlakeModGE.L4.youngs_mod p) := by
  units_leaf modGESP

theorem modGE_L4_poisson_ratio : IsScaled σ 0 (BlakeModGE.L4.poisson_ratio (modGESP σ p)) (BlakeModGE.L4.poisson_ratio p) := by
  units_leaf modGESP

theorem modGE_L4_bulk_mod : IsScaled σ Dim.pressure (BlakeModGE.L4.bulk_mod (modGESP σ p)) (BlakeModGE.L4.bulk_mod p) := by
  units_leaf modGESP

theorem modGE_L4_long_mod : IsScaled σ Dim.pressure (BlakeModGE.L4.long_mod (modGESP σ p)) (BlakeModGE.L4.long_mod p) := by
  units_leaf modGESP

end

section
variable (σ : Scaling) (p : BlakeModGNu.P)

theorem modGNu_c0 : BlakeModGNu.c0 (modGNuSP σ p) ↔ BlakeModGNu.c0 p := by
  units_cond modGNuSP

theorem modGNu_c1 : BlakeModGNu.c1 (modGNuSP σ p) ↔ BlakeModGNu.c1 p := by
  units_cond modGNuSP

theorem modGNu_c2 : BlakeModGNu.c2 (modGNuSP σ p) ↔ BlakeModGNu.c2 p := by
  units_cond modGNuSP

theorem modGNu_c3 : BlakeModGNu.c3 (modGNuSP σ p) ↔ BlakeModGNu.c3 p := by
  units_cond modGNuSP

theorem modGNu_L1_lame_mod : IsScaled σ Dim.pressure (BlakeModGNu.L1.lame_mod (modGNuSP σ p)) (BlakeModGNu.L1.lame_mod p) := by
  units_leaf modGNuSP

theorem modGNu_L1_shear_mod : IsScaled σ Dim.pressure (BlakeModGNu.L1.shear_mod (modGNuSP σ p)) (BlakeModGNu.L1.shear_mod p) := by
  units_leaf modGNuSP

theorem modGNu_L1_youngs_mod : IsScaled σ Dim.pressure (BlakeModGNu.L1.youngs_mod (modGNuSP σ p)) (BlakeModGNu.L1.youngs_mod p) := by
  units_leaf modGNuSP

theorem modGNu_L1_poisson_ratio : IsScaled σ 0 (BlakeModGNu.L1.poisson_ratio (modGNuSP σ p)) (BlakeModGNu.L1.poisson_ratio p) := by
  units_leaf modGNuSP

theorem modGNu_L1_bulk_mod : IsScaled σ Dim.pressure (BlakeModGNu.L1.bulk_mod (modGNuSP σ p)) (BlakeModGNu.L1.bulk_mod p) := by
  units_leaf modGNuSP

theorem modGNu_L1_long_mod : IsScaled σ Dim.pressure (BlakeModGNu.L1.long_mod (modGNuSP σ p)) (BlakeModGNu.L1.long_mod p) := by
  units_leaf modGNuSP

end

section
variable (σ : Scaling) (p : BlakeModGK.P)

theorem modGK_c0 : BlakeModGK.c0 (modGKSP σ p) ↔ BlakeModGK.c0 p := by
  units_cond modGKSP

theorem modGK_c1 : BlakeModGK.c1 (modGKSP σ p) ↔ BlakeModGK.c1 p := by
  units_cond modGKSP

theorem modGK_c2 : BlakeModGK.c2 (modGKSP σ p) ↔ BlakeModGK.c2 p := by
  units_cond modGKSP

theorem modGK_c3 : BlakeModGK.c3 (modGKSP σ p) ↔ BlakeModGK.c3 p := by
  units_cond modGKSP

theorem modGK_c4 : BlakeModGK.c4 (modGKSP σ p) ↔ BlakeModGK.c4 p := by
  units_cond modGKSP

theorem modGK_L2_lame_mod : IsScaled σ Dim.pressure (BlakeModGK.L2.lame_mod (modGKSP σ p)) (BlakeModGK.L2.lame_mod p) := by
  units_leaf modGKSP

theorem modGK_L2_shear_mod : IsScaled σ Dim.pressure (BlakeModGK.L2.shear_mod (modGKSP σ p)) (BlakeModGK.L2.shear_mod p) := by
  units_leaf modGKSP

theorem modGK_L2_youngs_mod : IsScaled σ Dim.pressure (BlakeModGK.L2.youngs_mod (modGKSP σ p)) (BlakeModGK.L2.youngs_mod p) := by
  units_leaf modGKSP

theorem modGK_L2_poisson_ratio : IsScaled σ 0 (BlakeModGK.L2.poisson_ratio (modGKSP σ p)) (BlakeModGK.L2.poisson_ratio p) := by
  units_leaf modGKSP

theorem modGK_L2_bulk_mod : IsScaled σ Dim.pressure (BlakeModGK.L2.bulk_mod (modGKSP σ p)) (BlakeModGK.L2.bulk_mod p) := by
  units_leaf modGKSP

theorem modGK_L2_long_mod : IsScaled σ Dim.pressure (BlakeModGK.L2.long_mod (modGKSP σ p)) (BlakeModGK.L2.long_mod p) := by
  units_leaf modGKSP

theorem modGK_L3_lame_mod : IsScaled σ Dim.pressure (BlakeModGK.L3.lame_mod (modGKSP σ p)) (BlakeModGK.L3.lame_mod p) := by
  units_leaf modGKSP

theorem modGK_L3_shear_mod : IsScaled σ Dim.pressure (BlakeModGK.L3.shear_mod (modGKSP σ p)) (BlakeModGK.L3.shear_mod p) := by
  units_leaf modGKSP

theorem modGK_L3_youngs_mod : IsScaled σ Dim.pressure (BlakeModGK.L3.youngs_mod (modGKSP σ p)) (BlakeModGK.L3.youngs_mod p) := by
  units_leaf modGKSP

theorem modGK_L3_poisson_ratio : IsScaled σ 0 (BlakeModGK.L3.poisson_ratio (modGKSP σ p)) (BlakeModGK.L3.poisson_ratio p) := by
  units_leaf modGKSP

theorem modGK_L3_bulk_mod : IsScaled σ Dim.pressure (BlakeModGK.L3.bulk_mod (modGKSP σ p)) (BlakeModGK.L3.bulk_mod p) := by
  units_leaf modGKSP

theorem modGK_L3_long_mod : IsScaled σ Dim.pressure (BlakeModGK.L3.long_mod (modGKSP σ p)) (BlakeModGK.L3.long_mod p) := by
  units_leaf modGKSP

end

section
variable (σ : Scaling) (p : BlakeModGM.P)

theorem modGM_c0 : BlakeModGM.c0 (modGMSP σ p) ↔ BlakeModGM.c0 p := by
  units_cond modGMSP

theorem modGM_c1 : BlakeModGM.c1 (modGMSP σ p) ↔ BlakeModGM.c1 p := by
  units_cond modGMSP

theorem modGM_c2 : BlakeModGM.c2 (modGMSP σ p) ↔ BlakeModGM.c2 p := by
  units_cond modGMSP

theorem modGM_c3 : BlakeModGM.c3 (modGMSP σ p) ↔ BlakeModGM.c3 p := by
  units_cond modGMSP

theorem modGM_c4 : BlakeModGM.c4 (modGMSP σ p) ↔ BlakeModGM.c4 p := by
  units_cond modGMSP

theorem modGM_c5 : BlakeModGM.c5 (modGMSP σ p) ↔ BlakeModGM.c5 p := by
  units_cond modGMSP

theorem modGM_c6 : BlakeModGM.c6 (modGMSP σ p) ↔ BlakeModGM.c6 p := by
  units_cond modGMSP

theorem modGM_L3_lame_mod : IsScaled σ Dim.pressure (BlakeModGM.L3.lame_mod (modGMSP σ p)) (BlakeModGM.L3.lame_mod p) := by
  units_leaf modGMSP

theorem modGM_L3_shear_mod : IsScaled σ Dim.pressure (BlakeModGM.L3.shear_mod (modGMSP σ p)) (BlakeModGM.L3.shear_mod p) := by
  units_leaf modGMSP

theorem modGM_L3_youngs_mod : IsScaled σ Dim.pressure (BlakeModGM.L3.youngs_mod (modGMSP σ p)) (BlakeModGM.L3.youngs_mod p) := by
  units_leaf modGMSP

theorem modGM_L3_poisson_ratio : IsScaled σ 0 (BlakeModGM.L3.poisson_ratio (modGMSP σ p)) (BlakeModGM.L3.poisson_ratio p) := by
  units_leaf modGMSP

theorem modGM_L3_bulk_mod : IsScaled σ Dim.pressure (BlakeModGM.L3.bulk_mod (modGMSP σ p)) (BlakeModGM.L3.bulk_mod p) := by
  units_leaf modGMSP

theorem modGM_L3_long_mod : IsScaled σ Dim.pressure (BlakeModGM.L3.long_mod (modGMSP σ p)) (BlakeModGM.L3.long_mod p) := by
  units_leaf modGMSP

theorem modGM_L4_lame_mod : IsScaled σ Dim.pressure (BlakeModGM.L4.lame_mod (modGMSP σ p)) (BlakeModGM.L4.lame_mod p) := by
  units_leaf modGMSP

theorem modGM_L4_shear_mod : IsScaled σ Dim.pressure (BlakeModGM.L4.shear_mod (modGMSP σ p)) (BlakeModGM.L4.shear_mod p) := by
  units_leaf modGMSP

theorem modGM_L4_youngs_mod : IsScaled σ Dim.pressure (BlakeModGM.L4.youngs_mod (modGMSP σ p)) (BlakeModGM.L4.youngs_mod p) := by
  units_leaf modGMSP

theorem modGM_L4_poisson_ratio : IsScaled σ 0 (BlakeModGM.L4.poisson_ratio (modGMSP σ p)) (BlakeModGM.L4.poisson_ratio p) := by
  units_leaf modGMSP

theorem modGM_L4_bulk_mod : IsScaled σ Dim.pressure (BlakeModGM.L4.bulk_mod (modGMSP σ p)) (BlakeModGM.L4.bulk_mod p) := by
  units_leaf modGMSP

theorem modGM_L4_long_mod : IsScaled σ Dim.pressure (BlakeModGM.L4.long_mod (modGMSP σ p)) (BlakeModGM.L4.long_mod p) := by
  units_leaf modGMSP

end

section
variable (σ : Scaling) (p : BlakeModENu.P)

theorem modENu_c0 : BlakeModENu.c0 (modENuSP σ p) ↔ BlakeModENu.c0 p := by
  units_cond modENuSP

theorem modENu_c1 : BlakeModENu.c1 (modENuSP σ p) ↔ BlakeModENu.c1 p := by
  units_cond modENuSP

theorem modENu_c2 : BlakeModENu.c2 (modENuSP σ p) ↔ BlakeModENu.c2 p := by
  units_cond modENuSP

theorem modENu_c3 : BlakeModENu.c3 (modENuSP σ p) ↔ BlakeModENu.c3 p := by
  units_cond modENuSP

theorem modENu_L1_lame_mod : IsScaled σ Dim.pressure (BlakeModENu.L1.lame_mod (modENuSP σ p)) (BlakeModENu.L1.lame_mod p) := by
  units_leaf modENuSP

theorem modENu_L1_shear_mod : IsScaled σ Dim.pressure (BlakeModENu.L1.shear_mod (modENuSP σ p)) (BlakeModENu.L1.shear_mod p) := by
  units_leaf modENuSP

theorem modENu_L1_youngs_mod : IsScaled σ Dim.pressure (BlakeModENu.L1.youngs_mod (modENuSP σ p)) (BlakeModENu.L1.youngs_mod p) := by
  units_leaf modENuSP

theorem modENu_L1_poisson_ratio : IsScaled σ 0 (BlakeModENu.L1.poisson_ratio (modENuSP σ p)) (BlakeModENu.L1.poisson_ratio p) := by
  units_leaf modENuSP

theorem modENu_L1_bulk_mod : IsScaled σ Dim.pressure (BlakeModENu.L1.bulk_mod (modENuSP σ p)) (BlakeModENu.L1.bulk_mod p) := by
  units_leaf modENuSP

theorem modENu_L1_long_mod : IsScaled σ Dim.pressure (BlakeModENu.L1.long_mod (modENuSP σ p)) (BlakeModENu.L1.long_mod p) := by
  units_leaf modENuSP

end

end EPV.UnitsBlake
