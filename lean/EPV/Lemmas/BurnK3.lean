/-
The bridge between the generated burn-time models (one file per solver: BurnK1, BurnK2, BurnK3, BurnDSD —
so that a change of one solver breaks only its own theorems) and the documented solutions of `EPV.Spec.Burn`:

* `…_outcome`  : the traced request is served (`outcome = .ok`) exactly under the conditions the
                 constructor enforces, written in the vocabulary of the specification;
* `…_eq_spec` / `…_eq_cone` : wherever it is served, the traced `burntime` IS the documented
                 formula, with points read as elements of `EuclideanSpace ℝ (Fin n)`.

Everything the property files (C13, C09, C07, C08, C20 shares) prove about the code goes through
these statements.  They are proved by reducing the traced tree with the acceptance conditions (whatever
their order), rewriting the documented norms / distances / inner products into coordinates and ring
normalisation inside and outside the square roots (EPV/Lemmas/Bridge/DetonTactics.lean), so they do not
depend on how the Python writes the formula, and break — loudly — when the traced formula changes.
-/
import EPV.Gen.K3d2
import EPV.Gen.K3d3
import EPV.Spec.Burn
import EPV.Lemmas.Burn
import EPV.Tactics
import EPV.Lemmas.Bridge.DetonTactics

set_option linter.all false

open EPV EPV.Gen EPV.Spec.Burn

namespace EPV.Burn

/-! ### Kenamond 3 -/

theorem k3d2_leaves : K3d2.okLeaves = [4, 5] := rfl
theorem k3d3_leaves : K3d3.okLeaves = [4, 5] := rfl

noncomputable def K3d2.det (p : K3d2.P) : E2 := !₂[p.xd0, p.xd1]
noncomputable def K3d3.det (p : K3d3.P) : E3 := !₂[p.xd0, p.xd1, p.xd2]

@[simp] theorem K3d2.det_0 (p : K3d2.P) : (K3d2.det p) 0 = p.xd0 := by simp [K3d2.det]
@[simp] theorem K3d2.det_1 (p : K3d2.P) : (K3d2.det p) 1 = p.xd1 := by simp [K3d2.det]
@[simp] theorem K3d3.det_0 (p : K3d3.P) : (K3d3.det p) 0 = p.xd0 := by simp [K3d3.det]
@[simp] theorem K3d3.det_1 (p : K3d3.P) : (K3d3.det p) 1 = p.xd1 := by simp [K3d3.det]
@[simp] theorem K3d3.det_2 (p : K3d3.P) : (K3d3.det p) 2 = p.xd2 := by simp [K3d3.det]

/-- what the constructor documents and enforces -/
structure K3d2.Adm (p : K3d2.P) : Prop where
  hR : 0 < p.R
  hD : 0 < p.D
  hdet : p.R < ‖K3d2.det p‖
structure K3d3.Adm (p : K3d3.P) : Prop where
  hR : 0 < p.R
  hD : 0 < p.D
  hdet : p.R < ‖K3d3.det p‖

theorem K3d2.Adm_iff (p : K3d2.P) : K3d2.Adm p ↔ (0 < p.R ∧ 0 < p.D ∧ p.R < ‖K3d2.det p‖) :=
  ⟨fun h => ⟨h.hR, h.hD, h.hdet⟩, fun ⟨a, b, c⟩ => ⟨a, b, c⟩⟩
theorem K3d3.Adm_iff (p : K3d3.P) : K3d3.Adm p ↔ (0 < p.R ∧ 0 < p.D ∧ p.R < ‖K3d3.det p‖) :=
  ⟨fun h => ⟨h.hR, h.hD, h.hdet⟩, fun ⟨a, b, c⟩ => ⟨a, b, c⟩⟩

/-- the request is served exactly when the constructor's conditions hold and the point is in
the explosive (outside or on the obstacle) -/
theorem k3d2_outcome (p : K3d2.P) (q : E2) : K3d2.outcome p (q 0) (q 1) = .ok ↔ K3d2.Adm p ∧ p.R ≤ ‖q‖ := by
  simp only [epv_tree, Bridge.Deton.ite_raise_ok, Bridge.Deton.ite_else_raise_ok, ite_self, Bridge.Deton.ok_eq_ok, and_true]
  simp only [epv_cond, not_le, not_lt]
  rw [K3d2.Adm_iff, ← sqrt_norm2 (K3d2.det p), ← sqrt_norm2 q]
  simp only [K3d2.det_0, K3d2.det_1]
  try ring_nf
  epv_deton_conj_iff

theorem k3d3_outcome (p : K3d3.P) (q : E3) :
    K3d3.outcome p (q 0) (q 1) (q 2) = .ok ↔ K3d3.Adm p ∧ p.R ≤ ‖q‖ := by
  simp only [epv_tree, Bridge.Deton.ite_raise_ok, Bridge.Deton.ite_else_raise_ok, ite_self, Bridge.Deton.ok_eq_ok, and_true]
  simp only [epv_cond, not_le, not_lt]
  rw [K3d3.Adm_iff, ← sqrt_norm3 (K3d3.det p), ← sqrt_norm3 q]
  simp only [K3d3.det_0, K3d3.det_1, K3d3.det_2]
  try ring_nf
  epv_deton_conj_iff

/-- the traced shadow test is the documented θ > 0 -/
theorem k3d2_shadow_iff (p : K3d2.P) (q : E2) : K3d2.c4 p (q 0) (q 1) ↔ 0 < k3theta p.R (K3d2.det p) q := by
  simp only [epv_cond]
  unfold k3theta
  rw [← sqrt_norm2 q, ← sqrt_norm2 (K3d2.det p), ← inner2 q (K3d2.det p)]
  simp only [K3d2.det_0, K3d2.det_1]
  refine Iff.of_eq ?_
  congr 1
  epv_deton_nf_eq

theorem k3d3_shadow_iff (p : K3d3.P) (q : E3) :
    K3d3.c4 p (q 0) (q 1) (q 2) ↔ 0 < k3theta p.R (K3d3.det p) q := by
  simp only [epv_cond]
  unfold k3theta
  rw [← sqrt_norm3 q, ← sqrt_norm3 (K3d3.det p), ← inner3 q (K3d3.det p)]
  simp only [K3d3.det_0, K3d3.det_1, K3d3.det_2]
  refine Iff.of_eq ?_
  congr 1
  epv_deton_nf_eq

/-- the traced burn time is the documented solution wherever the request is served -/
theorem k3d2_eq_spec (p : K3d2.P) (q : E2) (h : K3d2.outcome p (q 0) (q 1) = .ok) :
    K3d2.burntime p (q 0) (q 1) = k3 p.R p.D p.t_d (K3d2.det p) q := by
  epv_deton_ok_reduce h
  unfold k3
  by_cases hs : K3d2.c4 p (q 0) (q 1)
  · rw [if_pos hs, if_pos ((k3d2_shadow_iff p q).mp hs)]
    simp only [epv_leaf]
    unfold k3path k3theta
    rw [← sqrt_norm2 q, ← sqrt_norm2 (K3d2.det p), ← inner2 q (K3d2.det p)]
    simp only [K3d2.det_0, K3d2.det_1]
    epv_deton_nf_eq
  · rw [if_neg hs, if_neg (fun h' => hs ((k3d2_shadow_iff p q).mpr h'))]
    simp only [epv_leaf]
    unfold cone
    rw [← sqrt_dist2 q (K3d2.det p)]
    simp only [K3d2.det_0, K3d2.det_1]
    epv_deton_nf_eq

theorem k3d2_eq_spec' (p : K3d2.P) (h : K3d2.Adm p) (q : E2) (hq : p.R ≤ ‖q‖) :
    K3d2.burntime p (q 0) (q 1) = k3 p.R p.D p.t_d (K3d2.det p) q :=
  k3d2_eq_spec p q ((k3d2_outcome p q).mpr ⟨h, hq⟩)

/-- the traced burn time is the documented solution wherever the request is served -/
theorem k3d3_eq_spec (p : K3d3.P) (q : E3) (h : K3d3.outcome p (q 0) (q 1) (q 2) = .ok) :
    K3d3.burntime p (q 0) (q 1) (q 2) = k3 p.R p.D p.t_d (K3d3.det p) q := by
  epv_deton_ok_reduce h
  unfold k3
  by_cases hs : K3d3.c4 p (q 0) (q 1) (q 2)
  · rw [if_pos hs, if_pos ((k3d3_shadow_iff p q).mp hs)]
    simp only [epv_leaf]
    unfold k3path k3theta
    rw [← sqrt_norm3 q, ← sqrt_norm3 (K3d3.det p), ← inner3 q (K3d3.det p)]
    simp only [K3d3.det_0, K3d3.det_1, K3d3.det_2]
    epv_deton_nf_eq
  · rw [if_neg hs, if_neg (fun h' => hs ((k3d3_shadow_iff p q).mpr h'))]
    simp only [epv_leaf]
    unfold cone
    rw [← sqrt_dist3 q (K3d3.det p)]
    simp only [K3d3.det_0, K3d3.det_1, K3d3.det_2]
    epv_deton_nf_eq

theorem k3d3_eq_spec' (p : K3d3.P) (h : K3d3.Adm p) (q : E3) (hq : p.R ≤ ‖q‖) :
    K3d3.burntime p (q 0) (q 1) (q 2) = k3 p.R p.D p.t_d (K3d3.det p) q :=
  k3d3_eq_spec p q ((k3d3_outcome p q).mpr ⟨h, hq⟩)

end EPV.Burn
