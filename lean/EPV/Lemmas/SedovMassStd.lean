/-
Sedov (C11 growth): the mass integral of the traced similarity functions, special_singularity
none (generated model SedovFuncs, leaf 1).

  * `M_hasDerivAt` — the mass ODE is an exact differential: with M(v) = λ^k g (1 - X v/2),
    dM/dv = (k-ω) g λ^(k-1) dλ/dv  (from `Std.mass_ode`);  in λ-space this is the classical mass
    integral of the Sedov solution, m(λ) = λ^(k-1) g (λ - 2f/(γ+1))/(k-ω) = ∫₀^λ g x^(k-1) dx;
  * standard solution type: λ is continuous on the CLOSED branch [v0, v2], λ(v0) = 0, λ(v2) = 1,
    M is continuous there with M(v0) = 0 (although g itself may be unbounded at v0: M ~ x2^(γ(k-ω)/denom2)
    with a positive exponent), M(v2) = (γ-1)/(γ+1);
  * hence (`SedovMassAbstract.integral_param_mono`), for ANY g with g(λ(v)) = G(v) on v0 < v < v2:
        ∫₀¹ g x^(k-1) dx = (γ-1)/((γ+1)(k-ω))            (`mass_integral_std`)
    which is the remaining obligation of `EPV.C11.sedov_mass_iff_partial`.
-/
import EPV.Lemmas.SedovODEStd
import EPV.Lemmas.SedovMassAbstract

set_option linter.all false
set_option maxRecDepth 100000

open EPV EPV.Gen EPV.Spec.SedovODE MeasureTheory Set

namespace EPV.Sedov.Mass

noncomputable section

/-- M(v) = λ(v)^k g(v) (1 - X v/2) -/
def M (p : SedovFuncs.P) (X : ℝ) (kn : ℕ) (v : ℝ) : ℝ :=
  SedovFuncs.L1.l_fun p v ^ kn * SedovFuncs.L1.g_fun p v * (1 - X / 2 * v)

/-- the mass ODE is an exact differential -/
theorem M_hasDerivAt {p : SedovFuncs.P} {γ k ω v : ℝ} (hC : StdConsts p γ k ω) (S : Std.Signs γ k ω v)
    (hd2 : K.denom2 γ k ω ≠ 0) (hd3 : K.denom3 γ k ω ≠ 0) (kn : ℕ) (hkn : (kn : ℝ) = k) (h1 : 1 ≤ kn) :
    HasDerivAt (M p (k + 2 - ω) kn)
      ((k - ω) * (SedovFuncs.L1.g_fun p v * SedovFuncs.L1.l_fun p v ^ (kn - 1)) * SedovFuncs.L1.l_fun_dv p v) v := by
  have B := Std.bases hC S
  obtain ⟨dL, -, dG, -⟩ := Std.hasDerivAt p v B
  have dA : HasDerivAt (fun v : ℝ => 1 - (k + 2 - ω) / 2 * v) (-((k + 2 - ω) / 2)) v := by
    have := ((hasDerivAt_id v).const_mul ((k + 2 - ω) / 2)).const_sub 1
    simpa using this
  have hprod := ((dL.pow kn).mul dG).mul dA
  have hm := Std.mass_ode hC S hd2 hd3
  have hLpos := Std.l_pos p v B
  have hv := S.hv
  have hγ := S.hγ
  -- F and F' through λ and λ'
  have hF : SedovFuncs.L1.f_fun p v = p.a_val * v * SedovFuncs.L1.l_fun p v := by simp only [epv_semi_leaf]
  have hFd : SedovFuncs.L1.f_fun_dv p v = p.a_val * SedovFuncs.L1.l_fun p v + p.a_val * v * SedovFuncs.L1.l_fun_dv p v := by
    rw [Std.f_dv p v B, Std.l_dv p v B]; field_simp
  have hav : p.a_val = 1 / 4 * (k + 2 - ω) * (γ + 1) := hC.a_val
  obtain ⟨j, rfl⟩ : ∃ j, kn = j + 1 := ⟨kn - 1, by omega⟩
  unfold massODEv at hm
  rw [hF, hFd, hav] at hm
  refine hprod.congr_deriv ?_
  simp only [Pi.mul_apply, Pi.pow_apply, Nat.add_sub_cancel, Nat.cast_add, Nat.cast_one]
  have hk : (j : ℝ) + 1 = k := by rw [← hkn]; push_cast; ring
  generalize SedovFuncs.L1.l_fun p v = L at *
  generalize SedovFuncs.L1.g_fun p v = G at *
  generalize SedovFuncs.L1.l_fun_dv p v = Ld at *
  generalize SedovFuncs.L1.g_fun_dv p v = Gd at *
  have hL0 := hLpos.ne'
  have hg1 : γ + 1 ≠ 0 := by linarith
  field_simp at hm
  rw [← hk]
  rw [← hk] at hm
  linear_combination (-(L ^ j) / 4) * hm

/-! ### The closed branch of the standard type -/

/-- v in the CLOSED branch [v0, v2] of the standard solution type -/
structure StdClosed (γ k ω v : ℝ) : Prop where
  par : Params γ k ω
  type : v2 γ k ω < vstar γ k
  lo : v0 γ k ω ≤ v
  hi : v ≤ v2 γ k ω

structure StdClosedSigns (γ k ω v : ℝ) : Prop where
  hγ : 1 < γ
  hX : 0 < k + 2 - ω
  hE : 0 < 2 + k * (γ - 1)
  hv : 0 < v
  x2 : 0 ≤ 1 / 2 * (k + 2 - ω) * γ * v - 1
  x3 : 0 < 1 - 1 / 2 * (2 + k * (γ - 1)) * v
  x4 : 0 < 2 - (k + 2 - ω) * v
  dden : 0 < (k + 2 - ω) * (γ + 1) - 2 * (2 + k * (γ - 1))

theorem StdClosed.signs {γ k ω v : ℝ} (I : StdClosed γ k ω v) : StdClosedSigns γ k ω v := by
  obtain ⟨P, ht, hlo, hhi⟩ := I
  have hX := P.X_pos; have hE := P.E_pos; have hγ := P.hγ
  have hγ0 : 0 < γ := by linarith
  have hE' : 0 < (γ - 1) * k + 2 := by nlinarith [P.hk]
  unfold v0 at hlo; unfold v2 at hhi ht; unfold vstar at ht
  rw [div_le_iff₀ (mul_pos hX hγ0)] at hlo
  rw [le_div_iff₀ (mul_pos hX (by linarith))] at hhi
  rw [div_lt_div_iff₀ (mul_pos hX (by linarith)) hE'] at ht
  have hv : 0 < v := by
    by_contra hc
    have : v * ((k + 2 - ω) * γ) ≤ 0 := mul_nonpos_of_nonpos_of_nonneg (not_lt.mp hc) (mul_pos hX hγ0).le
    linarith
  refine ⟨hγ, hX, hE, hv, by linarith, ?_, ?_, by linarith⟩
  · have h1 : v * (2 * (2 + k * (γ - 1))) < v * ((k + 2 - ω) * (γ + 1)) := by
      apply mul_lt_mul_of_pos_left _ hv; linarith
    linarith
  · have h1 : 0 < (k + 2 - ω) * v := mul_pos hX hv
    nlinarith

theorem StdClosed.of_interior {γ k ω v : ℝ} (I : StdClosed γ k ω v) (h1 : v0 γ k ω < v) (h2 : v < v2 γ k ω) :
    StdInterior γ k ω v := ⟨I.par, I.type, h1, h2⟩

/-- standard type: denom2 > 0 -/
theorem denom2_pos {γ k ω v : ℝ} (S : StdClosedSigns γ k ω v) (hk : 0 < k) : 0 < K.denom2 γ k ω := by
  unfold K.denom2
  have h := S.dden
  have hγ := S.hγ
  -- denom2 (γ+1) = γ dden + k (γ-1)² + 2 (γ-1)
  have e : (2 * (γ - 1) + k - γ * ω) * (γ + 1)
      = γ * ((k + 2 - ω) * (γ + 1) - 2 * (2 + k * (γ - 1))) + k * (γ - 1) ^ 2 + 2 * (γ - 1) := by ring
  have hpos : 0 < (2 * (γ - 1) + k - γ * ω) * (γ + 1) := by
    rw [e]
    have := mul_pos (by linarith : 0 < γ) h
    have := mul_pos hk (pow_pos (by linarith : 0 < γ - 1) 2)
    linarith
  exact pos_of_mul_pos_left hpos (by linarith) |> fun h => by
    rcases (mul_pos_iff.mp hpos) with ⟨h1, _⟩ | ⟨_, h2⟩
    · exact h1
    · linarith

/-- the power bases on the closed branch: x2 may vanish (at v0), the others are positive -/
structure ClosedBases (p : SedovFuncs.P) (v : ℝ) : Prop where
  x1 : 0 < p.a_val * v
  x2 : 0 ≤ p.b_val * (p.c_val * v - 1)
  x3 : 0 < p.d_val * (1 - p.e_val * v)
  x4 : 0 < p.b_val * (1 - 1 / 2 * p.xg2 * v)

theorem closedBases {p : SedovFuncs.P} {γ k ω v : ℝ} (hC : StdConsts p γ k ω) (S : StdClosedSigns γ k ω v) :
    ClosedBases p v := by
  obtain ⟨hγ, hX, hE, hv, h2, h3, h4, hd⟩ := S
  have hb : 0 < (γ + 1) / (γ - 1) := div_pos (by linarith) (by linarith)
  refine ⟨?_, ?_, ?_, ?_⟩
  · rw [hC.a_val]; unfold K.a_val
    exact mul_pos (mul_pos (mul_pos (by norm_num) hX) (by linarith)) hv
  · rw [hC.b_val, hC.c_val]; unfold K.b_val K.c_val
    exact mul_nonneg hb.le h2
  · rw [hC.d_val, hC.e_val]; unfold K.d_val K.e_val
    exact mul_pos (div_pos (mul_pos hX (by linarith)) hd) h3
  · rw [hC.b_val, hC.xg2]; unfold K.b_val
    exact mul_pos hb (by linarith)

/-- the exponent of x2 in λ is positive: -a2 = (γ-1)/denom2 > 0 -/
theorem neg_a2_pos {p : SedovFuncs.P} {γ k ω : ℝ} (hC : StdConsts p γ k ω) (hγ : 1 < γ) (hd2 : 0 < K.denom2 γ k ω) :
    0 < -p.a2 := by
  rw [hC.a2]; unfold K.a2; unfold K.denom2 at hd2
  rw [neg_div, neg_neg]
  exact div_pos (by linarith) hd2

/-- the exponent of x2 in λ^k g is positive: a3 + a2 ω - a2 k = γ(k-ω)/denom2 > 0 -/
theorem e2_pos {p : SedovFuncs.P} {γ k ω : ℝ} (hC : StdConsts p γ k ω) (P : Params γ k ω) (hd2 : 0 < K.denom2 γ k ω)
    (kn : ℕ) (hkn : (kn : ℝ) = k) : 0 < p.a3 + p.a2 * p.omega + (-p.a2) * kn := by
  rw [hC.a3, hC.a2, hC.omega, hkn]; unfold K.a3 K.a2; unfold K.denom2 at hd2
  have e : (k - ω) / (2 * (γ - 1) + k - γ * ω) + -(γ - 1) / (2 * (γ - 1) + k - γ * ω) * ω
      + -(-(γ - 1) / (2 * (γ - 1) + k - γ * ω)) * k = γ * (k - ω) / (2 * (γ - 1) + k - γ * ω) := by
    field_simp; ring
  rw [e]
  exact div_pos (mul_pos P.γ_pos (by linarith [P.hωk])) hd2

/-- λ is continuous on the closed branch (also at v0, where the base x2 vanishes) -/
theorem l_continuousOn {p : SedovFuncs.P} {γ k ω : ℝ} (hC : StdConsts p γ k ω) (s : Set ℝ)
    (hs : ∀ v ∈ s, ClosedBases p v) (ha2 : 0 < -p.a2) : ContinuousOn (SedovFuncs.L1.l_fun p) s := by
  rw [(funext (EPV.Bridge.Semi.SedovFuncs_L1_l_fun p) : SedovFuncs.L1.l_fun p = _)]
  refine (ContinuousOn.mul (ContinuousOn.rpow_const (by fun_prop) ?_) (ContinuousOn.rpow_const (by fun_prop) ?_)).mul
    (ContinuousOn.rpow_const (by fun_prop) ?_)
  · intro v hv; exact Or.inl (hs v hv).x1.ne'
  · intro v hv; exact Or.inr ha2.le
  · intro v hv; exact Or.inl (hs v hv).x3.ne'

/-- the combined form of M: one power per base -/
def Mc (p : SedovFuncs.P) (X : ℝ) (kn : ℕ) (v : ℝ) : ℝ :=
  (p.a_val * v) ^ (p.a0 * p.omega + (-p.a0) * kn) * (p.b_val * (p.c_val * v - 1)) ^ (p.a3 + p.a2 * p.omega + (-p.a2) * kn)
    * (p.d_val * (1 - p.e_val * v)) ^ (p.a4 + p.a1 * p.omega + (-p.a1) * kn)
    * (p.b_val * (1 - 1 / 2 * p.xg2 * v)) ^ p.a5 * (1 - X / 2 * v)

/-- x^a (x^b)^n = x^(a + b n), also at x = 0 when b ≠ 0, n ≥ 1, a + b n ≠ 0 -/
theorem rpow_combine0 {x : ℝ} (hx : 0 ≤ x) (a b : ℝ) (n : ℕ) (hb : b ≠ 0) (hn : 1 ≤ n) (hc : a + b * n ≠ 0) :
    x ^ a * (x ^ b) ^ n = x ^ (a + b * n) := by
  rcases hx.eq_or_lt with h0 | hpos
  · rw [← h0, Real.zero_rpow hb, Real.zero_rpow hc, zero_pow (by omega), mul_zero]
  · exact Std.rpow_combine hpos a b _ n rfl

theorem M_eq_Mc {p : SedovFuncs.P} {v : ℝ} (B : ClosedBases p v) (X : ℝ) (kn : ℕ) (h1 : 1 ≤ kn) (ha2 : 0 < -p.a2)
    (he2 : 0 < p.a3 + p.a2 * p.omega + (-p.a2) * kn) : M p X kn v = Mc p X kn v := by
  unfold M Mc
  simp only [epv_semi_leaf]
  rw [mul_pow, mul_pow]
  have E1 := Std.rpow_combine B.x1 (p.a0 * p.omega) (-p.a0) _ kn rfl
  have E2 := rpow_combine0 B.x2 (p.a3 + p.a2 * p.omega) (-p.a2) kn ha2.ne' h1 he2.ne'
  have E3 := Std.rpow_combine B.x3 (p.a4 + p.a1 * p.omega) (-p.a1) _ kn rfl
  rw [← E1, ← E2, ← E3]
  ring

theorem Mc_continuousOn {p : SedovFuncs.P} (X : ℝ) (kn : ℕ) (s : Set ℝ) (hs : ∀ v ∈ s, ClosedBases p v)
    (he2 : 0 < p.a3 + p.a2 * p.omega + (-p.a2) * kn) : ContinuousOn (Mc p X kn) s := by
  unfold Mc
  refine ((((ContinuousOn.rpow_const (by fun_prop) ?_).mul (ContinuousOn.rpow_const (by fun_prop) ?_)).mul
    (ContinuousOn.rpow_const (by fun_prop) ?_)).mul (ContinuousOn.rpow_const (by fun_prop) ?_)).mul (by fun_prop)
  · intro v hv; exact Or.inl (hs v hv).x1.ne'
  · intro v hv; exact Or.inr he2.le
  · intro v hv; exact Or.inl (hs v hv).x3.ne'
  · intro v hv; exact Or.inl (hs v hv).x4.ne'

/-- at v = v0 the base x2 vanishes: λ(v0) = 0 -/
theorem l_at_v0 {p : SedovFuncs.P} {γ k ω : ℝ} (hC : StdConsts p γ k ω) (P : Params γ k ω) (ha2 : 0 < -p.a2) :
    SedovFuncs.L1.l_fun p (v0 γ k ω) = 0 := by
  have hx : p.c_val * v0 γ k ω - 1 = 0 := by
    rw [hC.c_val]; unfold K.c_val v0
    have := P.X_pos.ne'; have := P.γ_pos.ne'
    field_simp; ring
  simp only [epv_semi_leaf, hx, mul_zero, Real.zero_rpow ha2.ne', zero_mul]

/-- at v = v2 all four bases are 1: λ = g = 1 (the shock) -/
theorem at_v2 {p : SedovFuncs.P} {γ k ω : ℝ} (hC : StdConsts p γ k ω) (P : Params γ k ω)
    (hd : (k + 2 - ω) * (γ + 1) - 2 * (2 + k * (γ - 1)) ≠ 0) :
    SedovFuncs.L1.l_fun p (v2 γ k ω) = 1 ∧ SedovFuncs.L1.g_fun p (v2 γ k ω) = 1 ∧ SedovFuncs.L1.f_fun p (v2 γ k ω) = 1
      ∧ SedovFuncs.L1.h_fun p (v2 γ k ω) = 1 := by
  have hX := P.X_pos.ne'; have hγ := P.hγ
  have hg1 : γ + 1 ≠ 0 := by linarith
  have hg2 : γ - 1 ≠ 0 := by linarith
  have h1 : p.a_val * v2 γ k ω = 1 := by
    rw [hC.a_val]; unfold K.a_val v2; field_simp
  have h2 : p.b_val * (p.c_val * v2 γ k ω - 1) = 1 := by
    rw [hC.b_val, hC.c_val]; unfold K.b_val K.c_val v2; field_simp; ring
  have h3 : p.d_val * (1 - p.e_val * v2 γ k ω) = 1 := by
    rw [hC.d_val, hC.e_val]; unfold K.d_val K.e_val v2; field_simp; ring
  have h4 : p.b_val * (1 - 1 / 2 * p.xg2 * v2 γ k ω) = 1 := by
    rw [hC.b_val, hC.xg2]; unfold K.b_val v2; field_simp; ring
  simp only [epv_semi_leaf, h1, h2, h3, h4, Real.one_rpow, mul_one, and_self]

/-- **The mass integral of the traced density similarity function, standard solution type.**
For γ > 1, k ∈ ℕ, k ≥ 1, ω < k, special_singularity none (denom2, denom3 ≠ 0), standard type
(v2 < vstar), and ANY g : ℝ → ℝ with g(λ(v)) = G(v) for v0 < v < v2 (λ, G the traced closed forms):
∫₀¹ g x^(k-1) dx = (γ-1)/((γ+1)(k-ω)).  No integrability or limit hypothesis. -/
theorem mass_integral_std {p : SedovFuncs.P} {γ ω : ℝ} (kn : ℕ) (h1 : 1 ≤ kn) (hC : StdConsts p γ kn ω)
    (P : Params γ kn ω) (htype : v2 γ kn ω < vstar γ kn) (hd3 : K.denom3 γ kn ω ≠ 0) (g : ℝ → ℝ)
    (hg : ∀ v ∈ Ioo (v0 γ kn ω) (v2 γ kn ω), g (SedovFuncs.L1.l_fun p v) = SedovFuncs.L1.g_fun p v) :
    ∫ x in (0:ℝ)..1, g x * x ^ (kn - 1) = (γ - 1) / ((γ + 1) * ((kn : ℝ) - ω)) := by
  set k : ℝ := (kn : ℝ) with hk
  have hX := P.X_pos; have hγ := P.hγ
  have hγ0 := P.γ_pos
  have hab : v0 γ k ω < v2 γ k ω := by
    unfold v0 v2
    rw [div_lt_div_iff₀ (mul_pos hX hγ0) (mul_pos hX (by linarith))]
    nlinarith
  have hcl : ∀ v ∈ Icc (v0 γ k ω) (v2 γ k ω), StdClosed γ k ω v := fun v hv => ⟨P, htype, hv.1, hv.2⟩
  have hS0 := (hcl _ (left_mem_Icc.mpr hab.le)).signs
  have hd2pos := denom2_pos hS0 P.hk
  have hd2 := hd2pos.ne'
  have ha2 := neg_a2_pos hC hγ hd2pos
  have he2 := e2_pos hC P hd2pos kn rfl
  have hCB : ∀ v ∈ Icc (v0 γ k ω) (v2 γ k ω), ClosedBases p v := fun v hv => closedBases hC (hcl v hv).signs
  have hint : ∀ v ∈ Ioo (v0 γ k ω) (v2 γ k ω), StdInterior γ k ω v := fun v hv => ⟨P, htype, hv.1, hv.2⟩
  have hkω : 0 < k - ω := by linarith [P.hωk]
  -- the abstract theorem
  have key := integral_param_mono hab (L := SedovFuncs.L1.l_fun p) (L' := SedovFuncs.L1.l_fun_dv p)
    (W := fun v => (k - ω) * (SedovFuncs.L1.g_fun p v * SedovFuncs.L1.l_fun p v ^ (kn - 1)))
    (M := M p (k + 2 - ω) kn) (φ := fun x => (k - ω) * (g x * x ^ (kn - 1)))
    (l_continuousOn hC _ hCB ha2)
    (fun v hv => (Std.hasDerivAt p v (Std.bases hC (hint v hv).toSigns)).1)
    (fun v hv => Std.l_dv_pos hC (hint v hv) hd2 hd3)
    ((Mc_continuousOn (k + 2 - ω) kn _ hCB he2).congr (fun v hv => M_eq_Mc (hCB v hv) _ kn h1 ha2 he2))
    (fun v hv => M_hasDerivAt hC (hint v hv).toSigns hd2 hd3 kn rfl h1)
    (fun v hv => by
      have B := Std.bases hC (hint v hv).toSigns
      exact mul_nonneg hkω.le (mul_nonneg (Std.g_pos p v B).le (pow_nonneg (Std.l_pos p v B).le _)))
    (fun v hv => by beta_reduce; rw [hg v hv])
  rw [l_at_v0 hC P ha2, (at_v2 hC P hS0.dden.ne').1] at key
  have hM0 : M p (k + 2 - ω) kn (v0 γ k ω) = 0 := by
    unfold M; rw [l_at_v0 hC P ha2, zero_pow (by omega), zero_mul, zero_mul]
  have hM2 : M p (k + 2 - ω) kn (v2 γ k ω) = (γ - 1) / (γ + 1) := by
    unfold M; rw [(at_v2 hC P hS0.dden.ne').1, (at_v2 hC P hS0.dden.ne').2.1, one_pow, one_mul, one_mul]
    unfold v2
    have : γ + 1 ≠ 0 := by linarith
    field_simp; ring
  rw [hM0, hM2, sub_zero, intervalIntegral.integral_const_mul] at key
  have hg1 : γ + 1 ≠ 0 := by linarith
  field_simp
  field_simp at key
  linarith

end

end EPV.Sedov.Mass
