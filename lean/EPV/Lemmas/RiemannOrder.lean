/-
Order of the wave speeds of the ideal-gas Riemann solution, the `reg_state` sequence over sorted
boundaries, and the mirror images of wave speeds, star velocity and fan profiles.  Used by the
whole-solution mirror theorem of C09 (`EPV.Props.C09.RiemannMirror`).
-/
import EPV.Lemmas.Riemann

set_option linter.all false

open EPV EPV.Gen EPV.Model EPV.Spec.Riemann

namespace EPV.Riem

/-- a shock is subsonic behind and supersonic ahead: (p* - p₀)/m < m/ρ₀ -/
theorem shock_speed_order {px p ρ γ : ℝ} (hp : 0 < p) (hρ : 0 < ρ) (hγ : 1 < γ) (hpx : 0 < px) :
    (px - p) / mflux px p ρ γ < mflux px p ρ γ / ρ := by
  have hN := NN_pos hp hγ hpx.le
  have hm := mflux_pos hρ hN
  have hm2 := mflux_sq hρ hN
  unfold NN at hm2
  rw [div_lt_div_iff₀ hm hρ]
  have hD : 0 < (γ - 1) * px + (γ + 1) * p := by nlinarith
  have := mul_pos hρ hD
  nlinarith [hm2]

theorem rhoShock_pos {px p ρ γ : ℝ} (hp : 0 < p) (hρ : 0 < ρ) (hγ : 1 < γ) (hpx : 0 < px) : 0 < rhoShock px p ρ γ := by
  have h1 : 0 < px * (γ - 1) + p * (γ + 1) := by nlinarith
  have h2 : 0 < p * (γ - 1) + px * (γ + 1) := by nlinarith
  rw [rhoShock_eq]; positivity
theorem rhoRare_pos {px p ρ γ : ℝ} (hp : 0 < p) (hρ : 0 < ρ) (hpx : 0 < px) : 0 < rhoRare px p ρ γ := by
  rw [rhoRare_eq]; exact mul_pos hρ (Real.rpow_pos_of_pos (by positivity) _)
theorem sound_pos {p ρ γ : ℝ} (hp : 0 < p) (hρ : 0 < ρ) (hγ : 0 < γ) : 0 < sound p ρ γ := by
  rw [sound_eq]; exact Real.sqrt_pos.mpr (by positivity)

/-- the head of a fan is faster (away from the contact) than its tail:
c* < c₀ + (2c₀/(γ-1))(1 - (p*/p₀)^κ)  for p* < p₀ -/
theorem fan_speed_order {px p ρ γ : ℝ} (hp : 0 < p) (hρ : 0 < ρ) (hγ : 1 < γ) (hpx : 0 < px) (h : px < p) :
    sound px (rhoRare px p ρ γ) γ < sound p ρ γ + rare px p ρ 0 γ := by
  have hz : px / p < 1 := (div_lt_one hp).mpr h
  have hz0 : 0 < px / p := by positivity
  have hk : 0 < (γ - 1) / 2 / γ := by
    have : 0 < γ - 1 := by linarith
    positivity
  have hA : (px / p) ^ ((γ - 1) / 2 / γ) < 1 := Real.rpow_lt_one hz0.le hz hk
  have ha := sound_pos hp hρ (by linarith : 0 < γ)
  rw [sound_on_isentrope hp hρ hγ hpx, rare_eq, ← sound_eq]
  generalize (px / p) ^ ((γ - 1) / 2 / γ) = A at *
  generalize sound p ρ γ = a at *
  have hg : 0 < γ - 1 := by linarith
  have : 0 < 2 * a / (γ - 1) * (1 - A) := by
    have : 0 < 1 - A := by linarith
    positivity
  nlinarith


abbrev St4 := RiemannIG.State ℝ

/-- one `reg_state` step when the boundary is left of / at the point, resp. right of it -/
theorem assemble_cons_le {X x : ℝ} (h : X ≤ x) (Xs : List ℝ) (s : St4) (ss : List St4) (i : ℕ) (cur : ℕ × St4) :
    RiemannIG.assemble x (X :: Xs) (s :: ss) i cur = RiemannIG.assemble x Xs ss (i + 1) (i + 1, s) := by
  simp [RiemannIG.assemble, h]
theorem assemble_cons_gt {X x : ℝ} (h : x < X) (Xs : List ℝ) (s : St4) (ss : List St4) (i : ℕ) (cur : ℕ × St4) :
    RiemannIG.assemble x (X :: Xs) (s :: ss) i cur = RiemannIG.assemble x Xs ss (i + 1) cur := by
  simp [RiemannIG.assemble, not_le.mpr h]
theorem assemble_nil (x : ℝ) (ss : List St4) (i : ℕ) (cur : ℕ × St4) :
    RiemannIG.assemble x [] ss i cur = cur := by
  simp [RiemannIG.assemble]

/-- the `reg_state` sequence over strictly increasing boundaries selects the region that contains x -/
theorem asm3 {X0 X1 X2 x : ℝ} (s0 s1 s2 s3 : St4) (h01 : X0 < X1) (h12 : X1 < X2) :
    RiemannIG.assemble x [X0, X1, X2] [s1, s2, s3] 0 (0, s0)
      = if x < X0 then (0, s0) else if x < X1 then (1, s1) else if x < X2 then (2, s2) else (3, s3) := by
  by_cases c0 : x < X0
  · rw [if_pos c0, assemble_cons_gt c0, assemble_cons_gt (by linarith), assemble_cons_gt (by linarith), assemble_nil]
  rw [if_neg c0, assemble_cons_le (not_lt.mp c0)]
  by_cases c1 : x < X1
  · rw [if_pos c1, assemble_cons_gt c1, assemble_cons_gt (by linarith), assemble_nil]
  rw [if_neg c1, assemble_cons_le (not_lt.mp c1)]
  by_cases c2 : x < X2
  · rw [if_pos c2, assemble_cons_gt c2, assemble_nil]
  rw [if_neg c2, assemble_cons_le (not_lt.mp c2), assemble_nil]

theorem asm4 {X0 X1 X2 X3 x : ℝ} (s0 s1 s2 s3 s4 : St4) (h01 : X0 < X1) (h12 : X1 < X2) (h23 : X2 < X3) :
    RiemannIG.assemble x [X0, X1, X2, X3] [s1, s2, s3, s4] 0 (0, s0)
      = if x < X0 then (0, s0) else if x < X1 then (1, s1) else if x < X2 then (2, s2)
        else if x < X3 then (3, s3) else (4, s4) := by
  by_cases c0 : x < X0
  · rw [if_pos c0, assemble_cons_gt c0, assemble_cons_gt (by linarith), assemble_cons_gt (by linarith),
      assemble_cons_gt (by linarith), assemble_nil]
  rw [if_neg c0, assemble_cons_le (not_lt.mp c0)]
  by_cases c1 : x < X1
  · rw [if_pos c1, assemble_cons_gt c1, assemble_cons_gt (by linarith), assemble_cons_gt (by linarith), assemble_nil]
  rw [if_neg c1, assemble_cons_le (not_lt.mp c1)]
  by_cases c2 : x < X2
  · rw [if_pos c2, assemble_cons_gt c2, assemble_cons_gt (by linarith), assemble_nil]
  rw [if_neg c2, assemble_cons_le (not_lt.mp c2)]
  by_cases c3 : x < X3
  · rw [if_pos c3, assemble_cons_gt c3, assemble_nil]
  rw [if_neg c3, assemble_cons_le (not_lt.mp c3), assemble_nil]

theorem asm5 {X0 X1 X2 X3 X4 x : ℝ} (s0 s1 s2 s3 s4 s5 : St4) (h01 : X0 < X1) (h12 : X1 < X2) (h23 : X2 < X3)
    (h34 : X3 < X4) :
    RiemannIG.assemble x [X0, X1, X2, X3, X4] [s1, s2, s3, s4, s5] 0 (0, s0)
      = if x < X0 then (0, s0) else if x < X1 then (1, s1) else if x < X2 then (2, s2)
        else if x < X3 then (3, s3) else if x < X4 then (4, s4) else (5, s5) := by
  by_cases c0 : x < X0
  · rw [if_pos c0, assemble_cons_gt c0, assemble_cons_gt (by linarith), assemble_cons_gt (by linarith),
      assemble_cons_gt (by linarith), assemble_cons_gt (by linarith), assemble_nil]
  rw [if_neg c0, assemble_cons_le (not_lt.mp c0)]
  by_cases c1 : x < X1
  · rw [if_pos c1, assemble_cons_gt c1, assemble_cons_gt (by linarith), assemble_cons_gt (by linarith),
      assemble_cons_gt (by linarith), assemble_nil]
  rw [if_neg c1, assemble_cons_le (not_lt.mp c1)]
  by_cases c2 : x < X2
  · rw [if_pos c2, assemble_cons_gt c2, assemble_cons_gt (by linarith), assemble_cons_gt (by linarith), assemble_nil]
  rw [if_neg c2, assemble_cons_le (not_lt.mp c2)]
  by_cases c3 : x < X3
  · rw [if_pos c3, assemble_cons_gt c3, assemble_cons_gt (by linarith), assemble_nil]
  rw [if_neg c3, assemble_cons_le (not_lt.mp c3)]
  by_cases c4 : x < X4
  · rw [if_pos c4, assemble_cons_gt c4, assemble_nil]
  rw [if_neg c4, assemble_cons_le (not_lt.mp c4), assemble_nil]

theorem asm3_mirror {X0 X1 X2 x c : ℝ} (s0 s1 s2 s3 : St4) (m : St4 → St4) (h01 : X0 < X1) (h12 : X1 < X2)
    (n0 : x ≠ X0) (n1 : x ≠ X1) (n2 : x ≠ X2) :
    RiemannIG.assemble (c - x) [c - X2, c - X1, c - X0] [m s2, m s1, m s0] 0 (0, m s3)
      = (3 - (RiemannIG.assemble x [X0, X1, X2] [s1, s2, s3] 0 (0, s0)).1,
         m (RiemannIG.assemble x [X0, X1, X2] [s1, s2, s3] 0 (0, s0)).2) := by
  rw [asm3 s0 s1 s2 s3 h01 h12,
    asm3 (m s3) (m s2) (m s1) (m s0) (by linarith : c - X2 < c - X1) (by linarith : c - X1 < c - X0)]
  by_cases p0 : x < X0
  · have b0 : ¬ c - x < c - X0 := by linarith
    have b1 : ¬ c - x < c - X1 := by linarith
    have b2 : ¬ c - x < c - X2 := by linarith
    simp only [p0, b0, b1, b2, if_true, if_false]
  have q0 : X0 < x := lt_of_le_of_ne (not_lt.mp p0) (Ne.symm n0)
  by_cases p1 : x < X1
  · have a0 : ¬ x < X0 := by linarith
    have b0 : c - x < c - X0 := by linarith
    have b1 : ¬ c - x < c - X1 := by linarith
    have b2 : ¬ c - x < c - X2 := by linarith
    simp only [a0, p1, b0, b1, b2, if_true, if_false]
  have q1 : X1 < x := lt_of_le_of_ne (not_lt.mp p1) (Ne.symm n1)
  by_cases p2 : x < X2
  · have a0 : ¬ x < X0 := by linarith
    have a1 : ¬ x < X1 := by linarith
    have b0 : c - x < c - X0 := by linarith
    have b1 : c - x < c - X1 := by linarith
    have b2 : ¬ c - x < c - X2 := by linarith
    simp only [a0, a1, p2, b0, b1, b2, if_true, if_false]
  have q2 : X2 < x := lt_of_le_of_ne (not_lt.mp p2) (Ne.symm n2)
  have a0 : ¬ x < X0 := by linarith
  have a1 : ¬ x < X1 := by linarith
  have a2 : ¬ x < X2 := by linarith
  have b0 : c - x < c - X0 := by linarith
  have b1 : c - x < c - X1 := by linarith
  have b2 : c - x < c - X2 := by linarith
  simp only [a0, a1, a2, b0, b1, b2, if_true, if_false]

theorem asm4_mirror {X0 X1 X2 X3 x c : ℝ} (s0 s1 s2 s3 s4 : St4) (m : St4 → St4) (h01 : X0 < X1) (h12 : X1 < X2) (h23 : X2 < X3)
    (n0 : x ≠ X0) (n1 : x ≠ X1) (n2 : x ≠ X2) (n3 : x ≠ X3) :
    RiemannIG.assemble (c - x) [c - X3, c - X2, c - X1, c - X0] [m s3, m s2, m s1, m s0] 0 (0, m s4)
      = (4 - (RiemannIG.assemble x [X0, X1, X2, X3] [s1, s2, s3, s4] 0 (0, s0)).1,
         m (RiemannIG.assemble x [X0, X1, X2, X3] [s1, s2, s3, s4] 0 (0, s0)).2) := by
  rw [asm4 s0 s1 s2 s3 s4 h01 h12 h23,
    asm4 (m s4) (m s3) (m s2) (m s1) (m s0) (by linarith : c - X3 < c - X2) (by linarith : c - X2 < c - X1) (by linarith : c - X1 < c - X0)]
  by_cases p0 : x < X0
  · have b0 : ¬ c - x < c - X0 := by linarith
    have b1 : ¬ c - x < c - X1 := by linarith
    have b2 : ¬ c - x < c - X2 := by linarith
    have b3 : ¬ c - x < c - X3 := by linarith
    simp only [p0, b0, b1, b2, b3, if_true, if_false]
  have q0 : X0 < x := lt_of_le_of_ne (not_lt.mp p0) (Ne.symm n0)
  by_cases p1 : x < X1
  · have a0 : ¬ x < X0 := by linarith
    have b0 : c - x < c - X0 := by linarith
    have b1 : ¬ c - x < c - X1 := by linarith
    have b2 : ¬ c - x < c - X2 := by linarith
    have b3 : ¬ c - x < c - X3 := by linarith
    simp only [a0, p1, b0, b1, b2, b3, if_true, if_false]
  have q1 : X1 < x := lt_of_le_of_ne (not_lt.mp p1) (Ne.symm n1)
  by_cases p2 : x < X2
  · have a0 : ¬ x < X0 := by linarith
    have a1 : ¬ x < X1 := by linarith
    have b0 : c - x < c - X0 := by linarith
    have b1 : c - x < c - X1 := by linarith
    have b2 : ¬ c - x < c - X2 := by linarith
    have b3 : ¬ c - x < c - X3 := by linarith
    simp only [a0, a1, p2, b0, b1, b2, b3, if_true, if_false]
  have q2 : X2 < x := lt_of_le_of_ne (not_lt.mp p2) (Ne.symm n2)
  by_cases p3 : x < X3
  · have a0 : ¬ x < X0 := by linarith
    have a1 : ¬ x < X1 := by linarith
    have a2 : ¬ x < X2 := by linarith
    have b0 : c - x < c - X0 := by linarith
    have b1 : c - x < c - X1 := by linarith
    have b2 : c - x < c - X2 := by linarith
    have b3 : ¬ c - x < c - X3 := by linarith
    simp only [a0, a1, a2, p3, b0, b1, b2, b3, if_true, if_false]
  have q3 : X3 < x := lt_of_le_of_ne (not_lt.mp p3) (Ne.symm n3)
  have a0 : ¬ x < X0 := by linarith
  have a1 : ¬ x < X1 := by linarith
  have a2 : ¬ x < X2 := by linarith
  have a3 : ¬ x < X3 := by linarith
  have b0 : c - x < c - X0 := by linarith
  have b1 : c - x < c - X1 := by linarith
  have b2 : c - x < c - X2 := by linarith
  have b3 : c - x < c - X3 := by linarith
  simp only [a0, a1, a2, a3, b0, b1, b2, b3, if_true, if_false]

theorem asm5_mirror {X0 X1 X2 X3 X4 x c : ℝ} (s0 s1 s2 s3 s4 s5 : St4) (m : St4 → St4) (h01 : X0 < X1) (h12 : X1 < X2) (h23 : X2 < X3) (h34 : X3 < X4)
    (n0 : x ≠ X0) (n1 : x ≠ X1) (n2 : x ≠ X2) (n3 : x ≠ X3) (n4 : x ≠ X4) :
    RiemannIG.assemble (c - x) [c - X4, c - X3, c - X2, c - X1, c - X0] [m s4, m s3, m s2, m s1, m s0] 0 (0, m s5)
      = (5 - (RiemannIG.assemble x [X0, X1, X2, X3, X4] [s1, s2, s3, s4, s5] 0 (0, s0)).1,
         m (RiemannIG.assemble x [X0, X1, X2, X3, X4] [s1, s2, s3, s4, s5] 0 (0, s0)).2) := by
  rw [asm5 s0 s1 s2 s3 s4 s5 h01 h12 h23 h34,
    asm5 (m s5) (m s4) (m s3) (m s2) (m s1) (m s0) (by linarith : c - X4 < c - X3) (by linarith : c - X3 < c - X2) (by linarith : c - X2 < c - X1) (by linarith : c - X1 < c - X0)]
  by_cases p0 : x < X0
  · have b0 : ¬ c - x < c - X0 := by linarith
    have b1 : ¬ c - x < c - X1 := by linarith
    have b2 : ¬ c - x < c - X2 := by linarith
    have b3 : ¬ c - x < c - X3 := by linarith
    have b4 : ¬ c - x < c - X4 := by linarith
    simp only [p0, b0, b1, b2, b3, b4, if_true, if_false]
  have q0 : X0 < x := lt_of_le_of_ne (not_lt.mp p0) (Ne.symm n0)
  by_cases p1 : x < X1
  · have a0 : ¬ x < X0 := by linarith
    have b0 : c - x < c - X0 := by linarith
    have b1 : ¬ c - x < c - X1 := by linarith
    have b2 : ¬ c - x < c - X2 := by linarith
    have b3 : ¬ c - x < c - X3 := by linarith
    have b4 : ¬ c - x < c - X4 := by linarith
    simp only [a0, p1, b0, b1, b2, b3, b4, if_true, if_false]
  have q1 : X1 < x := lt_of_le_of_ne (not_lt.mp p1) (Ne.symm n1)
  by_cases p2 : x < X2
  · have a0 : ¬ x < X0 := by linarith
    have a1 : ¬ x < X1 := by linarith
    have b0 : c - x < c - X0 := by linarith
    have b1 : c - x < c - X1 := by linarith
    have b2 : ¬ c - x < c - X2 := by linarith
    have b3 : ¬ c - x < c - X3 := by linarith
    have b4 : ¬ c - x < c - X4 := by linarith
    simp only [a0, a1, p2, b0, b1, b2, b3, b4, if_true, if_false]
  have q2 : X2 < x := lt_of_le_of_ne (not_lt.mp p2) (Ne.symm n2)
  by_cases p3 : x < X3
  · have a0 : ¬ x < X0 := by linarith
    have a1 : ¬ x < X1 := by linarith
    have a2 : ¬ x < X2 := by linarith
    have b0 : c - x < c - X0 := by linarith
    have b1 : c - x < c - X1 := by linarith
    have b2 : c - x < c - X2 := by linarith
    have b3 : ¬ c - x < c - X3 := by linarith
    have b4 : ¬ c - x < c - X4 := by linarith
    simp only [a0, a1, a2, p3, b0, b1, b2, b3, b4, if_true, if_false]
  have q3 : X3 < x := lt_of_le_of_ne (not_lt.mp p3) (Ne.symm n3)
  by_cases p4 : x < X4
  · have a0 : ¬ x < X0 := by linarith
    have a1 : ¬ x < X1 := by linarith
    have a2 : ¬ x < X2 := by linarith
    have a3 : ¬ x < X3 := by linarith
    have b0 : c - x < c - X0 := by linarith
    have b1 : c - x < c - X1 := by linarith
    have b2 : c - x < c - X2 := by linarith
    have b3 : c - x < c - X3 := by linarith
    have b4 : ¬ c - x < c - X4 := by linarith
    simp only [a0, a1, a2, a3, p4, b0, b1, b2, b3, b4, if_true, if_false]
  have q4 : X4 < x := lt_of_le_of_ne (not_lt.mp p4) (Ne.symm n4)
  have a0 : ¬ x < X0 := by linarith
  have a1 : ¬ x < X1 := by linarith
  have a2 : ¬ x < X2 := by linarith
  have a3 : ¬ x < X3 := by linarith
  have a4 : ¬ x < X4 := by linarith
  have b0 : c - x < c - X0 := by linarith
  have b1 : c - x < c - X1 := by linarith
  have b2 : c - x < c - X2 := by linarith
  have b3 : c - x < c - X3 := by linarith
  have b4 : c - x < c - X4 := by linarith
  simp only [a0, a1, a2, a3, a4, b0, b1, b2, b3, b4, if_true, if_false]


/-! ### mirror: side detection, wave speeds, star velocity, fan profiles -/

theorem mirror_distinct (q : Prob) (hd : q.Distinct) : q.mirror.Distinct := by
  unfold Prob.Distinct Prob.mirror at *
  simp only [neg_inj]
  intro ⟨h1, h2, h3⟩; exact hd ⟨h1.symm, h2.symm, h3.symm⟩

/-- in the mirrored problem the original left state is the right state (sign -1) and the original
right state is the left state (sign +1), provided L ≠ R -/
theorem fanSgn_mirror (q : Prob) (hd : q.Distinct) :
    fanSgn q.mirror q.pl q.rl (-q.ul) = -1 ∧ fanSgn q.mirror q.pr q.rr (-q.ur) = 1 :=
  ⟨fanSgn_right q.mirror (mirror_distinct q hd), fanSgn_left q.mirror⟩

/-- shock speeds of the mirrored problem are the negated original speeds -/
theorem shockVel_mirror (q : Prob) (hd : q.Distinct) (px : ℝ) :
    shockVel q.mirror px q.pl q.rl (-q.ul) q.gl = -(shockVel q px q.pl q.rl q.ul q.gl) ∧
    shockVel q.mirror px q.pr q.rr (-q.ur) q.gr = -(shockVel q px q.pr q.rr q.ur q.gr) := by
  obtain ⟨s1, s2⟩ := fanSgn_mirror q hd
  rw [shockVel_eq, shockVel_eq, shockVel_eq, shockVel_eq, s1, s2, fanSgn_left, fanSgn_right q hd]
  constructor <;> ring

/-- star velocity: the mirrored driver computes it from the original RIGHT wave; with the atom
hypothesis `X_call px = 0` it is the negated original star velocity (all four patterns) -/
theorem ux_mirror (q : Prob) (px : ℝ) :
    (SCS q px = 0 → uxS q.mirror px = -(uxS q px)) ∧ (RCS q px = 0 → uxS q.mirror px = -(uxF q px)) ∧
    (SCR q px = 0 → uxF q.mirror px = -(uxS q px)) ∧ (RCR q px = 0 → uxF q.mirror px = -(uxF q px)) := by
  refine ⟨fun h => ?_, fun h => ?_, fun h => ?_, fun h => ?_⟩
  · have := scs_ux q px h; simp only [uxS, Prob.mirror]; linear_combination this
  · have := rcs_ux q px h; simp only [uxS, uxF, Prob.mirror]; linear_combination this
  · have := scr_ux q px h; simp only [uxS, uxF, Prob.mirror]; linear_combination this
  · have := rcr_ux q px h; simp only [uxF, Prob.mirror]; linear_combination this

/-- fan profiles: the mirrored problem's fan through the (negated) original state, evaluated at the
reflected point 2·xd0 - x, has the same ρ and p and the negated velocity -/
theorem fan_mirror (q : Prob) (hd : q.Distinct) (xd0 x t : ℝ) (ht : t ≠ 0) :
    (fanRho q.mirror q.pl q.rl (-q.ul) q.gl xd0 (2 * xd0 - x) t = fanRho q q.pl q.rl q.ul q.gl xd0 x t ∧
     fanP q.mirror q.pl q.rl (-q.ul) q.gl xd0 (2 * xd0 - x) t = fanP q q.pl q.rl q.ul q.gl xd0 x t ∧
     fanU q.mirror q.pl q.rl (-q.ul) q.gl xd0 (2 * xd0 - x) t = -(fanU q q.pl q.rl q.ul q.gl xd0 x t)) ∧
    (fanRho q.mirror q.pr q.rr (-q.ur) q.gr xd0 (2 * xd0 - x) t = fanRho q q.pr q.rr q.ur q.gr xd0 x t ∧
     fanP q.mirror q.pr q.rr (-q.ur) q.gr xd0 (2 * xd0 - x) t = fanP q q.pr q.rr q.ur q.gr xd0 x t ∧
     fanU q.mirror q.pr q.rr (-q.ur) q.gr xd0 (2 * xd0 - x) t = -(fanU q q.pr q.rr q.ur q.gr xd0 x t)) := by
  obtain ⟨s1, s2⟩ := fanSgn_mirror q hd
  have e : (2 * xd0 - x - xd0) / t = -((x - xd0) / t) := by field_simp; ring
  have y1 : fanY q.mirror q.pl q.rl (-q.ul) q.gl xd0 (2 * xd0 - x) t = fanY q q.pl q.rl q.ul q.gl xd0 x t := by
    unfold fanY; rw [s1, fanSgn_left, e]; ring
  have y2 : fanY q.mirror q.pr q.rr (-q.ur) q.gr xd0 (2 * xd0 - x) t = fanY q q.pr q.rr q.ur q.gr xd0 x t := by
    unfold fanY; rw [s2, fanSgn_right q hd, e]; ring
  refine ⟨⟨?_, ?_, ?_⟩, ⟨?_, ?_, ?_⟩⟩
  · rw [fanRho_eq, fanRho_eq, y1]
  · rw [fanP_eq, fanP_eq, y1]
  · rw [fanU_eq, fanU_eq, s1, fanSgn_left, e]; ring
  · rw [fanRho_eq, fanRho_eq, y2]
  · rw [fanP_eq, fanP_eq, y2]
  · rw [fanU_eq, fanU_eq, s2, fanSgn_right q hd, e]; ring

end EPV.Riem
