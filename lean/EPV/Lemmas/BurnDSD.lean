/-
The bridge between the generated burn-time models (one file per solver: BurnK1, BurnK2, BurnK3, BurnDSD —
so that a change of one solver breaks only its own theorems) and the documented solutions of `EPV.Spec.Burn`:

* `…_outcome`  : the traced request is served (`outcome = .ok`) exactly under the conditions the
                 constructor enforces, written in the vocabulary of the specification;
* `…_eq_spec` / `…_eq_cone` : wherever it is served, the traced `burntime` IS the documented
                 formula, with points read as elements of `EuclideanSpace ℝ (Fin n)`.

Everything the property files (C13, C09, C07, C08, C20 shares) prove about the code goes through
these statements.  They are proved by reducing the traced tree with the acceptance conditions (whatever
their order), rewriting the documented norms / distances / inner products into coordinates and ring
normalisation inside and outside the square roots (EPV/Lemmas/Bridge/DetonTactics.lean), so they do not
depend on how the Python writes the formula, and break — loudly — when the traced formula changes.
-/
import EPV.Gen.DSDCyl
import EPV.Spec.Burn
import EPV.Lemmas.Burn
import EPV.Tactics
import EPV.Lemmas.Bridge.DetonTactics

set_option linter.all false

open EPV EPV.Gen EPV.Spec.Burn

namespace EPV.Burn

/-! ### DSD cylindrical expansion -/

theorem dsdcyl_leaves : DSDCyl.okLeaves = [7, 8, 9] := rfl

/-- documented admissible domain (class docstring of `CylindricalExpansion`) -/
def DSDCyl.Adm (p : DSDCyl.P) : Prop := DsdAdm p.r_1 p.r_2 p.D_CJ_1 p.D_CJ_2 p.alpha_1 p.alpha_2

/-- the documented solution at the parameters of the traced model -/
noncomputable def DSDCyl.spec (p : DSDCyl.P) (r : ℝ) : ℝ :=
  dsd p.r_1 p.r_2 p.D_CJ_1 p.D_CJ_2 p.alpha_1 p.alpha_2 p.t_d r

/-- what the constructor enforces -/
theorem dsdcyl_outcome (p : DSDCyl.P) (x y : ℝ) :
    DSDCyl.outcome p x y = .ok ↔
      0 < p.r_1 ∧ 0 < p.r_2 ∧ p.r_1 < p.r_2 ∧ 0 < p.D_CJ_1 ∧ 0 < p.D_CJ_2 ∧ 0 ≤ p.alpha_1 ∧ 0 ≤ p.alpha_2 := by
  simp only [epv_tree, Bridge.Deton.ite_raise_ok, Bridge.Deton.ite_else_raise_ok, ite_self, Bridge.Deton.ok_eq_ok, and_true]
  simp only [epv_cond, not_le, not_lt]
  epv_deton_conj_iff

/-- the documented domain is accepted by the constructor -/
theorem dsdcyl_accepts (p : DSDCyl.P) (h : DSDCyl.Adm p) (x y : ℝ) : DSDCyl.outcome p x y = .ok := by
  rw [dsdcyl_outcome]
  have h1 : 0 ≤ p.alpha_1 / p.D_CJ_1 := div_nonneg h.hα1 h.hD1.le
  have hr1 : 0 < p.r_1 := lt_of_le_of_lt h1 h.h1
  exact ⟨hr1, hr1.trans h.hr, h.hr, h.hD1, h.hD2, h.hα1, h.hα2⟩

/-- the traced burn time is the documented function of the radius -/
theorem dsdcyl_eq_spec (p : DSDCyl.P) (x y : ℝ) (h : DSDCyl.outcome p x y = .ok) :
    DSDCyl.burntime p x y = DSDCyl.spec p (Real.sqrt (x * x + y * y)) := by
  epv_deton_ok_reduce h
  unfold DSDCyl.spec dsd dsdLeg
  -- the two region tests of the code against the two of the documentation, in whatever order and
  -- writing (`r < r_1` or `r >= r_1`) the code makes them
  repeat' epv_deton_bsplit1
  all_goals (simp only [epv_cond] at *)
  all_goals first
    | (simp only [epv_leaf]; epv_deton_nf_eq)
    | (exfalso; epv_deton_doc_absurd)

theorem dsdcyl_eq_spec_norm (p : DSDCyl.P) (h : DSDCyl.Adm p) (q : E2) :
    DSDCyl.burntime p (q 0) (q 1) = DSDCyl.spec p ‖q‖ := by
  rw [dsdcyl_eq_spec p _ _ (dsdcyl_accepts p h _ _), sqrt_norm2]


theorem dsdcyl_eq_L8 (p : DSDCyl.P) (h : DSDCyl.Adm p) (x y : ℝ) (h1 : p.r_1 ≤ Real.sqrt (x * x + y * y))
    (h2 : Real.sqrt (x * x + y * y) < p.r_2) : DSDCyl.burntime p x y = DSDCyl.L8.burntime p x y := by
  have hok := dsdcyl_accepts p h x y
  epv_deton_ok_reduce hok
  have hr := h.hr
  repeat' epv_deton_bsplit1
  all_goals (simp only [epv_cond] at *)
  all_goals first | rfl | (exfalso; epv_deton_doc_absurd)

theorem dsdcyl_eq_L9 (p : DSDCyl.P) (h : DSDCyl.Adm p) (x y : ℝ) (h2 : p.r_2 ≤ Real.sqrt (x * x + y * y)) :
    DSDCyl.burntime p x y = DSDCyl.L9.burntime p x y := by
  have hok := dsdcyl_accepts p h x y
  epv_deton_ok_reduce hok
  have hr := h.hr
  repeat' epv_deton_bsplit1
  all_goals (simp only [epv_cond] at *)
  all_goals first | rfl | (exfalso; epv_deton_doc_absurd)

end EPV.Burn
