/-
The bridge between the generated burn-time models (one file per solver: BurnK1, BurnK2, BurnK3, BurnDSD —
so that a change of one solver breaks only its own theorems) and the documented solutions of `EPV.Spec.Burn`:

* `…_outcome`  : the traced request is served (`outcome = .ok`) exactly under the conditions the
                 constructor enforces, written in the vocabulary of the specification;
* `…_eq_spec` / `…_eq_cone` : wherever it is served, the traced `burntime` IS the documented
                 formula, with points read as elements of `EuclideanSpace ℝ (Fin n)`.

Everything the property files (C13, C09, C07, C08, C20 shares) prove about the code goes through
these statements.  They are proved by unfolding the generated definitions and rewriting
`Real.sqrt (… * … + …)` into norms / distances / inner products, so they break — loudly — when
the traced formula changes.
-/
import EPV.Gen.DSDCyl
import EPV.Spec.Burn
import EPV.Lemmas.Burn
import EPV.Tactics

set_option linter.all false

open EPV EPV.Gen EPV.Spec.Burn

namespace EPV.Burn

/-! ### DSD cylindrical expansion -/

theorem dsdcyl_leaves : DSDCyl.okLeaves = [7, 8, 9] := rfl

/-- documented admissible domain (class docstring of `CylindricalExpansion`) -/
def DSDCyl.Adm (p : DSDCyl.P) : Prop := DsdAdm p.r_1 p.r_2 p.D_CJ_1 p.D_CJ_2 p.alpha_1 p.alpha_2

/-- the documented solution at the parameters of the traced model -/
noncomputable def DSDCyl.spec (p : DSDCyl.P) (r : ℝ) : ℝ :=
  dsd p.r_1 p.r_2 p.D_CJ_1 p.D_CJ_2 p.alpha_1 p.alpha_2 p.t_d r

/-- what the constructor enforces -/
theorem dsdcyl_outcome (p : DSDCyl.P) (x y : ℝ) :
    DSDCyl.outcome p x y = .ok ↔
      0 < p.r_1 ∧ 0 < p.r_2 ∧ p.r_1 < p.r_2 ∧ 0 < p.D_CJ_1 ∧ 0 < p.D_CJ_2 ∧ 0 ≤ p.alpha_1 ∧ 0 ≤ p.alpha_2 := by
  simp only [epv_tree, ite_raise_eq_ok, ite_self]
  simp only [epv_cond, not_le, not_lt, and_true]

/-- the documented domain is accepted by the constructor -/
theorem dsdcyl_accepts (p : DSDCyl.P) (h : DSDCyl.Adm p) (x y : ℝ) : DSDCyl.outcome p x y = .ok := by
  rw [dsdcyl_outcome]
  have h1 : 0 ≤ p.alpha_1 / p.D_CJ_1 := div_nonneg h.hα1 h.hD1.le
  have hr1 : 0 < p.r_1 := lt_of_le_of_lt h1 h.h1
  exact ⟨hr1, hr1.trans h.hr, h.hr, h.hD1, h.hD2, h.hα1, h.hα2⟩

/-- the traced burn time is the documented function of the radius -/
theorem dsdcyl_eq_spec (p : DSDCyl.P) (x y : ℝ) (h : DSDCyl.outcome p x y = .ok) :
    DSDCyl.burntime p x y = DSDCyl.spec p (Real.sqrt (x * x + y * y)) := by
  simp only [epv_tree, ite_raise_eq_ok, ite_self] at h
  obtain ⟨h0, h1, h2, h3, h4, h5, h6, -⟩ := h
  simp only [epv_tree, if_neg h0, if_neg h1, if_neg h2, if_neg h3, if_neg h4, if_neg h5, if_neg h6]
  unfold DSDCyl.spec dsd dsdLeg
  by_cases c7 : DSDCyl.c7 p x y
  · rw [if_pos c7]; simp only [epv_cond] at c7; rw [if_pos c7]; simp only [epv_leaf]
  · rw [if_neg c7]; simp only [epv_cond] at c7; rw [if_neg c7]
    by_cases c8 : DSDCyl.c8 p x y
    · rw [if_pos c8]; simp only [epv_cond] at c8; rw [if_pos c8]; simp only [epv_leaf]
    · rw [if_neg c8]; simp only [epv_cond] at c8; rw [if_neg c8]; simp only [epv_leaf]

theorem dsdcyl_eq_spec_norm (p : DSDCyl.P) (h : DSDCyl.Adm p) (q : E2) :
    DSDCyl.burntime p (q 0) (q 1) = DSDCyl.spec p ‖q‖ := by
  rw [dsdcyl_eq_spec p _ _ (dsdcyl_accepts p h _ _), sqrt_norm2]


theorem dsdcyl_eq_L8 (p : DSDCyl.P) (h : DSDCyl.Adm p) (x y : ℝ) (h1 : p.r_1 ≤ Real.sqrt (x * x + y * y))
    (h2 : Real.sqrt (x * x + y * y) < p.r_2) : DSDCyl.burntime p x y = DSDCyl.L8.burntime p x y := by
  have hok := dsdcyl_accepts p h x y
  simp only [epv_tree, ite_raise_eq_ok, ite_self] at hok
  obtain ⟨h0, h1', h2', h3, h4, h5, h6, -⟩ := hok
  have c7 : ¬ DSDCyl.c7 p x y := by simp only [epv_cond]; exact not_lt.mpr h1
  have c8 : DSDCyl.c8 p x y := by simp only [epv_cond]; exact h2
  simp only [epv_tree, if_neg h0, if_neg h1', if_neg h2', if_neg h3, if_neg h4, if_neg h5, if_neg h6, if_neg c7,
    if_pos c8]

theorem dsdcyl_eq_L9 (p : DSDCyl.P) (h : DSDCyl.Adm p) (x y : ℝ) (h2 : p.r_2 ≤ Real.sqrt (x * x + y * y)) :
    DSDCyl.burntime p x y = DSDCyl.L9.burntime p x y := by
  have hok := dsdcyl_accepts p h x y
  simp only [epv_tree, ite_raise_eq_ok, ite_self] at hok
  obtain ⟨h0, h1', h2', h3, h4, h5, h6, -⟩ := hok
  have c7 : ¬ DSDCyl.c7 p x y := by simp only [epv_cond]; exact not_lt.mpr (h.hr.le.trans h2)
  have c8 : ¬ DSDCyl.c8 p x y := by simp only [epv_cond]; exact not_lt.mpr h2
  simp only [epv_tree, if_neg h0, if_neg h1', if_neg h2', if_neg h3, if_neg h4, if_neg h5, if_neg h6, if_neg c7,
    if_neg c8]

end EPV.Burn
