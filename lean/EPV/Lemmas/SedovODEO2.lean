/-
Sedov (C01 growth), special_singularity omega2 (generated model SedovFuncsO2, leaf 1): logarithmic
form of the derivative certificates, exponent relation, and — AT THE EXACTLY SPECIAL ω
(denom2 = 2(γ-1) + k - γω = 0; the code uses these closed forms on the whole band |denom2| ≤ 1e-4,
where they are approximations) — the three similarity ODEs in parametric form and dλ/dv < 0.
The omega2 exponent always belongs to the vacuum solution type.
-/
import EPV.Gen.SedovFuncsO2D
import EPV.Lemmas.SedovODEAlg
import EPV.Lemmas.SedovODEConsts
import EPV.Lemmas.SedovODEDomain
import EPV.Lemmas.SedovODEParam
import EPV.Lemmas.SedovODEStd
import Mathlib.Analysis.Calculus.ContDiff.RCLike

set_option linter.all false
set_option maxRecDepth 100000

open EPV EPV.Gen EPV.Spec.SedovODE Filter Topology

namespace EPV.Sedov.O2

noncomputable section

/-- the power bases of leaf 1 are positive and the pole of the exponent is avoided -/
structure Bases (p : SedovFuncsO2.P) (v : ℝ) : Prop where
  x1 : 0 < p.a_val * v
  x2 : 0 < p.b_val * (p.c_val * v - 1)
  x4 : 0 < p.b_val * (1 - 1 / 2 * p.xg2 * v)
  y : p.a_val * v - 1 / 2 * p.gamp1 / p.gamma ≠ 0

/-! ### The generated derivative expressions in logarithmic form -/

theorem l_dv (p : SedovFuncsO2.P) (γ v : ℝ) (B : Bases p v) (hgm : p.gamm1 = γ - 1) (hgp : p.gamp1 = γ + 1) :
    SedovFuncsO2.L1.l_fun_dv p v = SedovFuncsO2.L1.l_fun p v
      * Alg.oL p.a0 (1 / (2 * p.e_val)) p.a_val p.c_val (1 / 2 * p.gamp1 / p.gamma) γ v := by
  obtain ⟨hs1, hs2, hs4, hy⟩ := B
  simp only [epv_semi_deriv, epv_semi_leaf, Alg.oL, Alg.dpp2]
  rw [← hgm, ← hgp]
  have h1 := hs1.ne'; have h2 := hs2.ne'
  have h4 : p.a_val ≠ 0 := left_ne_zero_of_mul h1
  have h5 : p.b_val ≠ 0 := left_ne_zero_of_mul h2
  have h7 : v ≠ 0 := right_ne_zero_of_mul h1
  have h8 : p.c_val * v - 1 ≠ 0 := right_ne_zero_of_mul h2
  generalize Real.exp _ = Ex
  generalize (p.b_val * (p.c_val * v - 1)) ^ _ = Bq
  generalize (p.a_val * v) ^ _ = A
  generalize (1 : ℝ) / (2 * p.e_val) = β
  generalize hD2 : p.c_val * v - 1 = D2 at *
  generalize hDy : p.a_val * v - 1 / 2 * p.gamp1 / p.gamma = Dy at *
  field_simp
  ring

theorem f_dv (p : SedovFuncsO2.P) (γ v : ℝ) (B : Bases p v) (hgm : p.gamm1 = γ - 1) (hgp : p.gamp1 = γ + 1) :
    SedovFuncsO2.L1.f_fun_dv p v = p.a_val * v * SedovFuncsO2.L1.l_fun p v
      * (1 / v + Alg.oL p.a0 (1 / (2 * p.e_val)) p.a_val p.c_val (1 / 2 * p.gamp1 / p.gamma) γ v) := by
  obtain ⟨hs1, hs2, hs4, hy⟩ := B
  simp only [epv_semi_deriv, epv_semi_leaf, Alg.oL, Alg.dpp2]
  rw [← hgm, ← hgp]
  have h1 := hs1.ne'; have h2 := hs2.ne'
  have h4 : p.a_val ≠ 0 := left_ne_zero_of_mul h1
  have h5 : p.b_val ≠ 0 := left_ne_zero_of_mul h2
  have h7 : v ≠ 0 := right_ne_zero_of_mul h1
  have h8 : p.c_val * v - 1 ≠ 0 := right_ne_zero_of_mul h2
  generalize Real.exp _ = Ex
  generalize (p.b_val * (p.c_val * v - 1)) ^ _ = Bq
  generalize (p.a_val * v) ^ _ = A
  generalize (1 : ℝ) / (2 * p.e_val) = β
  generalize hD2 : p.c_val * v - 1 = D2 at *
  generalize hDy : p.a_val * v - 1 / 2 * p.gamp1 / p.gamma = Dy at *
  field_simp
  ring

theorem g_dv (p : SedovFuncsO2.P) (γ v : ℝ) (B : Bases p v) (hgm : p.gamm1 = γ - 1) (hgp : p.gamp1 = γ + 1)
    (hg : p.gamma = γ) :
    SedovFuncsO2.L1.g_fun_dv p v = SedovFuncsO2.L1.g_fun p v
      * Alg.oG p.a0 p.a5 (1 / (2 * p.e_val)) p.a_val p.c_val (1 / 2 * p.gamp1 / p.gamma) p.xg2 γ p.geometry p.omega v := by
  obtain ⟨hs1, hs2, hs4, hy⟩ := B
  simp only [epv_semi_deriv, epv_semi_leaf, Alg.oG, Alg.dpp2]
  have e4 : 2 - p.xg2 * v = 2 * (1 - 1 / 2 * p.xg2 * v) := by ring
  rw [e4, ← hgp]
  have h1 := hs1.ne'; have h2 := hs2.ne'; have h3' := hs4.ne'
  have h4 : p.a_val ≠ 0 := left_ne_zero_of_mul h1
  have h5 : p.b_val ≠ 0 := left_ne_zero_of_mul h2
  have h7 : v ≠ 0 := right_ne_zero_of_mul h1
  have h8 : p.c_val * v - 1 ≠ 0 := right_ne_zero_of_mul h2
  have h10 : 1 - 1 / 2 * p.xg2 * v ≠ 0 := right_ne_zero_of_mul h3'
  generalize Real.exp _ = Ex
  generalize (p.b_val * (p.c_val * v - 1)) ^ _ = Bq
  generalize (p.b_val * (1 - 1 / 2 * p.xg2 * v)) ^ _ = Cq
  generalize (p.a_val * v) ^ _ = A
  generalize (1 : ℝ) / (2 * p.e_val) = β
  generalize hD2 : p.c_val * v - 1 = D2 at *
  generalize hD4 : 1 - 1 / 2 * p.xg2 * v = D4 at *
  generalize hDy : p.a_val * v - 1 / 2 * p.gamp1 / p.gamma = Dy at *
  rw [← hg]
  field_simp
  ring

theorem h_dv (p : SedovFuncsO2.P) (γ v : ℝ) (B : Bases p v) (hg : p.gamma = γ) :
    SedovFuncsO2.L1.h_fun_dv p v = SedovFuncsO2.L1.h_fun p v
      * Alg.oH p.a0 p.a5 (1 / (2 * p.e_val)) p.c_val p.xg2 γ p.geometry v := by
  obtain ⟨hs1, hs2, hs4, hy⟩ := B
  simp only [epv_semi_deriv, epv_semi_leaf, Alg.oH]
  have e4 : 2 - p.xg2 * v = 2 * (1 - 1 / 2 * p.xg2 * v) := by ring
  rw [e4, ← hg]
  have h1 := hs1.ne'; have h2 := hs2.ne'; have h3' := hs4.ne'
  have h4 : p.a_val ≠ 0 := left_ne_zero_of_mul h1
  have h5 : p.b_val ≠ 0 := left_ne_zero_of_mul h2
  have h7 : v ≠ 0 := right_ne_zero_of_mul h1
  have h8 : p.c_val * v - 1 ≠ 0 := right_ne_zero_of_mul h2
  have h10 : 1 - 1 / 2 * p.xg2 * v ≠ 0 := right_ne_zero_of_mul h3'
  generalize (p.b_val * (p.c_val * v - 1)) ^ _ = Bq
  generalize (p.b_val * (1 - 1 / 2 * p.xg2 * v)) ^ _ = Cq
  generalize (p.a_val * v) ^ _ = A
  generalize (1 : ℝ) / (2 * p.e_val) = β
  generalize hD2 : p.c_val * v - 1 = D2 at *
  generalize hD4 : 1 - 1 / 2 * p.xg2 * v = D4 at *
  field_simp
  ring

theorem hasDerivAt (p : SedovFuncsO2.P) (v : ℝ) (B : Bases p v) :
    HasDerivAt (SedovFuncsO2.L1.l_fun p) (SedovFuncsO2.L1.l_fun_dv p v) v ∧
    HasDerivAt (SedovFuncsO2.L1.f_fun p) (SedovFuncsO2.L1.f_fun_dv p v) v ∧
    HasDerivAt (SedovFuncsO2.L1.g_fun p) (SedovFuncsO2.L1.g_fun_dv p v) v ∧
    HasDerivAt (SedovFuncsO2.L1.h_fun p) (SedovFuncsO2.L1.h_fun_dv p v) v := by
  -- the certificates' side conditions (their number, order and form follow the Python) are discharged from `B`
  have hx1 := B.x1
  have hx2 := B.x2
  have hx4 := B.x4
  have hy := B.y
  refine ⟨?_, ?_, ?_, ?_⟩
  · epv_hydro_cert SedovFuncsO2.L1.l_fun_hasDerivAt_v p v
  · epv_hydro_cert SedovFuncsO2.L1.f_fun_hasDerivAt_v p v
  · epv_hydro_cert SedovFuncsO2.L1.g_fun_hasDerivAt_v p v
  · epv_hydro_cert SedovFuncsO2.L1.h_fun_hasDerivAt_v p v

theorem l_pos (p : SedovFuncsO2.P) (v : ℝ) (B : Bases p v) : 0 < SedovFuncsO2.L1.l_fun p v := by
  simp only [epv_semi_leaf]
  exact mul_pos (mul_pos (Real.rpow_pos_of_pos B.x1 _) (Real.rpow_pos_of_pos B.x2 _)) (Real.exp_pos _)
theorem g_pos (p : SedovFuncsO2.P) (v : ℝ) (B : Bases p v) : 0 < SedovFuncsO2.L1.g_fun p v := by
  simp only [epv_semi_leaf]
  exact mul_pos (mul_pos (mul_pos (Real.rpow_pos_of_pos B.x1 _) (Real.rpow_pos_of_pos B.x2 _))
    (Real.rpow_pos_of_pos B.x4 _)) (Real.exp_pos _)

/-! ### The exponents add up -/

theorem h_rel_abstract (x1 x2 x4 a0 a5 q1 q3 q4 k ω P : ℝ) (h1 : 0 < x1) (h2 : 0 < x2) (h4 : 0 < x4)
    (e1 : a0 * ω + (-a0) * (2 : ℕ) + 2 = a0 * k) (e2 : q3 + q1 * (2 : ℕ) = q4 + 1) :
    (x1 ^ (a0 * k) * x2 ^ q4 * x4 ^ (1 + a5)) * x2
      = (x1 ^ (a0 * ω) * x2 ^ q3 * x4 ^ a5 * Real.exp (-2 * P)) * x1 ^ 2
        * (x1 ^ (-a0) * x2 ^ q1 * Real.exp P) ^ 2 * x4 := by
  have E1 : x1 ^ (a0 * ω) * (x1 ^ (-a0)) ^ 2 * x1 ^ 2 = x1 ^ (a0 * k) := by
    rw [Std.rpow_combine h1 (a0 * ω) (-a0) (a0 * ω + (-a0) * (2 : ℕ)) 2 rfl, ← Real.rpow_two x1, ← Real.rpow_add h1, e1]
  have E2 : x2 ^ q3 * (x2 ^ q1) ^ 2 = x2 ^ q4 * x2 := by
    rw [Std.rpow_combine h2 _ _ _ 2 e2, Real.rpow_add h2, Real.rpow_one]
  have E4 : x4 ^ a5 * x4 = x4 ^ (1 + a5) := by
    rw [add_comm, Real.rpow_add h4, Real.rpow_one]
  have E5 : Real.exp (-2 * P) * Real.exp P ^ 2 = 1 := by
    rw [← Real.exp_nat_mul, ← Real.exp_add]; push_cast; ring_nf; exact Real.exp_zero
  rw [← E1, ← E4, mul_pow, mul_pow]
  linear_combination (-(x1 ^ (a0 * ω) * (x1 ^ (-a0)) ^ 2 * x1 ^ 2 * (x4 ^ a5 * x4))) * E2
    - (x1 ^ (a0 * ω) * (x1 ^ (-a0)) ^ 2 * x1 ^ 2 * (x4 ^ a5 * x4) * (x2 ^ q3 * (x2 ^ q1) ^ 2)) * E5

/-! ### With the constants of `__init__`, at the exactly special ω -/

/-- the sign facts the omega2 branch needs (both solution types provide them) -/
structure Signs (γ k ω v : ℝ) : Prop where
  hγ : 1 < γ
  hX : 0 < k + 2 - ω
  hE : 0 < 2 + k * (γ - 1)
  hv : 0 < v
  x2 : 0 < 1 / 2 * (k + 2 - ω) * γ * v - 1
  x4 : 0 < 2 - (k + 2 - ω) * v

theorem _root_.EPV.Sedov.Std.Signs.toO2 {γ k ω v : ℝ} (S : Std.Signs γ k ω v) : Signs γ k ω v :=
  ⟨S.hγ, S.hX, S.hE, S.hv, S.x2, S.x4⟩

theorem bases {p : SedovFuncsO2.P} {γ k ω v : ℝ} (hC : O2Consts p γ k ω) (S : Signs γ k ω v)
    (hω2 : K.denom2 γ k ω = 0) : Bases p v := by
  obtain ⟨hγ, hX, hE, hv, h2, h4⟩ := S
  have hb : 0 < (γ + 1) / (γ - 1) := div_pos (by linarith) (by linarith)
  refine ⟨?_, ?_, ?_, ?_⟩
  · rw [hC.a_val]; unfold K.a_val
    exact mul_pos (mul_pos (mul_pos (by norm_num) hX) (by linarith)) hv
  · rw [hC.b_val, hC.c_val]; unfold K.b_val K.c_val
    exact mul_pos hb h2
  · rw [hC.b_val, hC.xg2]; unfold K.b_val
    exact mul_pos hb (by linarith)
  · -- a_val v - c2 = ((γ+1)/(2γ)) (c_val v - 1)
    rw [hC.a_val, hC.gamp1, hC.gamma]; unfold K.a_val
    have hγ0 : γ ≠ 0 := by linarith
    have e : 1 / 4 * (k + 2 - ω) * (γ + 1) * v - 1 / 2 * (γ + 1) / γ
        = (γ + 1) / (2 * γ) * (1 / 2 * (k + 2 - ω) * γ * v - 1) := by
      field_simp; ring
    rw [e]
    exact (mul_pos (div_pos (by linarith) (by linarith)) h2).ne'

/-- the algebra: brackets vanish, d log λ/dv = -γ N(v)/(4 E v (c v - 1)²) -/
theorem brackets {p : SedovFuncsO2.P} {γ k ω v : ℝ} (hC : O2Consts p γ k ω) (S : Signs γ k ω v)
    (hω2 : K.denom2 γ k ω = 0) :
    Alg.Bmass (k + 2 - ω) k ω v (Alg.oL p.a0 (1 / (2 * p.e_val)) p.a_val p.c_val (1 / 2 * p.gamp1 / p.gamma) γ v)
        (Alg.oG p.a0 p.a5 (1 / (2 * p.e_val)) p.a_val p.c_val (1 / 2 * p.gamp1 / p.gamma) (k + 2 - ω) γ k ω v) = 0 ∧
    Alg.Benergy (k + 2 - ω) γ k ω v (Alg.oL p.a0 (1 / (2 * p.e_val)) p.a_val p.c_val (1 / 2 * p.gamp1 / p.gamma) γ v)
        (Alg.oG p.a0 p.a5 (1 / (2 * p.e_val)) p.a_val p.c_val (1 / 2 * p.gamp1 / p.gamma) (k + 2 - ω) γ k ω v)
        (Alg.oH p.a0 p.a5 (1 / (2 * p.e_val)) p.c_val (k + 2 - ω) γ k v) = 0 ∧
    Alg.Bmom (k + 2 - ω) p.c_val γ k ω v (Alg.oL p.a0 (1 / (2 * p.e_val)) p.a_val p.c_val (1 / 2 * p.gamp1 / p.gamma) γ v)
        (Alg.oH p.a0 p.a5 (1 / (2 * p.e_val)) p.c_val (k + 2 - ω) γ k v) = 0 ∧
    Alg.oL p.a0 (1 / (2 * p.e_val)) p.a_val p.c_val (1 / 2 * p.gamp1 / p.gamma) γ v
      = -(γ * (γ * (γ + 1) * (k + 2 - ω) ^ 2 * v ^ 2 - 4 * (γ + 1) * (k + 2 - ω) * v + 8))
        / (4 * (2 + k * (γ - 1)) * v * (p.c_val * v - 1) ^ 2) := by
  have B := bases hC S hω2
  obtain ⟨hγ, hX, hE, hv, h2, h4⟩ := S
  have hg0 : γ ≠ 0 := by linarith
  have hg1 : γ - 1 ≠ 0 := by linarith
  unfold K.denom2 at hω2
  have hXE : k + 2 - ω = (2 + k * (γ - 1)) / γ := by field_simp; linarith
  have hω : ω = k + 2 - (2 + k * (γ - 1)) / γ := by linarith
  have ha0 : p.a0 = 2 / (k + 2 - ω) := hC.a0
  have ha5 : p.a5 = (ω * (γ + 1) - 2 * k) / (-(γ - 1) * (2 + k * (γ - 1)) / γ) := by
    rw [hC.a5]; unfold K.a5
    congr 1
    field_simp
    linear_combination hω2
  have hb0 : 1 / (2 * p.e_val) = 1 / (2 + k * (γ - 1)) := by
    rw [hC.e_val]; unfold K.e_val; congr 1; ring
  have hc : p.c_val = 1 / 2 * (k + 2 - ω) * γ := hC.c_val
  have hav : p.a_val = 1 / 4 * (k + 2 - ω) * (γ + 1) := hC.a_val
  have hc2 : 1 / 2 * p.gamp1 / p.gamma = (γ + 1) / 2 / γ := by rw [hC.gamp1, hC.gamma]; ring
  have hv0 := hv.ne'
  have hD2 : p.c_val * v - 1 ≠ 0 := by rw [hc]; exact h2.ne'
  have hDy := B.y
  have hD4 := h4.ne'
  exact ⟨Alg.o_mass_bracket γ k ω _ _ p.a0 p.a5 _ p.a_val p.c_val _ v hE.ne' hg0 hg1 rfl hXE hω ha0 ha5 hb0 hc hav hc2
      hv0 hD2 hDy hD4,
    Alg.o_energy_bracket γ k ω _ _ p.a0 p.a5 _ p.a_val p.c_val _ v hE.ne' hg0 hg1 rfl hXE hω ha0 ha5 hb0 hc hav hc2
      hv0 hD2 hDy hD4,
    Alg.o_mom_bracket γ k ω _ _ p.a0 p.a5 _ p.a_val p.c_val _ v hE.ne' hg0 hg1 rfl hXE hω ha0 ha5 hb0 hc hav hc2
      hv0 hD2 hDy hD4,
    Alg.o_L_eq γ k ω _ _ p.a0 p.a5 _ p.a_val p.c_val _ v hE.ne' hg0 hg1 rfl hXE hω ha0 ha5 hb0 hc hav hc2
      hv0 hD2 hDy hD4 (by linarith)⟩

theorem h_rel {p : SedovFuncsO2.P} {γ k ω v : ℝ} (hC : O2Consts p γ k ω) (S : Signs γ k ω v)
    (hω2 : K.denom2 γ k ω = 0) :
    SedovFuncsO2.L1.h_fun p v * (p.c_val * v - 1)
      = SedovFuncsO2.L1.g_fun p v * (p.a_val * v) ^ 2 * SedovFuncsO2.L1.l_fun p v ^ 2 * (1 - (k + 2 - ω) / 2 * v) := by
  have B := bases hC S hω2
  have hX := S.hX.ne'
  have hE := S.hE.ne'
  have e1 : p.a0 * p.omega + (-p.a0) * (2 : ℕ) + 2 = p.a0 * p.geometry := by
    rw [hC.a0, hC.omega, hC.geometry]; unfold K.a0; push_cast; field_simp; ring
  have e2 : (4 - p.geometry - 2 * p.gamma) * (1 / (2 * p.e_val)) + p.gamm1 * (1 / (2 * p.e_val)) * (2 : ℕ)
      = -p.geometry * p.gamma * (1 / (2 * p.e_val)) + 1 := by
    rw [hC.geometry, hC.gamma, hC.gamm1, hC.e_val]; unfold K.e_val; push_cast; field_simp; ring
  have key := h_rel_abstract (p.a_val * v) (p.b_val * (p.c_val * v - 1))
    (p.b_val * (1 - 1 / 2 * p.xg2 * v)) p.a0 p.a5 _ _ _ p.geometry p.omega
    (p.gamp1 * (1 / (2 * p.e_val)) * ((1 - p.a_val * v) * (1 / (p.a_val * v - 1 / 2 * p.gamp1 / p.gamma))))
    B.x1 B.x2 B.x4 e1 e2
  have hb : p.b_val ≠ 0 := left_ne_zero_of_mul B.x2.ne'
  simp only [epv_semi_leaf]
  rw [hC.xg2] at key ⊢
  have e4 : (1 : ℝ) - (k + 2 - ω) / 2 * v = 1 - 1 / 2 * (k + 2 - ω) * v := by ring
  rw [e4]
  apply mul_left_cancel₀ hb
  linear_combination key

theorem mass_ode {p : SedovFuncsO2.P} {γ k ω v : ℝ} (hC : O2Consts p γ k ω) (S : Signs γ k ω v)
    (hω2 : K.denom2 γ k ω = 0) :
    massODEv γ k ω (SedovFuncsO2.L1.l_fun p v) (SedovFuncsO2.L1.f_fun p v) (SedovFuncsO2.L1.g_fun p v)
      (SedovFuncsO2.L1.l_fun_dv p v) (SedovFuncsO2.L1.f_fun_dv p v) (SedovFuncsO2.L1.g_fun_dv p v) = 0 := by
  have B := bases hC S hω2
  have hF : SedovFuncsO2.L1.f_fun p v = p.a_val * v * SedovFuncsO2.L1.l_fun p v := by simp only [epv_semi_leaf]
  have hs : 2 / (γ + 1) * (p.a_val * v) = (k + 2 - ω) / 2 * v := by
    rw [hC.a_val]; unfold K.a_val; have := S.hγ; field_simp; ring
  rw [hF, l_dv p γ v B hC.gamm1 hC.gamp1, f_dv p γ v B hC.gamm1 hC.gamp1, g_dv p γ v B hC.gamm1 hC.gamp1 hC.gamma,
    hC.xg2, hC.omega, hC.geometry,
    Alg.massODEv_factor γ k ω (k + 2 - ω) v _ _ (p.a_val * v) _ _ (l_pos p v B).ne' S.hv.ne'
      (by linarith [S.hγ]) hs, (brackets hC S hω2).1, mul_zero]

theorem energy_ode {p : SedovFuncsO2.P} {γ k ω v : ℝ} (hC : O2Consts p γ k ω) (S : Signs γ k ω v)
    (hω2 : K.denom2 γ k ω = 0) :
    energyODEv γ k ω (SedovFuncsO2.L1.l_fun p v) (SedovFuncsO2.L1.f_fun p v) (SedovFuncsO2.L1.g_fun p v)
      (SedovFuncsO2.L1.h_fun p v) (SedovFuncsO2.L1.l_fun_dv p v) (SedovFuncsO2.L1.f_fun_dv p v)
      (SedovFuncsO2.L1.g_fun_dv p v) (SedovFuncsO2.L1.h_fun_dv p v) = 0 := by
  have B := bases hC S hω2
  have hF : SedovFuncsO2.L1.f_fun p v = p.a_val * v * SedovFuncsO2.L1.l_fun p v := by simp only [epv_semi_leaf]
  have hs : 2 / (γ + 1) * (p.a_val * v) = (k + 2 - ω) / 2 * v := by
    rw [hC.a_val]; unfold K.a_val; have := S.hγ; field_simp; ring
  rw [hF, l_dv p γ v B hC.gamm1 hC.gamp1, f_dv p γ v B hC.gamm1 hC.gamp1, g_dv p γ v B hC.gamm1 hC.gamp1 hC.gamma,
    h_dv p γ v B hC.gamma, hC.xg2, hC.omega, hC.geometry,
    Alg.energyODEv_factor γ k ω (k + 2 - ω) v _ _ _ (p.a_val * v) _ _ _ (l_pos p v B).ne' (g_pos p v B).ne' S.hv.ne'
      (by linarith [S.hγ]) hs, (brackets hC S hω2).2.1, mul_zero]

theorem mom_ode {p : SedovFuncsO2.P} {γ k ω v : ℝ} (hC : O2Consts p γ k ω) (S : Signs γ k ω v)
    (hω2 : K.denom2 γ k ω = 0) :
    momODEv γ k ω (SedovFuncsO2.L1.l_fun p v) (SedovFuncsO2.L1.f_fun p v) (SedovFuncsO2.L1.g_fun p v)
      (SedovFuncsO2.L1.l_fun_dv p v) (SedovFuncsO2.L1.f_fun_dv p v) (SedovFuncsO2.L1.h_fun_dv p v) = 0 := by
  have B := bases hC S hω2
  have hF : SedovFuncsO2.L1.f_fun p v = p.a_val * v * SedovFuncsO2.L1.l_fun p v := by simp only [epv_semi_leaf]
  have hs : 2 / (γ + 1) * (p.a_val * v) = (k + 2 - ω) / 2 * v := by
    rw [hC.a_val]; unfold K.a_val; have := S.hγ; field_simp; ring
  have hD2 : p.c_val * v - 1 ≠ 0 := by rw [hC.c_val]; exact S.x2.ne'
  rw [hF, l_dv p γ v B hC.gamm1 hC.gamp1, f_dv p γ v B hC.gamm1 hC.gamp1, h_dv p γ v B hC.gamma,
    hC.xg2, hC.geometry,
    Alg.momODEv_factor γ k ω (k + 2 - ω) p.c_val v _ _ _ (p.a_val * v) _ _ (l_pos p v B).ne' (g_pos p v B).ne' S.hv.ne'
      (by linarith [S.hγ]) hD2 hs (h_rel hC S hω2), (brackets hC S hω2).2.2.1, mul_zero]

/-- λ decreases with v (the omega2 exponent belongs to the vacuum type) -/
theorem l_dv_neg {p : SedovFuncsO2.P} {γ k ω v : ℝ} (hC : O2Consts p γ k ω) (S : Signs γ k ω v)
    (hω2 : K.denom2 γ k ω = 0) : SedovFuncsO2.L1.l_fun_dv p v < 0 := by
  have B := bases hC S hω2
  rw [l_dv p γ v B hC.gamm1 hC.gamp1, (brackets hC S hω2).2.2.2]
  have hD2 : p.c_val * v - 1 ≠ 0 := by rw [hC.c_val]; exact S.x2.ne'
  have hN := Alg.N_pos γ (k + 2 - ω) v S.hγ
  have hγ0 : 0 < γ := by linarith [S.hγ]
  exact mul_neg_of_pos_of_neg (l_pos p v B) (div_neg_of_neg_of_pos (by nlinarith)
    (mul_pos (mul_pos (mul_pos (by norm_num) S.hE) S.hv) (by positivity)))

theorem l_strict (p : SedovFuncsO2.P) (v : ℝ) (B : Bases p v) :
    HasStrictDerivAt (SedovFuncsO2.L1.l_fun p) (SedovFuncsO2.L1.l_fun_dv p v) v := by
  have hc : ContDiffAt ℝ 1 (SedovFuncsO2.L1.l_fun p) v := by
    -- the closed form of the pinned source (bridge lemma), whatever shape the generated definition has
    rw [(funext (EPV.Bridge.Semi.SedovFuncsO2_L1_l_fun p) : SedovFuncsO2.L1.l_fun p = _)]
    have h1 := B.x1.ne'; have h2 := B.x2.ne'; have hy := B.y
    refine ((ContDiffAt.rpow_const_of_ne (by fun_prop) h1).mul (ContDiffAt.rpow_const_of_ne (by fun_prop) h2)).mul ?_
    refine ContDiffAt.exp ?_
    refine contDiffAt_const.mul (ContDiffAt.mul (by fun_prop) ?_)
    exact contDiffAt_const.div (by fun_prop) hy
  exact hc.hasStrictDerivAt' (hasDerivAt p v B).1 (by norm_num)

/-- **The similarity functions solve the similarity ODEs** (special_singularity omega2, at the
exactly special ω), for v₀ strictly inside the branch -/
theorem solvesAt {p : SedovFuncsO2.P} {γ k ω v₀ : ℝ} (hC : O2Consts p γ k ω)
    (I : StdInterior γ k ω v₀ ∨ VacInterior γ k ω v₀) (hω2 : K.denom2 γ k ω = 0) (f g h : ℝ → ℝ)
    (hf : ∀ᶠ v in 𝓝 v₀, f (SedovFuncsO2.L1.l_fun p v) = SedovFuncsO2.L1.f_fun p v)
    (hg : ∀ᶠ v in 𝓝 v₀, g (SedovFuncsO2.L1.l_fun p v) = SedovFuncsO2.L1.g_fun p v)
    (hh : ∀ᶠ v in 𝓝 v₀, h (SedovFuncsO2.L1.l_fun p v) = SedovFuncsO2.L1.h_fun p v) :
    SolvesAt γ k ω f g h (SedovFuncsO2.L1.l_fun p v₀) := by
  have S := (Std.signs_of_interior I).toO2
  have B := bases hC S hω2
  obtain ⟨-, dF, dG, dH⟩ := hasDerivAt p v₀ B
  exact solvesAt_of_param (l_strict p v₀ B) (l_dv_neg hC S hω2).ne dF dG dH hf hg hh
    (mass_ode hC S hω2) (mom_ode hC S hω2) (energy_ode hC S hω2)

end

end EPV.Sedov.O2
