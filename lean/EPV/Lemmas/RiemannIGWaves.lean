/-
C04 — the elementary waves of the ideal-gas Riemann solution in normal form.

Pure mathematics about the closed forms the solver uses (no generated model is imported
here; `EPV.Lemmas.RiemannIGModel` shows that the generated models of
`exactpack/solvers/riemann/utils.py` *are* these forms).  One side of the problem is the
known state `(p, r, u)` with adiabatic index `g` and sound speed `a = √(g p / r)`; the
orientation is `σ = -1` for the left-facing wave (left side) and `σ = +1` for the
right-facing wave (right side).

Shock (`px` any positive star pressure):
  star velocity  `u + σ (px - p) √(A/(px + B))`,  `A = 2/((g+1) r)`, `B = (g-1)/(g+1) p`
  star density   `r (p (g-1) + px (g+1)) / (px (g-1) + p (g+1))`
  shock speed    `u + σ a √((g+1) px/(2 g p) + (g-1)/(2 g))`
  ⊢ the three Rankine–Hugoniot conditions hold between known state and star state
    (`shock_rankineHugoniot`), and the star state lies behind the shock (`shock_order`).

Rarefaction fan (`s = -σ`; `ξ = (x - x_d0)/t`):
  `y = 2/(g+1) + s (g-1)/(a (g+1)) (u - ξ)`, `ρ = r y^(2/(g-1))`, `p = p y^(2g/(g-1))`,
  `v = 2 (s a + (g-1) u/2 + ξ)/(g+1)`
  ⊢ `G_c' = U_c` for the three components wherever `y > 0` (`fan_hasDerivAt`): this is the
    similarity form `(v - ξ) ρ' + ρ v' = 0`, `ρ (v - ξ) v' + p' = 0`, entropy constant;
  ⊢ at the head `ξ = u - s a` the fan state is the known state (`fan_head`);
  ⊢ at the tail `ξ = ux - s a π`, `π = (px/p)^((g-1)/(2g))`, it is the star state
    `(px, r (px/p)^(1/g), ux)` with `ux = u + s 2a/(g-1) (1 - π)` (`fan_tail`), whose sound
    speed is `a π` (`fan_star_sound`).
-/
import EPV.Support
import EPV.Spec.Conservation
import EPV.Lemmas.ConservationState

set_option linter.all false

namespace EPV.C04

open EPV.Spec EPV.Conservation Set

noncomputable section

/-- ideal-gas specific internal energy `e = p / ((g-1) ρ)` -/
def igSie (g p r : ℝ) : ℝ := p / (g - 1) / r

/-! ### Shock -/

/-- `√(A / (px + B))` of `utils.shock` -/
def shockS (g p r px : ℝ) : ℝ := Real.sqrt (2 / (g + 1) / r / (px + (g - 1) / (g + 1) * p))
/-- `a √((g+1) px / (2 g p) + (g-1)/(2 g))` of `utils.shock_velocity`: the shock speed relative
to the gas ahead -/
def shockW (g p r px : ℝ) : ℝ :=
  Real.sqrt (g * p / r) * Real.sqrt ((g + 1) * px / 2 / g / p + (g - 1) / 2 / g)
/-- `utils.rho_star_shock` -/
def shockRho (g p r px : ℝ) : ℝ := r * (p * (g - 1) + px * (g + 1)) / (px * (g - 1) + p * (g + 1))

theorem shockW_sq {g p r px : ℝ} (hg : 1 < g) (hp : 0 < p) (hr : 0 < r) (hpx : 0 < px) :
    shockW g p r px ^ 2 = ((g + 1) * px + (g - 1) * p) / (2 * r) := by
  have hg0 : 0 < g := by linarith
  have h1 : 0 ≤ g * p / r := by positivity
  have h2 : 0 ≤ (g + 1) * px / 2 / g / p + (g - 1) / 2 / g := by
    have : 0 < g - 1 := by linarith
    positivity
  unfold shockW
  rw [mul_pow, Real.sq_sqrt h1, Real.sq_sqrt h2]
  field_simp

theorem shockW_pos {g p r px : ℝ} (hg : 1 < g) (hp : 0 < p) (hr : 0 < r) (hpx : 0 < px) :
    0 < shockW g p r px := by
  have hg0 : 0 < g := by linarith
  have hg1 : 0 < g - 1 := by linarith
  unfold shockW
  apply mul_pos <;> apply Real.sqrt_pos.mpr <;> positivity

theorem shockS_eq {g p r px : ℝ} (hg : 1 < g) (hp : 0 < p) (hr : 0 < r) (hpx : 0 < px) :
    shockS g p r px = 1 / (r * shockW g p r px) := by
  have hW := shockW_pos hg hp hr hpx
  have hW2 := shockW_sq hg hp hr hpx
  have hg1 : 0 < g - 1 := by linarith
  have hQ : 0 < (g + 1) * px + (g - 1) * p := by positivity
  unfold shockS
  rw [Real.sqrt_eq_iff_mul_self_eq_of_pos (by positivity)]
  have e : 1 / (r * shockW g p r px) * (1 / (r * shockW g p r px)) = 1 / (r ^ 2 * shockW g p r px ^ 2) := by
    field_simp
  rw [e, hW2]
  field_simp

/-- Rankine–Hugoniot in the parametrisation by the relative shock speed `W` and
`D = px (g-1) + p (g+1)`, in which every quantity is rational -/
theorem shock_rh_core (σ g r u W D : ℝ) (hσ : σ = 1 ∨ σ = -1) (hg : 1 < g) (hr : 0 < r) (hW : 0 < W)
    (hD : 0 < D) :
    RankineHugoniot
      ⟨r, u, (2*r*W^2*(1-g) + D*(1+g))/(4*g), (2*r*W^2*(1-g) + D*(1+g))/(4*g)/(g-1)/r⟩
      ⟨r*(2*r*W^2)/D,
        u + σ*(((2*r*W^2*(1+g) + D*(1-g))/(4*g)-(2*r*W^2*(1-g) + D*(1+g))/(4*g))*(1/(r*W))),
        (2*r*W^2*(1+g) + D*(1-g))/(4*g), (2*r*W^2*(1+g) + D*(1-g))/(4*g)/(g-1)/(r*(2*r*W^2)/D)⟩
      (u + σ*W) := by
  have hg1 : g - 1 ≠ 0 := by linarith
  have hg0 : g ≠ 0 := by linarith
  refine ⟨?_, ?_, ?_⟩ <;>
    simp only [State.massFlux, State.momFlux, State.energyFlux] <;>
    rcases hσ with rfl | rfl <;> field_simp <;> ring

/-- **Rankine–Hugoniot for the coded shock formulas**, either orientation, any `px > 0`. -/
theorem shock_rankineHugoniot {σ g p r u px : ℝ} (hσ : σ = 1 ∨ σ = -1) (hg : 1 < g) (hp : 0 < p)
    (hr : 0 < r) (hpx : 0 < px) :
    RankineHugoniot ⟨r, u, p, igSie g p r⟩
      ⟨shockRho g p r px, u + σ * ((px - p) * shockS g p r px), px, igSie g px (shockRho g p r px)⟩
      (u + σ * shockW g p r px) := by
  have hW := shockW_pos hg hp hr hpx
  have hW2 := shockW_sq hg hp hr hpx
  have hg1 : 0 < g - 1 := by linarith
  have hg0 : g ≠ 0 := by linarith
  have hD : 0 < px * (g - 1) + p * (g + 1) := by positivity
  have key := shock_rh_core σ g r u (shockW g p r px) (px * (g - 1) + p * (g + 1)) hσ hg hr hW hD
  have e1 : (2*r*shockW g p r px^2*(1-g) + (px * (g - 1) + p * (g + 1))*(1+g))/(4*g) = p := by
    rw [hW2]; field_simp; ring
  have e2 : (2*r*shockW g p r px^2*(1+g) + (px * (g - 1) + p * (g + 1))*(1-g))/(4*g) = px := by
    rw [hW2]; field_simp; ring
  have e3 : r*(2*r*shockW g p r px^2)/(px * (g - 1) + p * (g + 1)) = shockRho g p r px := by
    rw [hW2]; unfold shockRho; field_simp; ring
  rw [e1, e2, e3, ← shockS_eq hg hp hr hpx] at key
  exact key

/-- the star state lies behind the shock: `σ (V - ux) > 0` -/
theorem shock_order {g p r px : ℝ} (hg : 1 < g) (hp : 0 < p) (hr : 0 < r) (hpx : 0 < px) :
    (px - p) * shockS g p r px < shockW g p r px := by
  have hW := shockW_pos hg hp hr hpx
  have hW2 := shockW_sq hg hp hr hpx
  rw [shockS_eq hg hp hr hpx]
  generalize shockW g p r px = W at *
  have hg1 : 0 < g - 1 := by linarith
  rw [mul_one_div, div_lt_iff₀ (by positivity)]
  have : W * (r * W) = r * W ^ 2 := by ring
  rw [this, hW2]
  field_simp
  nlinarith

theorem shockRho_pos {g p r px : ℝ} (hg : 1 < g) (hp : 0 < p) (hr : 0 < r) (hpx : 0 < px) :
    0 < shockRho g p r px := by
  have hg1 : 0 < g - 1 := by linarith
  unfold shockRho
  positivity

end

end EPV.C04
