/-
Sedov (C01 growth): from the parametric representation (λ, f, g, h)(v) to functions of λ.

`_run` obtains the similarity functions at a given λ by solving λ(v) = λ for v numerically and
evaluating f, g, h at that v: as functions of λ they are DEFINED by f(λ(v)) = F(v) etc.  If λ(v) is
strictly differentiable at v₀ with dλ/dv ≠ 0, the inverse function theorem gives a differentiable
local inverse, so any f with f ∘ λ = F near v₀ is differentiable at λ(v₀) with f' = F'/λ'
(`deriv_of_param`), and the parametric ODE system implies the ODE system in λ (`solvesAt_of_param`).
-/
import EPV.Spec.SedovODE
import Mathlib.Analysis.Calculus.InverseFunctionTheorem.Deriv

set_option linter.all false

open EPV.Spec.SedovODE Filter Topology

namespace EPV.Sedov

/-- a function given parametrically: f ∘ L = F near v₀, with L strictly differentiable, L' ≠ 0 -/
theorem deriv_of_param {Lf Ff f : ℝ → ℝ} {v₀ L' F' : ℝ} (hL : HasStrictDerivAt Lf L' v₀) (hL' : L' ≠ 0)
    (hF : HasDerivAt Ff F' v₀) (hf : ∀ᶠ v in 𝓝 v₀, f (Lf v) = Ff v) : HasDerivAt f (F' / L') (Lf v₀) := by
  set φ := hL.localInverse Lf L' v₀ hL' with hφdef
  have hφ : HasDerivAt φ L'⁻¹ (Lf v₀) := (hL.to_localInverse hL').hasDerivAt
  have hφ0 : φ (Lf v₀) = v₀ := (hL.hasStrictFDerivAt_equiv hL').localInverse_apply_image
  have hφt : Tendsto φ (𝓝 (Lf v₀)) (𝓝 v₀) := (hL.hasStrictFDerivAt_equiv hL').localInverse_tendsto
  have hri : ∀ᶠ y in 𝓝 (Lf v₀), Lf (φ y) = y := hL.eventually_right_inverse hL'
  have hev : ∀ᶠ y in 𝓝 (Lf v₀), f y = Ff (φ y) := by
    filter_upwards [hri, hφt.eventually hf] with y h1 h2
    rw [← h2, h1]
  have hF' : HasDerivAt Ff F' (φ (Lf v₀)) := by rw [hφ0]; exact hF
  have hcomp : HasDerivAt (fun y => Ff (φ y)) (F' * L'⁻¹) (Lf v₀) := hF'.comp (Lf v₀) hφ
  exact (hcomp.congr_of_eventuallyEq hev).congr_deriv (by rw [div_eq_mul_inv])

/-- parametric ODE system at v₀ ⇒ ODE system at λ(v₀), for ANY f, g, h with f ∘ λ = F, g ∘ λ = G,
h ∘ λ = H near v₀ -/
theorem solvesAt_of_param {γ k ω : ℝ} {Lf Ff Gf Hf f g h : ℝ → ℝ} {v₀ L' F' G' H' : ℝ}
    (hL : HasStrictDerivAt Lf L' v₀) (hL' : L' ≠ 0)
    (hF : HasDerivAt Ff F' v₀) (hG : HasDerivAt Gf G' v₀) (hH : HasDerivAt Hf H' v₀)
    (hf : ∀ᶠ v in 𝓝 v₀, f (Lf v) = Ff v) (hg : ∀ᶠ v in 𝓝 v₀, g (Lf v) = Gf v) (hh : ∀ᶠ v in 𝓝 v₀, h (Lf v) = Hf v)
    (hm : massODEv γ k ω (Lf v₀) (Ff v₀) (Gf v₀) L' F' G' = 0)
    (hp : momODEv γ k ω (Lf v₀) (Ff v₀) (Gf v₀) L' F' H' = 0)
    (he : energyODEv γ k ω (Lf v₀) (Ff v₀) (Gf v₀) (Hf v₀) L' F' G' H' = 0) :
    SolvesAt γ k ω f g h (Lf v₀) := by
  refine ⟨F' / L', G' / L', H' / L', deriv_of_param hL hL' hF hf, deriv_of_param hL hL' hG hg,
    deriv_of_param hL hL' hH hh, ?_, ?_, ?_⟩
  · rw [hf.self_of_nhds, hg.self_of_nhds]
    rw [massODEv_eq _ _ _ _ _ _ _ _ _ hL'] at hm
    exact (mul_eq_zero.mp hm).resolve_left hL'
  · rw [hf.self_of_nhds, hg.self_of_nhds]
    rw [momODEv_eq _ _ _ _ _ _ _ _ _ hL'] at hp
    exact (mul_eq_zero.mp hp).resolve_left hL'
  · rw [hf.self_of_nhds, hg.self_of_nhds, hh.self_of_nhds]
    rw [energyODEv_eq _ _ _ _ _ _ _ _ _ _ _ hL'] at he
    exact (mul_eq_zero.mp he).resolve_left hL'

end EPV.Sedov
