/-
Sedov (C01 growth), special_singularity none (generated model SedovFuncs, leaf 1 = neither guard
active): the derivative certificates of λ, f, g, h in v in logarithmic form, the exponent
relation between h and g f λ, and from them — with the bracket identities of
`Lemmas/SedovODEAlg.lean` — the three similarity ODEs in parametric form and the sign of dλ/dv.
Used by Props/C01/SedovODE.lean and Props/C11/SedovMass.lean.
-/
import EPV.Gen.SedovFuncsD
import EPV.Lemmas.SedovODEAlg
import EPV.Lemmas.SedovODEConsts
import EPV.Lemmas.SedovODEDomain
import EPV.Lemmas.SedovFuncs
import EPV.Lemmas.SedovODEParam
import Mathlib.Analysis.Calculus.ContDiff.RCLike

set_option linter.all false
set_option maxRecDepth 100000

open EPV EPV.Gen EPV.Spec.SedovODE Filter Topology

namespace EPV.Sedov.Std

noncomputable section

/-- the four power bases of leaf 1 are positive -/
structure Bases (p : SedovFuncs.P) (v : ℝ) : Prop where
  x1 : 0 < p.a_val * v
  x2 : 0 < p.b_val * (p.c_val * v - 1)
  x3 : 0 < p.d_val * (1 - p.e_val * v)
  x4 : 0 < p.b_val * (1 - 1 / 2 * p.xg2 * v)

/-! ### The generated derivative expressions in logarithmic form (any constants) -/

theorem l_dv (p : SedovFuncs.P) (v : ℝ) (B : Bases p v) :
    SedovFuncs.L1.l_fun_dv p v = SedovFuncs.L1.l_fun p v * Alg.sL p.a0 p.a1 p.a2 p.c_val p.e_val v := by
  obtain ⟨hs1, hs2, hs3, hs4⟩ := B
  simp only [epv_semi_deriv, epv_semi_leaf, Alg.sL]
  have h1 := hs1.ne'; have h2 := hs2.ne'; have h3 := hs3.ne'
  have h4 : p.a_val ≠ 0 := left_ne_zero_of_mul h1
  have h5 : p.b_val ≠ 0 := left_ne_zero_of_mul h2
  have h6 : p.d_val ≠ 0 := left_ne_zero_of_mul h3
  have h7 : v ≠ 0 := right_ne_zero_of_mul h1
  have h8 : p.c_val * v - 1 ≠ 0 := right_ne_zero_of_mul h2
  have h9 : 1 - p.e_val * v ≠ 0 := right_ne_zero_of_mul h3
  generalize hD2 : p.c_val * v - 1 = D2 at *
  generalize hD3 : 1 - p.e_val * v = D3 at *
  field_simp
  ring

theorem f_dv (p : SedovFuncs.P) (v : ℝ) (B : Bases p v) :
    SedovFuncs.L1.f_fun_dv p v
      = p.a_val * v * SedovFuncs.L1.l_fun p v * (1 / v + Alg.sL p.a0 p.a1 p.a2 p.c_val p.e_val v) := by
  obtain ⟨hs1, hs2, hs3, hs4⟩ := B
  simp only [epv_semi_deriv, epv_semi_leaf, Alg.sL]
  have h1 := hs1.ne'; have h2 := hs2.ne'; have h3 := hs3.ne'
  have h4 : p.a_val ≠ 0 := left_ne_zero_of_mul h1
  have h5 : p.b_val ≠ 0 := left_ne_zero_of_mul h2
  have h6 : p.d_val ≠ 0 := left_ne_zero_of_mul h3
  have h7 : v ≠ 0 := right_ne_zero_of_mul h1
  have h8 : p.c_val * v - 1 ≠ 0 := right_ne_zero_of_mul h2
  have h9 : 1 - p.e_val * v ≠ 0 := right_ne_zero_of_mul h3
  generalize hD2 : p.c_val * v - 1 = D2 at *
  generalize hD3 : 1 - p.e_val * v = D3 at *
  field_simp
  ring

theorem g_dv (p : SedovFuncs.P) (v : ℝ) (B : Bases p v) :
    SedovFuncs.L1.g_fun_dv p v = SedovFuncs.L1.g_fun p v
      * Alg.sG p.a0 p.a1 p.a2 p.a3 p.a4 p.a5 p.c_val p.e_val p.xg2 p.omega v := by
  obtain ⟨hs1, hs2, hs3, hs4⟩ := B
  simp only [epv_semi_deriv, epv_semi_leaf, Alg.sG]
  have e4 : 2 - p.xg2 * v = 2 * (1 - 1 / 2 * p.xg2 * v) := by ring
  rw [e4]
  have h1 := hs1.ne'; have h2 := hs2.ne'; have h3 := hs3.ne'; have h3' := hs4.ne'
  have h4 : p.a_val ≠ 0 := left_ne_zero_of_mul h1
  have h5 : p.b_val ≠ 0 := left_ne_zero_of_mul h2
  have h6 : p.d_val ≠ 0 := left_ne_zero_of_mul h3
  have h7 : v ≠ 0 := right_ne_zero_of_mul h1
  have h8 : p.c_val * v - 1 ≠ 0 := right_ne_zero_of_mul h2
  have h9 : 1 - p.e_val * v ≠ 0 := right_ne_zero_of_mul h3
  have h10 : 1 - 1 / 2 * p.xg2 * v ≠ 0 := right_ne_zero_of_mul h3'
  generalize hD2 : p.c_val * v - 1 = D2 at *
  generalize hD3 : 1 - p.e_val * v = D3 at *
  generalize hD4 : 1 - 1 / 2 * p.xg2 * v = D4 at *
  field_simp
  ring

theorem h_dv (p : SedovFuncs.P) (v : ℝ) (B : Bases p v) :
    SedovFuncs.L1.h_fun_dv p v = SedovFuncs.L1.h_fun p v
      * Alg.sH p.a0 p.a1 p.a4 p.a5 p.e_val p.xg2 p.geometry p.omega v := by
  obtain ⟨hs1, hs2, hs3, hs4⟩ := B
  simp only [epv_semi_deriv, epv_semi_leaf, Alg.sH]
  have e4 : 2 - p.xg2 * v = 2 * (1 - 1 / 2 * p.xg2 * v) := by ring
  rw [e4]
  have h1 := hs1.ne'; have h3 := hs3.ne'; have h3' := hs4.ne'
  have h4 : p.a_val ≠ 0 := left_ne_zero_of_mul h1
  have h5 : p.b_val ≠ 0 := left_ne_zero_of_mul h3'
  have h6 : p.d_val ≠ 0 := left_ne_zero_of_mul h3
  have h7 : v ≠ 0 := right_ne_zero_of_mul h1
  have h9 : 1 - p.e_val * v ≠ 0 := right_ne_zero_of_mul h3
  have h10 : 1 - 1 / 2 * p.xg2 * v ≠ 0 := right_ne_zero_of_mul h3'
  generalize hD3 : 1 - p.e_val * v = D3 at *
  generalize hD4 : 1 - 1 / 2 * p.xg2 * v = D4 at *
  field_simp
  ring

/-- the generated certificates, collected: λ, f, g, h are differentiable in v on leaf 1 with the
generated derivative expressions -/
theorem hasDerivAt (p : SedovFuncs.P) (v : ℝ) (B : Bases p v) :
    HasDerivAt (SedovFuncs.L1.l_fun p) (SedovFuncs.L1.l_fun_dv p v) v ∧
    HasDerivAt (SedovFuncs.L1.f_fun p) (SedovFuncs.L1.f_fun_dv p v) v ∧
    HasDerivAt (SedovFuncs.L1.g_fun p) (SedovFuncs.L1.g_fun_dv p v) v ∧
    HasDerivAt (SedovFuncs.L1.h_fun p) (SedovFuncs.L1.h_fun_dv p v) v := by
  -- the certificates' side conditions (their number, order and form follow the Python) are discharged from `B`
  have hx1 := B.x1
  have hx2 := B.x2
  have hx3 := B.x3
  have hx4 := B.x4
  refine ⟨?_, ?_, ?_, ?_⟩
  · epv_hydro_cert SedovFuncs.L1.l_fun_hasDerivAt_v p v
  · epv_hydro_cert SedovFuncs.L1.f_fun_hasDerivAt_v p v
  · epv_hydro_cert SedovFuncs.L1.g_fun_hasDerivAt_v p v
  · epv_hydro_cert SedovFuncs.L1.h_fun_hasDerivAt_v p v

theorem l_pos (p : SedovFuncs.P) (v : ℝ) (B : Bases p v) : 0 < SedovFuncs.L1.l_fun p v := by
  simp only [epv_semi_leaf]
  exact mul_pos (mul_pos (Real.rpow_pos_of_pos B.x1 _) (Real.rpow_pos_of_pos B.x2 _)) (Real.rpow_pos_of_pos B.x3 _)
theorem g_pos (p : SedovFuncs.P) (v : ℝ) (B : Bases p v) : 0 < SedovFuncs.L1.g_fun p v := by
  simp only [epv_semi_leaf]
  exact mul_pos (mul_pos (mul_pos (Real.rpow_pos_of_pos B.x1 _) (Real.rpow_pos_of_pos B.x2 _))
    (Real.rpow_pos_of_pos B.x3 _)) (Real.rpow_pos_of_pos B.x4 _)
theorem h_pos (p : SedovFuncs.P) (v : ℝ) (B : Bases p v) : 0 < SedovFuncs.L1.h_fun p v := by
  simp only [epv_semi_leaf]
  exact mul_pos (mul_pos (Real.rpow_pos_of_pos B.x1 _) (Real.rpow_pos_of_pos B.x3 _)) (Real.rpow_pos_of_pos B.x4 _)

/-! ### The exponents add up: h x2 = g (x1 λ)² x4 -/

/-- x^a · (x^b)² · x² = x^(a + 2b + 2) etc.: the exponent bookkeeping for one base -/
theorem rpow_combine {x : ℝ} (hx : 0 < x) (a b c : ℝ) (n : ℕ) (h : a + b * n = c) :
    x ^ a * (x ^ b) ^ n = x ^ c := by
  rw [← Real.rpow_natCast (x ^ b) n, ← Real.rpow_mul hx.le, ← Real.rpow_add hx, h]

theorem h_rel_abstract (x1 x2 x3 x4 a0 a1 a2 a3 a4 a5 k ω : ℝ) (h1 : 0 < x1) (h2 : 0 < x2) (h3 : 0 < x3)
    (h4 : 0 < x4) (e1 : a0 * ω + (-a0) * (2 : ℕ) + 2 = a0 * k) (e2 : a3 + a2 * ω + (-a2) * (2 : ℕ) = 1) :
    (x1 ^ (a0 * k) * x3 ^ (a4 + a1 * (ω - 2)) * x4 ^ (1 + a5)) * x2
      = (x1 ^ (a0 * ω) * x2 ^ (a3 + a2 * ω) * x3 ^ (a4 + a1 * ω) * x4 ^ a5) * x1 ^ 2
        * (x1 ^ (-a0) * x2 ^ (-a2) * x3 ^ (-a1)) ^ 2 * x4 := by
  have E1 : x1 ^ (a0 * ω) * (x1 ^ (-a0)) ^ 2 * x1 ^ 2 = x1 ^ (a0 * k) := by
    rw [rpow_combine h1 (a0 * ω) (-a0) (a0 * ω + (-a0) * (2 : ℕ)) 2 rfl, ← Real.rpow_two x1, ← Real.rpow_add h1, e1]
  have E2 : x2 ^ (a3 + a2 * ω) * (x2 ^ (-a2)) ^ 2 = x2 := by
    rw [rpow_combine h2 _ _ _ 2 e2, Real.rpow_one]
  have E3 : x3 ^ (a4 + a1 * ω) * (x3 ^ (-a1)) ^ 2 = x3 ^ (a4 + a1 * (ω - 2)) := by
    apply rpow_combine h3; push_cast; ring
  have E4 : x4 ^ a5 * x4 = x4 ^ (1 + a5) := by
    rw [add_comm, Real.rpow_add h4, Real.rpow_one]
  rw [← E1, ← E3, ← E4]
  rw [mul_pow, mul_pow]
  linear_combination (-(x1 ^ (a0 * ω) * (x1 ^ (-a0)) ^ 2 * x1 ^ 2 * (x3 ^ (a4 + a1 * ω) * (x3 ^ (-a1)) ^ 2)
    * (x4 ^ a5 * x4))) * E2

/-! ### With the constants of `__init__`, on either solution branch -/

/-- what the two branches have in common -/
structure Signs (γ k ω v : ℝ) : Prop where
  hγ : 1 < γ
  hX : 0 < k + 2 - ω
  hE : 0 < 2 + k * (γ - 1)
  hv : 0 < v
  x2 : 0 < 1 / 2 * (k + 2 - ω) * γ * v - 1
  x3 : 0 < (1 - 1 / 2 * (2 + k * (γ - 1)) * v) * ((k + 2 - ω) * (γ + 1) - 2 * (2 + k * (γ - 1)))
  x4 : 0 < 2 - (k + 2 - ω) * v

theorem _root_.EPV.Sedov.StdInterior.toSigns {γ k ω v : ℝ} (I : StdInterior γ k ω v) : Signs γ k ω v := by
  have S := I.signs
  exact ⟨I.par.hγ, S.hX, S.hE, S.hv, S.x2, mul_pos S.x3 S.dden, S.x4⟩
theorem _root_.EPV.Sedov.VacInterior.toSigns {γ k ω v : ℝ} (I : VacInterior γ k ω v) : Signs γ k ω v := by
  have S := I.signs
  exact ⟨I.par.hγ, S.hX, S.hE, S.hv, S.x2, mul_pos_of_neg_of_neg S.x3 S.dden, S.x4⟩

theorem bases {p : SedovFuncs.P} {γ k ω v : ℝ} (hC : StdConsts p γ k ω) (S : Signs γ k ω v) : Bases p v := by
  obtain ⟨hγ, hX, hE, hv, h2, h3, h4⟩ := S
  have hb : 0 < (γ + 1) / (γ - 1) := div_pos (by linarith) (by linarith)
  refine ⟨?_, ?_, ?_, ?_⟩
  · rw [hC.a_val]; unfold K.a_val
    exact mul_pos (mul_pos (mul_pos (by norm_num) hX) (by linarith)) hv
  · rw [hC.b_val, hC.c_val]; unfold K.b_val K.c_val
    exact mul_pos hb h2
  · rw [hC.d_val, hC.e_val]; unfold K.d_val K.e_val
    have hd : (k + 2 - ω) * (γ + 1) - 2 * (2 + k * (γ - 1)) ≠ 0 := by
      intro h0; rw [h0, mul_zero] at h3; exact lt_irrefl _ h3
    have e : (k + 2 - ω) * (γ + 1) / ((k + 2 - ω) * (γ + 1) - 2 * (2 + k * (γ - 1))) * (1 - 1 / 2 * (2 + k * (γ - 1)) * v)
        = (k + 2 - ω) * (γ + 1) * ((1 - 1 / 2 * (2 + k * (γ - 1)) * v) * ((k + 2 - ω) * (γ + 1) - 2 * (2 + k * (γ - 1))))
          / ((k + 2 - ω) * (γ + 1) - 2 * (2 + k * (γ - 1))) ^ 2 := by
      field_simp
    rw [e]
    exact div_pos (mul_pos (mul_pos hX (by linarith)) h3) (by positivity)
  · rw [hC.b_val, hC.xg2]; unfold K.b_val
    exact mul_pos hb (by linarith)

/-- all the algebra at once: the three brackets vanish and d log λ/dv is N(v)/(4 X v (c v - 1)(1 - e v)) -/
theorem brackets {p : SedovFuncs.P} {γ k ω v : ℝ} (hC : StdConsts p γ k ω) (S : Signs γ k ω v)
    (hd2 : K.denom2 γ k ω ≠ 0) (hd3 : K.denom3 γ k ω ≠ 0) :
    Alg.Bmass (k + 2 - ω) k ω v (Alg.sL p.a0 p.a1 p.a2 p.c_val p.e_val v)
        (Alg.sG p.a0 p.a1 p.a2 p.a3 p.a4 p.a5 p.c_val p.e_val (k + 2 - ω) ω v) = 0 ∧
    Alg.Benergy (k + 2 - ω) γ k ω v (Alg.sL p.a0 p.a1 p.a2 p.c_val p.e_val v)
        (Alg.sG p.a0 p.a1 p.a2 p.a3 p.a4 p.a5 p.c_val p.e_val (k + 2 - ω) ω v)
        (Alg.sH p.a0 p.a1 p.a4 p.a5 p.e_val (k + 2 - ω) k ω v) = 0 ∧
    Alg.Bmom (k + 2 - ω) p.c_val γ k ω v (Alg.sL p.a0 p.a1 p.a2 p.c_val p.e_val v)
        (Alg.sH p.a0 p.a1 p.a4 p.a5 p.e_val (k + 2 - ω) k ω v) = 0 ∧
    Alg.sL p.a0 p.a1 p.a2 p.c_val p.e_val v
      = (γ * (γ + 1) * (k + 2 - ω) ^ 2 * v ^ 2 - 4 * (γ + 1) * (k + 2 - ω) * v + 8)
        / (4 * (k + 2 - ω) * v * (p.c_val * v - 1) * (1 - p.e_val * v)) := by
  obtain ⟨hγ, hX, hE, hv, h2, h3, h4⟩ := S
  have hg0 : γ ≠ 0 := by linarith
  have ha0 : p.a0 = 2 / (k + 2 - ω) := hC.a0
  have ha2 : p.a2 = -(γ - 1) / (2 * (γ - 1) + k - γ * ω) := hC.a2
  have ha1 : p.a1 = (k + 2 - ω) * γ / (2 + k * (γ - 1)) * (2 * (k * (2 - γ) - ω) / (γ * (k + 2 - ω) * (k + 2 - ω)) - p.a2) := by
    rw [hC.a1, hC.a2]; rfl
  have ha3 : p.a3 = (k - ω) / (2 * (γ - 1) + k - γ * ω) := hC.a3
  have ha4 : p.a4 = (k + 2 - ω) * (k - ω) * p.a1 / (k * (2 - γ) - ω) := by
    rw [hC.a4, hC.a1]; rfl
  have ha5 : p.a5 = (ω * (γ + 1) - 2 * k) / (k * (2 - γ) - ω) := hC.a5
  have hc : p.c_val = 1 / 2 * (k + 2 - ω) * γ := hC.c_val
  have he : p.e_val = 1 / 2 * (2 + k * (γ - 1)) := hC.e_val
  have hv0 := hv.ne'
  have hD2 : p.c_val * v - 1 ≠ 0 := by rw [hc]; exact h2.ne'
  have hD3 : 1 - p.e_val * v ≠ 0 := by
    rw [he]; intro h0; rw [h0, zero_mul] at h3; exact lt_irrefl _ h3
  have hD4 := h4.ne'
  exact ⟨Alg.s_mass_bracket γ k ω _ _ _ _ p.a0 p.a1 p.a2 p.a3 p.a4 p.a5 p.c_val p.e_val v hX.ne' hd2 hd3 hE.ne' hg0
      rfl rfl rfl rfl ha0 ha2 ha1 ha3 ha4 ha5 hc he hv0 hD2 hD3 hD4,
    Alg.s_energy_bracket γ k ω _ _ _ _ p.a0 p.a1 p.a2 p.a3 p.a4 p.a5 p.c_val p.e_val v hX.ne' hd2 hd3 hE.ne' hg0
      rfl rfl rfl rfl ha0 ha2 ha1 ha3 ha4 ha5 hc he hv0 hD2 hD3 hD4,
    Alg.s_mom_bracket γ k ω _ _ _ _ p.a0 p.a1 p.a2 p.a3 p.a4 p.a5 p.c_val p.e_val v hX.ne' hd2 hd3 hE.ne' hg0
      rfl rfl rfl rfl ha0 ha2 ha1 ha3 ha4 ha5 hc he hv0 hD2 hD3 hD4,
    Alg.s_L_eq γ k ω _ _ _ _ p.a0 p.a1 p.a2 p.a3 p.a4 p.a5 p.c_val p.e_val v hX.ne' hd2 hd3 hE.ne' hg0
      rfl rfl rfl rfl ha0 ha2 ha1 ha3 ha4 ha5 hc he hv0 hD2 hD3 hD4⟩

/-- h (c v - 1) = g (x1 λ)² (1 - X v/2): the exponents of the four bases add up (b_val cancels) -/
theorem h_rel {p : SedovFuncs.P} {γ k ω v : ℝ} (hC : StdConsts p γ k ω) (S : Signs γ k ω v)
    (hd2 : K.denom2 γ k ω ≠ 0) :
    SedovFuncs.L1.h_fun p v * (p.c_val * v - 1)
      = SedovFuncs.L1.g_fun p v * (p.a_val * v) ^ 2 * SedovFuncs.L1.l_fun p v ^ 2 * (1 - (k + 2 - ω) / 2 * v) := by
  have B := bases hC S
  have hX := S.hX.ne'
  have e1 : p.a0 * p.omega + (-p.a0) * (2 : ℕ) + 2 = p.a0 * p.geometry := by
    rw [hC.a0, hC.omega, hC.geometry]; unfold K.a0; push_cast; field_simp; ring
  have e2 : p.a3 + p.a2 * p.omega + (-p.a2) * (2 : ℕ) = 1 := by
    rw [hC.a3, hC.a2, hC.omega]; unfold K.a3 K.a2; unfold K.denom2 at hd2
    generalize hd : 2 * (γ - 1) + k - γ * ω = d at hd2 ⊢
    push_cast; field_simp; rw [← hd]; ring
  have key := h_rel_abstract (p.a_val * v) (p.b_val * (p.c_val * v - 1)) (p.d_val * (1 - p.e_val * v))
    (p.b_val * (1 - 1 / 2 * p.xg2 * v)) p.a0 p.a1 p.a2 p.a3 p.a4 p.a5 p.geometry p.omega B.x1 B.x2 B.x3 B.x4 e1 e2
  have hb : p.b_val ≠ 0 := left_ne_zero_of_mul B.x2.ne'
  simp only [epv_semi_leaf]
  rw [hC.xg2] at key ⊢
  have e4 : (1 : ℝ) - (k + 2 - ω) / 2 * v = 1 - 1 / 2 * (k + 2 - ω) * v := by ring
  rw [e4]
  apply mul_left_cancel₀ hb
  linear_combination key

/-- **mass ODE** (parametric form) on leaf 1 of SedovFuncs, with the generated derivative expressions -/
theorem mass_ode {p : SedovFuncs.P} {γ k ω v : ℝ} (hC : StdConsts p γ k ω) (S : Signs γ k ω v)
    (hd2 : K.denom2 γ k ω ≠ 0) (hd3 : K.denom3 γ k ω ≠ 0) :
    massODEv γ k ω (SedovFuncs.L1.l_fun p v) (SedovFuncs.L1.f_fun p v) (SedovFuncs.L1.g_fun p v)
      (SedovFuncs.L1.l_fun_dv p v) (SedovFuncs.L1.f_fun_dv p v) (SedovFuncs.L1.g_fun_dv p v) = 0 := by
  have B := bases hC S
  have hF : SedovFuncs.L1.f_fun p v = p.a_val * v * SedovFuncs.L1.l_fun p v := by simp only [epv_semi_leaf]
  have hs : 2 / (γ + 1) * (p.a_val * v) = (k + 2 - ω) / 2 * v := by
    rw [hC.a_val]; unfold K.a_val; have := S.hγ; field_simp; ring
  rw [hF, l_dv p v B, f_dv p v B, g_dv p v B, hC.xg2, hC.omega,
    Alg.massODEv_factor γ k ω (k + 2 - ω) v _ _ (p.a_val * v) _ _ (l_pos p v B).ne' S.hv.ne'
      (by linarith [S.hγ]) hs, (brackets hC S hd2 hd3).1, mul_zero]

/-- **energy ODE** (parametric form) -/
theorem energy_ode {p : SedovFuncs.P} {γ k ω v : ℝ} (hC : StdConsts p γ k ω) (S : Signs γ k ω v)
    (hd2 : K.denom2 γ k ω ≠ 0) (hd3 : K.denom3 γ k ω ≠ 0) :
    energyODEv γ k ω (SedovFuncs.L1.l_fun p v) (SedovFuncs.L1.f_fun p v) (SedovFuncs.L1.g_fun p v)
      (SedovFuncs.L1.h_fun p v) (SedovFuncs.L1.l_fun_dv p v) (SedovFuncs.L1.f_fun_dv p v)
      (SedovFuncs.L1.g_fun_dv p v) (SedovFuncs.L1.h_fun_dv p v) = 0 := by
  have B := bases hC S
  have hF : SedovFuncs.L1.f_fun p v = p.a_val * v * SedovFuncs.L1.l_fun p v := by simp only [epv_semi_leaf]
  have hs : 2 / (γ + 1) * (p.a_val * v) = (k + 2 - ω) / 2 * v := by
    rw [hC.a_val]; unfold K.a_val; have := S.hγ; field_simp; ring
  rw [hF, l_dv p v B, f_dv p v B, g_dv p v B, h_dv p v B, hC.xg2, hC.omega, hC.geometry,
    Alg.energyODEv_factor γ k ω (k + 2 - ω) v _ _ _ (p.a_val * v) _ _ _ (l_pos p v B).ne' (g_pos p v B).ne' S.hv.ne'
      (by linarith [S.hγ]) hs, (brackets hC S hd2 hd3).2.1, mul_zero]

/-- **momentum ODE** (parametric form) -/
theorem mom_ode {p : SedovFuncs.P} {γ k ω v : ℝ} (hC : StdConsts p γ k ω) (S : Signs γ k ω v)
    (hd2 : K.denom2 γ k ω ≠ 0) (hd3 : K.denom3 γ k ω ≠ 0) :
    momODEv γ k ω (SedovFuncs.L1.l_fun p v) (SedovFuncs.L1.f_fun p v) (SedovFuncs.L1.g_fun p v)
      (SedovFuncs.L1.l_fun_dv p v) (SedovFuncs.L1.f_fun_dv p v) (SedovFuncs.L1.h_fun_dv p v) = 0 := by
  have B := bases hC S
  have hF : SedovFuncs.L1.f_fun p v = p.a_val * v * SedovFuncs.L1.l_fun p v := by simp only [epv_semi_leaf]
  have hs : 2 / (γ + 1) * (p.a_val * v) = (k + 2 - ω) / 2 * v := by
    rw [hC.a_val]; unfold K.a_val; have := S.hγ; field_simp; ring
  have hD2 : p.c_val * v - 1 ≠ 0 := by rw [hC.c_val]; exact S.x2.ne'
  rw [hF, l_dv p v B, f_dv p v B, h_dv p v B, hC.xg2, hC.omega, hC.geometry,
    Alg.momODEv_factor γ k ω (k + 2 - ω) p.c_val v _ _ _ (p.a_val * v) _ _ (l_pos p v B).ne' (g_pos p v B).ne' S.hv.ne'
      (by linarith [S.hγ]) hD2 hs (h_rel hC S hd2), (brackets hC S hd2 hd3).2.2.1, mul_zero]

/-- dλ/dv = λ · N(v)/(4 X v (c v - 1)(1 - e v)) with N > 0 -/
theorem l_dv_eq {p : SedovFuncs.P} {γ k ω v : ℝ} (hC : StdConsts p γ k ω) (S : Signs γ k ω v)
    (hd2 : K.denom2 γ k ω ≠ 0) (hd3 : K.denom3 γ k ω ≠ 0) :
    SedovFuncs.L1.l_fun_dv p v = SedovFuncs.L1.l_fun p v
      * ((γ * (γ + 1) * (k + 2 - ω) ^ 2 * v ^ 2 - 4 * (γ + 1) * (k + 2 - ω) * v + 8)
        / (4 * (k + 2 - ω) * v * (1 / 2 * (k + 2 - ω) * γ * v - 1) * (1 - 1 / 2 * (2 + k * (γ - 1)) * v))) := by
  rw [l_dv p v (bases hC S), (brackets hC S hd2 hd3).2.2.2, hC.c_val, hC.e_val]
  rfl

/-- standard type: λ increases with v -/
theorem l_dv_pos {p : SedovFuncs.P} {γ k ω v : ℝ} (hC : StdConsts p γ k ω) (I : StdInterior γ k ω v)
    (hd2 : K.denom2 γ k ω ≠ 0) (hd3 : K.denom3 γ k ω ≠ 0) : 0 < SedovFuncs.L1.l_fun_dv p v := by
  have S := I.signs
  rw [l_dv_eq hC I.toSigns hd2 hd3]
  exact mul_pos (l_pos p v (bases hC I.toSigns)) (div_pos (Alg.N_pos γ _ v I.par.hγ)
    (mul_pos (mul_pos (mul_pos (mul_pos (by norm_num) S.hX) S.hv) S.x2) S.x3))

/-- vacuum type: λ decreases with v -/
theorem l_dv_neg {p : SedovFuncs.P} {γ k ω v : ℝ} (hC : StdConsts p γ k ω) (I : VacInterior γ k ω v)
    (hd2 : K.denom2 γ k ω ≠ 0) (hd3 : K.denom3 γ k ω ≠ 0) : SedovFuncs.L1.l_fun_dv p v < 0 := by
  have S := I.signs
  rw [l_dv_eq hC I.toSigns hd2 hd3]
  exact mul_neg_of_pos_of_neg (l_pos p v (bases hC I.toSigns)) (div_neg_of_pos_of_neg (Alg.N_pos γ _ v I.par.hγ)
    (mul_neg_of_pos_of_neg (mul_pos (mul_pos (mul_pos (by norm_num) S.hX) S.hv) S.x2) S.x3))

/-- λ(v) is strictly differentiable on leaf 1 (it is C¹ there), with the generated derivative -/
theorem l_strict (p : SedovFuncs.P) (v : ℝ) (B : Bases p v) :
    HasStrictDerivAt (SedovFuncs.L1.l_fun p) (SedovFuncs.L1.l_fun_dv p v) v := by
  have hc : ContDiffAt ℝ 1 (SedovFuncs.L1.l_fun p) v := by
    -- the closed form of the pinned source (bridge lemma), whatever shape the generated definition has
    rw [(funext (EPV.Bridge.Semi.SedovFuncs_L1_l_fun p) : SedovFuncs.L1.l_fun p = _)]
    have h1 := B.x1.ne'; have h2 := B.x2.ne'; have h3 := B.x3.ne'
    exact ((ContDiffAt.rpow_const_of_ne (by fun_prop) h1).mul (ContDiffAt.rpow_const_of_ne (by fun_prop) h2)).mul
      (ContDiffAt.rpow_const_of_ne (by fun_prop) h3)
  exact hc.hasStrictDerivAt' (hasDerivAt p v B).1 (by norm_num)

/-- dλ/dv ≠ 0 strictly inside either branch -/
theorem l_dv_ne {p : SedovFuncs.P} {γ k ω v : ℝ} (hC : StdConsts p γ k ω)
    (I : StdInterior γ k ω v ∨ VacInterior γ k ω v)
    (hd2 : K.denom2 γ k ω ≠ 0) (hd3 : K.denom3 γ k ω ≠ 0) : SedovFuncs.L1.l_fun_dv p v ≠ 0 := by
  rcases I with I | I
  · exact (l_dv_pos hC I hd2 hd3).ne'
  · exact (l_dv_neg hC I hd2 hd3).ne

theorem _root_.EPV.Sedov.Std.signs_of_interior {γ k ω v : ℝ} (I : StdInterior γ k ω v ∨ VacInterior γ k ω v) :
    Signs γ k ω v := by
  rcases I with I | I
  · exact I.toSigns
  · exact I.toSigns

/-- **The similarity functions solve the similarity ODEs** (special_singularity none): any f, g, h
with f(λ(v)) = F(v), g(λ(v)) = G(v), h(λ(v)) = H(v) near v₀ — λ, F, G, H the traced closed forms of
`sedov_funcs_standard` — solve the three ODEs of `Spec/SedovODE.lean` at λ(v₀), for v₀ strictly
inside the branch of the standard or of the vacuum solution type. -/
theorem solvesAt {p : SedovFuncs.P} {γ k ω v₀ : ℝ} (hC : StdConsts p γ k ω)
    (I : StdInterior γ k ω v₀ ∨ VacInterior γ k ω v₀)
    (hd2 : K.denom2 γ k ω ≠ 0) (hd3 : K.denom3 γ k ω ≠ 0) (f g h : ℝ → ℝ)
    (hf : ∀ᶠ v in 𝓝 v₀, f (SedovFuncs.L1.l_fun p v) = SedovFuncs.L1.f_fun p v)
    (hg : ∀ᶠ v in 𝓝 v₀, g (SedovFuncs.L1.l_fun p v) = SedovFuncs.L1.g_fun p v)
    (hh : ∀ᶠ v in 𝓝 v₀, h (SedovFuncs.L1.l_fun p v) = SedovFuncs.L1.h_fun p v) :
    SolvesAt γ k ω f g h (SedovFuncs.L1.l_fun p v₀) := by
  have S := signs_of_interior I
  have B := bases hC S
  obtain ⟨-, dF, dG, dH⟩ := hasDerivAt p v₀ B
  exact solvesAt_of_param (l_strict p v₀ B) (l_dv_ne hC I hd2 hd3) dF dG dH hf hg hh
    (mass_ode hC S hd2 hd3) (mom_ode hC S hd2 hd3) (energy_ode hC S hd2 hd3)

end

end EPV.Sedov.Std
