/-
Sedov (C01 growth): the two solution branches in the similarity velocity v and the signs of the
power bases of `sedov_funcs_standard` on them.

  standard type  (v2 < vstar):   v0 < v < v2,   λ runs from 0 (v = v0) to 1 (v = v2)
  vacuum type    (vstar < v2):   v2 < v < vv,   λ runs from 1 (v = v2) down to the vacuum boundary (v = vv)

(`_run`: vmin, vmax = v0, v2 resp. v2, vv; `__init__`: v0 = 2/(xg2 γ), v2 = 4/(xg2 (γ+1)),
vstar = 2/((γ-1)k+2), vv = 2/xg2 — generated model SedovEnds, `EPV.Sedov.ends_eq`.)
Everything here is for real γ > 1, k > 0, ω < k (the documented domain is k ∈ {1,2,3}, 0 ≤ ω < k).
-/
import EPV.Spec.SedovODE
import EPV.Lemmas.SedovODEConsts

set_option linter.all false

open EPV.Spec.SedovODE

namespace EPV.Sedov

noncomputable section

/-- γ > 1, k > 0, ω < k -/
structure Params (γ k ω : ℝ) : Prop where
  hγ : 1 < γ
  hk : 0 < k
  hωk : ω < k

theorem Params.X_pos {γ k ω : ℝ} (P : Params γ k ω) : 0 < k + 2 - ω := by have := P.hωk; linarith
theorem Params.E_pos {γ k ω : ℝ} (P : Params γ k ω) : 0 < 2 + k * (γ - 1) := by
  have := mul_pos P.hk (by linarith [P.hγ] : 0 < γ - 1); linarith
theorem Params.γ_pos {γ k ω : ℝ} (P : Params γ k ω) : 0 < γ := by linarith [P.hγ]

/-- v strictly inside the branch of the standard solution type -/
structure StdInterior (γ k ω v : ℝ) : Prop where
  par : Params γ k ω
  type : v2 γ k ω < vstar γ k
  lo : v0 γ k ω < v
  hi : v < v2 γ k ω

/-- v strictly inside the branch of the vacuum solution type -/
structure VacInterior (γ k ω v : ℝ) : Prop where
  par : Params γ k ω
  type : vstar γ k < v2 γ k ω
  lo : v2 γ k ω < v
  hi : v < vv k ω

/-- the sign facts on the standard branch, in product form -/
structure StdSigns (γ k ω v : ℝ) : Prop where
  hX : 0 < k + 2 - ω
  hE : 0 < 2 + k * (γ - 1)
  hv : 0 < v
  x2 : 0 < 1 / 2 * (k + 2 - ω) * γ * v - 1
  x3 : 0 < 1 - 1 / 2 * (2 + k * (γ - 1)) * v
  x4 : 0 < 2 - (k + 2 - ω) * v
  x1 : 1 / 4 * (k + 2 - ω) * (γ + 1) * v < 1
  dden : 0 < (k + 2 - ω) * (γ + 1) - 2 * (2 + k * (γ - 1))

theorem StdInterior.signs {γ k ω v : ℝ} (I : StdInterior γ k ω v) : StdSigns γ k ω v := by
  obtain ⟨P, ht, hlo, hhi⟩ := I
  have hX := P.X_pos; have hE := P.E_pos; have hγ := P.hγ
  have hγ0 : 0 < γ := by linarith
  have hE' : 0 < (γ - 1) * k + 2 := by nlinarith [P.hk]
  unfold v0 at hlo; unfold v2 at hhi ht; unfold vstar at ht
  rw [div_lt_iff₀ (mul_pos hX hγ0)] at hlo
  rw [lt_div_iff₀ (mul_pos hX (by linarith))] at hhi
  rw [div_lt_div_iff₀ (mul_pos hX (by linarith)) hE'] at ht
  have hv : 0 < v := by
    by_contra hc
    have : v * ((k + 2 - ω) * γ) ≤ 0 := mul_nonpos_of_nonpos_of_nonneg (not_lt.mp hc) (mul_pos hX hγ0).le
    linarith
  refine ⟨hX, hE, hv, by linarith, ?_, ?_, by linarith, by linarith⟩
  · -- v < v2 < vstar: E v < 2
    have h1 : v * (2 * (2 + k * (γ - 1))) < v * ((k + 2 - ω) * (γ + 1)) := by
      apply mul_lt_mul_of_pos_left _ hv; linarith
    linarith
  · -- v < v2 < vv: (γ+1) X v < 4 and γ > 1
    have h1 : 0 < (k + 2 - ω) * v := mul_pos hX hv
    nlinarith

/-- the sign facts on the vacuum branch -/
structure VacSigns (γ k ω v : ℝ) : Prop where
  hX : 0 < k + 2 - ω
  hE : 0 < 2 + k * (γ - 1)
  hv : 0 < v
  x2 : 0 < 1 / 2 * (k + 2 - ω) * γ * v - 1
  x3 : 1 - 1 / 2 * (2 + k * (γ - 1)) * v < 0
  x4 : 0 < 2 - (k + 2 - ω) * v
  x1 : 1 < 1 / 4 * (k + 2 - ω) * (γ + 1) * v
  dden : (k + 2 - ω) * (γ + 1) - 2 * (2 + k * (γ - 1)) < 0

theorem VacInterior.signs {γ k ω v : ℝ} (I : VacInterior γ k ω v) : VacSigns γ k ω v := by
  obtain ⟨P, ht, hlo, hhi⟩ := I
  have hX := P.X_pos; have hE := P.E_pos; have hγ := P.hγ
  have hγ0 : 0 < γ := by linarith
  have hE' : 0 < (γ - 1) * k + 2 := by nlinarith [P.hk]
  unfold v2 at hlo ht; unfold vv at hhi; unfold vstar at ht
  rw [div_lt_iff₀ (mul_pos hX (by linarith))] at hlo
  rw [lt_div_iff₀ hX] at hhi
  rw [div_lt_div_iff₀ hE' (mul_pos hX (by linarith))] at ht
  have hv : 0 < v := by
    by_contra hc
    have : v * ((k + 2 - ω) * (γ + 1)) ≤ 0 :=
      mul_nonpos_of_nonpos_of_nonneg (not_lt.mp hc) (mul_pos hX (by linarith)).le
    linarith
  have hXv : 0 < (k + 2 - ω) * v := mul_pos hX hv
  refine ⟨hX, hE, hv, ?_, ?_, by linarith, by linarith, by linarith⟩
  · -- v > v2 > v0
    nlinarith
  · -- v > v2 > vstar: E v > 2
    have h1 : v * ((k + 2 - ω) * (γ + 1)) < v * (2 * (2 + k * (γ - 1))) := by
      apply mul_lt_mul_of_pos_left _ hv; linarith
    linarith

/-- non-vacuity: the default problem γ = 7/5, k = 3, ω = 0 is of standard type and v = 3/10 lies
strictly inside (v0, v2) = (2/7, 1/3) -/
example : StdInterior (7/5) 3 0 (3/10) :=
  ⟨⟨by norm_num, by norm_num, by norm_num⟩, by norm_num [v2, vstar], by norm_num [v0], by norm_num [v2]⟩
/-- non-vacuity: γ = 7/5, k = 3, ω = 5/2 is of vacuum type and v = 3/4 lies in (v2, vv) = (20/27, 4/5) -/
example : VacInterior (7/5) 3 (5/2) (3/4) :=
  ⟨⟨by norm_num, by norm_num, by norm_num⟩, by norm_num [v2, vstar], by norm_num [v2], by norm_num [vv]⟩

end

end EPV.Sedov
