/-
The numerical atoms of the GENERAL-EOS Riemann driver, and what "exact atoms" means.

The hand model `EPV.Model.RiemannGen` takes as arguments what the real code obtains from scipy: the Hugoniot
densities (`bisect` on `shock_jump`), the isentrope tables (`ode` on `drdp_dudp`), the star pressure (`bisect`
on the difference of the two interpolated P–U curves) — and, derived from them by `np.interp`, the star values
`rx1, ux1, rx2, ux2`.  The property theorems about the model are conditional on these atoms being EXACT:

* `HugoniotAtom`  — on a shock side: the star density is a root of the TRACED `shock_jump` for the star pressure
                    (and lies on the compressive branch), the star velocity is the TRACED `star_velocity` there;
* `Crossing`      — the two P–U curves meet: `ux1 = ux2`;
* `FanRow`/`FanAtom` — on a rarefaction side: every row of the fan table, and the star values, lie on ONE curve
                    `(R p, U p)`, `p ∈ [px, p0]`, that solves the TRACED `drdp_dudp` with the initial values
                    `(ρ0, u0)` at `p0` (`IsentropeSolution`).

For the ideal gas the curve is unique and is the closed form of the ideal-gas solver (`isentrope_unique_ig`:
`R = rho_star_rarefaction`, `U = u0 ± rarefaction`), from the `_partial` lemmas of `Props/C07/Riemann.lean`'s kind
(closed form solves the ODE) plus a Grönwall-free uniqueness argument (`ρ p^(-1/γ)` has zero derivative).
-/
import EPV.Lemmas.RiemannGenModel
import EPV.Lemmas.RiemannGenWaves
import EPV.Gen.RiemShockJumpIG
import EPV.Gen.RiemShockJumpJWL
import EPV.Gen.RiemOdeIG
import EPV.Gen.RiemOdeJWL

set_option linter.all false

open EPV EPV.Gen EPV.Model EPV.Riem

namespace EPV.RiemGen

noncomputable section

open RiemannGen (Eos Jwl Atoms P3)

/-- model state (p, ρ, u, e) → specification state (ρ, u, p, e) -/
def toSpec (s : St) : Spec.State := ⟨s.r, s.u, s.p, s.e⟩

/-- the traced `shock_jump(p0, r0, g, px, rx, inst)` for the closure switch of the model -/
def shockJump (e : Eos ℝ) (p0 r0 g px rx : ℝ) : ℝ :=
  if e.jwl then
    RiemShockJumpJWL.res { A := e.c.A, B := e.c.B, R1 := e.c.R1, R2 := e.c.R2, r0 := e.c.r0, gk := g,
                           pk := p0, rk := r0, pz := px, rz := rx }
  else RiemShockJumpIG.res { gk := g, pk := p0, rk := r0, pz := px, rz := rx }

/-- `shock_jump` is the Hugoniot function of the model's (= the traced) `sie` -/
theorem shockJump_eq (e : Eos ℝ) (p0 r0 g px rx : ℝ) :
    shockJump e p0 r0 g px rx
      = RiemannGen.sie e p0 r0 g + p0 / r0 + rx / r0 * (px - p0) / (rx - r0) / 2
        - (RiemannGen.sie e px rx g + px / rx + r0 / rx * (px - p0) / (rx - r0) / 2) := by
  obtain ⟨j, c⟩ := e
  cases j
  · simp only [shockJump, sie_ig, sie_eq, Bridge.Riem.shockJumpIG_eq, Bridge.Riem.jumpForm]; simp
  · simp only [shockJump, sie_jwl, sieJWL, Bridge.Riem.shockJumpJWL_eq, Bridge.Riem.jumpForm, Bridge.Riem.sieJWL_eq]; simp

/-- the traced right-hand side `drdp_dudp(p, [ρ, u], g, ws, inst)`, both components -/
def odeR (e : Eos ℝ) (g p r ws : ℝ) : ℝ :=
  if e.jwl then
    RiemOdeJWL.drdp { A := e.c.A, B := e.c.B, R1 := e.c.R1, R2 := e.c.R2, r0 := e.c.r0, gk := g, pz := p, rz := r, ws := ws }
  else RiemOdeIG.drdp { gk := g, pz := p, rz := r, ws := ws }
def odeU (e : Eos ℝ) (g p r ws : ℝ) : ℝ :=
  if e.jwl then
    RiemOdeJWL.dudp { A := e.c.A, B := e.c.B, R1 := e.c.R1, R2 := e.c.R2, r0 := e.c.r0, gk := g, pz := p, rz := r, ws := ws }
  else RiemOdeIG.dudp { gk := g, pz := p, rz := r, ws := ws }

/-- the right-hand side in terms of the model's (= the traced) sound speed: `1/a²`, `ws/(ρ a)` -/
theorem odeR_eq (e : Eos ℝ) (g p r ws : ℝ) : odeR e g p r ws = 1 / RiemannGen.soundSpeed e p r g ^ 2 := by
  obtain ⟨j, c⟩ := e
  cases j
  · simp only [odeR, sound_ig, sound_eq, Bridge.Riem.odeIG_drdp_eq]; simp
  · simp only [odeR, sound_jwl, soundJWL, Bridge.Riem.odeJWL_drdp_eq, Bridge.Riem.soundJWL_eq]; simp
theorem odeU_eq (e : Eos ℝ) (g p r ws : ℝ) : odeU e g p r ws = 1 / r / RiemannGen.soundSpeed e p r g * ws := by
  obtain ⟨j, c⟩ := e
  cases j
  · simp only [odeU, sound_ig, sound_eq, Bridge.Riem.odeIG_dudp_eq]; simp
  · simp only [odeU, sound_jwl, soundJWL, Bridge.Riem.odeJWL_dudp_eq, Bridge.Riem.soundJWL_eq]; simp

/-! ### shock side -/

/-- **exact atoms on a shock side**: `(p0, r0, u0)` the state ahead, `g` its γ, `(px, rx, ux)` the star values -/
structure HugoniotAtom (e : Eos ℝ) (d : RiemannIG.Data ℝ) (p0 r0 u0 g px rx ux : ℝ) : Prop where
  r0_pos : 0 < r0
  rx_pos : 0 < rx
  ne : rx ≠ r0
  /-- compressive branch: the radicand of `shock_speed` is non-negative -/
  slope : 0 ≤ (px - p0) / (rx - r0)
  /-- the `bisect` root of the traced `shock_jump` (exactness of the root finder and of the table interpolation) -/
  root : shockJump e p0 r0 g px rx = 0
  /-- the star velocity is `star_velocity` at the star density (exactness of the table interpolation) -/
  vel : ux = RiemannGen.starVelocity d p0 r0 u0 px rx

/-- **Rankine–Hugoniot for a shock of the general-EOS model**: state ahead → star state, at the speed the
scalar `shock_speed` call returns, whatever the `==` side detection decides (`sgn`) — provided
`star_velocity` and `shock_speed` decide alike, which they do: both test `(p0, r0, u0)` against the stored
left state -/
theorem hugoniot_rh {e : Eos ℝ} {d : RiemannIG.Data ℝ} {p0 r0 u0 g px rx ux : ℝ}
    (h : HugoniotAtom e d p0 r0 u0 g px rx ux) :
    Spec.RankineHugoniot ⟨r0, u0, p0, RiemannGen.sie e p0 r0 g⟩ ⟨rx, ux, px, RiemannGen.sie e px rx g⟩
      (RiemannGen.shockSpeed d px rx p0 r0 u0) := by
  obtain ⟨hr0, hrx, hne, hK, hroot, hvel⟩ := h
  rw [shockJump_eq] at hroot
  have hs : (if RiemannGen.isLeft d p0 r0 u0 then (-1 : ℝ) else 1) = 1
      ∨ (if RiemannGen.isLeft d p0 r0 u0 then (-1 : ℝ) else 1) = -1 := by
    split_ifs <;> simp
  have key := EPV.C04.gen_shock_rankineHugoniot (u0 := u0) hs hr0 hrx (sub_ne_zero.mpr hne) hK hroot
  have e1 : ux = u0 + (Real.sqrt (rx / r0 * (px - p0) / (rx - r0)) - Real.sqrt (r0 / rx * (px - p0) / (rx - r0)))
      * (if RiemannGen.isLeft d p0 r0 u0 then (-1 : ℝ) else 1) := by
    rw [hvel]
    simp only [RiemannGen.starVelocity, num_ofNat, num_sqrt]
    split_ifs <;> norm_num <;> exact sqrt_swap ..
  have e2 : RiemannGen.shockSpeed d px rx p0 r0 u0
      = (if RiemannGen.isLeft d p0 r0 u0 then (-1 : ℝ) else 1) * Real.sqrt (rx / r0 * (px - p0) / (rx - r0)) + u0 := by
    simp only [RiemannGen.shockSpeed, num_ofNat, num_sqrt]
    split_ifs <;> norm_num
  rw [e1, e2]
  exact key

/-! ### rarefaction side -/

/-- `(R, U)` solves the traced `drdp_dudp` (wave sign `ws`) on `[lo, p0]` with the values `(r0, u0)` at `p0`,
along positive densities and non-zero sound speeds -/
structure IsentropeSolution (e : Eos ℝ) (g ws p0 r0 u0 lo : ℝ) (R U : ℝ → ℝ) : Prop where
  hR : ∀ p ∈ Set.Icc lo p0, HasDerivAt R (odeR e g p (R p) ws) p
  hU : ∀ p ∈ Set.Icc lo p0, HasDerivAt U (odeU e g p (R p) ws) p
  pos : ∀ p ∈ Set.Icc lo p0, 0 < R p
  R0 : R p0 = r0
  U0 : U p0 = u0

/-- **exact atoms on a rarefaction side**: the star values and every row of the fan table lie on a solution
of the traced ODE system, at pressures between the star pressure and the initial pressure -/
structure FanAtom (e : Eos ℝ) (g ws p0 r0 u0 px rx ux : ℝ) (tab : List (P3 ℝ)) : Prop where
  lo_pos : 0 < px
  le : px ≤ p0
  sol : ∃ R U, IsentropeSolution e g ws p0 r0 u0 px R U ∧ R px = rx ∧ U px = ux ∧
    ∀ q ∈ tab, q.p ∈ Set.Icc px p0 ∧ q.r = R q.p ∧ q.u = U q.p

/-- the two P–U curves meet at `px` (exactness of the `bisect` on the interpolated curves) -/
def Crossing (a : Atoms ℝ) : Prop := a.ux1 = a.ux2

end

end EPV.RiemGen
