/-
Helper lemmas for the Blake properties (C15, C08/C20 shares): the square root written as
`pow(x, 0.5)`, the exponent `2.` written as a float, and derivatives of a function that
coincides with a differentiable one on an open set.
-/
import EPV.Support
import EPV.Tactics

/-! ### linear-time case analysis of a traced decision tree

`split_ifs` (and `simp` with hypotheses) on a nested `if` twelve levels deep takes time exponential in the
depth (the `ite` congruence rule re-simplifies both branches at every level).  The tactics below walk the
tree of `outcome` once, with plain `refine`/`rintro`, so they are linear in the number of leaves. -/

theorem EPV.ite_ok {c : Prop} {inst : Decidable c} {a b : EPV.Out} (h : (@ite _ c inst a b) = .ok) :
    (c ∧ a = .ok) ∨ (¬ c ∧ b = .ok) := by
  by_cases hc : c
  · rw [if_pos hc] at h; exact Or.inl ⟨hc, h⟩
  · rw [if_neg hc] at h; exact Or.inr ⟨hc, h⟩

/-- `o` is `ok` or `raise "ValueError"` -/
def EPV.OkOrValueError (o : EPV.Out) : Prop := o = .ok ∨ o = .raise "ValueError"

theorem EPV.OkOrValueError.ite {c : Prop} {inst : Decidable c} {a b : EPV.Out}
    (ha : EPV.OkOrValueError a) (hb : EPV.OkOrValueError b) : EPV.OkOrValueError (@ite _ c inst a b) := by
  by_cases hc : c
  · rw [if_pos hc]; exact ha
  · rw [if_neg hc]; exact hb

/-- with `h : (nested if … ) = .ok` in the context and the tree-level definitions of the goal unfolded
(all of them share the shape of the tree in `h`): one goal per accepting path, the path conditions as
hypotheses `hc`, the trees of the goal reduced in lockstep by `rw [if_pos hc]` / `rw [if_neg hc]`, then the
given tactic -/
syntax "epv_walk " tacticSeq : tactic
set_option hygiene false in
macro_rules
  | `(tactic| epv_walk $t) =>
    `(tactic| first
      | (refine Or.elim (EPV.ite_ok h) ?_ ?_ <;> (clear h; rintro ⟨hc, h⟩) <;>
          (try (repeat rw [if_pos hc])) <;> (try (repeat rw [if_neg hc])) <;> epv_walk $t)
      | (cases h; done)
      | ($t))

set_option hygiene false in
/-- for a hypothesis `h : M.outcome p = .ok`: unfold the tree-level definitions, walk the tree of `outcome`,
discard the non-`ok` paths and run the given tactic on each accepting path (`epv_on_leaves` in linear
time; for very deep trees unfold by name with `unfold` and call `epv_walk` directly — `simp only` itself
is slow on them) -/
macro "epv_paths " t:tacticSeq : tactic =>
  `(tactic| (simp only [epv_tree] at h ⊢
             epv_walk ($t)))

/-- goal `M.outcome p = .ok ∨ M.outcome p = .raise "ValueError"` with `M.outcome` unfolded -/
macro "epv_ok_or_valueError" : tactic =>
  `(tactic| (show EPV.OkOrValueError _
             repeat (first | exact Or.inl rfl | exact Or.inr rfl | apply EPV.OkOrValueError.ite)))

namespace EPV.Blake

open Real

/-- `pow(x, 0.5)` is the square root -/
theorem rpow_half_eq_sqrt (x : ℝ) : x ^ ((1 : ℝ) / 2) = Real.sqrt x := (Real.sqrt_eq_rpow x).symm

theorem rpow_half_nonneg (x : ℝ) : 0 ≤ x ^ ((1 : ℝ) / 2) := by
  rw [rpow_half_eq_sqrt]; exact Real.sqrt_nonneg x

theorem rpow_half_mul_self {x : ℝ} (hx : 0 ≤ x) : x ^ ((1 : ℝ) / 2) * x ^ ((1 : ℝ) / 2) = x := by
  rw [rpow_half_eq_sqrt]; exact Real.mul_self_sqrt hx

theorem rpow_half_sq {x : ℝ} (hx : 0 ≤ x) : (x ^ ((1 : ℝ) / 2)) ^ (2 : ℕ) = x := by
  rw [pow_two]; exact rpow_half_mul_self hx

theorem rpow_half_pos {x : ℝ} (hx : 0 < x) : 0 < x ^ ((1 : ℝ) / 2) := Real.rpow_pos_of_pos hx _

/-- the value of `pow(x, 0.5)` from a known non-negative root -/
theorem rpow_half_eq {x y : ℝ} (hy : 0 ≤ y) (h : y * y = x) : x ^ ((1 : ℝ) / 2) = y := by
  rw [rpow_half_eq_sqrt, ← h]; exact Real.sqrt_mul_self hy

/-- `x ** 2.` (float exponent) is the square -/
theorem rpow_two_float (x : ℝ) : x ^ (2 : ℝ) = x ^ (2 : ℕ) := by
  rw [← Real.rpow_natCast]; norm_num

/-- first and second derivative of a function that agrees on an open set with a function whose
derivative is known there -/
theorem deriv_eq_of_eqOn_open {f g g' : ℝ → ℝ} {s : Set ℝ} {x : ℝ} (hs : IsOpen s) (hx : x ∈ s)
    (hfg : ∀ y ∈ s, f y = g y) (hg : HasDerivAt g (g' x) x) : deriv f x = g' x := by
  have h : f =ᶠ[nhds x] g := Filter.eventually_of_mem (hs.mem_nhds hx) hfg
  rw [h.deriv_eq]; exact hg.deriv

theorem hasDerivAt_of_eqOn_open {f g : ℝ → ℝ} {g' : ℝ} {s : Set ℝ} {x : ℝ} (hs : IsOpen s) (hx : x ∈ s)
    (hfg : ∀ y ∈ s, f y = g y) (hg : HasDerivAt g g' x) : HasDerivAt f g' x := by
  have h : f =ᶠ[nhds x] g := Filter.eventually_of_mem (hs.mem_nhds hx) hfg
  exact hg.congr_of_eventuallyEq h

theorem deriv2_eq_of_eqOn_open {f g g' : ℝ → ℝ} {g'' : ℝ} {s : Set ℝ} {x : ℝ} (hs : IsOpen s) (hx : x ∈ s)
    (hfg : ∀ y ∈ s, f y = g y) (hg : ∀ y ∈ s, HasDerivAt g (g' y) y) (hg' : HasDerivAt g' g'' x) :
    deriv (fun y => deriv f y) x = g'' := by
  have h : (fun y => deriv f y) =ᶠ[nhds x] g' :=
    Filter.eventually_of_mem (hs.mem_nhds hx) (fun y hy => deriv_eq_of_eqOn_open hs hy hfg (hg y hy))
  rw [h.deriv_eq]; exact hg'.deriv

end EPV.Blake
