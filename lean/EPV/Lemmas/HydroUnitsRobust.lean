/-
C08, closed-form hydro solvers: a shape-independent last step for the dimensional analysis.

`dim_eq` (Lemmas/Units.lean) compares the derived dimension exponents with the hand table by `ring`.  The exponents
of the Coggeshall power laws are rational functions of the parameters (`-2 (α n - c₁) / α / c₃`, …) and the comparison
holds for *all* real parameters (no non-vanishing hypotheses: `x / 0 = 0` on both sides).  `ring` proves
`a / b / c = a / (b * c)` only when `b`, `c` are monomials; when the code writes `a / (α * c₃)` with `c₃` a sum it first
expands `α * c₃` and then sees an unrelated inverse atom.  Pushing the inverses inward first (`mul_inv`, true in every
field without hypotheses) makes the comparison independent of how the Python groups its divisions.

This file only *adds* an alternative to the extensible tactic `dim_eq`; where it fails the original one is tried.
-/
import EPV.Lemmas.Units

set_option linter.all false

macro_rules
  | `(tactic| dim_eq) =>
    `(tactic| first | rfl | (apply EPV.Spec.Dim.ext <;>
        simp only [EPV.Spec.Dim.zero_m, EPV.Spec.Dim.zero_l, EPV.Spec.Dim.zero_t, EPV.Spec.Dim.zero_θ,
          EPV.Spec.Dim.add_m, EPV.Spec.Dim.add_l, EPV.Spec.Dim.add_t, EPV.Spec.Dim.add_θ,
          EPV.Spec.Dim.sub_m, EPV.Spec.Dim.sub_l, EPV.Spec.Dim.sub_t, EPV.Spec.Dim.sub_θ,
          EPV.Spec.Dim.neg_m, EPV.Spec.Dim.neg_l, EPV.Spec.Dim.neg_t, EPV.Spec.Dim.neg_θ,
          EPV.Spec.Dim.smul_m, EPV.Spec.Dim.smul_l, EPV.Spec.Dim.smul_t, EPV.Spec.Dim.smul_θ,
          EPV.Spec.Dim.one, EPV.Spec.Dim.mass, EPV.Spec.Dim.length, EPV.Spec.Dim.time,
          EPV.Spec.Dim.temperature, EPV.Spec.Dim.density, EPV.Spec.Dim.velocity, EPV.Spec.Dim.pressure,
          EPV.Spec.Dim.sie, EPV.Spec.Dim.gruneisen, EPV.Spec.Dim.rate] <;>
        (try push_cast) <;>
        first
        | ring1
        | (simp only [div_eq_mul_inv, mul_inv, inv_inv]; ring1)))
