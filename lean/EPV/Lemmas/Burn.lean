/-
Lemmas about the documented burn-time solutions of `EPV.Spec.Burn`, over an arbitrary
real inner-product space, and the bridge between the coordinate expressions the
tracer produces (`Real.sqrt ((x - a) * (x - a) + …)`) and norms, distances and inner
products of `EuclideanSpace ℝ (Fin 2)` / `(Fin 3)`.
-/
import EPV.Spec.Burn
import EPV.Support
import Mathlib.Analysis.SpecialFunctions.Trigonometric.Bounds
import Mathlib.Analysis.SpecialFunctions.Log.Deriv
import Mathlib.Analysis.SpecialFunctions.Sqrt
import Mathlib.Tactic

set_option linter.all false

namespace EPV.Burn

open EPV.Spec.Burn

abbrev E2 := EuclideanSpace ℝ (Fin 2)
abbrev E3 := EuclideanSpace ℝ (Fin 3)

/-! ### reading acceptance off a traced decision tree -/

/-- one rejecting level of a traced tree: the request gets past it iff its condition is false -/
theorem ite_raise_eq_ok {c : Prop} [Decidable c] {s : String} {X : EPV.Out} :
    (if c then EPV.Out.raise s else X) = EPV.Out.ok ↔ ¬c ∧ X = EPV.Out.ok := by
  by_cases h : c <;> simp [h]

theorem ite_else_raise_eq_ok {c : Prop} [Decidable c] {s : String} {X : EPV.Out} :
    (if c then X else EPV.Out.raise s) = EPV.Out.ok ↔ c ∧ X = EPV.Out.ok := by
  by_cases h : c <;> simp [h]

theorem ite_eq_ok_iff {c : Prop} [Decidable c] {X Y : EPV.Out} :
    (if c then X else Y) = EPV.Out.ok ↔ (c ∧ X = EPV.Out.ok) ∨ (¬c ∧ Y = EPV.Out.ok) := by
  by_cases h : c <;> simp [h]

theorem ite_ok_or_raise {c : Prop} {inst : Decidable c} {s : String} {X Y : EPV.Out}
    (hX : X = EPV.Out.ok ∨ X = EPV.Out.raise s) (hY : Y = EPV.Out.ok ∨ Y = EPV.Out.raise s) :
    (@ite _ c inst X Y) = EPV.Out.ok ∨ (@ite _ c inst X Y) = EPV.Out.raise s := by
  by_cases h : c <;> simp [h, hX, hY]

/-- every leaf of a traced tree is `ok` or raises the exception `s` -/
macro "epv_ok_or_raise" : tactic =>
  `(tactic| (simp only [epv_tree]
             repeat' (first | exact Or.inl rfl | exact Or.inr rfl | apply ite_ok_or_raise)))

/-! ### coordinates ↔ Euclidean space -/

theorem vec2_0 (a b : ℝ) : (!₂[a, b] : E2) 0 = a := by simp
theorem vec2_1 (a b : ℝ) : (!₂[a, b] : E2) 1 = b := by simp
theorem vec3_0 (a b c : ℝ) : (!₂[a, b, c] : E3) 0 = a := by simp
theorem vec3_1 (a b c : ℝ) : (!₂[a, b, c] : E3) 1 = b := by simp
theorem vec3_2 (a b c : ℝ) : (!₂[a, b, c] : E3) 2 = c := by simp

theorem sqrt_dist2 (q c : E2) :
    Real.sqrt ((q 0 - c 0) * (q 0 - c 0) + (q 1 - c 1) * (q 1 - c 1)) = dist q c := by
  rw [EuclideanSpace.dist_eq, Fin.sum_univ_two]
  congr 1
  simp [Real.dist_eq, sq_abs]
  ring

theorem sqrt_dist3 (q c : E3) :
    Real.sqrt ((q 0 - c 0) * (q 0 - c 0) + (q 1 - c 1) * (q 1 - c 1) + (q 2 - c 2) * (q 2 - c 2)) = dist q c := by
  rw [EuclideanSpace.dist_eq, Fin.sum_univ_three]
  congr 1
  simp [Real.dist_eq, sq_abs]
  ring

theorem sqrt_norm2 (q : E2) : Real.sqrt (q 0 * q 0 + q 1 * q 1) = ‖q‖ := by
  rw [EuclideanSpace.norm_eq, Fin.sum_univ_two]
  congr 1
  simp [sq_abs]
  ring

theorem sqrt_norm3 (q : E3) : Real.sqrt (q 0 * q 0 + q 1 * q 1 + q 2 * q 2) = ‖q‖ := by
  rw [EuclideanSpace.norm_eq, Fin.sum_univ_three]
  congr 1
  simp [sq_abs]
  ring

theorem inner2 (q c : E2) : q 0 * c 0 + q 1 * c 1 = inner ℝ q c := by
  simp [PiLp.inner_apply, Fin.sum_univ_two]
  ring

theorem inner3 (q c : E3) : q 0 * c 0 + q 1 * c 1 + q 2 * c 2 = inner ℝ q c := by
  simp [PiLp.inner_apply, Fin.sum_univ_three]
  ring

/-! ### the cone `t_d + dist q c / D` -/

section cone
variable {E : Type*} [PseudoMetricSpace E]

theorem cone_self (td D : ℝ) (c : E) : cone td D c c = td := by simp [cone]

theorem cone_ge (td : ℝ) {D : ℝ} (hD : 0 < D) (c q : E) : td ≤ cone td D c q := by
  have : 0 ≤ dist q c / D := div_nonneg dist_nonneg hD.le
  unfold cone; linarith

/-- the cone is `1/D`-Lipschitz -/
theorem cone_lipschitz (td : ℝ) {D : ℝ} (hD : 0 < D) (c q q' : E) :
    |cone td D c q - cone td D c q'| ≤ dist q q' / D := by
  have h : cone td D c q - cone td D c q' = (dist q c - dist q' c) / D := by unfold cone; ring
  rw [h, abs_div, abs_of_pos hD]
  exact div_le_div_of_nonneg_right (abs_dist_sub_le q q' c) hD.le

/-- a slower cone is Lipschitz with the larger constant too -/
theorem cone_lipschitz_of_le (td : ℝ) {D D' : ℝ} (hD' : 0 < D') (h : D' ≤ D) (c q q' : E) :
    |cone td D c q - cone td D c q'| ≤ dist q q' / D' :=
  (cone_lipschitz td (hD'.trans_le h) c q q').trans (div_le_div_of_nonneg_left dist_nonneg hD' h)

end cone

section ray
variable {E : Type*} [NormedAddCommGroup E] [InnerProductSpace ℝ E]

theorem cone_on_ray (td D : ℝ) (c u : E) (hu : ‖u‖ = 1) {s : ℝ} (hs : 0 ≤ s) :
    cone td D c (c + s • u) = td + s / D := by
  simp [cone, dist_eq_norm, norm_smul, hu, abs_of_nonneg hs]

/-- derivative-free eikonal equation: along every ray from the detonator the arrival
time grows exactly at the rate `1/D` -/
theorem cone_eikonal (td D : ℝ) (c : E) : EikonalOnRays (cone td D c) D c := by
  intro u hu s s' hs hs'
  rw [cone_on_ray td D c u hu hs, cone_on_ray td D c u hu hs']
  ring

end ray

/-! ### min / max of Lipschitz functions (pointwise, no topology needed) -/

theorem abs_max_sub_max_le {a b c d e : ℝ} (h1 : |a - c| ≤ e) (h2 : |b - d| ≤ e) :
    |max a b - max c d| ≤ e :=
  (abs_max_sub_max_le_max a b c d).trans (max_le h1 h2)

theorem abs_min_sub_min_le {a b c d e : ℝ} (h1 : |a - c| ≤ e) (h2 : |b - d| ≤ e) :
    |min a b - min c d| ≤ e :=
  (abs_min_sub_min_le_max a b c d).trans (max_le h1 h2)

/-! ### Kenamond 2 -/

section k2
variable {E : Type*} [NormedAddCommGroup E] [InnerProductSpace ℝ E]

/-- the conditions the constructor of `Kenamond2` enforces (module docstring: D₁ ≥ D₂ as coded,
detonators 1, 2, 4, 5 in the outer explosive, and
`t_{d_i} ≥ t_{d_3} + R (1/D₁ + 1/D₂) - |a_{d_i}| / D₂`) -/
structure K2Adm (R D1 D2 td1 td2 td3 td4 td5 : ℝ) (d1 d2 d4 d5 : E) : Prop where
  hR : 0 < R
  hD2 : 0 < D2
  hD : D2 ≤ D1
  out1 : R < ‖d1‖
  out2 : R < ‖d2‖
  out4 : R < ‖d4‖
  out5 : R < ‖d5‖
  time1 : td3 + R * (1 / D1 + 1 / D2) - ‖d1‖ / D2 ≤ td1
  time2 : td3 + R * (1 / D1 + 1 / D2) - ‖d2‖ / D2 ≤ td2
  time4 : td3 + R * (1 / D1 + 1 / D2) - ‖d4‖ / D2 ≤ td4
  time5 : td3 + R * (1 / D1 + 1 / D2) - ‖d5‖ / D2 ≤ td5

variable {R D1 D2 td1 td2 td3 td4 td5 : ℝ} {d1 d2 d4 d5 : E}

/-- never earlier than the earliest detonation -/
theorem k2_ge_min (hD1 : 0 < D1) (hD2 : 0 < D2) (q : E) :
    min (min (min (min td3 td1) td2) td4) td5 ≤ k2 R D1 D2 td1 td2 td3 td4 td5 d1 d2 d4 d5 q := by
  unfold k2
  have h3 : td3 ≤ max (td3 + ‖q‖ / D1) (td3 + ‖q‖ / D2 + R * (1 / D1 - 1 / D2)) := by
    have : 0 ≤ ‖q‖ / D1 := div_nonneg (norm_nonneg _) hD1.le
    exact le_max_of_le_left (by linarith)
  exact min_le_min (min_le_min (min_le_min (min_le_min h3 (cone_ge td1 hD2 d1 q)) (cone_ge td2 hD2 d2 q))
    (cone_ge td4 hD2 d4 q)) (cone_ge td5 hD2 d5 q)

theorem k2_at_det1_le : k2 R D1 D2 td1 td2 td3 td4 td5 d1 d2 d4 d5 d1 ≤ td1 := by
  unfold k2
  refine (min_le_left _ _).trans ((min_le_left _ _).trans ((min_le_left _ _).trans ((min_le_right _ _).trans ?_)))
  rw [cone_self]

theorem k2_at_det2_le : k2 R D1 D2 td1 td2 td3 td4 td5 d1 d2 d4 d5 d2 ≤ td2 := by
  unfold k2
  refine (min_le_left _ _).trans ((min_le_left _ _).trans ((min_le_right _ _).trans ?_))
  rw [cone_self]

theorem k2_at_det4_le : k2 R D1 D2 td1 td2 td3 td4 td5 d1 d2 d4 d5 d4 ≤ td4 := by
  unfold k2
  refine (min_le_left _ _).trans ((min_le_right _ _).trans ?_)
  rw [cone_self]

theorem k2_at_det5_le : k2 R D1 D2 td1 td2 td3 td4 td5 d1 d2 d4 d5 d5 ≤ td5 := by
  unfold k2
  refine (min_le_right _ _).trans ?_
  rw [cone_self]

/-- a far detonator's cone cannot undercut the central wave inside the sphere: this is
exactly what the constructor's timing check buys -/
theorem k2_far_cone_ge {td d} (hR : 0 < R) (hD2 : 0 < D2) (hD : D2 ≤ D1)
    (ht : td3 + R * (1 / D1 + 1 / D2) - ‖d‖ / D2 ≤ td) {q : E} (hq : ‖q‖ ≤ R) :
    td3 + ‖q‖ / D1 ≤ cone td D2 d q := by
  have hD1 : 0 < D1 := hD2.trans_le hD
  have htri : ‖d‖ - ‖q‖ ≤ dist q d := by
    have := norm_sub_norm_le d q
    rw [dist_comm, dist_eq_norm]; exact this
  have hi1 : 0 < D1⁻¹ := inv_pos.mpr hD1
  have hi2 : 0 < D2⁻¹ := inv_pos.mpr hD2
  have hn : 0 ≤ ‖q‖ := norm_nonneg q
  unfold cone
  simp only [div_eq_mul_inv, one_mul] at *
  nlinarith [mul_le_mul_of_nonneg_right htri hi2.le, mul_le_mul_of_nonneg_right hq hi1.le,
    mul_le_mul_of_nonneg_right hq hi2.le]

theorem k2_t4_le_t3 (hD2 : 0 < D2) (hD : D2 ≤ D1) {q : E} (hq : ‖q‖ ≤ R) :
    td3 + ‖q‖ / D2 + R * (1 / D1 - 1 / D2) ≤ td3 + ‖q‖ / D1 := by
  have hD1 : 0 < D1 := hD2.trans_le hD
  have hi : D1⁻¹ ≤ D2⁻¹ := inv_anti₀ hD2 hD
  simp only [div_eq_mul_inv, one_mul]
  nlinarith [mul_le_mul_of_nonneg_left hi (sub_nonneg.mpr hq)]

theorem k2_t3_le_t4 (hD2 : 0 < D2) (hD : D2 ≤ D1) {q : E} (hq : R ≤ ‖q‖) :
    td3 + ‖q‖ / D1 ≤ td3 + ‖q‖ / D2 + R * (1 / D1 - 1 / D2) := by
  have hD1 : 0 < D1 := hD2.trans_le hD
  have hi : D1⁻¹ ≤ D2⁻¹ := inv_anti₀ hD2 hD
  simp only [div_eq_mul_inv, one_mul]
  nlinarith [mul_le_mul_of_nonneg_left hi (sub_nonneg.mpr hq)]

/-- on the sphere the two expressions for the central wave agree: the burn time is
continuous across the material interface -/
theorem k2_t3_eq_t4 {q : E} (hq : ‖q‖ = R) :
    td3 + ‖q‖ / D1 = td3 + ‖q‖ / D2 + R * (1 / D1 - 1 / D2) := by
  rw [hq]; ring

/-- the content of the constructor's timing checks: inside the sphere the burn time is
the undisturbed wave of detonator 3 moving with `D₁` -/
theorem k2_inside (h : K2Adm R D1 D2 td1 td2 td3 td4 td5 d1 d2 d4 d5) {q : E} (hq : ‖q‖ ≤ R) :
    k2 R D1 D2 td1 td2 td3 td4 td5 d1 d2 d4 d5 q = td3 + ‖q‖ / D1 := by
  unfold k2
  rw [max_eq_left (k2_t4_le_t3 h.hD2 h.hD hq),
    min_eq_left (k2_far_cone_ge h.hR h.hD2 h.hD h.time1 hq),
    min_eq_left (k2_far_cone_ge h.hR h.hD2 h.hD h.time2 hq),
    min_eq_left (k2_far_cone_ge h.hR h.hD2 h.hD h.time4 hq),
    min_eq_left (k2_far_cone_ge h.hR h.hD2 h.hD h.time5 hq)]

/-- outside the sphere the central wave is the refracted one (`t₄`) -/
theorem k2_outside (hD2 : 0 < D2) (hD : D2 ≤ D1) {q : E} (hq : R ≤ ‖q‖) :
    k2 R D1 D2 td1 td2 td3 td4 td5 d1 d2 d4 d5 q =
      min (min (min (min (td3 + ‖q‖ / D2 + R * (1 / D1 - 1 / D2)) (cone td1 D2 d1 q)) (cone td2 D2 d2 q))
        (cone td4 D2 d4 q)) (cone td5 D2 d5 q) := by
  unfold k2
  rw [max_eq_right (k2_t3_le_t4 hD2 hD hq)]

/-- at detonator 3 (the origin) the burn time is its detonation time -/
theorem k2_at_origin (h : K2Adm R D1 D2 td1 td2 td3 td4 td5 d1 d2 d4 d5) :
    k2 R D1 D2 td1 td2 td3 td4 td5 d1 d2 d4 d5 (0 : E) = td3 := by
  rw [k2_inside h (by simpa using h.hR.le)]
  simp

/-- global `1/D₂`-Lipschitz bound (`D₂` is the slower explosive) -/
theorem k2_lipschitz (hD2 : 0 < D2) (hD : D2 ≤ D1) (q q' : E) :
    |k2 R D1 D2 td1 td2 td3 td4 td5 d1 d2 d4 d5 q - k2 R D1 D2 td1 td2 td3 td4 td5 d1 d2 d4 d5 q'|
      ≤ dist q q' / D2 := by
  unfold k2
  have e3 : ∀ x : E, td3 + ‖x‖ / D1 = cone td3 D1 0 x := fun x => by simp [cone]
  have e4 : ∀ x : E, td3 + ‖x‖ / D2 + R * (1 / D1 - 1 / D2) = cone (td3 + R * (1 / D1 - 1 / D2)) D2 0 x :=
    fun x => by simp [cone]; ring
  simp only [e3, e4]
  exact abs_min_sub_min_le (abs_min_sub_min_le (abs_min_sub_min_le (abs_min_sub_min_le
    (abs_max_sub_max_le (cone_lipschitz_of_le _ hD2 hD _ _ _) (cone_lipschitz _ hD2 _ _ _))
    (cone_lipschitz _ hD2 _ _ _)) (cone_lipschitz _ hD2 _ _ _)) (cone_lipschitz _ hD2 _ _ _))
    (cone_lipschitz _ hD2 _ _ _)

/-- inside the sphere the bound improves to `1/D₁` -/
theorem k2_lipschitz_inside (h : K2Adm R D1 D2 td1 td2 td3 td4 td5 d1 d2 d4 d5) {q q' : E}
    (hq : ‖q‖ ≤ R) (hq' : ‖q'‖ ≤ R) :
    |k2 R D1 D2 td1 td2 td3 td4 td5 d1 d2 d4 d5 q - k2 R D1 D2 td1 td2 td3 td4 td5 d1 d2 d4 d5 q'|
      ≤ dist q q' / D1 := by
  rw [k2_inside h hq, k2_inside h hq']
  have := cone_lipschitz td3 (h.hD2.trans_le h.hD) (0 : E) q q'
  simpa [cone] using this

end k2

/-! ### Kenamond 3 -/

section k3
variable {E : Type*} [NormedAddCommGroup E] [InnerProductSpace ℝ E]

theorem sqrt_one_sub_div_sq_mul {R l : ℝ} (hl : 0 < l) :
    Real.sqrt (1 - (R / l) ^ 2) * l = Real.sqrt (l ^ 2 - R ^ 2) := by
  have h : l = Real.sqrt (l ^ 2) := (Real.sqrt_sq hl.le).symm
  calc Real.sqrt (1 - (R / l) ^ 2) * l = Real.sqrt (1 - (R / l) ^ 2) * Real.sqrt (l ^ 2) := by rw [← h]
    _ = Real.sqrt ((1 - (R / l) ^ 2) * l ^ 2) := (Real.sqrt_mul' _ (sq_nonneg l)).symm
    _ = Real.sqrt (l ^ 2 - R ^ 2) := by congr 1; field_simp

/-- the argument of the first `arccos` is a cosine (Cauchy–Schwarz) -/
theorem k3_cos_arg_mem {xd q : E} (hxd : 0 < ‖xd‖) (hq : 0 < ‖q‖) :
    -1 ≤ -(inner ℝ q xd) / (‖xd‖ * ‖q‖) ∧ -(inner ℝ q xd) / (‖xd‖ * ‖q‖) ≤ 1 := by
  have hpos : 0 < ‖xd‖ * ‖q‖ := mul_pos hxd hq
  have h := abs_real_inner_le_norm q xd
  rw [abs_le] at h
  constructor
  · rw [le_div_iff₀ hpos]; nlinarith [h.1, h.2]
  · rw [div_le_iff₀ hpos]; nlinarith [h.1, h.2]

/-- law of cosines around the obstacle: the squared straight distance in terms of the two
tangent lengths and the shadow angle θ -/
theorem k3_dist_sq {R : ℝ} {xd q : E} (hR : 0 < R) (hxd : R ≤ ‖xd‖) (hq : R ≤ ‖q‖) :
    dist q xd ^ 2 = ‖q‖ ^ 2 + ‖xd‖ ^ 2
      - 2 * ((R ^ 2 - Real.sqrt (‖q‖ ^ 2 - R ^ 2) * Real.sqrt (‖xd‖ ^ 2 - R ^ 2)) * Real.cos (k3theta R xd q)
        - R * (Real.sqrt (‖q‖ ^ 2 - R ^ 2) + Real.sqrt (‖xd‖ ^ 2 - R ^ 2)) * Real.sin (k3theta R xd q)) := by
  have hxd0 : 0 < ‖xd‖ := hR.trans_le hxd
  have hq0 : 0 < ‖q‖ := hR.trans_le hq
  obtain ⟨hc1, hc2⟩ := k3_cos_arg_mem hxd0 hq0
  set c := -(inner ℝ q xd) / (‖xd‖ * ‖q‖) with hc
  set β := Real.arccos (R / ‖q‖) with hβ
  set ψ := Real.arccos (R / ‖xd‖) with hψ
  set θ := k3theta R xd q with hθ
  have hα : Real.arccos c = Real.pi - (β + ψ + θ) := by
    rw [hθ]; unfold k3theta; rw [← hc, ← hβ, ← hψ]; ring
  have hcos : c = -Real.cos (β + ψ + θ) := by
    rw [← Real.cos_pi_sub, ← hα, Real.cos_arccos hc1 hc2]
  have hcb : Real.cos β = R / ‖q‖ :=
    Real.cos_arccos (by have := div_nonneg hR.le hq0.le; linarith) ((div_le_one hq0).mpr hq)
  have hcp : Real.cos ψ = R / ‖xd‖ :=
    Real.cos_arccos (by have := div_nonneg hR.le hxd0.le; linarith) ((div_le_one hxd0).mpr hxd)
  have hsb : Real.sin β * ‖q‖ = Real.sqrt (‖q‖ ^ 2 - R ^ 2) := by
    rw [hβ, Real.sin_arccos]; exact sqrt_one_sub_div_sq_mul hq0
  have hsp : Real.sin ψ * ‖xd‖ = Real.sqrt (‖xd‖ ^ 2 - R ^ 2) := by
    rw [hψ, Real.sin_arccos]; exact sqrt_one_sub_div_sq_mul hxd0
  have hcb' : Real.cos β * ‖q‖ = R := by rw [hcb]; field_simp
  have hcp' : Real.cos ψ * ‖xd‖ = R := by rw [hcp]; field_simp
  have hin : inner ℝ q xd = ‖xd‖ * ‖q‖ * Real.cos (β + ψ + θ) := by
    have : -(inner ℝ q xd) = c * (‖xd‖ * ‖q‖) := by rw [hc]; field_simp
    rw [hcos] at this; linarith
  rw [dist_eq_norm, norm_sub_sq_real, hin, Real.cos_add, Real.cos_add, Real.sin_add, ← hsb, ← hsp]
  set cb := Real.cos β
  set sb := Real.sin β
  set cp := Real.cos ψ
  set sp := Real.sin ψ
  have e1 : R ^ 2 = (cb * ‖q‖) * (cp * ‖xd‖) := by rw [hcb', hcp']; ring
  have e2 : R = cb * ‖q‖ := hcb'.symm
  have e3 : R = cp * ‖xd‖ := hcp'.symm
  -- R appears linearly (times tangent lengths) and squared
  have e4 : R * (sb * ‖q‖ + sp * ‖xd‖) = (cp * ‖xd‖) * (sb * ‖q‖) + (cb * ‖q‖) * (sp * ‖xd‖) := by
    rw [← e2, ← e3]; ring
  rw [e4, e1]
  ring

theorem k3_tangent_sq {R l : ℝ} (h : R ≤ l) (hR : 0 < R) : Real.sqrt (l ^ 2 - R ^ 2) ^ 2 = l ^ 2 - R ^ 2 :=
  Real.sq_sqrt (by nlinarith)

/-- on the shadow boundary (θ = 0) the straight distance is the sum of the two tangent lengths -/
theorem k3_boundary_dist {R : ℝ} {xd q : E} (hR : 0 < R) (hxd : R ≤ ‖xd‖) (hq : R ≤ ‖q‖)
    (hθ : k3theta R xd q = 0) :
    dist q xd = Real.sqrt (‖xd‖ ^ 2 - R ^ 2) + Real.sqrt (‖q‖ ^ 2 - R ^ 2) := by
  have h := k3_dist_sq hR hxd hq
  rw [hθ, Real.cos_zero, Real.sin_zero] at h
  have h1 := k3_tangent_sq hxd hR
  have h2 := k3_tangent_sq hq hR
  have hs : dist q xd ^ 2 = (Real.sqrt (‖xd‖ ^ 2 - R ^ 2) + Real.sqrt (‖q‖ ^ 2 - R ^ 2)) ^ 2 := by
    rw [h]; nlinarith
  exact (sq_eq_sq₀ dist_nonneg (add_nonneg (Real.sqrt_nonneg _) (Real.sqrt_nonneg _))).mp hs

/-- continuity across the shadow boundary: where θ = 0 the shadow formula and the
line-of-sight formula give the same burn time -/
theorem k3_boundary {R D td : ℝ} {xd q : E} (hR : 0 < R) (hxd : R ≤ ‖xd‖) (hq : R ≤ ‖q‖)
    (hθ : k3theta R xd q = 0) :
    td + k3path R xd q / D = cone td D xd q := by
  unfold k3path cone
  rw [k3_boundary_dist hR hxd hq hθ, hθ]
  ring

/-- the path around the obstacle is never shorter than the straight segment -/
theorem k3_path_ge_dist {R : ℝ} {xd q : E} (hR : 0 < R) (hxd : R ≤ ‖xd‖) (hq : R ≤ ‖q‖)
    (hθ : 0 ≤ k3theta R xd q) :
    dist q xd ≤ k3path R xd q := by
  have h := k3_dist_sq hR hxd hq
  have h1 := k3_tangent_sq hxd hR
  have h2 := k3_tangent_sq hq hR
  unfold k3path
  set θ := k3theta R xd q
  set a := Real.sqrt (‖xd‖ ^ 2 - R ^ 2)
  set b := Real.sqrt (‖q‖ ^ 2 - R ^ 2)
  have ha : 0 ≤ a := Real.sqrt_nonneg _
  have hb : 0 ≤ b := Real.sqrt_nonneg _
  have hsin : Real.sin θ ≤ θ := Real.sin_le hθ
  have hcos1 : Real.cos θ ≤ 1 := Real.cos_le_one θ
  have hcos2 : 1 - θ ^ 2 / 2 ≤ Real.cos θ := Real.one_sub_sq_div_two_le_cos
  have hrhs : 0 ≤ a + R * θ + b := by positivity
  refine abs_le_of_sq_le_sq' ?_ hrhs |>.2
  rw [h]
  have t1 : 0 ≤ 2 * (b * a) * (1 - Real.cos θ) := by
    have : 0 ≤ b * a := mul_nonneg hb ha
    nlinarith
  have t2 : 0 ≤ 2 * R * (b + a) * (θ - Real.sin θ) := by
    have : 0 ≤ R * (b + a) := by positivity
    nlinarith
  have t3 : 0 ≤ R ^ 2 * (θ ^ 2 - 2 + 2 * Real.cos θ) := by
    have : 0 ≤ R ^ 2 := sq_nonneg R
    nlinarith
  nlinarith

variable {R D td : ℝ} {xd q : E}

/-- never earlier than the detonation time -/
theorem k3_ge (hR : 0 < R) (hD : 0 < D) : td ≤ k3 R D td xd q := by
  unfold k3
  split_ifs with h
  · have : 0 ≤ k3path R xd q := by
      unfold k3path
      have := Real.sqrt_nonneg (‖xd‖ ^ 2 - R ^ 2)
      have := Real.sqrt_nonneg (‖q‖ ^ 2 - R ^ 2)
      nlinarith
    have : 0 ≤ k3path R xd q / D := div_nonneg this hD.le
    linarith
  · exact cone_ge td hD xd q

/-- the detonator itself is in line of sight: θ(x_d) = -2ψ ≤ 0 -/
theorem k3theta_self (hxd : 0 < ‖xd‖) : k3theta R xd xd = -2 * Real.arccos (R / ‖xd‖) := by
  unfold k3theta
  have : -(inner ℝ xd xd) / (‖xd‖ * ‖xd‖) = -1 := by
    rw [real_inner_self_eq_norm_sq]; field_simp
  rw [this, Real.arccos_neg_one]; ring

theorem k3_at_detonator (hxd : 0 < ‖xd‖) : k3 R D td xd xd = td := by
  unfold k3
  rw [if_neg, cone_self]
  rw [k3theta_self hxd]
  have := Real.arccos_nonneg (R / ‖xd‖)
  linarith

/-- in the shadow the solver's time is at least the (blocked) straight-line time -/
theorem k3_ge_cone (hR : 0 < R) (hD : 0 < D) (hxd : R ≤ ‖xd‖) (hq : R ≤ ‖q‖) :
    cone td D xd q ≤ k3 R D td xd q := by
  unfold k3
  split_ifs with h
  · unfold cone
    have := k3_path_ge_dist hR hxd hq h.le
    have := div_le_div_of_nonneg_right this hD.le
    linarith
  · exact le_rfl

/-- the burn time is the same whichever side of the shadow boundary a boundary point is
assigned to: `k3` equals the shadow formula on θ ≥ 0 and the line-of-sight formula on θ ≤ 0 -/
theorem k3_eq_shadow_of_nonneg (hR : 0 < R) (hxd : R ≤ ‖xd‖) (hq : R ≤ ‖q‖) (hθ : 0 ≤ k3theta R xd q) :
    k3 R D td xd q = td + k3path R xd q / D := by
  unfold k3
  split_ifs with h
  · rfl
  · exact (k3_boundary hR hxd hq (le_antisymm (not_lt.mp h) hθ)).symm

theorem k3theta_continuousAt {R : ℝ} {xd q : E} (hxd : ‖xd‖ ≠ 0) (hq : ‖q‖ ≠ 0) :
    ContinuousAt (k3theta R xd) q := by
  unfold k3theta
  have hn : ContinuousAt (fun x : E => ‖x‖) q := continuous_norm.continuousAt
  refine ((continuousAt_const.sub (Real.continuous_arccos.continuousAt.comp ?_)).sub
    (Real.continuous_arccos.continuousAt.comp ?_)).sub continuousAt_const
  · exact ((continuous_id.inner continuous_const).neg.continuousAt).div (continuousAt_const.mul hn)
      (mul_ne_zero hxd hq)
  · exact continuousAt_const.div hn hq

/-- the burn time is continuous on the explosive (the closed exterior of the obstacle),
in particular across the shadow boundary -/
theorem k3_continuousOn (hR : 0 < R) (hxd : R ≤ ‖xd‖) :
    ContinuousOn (k3 R D td xd) {q : E | R ≤ ‖q‖} := by
  rw [continuousOn_iff_continuous_restrict]
  have hxd0 : ‖xd‖ ≠ 0 := (hR.trans_le hxd).ne'
  have hn : ∀ x : {q : E | R ≤ ‖q‖}, ‖(x : E)‖ ≠ 0 := fun x => (hR.trans_le x.2).ne'
  have hcn : Continuous fun x : {q : E | R ≤ ‖q‖} => ‖(x : E)‖ := continuous_subtype_val.norm
  have hθ : Continuous fun x : {q : E | R ≤ ‖q‖} => k3theta R xd (x : E) := by
    unfold k3theta
    refine ((continuous_const.sub (Real.continuous_arccos.comp ?_)).sub
      (Real.continuous_arccos.comp ?_)).sub continuous_const
    · exact ((continuous_subtype_val.inner continuous_const).neg).div (continuous_const.mul hcn)
        (fun x => mul_ne_zero hxd0 (hn x))
    · exact continuous_const.div hcn hn
  have hf : Continuous fun x : {q : E | R ≤ ‖q‖} => td + k3path R xd (x : E) / D := by
    unfold k3path
    refine continuous_const.add (Continuous.div_const ?_ _)
    exact (continuous_const.add (continuous_const.mul hθ)).add
      (Real.continuous_sqrt.comp ((hcn.pow 2).sub continuous_const))
  have hg : Continuous fun x : {q : E | R ≤ ‖q‖} => cone td D xd (x : E) := by
    unfold cone
    exact continuous_const.add ((continuous_subtype_val.dist continuous_const).div_const _)
  have key := Continuous.if_le (f := fun x : {q : E | R ≤ ‖q‖} => k3theta R xd (x : E)) (g := fun _ => (0 : ℝ))
    hg hf hθ continuous_const (fun x hx => (k3_boundary hR hxd x.2 hx).symm)
  convert key using 2 with x
  simp only [Set.restrict_apply, k3]
  by_cases h : 0 < k3theta R xd (x : E)
  · rw [if_pos h, if_neg (not_le.mpr h)]
  · rw [if_neg h, if_pos (not_lt.mp h)]

end k3

/-! ### DSD cylindrical expansion -/

section dsd

theorem dsdLeg_self (D α r0 : ℝ) : dsdLeg D α r0 r0 = 0 := by
  unfold dsdLeg
  by_cases h : r0 - α / D = 0
  · simp [h]
  · simp [div_self h]

variable {D α r0 r : ℝ}

/-- the documented ODE `dr/dt = D_CJ - α/r`, i.e. `dt/dr = 1/(D_CJ - α/r)` -/
theorem dsdLeg_hasDerivAt (hD : 0 < D) (hα : 0 ≤ α) (h0 : α / D < r0) (hr : α / D < r) :
    HasDerivAt (dsdLeg D α r0) (1 / (D - α / r)) r := by
  obtain ⟨v, rfl⟩ : ∃ v, α = v * D := ⟨α / D, by field_simp⟩
  have hvD : v * D / D = v := mul_div_cancel_right₀ v hD.ne'
  rw [hvD] at h0 hr
  have hv : 0 ≤ v := by
    by_contra hneg
    have := mul_neg_of_neg_of_pos (not_le.mp hneg) hD
    linarith
  have hr0 : 0 < r := lt_of_le_of_lt hv hr
  have h1 : r - v ≠ 0 := (sub_pos.mpr hr).ne'
  have h2 : r0 - v ≠ 0 := (sub_pos.mpr h0).ne'
  have hlog : HasDerivAt (fun x : ℝ => Real.log ((x - v) / (r0 - v)))
      ((1 / (r0 - v)) / ((r - v) / (r0 - v))) r := by
    have := ((hasDerivAt_id r).sub_const v).div_const (r0 - v)
    exact this.log (div_ne_zero h1 h2)
  have h := ((((hasDerivAt_id r).sub_const r0).add (hlog.const_mul v)).div_const D)
  unfold dsdLeg
  simp only [hvD]
  refine h.congr_deriv ?_
  have e1 : 1 / (r0 - v) / ((r - v) / (r0 - v)) = 1 / (r - v) := by field_simp
  have e2 : D - v * D / r = D * (r - v) / r := by field_simp
  rw [e1, e2]
  field_simp
  ring

theorem dsdLeg_nonneg (hD : 0 < D) (hα : 0 ≤ α) (h0 : α / D < r0) (hr : r0 ≤ r) :
    0 ≤ dsdLeg D α r0 r := by
  unfold dsdLeg
  have hv : 0 ≤ α / D := div_nonneg hα hD.le
  have h2 : 0 < r0 - α / D := sub_pos.mpr h0
  have hratio : 1 ≤ (r - α / D) / (r0 - α / D) := by rw [le_div_iff₀ h2]; linarith
  have := Real.log_nonneg hratio
  have : 0 ≤ α / D * Real.log ((r - α / D) / (r0 - α / D)) := mul_nonneg hv this
  exact div_nonneg (by linarith) hD.le

theorem dsdLeg_lt (hD : 0 < D) (hα : 0 ≤ α) (h0 : α / D < r0) {a b : ℝ} (ha : α / D < a) (hab : a < b) :
    dsdLeg D α r0 a < dsdLeg D α r0 b := by
  unfold dsdLeg
  have hv : 0 ≤ α / D := div_nonneg hα hD.le
  have h2 : 0 < r0 - α / D := sub_pos.mpr h0
  have ha' : 0 < (a - α / D) / (r0 - α / D) := div_pos (sub_pos.mpr ha) h2
  have hle : (a - α / D) / (r0 - α / D) ≤ (b - α / D) / (r0 - α / D) :=
    div_le_div_of_nonneg_right (by linarith) h2.le
  have := Real.log_le_log ha' hle
  have := mul_le_mul_of_nonneg_left this hv
  exact div_lt_div_of_pos_right (by linarith) hD

theorem dsdLeg_continuousOn (hD : 0 < D) (h0 : α / D < r0) : ContinuousOn (dsdLeg D α r0) (Set.Ioi (α / D)) := by
  unfold dsdLeg
  have h2 : r0 - α / D ≠ 0 := (sub_pos.mpr h0).ne'
  refine ContinuousOn.div_const ?_ _
  refine (continuousOn_id.sub continuousOn_const).add (continuousOn_const.mul ?_)
  refine Real.continuousOn_log.comp ((continuousOn_id.sub continuousOn_const).div_const _) ?_
  intro x hx
  exact div_ne_zero (sub_pos.mpr hx).ne' h2

variable {r1 r2 D1 D2 α1 α2 td : ℝ}

/-- the documented admissible domain of the cylindrical-expansion problem -/
structure DsdAdm (r1 r2 D1 D2 α1 α2 : ℝ) : Prop where
  hr : r1 < r2
  hD1 : 0 < D1
  hD2 : 0 < D2
  hα1 : 0 ≤ α1
  hα2 : 0 ≤ α2
  h1 : α1 / D1 < r1
  h2 : α2 / D2 < r2

/-- closed form without case distinction (clamping the radius to each material) -/
theorem dsd_eq_clamp (hr : r1 ≤ r2) (r : ℝ) :
    dsd r1 r2 D1 D2 α1 α2 td r
      = td + dsdLeg D1 α1 r1 (min (max r r1) r2) + dsdLeg D2 α2 r2 (max r r2) := by
  unfold dsd
  split_ifs with h1 h2
  · rw [max_eq_right h1.le, min_eq_left hr, dsdLeg_self, max_eq_right (h1.le.trans hr), dsdLeg_self]; ring
  · rw [max_eq_left (not_lt.mp h1), min_eq_left h2.le, max_eq_right h2.le, dsdLeg_self]; ring
  · have h2' := not_lt.mp h2
    rw [min_eq_right (le_max_of_le_left h2'), max_eq_left h2']

/-- continuity of the burn time in the radius: at the detonator circle `r₁`, across the
material interface `r₂`, and everywhere else -/
theorem dsd_continuous (h : DsdAdm r1 r2 D1 D2 α1 α2) : Continuous (dsd r1 r2 D1 D2 α1 α2 td) := by
  have e : dsd r1 r2 D1 D2 α1 α2 td = fun r => td + dsdLeg D1 α1 r1 (min (max r r1) r2) + dsdLeg D2 α2 r2 (max r r2) :=
    funext (dsd_eq_clamp h.hr.le)
  rw [e]
  have c1 : Continuous fun r : ℝ => dsdLeg D1 α1 r1 (min (max r r1) r2) :=
    (dsdLeg_continuousOn h.hD1 h.h1).comp_continuous ((continuous_id.max continuous_const).min continuous_const)
      (fun r => by
        show α1 / D1 < min (max r r1) r2
        exact lt_min (h.h1.trans_le (le_max_right _ _)) (h.h1.trans h.hr))
  have c2 : Continuous fun r : ℝ => dsdLeg D2 α2 r2 (max r r2) :=
    (dsdLeg_continuousOn h.hD2 h.h2).comp_continuous (continuous_id.max continuous_const)
      (fun r => by
        show α2 / D2 < max r r2
        exact h.h2.trans_le (le_max_right _ _))
  exact (continuous_const.add c1).add c2

/-- continuity across the interface, stated as the matching of the two formulas at `r₂` -/
theorem dsd_interface : td + dsdLeg D1 α1 r1 r2 = td + dsdLeg D1 α1 r1 r2 + dsdLeg D2 α2 r2 r2 := by
  rw [dsdLeg_self]; ring

theorem dsd_ge (h : DsdAdm r1 r2 D1 D2 α1 α2) (r : ℝ) : td ≤ dsd r1 r2 D1 D2 α1 α2 td r := by
  unfold dsd
  split_ifs with h1 h2
  · exact le_rfl
  · have := dsdLeg_nonneg h.hD1 h.hα1 h.h1 (not_lt.mp h1); linarith
  · have := dsdLeg_nonneg h.hD1 h.hα1 h.h1 h.hr.le
    have := dsdLeg_nonneg h.hD2 h.hα2 h.h2 (not_lt.mp h2); linarith

theorem dsd_at_detonator (hr : r1 < r2) : dsd r1 r2 D1 D2 α1 α2 td r1 = td := by
  unfold dsd
  rw [if_neg (lt_irrefl r1), if_pos hr, dsdLeg_self]; ring

theorem dsd_inside {r : ℝ} (h : r < r1) : dsd r1 r2 D1 D2 α1 α2 td r = td := by
  unfold dsd; rw [if_pos h]

/-- strictly increasing in the radius from the detonator circle outwards -/
theorem dsd_strictMonoOn (h : DsdAdm r1 r2 D1 D2 α1 α2) :
    StrictMonoOn (dsd r1 r2 D1 D2 α1 α2 td) (Set.Ici r1) := by
  intro a ha b hb hab
  have ha' : r1 ≤ a := ha
  have hb' : r1 ≤ b := hb
  unfold dsd
  rw [if_neg (not_lt.mpr ha'), if_neg (not_lt.mpr hb')]
  by_cases hb2 : b < r2
  · rw [if_pos hb2, if_pos (hab.trans hb2)]
    have := dsdLeg_lt h.hD1 h.hα1 h.h1 (h.h1.trans_le ha') hab
    linarith
  · rw [if_neg hb2]
    have hb2' := not_lt.mp hb2
    by_cases ha2 : a < r2
    · rw [if_pos ha2]
      have := dsdLeg_lt h.hD1 h.hα1 h.h1 (h.h1.trans_le ha') ha2
      have := dsdLeg_nonneg h.hD2 h.hα2 h.h2 hb2'
      linarith
    · rw [if_neg ha2]
      have := dsdLeg_lt h.hD2 h.hα2 h.h2 (h.h2.trans_le (not_lt.mp ha2)) hab
      linarith

/-- `dt/dr = 1/(D_CJ₁ - α₁/r)` in the inner explosive -/
theorem dsd_hasDerivAt_inner (h : DsdAdm r1 r2 D1 D2 α1 α2) {r : ℝ} (h1 : r1 < r) (h2 : r < r2) :
    HasDerivAt (dsd r1 r2 D1 D2 α1 α2 td) (1 / (D1 - α1 / r)) r := by
  have hd := (dsdLeg_hasDerivAt h.hD1 h.hα1 h.h1 (h.h1.trans h1)).const_add td
  refine hd.congr_of_eventuallyEq ?_
  filter_upwards [Ioo_mem_nhds h1 h2] with x hx
  unfold dsd
  rw [if_neg (not_lt.mpr hx.1.le), if_pos hx.2]

/-- `dt/dr = 1/(D_CJ₂ - α₂/r)` in the outer explosive -/
theorem dsd_hasDerivAt_outer (h : DsdAdm r1 r2 D1 D2 α1 α2) {r : ℝ} (h2 : r2 < r) :
    HasDerivAt (dsd r1 r2 D1 D2 α1 α2 td) (1 / (D2 - α2 / r)) r := by
  have hd := (dsdLeg_hasDerivAt h.hD2 h.hα2 h.h2 (h.h2.trans h2)).const_add (td + dsdLeg D1 α1 r1 r2)
  refine hd.congr_of_eventuallyEq ?_
  filter_upwards [Ioi_mem_nhds h2] with x hx
  have hx' : r2 < x := hx
  unfold dsd
  rw [if_neg (not_lt.mpr (h.hr.trans hx').le), if_neg (not_lt.mpr hx'.le)]

end dsd

section dsdlip
variable {D α r0 : ℝ}

/-- going outwards from `a` to `b` inside one material costs at most `(b - a)` over the local
normal speed `D - α/a` at the inner radius (where the front is slowest) -/
theorem dsdLeg_sub_le (hD : 0 < D) (hα : 0 ≤ α) (h0 : α / D < r0) {a b : ℝ} (ha : α / D < a) (hab : a ≤ b) :
    dsdLeg D α r0 b - dsdLeg D α r0 a ≤ (b - a) / (D - α / a) := by
  obtain ⟨v, rfl⟩ : ∃ v, α = v * D := ⟨α / D, by field_simp⟩
  have hvD : v * D / D = v := mul_div_cancel_right₀ v hD.ne'
  rw [hvD] at h0 ha
  have hv : 0 ≤ v := by
    by_contra hneg
    have := mul_neg_of_neg_of_pos (not_le.mp hneg) hD
    linarith
  have ha0 : 0 < a := lt_of_le_of_lt hv ha
  have h1 : 0 < a - v := sub_pos.mpr ha
  have h2 : 0 < r0 - v := sub_pos.mpr h0
  have hb : 0 < b - v := by linarith
  unfold dsdLeg
  simp only [hvD]
  have hlog : Real.log ((b - v) / (r0 - v)) - Real.log ((a - v) / (r0 - v)) ≤ (b - a) / (a - v) := by
    rw [← Real.log_div (div_pos hb h2).ne' (div_pos h1 h2).ne']
    have e : (b - v) / (r0 - v) / ((a - v) / (r0 - v)) = (b - v) / (a - v) := by field_simp
    rw [e]
    have := Real.log_le_sub_one_of_pos (div_pos hb h1)
    have e2 : (b - v) / (a - v) - 1 = (b - a) / (a - v) := by field_simp; ring
    linarith
  have e3 : D - v * D / a = D * (a - v) / a := by field_simp
  rw [e3]
  have hmul := mul_le_mul_of_nonneg_left hlog hv
  have key : ((b - r0 + v * Real.log ((b - v) / (r0 - v))) - (a - r0 + v * Real.log ((a - v) / (r0 - v))))
      ≤ (b - a) * a / (a - v) := by
    have e4 : (b - a) * a / (a - v) = (b - a) + v * ((b - a) / (a - v)) := by field_simp; ring
    rw [e4]; nlinarith
  have : (b - r0 + v * Real.log ((b - v) / (r0 - v))) / D - (a - r0 + v * Real.log ((a - v) / (r0 - v))) / D
      = ((b - r0 + v * Real.log ((b - v) / (r0 - v))) - (a - r0 + v * Real.log ((a - v) / (r0 - v)))) / D := by ring
  rw [this]
  have e5 : (b - a) / (D * (a - v) / a) = (b - a) * a / (a - v) / D := by field_simp
  rw [e5]
  exact div_le_div_of_nonneg_right key hD.le

variable {r1 r2 D1 D2 α1 α2 td : ℝ}

/-- within the inner explosive, at radii ≥ ρ: `1/(D_CJ₁ - α₁/ρ)`-Lipschitz in the radius -/
theorem dsd_lipschitz_inner (h : DsdAdm r1 r2 D1 D2 α1 α2) {ρ a b : ℝ} (hρ : r1 ≤ ρ) (ha : ρ ≤ a) (hb : ρ ≤ b)
    (ha2 : a ≤ r2) (hb2 : b ≤ r2) :
    |dsd r1 r2 D1 D2 α1 α2 td a - dsd r1 r2 D1 D2 α1 α2 td b| ≤ |a - b| / (D1 - α1 / ρ) := by
  have hvρ : α1 / D1 < ρ := h.h1.trans_le hρ
  have hρ0 : 0 < ρ := lt_of_le_of_lt (div_nonneg h.hα1 h.hD1.le) hvρ
  -- the inner formula is valid on the closed interval [r1, r2]
  have inner : ∀ x, r1 ≤ x → x ≤ r2 → dsd r1 r2 D1 D2 α1 α2 td x = td + dsdLeg D1 α1 r1 x := by
    intro x hx1 hx2
    unfold dsd
    rw [if_neg (not_lt.mpr hx1)]
    split_ifs with hx
    · rfl
    · have : x = r2 := le_antisymm hx2 (not_lt.mp hx)
      rw [this, dsdLeg_self]; ring
  have speed : ∀ x, ρ ≤ x → 1 / (D1 - α1 / x) ≤ 1 / (D1 - α1 / ρ) := by
    intro x hx
    have hx0 : 0 < x := hρ0.trans_le hx
    have h1 : α1 / x ≤ α1 / ρ := div_le_div_of_nonneg_left h.hα1 hρ0 hx
    have h2 : 0 < D1 - α1 / ρ := by
      have : α1 / ρ < D1 := by
        rw [div_lt_iff₀ hρ0]; have := (div_lt_iff₀ h.hD1).mp hvρ; linarith
      linarith
    exact one_div_le_one_div_of_le h2 (by linarith)
  have step : ∀ x y, ρ ≤ x → x ≤ y → y ≤ r2 →
      dsd r1 r2 D1 D2 α1 α2 td y - dsd r1 r2 D1 D2 α1 α2 td x ≤ (y - x) / (D1 - α1 / ρ) := by
    intro x y hx hxy hy
    rw [inner x (hρ.trans hx) (hxy.trans hy), inner y (hρ.trans (hx.trans hxy)) hy]
    have := dsdLeg_sub_le h.hD1 h.hα1 h.h1 (hvρ.trans_le hx) hxy
    have h3 := speed x hx
    have : (y - x) / (D1 - α1 / x) ≤ (y - x) / (D1 - α1 / ρ) := by
      rw [div_eq_mul_one_div, div_eq_mul_one_div (y - x)]
      exact mul_le_mul_of_nonneg_left h3 (by linarith)
    linarith
  have mono : ∀ x y, ρ ≤ x → x ≤ y → y ≤ r2 →
      dsd r1 r2 D1 D2 α1 α2 td x ≤ dsd r1 r2 D1 D2 α1 α2 td y := by
    intro x y hx hxy hy
    rcases eq_or_lt_of_le hxy with e | e
    · rw [e]
    · exact (dsd_strictMonoOn h (hρ.trans hx) (hρ.trans (hx.trans hxy)) e).le
  rcases le_total a b with hab | hab
  · rw [abs_sub_comm, abs_of_nonneg (sub_nonneg.mpr (mono a b ha hab hb2)), abs_sub_comm, abs_of_nonneg (sub_nonneg.mpr hab)]
    exact step a b ha hab hb2
  · rw [abs_of_nonneg (sub_nonneg.mpr (mono b a hb hab ha2)), abs_of_nonneg (sub_nonneg.mpr hab)]
    exact step b a hb hab ha2

/-- within the outer explosive, at radii ≥ ρ ≥ r₂: `1/(D_CJ₂ - α₂/ρ)`-Lipschitz in the radius -/
theorem dsd_lipschitz_outer (h : DsdAdm r1 r2 D1 D2 α1 α2) {ρ a b : ℝ} (hρ : r2 ≤ ρ) (ha : ρ ≤ a) (hb : ρ ≤ b) :
    |dsd r1 r2 D1 D2 α1 α2 td a - dsd r1 r2 D1 D2 α1 α2 td b| ≤ |a - b| / (D2 - α2 / ρ) := by
  have hvρ : α2 / D2 < ρ := h.h2.trans_le hρ
  have hρ0 : 0 < ρ := lt_of_le_of_lt (div_nonneg h.hα2 h.hD2.le) hvρ
  have outer : ∀ x, r2 ≤ x → dsd r1 r2 D1 D2 α1 α2 td x = td + dsdLeg D1 α1 r1 r2 + dsdLeg D2 α2 r2 x := by
    intro x hx
    unfold dsd
    rw [if_neg (not_lt.mpr (h.hr.le.trans hx)), if_neg (not_lt.mpr hx)]
  have speed : ∀ x, ρ ≤ x → 1 / (D2 - α2 / x) ≤ 1 / (D2 - α2 / ρ) := by
    intro x hx
    have hx0 : 0 < x := hρ0.trans_le hx
    have h1 : α2 / x ≤ α2 / ρ := div_le_div_of_nonneg_left h.hα2 hρ0 hx
    have h2 : 0 < D2 - α2 / ρ := by
      have : α2 / ρ < D2 := by
        rw [div_lt_iff₀ hρ0]; have := (div_lt_iff₀ h.hD2).mp hvρ; linarith
      linarith
    exact one_div_le_one_div_of_le h2 (by linarith)
  have step : ∀ x y, ρ ≤ x → x ≤ y →
      dsd r1 r2 D1 D2 α1 α2 td y - dsd r1 r2 D1 D2 α1 α2 td x ≤ (y - x) / (D2 - α2 / ρ) := by
    intro x y hx hxy
    rw [outer x (hρ.trans hx), outer y (hρ.trans (hx.trans hxy))]
    have := dsdLeg_sub_le h.hD2 h.hα2 h.h2 (hvρ.trans_le hx) hxy
    have h3 := speed x hx
    have : (y - x) / (D2 - α2 / x) ≤ (y - x) / (D2 - α2 / ρ) := by
      rw [div_eq_mul_one_div, div_eq_mul_one_div (y - x)]
      exact mul_le_mul_of_nonneg_left h3 (by linarith)
    linarith
  have mono : ∀ x y, ρ ≤ x → x ≤ y →
      dsd r1 r2 D1 D2 α1 α2 td x ≤ dsd r1 r2 D1 D2 α1 α2 td y := by
    intro x y hx hxy
    rcases eq_or_lt_of_le hxy with e | e
    · rw [e]
    · exact (dsd_strictMonoOn h (h.hr.le.trans (hρ.trans hx)) (h.hr.le.trans (hρ.trans (hx.trans hxy))) e).le
  rcases le_total a b with hab | hab
  · rw [abs_sub_comm, abs_of_nonneg (sub_nonneg.mpr (mono a b ha hab)), abs_sub_comm, abs_of_nonneg (sub_nonneg.mpr hab)]
    exact step a b ha hab
  · rw [abs_of_nonneg (sub_nonneg.mpr (mono b a hb hab)), abs_of_nonneg (sub_nonneg.mpr hab)]
    exact step b a hb hab

end dsdlip

/-! ### invariance under isometries (C09) -/

section invariance
variable {E : Type*} [NormedAddCommGroup E] [InnerProductSpace ℝ E]

/-- the cone is invariant under every isometry (rotations, reflections, translations)
applied to both the detonator and the evaluation point -/
theorem cone_isometry {F : Type*} [PseudoMetricSpace F] {φ : F → F} (hφ : Isometry φ) (td D : ℝ) (c q : F) :
    cone td D (φ c) (φ q) = cone td D c q := by
  unfold cone; rw [hφ.dist_eq]

theorem k2_linearIsometry (φ : E →ₗᵢ[ℝ] E) (R D1 D2 td1 td2 td3 td4 td5 : ℝ) (d1 d2 d4 d5 q : E) :
    k2 R D1 D2 td1 td2 td3 td4 td5 (φ d1) (φ d2) (φ d4) (φ d5) (φ q)
      = k2 R D1 D2 td1 td2 td3 td4 td5 d1 d2 d4 d5 q := by
  unfold k2
  simp only [cone_isometry φ.isometry, φ.norm_map]

theorem k3theta_linearIsometry (φ : E →ₗᵢ[ℝ] E) (R : ℝ) (xd q : E) :
    k3theta R (φ xd) (φ q) = k3theta R xd q := by
  unfold k3theta
  simp only [φ.norm_map, φ.inner_map_map]

theorem k3_linearIsometry (φ : E →ₗᵢ[ℝ] E) (R D td : ℝ) (xd q : E) :
    k3 R D td (φ xd) (φ q) = k3 R D td xd q := by
  unfold k3 k3path
  simp only [k3theta_linearIsometry, cone_isometry φ.isometry, φ.norm_map]

end invariance

/-! ### change of units (C08): lengths × L, times × T, speeds × L/T -/

section scaling
variable {E : Type*} [NormedAddCommGroup E] [InnerProductSpace ℝ E]
variable {L T : ℝ}

theorem cone_scale (hL : 0 < L) (hT : 0 < T) (td D : ℝ) (c q : E) :
    cone (T * td) (L / T * D) (L • c) (L • q) = T * cone td D c q := by
  unfold cone
  rw [dist_smul₀, Real.norm_eq_abs, abs_of_pos hL]
  by_cases hD : D = 0
  · simp [hD]
  · field_simp

theorem norm_scale (hL : 0 < L) (q : E) : ‖L • q‖ = L * ‖q‖ := by
  rw [norm_smul, Real.norm_eq_abs, abs_of_pos hL]

theorem k2_scale (hL : 0 < L) (hT : 0 < T) (R D1 D2 td1 td2 td3 td4 td5 : ℝ) (d1 d2 d4 d5 q : E) :
    k2 (L * R) (L / T * D1) (L / T * D2) (T * td1) (T * td2) (T * td3) (T * td4) (T * td5)
        (L • d1) (L • d2) (L • d4) (L • d5) (L • q)
      = T * k2 R D1 D2 td1 td2 td3 td4 td5 d1 d2 d4 d5 q := by
  unfold k2
  rw [cone_scale hL hT, cone_scale hL hT, cone_scale hL hT, cone_scale hL hT, norm_scale hL]
  have e3 : T * td3 + L * ‖q‖ / (L / T * D1) = T * (td3 + ‖q‖ / D1) := by
    by_cases hD : D1 = 0
    · simp [hD]
    · field_simp
  have e4 : T * td3 + L * ‖q‖ / (L / T * D2) + L * R * (1 / (L / T * D1) - 1 / (L / T * D2))
      = T * (td3 + ‖q‖ / D2 + R * (1 / D1 - 1 / D2)) := by
    by_cases hD1 : D1 = 0 <;> by_cases hD2 : D2 = 0 <;> simp [hD1, hD2] <;> field_simp
  rw [e3, e4, ← mul_max_of_nonneg _ _ hT.le, ← mul_min_of_nonneg _ _ hT.le, ← mul_min_of_nonneg _ _ hT.le,
    ← mul_min_of_nonneg _ _ hT.le, ← mul_min_of_nonneg _ _ hT.le]

theorem k3theta_scale (hL : 0 < L) (R : ℝ) (xd q : E) : k3theta (L * R) (L • xd) (L • q) = k3theta R xd q := by
  unfold k3theta
  rw [norm_scale hL, norm_scale hL, inner_smul_left, inner_smul_right]
  have h1 : -(L * (L * inner ℝ q xd)) / (L * ‖xd‖ * (L * ‖q‖)) = -(inner ℝ q xd) / (‖xd‖ * ‖q‖) := by
    by_cases h : ‖xd‖ * ‖q‖ = 0
    · rcases mul_eq_zero.mp h with h | h <;> simp [h]
    · have h' := mul_ne_zero_iff.mp h
      field_simp
  have h2 : L * R / (L * ‖q‖) = R / ‖q‖ := mul_div_mul_left _ _ hL.ne'
  have h3 : L * R / (L * ‖xd‖) = R / ‖xd‖ := mul_div_mul_left _ _ hL.ne'
  simp only [RCLike.conj_to_real] at h1 ⊢
  rw [h1, h2, h3]

theorem sqrt_scale (hL : 0 < L) (a b : ℝ) : Real.sqrt ((L * a) ^ 2 - (L * b) ^ 2) = L * Real.sqrt (a ^ 2 - b ^ 2) := by
  rw [show (L * a) ^ 2 - (L * b) ^ 2 = L ^ 2 * (a ^ 2 - b ^ 2) by ring, Real.sqrt_mul (sq_nonneg L),
    Real.sqrt_sq hL.le]

theorem k3_scale (hL : 0 < L) (hT : 0 < T) (R D td : ℝ) (xd q : E) :
    k3 (L * R) (L / T * D) (T * td) (L • xd) (L • q) = T * k3 R D td xd q := by
  unfold k3 k3path
  rw [k3theta_scale hL, cone_scale hL hT, norm_scale hL, norm_scale hL, sqrt_scale hL, sqrt_scale hL]
  split_ifs
  · by_cases hD : D = 0
    · simp [hD]
    · field_simp
  · rfl

theorem dsdLeg_scale (hL : 0 < L) (hT : 0 < T) (D α r0 r : ℝ) :
    dsdLeg (L / T * D) (L ^ 2 / T * α) (L * r0) (L * r) = T * dsdLeg D α r0 r := by
  unfold dsdLeg
  by_cases hD : D = 0
  · simp [hD]
  have hv : L ^ 2 / T * α / (L / T * D) = L * (α / D) := by field_simp
  rw [hv]
  have hlog : (L * r - L * (α / D)) / (L * r0 - L * (α / D)) = (r - α / D) / (r0 - α / D) := by
    rw [← mul_sub, ← mul_sub, mul_div_mul_left _ _ hL.ne']
  rw [hlog]
  field_simp

theorem dsd_scale (hL : 0 < L) (hT : 0 < T) (r1 r2 D1 D2 α1 α2 td r : ℝ) :
    dsd (L * r1) (L * r2) (L / T * D1) (L / T * D2) (L ^ 2 / T * α1) (L ^ 2 / T * α2) (T * td) (L * r)
      = T * dsd r1 r2 D1 D2 α1 α2 td r := by
  unfold dsd
  rw [dsdLeg_scale hL hT, dsdLeg_scale hL hT, dsdLeg_scale hL hT]
  have c1 : L * r < L * r1 ↔ r < r1 := mul_lt_mul_iff_right₀ hL
  have c2 : L * r < L * r2 ↔ r < r2 := mul_lt_mul_iff_right₀ hL
  simp only [c1, c2]
  split_ifs <;> ring

end scaling

/-! ### explicit rotations and reflections as linear isometries -/

/-- rotation of the plane by the angle θ -/
noncomputable def rot2 (θ : ℝ) : E2 →ₗᵢ[ℝ] E2 where
  toFun q := !₂[q 0 * Real.cos θ - q 1 * Real.sin θ, q 0 * Real.sin θ + q 1 * Real.cos θ]
  map_add' q r := by ext i; fin_cases i <;> simp <;> ring
  map_smul' c q := by ext i; fin_cases i <;> simp <;> ring
  norm_map' q := by
    rw [← sqrt_norm2, ← sqrt_norm2]; congr 1; simp
    linear_combination (q 0 * q 0 + q 1 * q 1) * Real.sin_sq_add_cos_sq θ

@[simp] theorem rot2_0 (θ : ℝ) (q : E2) : (rot2 θ q) 0 = q 0 * Real.cos θ - q 1 * Real.sin θ := by simp [rot2]
@[simp] theorem rot2_1 (θ : ℝ) (q : E2) : (rot2 θ q) 1 = q 0 * Real.sin θ + q 1 * Real.cos θ := by simp [rot2]

/-- reflection of the plane through the y axis: (x, y) ↦ (-x, y) -/
noncomputable def reflX2 : E2 →ₗᵢ[ℝ] E2 where
  toFun q := !₂[-(q 0), q 1]
  map_add' q r := by ext i; fin_cases i <;> simp <;> ring
  map_smul' c q := by ext i; fin_cases i <;> simp
  norm_map' q := by
    rw [← sqrt_norm2, ← sqrt_norm2]; congr 1; simp

@[simp] theorem reflX2_0 (q : E2) : (reflX2 q) 0 = -(q 0) := by simp [reflX2]
@[simp] theorem reflX2_1 (q : E2) : (reflX2 q) 1 = q 1 := by simp [reflX2]

/-- rotation of space about the z axis by the angle θ -/
noncomputable def rotZ3 (θ : ℝ) : E3 →ₗᵢ[ℝ] E3 where
  toFun q := !₂[q 0 * Real.cos θ - q 1 * Real.sin θ, q 0 * Real.sin θ + q 1 * Real.cos θ, q 2]
  map_add' q r := by ext i; fin_cases i <;> simp <;> ring
  map_smul' c q := by ext i; fin_cases i <;> simp <;> ring
  norm_map' q := by
    rw [← sqrt_norm3, ← sqrt_norm3]; congr 1; simp
    linear_combination (q 0 * q 0 + q 1 * q 1) * Real.sin_sq_add_cos_sq θ

@[simp] theorem rotZ3_0 (θ : ℝ) (q : E3) : (rotZ3 θ q) 0 = q 0 * Real.cos θ - q 1 * Real.sin θ := by simp [rotZ3]
@[simp] theorem rotZ3_1 (θ : ℝ) (q : E3) : (rotZ3 θ q) 1 = q 0 * Real.sin θ + q 1 * Real.cos θ := by simp [rotZ3]
@[simp] theorem rotZ3_2 (θ : ℝ) (q : E3) : (rotZ3 θ q) 2 = q 2 := by simp [rotZ3]

/-- reflection of space through the plane x = 0 (a plane containing the z axis) -/
noncomputable def reflX3 : E3 →ₗᵢ[ℝ] E3 where
  toFun q := !₂[-(q 0), q 1, q 2]
  map_add' q r := by ext i; fin_cases i <;> simp <;> ring
  map_smul' c q := by ext i; fin_cases i <;> simp
  norm_map' q := by
    rw [← sqrt_norm3, ← sqrt_norm3]; congr 1; simp

@[simp] theorem reflX3_0 (q : E3) : (reflX3 q) 0 = -(q 0) := by simp [reflX3]
@[simp] theorem reflX3_1 (q : E3) : (reflX3 q) 1 = q 1 := by simp [reflX3]
@[simp] theorem reflX3_2 (q : E3) : (reflX3 q) 2 = q 2 := by simp [reflX3]

end EPV.Burn
