-- Written by EPV/Props/C16/gen_res.py (templates over symmetry and matrix entry); plain Lean, reviewed as such.

/-
The four residual classes of residual_functions.py over an ABSTRACT equation of state `s : EPV.Spec.EOS`:
the traced models were generated with an EOS stub whose methods return free symbols (`eos_e`, `eos_de_drho`, …);
here each symbol is instantiated with the value of the corresponding method of `s` at the state at which the
Python code calls it (the stub checks the call is `method(rho, second unknown)` — density first).

`F`, `J`, `Jinv`, `detv` are the tree-level traced `F`, `F_prime`, `F_prime_inv`, `determinant`.
-/
import EPV.Gen.ResEnergyAbsS0_resD
import EPV.Gen.ResEnergyAbsS0_jac
import EPV.Gen.ResEnergyAbsS0_jacinv
import EPV.Gen.ResEnergyAbsS0_det
import EPV.Gen.ResEnergyAbsS1_resD
import EPV.Gen.ResEnergyAbsS1_jac
import EPV.Gen.ResEnergyAbsS1_jacinv
import EPV.Gen.ResEnergyAbsS1_det
import EPV.Gen.ResEnergyAbsS2_resD
import EPV.Gen.ResEnergyAbsS2_jac
import EPV.Gen.ResEnergyAbsS2_jacinv
import EPV.Gen.ResEnergyAbsS2_det
import EPV.Gen.ResPressureAbsS0_resD
import EPV.Gen.ResPressureAbsS0_jac
import EPV.Gen.ResPressureAbsS0_jacinv
import EPV.Gen.ResPressureAbsS0_det
import EPV.Gen.ResPressureAbsS1_resD
import EPV.Gen.ResPressureAbsS1_jac
import EPV.Gen.ResPressureAbsS1_jacinv
import EPV.Gen.ResPressureAbsS1_det
import EPV.Gen.ResPressureAbsS2_resD
import EPV.Gen.ResPressureAbsS2_jac
import EPV.Gen.ResPressureAbsS2_jacinv
import EPV.Gen.ResPressureAbsS2_det
import EPV.Gen.ResSEnergyAbsS0_resD
import EPV.Gen.ResSEnergyAbsS0_jac
import EPV.Gen.ResSEnergyAbsS0_jacinv
import EPV.Gen.ResSEnergyAbsS0_det
import EPV.Gen.ResSPressureAbsS0_resD
import EPV.Gen.ResSPressureAbsS0_jac
import EPV.Gen.ResSPressureAbsS0_jacinv
import EPV.Gen.ResSPressureAbsS0_det
import EPV.Lemmas.C16Attr
import EPV.Spec.EOS
import EPV.Tactics

set_option linter.all false

open EPV EPV.Gen EPV.Spec

namespace EPV.C16

namespace EnergyS0
@[epv_c16] def pres (s : EOS) (ic : NohIC) (ρ x : ℝ) : ResEnergyAbsS0_res.P :=
  { P_0 := ic.P_0, eos_e := s.e ρ x, eos_e_init := s.e ic.rho_0 ic.P_0, rho_0 := ic.rho_0, u_0 := ic.u_0 }
@[epv_c16] def pjac (s : EOS) (ic : NohIC) (ρ x : ℝ) : ResEnergyAbsS0_jac.P :=
  { P_0 := ic.P_0, eos_de_dP := s.de_dP ρ x, eos_de_drho := s.de_drho ρ x, rho_0 := ic.rho_0, u_0 := ic.u_0 }
@[epv_c16] def pjacinv (s : EOS) (ic : NohIC) (ρ x : ℝ) : ResEnergyAbsS0_jacinv.P :=
  { P_0 := ic.P_0, eos_de_dP := s.de_dP ρ x, eos_de_drho := s.de_drho ρ x, rho_0 := ic.rho_0, u_0 := ic.u_0 }
@[epv_c16] def pdet (s : EOS) (ic : NohIC) (ρ x : ℝ) : ResEnergyAbsS0_det.P :=
  { P_0 := ic.P_0, eos_de_dP := s.de_dP ρ x, eos_de_drho := s.de_drho ρ x, rho_0 := ic.rho_0, u_0 := ic.u_0 }
/-- `energy_noh_residual.F(state)` (symmetry 0), the EOS methods being evaluated at the state -/
noncomputable def F (s : EOS) (ic : NohIC) (ρ x D : ℝ) : Fin 3 → ℝ :=
  ![ResEnergyAbsS0_res.F0 (pres s ic ρ x) ρ x D, ResEnergyAbsS0_res.F1 (pres s ic ρ x) ρ x D, ResEnergyAbsS0_res.F2 (pres s ic ρ x) ρ x D]
/-- `energy_noh_residual.F_prime(state)` -/
noncomputable def J (s : EOS) (ic : NohIC) (ρ x D : ℝ) : Matrix (Fin 3) (Fin 3) ℝ :=
  !![ResEnergyAbsS0_jac.DF00 (pjac s ic ρ x) ρ x D, ResEnergyAbsS0_jac.DF01 (pjac s ic ρ x) ρ x D, ResEnergyAbsS0_jac.DF02 (pjac s ic ρ x) ρ x D;
     ResEnergyAbsS0_jac.DF10 (pjac s ic ρ x) ρ x D, ResEnergyAbsS0_jac.DF11 (pjac s ic ρ x) ρ x D, ResEnergyAbsS0_jac.DF12 (pjac s ic ρ x) ρ x D;
     ResEnergyAbsS0_jac.DF20 (pjac s ic ρ x) ρ x D, ResEnergyAbsS0_jac.DF21 (pjac s ic ρ x) ρ x D, ResEnergyAbsS0_jac.DF22 (pjac s ic ρ x) ρ x D]
/-- `energy_noh_residual.F_prime_inv(state)` (numpy.linalg.inv modelled as adjugate / determinant) -/
noncomputable def Jinv (s : EOS) (ic : NohIC) (ρ x D : ℝ) : Matrix (Fin 3) (Fin 3) ℝ :=
  !![ResEnergyAbsS0_jacinv.DFI00 (pjacinv s ic ρ x) ρ x D, ResEnergyAbsS0_jacinv.DFI01 (pjacinv s ic ρ x) ρ x D, ResEnergyAbsS0_jacinv.DFI02 (pjacinv s ic ρ x) ρ x D;
     ResEnergyAbsS0_jacinv.DFI10 (pjacinv s ic ρ x) ρ x D, ResEnergyAbsS0_jacinv.DFI11 (pjacinv s ic ρ x) ρ x D, ResEnergyAbsS0_jacinv.DFI12 (pjacinv s ic ρ x) ρ x D;
     ResEnergyAbsS0_jacinv.DFI20 (pjacinv s ic ρ x) ρ x D, ResEnergyAbsS0_jacinv.DFI21 (pjacinv s ic ρ x) ρ x D, ResEnergyAbsS0_jacinv.DFI22 (pjacinv s ic ρ x) ρ x D]
/-- `energy_noh_residual.determinant` of `F_prime(state)` (numpy.linalg.det modelled as the cofactor expansion) -/
noncomputable def detv (s : EOS) (ic : NohIC) (ρ x D : ℝ) : ℝ := ResEnergyAbsS0_det.det (pdet s ic ρ x) ρ x D
end EnergyS0

namespace EnergyS1
@[epv_c16] def pres (s : EOS) (ic : NohIC) (ρ x : ℝ) : ResEnergyAbsS1_res.P :=
  { P_0 := ic.P_0, eos_e := s.e ρ x, eos_e_init := s.e ic.rho_0 ic.P_0, rho_0 := ic.rho_0, u_0 := ic.u_0 }
@[epv_c16] def pjac (s : EOS) (ic : NohIC) (ρ x : ℝ) : ResEnergyAbsS1_jac.P :=
  { P_0 := ic.P_0, eos_de_dP := s.de_dP ρ x, eos_de_drho := s.de_drho ρ x, rho_0 := ic.rho_0, u_0 := ic.u_0 }
@[epv_c16] def pjacinv (s : EOS) (ic : NohIC) (ρ x : ℝ) : ResEnergyAbsS1_jacinv.P :=
  { P_0 := ic.P_0, eos_de_dP := s.de_dP ρ x, eos_de_drho := s.de_drho ρ x, rho_0 := ic.rho_0, u_0 := ic.u_0 }
@[epv_c16] def pdet (s : EOS) (ic : NohIC) (ρ x : ℝ) : ResEnergyAbsS1_det.P :=
  { P_0 := ic.P_0, eos_de_dP := s.de_dP ρ x, eos_de_drho := s.de_drho ρ x, rho_0 := ic.rho_0, u_0 := ic.u_0 }
/-- `energy_noh_residual.F(state)` (symmetry 1), the EOS methods being evaluated at the state -/
noncomputable def F (s : EOS) (ic : NohIC) (ρ x D : ℝ) : Fin 3 → ℝ :=
  ![ResEnergyAbsS1_res.F0 (pres s ic ρ x) ρ x D, ResEnergyAbsS1_res.F1 (pres s ic ρ x) ρ x D, ResEnergyAbsS1_res.F2 (pres s ic ρ x) ρ x D]
/-- `energy_noh_residual.F_prime(state)` -/
noncomputable def J (s : EOS) (ic : NohIC) (ρ x D : ℝ) : Matrix (Fin 3) (Fin 3) ℝ :=
  !![ResEnergyAbsS1_jac.DF00 (pjac s ic ρ x) ρ x D, ResEnergyAbsS1_jac.DF01 (pjac s ic ρ x) ρ x D, ResEnergyAbsS1_jac.DF02 (pjac s ic ρ x) ρ x D;
     ResEnergyAbsS1_jac.DF10 (pjac s ic ρ x) ρ x D, ResEnergyAbsS1_jac.DF11 (pjac s ic ρ x) ρ x D, ResEnergyAbsS1_jac.DF12 (pjac s ic ρ x) ρ x D;
     ResEnergyAbsS1_jac.DF20 (pjac s ic ρ x) ρ x D, ResEnergyAbsS1_jac.DF21 (pjac s ic ρ x) ρ x D, ResEnergyAbsS1_jac.DF22 (pjac s ic ρ x) ρ x D]
/-- `energy_noh_residual.F_prime_inv(state)` (numpy.linalg.inv modelled as adjugate / determinant) -/
noncomputable def Jinv (s : EOS) (ic : NohIC) (ρ x D : ℝ) : Matrix (Fin 3) (Fin 3) ℝ :=
  !![ResEnergyAbsS1_jacinv.DFI00 (pjacinv s ic ρ x) ρ x D, ResEnergyAbsS1_jacinv.DFI01 (pjacinv s ic ρ x) ρ x D, ResEnergyAbsS1_jacinv.DFI02 (pjacinv s ic ρ x) ρ x D;
     ResEnergyAbsS1_jacinv.DFI10 (pjacinv s ic ρ x) ρ x D, ResEnergyAbsS1_jacinv.DFI11 (pjacinv s ic ρ x) ρ x D, ResEnergyAbsS1_jacinv.DFI12 (pjacinv s ic ρ x) ρ x D;
     ResEnergyAbsS1_jacinv.DFI20 (pjacinv s ic ρ x) ρ x D, ResEnergyAbsS1_jacinv.DFI21 (pjacinv s ic ρ x) ρ x D, ResEnergyAbsS1_jacinv.DFI22 (pjacinv s ic ρ x) ρ x D]
/-- `energy_noh_residual.determinant` of `F_prime(state)` (numpy.linalg.det modelled as the cofactor expansion) -/
noncomputable def detv (s : EOS) (ic : NohIC) (ρ x D : ℝ) : ℝ := ResEnergyAbsS1_det.det (pdet s ic ρ x) ρ x D
end EnergyS1

namespace EnergyS2
@[epv_c16] def pres (s : EOS) (ic : NohIC) (ρ x : ℝ) : ResEnergyAbsS2_res.P :=
  { P_0 := ic.P_0, eos_e := s.e ρ x, eos_e_init := s.e ic.rho_0 ic.P_0, rho_0 := ic.rho_0, u_0 := ic.u_0 }
@[epv_c16] def pjac (s : EOS) (ic : NohIC) (ρ x : ℝ) : ResEnergyAbsS2_jac.P :=
  { P_0 := ic.P_0, eos_de_dP := s.de_dP ρ x, eos_de_drho := s.de_drho ρ x, rho_0 := ic.rho_0, u_0 := ic.u_0 }
@[epv_c16] def pjacinv (s : EOS) (ic : NohIC) (ρ x : ℝ) : ResEnergyAbsS2_jacinv.P :=
  { P_0 := ic.P_0, eos_de_dP := s.de_dP ρ x, eos_de_drho := s.de_drho ρ x, rho_0 := ic.rho_0, u_0 := ic.u_0 }
@[epv_c16] def pdet (s : EOS) (ic : NohIC) (ρ x : ℝ) : ResEnergyAbsS2_det.P :=
  { P_0 := ic.P_0, eos_de_dP := s.de_dP ρ x, eos_de_drho := s.de_drho ρ x, rho_0 := ic.rho_0, u_0 := ic.u_0 }
/-- `energy_noh_residual.F(state)` (symmetry 2), the EOS methods being evaluated at the state -/
noncomputable def F (s : EOS) (ic : NohIC) (ρ x D : ℝ) : Fin 3 → ℝ :=
  ![ResEnergyAbsS2_res.F0 (pres s ic ρ x) ρ x D, ResEnergyAbsS2_res.F1 (pres s ic ρ x) ρ x D, ResEnergyAbsS2_res.F2 (pres s ic ρ x) ρ x D]
/-- `energy_noh_residual.F_prime(state)` -/
noncomputable def J (s : EOS) (ic : NohIC) (ρ x D : ℝ) : Matrix (Fin 3) (Fin 3) ℝ :=
  !![ResEnergyAbsS2_jac.DF00 (pjac s ic ρ x) ρ x D, ResEnergyAbsS2_jac.DF01 (pjac s ic ρ x) ρ x D, ResEnergyAbsS2_jac.DF02 (pjac s ic ρ x) ρ x D;
     ResEnergyAbsS2_jac.DF10 (pjac s ic ρ x) ρ x D, ResEnergyAbsS2_jac.DF11 (pjac s ic ρ x) ρ x D, ResEnergyAbsS2_jac.DF12 (pjac s ic ρ x) ρ x D;
     ResEnergyAbsS2_jac.DF20 (pjac s ic ρ x) ρ x D, ResEnergyAbsS2_jac.DF21 (pjac s ic ρ x) ρ x D, ResEnergyAbsS2_jac.DF22 (pjac s ic ρ x) ρ x D]
/-- `energy_noh_residual.F_prime_inv(state)` (numpy.linalg.inv modelled as adjugate / determinant) -/
noncomputable def Jinv (s : EOS) (ic : NohIC) (ρ x D : ℝ) : Matrix (Fin 3) (Fin 3) ℝ :=
  !![ResEnergyAbsS2_jacinv.DFI00 (pjacinv s ic ρ x) ρ x D, ResEnergyAbsS2_jacinv.DFI01 (pjacinv s ic ρ x) ρ x D, ResEnergyAbsS2_jacinv.DFI02 (pjacinv s ic ρ x) ρ x D;
     ResEnergyAbsS2_jacinv.DFI10 (pjacinv s ic ρ x) ρ x D, ResEnergyAbsS2_jacinv.DFI11 (pjacinv s ic ρ x) ρ x D, ResEnergyAbsS2_jacinv.DFI12 (pjacinv s ic ρ x) ρ x D;
     ResEnergyAbsS2_jacinv.DFI20 (pjacinv s ic ρ x) ρ x D, ResEnergyAbsS2_jacinv.DFI21 (pjacinv s ic ρ x) ρ x D, ResEnergyAbsS2_jacinv.DFI22 (pjacinv s ic ρ x) ρ x D]
/-- `energy_noh_residual.determinant` of `F_prime(state)` (numpy.linalg.det modelled as the cofactor expansion) -/
noncomputable def detv (s : EOS) (ic : NohIC) (ρ x D : ℝ) : ℝ := ResEnergyAbsS2_det.det (pdet s ic ρ x) ρ x D
end EnergyS2

namespace PressureS0
@[epv_c16] def pres (s : EOS) (ic : NohIC) (ρ x : ℝ) : ResPressureAbsS0_res.P :=
  { P_0 := ic.P_0, eos_P := s.P ρ x, eos_e_init := s.e ic.rho_0 ic.P_0, rho_0 := ic.rho_0, u_0 := ic.u_0 }
@[epv_c16] def pjac (s : EOS) (ic : NohIC) (ρ x : ℝ) : ResPressureAbsS0_jac.P :=
  { P_0 := ic.P_0, eos_dP_de := s.dP_de ρ x, eos_dP_drho := s.dP_drho ρ x, rho_0 := ic.rho_0, u_0 := ic.u_0 }
@[epv_c16] def pjacinv (s : EOS) (ic : NohIC) (ρ x : ℝ) : ResPressureAbsS0_jacinv.P :=
  { P_0 := ic.P_0, eos_dP_de := s.dP_de ρ x, eos_dP_drho := s.dP_drho ρ x, rho_0 := ic.rho_0, u_0 := ic.u_0 }
@[epv_c16] def pdet (s : EOS) (ic : NohIC) (ρ x : ℝ) : ResPressureAbsS0_det.P :=
  { P_0 := ic.P_0, eos_dP_de := s.dP_de ρ x, eos_dP_drho := s.dP_drho ρ x, rho_0 := ic.rho_0, u_0 := ic.u_0 }
/-- `pressure_noh_residual.F(state)` (symmetry 0), the EOS methods being evaluated at the state -/
noncomputable def F (s : EOS) (ic : NohIC) (ρ x D : ℝ) : Fin 3 → ℝ :=
  ![ResPressureAbsS0_res.F0 (pres s ic ρ x) ρ x D, ResPressureAbsS0_res.F1 (pres s ic ρ x) ρ x D, ResPressureAbsS0_res.F2 (pres s ic ρ x) ρ x D]
/-- `pressure_noh_residual.F_prime(state)` -/
noncomputable def J (s : EOS) (ic : NohIC) (ρ x D : ℝ) : Matrix (Fin 3) (Fin 3) ℝ :=
  !![ResPressureAbsS0_jac.DF00 (pjac s ic ρ x) ρ x D, ResPressureAbsS0_jac.DF01 (pjac s ic ρ x) ρ x D, ResPressureAbsS0_jac.DF02 (pjac s ic ρ x) ρ x D;
     ResPressureAbsS0_jac.DF10 (pjac s ic ρ x) ρ x D, ResPressureAbsS0_jac.DF11 (pjac s ic ρ x) ρ x D, ResPressureAbsS0_jac.DF12 (pjac s ic ρ x) ρ x D;
     ResPressureAbsS0_jac.DF20 (pjac s ic ρ x) ρ x D, ResPressureAbsS0_jac.DF21 (pjac s ic ρ x) ρ x D, ResPressureAbsS0_jac.DF22 (pjac s ic ρ x) ρ x D]
/-- `pressure_noh_residual.F_prime_inv(state)` (numpy.linalg.inv modelled as adjugate / determinant) -/
noncomputable def Jinv (s : EOS) (ic : NohIC) (ρ x D : ℝ) : Matrix (Fin 3) (Fin 3) ℝ :=
  !![ResPressureAbsS0_jacinv.DFI00 (pjacinv s ic ρ x) ρ x D, ResPressureAbsS0_jacinv.DFI01 (pjacinv s ic ρ x) ρ x D, ResPressureAbsS0_jacinv.DFI02 (pjacinv s ic ρ x) ρ x D;
     ResPressureAbsS0_jacinv.DFI10 (pjacinv s ic ρ x) ρ x D, ResPressureAbsS0_jacinv.DFI11 (pjacinv s ic ρ x) ρ x D, ResPressureAbsS0_jacinv.DFI12 (pjacinv s ic ρ x) ρ x D;
     ResPressureAbsS0_jacinv.DFI20 (pjacinv s ic ρ x) ρ x D, ResPressureAbsS0_jacinv.DFI21 (pjacinv s ic ρ x) ρ x D, ResPressureAbsS0_jacinv.DFI22 (pjacinv s ic ρ x) ρ x D]
/-- `pressure_noh_residual.determinant` of `F_prime(state)` (numpy.linalg.det modelled as the cofactor expansion) -/
noncomputable def detv (s : EOS) (ic : NohIC) (ρ x D : ℝ) : ℝ := ResPressureAbsS0_det.det (pdet s ic ρ x) ρ x D
end PressureS0

namespace PressureS1
@[epv_c16] def pres (s : EOS) (ic : NohIC) (ρ x : ℝ) : ResPressureAbsS1_res.P :=
  { P_0 := ic.P_0, eos_P := s.P ρ x, eos_e_init := s.e ic.rho_0 ic.P_0, rho_0 := ic.rho_0, u_0 := ic.u_0 }
@[epv_c16] def pjac (s : EOS) (ic : NohIC) (ρ x : ℝ) : ResPressureAbsS1_jac.P :=
  { P_0 := ic.P_0, eos_dP_de := s.dP_de ρ x, eos_dP_drho := s.dP_drho ρ x, rho_0 := ic.rho_0, u_0 := ic.u_0 }
@[epv_c16] def pjacinv (s : EOS) (ic : NohIC) (ρ x : ℝ) : ResPressureAbsS1_jacinv.P :=
  { P_0 := ic.P_0, eos_dP_de := s.dP_de ρ x, eos_dP_drho := s.dP_drho ρ x, rho_0 := ic.rho_0, u_0 := ic.u_0 }
@[epv_c16] def pdet (s : EOS) (ic : NohIC) (ρ x : ℝ) : ResPressureAbsS1_det.P :=
  { P_0 := ic.P_0, eos_dP_de := s.dP_de ρ x, eos_dP_drho := s.dP_drho ρ x, rho_0 := ic.rho_0, u_0 := ic.u_0 }
/-- `pressure_noh_residual.F(state)` (symmetry 1), the EOS methods being evaluated at the state -/
noncomputable def F (s : EOS) (ic : NohIC) (ρ x D : ℝ) : Fin 3 → ℝ :=
  ![ResPressureAbsS1_res.F0 (pres s ic ρ x) ρ x D, ResPressureAbsS1_res.F1 (pres s ic ρ x) ρ x D, ResPressureAbsS1_res.F2 (pres s ic ρ x) ρ x D]
/-- `pressure_noh_residual.F_prime(state)` -/
noncomputable def J (s : EOS) (ic : NohIC) (ρ x D : ℝ) : Matrix (Fin 3) (Fin 3) ℝ :=
  !![ResPressureAbsS1_jac.DF00 (pjac s ic ρ x) ρ x D, ResPressureAbsS1_jac.DF01 (pjac s ic ρ x) ρ x D, ResPressureAbsS1_jac.DF02 (pjac s ic ρ x) ρ x D;
     ResPressureAbsS1_jac.DF10 (pjac s ic ρ x) ρ x D, ResPressureAbsS1_jac.DF11 (pjac s ic ρ x) ρ x D, ResPressureAbsS1_jac.DF12 (pjac s ic ρ x) ρ x D;
     ResPressureAbsS1_jac.DF20 (pjac s ic ρ x) ρ x D, ResPressureAbsS1_jac.DF21 (pjac s ic ρ x) ρ x D, ResPressureAbsS1_jac.DF22 (pjac s ic ρ x) ρ x D]
/-- `pressure_noh_residual.F_prime_inv(state)` (numpy.linalg.inv modelled as adjugate / determinant) -/
noncomputable def Jinv (s : EOS) (ic : NohIC) (ρ x D : ℝ) : Matrix (Fin 3) (Fin 3) ℝ :=
  !![ResPressureAbsS1_jacinv.DFI00 (pjacinv s ic ρ x) ρ x D, ResPressureAbsS1_jacinv.DFI01 (pjacinv s ic ρ x) ρ x D, ResPressureAbsS1_jacinv.DFI02 (pjacinv s ic ρ x) ρ x D;
     ResPressureAbsS1_jacinv.DFI10 (pjacinv s ic ρ x) ρ x D, ResPressureAbsS1_jacinv.DFI11 (pjacinv s ic ρ x) ρ x D, ResPressureAbsS1_jacinv.DFI12 (pjacinv s ic ρ x) ρ x D;
     ResPressureAbsS1_jacinv.DFI20 (pjacinv s ic ρ x) ρ x D, ResPressureAbsS1_jacinv.DFI21 (pjacinv s ic ρ x) ρ x D, ResPressureAbsS1_jacinv.DFI22 (pjacinv s ic ρ x) ρ x D]
/-- `pressure_noh_residual.determinant` of `F_prime(state)` (numpy.linalg.det modelled as the cofactor expansion) -/
noncomputable def detv (s : EOS) (ic : NohIC) (ρ x D : ℝ) : ℝ := ResPressureAbsS1_det.det (pdet s ic ρ x) ρ x D
end PressureS1

namespace PressureS2
@[epv_c16] def pres (s : EOS) (ic : NohIC) (ρ x : ℝ) : ResPressureAbsS2_res.P :=
  { P_0 := ic.P_0, eos_P := s.P ρ x, eos_e_init := s.e ic.rho_0 ic.P_0, rho_0 := ic.rho_0, u_0 := ic.u_0 }
@[epv_c16] def pjac (s : EOS) (ic : NohIC) (ρ x : ℝ) : ResPressureAbsS2_jac.P :=
  { P_0 := ic.P_0, eos_dP_de := s.dP_de ρ x, eos_dP_drho := s.dP_drho ρ x, rho_0 := ic.rho_0, u_0 := ic.u_0 }
@[epv_c16] def pjacinv (s : EOS) (ic : NohIC) (ρ x : ℝ) : ResPressureAbsS2_jacinv.P :=
  { P_0 := ic.P_0, eos_dP_de := s.dP_de ρ x, eos_dP_drho := s.dP_drho ρ x, rho_0 := ic.rho_0, u_0 := ic.u_0 }
@[epv_c16] def pdet (s : EOS) (ic : NohIC) (ρ x : ℝ) : ResPressureAbsS2_det.P :=
  { P_0 := ic.P_0, eos_dP_de := s.dP_de ρ x, eos_dP_drho := s.dP_drho ρ x, rho_0 := ic.rho_0, u_0 := ic.u_0 }
/-- `pressure_noh_residual.F(state)` (symmetry 2), the EOS methods being evaluated at the state -/
noncomputable def F (s : EOS) (ic : NohIC) (ρ x D : ℝ) : Fin 3 → ℝ :=
  ![ResPressureAbsS2_res.F0 (pres s ic ρ x) ρ x D, ResPressureAbsS2_res.F1 (pres s ic ρ x) ρ x D, ResPressureAbsS2_res.F2 (pres s ic ρ x) ρ x D]
/-- `pressure_noh_residual.F_prime(state)` -/
noncomputable def J (s : EOS) (ic : NohIC) (ρ x D : ℝ) : Matrix (Fin 3) (Fin 3) ℝ :=
  !![ResPressureAbsS2_jac.DF00 (pjac s ic ρ x) ρ x D, ResPressureAbsS2_jac.DF01 (pjac s ic ρ x) ρ x D, ResPressureAbsS2_jac.DF02 (pjac s ic ρ x) ρ x D;
     ResPressureAbsS2_jac.DF10 (pjac s ic ρ x) ρ x D, ResPressureAbsS2_jac.DF11 (pjac s ic ρ x) ρ x D, ResPressureAbsS2_jac.DF12 (pjac s ic ρ x) ρ x D;
     ResPressureAbsS2_jac.DF20 (pjac s ic ρ x) ρ x D, ResPressureAbsS2_jac.DF21 (pjac s ic ρ x) ρ x D, ResPressureAbsS2_jac.DF22 (pjac s ic ρ x) ρ x D]
/-- `pressure_noh_residual.F_prime_inv(state)` (numpy.linalg.inv modelled as adjugate / determinant) -/
noncomputable def Jinv (s : EOS) (ic : NohIC) (ρ x D : ℝ) : Matrix (Fin 3) (Fin 3) ℝ :=
  !![ResPressureAbsS2_jacinv.DFI00 (pjacinv s ic ρ x) ρ x D, ResPressureAbsS2_jacinv.DFI01 (pjacinv s ic ρ x) ρ x D, ResPressureAbsS2_jacinv.DFI02 (pjacinv s ic ρ x) ρ x D;
     ResPressureAbsS2_jacinv.DFI10 (pjacinv s ic ρ x) ρ x D, ResPressureAbsS2_jacinv.DFI11 (pjacinv s ic ρ x) ρ x D, ResPressureAbsS2_jacinv.DFI12 (pjacinv s ic ρ x) ρ x D;
     ResPressureAbsS2_jacinv.DFI20 (pjacinv s ic ρ x) ρ x D, ResPressureAbsS2_jacinv.DFI21 (pjacinv s ic ρ x) ρ x D, ResPressureAbsS2_jacinv.DFI22 (pjacinv s ic ρ x) ρ x D]
/-- `pressure_noh_residual.determinant` of `F_prime(state)` (numpy.linalg.det modelled as the cofactor expansion) -/
noncomputable def detv (s : EOS) (ic : NohIC) (ρ x D : ℝ) : ℝ := ResPressureAbsS2_det.det (pdet s ic ρ x) ρ x D
end PressureS2

namespace SEnergyS0
@[epv_c16] def pres (s : EOS) (ic : NohIC) (ρ x : ℝ) : ResSEnergyAbsS0_res.P :=
  { P_0 := ic.P_0, eos_e := s.e ρ x, eos_e_init := s.e ic.rho_0 ic.P_0, rho_0 := ic.rho_0, u_0 := ic.u_0 }
@[epv_c16] def pjac (s : EOS) (ic : NohIC) (ρ x : ℝ) : ResSEnergyAbsS0_jac.P :=
  { P_0 := ic.P_0, eos_de_dP := s.de_dP ρ x, eos_de_drho := s.de_drho ρ x, rho_0 := ic.rho_0, u_0 := ic.u_0 }
@[epv_c16] def pjacinv (s : EOS) (ic : NohIC) (ρ x : ℝ) : ResSEnergyAbsS0_jacinv.P :=
  { P_0 := ic.P_0, eos_de_dP := s.de_dP ρ x, eos_de_drho := s.de_drho ρ x, rho_0 := ic.rho_0, u_0 := ic.u_0 }
@[epv_c16] def pdet (s : EOS) (ic : NohIC) (ρ x : ℝ) : ResSEnergyAbsS0_det.P :=
  { P_0 := ic.P_0, eos_de_dP := s.de_dP ρ x, eos_de_drho := s.de_drho ρ x, rho_0 := ic.rho_0, u_0 := ic.u_0 }
/-- `simplified_energy_noh_residual.F(state)` (symmetry 0), the EOS methods being evaluated at the state -/
noncomputable def F (s : EOS) (ic : NohIC) (ρ x : ℝ) : Fin 2 → ℝ :=
  ![ResSEnergyAbsS0_res.F0 (pres s ic ρ x) ρ x, ResSEnergyAbsS0_res.F1 (pres s ic ρ x) ρ x]
/-- `simplified_energy_noh_residual.F_prime(state)` -/
noncomputable def J (s : EOS) (ic : NohIC) (ρ x : ℝ) : Matrix (Fin 2) (Fin 2) ℝ :=
  !![ResSEnergyAbsS0_jac.DF00 (pjac s ic ρ x) ρ x, ResSEnergyAbsS0_jac.DF01 (pjac s ic ρ x) ρ x;
     ResSEnergyAbsS0_jac.DF10 (pjac s ic ρ x) ρ x, ResSEnergyAbsS0_jac.DF11 (pjac s ic ρ x) ρ x]
/-- `simplified_energy_noh_residual.F_prime_inv(state)` (hand-coded in the class) -/
noncomputable def Jinv (s : EOS) (ic : NohIC) (ρ x : ℝ) : Matrix (Fin 2) (Fin 2) ℝ :=
  !![ResSEnergyAbsS0_jacinv.DFI00 (pjacinv s ic ρ x) ρ x, ResSEnergyAbsS0_jacinv.DFI01 (pjacinv s ic ρ x) ρ x;
     ResSEnergyAbsS0_jacinv.DFI10 (pjacinv s ic ρ x) ρ x, ResSEnergyAbsS0_jacinv.DFI11 (pjacinv s ic ρ x) ρ x]
/-- `simplified_energy_noh_residual.determinant`(state) (hand-coded in the class) -/
noncomputable def detv (s : EOS) (ic : NohIC) (ρ x : ℝ) : ℝ := ResSEnergyAbsS0_det.det (pdet s ic ρ x) ρ x
end SEnergyS0

namespace SPressureS0
@[epv_c16] def pres (s : EOS) (ic : NohIC) (ρ x : ℝ) : ResSPressureAbsS0_res.P :=
  { P_0 := ic.P_0, eos_P := s.P ρ x, eos_e_init := s.e ic.rho_0 ic.P_0, rho_0 := ic.rho_0, u_0 := ic.u_0 }
@[epv_c16] def pjac (s : EOS) (ic : NohIC) (ρ x : ℝ) : ResSPressureAbsS0_jac.P :=
  { P_0 := ic.P_0, eos_P := s.P ρ x, eos_dP_de := s.dP_de ρ x, eos_dP_drho := s.dP_drho ρ x, rho_0 := ic.rho_0, u_0 := ic.u_0 }
@[epv_c16] def pjacinv (s : EOS) (ic : NohIC) (ρ x : ℝ) : ResSPressureAbsS0_jacinv.P :=
  { P_0 := ic.P_0, eos_P := s.P ρ x, eos_dP_de := s.dP_de ρ x, eos_dP_drho := s.dP_drho ρ x, rho_0 := ic.rho_0, u_0 := ic.u_0 }
@[epv_c16] def pdet (s : EOS) (ic : NohIC) (ρ x : ℝ) : ResSPressureAbsS0_det.P :=
  { P_0 := ic.P_0, eos_P := s.P ρ x, eos_dP_drho := s.dP_drho ρ x, rho_0 := ic.rho_0, u_0 := ic.u_0 }
/-- `simplified_pressure_noh_residual.F(state)` (symmetry 0), the EOS methods being evaluated at the state -/
noncomputable def F (s : EOS) (ic : NohIC) (ρ x : ℝ) : Fin 2 → ℝ :=
  ![ResSPressureAbsS0_res.F0 (pres s ic ρ x) ρ x, ResSPressureAbsS0_res.F1 (pres s ic ρ x) ρ x]
/-- `simplified_pressure_noh_residual.F_prime(state)` -/
noncomputable def J (s : EOS) (ic : NohIC) (ρ x : ℝ) : Matrix (Fin 2) (Fin 2) ℝ :=
  !![ResSPressureAbsS0_jac.DF00 (pjac s ic ρ x) ρ x, ResSPressureAbsS0_jac.DF01 (pjac s ic ρ x) ρ x;
     ResSPressureAbsS0_jac.DF10 (pjac s ic ρ x) ρ x, ResSPressureAbsS0_jac.DF11 (pjac s ic ρ x) ρ x]
/-- `simplified_pressure_noh_residual.F_prime_inv(state)` (hand-coded in the class) -/
noncomputable def Jinv (s : EOS) (ic : NohIC) (ρ x : ℝ) : Matrix (Fin 2) (Fin 2) ℝ :=
  !![ResSPressureAbsS0_jacinv.DFI00 (pjacinv s ic ρ x) ρ x, ResSPressureAbsS0_jacinv.DFI01 (pjacinv s ic ρ x) ρ x;
     ResSPressureAbsS0_jacinv.DFI10 (pjacinv s ic ρ x) ρ x, ResSPressureAbsS0_jacinv.DFI11 (pjacinv s ic ρ x) ρ x]
/-- `simplified_pressure_noh_residual.determinant`(state) (hand-coded in the class) -/
noncomputable def detv (s : EOS) (ic : NohIC) (ρ x : ℝ) : ℝ := ResSPressureAbsS0_det.det (pdet s ic ρ x) ρ x
end SPressureS0

end EPV.C16
