/-
C08 (Blake), lemmas: dimensional analysis of `set_elastic_params`, pairs (λ, G), (λ, E), (λ, ν), (λ, K), (λ, M) — every path condition compares
like quantities (also the relative-tolerance tests), every returned modulus is a pressure, Poisson's ratio a
pure number.
-/
import EPV.Lemmas.UnitsBlake

set_option linter.all false

open EPV EPV.Gen EPV.Spec EPV.Spec.UnitsBlake

namespace EPV.UnitsBlake

section
variable (σ : Scaling) (p : BlakeModLG.P)

theorem modLG_c0 : BlakeModLG.c0 (modLGSP σ p) ↔ BlakeModLG.c0 p := by
  units_cond modLGSP

theorem modLG_c1 : BlakeModLG.c1 (modLGSP σ p) ↔ BlakeModLG.c1 p := by
  units_cond modLGSP

theorem modLG_c2 : BlakeModLG.c2 (modLGSP σ p) ↔ BlakeModLG.c2 p := by
  units_cond modLGSP

theorem modLG_c3 : BlakeModLG.c3 (modLGSP σ p) ↔ BlakeModLG.c3 p := by
  units_cond modLGSP

theorem modLG_L2_lame_mod : IsScaled σ Dim.pressure (BlakeModLG.L2.lame_mod (modLGSP σ p)) (BlakeModLG.L2.lame_mod p) := by
  units_leaf modLGSP

theorem modLG_L2_shear_mod : IsScaled σ Dim.pressure (BlakeModLG.L2.shear_mod (modLGSP σ p)) (BlakeModLG.L2.shear_mod p) := by
  units_leaf modLGSP

theorem modLG_L2_youngs_mod : IsScaled σ Dim.pressure (BlakeModLG.L2.youngs_mod (modLGSP σ p)) (BlakeModLG.L2.youngs_mod p) := by
  units_leaf modLGSP

theorem modLG_L2_poisson_ratio : IsScaled σ 0 (BlakeModLG.L2.poisson_ratio (modLGSP σ p)) (BlakeModLG.L2.poisson_ratio p) := by
  units_leaf modLGSP

theorem modLG_L2_bulk_mod : IsScaled σ Dim.pressure (BlakeModLG.L2.bulk_mod (modLGSP σ p)) (BlakeModLG.L2.bulk_mod p) := by
  units_leaf modLGSP

theorem modLG_L2_long_mod : IsScaled σ Dim.pressure (BlakeModLG.L2.long_mod (modLGSP σ p)) (BlakeModLG.L2.long_mod p) := by
  units_leaf modLGSP

end

section
variable (σ : Scaling) (p : BlakeModLE.P)

theorem modLE_c0 : BlakeModLE.c0 (modLESP σ p) ↔ BlakeModLE.c0 p := by
  units_cond modLESP

theorem modLE_c1 : BlakeModLE.c1 (modLESP σ p) ↔ BlakeModLE.c1 p := by
  units_cond modLESP

theorem modLE_c2 : BlakeModLE.c2 (modLESP σ p) ↔ BlakeModLE.c2 p := by
  units_cond modLESP

theorem modLE_c3 : BlakeModLE.c3 (modLESP σ p) ↔ BlakeModLE.c3 p := by
  units_cond modLESP

theorem modLE_L2_lame_mod : IsScaled σ Dim.pressure (BlakeModLE.L2.lame_mod (modLESP σ p)) (BlakeModLE.L2.lame_mod p) := by
  units_leaf modLESP

theorem modLE_L2_shear_mod : IsScaled σ Dim.pressure (BlakeModLE.L2.shear_mod (modLESP σ p)) (BlakeModLE.L2.shear_mod p) := by
  units_leaf modLESP

theorem modLE_L2_youngs_mod : IsScaled σ Dim.pressure (BlakeModLE.L2.youngs_mod (modLESP σ p)) (BlakeModLE.L2.youngs_mod p) := by
  units_leaf modLESP

theorem modLE_L2_poisson_ratio : IsScaled σ 0 (BlakeModLE.L2.poisson_ratio (modLESP σ p)) (BlakeModLE.L2.poisson_ratio p) := by
  units_leaf modLESP

theorem modLE_L2_bulk_mod : IsScaled σ Dim.pressure (BlakeModLE.L2.bulk_mod (modLESP σ p)) (BlakeModLE.L2.bulk_mod p) := by
  units_leaf modLESP

theorem modLE_L2_long_mod : IsScaled σ Dim.pressure (BlakeModLE.L2.long_mod (modLESP σ p)) (BlakeModLE.L2.long_mod p) := by
  units_leaf modLESP

end

section
variable (σ : Scaling) (p : BlakeModLNu.P)

theorem modLNu_c0 : BlakeModLNu.c0 (modLNuSP σ p) ↔ BlakeModLNu.c0 p := by
  units_cond modLNuSP

theorem modLNu_c1 : BlakeModLNu.c1 (modLNuSP σ p) ↔ BlakeModLNu.c1 p := by
  units_cond modLNuSP

theorem modLNu_c2 : BlakeModLNu.c2 (modLNuSP σ p) ↔ BlakeModLNu.c2 p := by
  units_cond modLNuSP

theorem modLNu_c3 : BlakeModLNu.c3 (modLNuSP σ p) ↔ BlakeModLNu.c3 p := by
  units_cond modLNuSP

theorem modLNu_c4 : BlakeModLNu.c4 (modLNuSP σ p) ↔ BlakeModLNu.c4 p := by
  units_cond modLNuSP

theorem modLNu_L1_lame_mod : IsScaled σ Dim.pressure (BlakeModLNu.L1.lame_mod (modLNuSP σ p)) (BlakeModLNu.L1.lame_mod p) := by
  units_leaf modLNuSP

theorem modLNu_L1_shear_mod : IsScaled σ Dim.pressure (BlakeModLNu.L1.shear_mod (modLNuSP σ p)) (BlakeModLNu.L1.shear_mod p) := by
  units_leaf modLNuSP

theorem modLNu_L1_youngs_mod : IsScaled σ Dim.pressure (BlakeModLNu.L1.youngs_mod (modLNuSP σ p)) (BlakeModLNu.L1.youngs_mod p) := by
  units_leaf modLNuSP

theorem modLNu_L1_poisson_ratio : IsScaled σ 0 (BlakeModLNu.L1.poisson_ratio (modLNuSP σ p)) (BlakeModLNu.L1.poisson_ratio p) := by
  units_leaf modLNuSP

theorem modLNu_L1_bulk_mod : IsScaled σ Dim.pressure (BlakeModLNu.L1.bulk_mod (modLNuSP σ p)) (BlakeModLNu.L1.bulk_mod p) := by
  units_leaf modLNuSP

theorem modLNu_L1_long_mod : IsScaled σ Dim.pressure (BlakeModLNu.L1.long_mod (modLNuSP σ p)) (BlakeModLNu.L1.long_mod p) := by
  units_leaf modLNuSP

end

section
variable (σ : Scaling) (p : BlakeModLK.P)

theorem modLK_c0 : BlakeModLK.c0 (modLKSP σ p) ↔ BlakeModLK.c0 p := by
  units_cond modLKSP

theorem modLK_c1 : BlakeModLK.c1 (modLKSP σ p) ↔ BlakeModLK.c1 p := by
  units_cond modLKSP

theorem modLK_c2 : BlakeModLK.c2 (modLKSP σ p) ↔ BlakeModLK.c2 p := by
  units_cond modLKSP

theorem modLK_c3 : BlakeModLK.c3 (modLKSP σ p) ↔ BlakeModLK.c3 p := by
  units_cond modLKSP

theorem modLK_c4 : BlakeModLK.c4 (modLKSP σ p) ↔ BlakeModLK.c4 p := by
  units_cond modLKSP

theorem modLK_c5 : BlakeModLK.c5 (modLKSP σ p) ↔ BlakeModLK.c5 p := by
  units_cond modLKSP

theorem modLK_L3_lame_mod : IsScaled σ Dim.pressure (BlakeModLK.L3.lame_mod (modLKSP σ p)) (BlakeModLK.L3.lame_mod p) := by
  units_leaf modLKSP

theorem modLK_L3_shear_mod : IsScaled σ Dim.pressure (BlakeModLK.L3.shear_mod (modLKSP σ p)) (BlakeModLK.L3.shear_mod p) := by
  units_leaf modLKSP

theorem modLK_L3_youngs_mod : IsScaled σ Dim.pressure (BlakeModLK.L3.youngs_mod (modLKSP σ p)) (BlakeModLK.L3.youngs_mod p) := by
  units_leaf modLKSP

theorem modLK_L3_poisson_ratio : IsScaled σ 0 (BlakeModLK.L3.poisson_ratio (modLKSP σ p)) (BlakeModLK.L3.poisson_ratio p) := by
  units_leaf modLKSP

theorem modLK_L3_bulk_mod : IsScaled σ Dim.pressure (BlakeModLK.L3.bulk_mod (modLKSP σ p)) (BlakeModLK.L3.bulk_mod p) := by
  units_leaf modLKSP

theorem modLK_L3_long_mod : IsScaled σ Dim.pressure (BlakeModLK.L3.long_mod (modLKSP σ p)) (BlakeModLK.L3.long_mod p) := by
  units_leaf modLKSP

theorem modLK_L4_lame_mod : IsScaled σ Dim.pressure (BlakeModLK.L4.lame_mod (modLKSP σ p)) (BlakeModLK.L4.lame_mod p) := by
  units_leaf modLKSP

theorem modLK_L4_shear_mod : IsScaled σ Dim.pressure (BlakeModLK.L4.shear_mod (modLKSP σ p)) (BlakeModLK.L4.shear_mod p) := by
  units_leaf modLKSP

theorem modLK_L4_youngs_mod : IsScaled σ Dim.pressure (BlakeModLK.L4.youngs_mod (modLKSP σ p)) (BlakeModLK.L4.youngs_mod p) := by
  units_leaf modLKSP

theorem modLK_L4_poisson_ratio : IsScaled σ 0 (BlakeModLK.L4.poisson_ratio (modLKSP σ p)) (BlakeModLK.L4.poisson_ratio p) := by
  units_leaf modLKSP

theorem modLK_L4_bulk_mod : IsScaled σ Dim.pressure (BlakeModLK.L4.bulk_mod (modLKSP σ p)) (BlakeModLK.L4.bulk_mod p) := by
  units_leaf modLKSP

theorem modLK_L4_long_mod : IsScaled σ Dim.pressure (BlakeModLK.L4.long_mod (modLKSP σ p)) (BlakeModLK.L4.long_mod p) := by
  units_leaf modLKSP

end

section
variable (σ : Scaling) (p : BlakeModLM.P)

theorem modLM_c0 : BlakeModLM.c0 (modLMSP σ p) ↔ BlakeModLM.c0 p := by
  units_cond modLMSP

theorem modLM_c1 : BlakeModLM.c1 (modLMSP σ p) ↔ BlakeModLM.c1 p := by
  units_cond modLMSP

theorem modLM_c2 : BlakeModLM.c2 (modLMSP σ p) ↔ BlakeModLM.c2 p := by
  units_cond modLMSP

theorem modLM_c3 : BlakeModLM.c3 (modLMSP σ p) ↔ BlakeModLM.c3 p := by
  units_cond modLMSP

theorem modLM_L2_lame_mod : IsScaled σ Dim.pressure (BlakeModLM.L2.lame_mod (modLMSP σ p)) (BlakeModLM.L2.lame_mod p) := by
  units_leaf modLMSP

theorem modLM_L2_shear_mod : IsScaled σ Dim.pressure (BlakeModLM.L2.shear_mod (modLMSP σ p)) (BlakeModLM.L2.shear_mod p) := by
  units_leaf modLMSP

theorem modLM_L2_youngs_mod : IsScaled σ Dim.pressure (BlakeModLM.L2.youngs_mod (modLMSP σ p)) (BlakeModLM.L2.youngs_mod p) := by
  units_leaf modLMSP

theorem modLM_L2_poisson_ratio : IsScaled σ 0 (BlakeModLM.L2.poisson_ratio (modLMSP σ p)) (BlakeModLM.L2.poisson_ratio p) := by
  units_leaf modLMSP

theorem modLM_L2_bulk_mod : IsScaled σ Dim.pressure (BlakeModLM.L2.bulk_mod (modLMSP σ p)) (BlakeModLM.L2.bulk_mod p) := by
  units_leaf modLMSP

theorem modLM_L2_long_mod : IsScaled σ Dim.pressure (BlakeModLM.L2.long_mod (modLMSP σ p)) (BlakeModLM.L2.long_mod p) := by
  units_leaf modLMSP

end

end EPV.UnitsBlake
