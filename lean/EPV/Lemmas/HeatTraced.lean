/-
The traced end-to-end instances of the rod family (constructor + `_run`, Nsum = 3) equal the hand model:
`Sandwich3`, `SandwichHot3`, `SandwichHalf3` at the mapped parameters, and `Rod3` on its four special-case leaves.
Used by C07 (route agreement) and C14 (the traced code itself satisfies equation and boundary conditions).
-/
import EPV.Lemmas.HeatSeries
import EPV.Gen.Sandwich3
import EPV.Gen.SandwichHot3
import EPV.Gen.SandwichHalf3
import EPV.Gen.Rod3
import EPV.Tactics
import EPV.Lemmas.Bridge.HeatTac

set_option linter.all false

open EPV EPV.Gen EPV.Spec.Heat EPV.Model.HeatSeries Finset

namespace EPV.Lemmas.Heat

noncomputable section

/-- Rod1D parameters a PlanarSandwich stands for -/
def sandwichP (p : Sandwich3.P) : RodP ℝ := ⟨p.kappa, p.L, p.TL, p.TR, 1, 0, p.TB, 1, 0, p.TT⟩
def sandwichHotP (p : SandwichHot3.P) : RodP ℝ := ⟨p.kappa, p.L, p.TL, p.TR, 0, 1, p.F, 0, 1, p.F⟩
def sandwichHalfP (p : SandwichHalf3.P) : RodP ℝ := ⟨p.kappa, p.L, p.TL, p.TR, 1, 0, p.TB, 0, 1, p.FT⟩

/-! ### end-to-end traces (Nsum = 3) against the hand model -/

/-- tactic for "traced N = 3 instance = hand model" -/
macro "heat_n3" : tactic =>
  `(tactic| (simp only [rodBC1, rodBC2, rodBC3, rodBC4]
             rw [rodSeries_real]
             simp only [Finset.sum_range_succ, Finset.sum_range_zero, zeroCoef_real, knInt_real, knHalf_real, bc1B_real,
               bc2A_real, bc3B_real, bc4A_real, bc1Static_real, bc2Static_real, bc3Static_real, bc4Static_real]
             heat_num_eq))

theorem sandwich3_model (p : Sandwich3.P) (x t : ℝ) :
    Sandwich3.temperature p x t = rodBC1 3 (sandwichP p) x t := by
  simp only [epv_tree, epv_leaf, sandwichP]
  heat_n3

theorem sandwichHot3_model (p : SandwichHot3.P) (x t : ℝ) :
    SandwichHot3.temperature p x t = rodBC2 3 (sandwichHotP p) x t := by
  simp only [epv_tree, epv_leaf, sandwichHotP]
  heat_n3

theorem sandwichHalf3_model (p : SandwichHalf3.P) (x t : ℝ) :
    SandwichHalf3.temperature p x t = rodBC3 3 (sandwichHalfP p) x t := by
  simp only [epv_tree, epv_leaf, sandwichHalfP]
  heat_n3

/-- the Rod1D parameters of the traced `Rod3` -/
def rod3P (q : Rod3.P) : RodP ℝ := ⟨q.kappa, q.L, q.TL, q.TR, q.alpha1, q.beta1, q.gamma1, q.alpha2, q.beta2, q.gamma2⟩

theorem rod3_bc1_model (q : Rod3.P) (x t : ℝ) (h1 : q.alpha1 ≠ 0) (h2 : q.beta1 = 0) (h3 : q.alpha2 ≠ 0) (h4 : q.beta2 = 0) :
    Rod3.temperature q x t = rodBC1 3 (rod3P q) x t ∧ Rod3.outcome q x t = .ok := by
  simp only [epv_tree, epv_cond, h1, h2, h3, h4, if_true, if_false, epv_leaf, rod3P, and_true]
  heat_n3

theorem rod3_bc2_model (q : Rod3.P) (x t : ℝ) (h1 : q.alpha1 = 0) (h2 : q.beta1 ≠ 0) (h3 : q.alpha2 = 0) (h4 : q.beta2 ≠ 0)
    (hF : q.gamma1 / q.beta1 = q.gamma2 / q.beta2) :
    Rod3.temperature q x t = rodBC2 3 (rod3P q) x t ∧ Rod3.outcome q x t = .ok := by
  have hc5 : (q.gamma1 / q.beta1 = q.gamma2 / q.beta2) = True := eq_true hF
  have hc5' : (q.gamma2 / q.beta2 = q.gamma1 / q.beta1) = True := eq_true hF.symm
  simp only [epv_tree, epv_cond, h1, h2, h3, h4, hc5, hc5', if_true, if_false, epv_leaf, rod3P, and_true]
  heat_n3

theorem rod3_bc3_model (q : Rod3.P) (x t : ℝ) (h1 : q.alpha1 ≠ 0) (h2 : q.beta1 = 0) (h3 : q.alpha2 = 0) (h4 : q.beta2 ≠ 0) :
    Rod3.temperature q x t = rodBC3 3 (rod3P q) x t ∧ Rod3.outcome q x t = .ok := by
  simp only [epv_tree, epv_cond, h1, h2, h3, h4, if_true, if_false, epv_leaf, rod3P, and_true]
  heat_n3

theorem rod3_bc4_model (q : Rod3.P) (x t : ℝ) (h1 : q.alpha1 = 0) (h2 : q.beta1 ≠ 0) (h3 : q.alpha2 ≠ 0) (h4 : q.beta2 = 0) :
    Rod3.temperature q x t = rodBC4 3 (rod3P q) x t ∧ Rod3.outcome q x t = .ok := by
  simp only [epv_tree, epv_cond, h1, h2, h3, h4, if_true, if_false, epv_leaf, rod3P, and_true]
  heat_n3


end

end EPV.Lemmas.Heat
