/-
Sedov: the decisions of the traced constructor (generated model SedovInit: the real `__init__` on
five symbolic parameters), pinned by name, the acceptance predicate they implement, and a tactic
that prunes the traced tree by them.  Shared by Props/C11/SedovAlpha.lean and Props/C20/Sedov.lean.
-/
import EPV.Gen.SedovInit
import EPV.Tactics

set_option linter.all false
set_option maxRecDepth 100000

open EPV EPV.Gen

namespace EPV.Sedov

/-- the code's test for the singular solution type: |v2 - vstar| ≤ 1e-4 -/
def SingularType (p : SedovInit.P) : Prop :=
  |4 / ((p.geometry + 2 - p.omega) * (p.gamma + 1)) - 2 / ((p.gamma - 1) * p.geometry + 2)| ≤ 1 / 10000

/-- pins: the decisions of the traced constructor, in the order the theorems prune them
(a change of the traced decision order breaks these, never the theorems silently) -/
theorem init_c0 (p : SedovInit.P) : SedovInit.c0 p ↔ p.geometry = 1 := Iff.rfl
theorem init_c2 (p : SedovInit.P) : SedovInit.c2 p ↔ p.geometry = 2 := Iff.rfl
theorem init_c3 (p : SedovInit.P) : SedovInit.c3 p ↔ p.geometry = 3 := Iff.rfl
theorem init_c1 (p : SedovInit.P) : SedovInit.c1 p ↔ p.gamma < 1 := Iff.rfl
theorem init_c4 (p : SedovInit.P) : SedovInit.c4 p ↔ p.rho0 < 0 := Iff.rfl
theorem init_c5 (p : SedovInit.P) : SedovInit.c5 p ↔ p.eblast < 0 := Iff.rfl
theorem init_c6 (p : SedovInit.P) : SedovInit.c6 p ↔ p.omega < 0 := Iff.rfl
theorem init_c7 (p : SedovInit.P) : SedovInit.c7 p ↔ p.geometry ≤ p.omega := Iff.rfl
theorem init_c8 (p : SedovInit.P) : SedovInit.c8 p ↔ SingularType p := Iff.rfl

/-- what the constructor's checks let through (sedov.py:63-77), see Props/C20/Sedov.lean -/
structure Accepted (p : SedovInit.P) : Prop where
  geo : p.geometry = 1 ∨ p.geometry = 2 ∨ p.geometry = 3
  gamma : ¬ p.gamma < 1
  rho0 : ¬ p.rho0 < 0
  eblast : ¬ p.eblast < 0
  omega0 : ¬ p.omega < 0
  omegak : ¬ p.geometry ≤ p.omega

set_option hygiene false in
/-- prune the traced tree by the acceptance facts and the geometry, split what is left
(solution type, special singularity) and run `tac` on every remaining leaf -/
macro "init_cases " A:ident p:ident " on " defs:Lean.Parser.Tactic.simpLemma,* " with " tac:tacticSeq : tactic =>
  `(tactic| (have h1 : ¬ SedovInit.c1 $p := (Accepted.gamma $A)
             have h4 : ¬ SedovInit.c4 $p := (Accepted.rho0 $A)
             have h5 : ¬ SedovInit.c5 $p := (Accepted.eblast $A)
             have h6 : ¬ SedovInit.c6 $p := (Accepted.omega0 $A)
             have h7 : ¬ SedovInit.c7 $p := (Accepted.omegak $A)
             rcases (Accepted.geo $A) with hg | hg | hg
             · have hc0 : SedovInit.c0 $p := hg
               simp only [$defs,*, hc0, h1, h4, h5, h6, h7, if_true, if_false]
               split_ifs <;> ($tac)
             · have hc0 : ¬ SedovInit.c0 $p := by rw [init_c0, hg]; norm_num
               have hc2 : SedovInit.c2 $p := hg
               simp only [$defs,*, hc0, hc2, h1, h4, h5, h6, h7, if_true, if_false]
               split_ifs <;> ($tac)
             · have hc0 : ¬ SedovInit.c0 $p := by rw [init_c0, hg]; norm_num
               have hc2 : ¬ SedovInit.c2 $p := by rw [init_c2, hg]; norm_num
               have hc3 : SedovInit.c3 $p := hg
               simp only [$defs,*, hc0, hc2, hc3, h1, h4, h5, h6, h7, if_true, if_false]
               split_ifs <;> ($tac)))

/-- the documented admissible domain of the Sedov constructor (sedov.py: 'geometry': '1=planar,
2=cylindrical, 3=spherical'; "gamma must be greater than 1"; "density must be greater than 0";
"eblast must be greater than 0"; "omega must be between 0 and geometry", code `omega < 0 or
omega >= geometry`) -/
structure Documented (p : SedovInit.P) : Prop where
  geo : p.geometry = 1 ∨ p.geometry = 2 ∨ p.geometry = 3
  gamma : 1 < p.gamma
  rho0 : 0 < p.rho0
  eblast : 0 < p.eblast
  omega0 : 0 ≤ p.omega
  omegak : p.omega < p.geometry

open Classical in
/-- the six checks in the order the code makes them: a failed check raises ValueError -/
theorem sedov_not_accepted_raises (p : SedovInit.P) (hA : ¬ Accepted p) :
    SedovInit.outcome p = .raise "ValueError" := by
  have key : ∀ hg : p.geometry = 1 ∨ p.geometry = 2 ∨ p.geometry = 3,
      SedovInit.c1 p ∨ SedovInit.c4 p ∨ SedovInit.c5 p ∨ SedovInit.c6 p ∨ SedovInit.c7 p := by
    intro hg
    by_contra hne
    simp only [not_or] at hne
    exact hA ⟨hg, hne.1, hne.2.1, hne.2.2.1, hne.2.2.2.1, hne.2.2.2.2⟩
  have checks : ∀ {X Y : EPV.Out}, (SedovInit.c1 p ∨ SedovInit.c4 p ∨ SedovInit.c5 p ∨ SedovInit.c6 p ∨ SedovInit.c7 p) →
      (if SedovInit.c1 p then EPV.Out.raise "ValueError" else if SedovInit.c4 p then EPV.Out.raise "ValueError"
        else if SedovInit.c5 p then EPV.Out.raise "ValueError" else if SedovInit.c6 p then EPV.Out.raise "ValueError"
        else if SedovInit.c7 p then EPV.Out.raise "ValueError" else X) = EPV.Out.raise "ValueError" := by
    intro X Y h
    split_ifs <;> first | rfl | (exfalso; tauto)
  by_cases hc0 : SedovInit.c0 p
  · simp only [SedovInit.outcome, hc0, if_true]
    exact checks (Y := .ok) (key (Or.inl hc0))
  · by_cases hc2 : SedovInit.c2 p
    · simp only [SedovInit.outcome, hc0, hc2, if_true, if_false]
      exact checks (Y := .ok) (key (Or.inr (Or.inl hc2)))
    · by_cases hc3 : SedovInit.c3 p
      · simp only [SedovInit.outcome, hc0, hc2, hc3, if_true, if_false]
        exact checks (Y := .ok) (key (Or.inr (Or.inr hc3)))
      · simp only [SedovInit.outcome, hc0, hc2, hc3, if_false]

/-- the six checks passed: the constructor returns normally (the three `raise AttributeError`
leaves of the traced tree — solution_type never assigned — are unreachable for real numbers) -/
theorem sedov_accepted_ok (p : SedovInit.P) (A : Accepted p) : SedovInit.outcome p = .ok := by
  init_cases A p on SedovInit.outcome with
    first
    | rfl
    | (exfalso
       have h8 : ¬ SedovInit.c8 p := by assumption
       simp only [epv_cond, not_le, not_lt] at *
       rcases lt_abs.mp h8 with hh | hh <;> linarith)

theorem Documented.accepted {p : SedovInit.P} (D : Documented p) : Accepted p :=
  ⟨D.geo, not_lt.mpr D.gamma.le, not_lt.mpr D.rho0.le, not_lt.mpr D.eblast.le, not_lt.mpr D.omega0,
    not_le.mpr D.omegak⟩

end EPV.Sedov
