/-
Sedov: the decisions of the traced constructor (generated model SedovInit: the real `__init__` on
five symbolic parameters), pinned by name, the acceptance predicate they implement, and a tactic
that prunes the traced tree by them.  Shared by Props/C11/SedovAlpha.lean and Props/C20/Sedov.lean.
-/
import EPV.Gen.SedovInit
import EPV.Tactics
import EPV.Lemmas.Bridge.SemiTac

set_option linter.all false
set_option maxRecDepth 100000

open EPV EPV.Gen

namespace EPV.Sedov

/-- the code's test for the singular solution type: |v2 - vstar| ≤ 1e-4 -/
def SingularType (p : SedovInit.P) : Prop :=
  |4 / ((p.geometry + 2 - p.omega) * (p.gamma + 1)) - 2 / ((p.gamma - 1) * p.geometry + 2)| ≤ 1 / 10000

/-- pins: the decisions of the traced constructor, by number (kept for documentation; no proof below uses them any
more — the trees are pruned by `epv_semi_prune`, which does not look at condition numbers).  The NUMBERING is part
of these statements: a reordering of the constructor's checks renumbers the conditions and falsifies them; the form
of each test is not (`epv_semi_bridge_cond` compares up to normalisation). -/
theorem init_c0 (p : SedovInit.P) : SedovInit.c0 p ↔ p.geometry = 1 := by epv_semi_bridge_cond
theorem init_c2 (p : SedovInit.P) : SedovInit.c2 p ↔ p.geometry = 2 := by epv_semi_bridge_cond
theorem init_c3 (p : SedovInit.P) : SedovInit.c3 p ↔ p.geometry = 3 := by epv_semi_bridge_cond
theorem init_c1 (p : SedovInit.P) : SedovInit.c1 p ↔ p.gamma < 1 := by epv_semi_bridge_cond
theorem init_c4 (p : SedovInit.P) : SedovInit.c4 p ↔ p.rho0 < 0 := by epv_semi_bridge_cond
theorem init_c5 (p : SedovInit.P) : SedovInit.c5 p ↔ p.eblast < 0 := by epv_semi_bridge_cond
theorem init_c6 (p : SedovInit.P) : SedovInit.c6 p ↔ p.omega < 0 := by epv_semi_bridge_cond
theorem init_c7 (p : SedovInit.P) : SedovInit.c7 p ↔ p.geometry ≤ p.omega := by epv_semi_bridge_cond

/-- bridge (GUIDE §8): the traced decision "solution type singular" is the documented test, however the
Python writes v2 and vstar (compared up to ring normalisation inside the absolute value).  The only
decision of the constructor the theorems name; the validation checks (geometry, γ, ρ₀, E, ω) are pruned
by `epv_semi_prune`, which decides each traced condition from the acceptance facts whatever its number
and whatever the order in which the constructor makes the checks. -/
theorem init_c8 (p : SedovInit.P) : SedovInit.c8 p ↔ SingularType p := by
  first
  | exact Iff.rfl
  | (simp only [epv_cond, SingularType] <;>
     first
     | (ring_nf; done)
     | (constructor <;> intro h <;> ring_nf at h ⊢ <;> exact h))

/-- what the constructor's checks let through (sedov.py:63-77), see Props/C20/Sedov.lean -/
structure Accepted (p : SedovInit.P) : Prop where
  geo : p.geometry = 1 ∨ p.geometry = 2 ∨ p.geometry = 3
  gamma : ¬ p.gamma < 1
  rho0 : ¬ p.rho0 < 0
  eblast : ¬ p.eblast < 0
  omega0 : ¬ p.omega < 0
  omegak : ¬ p.geometry ≤ p.omega

set_option hygiene false in
/-- prune the traced tree by the acceptance facts and the geometry (`epv_semi_prune`: every traced
condition the context decides is rewritten away, whatever its number), split what is left (solution
type, special singularity) and run `tac` on every remaining leaf.  `hg : p.geometry = 1 | 2 | 3` is in
scope for `tac`. -/
macro "init_cases " A:ident p:ident " on " defs:Lean.Parser.Tactic.simpLemma,* " with " tac:tacticSeq : tactic =>
  `(tactic| (have hAgamma := (Accepted.gamma $A)
             have hArho0 := (Accepted.rho0 $A)
             have hAeblast := (Accepted.eblast $A)
             have hAomega0 := (Accepted.omega0 $A)
             have hAomegak := (Accepted.omegak $A)
             rcases (Accepted.geo $A) with hg | hg | hg <;>
             (simp only [$defs,*, if_true, if_false]
              epv_semi_prune
              (try split_ifs) <;> ($tac))))

/-- the documented admissible domain of the Sedov constructor (sedov.py: 'geometry': '1=planar,
2=cylindrical, 3=spherical'; "gamma must be greater than 1"; "density must be greater than 0";
"eblast must be greater than 0"; "omega must be between 0 and geometry", code `omega < 0 or
omega >= geometry`) -/
structure Documented (p : SedovInit.P) : Prop where
  geo : p.geometry = 1 ∨ p.geometry = 2 ∨ p.geometry = 3
  gamma : 1 < p.gamma
  rho0 : 0 < p.rho0
  eblast : 0 < p.eblast
  omega0 : 0 ≤ p.omega
  omegak : p.omega < p.geometry

open Classical in
/-- a failed check raises ValueError (whichever check fails first, in whatever order the code makes them):
every leaf of the traced tree that is not `raise ValueError` lies behind all six checks -/
theorem sedov_not_accepted_raises (p : SedovInit.P) (hA : ¬ Accepted p) :
    SedovInit.outcome p = .raise "ValueError" := by
  simp only [SedovInit.outcome]
  repeat' epv_semi_split1
  all_goals first
    | rfl
    | (exfalso
       apply hA
       simp only [epv_cond] at *
       constructor <;> first | assumption | tauto | epv_semi_lin)

/-- the six checks passed: the constructor returns normally (the three `raise AttributeError`
leaves of the traced tree — solution_type never assigned — are unreachable for real numbers) -/
theorem sedov_accepted_ok (p : SedovInit.P) (A : Accepted p) : SedovInit.outcome p = .ok := by
  init_cases A p on SedovInit.outcome with
    first
    | rfl
    | (exfalso
       simp only [epv_cond] at *
       epv_semi_abs_lin)

theorem Documented.accepted {p : SedovInit.P} (D : Documented p) : Accepted p :=
  ⟨D.geo, not_lt.mpr D.gamma.le, not_lt.mpr D.rho0.le, not_lt.mpr D.eblast.le, not_lt.mpr D.omega0,
    not_le.mpr D.omegak⟩

end EPV.Sedov
