/-
The hand model of the GENERAL-EOS Riemann driver (`EPV.Model.RiemannGen`) over ℝ.

* real instantiation (`NumE ℝ`), and the proof that every closure / shock formula of the model IS the
  generated model of the corresponding function of `exactpack/solvers/riemann/utils.py`
  (`sie`, `sound_speed`, `shock_speed`, `star_velocity`; ideal gas and JWL);
* `np.interp` over ℝ: value at a node of a strictly increasing table, constant tables, the three-point
  "ramp" tables of `reg_state_geos`, translation and reflection of the abscissae, convex-combination form;
* the `reg_state_geos` sequence (`fold`) in NORMAL FORM for the four patterns: which call determines the
  value at a grid node, zone by zone (`rcs_*`, `scr_*`, `rcr_*`, `scs_*`).

Shared by `Props/C02|C03|C04|C07|C09/RiemannGen*.lean`.
-/
import EPV.Lemmas.Riemann
import EPV.Lemmas.Bridge.RiemannGen
import EPV.Model.RiemannGen
import EPV.Gen.RiemSieJWL
import EPV.Gen.RiemSoundJWL
import EPV.Gen.RiemShockSpeedIG
import EPV.Gen.RiemShockSpeedJWL
import EPV.Gen.RiemStarVelIG
import EPV.Gen.RiemStarVelJWL

set_option linter.all false

open EPV EPV.Gen EPV.Model EPV.Riem

namespace EPV.RiemGen

noncomputable section

open RiemannGen (Eos Jwl Atoms P3 Region Side)

instance : RiemannGen.NumE ℝ where
  exp := Real.exp

@[simp] theorem num_exp (x : ℝ) : RiemannGen.NumE.exp x = Real.exp x := rfl

abbrev St := RiemannIG.State ℝ

/-- the ideal-gas closure switch (`problem = 'igeos'`; the JWL constants are not read) -/
def eosIG : Eos ℝ := { jwl := false, c := { A := 0, B := 0, R1 := 0, R2 := 0, r0 := 0 } }
/-- the JWL closure switch (`problem = 'JWL'`) -/
def eosJWL (c : Jwl ℝ) : Eos ℝ := { jwl := true, c := c }

/-! ### the closures of the model are the traced closures -/

theorem sie_ig (c : Jwl ℝ) (p r g : ℝ) : RiemannGen.sie ⟨false, c⟩ p r g = Riem.sie p r g := by
  simp [RiemannGen.sie, sie_eq]

theorem sound_ig (c : Jwl ℝ) (p r g : ℝ) : RiemannGen.soundSpeed ⟨false, c⟩ p r g = Riem.sound p r g := by
  simp [RiemannGen.soundSpeed, sound_eq]

/-- the traced JWL `sie(p, ρ, γ)` -/
def sieJWL (c : Jwl ℝ) (p r g : ℝ) : ℝ :=
  RiemSieJWL.e { A := c.A, B := c.B, R1 := c.R1, R2 := c.R2, r0 := c.r0, gk := g } p r
/-- the traced JWL `sound_speed(p, ρ, γ)` -/
def soundJWL (c : Jwl ℝ) (p r g : ℝ) : ℝ :=
  RiemSoundJWL.a { A := c.A, B := c.B, R1 := c.R1, R2 := c.R2, r0 := c.r0, gk := g, pk := p, rho := r }

theorem sie_jwl (c : Jwl ℝ) (p r g : ℝ) : RiemannGen.sie ⟨true, c⟩ p r g = sieJWL c p r g := by
  simp [RiemannGen.sie, RiemannGen.jwlF, sieJWL, Bridge.Riem.sieJWL_eq, Bridge.Riem.jwlF]

theorem sound_jwl (c : Jwl ℝ) (p r g : ℝ) : RiemannGen.soundSpeed ⟨true, c⟩ p r g = soundJWL c p r g := by
  simp only [RiemannGen.soundSpeed, RiemannGen.dsdr, RiemannGen.dsdp, RiemannGen.jwlF, RiemannGen.jwlDf, soundJWL,
    Bridge.Riem.soundJWL_eq, Bridge.Riem.cSqJWL, Bridge.Riem.jwlF, Bridge.Riem.jwlDf,
    num_ofNat, num_sqrt, num_exp, if_true, Nat.cast_one]
  congr 1
  ring

/-- the scalar `shock_speed` call of the driver is the traced `shock_speed` (the ideal-gas and the JWL trace are
the same term: the function does not read the closure) -/
theorem shockSpeed_gen (q : Prob) (pa ra pb rb u : ℝ) :
    RiemannGen.shockSpeed (toData q) pa ra pb rb u
      = RiemShockSpeedIG.V { pz := pa, rz := ra, pk := pb, rk := rb, uk := u, pl := q.pl, rl := q.rl, ul := q.ul } := by
  rw [Bridge.Riem.shockSpeedIG_eq]
  simp only [RiemannGen.shockSpeed, RiemannGen.isLeft, toData, Bridge.Riem.sideSgn, Bridge.Riem.relSpeed,
    num_ofNat, num_sqrt, num_beq]
  by_cases h0 : pb = q.pl <;> by_cases h1 : rb = q.rl <;> by_cases h2 : u = q.ul <;> simp [h0, h1, h2]

theorem shockSpeed_gen_jwl (q : Prob) (pa ra pb rb u : ℝ) :
    RiemannGen.shockSpeed (toData q) pa ra pb rb u
      = RiemShockSpeedJWL.V { pz := pa, rz := ra, pk := pb, rk := rb, uk := u, pl := q.pl, rl := q.rl, ul := q.ul } := by
  rw [Bridge.Riem.shockSpeedJWL_eq]
  simp only [RiemannGen.shockSpeed, RiemannGen.isLeft, toData, Bridge.Riem.sideSgn, Bridge.Riem.relSpeed,
    num_ofNat, num_sqrt, num_beq]
  by_cases h0 : pb = q.pl <;> by_cases h1 : rb = q.rl <;> by_cases h2 : u = q.ul <;> simp [h0, h1, h2]

/-- `star_velocity` on the Hugoniot ladder (array call) is the traced `star_velocity` -/
theorem starVelocity_gen (q : Prob) (p0 r0 u0 p r : ℝ) :
    RiemannGen.starVelocity (toData q) p0 r0 u0 p r
      = RiemStarVelIG.u { pk := p0, rk := r0, uk := u0, pz := p, rz := r, pl := q.pl, rl := q.rl, ul := q.ul } := by
  rw [Bridge.Riem.starVelIG_eq]
  simp only [RiemannGen.starVelocity, RiemannGen.isLeft, toData, Bridge.Riem.sideSgn, Bridge.Riem.relSpeed,
    num_ofNat, num_sqrt, num_beq]
  by_cases h0 : p0 = q.pl <;> by_cases h1 : r0 = q.rl <;> by_cases h2 : u0 = q.ul <;> simp [h0, h1, h2]

theorem starVelocity_gen_jwl (q : Prob) (p0 r0 u0 p r : ℝ) :
    RiemannGen.starVelocity (toData q) p0 r0 u0 p r
      = RiemStarVelJWL.u { pk := p0, rk := r0, uk := u0, pz := p, rz := r, pl := q.pl, rl := q.rl, ul := q.ul } := by
  rw [Bridge.Riem.starVelJWL_eq]
  simp only [RiemannGen.starVelocity, RiemannGen.isLeft, toData, Bridge.Riem.sideSgn, Bridge.Riem.relSpeed,
    num_ofNat, num_sqrt, num_beq]
  by_cases h0 : p0 = q.pl <;> by_cases h1 : r0 = q.rl <;> by_cases h2 : u0 = q.ul <;> simp [h0, h1, h2]

/-! ### the `==` side detection -/

/-- the stored left state is detected as "left" … -/
theorem isLeft_left (q : Prob) : RiemannGen.isLeft (toData q) q.pl q.rl q.ul = true := by
  simp [RiemannGen.isLeft, toData]
/-- … a right state is not, PROVIDED it differs from the left state (with identical states the right state is
labelled "left": the known identical-states finding) -/
theorem isLeft_right (q : Prob) (hd : q.Distinct) : RiemannGen.isLeft (toData q) q.pr q.rr q.ur = false := by
  unfold Prob.Distinct at hd
  simp only [RiemannGen.isLeft, toData, num_beq]
  by_cases h0 : q.pr = q.pl <;> by_cases h1 : q.rr = q.rl <;> by_cases h2 : q.ur = q.ul
  · exact absurd ⟨h0, h2, h1⟩ hd
  all_goals simp [h0, h1, h2]

/-- the orientation the side detection assigns to the wave through `(p0, r0, u0)` -/
def sgnOf (d : RiemannIG.Data ℝ) (p0 r0 u0 : ℝ) : ℝ := if RiemannGen.isLeft d p0 r0 u0 then -1 else 1

theorem sgnOf_left (q : Prob) : sgnOf (toData q) q.pl q.rl q.ul = -1 := by simp [sgnOf, isLeft_left]
theorem sgnOf_right (q : Prob) (hd : q.Distinct) : sgnOf (toData q) q.pr q.rr q.ur = 1 := by
  simp [sgnOf, isLeft_right q hd]

theorem sqrt_swap (r0 rx p0 px : ℝ) :
    Real.sqrt (r0 / rx * (p0 - px) / (r0 - rx)) = Real.sqrt (r0 / rx * (px - p0) / (rx - r0)) := by
  congr 1
  rw [← neg_sub px p0, ← neg_sub rx r0, mul_neg, neg_div_neg_eq]

/-- `shock_speed` and `star_velocity` in terms of the two relative speeds and the orientation -/
theorem shockSpeed_eq (d : RiemannIG.Data ℝ) (px rx p0 r0 u0 : ℝ) :
    RiemannGen.shockSpeed d px rx p0 r0 u0 = sgnOf d p0 r0 u0 * Real.sqrt (rx / r0 * (px - p0) / (rx - r0)) + u0 := by
  simp only [RiemannGen.shockSpeed, sgnOf, num_ofNat, num_sqrt]
  split_ifs <;> norm_num
theorem starVelocity_eq (d : RiemannIG.Data ℝ) (p0 r0 u0 px rx : ℝ) :
    RiemannGen.starVelocity d p0 r0 u0 px rx
      = u0 + (Real.sqrt (rx / r0 * (px - p0) / (rx - r0)) - Real.sqrt (r0 / rx * (px - p0) / (rx - r0))) * sgnOf d p0 r0 u0 := by
  simp only [RiemannGen.starVelocity, sgnOf, num_ofNat, num_sqrt]
  split_ifs <;> norm_num <;> exact sqrt_swap ..

/-! ### `np.interp` over ℝ -/

section interp

variable {β : Type} (lp : ℝ → ℝ → ℝ → β → β → β)

theorem interpFrom_nil (x x0 : ℝ) (f0 : β) : RiemannGen.interpFrom lp x x0 f0 [] = f0 := rfl

theorem interpFrom_cons_le {x x1 : ℝ} (h : x1 ≤ x) (x0 : ℝ) (f0 f1 : β) (rest : List (ℝ × β)) :
    RiemannGen.interpFrom lp x x0 f0 ((x1, f1) :: rest) = RiemannGen.interpFrom lp x x1 f1 rest := by
  simp [RiemannGen.interpFrom, h]

theorem interpFrom_cons_eq {x x1 : ℝ} (h : x < x1) (f0 f1 : β) (rest : List (ℝ × β)) :
    RiemannGen.interpFrom lp x x f0 ((x1, f1) :: rest) = f0 := by
  simp [RiemannGen.interpFrom, not_le.mpr h]

theorem interpFrom_cons_lt {x x0 x1 : ℝ} (h : x < x1) (h0 : x0 ≠ x) (f0 f1 : β) (rest : List (ℝ × β)) :
    RiemannGen.interpFrom lp x x0 f0 ((x1, f1) :: rest) = lp x x0 x1 f0 f1 := by
  simp [RiemannGen.interpFrom, not_le.mpr h, h0]

theorem interpG_cons_lt {x x0 : ℝ} (h : x < x0) (f0 : β) (rest : List (ℝ × β)) (d : β) :
    RiemannGen.interpG lp x ((x0, f0) :: rest) d = f0 := by
  simp [RiemannGen.interpG, h]

theorem interpG_cons_ge {x x0 : ℝ} (h : x0 ≤ x) (f0 : β) (rest : List (ℝ × β)) (d : β) :
    RiemannGen.interpG lp x ((x0, f0) :: rest) d = RiemannGen.interpFrom lp x x0 f0 rest := by
  simp [RiemannGen.interpG, not_lt.mpr h]

/-- strictly increasing abscissae -/
def Sorted (tab : List (ℝ × β)) : Prop := tab.Pairwise (fun a b => a.1 < b.1)

/-- at a node, all later abscissae larger: the node's value -/
theorem interpFrom_self (x0 : ℝ) (f0 : β) (rest : List (ℝ × β)) (h : ∀ e ∈ rest, x0 < e.1) :
    RiemannGen.interpFrom lp x0 x0 f0 rest = f0 := by
  cases rest with
  | nil => rfl
  | cons e rest => exact interpFrom_cons_eq lp (h e (List.mem_cons_self ..)) f0 e.2 rest

theorem interpFrom_mem {xi : ℝ} {fi : β} :
    ∀ (rest : List (ℝ × β)) (x0 : ℝ) (f0 : β), Sorted ((x0, f0) :: rest) → (xi, fi) ∈ rest →
      RiemannGen.interpFrom lp xi x0 f0 rest = fi := by
  intro rest
  induction rest with
  | nil => intro x0 f0 _ h; exact absurd h (List.not_mem_nil)
  | cons e rest ih =>
    intro x0 f0 hs hm
    obtain ⟨x1, f1⟩ := e
    have hs' : Sorted ((x1, f1) :: rest) := (List.pairwise_cons.mp hs).2
    rcases List.mem_cons.mp hm with h | h
    · obtain ⟨rfl, rfl⟩ := Prod.mk.injEq .. ▸ h
      rw [interpFrom_cons_le lp le_rfl]
      exact interpFrom_self lp _ _ _ (fun e he => (List.pairwise_cons.mp hs').1 e he)
    · have : x1 < xi := (List.pairwise_cons.mp hs').1 _ h
      rw [interpFrom_cons_le lp this.le]
      exact ih x1 f1 hs' h

/-- **`np.interp` at a node of a strictly increasing table returns the tabulated value** -/
theorem interpG_mem {xi : ℝ} {fi : β} (tab : List (ℝ × β)) (d : β) (hs : Sorted tab) (hm : (xi, fi) ∈ tab) :
    RiemannGen.interpG lp xi tab d = fi := by
  cases tab with
  | nil => exact absurd hm (List.not_mem_nil)
  | cons e rest =>
    obtain ⟨x0, f0⟩ := e
    rcases List.mem_cons.mp hm with h | h
    · obtain ⟨rfl, rfl⟩ := Prod.mk.injEq .. ▸ h
      rw [interpG_cons_ge lp le_rfl]
      exact interpFrom_self lp _ _ _ (fun e he => (List.pairwise_cons.mp hs).1 e he)
    · have : x0 < xi := (List.pairwise_cons.mp hs).1 _ h
      rw [interpG_cons_ge lp this.le]
      exact interpFrom_mem lp rest x0 f0 hs h

/-- what `np.interp` returns: a tabulated value, or the interpolant of two CONSECUTIVE rows that
strictly bracket `x` -/
def InterpForm (x : ℝ) (tab : List (ℝ × β)) (v : β) : Prop :=
  (∃ e ∈ tab, v = e.2) ∨
  (∃ e0 e1, [e0, e1] <:+: tab ∧ e0.1 < x ∧ x < e1.1 ∧ v = lp x e0.1 e1.1 e0.2 e1.2)

theorem interpFrom_form {x : ℝ} :
    ∀ (rest : List (ℝ × β)) (x0 : ℝ) (f0 : β), x0 ≤ x →
      InterpForm lp x ((x0, f0) :: rest) (RiemannGen.interpFrom lp x x0 f0 rest) := by
  intro rest
  induction rest with
  | nil => intro x0 f0 _; exact Or.inl ⟨(x0, f0), List.mem_cons_self .., rfl⟩
  | cons e rest ih =>
    intro x0 f0 h0
    obtain ⟨x1, f1⟩ := e
    by_cases h1 : x1 ≤ x
    · rw [interpFrom_cons_le lp h1]
      rcases ih x1 f1 h1 with ⟨e, he, hv⟩ | ⟨e0, e1, hi, ha, hb, hv⟩
      · exact Or.inl ⟨e, List.mem_cons_of_mem _ he, hv⟩
      · exact Or.inr ⟨e0, e1, hi.trans (List.suffix_cons _ _).isInfix, ha, hb, hv⟩
    · push Not at h1
      by_cases h2 : x0 = x
      · subst h2
        rw [interpFrom_cons_eq lp h1]
        exact Or.inl ⟨(x0, f0), List.mem_cons_self .., rfl⟩
      · rw [interpFrom_cons_lt lp h1 h2]
        refine Or.inr ⟨(x0, f0), (x1, f1), ?_, lt_of_le_of_ne h0 h2, h1, rfl⟩
        exact ⟨[], rest, by simp⟩

theorem interpG_form (x : ℝ) (tab : List (ℝ × β)) (d : β) (hne : tab ≠ []) :
    InterpForm lp x tab (RiemannGen.interpG lp x tab d) := by
  cases tab with
  | nil => exact absurd rfl hne
  | cons e rest =>
    obtain ⟨x0, f0⟩ := e
    by_cases h : x < x0
    · rw [interpG_cons_lt lp h]
      exact Or.inl ⟨(x0, f0), List.mem_cons_self .., rfl⟩
    · push Not at h
      rw [interpG_cons_ge lp h]
      exact interpFrom_form lp rest x0 f0 h

/-- translating the abscissae -/
theorem interpFrom_shift (c : ℝ) (hlp : ∀ x a b f g, lp (x + c) (a + c) (b + c) f g = lp x a b f g) (x : ℝ) :
    ∀ (rest : List (ℝ × β)) (x0 : ℝ) (f0 : β),
      RiemannGen.interpFrom lp (x + c) (x0 + c) f0 (rest.map fun e => (e.1 + c, e.2))
        = RiemannGen.interpFrom lp x x0 f0 rest := by
  intro rest
  induction rest with
  | nil => intro x0 f0; rfl
  | cons e rest ih =>
    intro x0 f0
    obtain ⟨x1, f1⟩ := e
    simp only [List.map_cons, RiemannGen.interpFrom, num_le, num_beq, add_le_add_iff_right, add_left_inj, ih, hlp]

theorem interpG_shift (c : ℝ) (hlp : ∀ x a b f g, lp (x + c) (a + c) (b + c) f g = lp x a b f g) (x : ℝ)
    (tab : List (ℝ × β)) (d : β) :
    RiemannGen.interpG lp (x + c) (tab.map fun e => (e.1 + c, e.2)) d = RiemannGen.interpG lp x tab d := by
  cases tab with
  | nil => rfl
  | cons e rest =>
    obtain ⟨x0, f0⟩ := e
    simp only [List.map_cons, RiemannGen.interpG, num_lt, add_lt_add_iff_right, interpFrom_shift lp c hlp]

end interp

/-! ### the interpolation of states; the constant and "ramp" tables of `reg_state_geos` -/

theorem lerp_self (x a b f : ℝ) : RiemannGen.lerp x a b f f = f := by simp [RiemannGen.lerp]

theorem lerpS_self (x a b : ℝ) (s : St) : RiemannGen.lerpS x a b s s = s := by
  cases s; simp [RiemannGen.lerpS, lerp_self]

theorem lerp_shift (c x a b f g : ℝ) : RiemannGen.lerp (x + c) (a + c) (b + c) f g = RiemannGen.lerp x a b f g := by
  simp only [RiemannGen.lerp]; congr 2 <;> ring

theorem lerpS_shift (c x a b : ℝ) (s s' : St) :
    RiemannGen.lerpS (x + c) (a + c) (b + c) s s' = RiemannGen.lerpS x a b s s' := by
  simp only [RiemannGen.lerpS, lerp_shift]

/-- two equal rows: constant -/
theorem interpS_const2 (x a b : ℝ) (s d : St) : RiemannGen.interpS x [(a, s), (b, s)] d = s := by
  simp only [RiemannGen.interpS, RiemannGen.interpG, RiemannGen.interpFrom]
  split_ifs <;> first | rfl | exact lerpS_self ..

/-- `[(a, s), (b, s), (c, s')]` (a constant state, then the ramp to the next one): left of `b` -/
theorem interpS_ssr_left {x a b c : ℝ} (hbc : b < c) (h : x ≤ b) (s s' d : St) :
    RiemannGen.interpS x [(a, s), (b, s), (c, s')] d = s := by
  unfold RiemannGen.interpS
  by_cases h1 : x < a
  · rw [interpG_cons_lt _ h1]
  rw [interpG_cons_ge _ (not_lt.mp h1)]
  by_cases h2 : b ≤ x
  · have : b = x := le_antisymm h2 h
    subst this
    rw [interpFrom_cons_le _ le_rfl, interpFrom_cons_eq _ hbc]
  · push Not at h2
    by_cases h3 : a = x
    · subst h3; rw [interpFrom_cons_eq _ h2]
    · rw [interpFrom_cons_lt _ h2 h3, lerpS_self]

/-- … right of `c` -/
theorem interpS_ssr_right {x a b c : ℝ} (hab : a ≤ b) (hbc : b < c) (h : c ≤ x) (s s' d : St) :
    RiemannGen.interpS x [(a, s), (b, s), (c, s')] d = s' := by
  have h1 : ¬ x < a := by linarith
  have h2 : b ≤ x := by linarith
  simp [RiemannGen.interpS, RiemannGen.interpG, RiemannGen.interpFrom, h1, h2, h]

/-- `[(a, s), (b, s'), (c, s')]` (the ramp from the previous state, then constant): right of `b` -/
theorem interpS_srr_right {x a b c : ℝ} (hab : a < b) (h : b ≤ x) (s s' d : St) :
    RiemannGen.interpS x [(a, s), (b, s'), (c, s')] d = s' := by
  have h1 : ¬ x < a := by linarith
  simp only [RiemannGen.interpS, RiemannGen.interpG, RiemannGen.interpFrom, num_lt, num_le, num_beq, decide_eq_true_eq, h1, h,
    if_false, if_true]
  split_ifs <;> first | rfl | exact lerpS_self ..

/-- … at or left of `a` -/
theorem interpS_srr_left {x a b c : ℝ} (hab : a < b) (h : x ≤ a) (s s' d : St) :
    RiemannGen.interpS x [(a, s), (b, s'), (c, s')] d = s := by
  unfold RiemannGen.interpS
  by_cases h1 : x < a
  · rw [interpG_cons_lt _ h1]
  have : a = x := le_antisymm (not_lt.mp h1) h
  subst this
  rw [interpG_cons_ge _ le_rfl, interpFrom_cons_eq _ hab]

/-! ### transporting a table: abscissae translated, values mapped -/

section transport

variable {β : Type} (lp : ℝ → ℝ → ℝ → β → β → β)

theorem interpFrom_tr (c : ℝ) (F : β → β) (hlp : ∀ x a b f g, lp (x + c) (a + c) (b + c) (F f) (F g) = F (lp x a b f g))
    (x : ℝ) : ∀ (rest : List (ℝ × β)) (x0 : ℝ) (f0 : β),
      RiemannGen.interpFrom lp (x + c) (x0 + c) (F f0) (rest.map fun e => (e.1 + c, F e.2))
        = F (RiemannGen.interpFrom lp x x0 f0 rest) := by
  intro rest
  induction rest with
  | nil => intro x0 f0; rfl
  | cons e rest ih =>
    intro x0 f0
    obtain ⟨x1, f1⟩ := e
    simp only [List.map_cons, RiemannGen.interpFrom, num_le, num_beq, add_le_add_iff_right, add_left_inj, ih, hlp]
    split_ifs <;> rfl

theorem interpG_tr (c : ℝ) (F : β → β) (hlp : ∀ x a b f g, lp (x + c) (a + c) (b + c) (F f) (F g) = F (lp x a b f g))
    (x : ℝ) (tab : List (ℝ × β)) (d : β) :
    RiemannGen.interpG lp (x + c) (tab.map fun e => (e.1 + c, F e.2)) (F d) = F (RiemannGen.interpG lp x tab d) := by
  cases tab with
  | nil => rfl
  | cons e rest =>
    obtain ⟨x0, f0⟩ := e
    simp only [List.map_cons, RiemannGen.interpG, num_lt, add_lt_add_iff_right, interpFrom_tr lp c F hlp]
    split_ifs <;> rfl

end transport

/-- a `reg_state_geos` call with its abscissae translated by `c` and its states mapped by `F` -/
def Region.tr (c : ℝ) (F : St → St) (R : Region ℝ) : Region ℝ := ⟨R.xl + c, R.tab.map fun e => (e.1 + c, F e.2)⟩

/-- the whole sequence transported: evaluated at the translated node it returns the mapped state, same call -/
theorem fold_tr (c : ℝ) (F : St → St)
    (hF : ∀ x a b s s', RiemannGen.lerpS (x + c) (a + c) (b + c) (F s) (F s') = F (RiemannGen.lerpS x a b s s')) (x : ℝ) :
    ∀ (Rs : List (Region ℝ)) (i : ℕ) (cur : ℕ × St),
      RiemannGen.fold (x + c) (Rs.map (Region.tr c F)) i (cur.1, F cur.2)
        = ((RiemannGen.fold x Rs i cur).1, F (RiemannGen.fold x Rs i cur).2) := by
  intro Rs
  induction Rs with
  | nil => intro i cur; rfl
  | cons R Rs ih =>
    intro i cur
    simp only [List.map_cons, RiemannGen.fold, Region.tr, num_lt, add_lt_add_iff_right]
    by_cases h : R.xl < x
    · simp only [h, decide_true, if_true]
      have := ih (i + 1) (i + 1, RiemannGen.interpS x R.tab cur.2)
      simp only at this
      rw [← this]
      unfold RiemannGen.interpS
      rw [interpG_tr RiemannGen.lerpS c F hF]
    · simp only [h, decide_false, if_false]
      exact ih (i + 1) cur

/-! ### the wrapper's interpolation from the grid to a user point -/

/-- between two grid nodes that carry the same state the wrapper returns that state: in a constant region the
values at user points are exact -/
theorem userAt_const (sl sh : ℕ × St) (lo hi x : ℝ) (h : sl.2 = sh.2) : (RiemannGen.userAt sl sh lo hi x).2 = sl.2 := by
  simp only [RiemannGen.userAt]
  split_ifs
  · rfl
  · rw [← h]; exact lerpS_self ..

/-- in general it is the linear interpolation of the two node states (each field separately) -/
theorem userAt_lerp (sl sh : ℕ × St) (lo hi x : ℝ) (h : lo ≠ x) :
    (RiemannGen.userAt sl sh lo hi x).2 = RiemannGen.lerpS x lo hi sl.2 sh.2 := by
  simp [RiemannGen.userAt, h]

/-- the tables the driver splices for the fans start and end with the states the fans join (`append(append(pl,
ps_left), px)` …): first row of the left table the left state, last row the left star values; first row of the right
table the right star values, last row the right state -/
theorem atoms_tables (d : RiemannIG.Data ℝ) (w : RiemannGen.Raw ℝ) :
    (RiemannGen.atoms d w).px = w.px ∧
    (∃ mid, (RiemannGen.atoms d w).tabL
        = [⟨d.pl, d.rl, d.ul⟩] ++ mid ++ [⟨w.px, (RiemannGen.atoms d w).rx1, (RiemannGen.atoms d w).ux1⟩]) ∧
    (∃ mid, (RiemannGen.atoms d w).tabR
        = [⟨w.px, (RiemannGen.atoms d w).rx2, (RiemannGen.atoms d w).ux2⟩] ++ mid ++ [⟨d.pr, d.rr, d.ur⟩]) :=
  ⟨rfl, ⟨_, rfl⟩, ⟨_, rfl⟩⟩

/-! ### the `reg_state_geos` sequence -/

theorem side_R {px p0 : ℝ} (h : px < p0) : RiemannGen.side px p0 = .R := by simp [RiemannGen.side, h]
theorem side_S {px p0 : ℝ} (h : p0 < px) : RiemannGen.side px p0 = .S := by
  simp [RiemannGen.side, h, not_lt.mpr h.le]
theorem side_N (p0 : ℝ) : RiemannGen.side p0 p0 = .N := by simp [RiemannGen.side]

theorem fold_nil (x : ℝ) (i : ℕ) (cur : ℕ × St) : RiemannGen.fold x [] i cur = cur := rfl

/-- a call whose left edge lies strictly left of the node overwrites … -/
theorem fold_fire {x xl : ℝ} (h : xl < x) (tab : List (ℝ × St)) (Rs : List (Region ℝ)) (i : ℕ) (cur : ℕ × St) :
    RiemannGen.fold x (⟨xl, tab⟩ :: Rs) i cur = RiemannGen.fold x Rs (i + 1) (i + 1, RiemannGen.interpS x tab cur.2) := by
  simp [RiemannGen.fold, h]

/-- … any other call leaves the value alone -/
theorem fold_skip {x xl : ℝ} (h : x ≤ xl) (tab : List (ℝ × St)) (Rs : List (Region ℝ)) (i : ℕ) (cur : ℕ × St) :
    RiemannGen.fold x (⟨xl, tab⟩ :: Rs) i cur = RiemannGen.fold x Rs (i + 1) cur := by
  simp [RiemannGen.fold, not_lt.mpr h]

/-- `Vregs` of the four patterns -/
theorem vregs_SS (e : Eos ℝ) {d : RiemannIG.Data ℝ} {a : Atoms ℝ} (hL : d.pl < a.px) (hR : d.pr < a.px) :
    RiemannGen.vregs e d a = [RiemannGen.vShockL d a, a.ux1, RiemannGen.vShockR d a] := by
  simp [RiemannGen.vregs, RiemannGen.sideL, RiemannGen.sideR, side_S hL, side_S hR]
theorem vregs_SR (e : Eos ℝ) {d : RiemannIG.Data ℝ} {a : Atoms ℝ} (hL : d.pl < a.px) (hR : a.px < d.pr) :
    RiemannGen.vregs e d a = [RiemannGen.vShockL d a, a.ux1, RiemannGen.vTailR e d a, RiemannGen.vHeadR e d] := by
  simp [RiemannGen.vregs, RiemannGen.sideL, RiemannGen.sideR, side_S hL, side_R hR]
theorem vregs_RS (e : Eos ℝ) {d : RiemannIG.Data ℝ} {a : Atoms ℝ} (hL : a.px < d.pl) (hR : d.pr < a.px) :
    RiemannGen.vregs e d a = [RiemannGen.vHeadL e d, RiemannGen.vTailL e d a, a.ux1, RiemannGen.vShockR d a] := by
  simp [RiemannGen.vregs, RiemannGen.sideL, RiemannGen.sideR, side_R hL, side_S hR]
theorem vregs_RR (e : Eos ℝ) {d : RiemannIG.Data ℝ} {a : Atoms ℝ} (hL : a.px < d.pl) (hR : a.px < d.pr) :
    RiemannGen.vregs e d a
      = [RiemannGen.vHeadL e d, RiemannGen.vTailL e d a, a.ux1, RiemannGen.vTailR e d a, RiemannGen.vHeadR e d] := by
  simp [RiemannGen.vregs, RiemannGen.sideL, RiemannGen.sideR, side_R hL, side_R hR]

/-- the position at which the driver places row `r` of the left / right fan table (any closure) -/
noncomputable def rowL (e : Eos ℝ) (g xd0 t : ℝ) (r : P3 ℝ) : ℝ :=
  xd0 + t * (r.u + -RiemannIG.Num.ofNat 1 * RiemannGen.soundSpeed e r.p r.r g)
noncomputable def rowR (e : Eos ℝ) (g xd0 t : ℝ) (r : P3 ℝ) : ℝ :=
  xd0 + t * (r.u + RiemannIG.Num.ofNat 1 * RiemannGen.soundSpeed e r.p r.r g)

theorem rowL_mem (e : Eos ℝ) (g xd0 t : ℝ) {tab : List (P3 ℝ)} {r : P3 ℝ} (hr : r ∈ tab) :
    (rowL e g xd0 t r, RiemannGen.st e g r.p r.r r.u) ∈ RiemannGen.fanTab e g (-RiemannIG.Num.ofNat 1) xd0 t tab := by
  simp only [RiemannGen.fanTab, List.mem_map]; exact ⟨r, hr, rfl⟩
theorem rowR_mem (e : Eos ℝ) (g xd0 t : ℝ) {tab : List (P3 ℝ)} {r : P3 ℝ} (hr : r ∈ tab) :
    (rowR e g xd0 t r, RiemannGen.st e g r.p r.r r.u) ∈ RiemannGen.fanTab e g (RiemannIG.Num.ofNat 1) xd0 t tab := by
  simp only [RiemannGen.fanTab, List.mem_map]; exact ⟨r, hr, rfl⟩

section zones

variable (e : Eos ℝ) (d : RiemannIG.Data ℝ) (a : Atoms ℝ) (prev next : ℝ → ℝ) (xd0 t xmaxW : ℝ)

/-- the wave positions `Xregs`, by name -/
local notation "XhL" => RiemannGen.xpos xd0 t (RiemannGen.vHeadL e d)
local notation "XtL" => RiemannGen.xpos xd0 t (RiemannGen.vTailL e d a)
local notation "XsL" => RiemannGen.xpos xd0 t (RiemannGen.vShockL d a)
local notation "Xc" => RiemannGen.xpos xd0 t a.ux1
local notation "XtR" => RiemannGen.xpos xd0 t (RiemannGen.vTailR e d a)
local notation "XhR" => RiemannGen.xpos xd0 t (RiemannGen.vHeadR e d)
local notation "XsR" => RiemannGen.xpos xd0 t (RiemannGen.vShockR d a)
local notation "sL" => RiemannGen.starL e d a
local notation "sR" => RiemannGen.starR e d a
local notation "stL" => RiemannGen.leftState e d
local notation "stR" => RiemannGen.rightState e d
local notation "fanL" => RiemannGen.fanTab e d.gl (-RiemannIG.Num.ofNat 1) xd0 t a.tabL
local notation "fanR" => RiemannGen.fanTab e d.gr (RiemannIG.Num.ofNat 1) xd0 t a.tabR
local notation "node" => RiemannGen.solveAtNode e d a prev next xd0 t xmaxW

/-- **rarefaction – contact – shock**: order of the waves and of the grid nodes the driver looks up
(`prev X` = the node just left of the wave position `X`) -/
structure GridRCS : Prop where
  h01 : XhL ≤ XtL
  h1c : XtL ≤ prev Xc
  hpc : prev Xc < Xc
  hc3 : Xc ≤ prev XsR
  hp3 : prev XsR < XsR

section rcs
variable (hL : a.px < d.pl) (hR : d.pr < a.px) (g : GridRCS e d a prev xd0 t)
include hL hR g

theorem rcs_regions :
    RiemannGen.regions e d a prev next xd0 t xmaxW
      = [⟨XhL, fanL⟩, ⟨XtL, [(XtL, sL), (prev Xc, sL), (Xc, sR)]⟩, ⟨Xc, [(Xc, sR), (prev XsR, sR), (XsR, stR)]⟩,
         ⟨prev XsR, [(prev XsR, sR), (XsR, stR), (xmaxW, stR)]⟩] := by
  simp only [RiemannGen.regions, RiemannGen.sideL, RiemannGen.sideR, side_R hL, side_S hR]

theorem rcs_zone_left {x : ℝ} (h : x ≤ XhL) : node x = (0, stL) := by
  obtain ⟨h01, h1c, hpc, hc3, hp3⟩ := g
  rw [RiemannGen.solveAtNode, rcs_regions e d a prev next xd0 t xmaxW hL hR ⟨h01, h1c, hpc, hc3, hp3⟩,
    fold_skip h, fold_skip (by linarith), fold_skip (by linarith), fold_skip (by linarith), fold_nil]

theorem rcs_zone_fan {x : ℝ} (h0 : XhL < x) (h1 : x ≤ XtL) : node x = (1, RiemannGen.interpS x fanL stL) := by
  obtain ⟨h01, h1c, hpc, hc3, hp3⟩ := g
  rw [RiemannGen.solveAtNode, rcs_regions e d a prev next xd0 t xmaxW hL hR ⟨h01, h1c, hpc, hc3, hp3⟩,
    fold_fire h0, fold_skip h1, fold_skip (by linarith), fold_skip (by linarith), fold_nil]

theorem rcs_zone_starL {x : ℝ} (h1 : XtL < x) (h2 : x ≤ prev Xc) : node x = (2, sL) := by
  obtain ⟨h01, h1c, hpc, hc3, hp3⟩ := g
  rw [RiemannGen.solveAtNode, rcs_regions e d a prev next xd0 t xmaxW hL hR ⟨h01, h1c, hpc, hc3, hp3⟩,
    fold_fire (by linarith), fold_fire h1, fold_skip (by linarith), fold_skip (by linarith), fold_nil,
    interpS_ssr_left hpc h2]

theorem rcs_node_contact : node Xc = (2, sR) := by
  obtain ⟨h01, h1c, hpc, hc3, hp3⟩ := g
  rw [RiemannGen.solveAtNode, rcs_regions e d a prev next xd0 t xmaxW hL hR ⟨h01, h1c, hpc, hc3, hp3⟩,
    fold_fire (by linarith), fold_fire (by linarith), fold_skip le_rfl, fold_skip (by linarith), fold_nil,
    interpS_ssr_right h1c hpc le_rfl]

theorem rcs_zone_starR {x : ℝ} (h1 : Xc < x) (h2 : x ≤ prev XsR) : node x = (3, sR) := by
  obtain ⟨h01, h1c, hpc, hc3, hp3⟩ := g
  rw [RiemannGen.solveAtNode, rcs_regions e d a prev next xd0 t xmaxW hL hR ⟨h01, h1c, hpc, hc3, hp3⟩,
    fold_fire (by linarith), fold_fire (by linarith), fold_fire h1, fold_skip h2, fold_nil,
    interpS_ssr_left hp3 h2]

theorem rcs_zone_right {x : ℝ} (h : XsR ≤ x) : node x = (4, stR) := by
  obtain ⟨h01, h1c, hpc, hc3, hp3⟩ := g
  rw [RiemannGen.solveAtNode, rcs_regions e d a prev next xd0 t xmaxW hL hR ⟨h01, h1c, hpc, hc3, hp3⟩,
    fold_fire (by linarith), fold_fire (by linarith), fold_fire (by linarith), fold_fire (by linarith), fold_nil,
    interpS_srr_right hp3 h]

end rcs

/-- **shock – contact – rarefaction** (`next X` = the node just right of the wave position `X`) -/
structure GridSCR : Prop where
  h0n : XsL < next XsL
  hnc : next XsL ≤ Xc
  hc2 : Xc ≤ XtR
  h23 : XtR ≤ prev XhR
  hp3 : prev XhR < XhR

section scr
variable (hL : d.pl < a.px) (hR : a.px < d.pr) (g : GridSCR e d a prev next xd0 t)
include hL hR g

theorem scr_regions :
    RiemannGen.regions e d a prev next xd0 t xmaxW
      = [⟨XsL, [(XsL, stL), (next XsL, sL), (Xc, sL)]⟩, ⟨Xc, [(Xc, sR), (XtR, sR)]⟩, ⟨XtR, fanR⟩,
         ⟨prev XhR, [(prev XhR, sR), (XhR, stR), (xmaxW, stR)]⟩] := by
  simp only [RiemannGen.regions, RiemannGen.sideL, RiemannGen.sideR, side_S hL, side_R hR]

theorem scr_zone_left {x : ℝ} (h : x ≤ XsL) : node x = (0, stL) := by
  obtain ⟨h0n, hnc, hc2, h23, hp3⟩ := g
  rw [RiemannGen.solveAtNode, scr_regions e d a prev next xd0 t xmaxW hL hR ⟨h0n, hnc, hc2, h23, hp3⟩,
    fold_skip h, fold_skip (by linarith), fold_skip (by linarith), fold_skip (by linarith), fold_nil]

theorem scr_zone_starL {x : ℝ} (h1 : next XsL ≤ x) (h2 : x ≤ Xc) : node x = (1, sL) := by
  obtain ⟨h0n, hnc, hc2, h23, hp3⟩ := g
  rw [RiemannGen.solveAtNode, scr_regions e d a prev next xd0 t xmaxW hL hR ⟨h0n, hnc, hc2, h23, hp3⟩,
    fold_fire (by linarith), fold_skip h2, fold_skip (by linarith), fold_skip (by linarith), fold_nil,
    interpS_srr_right h0n h1]

theorem scr_zone_starR {x : ℝ} (h1 : Xc < x) (h2 : x ≤ XtR) : node x = (2, sR) := by
  obtain ⟨h0n, hnc, hc2, h23, hp3⟩ := g
  rw [RiemannGen.solveAtNode, scr_regions e d a prev next xd0 t xmaxW hL hR ⟨h0n, hnc, hc2, h23, hp3⟩,
    fold_fire (by linarith), fold_fire h1, fold_skip h2, fold_skip (by linarith), fold_nil, interpS_const2]

theorem scr_zone_fan {x : ℝ} (h1 : XtR < x) (h2 : x ≤ prev XhR) : node x = (3, RiemannGen.interpS x fanR sR) := by
  obtain ⟨h0n, hnc, hc2, h23, hp3⟩ := g
  rw [RiemannGen.solveAtNode, scr_regions e d a prev next xd0 t xmaxW hL hR ⟨h0n, hnc, hc2, h23, hp3⟩,
    fold_fire (by linarith), fold_fire (by linarith), fold_fire h1, fold_skip h2, fold_nil, interpS_const2]

theorem scr_zone_right {x : ℝ} (h : XhR ≤ x) : node x = (4, stR) := by
  obtain ⟨h0n, hnc, hc2, h23, hp3⟩ := g
  rw [RiemannGen.solveAtNode, scr_regions e d a prev next xd0 t xmaxW hL hR ⟨h0n, hnc, hc2, h23, hp3⟩,
    fold_fire (by linarith), fold_fire (by linarith), fold_fire (by linarith), fold_fire (by linarith), fold_nil,
    interpS_srr_right hp3 h]

end scr

/-- **rarefaction – contact – rarefaction** -/
structure GridRCR : Prop where
  h01 : XhL ≤ XtL
  h1c : XtL ≤ Xc
  hc3 : Xc ≤ XtR
  h34 : XtR ≤ prev XhR
  hp4 : prev XhR < XhR

section rcr
variable (hL : a.px < d.pl) (hR : a.px < d.pr) (g : GridRCR e d a prev xd0 t)
include hL hR g

theorem rcr_regions :
    RiemannGen.regions e d a prev next xd0 t xmaxW
      = [⟨XhL, fanL⟩, ⟨XtL, [(XtL, sL), (Xc, sL)]⟩, ⟨Xc, [(Xc, sR), (XtR, sR)]⟩, ⟨XtR, fanR⟩,
         ⟨prev XhR, [(prev XhR, sR), (XhR, stR), (xmaxW, stR)]⟩] := by
  simp only [RiemannGen.regions, RiemannGen.sideL, RiemannGen.sideR, side_R hL, side_R hR]

theorem rcr_zone_left {x : ℝ} (h : x ≤ XhL) : node x = (0, stL) := by
  obtain ⟨h01, h1c, hc3, h34, hp4⟩ := g
  rw [RiemannGen.solveAtNode, rcr_regions e d a prev next xd0 t xmaxW hL hR ⟨h01, h1c, hc3, h34, hp4⟩,
    fold_skip h, fold_skip (by linarith), fold_skip (by linarith), fold_skip (by linarith), fold_skip (by linarith),
    fold_nil]

theorem rcr_zone_fanL {x : ℝ} (h0 : XhL < x) (h1 : x ≤ XtL) : node x = (1, RiemannGen.interpS x fanL stL) := by
  obtain ⟨h01, h1c, hc3, h34, hp4⟩ := g
  rw [RiemannGen.solveAtNode, rcr_regions e d a prev next xd0 t xmaxW hL hR ⟨h01, h1c, hc3, h34, hp4⟩,
    fold_fire h0, fold_skip h1, fold_skip (by linarith), fold_skip (by linarith), fold_skip (by linarith), fold_nil]

theorem rcr_zone_starL {x : ℝ} (h1 : XtL < x) (h2 : x ≤ Xc) : node x = (2, sL) := by
  obtain ⟨h01, h1c, hc3, h34, hp4⟩ := g
  rw [RiemannGen.solveAtNode, rcr_regions e d a prev next xd0 t xmaxW hL hR ⟨h01, h1c, hc3, h34, hp4⟩,
    fold_fire (by linarith), fold_fire h1, fold_skip h2, fold_skip (by linarith), fold_skip (by linarith), fold_nil,
    interpS_const2]

theorem rcr_zone_starR {x : ℝ} (h1 : Xc < x) (h2 : x ≤ XtR) : node x = (3, sR) := by
  obtain ⟨h01, h1c, hc3, h34, hp4⟩ := g
  rw [RiemannGen.solveAtNode, rcr_regions e d a prev next xd0 t xmaxW hL hR ⟨h01, h1c, hc3, h34, hp4⟩,
    fold_fire (by linarith), fold_fire (by linarith), fold_fire h1, fold_skip h2, fold_skip (by linarith), fold_nil,
    interpS_const2]

theorem rcr_zone_fanR {x : ℝ} (h1 : XtR < x) (h2 : x ≤ prev XhR) : node x = (4, RiemannGen.interpS x fanR sR) := by
  obtain ⟨h01, h1c, hc3, h34, hp4⟩ := g
  rw [RiemannGen.solveAtNode, rcr_regions e d a prev next xd0 t xmaxW hL hR ⟨h01, h1c, hc3, h34, hp4⟩,
    fold_fire (by linarith), fold_fire (by linarith), fold_fire (by linarith), fold_fire h1, fold_skip h2, fold_nil,
    interpS_const2]

theorem rcr_zone_right {x : ℝ} (h : XhR ≤ x) : node x = (5, stR) := by
  obtain ⟨h01, h1c, hc3, h34, hp4⟩ := g
  rw [RiemannGen.solveAtNode, rcr_regions e d a prev next xd0 t xmaxW hL hR ⟨h01, h1c, hc3, h34, hp4⟩,
    fold_fire (by linarith), fold_fire (by linarith), fold_fire (by linarith), fold_fire (by linarith),
    fold_fire (by linarith), fold_nil, interpS_srr_right hp4 h]

end rcr

/-- **shock – contact – shock** -/
structure GridSCS : Prop where
  h0n : XsL < next XsL
  hnc : next XsL ≤ Xc
  hc2 : Xc ≤ prev XsR
  hp2 : prev XsR < XsR

section scs
variable (hL : d.pl < a.px) (hR : d.pr < a.px) (g : GridSCS d a prev next xd0 t)
include hL hR g

theorem scs_regions :
    RiemannGen.regions e d a prev next xd0 t xmaxW
      = [⟨XsL, [(XsL, stL), (next XsL, sL), (Xc, sL)]⟩, ⟨Xc, [(Xc, sR), (prev XsR, sR), (XsR, stR)]⟩,
         ⟨prev XsR, [(prev XsR, sR), (XsR, stR), (xmaxW, stR)]⟩] := by
  simp only [RiemannGen.regions, RiemannGen.sideL, RiemannGen.sideR, side_S hL, side_S hR]

theorem scs_zone_left {x : ℝ} (h : x ≤ XsL) : node x = (0, stL) := by
  obtain ⟨h0n, hnc, hc2, hp2⟩ := g
  rw [RiemannGen.solveAtNode, scs_regions e d a prev next xd0 t xmaxW hL hR ⟨h0n, hnc, hc2, hp2⟩,
    fold_skip h, fold_skip (by linarith), fold_skip (by linarith), fold_nil]

theorem scs_zone_starL {x : ℝ} (h1 : next XsL ≤ x) (h2 : x ≤ Xc) : node x = (1, sL) := by
  obtain ⟨h0n, hnc, hc2, hp2⟩ := g
  rw [RiemannGen.solveAtNode, scs_regions e d a prev next xd0 t xmaxW hL hR ⟨h0n, hnc, hc2, hp2⟩,
    fold_fire (by linarith), fold_skip h2, fold_skip (by linarith), fold_nil, interpS_srr_right h0n h1]

theorem scs_zone_starR {x : ℝ} (h1 : Xc < x) (h2 : x ≤ prev XsR) : node x = (2, sR) := by
  obtain ⟨h0n, hnc, hc2, hp2⟩ := g
  rw [RiemannGen.solveAtNode, scs_regions e d a prev next xd0 t xmaxW hL hR ⟨h0n, hnc, hc2, hp2⟩,
    fold_fire (by linarith), fold_fire h1, fold_skip h2, fold_nil, interpS_ssr_left hp2 h2]

theorem scs_zone_right {x : ℝ} (h : XsR ≤ x) : node x = (3, stR) := by
  obtain ⟨h0n, hnc, hc2, hp2⟩ := g
  rw [RiemannGen.solveAtNode, scs_regions e d a prev next xd0 t xmaxW hL hR ⟨h0n, hnc, hc2, hp2⟩,
    fold_fire (by linarith), fold_fire (by linarith), fold_fire (by linarith), fold_nil, interpS_srr_right hp2 h]

end scs

end zones

end

end EPV.RiemGen
