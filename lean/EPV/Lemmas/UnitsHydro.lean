/-
Tactics that prove C08 for a traced hydro solver from its hand table (`EPV/Spec/UnitsHydro.lean`):
every field by structural dimensional analysis (`units_goal`), every branch selector by `units_branch`.
-/
import EPV.Spec.UnitsHydro
import EPV.Lemmas.Units
import EPV.Tactics

set_option linter.all false

open EPV EPV.Gen EPV.Spec EPV.Spec.UnitsHydro

namespace EPV.Spec

theorem factor_eq_of_fixedTime {σ : Scaling} (h : σ.T = 1) {d₁ d : Dim}
    (hm : d₁.m = d.m) (hl : d₁.l = d.l) (hθ : d₁.θ = d.θ) : factor σ d₁ = factor σ d := by
  simp only [factor, h, Real.one_rpow, hm, hl, hθ]

theorem IsScaled.cast_factor {σ : Scaling} {d₁ d : Dim} {x' x : ℝ} (h : IsScaled σ d₁ x' x)
    (e : factor σ d₁ = factor σ d) : IsScaled σ d x' x := by
  unfold IsScaled scale at *
  rw [h, e]
end EPV.Spec

/-- one field (dimensional analysis of the traced expression) or one branch selector -/
macro "units_field " sp:ident : tactic => `(tactic|
  first
  | (apply IsScaled.iff_eq.mp
     simp only [epv_tree, epv_cond, epv_leaf, $sp:ident, mul_zero, zero_mul, zero_div, mul_one, one_mul]
     units_goal)
  | (simp only [epv_tree, epv_cond, $sp:ident] <;> units_branch))

macro "units_cog " sp:ident : tactic => `(tactic|
  (unfold CovariantCog UnitCovariant SameBranch
   refine ⟨?_, ?_, ?_, ?_, ?_, ?_, ?_, ?_⟩ <;> intro σ p r t _ <;> units_field $sp))

macro "units_gas " sp:ident : tactic => `(tactic|
  (unfold CovariantGas UnitCovariant SameBranch
   refine ⟨?_, ?_, ?_, ?_, ?_, ?_, ?_⟩ <;> intro σ p r t _ <;> units_field $sp))
/-- dimensional analysis when only the mass-, length- and temperature-exponents have to agree -/
macro "units_fixed_time " h:ident : tactic => `(tactic|
  (refine IsScaled.cast_factor (d₁ := ?_) ?_ (factor_eq_of_fixedTime $h ?_ ?_ ?_)
   rotate_left
   units
   all_goals (simp [Dim.length, Dim.density, Dim.velocity, Dim.pressure, Dim.sie, Dim.temperature] <;> ring)))

macro "units_field_fixed_time " sp:ident h:ident : tactic => `(tactic|
  first
  | (apply IsScaled.iff_eq.mp
     simp only [epv_tree, epv_cond, epv_leaf, $sp:ident, mul_zero, zero_mul, zero_div, mul_one, one_mul, $h:ident]
     first
     | (with_reducible exact IsScaled.zero)
     | units_fixed_time $h)
  | (simp only [epv_tree, epv_cond, $sp:ident, $h:ident, one_mul] <;> units_branch))
