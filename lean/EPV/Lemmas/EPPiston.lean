/-
Algebra behind the elastic–plastic piston (C02 / C03 / C17), stated over plain reals so that it
can be instantiated for the three generated constructor models (hypo / hyperIfin / hyperFin),
which differ only in how the density at yield `ρ_y` is obtained.

Notation (attribute names of `EPpiston`): `ρ₀ Γ c₀ s₀ Y` parameters; `s = sdev_y = -(2/3) Y`;
`ρy ey py` state at yield; `W = wv_el`, `vy = vel_y`; `Wp = wv_pl`, `up`; `p2 ρ2 e2`.
-/
import EPV.Spec.Detonation

set_option linter.all false

namespace EPV.EPP

open EPV.Spec

noncomputable section

/-- reference Hugoniot pressure and energy of the coded Mie–Grüneisen EOS -/
def PH (ρ₀ c₀ s₀ ρ : ℝ) : ℝ := ρ₀ * c₀ ^ 2 * (1 - ρ₀ / ρ) / (1 - s₀ * (1 - ρ₀ / ρ)) ^ 2
def EH (ρ₀ c₀ s₀ ρ : ℝ) : ℝ := (1 - ρ₀ / ρ) * PH ρ₀ c₀ s₀ ρ / (ρ₀ * 2)

theorem mieGruneisen_eq (ρ₀ Γ c₀ s₀ ρ e : ℝ) :
    mieGruneisen ρ₀ Γ c₀ s₀ ρ e = PH ρ₀ c₀ s₀ ρ + Γ * ρ * (e - EH ρ₀ c₀ s₀ ρ) := by
  simp only [mieGruneisen, EH, PH]
  ring

/-- **Hugoniot energy relation at yield.**  The coded `e_y` together with `p_y = Gruneisen(ρ_y, e_y)`
satisfies `2 ρ₀ ρ_y e_y = (p_y - s)(ρ_y - ρ₀)`, for any ρ_y. -/
theorem hugoniot_energy {ρ₀ Γ Y ρy ey py s Ph Eh : ℝ}
    (hden : 2 * ρ₀ * ρy - ρy * Γ * (ρy - ρ₀) ≠ 0)
    (hs : s = -(2 / 3) * Y)
    (he : ey = (Ph - ρy * Γ * Eh + 2 / 3 * Y) * (ρy - ρ₀) / (2 * ρ₀ * ρy - ρy * Γ * (ρy - ρ₀)))
    (hp : py = Ph + Γ * ρy * (ey - Eh)) :
    2 * ρ₀ * ρy * ey = (py - s) * (ρy - ρ₀) := by
  have h1 : ey * (2 * ρ₀ * ρy - ρy * Γ * (ρy - ρ₀)) = (Ph - ρy * Γ * Eh + 2 / 3 * Y) * (ρy - ρ₀) := by
    rw [he, div_mul_cancel₀ _ hden]
  rw [hp, hs]
  linear_combination h1

/-- **Uniqueness.**  With `P(e) = Ph + Γ ρ_y (e - Eh)` (Mie–Grüneisen at ρ_y), the energy jump
condition `2 ρ₀ ρ_y e = (P(e) - s)(ρ_y - ρ₀)` has exactly one solution: the coded `e_y`. -/
theorem ey_unique {ρ₀ Γ Y ρy s Ph Eh : ℝ} (e : ℝ)
    (hden : 2 * ρ₀ * ρy - ρy * Γ * (ρy - ρ₀) ≠ 0) (hs : s = -(2 / 3) * Y) :
    2 * ρ₀ * ρy * e = (Ph + Γ * ρy * (e - Eh) - s) * (ρy - ρ₀) ↔
      e = (Ph - ρy * Γ * Eh + 2 / 3 * Y) * (ρy - ρ₀) / (2 * ρ₀ * ρy - ρy * Γ * (ρy - ρ₀)) := by
  rw [eq_div_iff hden, hs]
  constructor <;> intro h <;> linear_combination h

/-- **Elastic precursor.**  Mass, momentum (total stress `p - s`) and energy are conserved between
the undisturbed state `(ρ₀, 0, 0, 0; s = 0)` and the state at yield, across a wave of the
coded speed `W = √(ρ_y (s - p_y) / (ρ₀ (ρ₀ - ρ_y)))`. -/
theorem elastic_jump {ρ₀ ρy ey py s W vy : ℝ}
    (hρ₀ : ρ₀ ≠ 0) (hρy : ρy ≠ 0) (hne : ρ₀ - ρy ≠ 0)
    (hrad : 0 ≤ ρy * (s - py) / (ρ₀ * (ρ₀ - ρy)))
    (hW : W = Real.sqrt (ρy * (s - py) / (ρ₀ * (ρ₀ - ρy))))
    (hv : vy = W * (ρy - ρ₀) / ρy)
    (hE : 2 * ρ₀ * ρy * ey = (py - s) * (ρy - ρ₀)) :
    RankineHugoniotEP ⟨ρ₀, 0, 0, 0⟩ ⟨ρy, vy, py, ey⟩ 0 s W := by
  have hW2 : W * W = ρy * (s - py) / (ρ₀ * (ρ₀ - ρy)) := by
    rw [hW]; exact Real.mul_self_sqrt hrad
  have hW2' : W * W * (ρ₀ * (ρ₀ - ρy)) = ρy * (s - py) := by
    rw [hW2]; field_simp
  have hv' : vy * ρy = W * (ρy - ρ₀) := by rw [hv]; field_simp
  unfold RankineHugoniotEP RankineHugoniot State.massFlux State.momFlux State.energyFlux
  simp only
  have hm : ρy * (vy - W) = -(ρ₀ * W) := by linear_combination hv'
  refine ⟨by linear_combination -hm, ?_, ?_⟩
  · -- momentum: 0 = ρy (vy - W) vy + (py - s)
    rw [hm]
    have : ρ₀ * W * vy * ρy = ρy * (py - s) := by
      have : ρ₀ * W * (vy * ρy) = ρy * (py - s) := by
        rw [hv']; linear_combination -hW2'
      linear_combination this
    have h2 : ρy * (ρ₀ * W * vy - (py - s)) = 0 := by linear_combination this
    rcases mul_eq_zero.mp h2 with h | h
    · exact absurd h hρy
    · linear_combination h
  · -- energy
    rw [hm]
    have hmom : ρ₀ * W * vy = py - s := by
      have : ρ₀ * W * (vy * ρy) = ρy * (py - s) := by
        rw [hv']; linear_combination -hW2'
      have h2 : ρy * (ρ₀ * W * vy - (py - s)) = 0 := by linear_combination this
      rcases mul_eq_zero.mp h2 with h | h
      · exact absurd h hρy
      · linear_combination h
    -- ρ₀ W (ey + vy²/2) = (py - s) vy ,   2 ρ₀ ρy ey = (py - s)(ρy - ρ₀) ,  vy ρy = W (ρy - ρ₀)
    have key : ρy * (ρ₀ * W * (ey + vy ^ 2 / 2) - (py - s) * vy) = 0 := by
      have e1 : ρ₀ * W * (2 * ρy * ey) = W * ((py - s) * (ρy - ρ₀)) := by linear_combination W * hE
      have e2 : W * ((py - s) * (ρy - ρ₀)) = (py - s) * (vy * ρy) := by rw [hv']; ring
      have e3 : ρ₀ * W * vy ^ 2 = (py - s) * vy := by rw [pow_two, ← mul_assoc, hmom]
      linear_combination (1 / 2) * e1 + (1 / 2) * e2 + (ρy / 2) * e3
    rcases mul_eq_zero.mp key with h | h
    · exact absurd h hρy
    · linear_combination h

/-- **Plastic wave.**  With the coded `p2`, `ρ2`, `e2`, mass, momentum (total stress) and energy
are conserved between the state at yield and the state behind the plastic wave, across a wave of
speed `Wp` — for *every* `Wp` different from `up` and `vy` (the root of `Plastic_Residual` only
selects the one for which `(ρ2, e2, p2)` also lies on the equation of state, see C03). -/
theorem plastic_jump {ρy ey py s vy Wp up p2 ρ2 e2 : ℝ}
    (hρy : ρy ≠ 0) (h1 : Wp - up ≠ 0) (h2 : Wp - vy ≠ 0)
    (hp2 : p2 = py + ρy * (Wp - vy) * (up - vy))
    (hρ2 : ρ2 = ρy * ((Wp - vy) / (Wp - up)))
    (he2 : e2 = ey + 1 / (2 * ρy * ρ2) * (py + p2 - 2 * s) * (ρ2 - ρy)) :
    RankineHugoniotEP ⟨ρy, vy, py, ey⟩ ⟨ρ2, up, p2, e2⟩ s s Wp := by
  unfold RankineHugoniotEP RankineHugoniot State.massFlux State.momFlux State.energyFlux
  simp only
  have hρ2' : ρ2 ≠ 0 := by rw [hρ2]; positivity
  refine ⟨?_, ?_, ?_⟩
  · rw [hρ2]; field_simp; ring
  · rw [hp2, hρ2]; field_simp; ring
  · rw [he2, hp2, hρ2]; field_simp; ring

/-- compressive plastic wave: `ρ2 > ρ_y` when the piston is faster than the material behind the
elastic precursor and slower than the plastic wave -/
theorem plastic_compressive {ρy vy Wp up ρ2 : ℝ} (hρy : 0 < ρy) (h1 : up < Wp) (h2 : vy < up)
    (hρ2 : ρ2 = ρy * ((Wp - vy) / (Wp - up))) : ρy < ρ2 := by
  rw [hρ2]
  have a : 0 < Wp - up := by linarith
  have : 1 < (Wp - vy) / (Wp - up) := by rw [one_lt_div a]; linarith
  nlinarith

end

end EPV.EPP
