/-
Helper lemmas for the Sedov theorems (C11, C10): the similarity change of variables in a
radial integral, and the scaling law of the shock radius.
-/
import Mathlib.MeasureTheory.Integral.IntervalIntegral.Basic
import Mathlib.Analysis.SpecialFunctions.Integrals.Basic
import Mathlib.Tactic

namespace EPV.Lemmas.Sedov

open intervalIntegral MeasureTheory

/-- similarity change of variables r = R·x in a radial integral with weight r^j
(no integrability assumption: both sides are the Bochner integral) -/
theorem integral_similarity (F : ℝ → ℝ) (R : ℝ) (hR : 0 < R) (j : ℕ) :
    ∫ r in (0:ℝ)..R, F (r / R) * r ^ j = R ^ (j + 1) * ∫ x in (0:ℝ)..1, F x * x ^ j := by
  have h1 : (fun r : ℝ => F (r / R) * r ^ j) = fun r => (fun x => F x * (R * x) ^ j) (r / R) := by
    funext r
    simp only
    rw [mul_div_cancel₀ r hR.ne']
  rw [h1, intervalIntegral.integral_comp_div (fun x => F x * (R * x) ^ j) hR.ne', zero_div,
    div_self hR.ne', smul_eq_mul, ← intervalIntegral.integral_const_mul,
    ← intervalIntegral.integral_const_mul]
  congr 1
  funext x
  ring

/-- the shock radius `a^(1/x) · t^(2/x)` raised to the power x is `a t²` -/
theorem r2_rpow (a t x : ℝ) (ha : 0 < a) (ht : 0 < t) (hx : x ≠ 0) :
    (a ^ (1 / x) * t ^ (2 / x)) ^ x = a * t ^ 2 := by
  rw [Real.mul_rpow (Real.rpow_nonneg ha.le _) (Real.rpow_nonneg ht.le _), ← Real.rpow_mul ha.le,
    ← Real.rpow_mul ht.le]
  rw [one_div, inv_mul_cancel₀ hx, Real.rpow_one, div_mul_cancel₀ _ hx]
  norm_cast

theorem r2_pos (a t x : ℝ) (ha : 0 < a) (ht : 0 < t) : 0 < a ^ (1 / x) * t ^ (2 / x) :=
  mul_pos (Real.rpow_pos_of_pos ha _) (Real.rpow_pos_of_pos ht _)

/-- `R^k · R^(-ω) · R² = R^(k+2-ω)` for a natural k and real ω -/
theorem pow_combine (R ω : ℝ) (k : ℕ) (hR : 0 < R) :
    R ^ k * R ^ (-ω) * R ^ 2 = R ^ ((k : ℝ) + 2 - ω) := by
  have h1 : R ^ k = R ^ (k : ℝ) := (Real.rpow_natCast R k).symm
  have h2 : R ^ 2 = R ^ (2 : ℝ) := by norm_cast
  rw [h1, h2, ← Real.rpow_add hR, ← Real.rpow_add hR]
  congr 1
  ring

/-- split the integral of a linear combination of two integrable functions -/
theorem integral_lin (c₁ c₂ : ℝ) (A B : ℝ → ℝ) (a b : ℝ)
    (hA : IntervalIntegrable A volume a b) (hB : IntervalIntegrable B volume a b) :
    ∫ x in a..b, (c₁ * A x + c₂ * B x) = c₁ * (∫ x in a..b, A x) + c₂ * ∫ x in a..b, B x := by
  rw [intervalIntegral.integral_add (hA.const_mul c₁) (hB.const_mul c₂),
    intervalIntegral.integral_const_mul, intervalIntegral.integral_const_mul]

/-- mass of the power-law profile ρ₀ r^(-ω) with weight r^j inside radius R, for ω < j+1 -/
theorem integral_ambient (ρ₀ ω R : ℝ) (j : ℕ) (hR : 0 < R) (hω : ω < (j : ℝ) + 1) :
    ∫ r in (0:ℝ)..R, ρ₀ * r ^ (-ω) * r ^ j = ρ₀ * R ^ ((j : ℝ) + 1 - ω) / ((j : ℝ) + 1 - ω) := by
  have hne : (j : ℝ) + 1 - ω ≠ 0 := by linarith
  have hcongr : ∫ r in (0:ℝ)..R, ρ₀ * r ^ (-ω) * r ^ j = ∫ r in (0:ℝ)..R, ρ₀ * r ^ ((j : ℝ) - ω) := by
    apply intervalIntegral.integral_congr_ae
    refine Filter.Eventually.of_forall ?_
    intro r hr
    rw [Set.uIoc_of_le hR.le] at hr
    have hr0 : 0 < r := hr.1
    rw [mul_assoc, ← Real.rpow_natCast r j, ← Real.rpow_add hr0]
    congr 2
    ring
  rw [hcongr, intervalIntegral.integral_const_mul, integral_rpow (Or.inl (by linarith))]
  have h0 : (0 : ℝ) ^ ((j : ℝ) - ω + 1) = 0 := Real.zero_rpow (by linarith)
  rw [h0, sub_zero]
  have e : (j : ℝ) - ω + 1 = (j : ℝ) + 1 - ω := by ring
  rw [e, mul_div_assoc]

end EPV.Lemmas.Sedov
