/-
Lemmas about the generated SDRZ models shared by the C02 / C03 / C17 / C20 theorems:
the returned fields in the documented closed form of the special case D = D_j,
λ = t (2 - t) (`exactpack/solvers/sdrz/__init__.py`, "Special case for SDRZ problem"):

    p = p_j (2 - t),   ρ = ρ_j γ / (γ + t - 1),   u = (1 - ρ₀/ρ) D = D (2 - t)/(γ + 1),
    p_j = ρ₀ D²/(γ + 1),   ρ_j = ρ₀ (γ + 1)/γ .
-/
import EPV.Gen.SDRZProfile
import EPV.Gen.SDRZTail
import EPV.Tactics
import EPV.Lemmas.Bridge.DetonTactics

set_option linter.all false

open EPV EPV.Gen

namespace EPV.SDRZ

/-- g(t) = √(1 - λ/f) with f = (D/D)² = 1 and λ = t (2 - t) is 1 - t for t ≤ 1 -/
theorem g_eq (D t : ℝ) (hD : D ≠ 0) (h1 : t ≤ 1) :
    Real.sqrt (1 - t * (2 - t) / (D / D) ^ (2 : ℕ)) = 1 - t := by
  rw [div_self hD, one_pow, div_one]
  have : 1 - t * (2 - t) = (1 - t) ^ 2 := by ring
  rw [this, Real.sqrt_sq (by linarith)]

theorem g_one (D : ℝ) (hD : D ≠ 0) : Real.sqrt (1 - 1 / (D / D) ^ (2 : ℕ)) = 0 := by
  rw [div_self hD]; norm_num

/-- the returned fields in closed form, reaction in progress (0 ≤ t ≤ 1), every γ > 1 -/
theorem closed_form (p : SDRZProfile.P) (t : ℝ) (h : SDRZProfile.outcome p t = .ok)
    (hγ : 1 < p.gamma) (h0 : 0 ≤ t) (h1 : t ≤ 1) :
    SDRZProfile.pressure p t = p.rho_0 * p.D ^ 2 / (p.gamma + 1) * (2 - t) ∧
    SDRZProfile.density p t = p.rho_0 * (p.gamma + 1) / (p.gamma + t - 1) ∧
    SDRZProfile.velocity p t = p.D * (2 - t) / (p.gamma + 1) ∧
    SDRZProfile.sound_speed p t
      = Real.sqrt (p.gamma * SDRZProfile.pressure p t / SDRZProfile.density p t) ∧
    SDRZProfile.reaction_progress p t = t * (2 - t) ∧
    0 < p.D ∧ 0 < p.rho_0 := by
  simp only [epv_tree] at *
  split_ifs at * <;> first
    | epv_absurd
    | (simp only [epv_cond, not_le, not_lt] at *
       have hD : p.D ≠ 0 := by linarith
       have hg := g_eq p.D t hD h1
       have hg1 := g_one p.D hD
       have e1 : p.gamma - (1 - t) ≠ 0 := by linarith
       have e1' : p.gamma + t - 1 ≠ 0 := by linarith
       have e2 : p.gamma - 0 ≠ 0 := by linarith
       have e3 : p.gamma ≠ 0 := by linarith
       have e4 : p.gamma + 1 ≠ 0 := by linarith
       have e5 : p.rho_0 ≠ 0 := by linarith
       first
         | (exfalso; nlinarith)
         | (have ht : t = 1 := by nlinarith
            subst ht
            refine ⟨?_, ?_, ?_, ?_, ?_, by assumption, by assumption⟩ <;> simp only [epv_leaf] <;>
              (repeat epv_deton_sqrt_rw (0 : ℝ)) <;> epv_deton_feqd)
         | (refine ⟨?_, ?_, ?_, ?_, ?_, by assumption, by assumption⟩ <;> simp only [epv_leaf] <;>
              (repeat epv_deton_sqrt_rw (1 - t)) <;> epv_deton_feqd))

/-- the returned fields behind the reaction zone (t ≥ 1): the Chapman–Jouguet state -/
theorem tail_closed_form (p : SDRZTail.P) (t : ℝ) (h : SDRZTail.outcome p t = .ok)
    (hγ : 1 < p.gamma) (h1 : 1 ≤ t) :
    SDRZTail.pressure p t = p.rho_0 * p.D ^ 2 / (p.gamma + 1) ∧
    SDRZTail.density p t = p.rho_0 * (p.gamma + 1) / p.gamma ∧
    SDRZTail.velocity p t = p.D / (p.gamma + 1) ∧
    SDRZTail.sound_speed p t
      = Real.sqrt (p.gamma * SDRZTail.pressure p t / SDRZTail.density p t) ∧
    SDRZTail.reaction_progress p t = 1 ∧
    0 < p.D ∧ 0 < p.rho_0 := by
  simp only [epv_tree] at *
  split_ifs at * <;> first
    | epv_absurd
    | (simp only [epv_cond, not_le, not_lt] at *
       have hD : p.D ≠ 0 := by linarith
       have hg1 := g_one p.D hD
       have e2 : p.gamma - 0 ≠ 0 := by linarith
       have e3 : p.gamma ≠ 0 := by linarith
       have e4 : p.gamma + 1 ≠ 0 := by linarith
       have e5 : p.rho_0 ≠ 0 := by linarith
       first
         | (exfalso; nlinarith)
         | (refine ⟨?_, ?_, ?_, ?_, ?_, by assumption, by assumption⟩ <;> simp only [epv_leaf] <;>
              (repeat epv_deton_sqrt_rw (0 : ℝ)) <;> epv_deton_feqd))

end EPV.SDRZ
