/-
Blake, the six elastic parameters: the traced `set_elastic_params` accepts a pair exactly when the pair is
documented-valid (`Spec.Blake.DocumentedPair`).  Proofs; restated as property theorems in
`Props/C20/BlakeMod.lean` and used by `Props/C20/BlakeInit*.lean`.
-/
import EPV.Gen.BlakeModLG
import EPV.Gen.BlakeModLE
import EPV.Gen.BlakeModLNu
import EPV.Gen.BlakeModLK
import EPV.Gen.BlakeModLM
import EPV.Gen.BlakeModGE
import EPV.Gen.BlakeModGNu
import EPV.Gen.BlakeModGK
import EPV.Gen.BlakeModGM
import EPV.Gen.BlakeModENu
import EPV.Gen.BlakeModEK
import EPV.Gen.BlakeModEM
import EPV.Gen.BlakeModNuK
import EPV.Gen.BlakeModNuM
import EPV.Gen.BlakeModKM
import EPV.Spec.Blake
import EPV.Lemmas.Blake
import EPV.Lemmas.BlakeModuli
import EPV.Lemmas.BlakeFields
import EPV.Tactics

import EPV.Lemmas.Bridge.DetonTactics

set_option linter.all false

open EPV EPV.Gen EPV.Spec.Blake EPV.Blake

namespace EPV.Blake

theorem modLG_given (p : BlakeModLG.P) (h : BlakeModLG.outcome p = .ok) :
    Kind.GivenOk .lame p.lame_mod ∧ Kind.GivenOk .shear p.shear_mod := by
  unfold BlakeModLG.outcome at h
  epv_walk (
    simp only [epv_cond] at *
    simp only [Kind.GivenOk]
    refine ⟨?_, ?_⟩ <;> first | linarith | exact ⟨by linarith, by linarith⟩)

theorem modLG_accepts_iff (p : BlakeModLG.P) :
    BlakeModLG.outcome p = .ok ↔ DocumentedPair .lame .shear p.lame_mod p.shear_mod := by
  constructor
  · intro h
    obtain ⟨m, e1, e2⟩ := EPV.Blake.modLG_ok p h
    obtain ⟨g1, g2⟩ := modLG_given p h
    refine ⟨g1, g2, _, _, m.shear_pos, m.bulk_pos, ?_, ?_⟩
    · rw [← e1]; exact m.kind_of.1
    · rw [← e2]; exact m.kind_of.2.1
  · rintro ⟨hx, hy, L, G, hG, hB, h1, h2⟩
    simp only [Kind.of, Kind.GivenOk] at hx hy h1 h2
    have hLG : 0 < L + G := by linarith
    have hc0 : ¬ BlakeModLG.c0 p := by simp only [epv_cond]; linarith
    have hc1 : ¬ BlakeModLG.c1 p := by simp only [epv_cond]; linarith
    have hc2 : BlakeModLG.c2 p := by simp only [epv_cond]; linarith
    have hc3 : BlakeModLG.c3 p := by simp only [epv_cond]; linarith
    simp only [epv_tree, hc0, hc1, hc2, hc3, if_true, if_false, ite_self]

theorem modLE_given (p : BlakeModLE.P) (h : BlakeModLE.outcome p = .ok) :
    Kind.GivenOk .lame p.lame_mod ∧ Kind.GivenOk .youngs p.youngs_mod := by
  unfold BlakeModLE.outcome at h
  epv_walk (
    simp only [epv_cond] at *
    simp only [Kind.GivenOk]
    refine ⟨?_, ?_⟩ <;> first | linarith | exact ⟨by linarith, by linarith⟩)

theorem modLE_accepts_iff (p : BlakeModLE.P) :
    BlakeModLE.outcome p = .ok ↔ DocumentedPair .lame .youngs p.lame_mod p.youngs_mod := by
  constructor
  · intro h
    obtain ⟨m, e1, e2⟩ := EPV.Blake.modLE_ok p h
    obtain ⟨g1, g2⟩ := modLE_given p h
    refine ⟨g1, g2, _, _, m.shear_pos, m.bulk_pos, ?_, ?_⟩
    · rw [← e1]; exact m.kind_of.1
    · rw [← e2]; exact m.kind_of.2.2.1
  · rintro ⟨hx, hy, L, G, hG, hB, h1, h2⟩
    simp only [Kind.of, Kind.GivenOk] at hx hy h1 h2
    have hLG : 0 < L + G := by linarith
    have hE : p.youngs_mod * (L + G) = G * (3 * L + 2 * G) := by rw [← h2]; field_simp
    have e : (4 * G + 3 * L - p.youngs_mod) * (L + G) = 2 * (L + G) ^ 2 + L ^ 2 := by linear_combination (-1 : ℝ) * hE
    have hpos : 0 < 4 * G + 3 * L - p.youngs_mod := (mul_pos_iff_of_pos_right hLG).mp (e ▸ by positivity)
    have hR : (p.youngs_mod ^ (2 : ℕ) + 9 * p.lame_mod ^ (2 : ℕ) + 2 * p.youngs_mod * p.lame_mod) ^ ((1 : ℝ) / 2)
        = 4 * G + 3 * L - p.youngs_mod :=
      rpow_half_eq hpos.le (by rw [← h1]; linear_combination (-8 : ℝ) * hE)
    have hc0 : ¬ BlakeModLE.c0 p := by
      simp only [epv_cond]
      linarith
    have hc1 : ¬ BlakeModLE.c1 p := by
      simp only [epv_cond]
      linarith
    have hc2 : BlakeModLE.c2 p := by
      simp only [epv_cond]
      epv_deton_rpow_half_to (4 * G + 3 * L - p.youngs_mod) (rw [← h1]; linear_combination (-8 : ℝ) * hE)
      linarith
    have hc3 : BlakeModLE.c3 p := by
      simp only [epv_cond]
      epv_deton_rpow_half_to (4 * G + 3 * L - p.youngs_mod) (rw [← h1]; linear_combination (-8 : ℝ) * hE)
      linarith
    simp only [epv_tree, hc0, hc1, hc2, hc3, if_true, if_false, ite_self]

theorem modLNu_given (p : BlakeModLNu.P) (h : BlakeModLNu.outcome p = .ok) :
    Kind.GivenOk .lame p.lame_mod ∧ Kind.GivenOk .poisson p.poisson_ratio := by
  unfold BlakeModLNu.outcome at h
  epv_walk (
    simp only [epv_cond] at *
    simp only [Kind.GivenOk]
    refine ⟨?_, ?_⟩ <;> first | linarith | exact ⟨by linarith, by linarith⟩)

theorem modLNu_accepts_iff (p : BlakeModLNu.P) :
    BlakeModLNu.outcome p = .ok ↔ DocumentedPair .lame .poisson p.lame_mod p.poisson_ratio := by
  constructor
  · intro h
    obtain ⟨m, e1, e2⟩ := EPV.Blake.modLNu_ok p h
    obtain ⟨g1, g2⟩ := modLNu_given p h
    refine ⟨g1, g2, _, _, m.shear_pos, m.bulk_pos, ?_, ?_⟩
    · rw [← e1]; exact m.kind_of.1
    · rw [← e2]; exact m.kind_of.2.2.2.1
  · rintro ⟨hx, hy, L, G, hG, hB, h1, h2⟩
    simp only [Kind.of, Kind.GivenOk] at hx hy h1 h2
    have hLG : 0 < L + G := by linarith
    have hν : p.poisson_ratio * (2 * (L + G)) = L := by rw [← h2]; field_simp
    have hνpos : 0 < p.poisson_ratio := by rw [← h2]; have : 0 < L := by linarith
                                           positivity
    have e : p.lame_mod * (1 - 2 * p.poisson_ratio) / (2 * p.poisson_ratio) = G := by
      rw [div_eq_iff (by positivity), ← h1]; linear_combination (-1 : ℝ) * hν
    have hc0 : ¬ BlakeModLNu.c0 p := by
      simp only [epv_cond]
      linarith
    have hc1 : BlakeModLNu.c1 p := by
      simp only [epv_cond]
      exact hy.1
    have hc2 : BlakeModLNu.c2 p := by
      simp only [epv_cond]
      exact hy.2
    have hc3 : BlakeModLNu.c3 p := by
      simp only [epv_cond]
      rw [e]; exact hG
    have hc4 : BlakeModLNu.c4 p := by
      simp only [epv_cond]
      rw [e]; linarith
    simp only [epv_tree, hc0, hc1, hc2, hc3, hc4, if_true, if_false, ite_self]

theorem modLK_given (p : BlakeModLK.P) (h : BlakeModLK.outcome p = .ok) :
    Kind.GivenOk .lame p.lame_mod ∧ Kind.GivenOk .bulk p.bulk_mod := by
  unfold BlakeModLK.outcome at h
  epv_walk (
    simp only [epv_cond] at *
    simp only [Kind.GivenOk]
    refine ⟨?_, ?_⟩ <;> first | linarith | exact ⟨by linarith, by linarith⟩)

theorem modLK_accepts_iff (p : BlakeModLK.P) :
    BlakeModLK.outcome p = .ok ↔ DocumentedPair .lame .bulk p.lame_mod p.bulk_mod := by
  constructor
  · intro h
    obtain ⟨m, e1, e2⟩ := EPV.Blake.modLK_ok p h
    obtain ⟨g1, g2⟩ := modLK_given p h
    refine ⟨g1, g2, _, _, m.shear_pos, m.bulk_pos, ?_, ?_⟩
    · rw [← e1]; exact m.kind_of.1
    · rw [← e2]; exact m.kind_of.2.2.2.2.1
  · rintro ⟨hx, hy, L, G, hG, hB, h1, h2⟩
    simp only [Kind.of, Kind.GivenOk] at hx hy h1 h2
    have hLG : 0 < L + G := by linarith
    have hc0 : ¬ BlakeModLK.c0 p := by
      simp only [epv_cond]
      linarith
    have hc1 : ¬ BlakeModLK.c1 p := by
      simp only [epv_cond]
      linarith
    have hc2 : ¬ BlakeModLK.c2 p := by
      simp only [epv_cond]
      rw [← h1, ← h2, abs_of_neg (by linarith), abs_of_pos (by linarith)]
      linarith
    have hc4 : BlakeModLK.c4 p := by
      simp only [epv_cond]
      linarith
    have hc5 : BlakeModLK.c5 p := by
      simp only [epv_cond]
      linarith
    simp only [epv_tree, hc0, hc1, hc2, hc4, hc5, if_true, if_false, ite_self]

theorem modLM_given (p : BlakeModLM.P) (h : BlakeModLM.outcome p = .ok) :
    Kind.GivenOk .lame p.lame_mod ∧ Kind.GivenOk .long p.long_mod := by
  unfold BlakeModLM.outcome at h
  epv_walk (
    simp only [epv_cond] at *
    simp only [Kind.GivenOk]
    refine ⟨?_, ?_⟩ <;> first | linarith | exact ⟨by linarith, by linarith⟩)

theorem modLM_accepts_iff (p : BlakeModLM.P) :
    BlakeModLM.outcome p = .ok ↔ DocumentedPair .lame .long p.lame_mod p.long_mod := by
  constructor
  · intro h
    obtain ⟨m, e1, e2⟩ := EPV.Blake.modLM_ok p h
    obtain ⟨g1, g2⟩ := modLM_given p h
    refine ⟨g1, g2, _, _, m.shear_pos, m.bulk_pos, ?_, ?_⟩
    · rw [← e1]; exact m.kind_of.1
    · rw [← e2]; exact m.kind_of.2.2.2.2.2
  · rintro ⟨hx, hy, L, G, hG, hB, h1, h2⟩
    simp only [Kind.of, Kind.GivenOk] at hx hy h1 h2
    have hLG : 0 < L + G := by linarith
    have hc0 : ¬ BlakeModLM.c0 p := by
      simp only [epv_cond]
      linarith
    have hc1 : ¬ BlakeModLM.c1 p := by
      simp only [epv_cond]
      linarith
    have hc2 : BlakeModLM.c2 p := by
      simp only [epv_cond]
      linarith
    have hc3 : BlakeModLM.c3 p := by
      simp only [epv_cond]
      linarith
    simp only [epv_tree, hc0, hc1, hc2, hc3, if_true, if_false, ite_self]

theorem modGE_given (p : BlakeModGE.P) (h : BlakeModGE.outcome p = .ok) :
    Kind.GivenOk .shear p.shear_mod ∧ Kind.GivenOk .youngs p.youngs_mod := by
  unfold BlakeModGE.outcome at h
  epv_walk (
    simp only [epv_cond] at *
    simp only [Kind.GivenOk]
    refine ⟨?_, ?_⟩ <;> first | linarith | exact ⟨by linarith, by linarith⟩)

theorem modGE_accepts_iff (p : BlakeModGE.P) :
    BlakeModGE.outcome p = .ok ↔ DocumentedPair .shear .youngs p.shear_mod p.youngs_mod ∧ ¬ NearSingular p.youngs_mod (3 * p.shear_mod) := by
  constructor
  · intro h
    obtain ⟨m, e1, e2⟩ := EPV.Blake.modGE_ok p h
    obtain ⟨g1, g2⟩ := modGE_given p h
    refine ⟨⟨g1, g2, _, _, m.shear_pos, m.bulk_pos, ?_, ?_⟩, ?_⟩
    · rw [← e1]; exact m.kind_of.2.1
    · rw [← e2]; exact m.kind_of.2.2.1
    · -- the near-singular band is rejected
      clear m e1 e2
      unfold BlakeModGE.outcome at h
      epv_walk (simp only [epv_cond] at *; simp only [NearSingular, reltol]; assumption)
  · rintro ⟨⟨hx, hy, L, G, hG, hB, h1, h2⟩, hband⟩
    simp only [Kind.of, Kind.GivenOk] at hx hy h1 h2
    have hLG : 0 < L + G := by linarith
    have hE : p.youngs_mod * (L + G) = G * (3 * L + 2 * G) := by rw [← h2]; field_simp
    have e : (3 * G - p.youngs_mod) * (L + G) = G ^ 2 := by linear_combination (-1 : ℝ) * hE
    have hlt : 0 < 3 * G - p.youngs_mod := (mul_pos_iff_of_pos_right hLG).mp (e ▸ by positivity)
    have hq : 0 < p.youngs_mod / (2 * p.shear_mod) := by positivity
    have hq2 : p.youngs_mod / (2 * p.shear_mod) < 3 / 2 := by
      rw [div_lt_iff₀ (by positivity)]; linarith
    have hc0 : ¬ BlakeModGE.c0 p := by
      simp only [epv_cond]
      linarith
    have hc1 : ¬ BlakeModGE.c1 p := by
      simp only [epv_cond]
      linarith
    have hc2 : ¬ BlakeModGE.c2 p := by
      simp only [epv_cond]
      simpa only [NearSingular, reltol] using hband
    have hc4 : BlakeModGE.c4 p := by
      simp only [epv_cond]
      linarith
    have hc5 : BlakeModGE.c5 p := by
      simp only [epv_cond]
      linarith
    have hc6 : BlakeModGE.c6 p := by
      simp only [epv_cond]
      linarith
    simp only [epv_tree, hc0, hc1, hc2, hc4, hc5, hc6, if_true, if_false, ite_self]

theorem modGNu_given (p : BlakeModGNu.P) (h : BlakeModGNu.outcome p = .ok) :
    Kind.GivenOk .shear p.shear_mod ∧ Kind.GivenOk .poisson p.poisson_ratio := by
  unfold BlakeModGNu.outcome at h
  epv_walk (
    simp only [epv_cond] at *
    simp only [Kind.GivenOk]
    refine ⟨?_, ?_⟩ <;> first | linarith | exact ⟨by linarith, by linarith⟩)

theorem modGNu_accepts_iff (p : BlakeModGNu.P) :
    BlakeModGNu.outcome p = .ok ↔ DocumentedPair .shear .poisson p.shear_mod p.poisson_ratio := by
  constructor
  · intro h
    obtain ⟨m, e1, e2⟩ := EPV.Blake.modGNu_ok p h
    obtain ⟨g1, g2⟩ := modGNu_given p h
    refine ⟨g1, g2, _, _, m.shear_pos, m.bulk_pos, ?_, ?_⟩
    · rw [← e1]; exact m.kind_of.2.1
    · rw [← e2]; exact m.kind_of.2.2.2.1
  · rintro ⟨hx, hy, L, G, hG, hB, h1, h2⟩
    simp only [Kind.of, Kind.GivenOk] at hx hy h1 h2
    have hLG : 0 < L + G := by linarith
    have hc0 : ¬ BlakeModGNu.c0 p := by
      simp only [epv_cond]
      linarith
    have hc1 : BlakeModGNu.c1 p := by
      simp only [epv_cond]
      exact hy.1
    have hc2 : BlakeModGNu.c2 p := by
      simp only [epv_cond]
      exact hy.2
    have hc3 : BlakeModGNu.c3 p := by
      simp only [epv_cond]
      linarith
    simp only [epv_tree, hc0, hc1, hc2, hc3, if_true, if_false, ite_self]

theorem modGK_given (p : BlakeModGK.P) (h : BlakeModGK.outcome p = .ok) :
    Kind.GivenOk .shear p.shear_mod ∧ Kind.GivenOk .bulk p.bulk_mod := by
  unfold BlakeModGK.outcome at h
  epv_walk (
    simp only [epv_cond] at *
    simp only [Kind.GivenOk]
    refine ⟨?_, ?_⟩ <;> first | linarith | exact ⟨by linarith, by linarith⟩)

theorem modGK_accepts_iff (p : BlakeModGK.P) :
    BlakeModGK.outcome p = .ok ↔ DocumentedPair .shear .bulk p.shear_mod p.bulk_mod := by
  constructor
  · intro h
    obtain ⟨m, e1, e2⟩ := EPV.Blake.modGK_ok p h
    obtain ⟨g1, g2⟩ := modGK_given p h
    refine ⟨g1, g2, _, _, m.shear_pos, m.bulk_pos, ?_, ?_⟩
    · rw [← e1]; exact m.kind_of.2.1
    · rw [← e2]; exact m.kind_of.2.2.2.2.1
  · rintro ⟨hx, hy, L, G, hG, hB, h1, h2⟩
    simp only [Kind.of, Kind.GivenOk] at hx hy h1 h2
    have hLG : 0 < L + G := by linarith
    have hc0 : ¬ BlakeModGK.c0 p := by
      simp only [epv_cond]
      linarith
    have hc1 : ¬ BlakeModGK.c1 p := by
      simp only [epv_cond]
      linarith
    have hc3 : BlakeModGK.c3 p := by
      simp only [epv_cond]
      linarith
    have hc4 : BlakeModGK.c4 p := by
      simp only [epv_cond]
      linarith
    simp only [epv_tree, hc0, hc1, hc3, hc4, if_true, if_false, ite_self]

theorem modGM_given (p : BlakeModGM.P) (h : BlakeModGM.outcome p = .ok) :
    Kind.GivenOk .shear p.shear_mod ∧ Kind.GivenOk .long p.long_mod := by
  unfold BlakeModGM.outcome at h
  epv_walk (
    simp only [epv_cond] at *
    simp only [Kind.GivenOk]
    refine ⟨?_, ?_⟩ <;> first | linarith | exact ⟨by linarith, by linarith⟩)

theorem modGM_accepts_iff (p : BlakeModGM.P) :
    BlakeModGM.outcome p = .ok ↔ DocumentedPair .shear .long p.shear_mod p.long_mod := by
  constructor
  · intro h
    obtain ⟨m, e1, e2⟩ := EPV.Blake.modGM_ok p h
    obtain ⟨g1, g2⟩ := modGM_given p h
    refine ⟨g1, g2, _, _, m.shear_pos, m.bulk_pos, ?_, ?_⟩
    · rw [← e1]; exact m.kind_of.2.1
    · rw [← e2]; exact m.kind_of.2.2.2.2.2
  · rintro ⟨hx, hy, L, G, hG, hB, h1, h2⟩
    simp only [Kind.of, Kind.GivenOk] at hx hy h1 h2
    have hLG : 0 < L + G := by linarith
    have hc0 : ¬ BlakeModGM.c0 p := by
      simp only [epv_cond]
      linarith
    have hc1 : ¬ BlakeModGM.c1 p := by
      simp only [epv_cond]
      linarith
    have hc2 : ¬ BlakeModGM.c2 p := by
      simp only [epv_cond]
      rw [← h1, ← h2, abs_of_pos (by linarith), abs_of_pos hG]
      linarith
    have hc4 : BlakeModGM.c4 p := by
      simp only [epv_cond]
      linarith
    have hc5 : BlakeModGM.c5 p := by
      simp only [epv_cond]
      rw [lt_div_iff₀ (by linarith)]
      linarith
    have hc6 : BlakeModGM.c6 p := by
      simp only [epv_cond]
      rw [div_lt_iff₀ (by linarith)]
      linarith
    simp only [epv_tree, hc0, hc1, hc2, hc4, hc5, hc6, if_true, if_false, ite_self]

theorem modENu_given (p : BlakeModENu.P) (h : BlakeModENu.outcome p = .ok) :
    Kind.GivenOk .youngs p.youngs_mod ∧ Kind.GivenOk .poisson p.poisson_ratio := by
  unfold BlakeModENu.outcome at h
  epv_walk (
    simp only [epv_cond] at *
    simp only [Kind.GivenOk]
    refine ⟨?_, ?_⟩ <;> first | linarith | exact ⟨by linarith, by linarith⟩)

theorem modENu_accepts_iff (p : BlakeModENu.P) :
    BlakeModENu.outcome p = .ok ↔ DocumentedPair .youngs .poisson p.youngs_mod p.poisson_ratio := by
  constructor
  · intro h
    obtain ⟨m, e1, e2⟩ := EPV.Blake.modENu_ok p h
    obtain ⟨g1, g2⟩ := modENu_given p h
    refine ⟨g1, g2, _, _, m.shear_pos, m.bulk_pos, ?_, ?_⟩
    · rw [← e1]; exact m.kind_of.2.2.1
    · rw [← e2]; exact m.kind_of.2.2.2.1
  · rintro ⟨hx, hy, L, G, hG, hB, h1, h2⟩
    simp only [Kind.of, Kind.GivenOk] at hx hy h1 h2
    have hLG : 0 < L + G := by linarith
    have hc0 : ¬ BlakeModENu.c0 p := by
      simp only [epv_cond]
      linarith
    have hc1 : BlakeModENu.c1 p := by
      simp only [epv_cond]
      exact hy.1
    have hc2 : BlakeModENu.c2 p := by
      simp only [epv_cond]
      exact hy.2
    have hc3 : BlakeModENu.c3 p := by
      simp only [epv_cond]
      linarith
    simp only [epv_tree, hc0, hc1, hc2, hc3, if_true, if_false, ite_self]

theorem modEK_given (p : BlakeModEK.P) (h : BlakeModEK.outcome p = .ok) :
    Kind.GivenOk .youngs p.youngs_mod ∧ Kind.GivenOk .bulk p.bulk_mod := by
  unfold BlakeModEK.outcome at h
  epv_walk (
    simp only [epv_cond] at *
    simp only [Kind.GivenOk]
    refine ⟨?_, ?_⟩ <;> first | linarith | exact ⟨by linarith, by linarith⟩)

theorem modEK_accepts_iff (p : BlakeModEK.P) :
    BlakeModEK.outcome p = .ok ↔ DocumentedPair .youngs .bulk p.youngs_mod p.bulk_mod ∧ ¬ NearSingular p.youngs_mod (9 * p.bulk_mod) := by
  constructor
  · intro h
    obtain ⟨m, e1, e2⟩ := EPV.Blake.modEK_ok p h
    obtain ⟨g1, g2⟩ := modEK_given p h
    refine ⟨⟨g1, g2, _, _, m.shear_pos, m.bulk_pos, ?_, ?_⟩, ?_⟩
    · rw [← e1]; exact m.kind_of.2.2.1
    · rw [← e2]; exact m.kind_of.2.2.2.2.1
    · -- the near-singular band is rejected
      clear m e1 e2
      unfold BlakeModEK.outcome at h
      epv_walk (simp only [epv_cond] at *; simp only [NearSingular, reltol]; assumption)
  · rintro ⟨⟨hx, hy, L, G, hG, hB, h1, h2⟩, hband⟩
    simp only [Kind.of, Kind.GivenOk] at hx hy h1 h2
    have hLG : 0 < L + G := by linarith
    have hE : p.youngs_mod * (L + G) = G * (3 * L + 2 * G) := by rw [← h1]; field_simp
    have e : (9 * p.bulk_mod - p.youngs_mod) * (L + G) = (3 * L + 2 * G) ^ 2 := by
      rw [← h2]; linear_combination (-1 : ℝ) * hE
    have hlt : 0 < 9 * p.bulk_mod - p.youngs_mod := (mul_pos_iff_of_pos_right hLG).mp (e ▸ by positivity)
    have hc0 : ¬ BlakeModEK.c0 p := by
      simp only [epv_cond]
      linarith
    have hc1 : ¬ BlakeModEK.c1 p := by
      simp only [epv_cond]
      linarith
    have hc2 : ¬ BlakeModEK.c2 p := by
      simp only [epv_cond]
      simpa only [NearSingular, reltol] using hband
    have hc4 : BlakeModEK.c4 p := by
      simp only [epv_cond]
      linarith
    have hc5 : BlakeModEK.c5 p := by
      simp only [epv_cond]
      rw [lt_div_iff₀ (by linarith)]
      linarith
    have hc6 : BlakeModEK.c6 p := by
      simp only [epv_cond]
      rw [div_lt_iff₀ (by linarith)]
      linarith
    simp only [epv_tree, hc0, hc1, hc2, hc4, hc5, hc6, if_true, if_false, ite_self]

theorem modEM_given (p : BlakeModEM.P) (h : BlakeModEM.outcome p = .ok) :
    Kind.GivenOk .youngs p.youngs_mod ∧ Kind.GivenOk .long p.long_mod := by
  unfold BlakeModEM.outcome at h
  epv_walk (
    simp only [epv_cond] at *
    simp only [Kind.GivenOk]
    refine ⟨?_, ?_⟩ <;> first | linarith | exact ⟨by linarith, by linarith⟩)

theorem modEM_accepts_iff (p : BlakeModEM.P) :
    BlakeModEM.outcome p = .ok ↔ DocumentedPair .youngs .long p.youngs_mod p.long_mod := by
  constructor
  · intro h
    obtain ⟨m, e1, e2⟩ := EPV.Blake.modEM_ok p h
    obtain ⟨g1, g2⟩ := modEM_given p h
    refine ⟨g1, g2, _, _, m.shear_pos, m.bulk_pos, ?_, ?_⟩
    · rw [← e1]; exact m.kind_of.2.2.1
    · rw [← e2]; exact m.kind_of.2.2.2.2.2
  · rintro ⟨hx, hy, L, G, hG, hB, h1, h2⟩
    simp only [Kind.of, Kind.GivenOk] at hx hy h1 h2
    have hLG : 0 < L + G := by linarith
    have hE : p.youngs_mod * (L + G) = G * (3 * L + 2 * G) := by rw [← h1]; field_simp
    have e : (p.long_mod - p.youngs_mod) * (L + G) = L ^ 2 := by rw [← h2]; linear_combination (-1 : ℝ) * hE
    have hle : 0 ≤ p.long_mod - p.youngs_mod := by
      by_contra hc
      rw [not_le] at hc
      nlinarith [sq_nonneg L]
    have hx2 : 0 ≤ p.youngs_mod ^ (2 : ℕ) + 9 * p.long_mod ^ (2 : ℕ) - 10 * p.youngs_mod * p.long_mod := by
      nlinarith [mul_nonneg hle (by linarith : (0 : ℝ) ≤ 9 * p.long_mod - p.youngs_mod)]
    have hS0 := rpow_half_nonneg (p.youngs_mod ^ (2 : ℕ) + 9 * p.long_mod ^ (2 : ℕ) - 10 * p.youngs_mod * p.long_mod)
    have hS2 := rpow_half_mul_self hx2
    have hSlt : (p.youngs_mod ^ (2 : ℕ) + 9 * p.long_mod ^ (2 : ℕ) - 10 * p.youngs_mod * p.long_mod) ^ ((1 : ℝ) / 2)
        < 3 * p.long_mod - p.youngs_mod := by
      by_contra hc
      rw [not_lt] at hc
      nlinarith [mul_pos hx hy]
    have hc0 : ¬ BlakeModEM.c0 p := by
      simp only [epv_cond]
      linarith
    have hc1 : ¬ BlakeModEM.c1 p := by
      simp only [epv_cond]
      linarith
    have hc2 : ¬ BlakeModEM.c2 p := by
      simp only [epv_cond]
      linarith
    have hc4 : BlakeModEM.c4 p := by
      simp only [epv_cond]
      linarith
    have hc5 : BlakeModEM.c5 p := by
      simp only [epv_cond]
      rw [lt_div_iff₀ hy]
      linarith
    have hc6 : BlakeModEM.c6 p := by
      simp only [epv_cond]
      rw [div_lt_iff₀ hy]
      linarith
    simp only [epv_tree, hc0, hc1, hc2, hc4, hc5, hc6, if_true, if_false, ite_self]

theorem modNuK_given (p : BlakeModNuK.P) (h : BlakeModNuK.outcome p = .ok) :
    Kind.GivenOk .poisson p.poisson_ratio ∧ Kind.GivenOk .bulk p.bulk_mod := by
  unfold BlakeModNuK.outcome at h
  epv_walk (
    simp only [epv_cond] at *
    simp only [Kind.GivenOk]
    refine ⟨?_, ?_⟩ <;> first | linarith | exact ⟨by linarith, by linarith⟩)

theorem modNuK_accepts_iff (p : BlakeModNuK.P) :
    BlakeModNuK.outcome p = .ok ↔ DocumentedPair .poisson .bulk p.poisson_ratio p.bulk_mod := by
  constructor
  · intro h
    obtain ⟨m, e1, e2⟩ := EPV.Blake.modNuK_ok p h
    obtain ⟨g1, g2⟩ := modNuK_given p h
    refine ⟨g1, g2, _, _, m.shear_pos, m.bulk_pos, ?_, ?_⟩
    · rw [← e1]; exact m.kind_of.2.2.2.1
    · rw [← e2]; exact m.kind_of.2.2.2.2.1
  · rintro ⟨hx, hy, L, G, hG, hB, h1, h2⟩
    simp only [Kind.of, Kind.GivenOk] at hx hy h1 h2
    have hLG : 0 < L + G := by linarith
    have a1 : 0 < 1 - 2 * p.poisson_ratio := by linarith [hx.2]
    have a2 : 0 < 1 + p.poisson_ratio := by linarith [hx.1]
    have hc0 : BlakeModNuK.c0 p := by
      simp only [epv_cond]
      exact hx.1
    have hc1 : BlakeModNuK.c1 p := by
      simp only [epv_cond]
      exact hx.2
    have hc2 : ¬ BlakeModNuK.c2 p := by
      simp only [epv_cond]
      linarith
    have hc3 : BlakeModNuK.c3 p := by
      simp only [epv_cond]
      positivity
    simp only [epv_tree, hc0, hc1, hc2, hc3, if_true, if_false, ite_self]

theorem modNuM_given (p : BlakeModNuM.P) (h : BlakeModNuM.outcome p = .ok) :
    Kind.GivenOk .poisson p.poisson_ratio ∧ Kind.GivenOk .long p.long_mod := by
  unfold BlakeModNuM.outcome at h
  epv_walk (
    simp only [epv_cond] at *
    simp only [Kind.GivenOk]
    refine ⟨?_, ?_⟩ <;> first | linarith | exact ⟨by linarith, by linarith⟩)

theorem modNuM_accepts_iff (p : BlakeModNuM.P) :
    BlakeModNuM.outcome p = .ok ↔ DocumentedPair .poisson .long p.poisson_ratio p.long_mod := by
  constructor
  · intro h
    obtain ⟨m, e1, e2⟩ := EPV.Blake.modNuM_ok p h
    obtain ⟨g1, g2⟩ := modNuM_given p h
    refine ⟨g1, g2, _, _, m.shear_pos, m.bulk_pos, ?_, ?_⟩
    · rw [← e1]; exact m.kind_of.2.2.2.1
    · rw [← e2]; exact m.kind_of.2.2.2.2.2
  · rintro ⟨hx, hy, L, G, hG, hB, h1, h2⟩
    simp only [Kind.of, Kind.GivenOk] at hx hy h1 h2
    have hLG : 0 < L + G := by linarith
    have a1 : 0 < 1 - 2 * p.poisson_ratio := by linarith [hx.2]
    have a2 : 0 < 1 - p.poisson_ratio := by linarith [hx.2]
    have hc0 : BlakeModNuM.c0 p := by
      simp only [epv_cond]
      exact hx.1
    have hc1 : BlakeModNuM.c1 p := by
      simp only [epv_cond]
      exact hx.2
    have hc2 : ¬ BlakeModNuM.c2 p := by
      simp only [epv_cond]
      linarith
    have hc3 : BlakeModNuM.c3 p := by
      simp only [epv_cond]
      positivity
    simp only [epv_tree, hc0, hc1, hc2, hc3, if_true, if_false, ite_self]

theorem modKM_given (p : BlakeModKM.P) (h : BlakeModKM.outcome p = .ok) :
    Kind.GivenOk .bulk p.bulk_mod ∧ Kind.GivenOk .long p.long_mod := by
  unfold BlakeModKM.outcome at h
  epv_walk (
    simp only [epv_cond] at *
    simp only [Kind.GivenOk]
    refine ⟨?_, ?_⟩ <;> first | linarith | exact ⟨by linarith, by linarith⟩)

theorem modKM_accepts_iff (p : BlakeModKM.P) :
    BlakeModKM.outcome p = .ok ↔ DocumentedPair .bulk .long p.bulk_mod p.long_mod := by
  constructor
  · intro h
    obtain ⟨m, e1, e2⟩ := EPV.Blake.modKM_ok p h
    obtain ⟨g1, g2⟩ := modKM_given p h
    refine ⟨g1, g2, _, _, m.shear_pos, m.bulk_pos, ?_, ?_⟩
    · rw [← e1]; exact m.kind_of.2.2.2.2.1
    · rw [← e2]; exact m.kind_of.2.2.2.2.2
  · rintro ⟨hx, hy, L, G, hG, hB, h1, h2⟩
    simp only [Kind.of, Kind.GivenOk] at hx hy h1 h2
    have hLG : 0 < L + G := by linarith
    have hc0 : ¬ BlakeModKM.c0 p := by
      simp only [epv_cond]
      linarith
    have hc1 : ¬ BlakeModKM.c1 p := by
      simp only [epv_cond]
      linarith
    have hc2 : BlakeModKM.c2 p := by
      simp only [epv_cond]
      linarith
    have hc3 : BlakeModKM.c3 p := by
      simp only [epv_cond]
      linarith
    simp only [epv_tree, hc0, hc1, hc2, hc3, if_true, if_false, ite_self]

end EPV.Blake
