/-
Monotonicity of the wave functions and of the four star-state residuals of the ideal-gas
Riemann solver.  The derivatives of `shock` and `rarefaction` are those of their documented closed forms
(`shock_eq`, `rare_eq` — the bridge to the traced terms), built with the combinators `EPV.D.*` of the generated
certificates `EPV.Gen.RiemShockD`, `EPV.Gen.RiemRareD`, so that the proofs do not depend on the shape of the
traced terms (GUIDE §8).  Shared by C17 (compressive shocks, pressure
ranges) and C02 (uniqueness of the meeting point of the wave curves).
-/
import EPV.Lemmas.Riemann
import EPV.Gen.RiemShockD
import EPV.Gen.RiemRareD
import Mathlib.Analysis.Calculus.Deriv.MeanValue

set_option linter.all false

open EPV EPV.Gen EPV.Model EPV.Spec.Riemann

namespace EPV.Riem

theorem shock_dsign {A B pk px S : ℝ} (hB : 0 ≤ B) (hpk : 0 < pk) (hpx : 0 < px) (hS : 0 < S)
    (hS2 : S ^ 2 = A / (px + B)) :
    0 < 1 * S + (px - pk) * ((0 * (px + B) - A * 1) / (px + B) ^ 2 / (2 * S)) := by
  have hq : 0 < px + B := by linarith
  have hA : A = S ^ 2 * (px + B) := by rw [hS2]; field_simp
  subst hA
  have : 1 * S + (px - pk) * ((0 * (px + B) - S ^ 2 * (px + B) * 1) / (px + B) ^ 2 / (2 * S))
      = S * (px + 2 * B + pk) / (2 * (px + B)) := by field_simp; ring
  rw [this]; positivity

/-- derivative of `shock` in `px` (of its documented closed form): the wave function of a shock is strictly
increasing in the star pressure -/
theorem shock_hasDerivAt_pos {p ρ γ : ℝ} (u : ℝ) (hp : 0 < p) (hρ : 0 < ρ) (hγ : 1 < γ) {px : ℝ} (hpx : 0 < px) :
    ∃ d, HasDerivAt (fun x => shock x p ρ u γ) d px ∧ 0 < d := by
  have hg1 : 0 < γ + 1 := by linarith
  have hg2 : 0 < γ - 1 := by linarith
  have hB : 0 < (γ - 1) / (γ + 1) * p := by positivity
  have hq : 0 < px + (γ - 1) / (γ + 1) * p := by linarith
  have hQ : 0 < 2 / (γ + 1) / ρ / (px + (γ - 1) / (γ + 1) * p) := by positivity
  -- shape-independent: differentiate the documented closed form (`shock_eq` is the only lemma that sees the
  -- traced term), with the same combinators `EPV.D.*` the generated certificate is built from
  have e : (fun x => shock x p ρ u γ)
      = fun x => (x - p) * Real.sqrt (2 / (γ + 1) / ρ / (x + (γ - 1) / (γ + 1) * p)) + u := by
    funext x; exact shock_eq x p ρ u γ
  rw [e]
  exact ⟨_, EPV.D.add_const (EPV.D.mul (EPV.D.sub_const (hasDerivAt_id' px) p)
      (EPV.D.sqrt (EPV.D.div (hasDerivAt_const px (2 / (γ + 1) / ρ))
        (EPV.D.add_const (hasDerivAt_id' px) ((γ - 1) / (γ + 1) * p)) hq.ne') hQ.ne')) u,
    shock_dsign hB.le hp hpx (Real.sqrt_pos.mpr hQ) (Real.sq_sqrt hQ.le)⟩

/-- derivative of `rarefaction` in `px` (of its documented closed form): strictly decreasing -/
theorem rare_hasDerivAt_neg {p ρ γ : ℝ} (u : ℝ) (hp : 0 < p) (hρ : 0 < ρ) (hγ : 1 < γ) {px : ℝ} (hpx : 0 < px) :
    ∃ d, HasDerivAt (fun x => rare x p ρ u γ) d px ∧ d < 0 := by
  have hg2 : 0 < γ - 1 := by linarith
  have hz : 0 < px / p := by positivity
  have ha : 0 < Real.sqrt (γ * p / ρ) := Real.sqrt_pos.mpr (by positivity)
  -- shape-independent: differentiate the documented closed form (`rare_eq`), see `shock_hasDerivAt_pos`
  have e : (fun x => rare x p ρ u γ)
      = fun x => 2 * Real.sqrt (γ * p / ρ) / (γ - 1) * (1 - (x / p) ^ ((γ - 1) / 2 / γ)) + u := by
    funext x; exact rare_eq x p ρ u γ
  rw [e]
  refine ⟨_, EPV.D.add_const (EPV.D.const_mul (2 * Real.sqrt (γ * p / ρ) / (γ - 1))
      (EPV.D.const_sub (1 : ℝ) (EPV.D.rpow_const (EPV.D.div_const (hasDerivAt_id' px) p) ((γ - 1) / 2 / γ) hz))) u, ?_⟩
  have hr : 0 < (px / p) ^ ((γ - 1) / 2 / γ) := Real.rpow_pos_of_pos hz _
  have : 0 < 2 * Real.sqrt (γ * p / ρ) / (γ - 1)
      * (1 / p * ((γ - 1) / 2 / γ) * ((px / p) ^ ((γ - 1) / 2 / γ) / (px / p))) := by positivity
  linarith [this]

theorem shock_leaves : RiemShock.okLeaves = [0] ∧ RiemRare.okLeaves = [0] := ⟨rfl, rfl⟩

/-- a function with a positive derivative at every point of (0, ∞) is strictly increasing there -/
theorem strictMonoOn_of_pos {f : ℝ → ℝ} (h : ∀ x, 0 < x → ∃ d, HasDerivAt f d x ∧ 0 < d) :
    StrictMonoOn f (Set.Ioi 0) := by
  apply strictMonoOn_of_deriv_pos (convex_Ioi 0)
  · intro x hx
    obtain ⟨d, hd, _⟩ := h x hx
    exact hd.continuousAt.continuousWithinAt
  · intro x hx
    rw [interior_Ioi] at hx
    obtain ⟨d, hd, hpos⟩ := h x hx
    rw [hd.deriv]; exact hpos

theorem strictAntiOn_of_neg {f : ℝ → ℝ} (h : ∀ x, 0 < x → ∃ d, HasDerivAt f d x ∧ d < 0) :
    StrictAntiOn f (Set.Ioi 0) := by
  apply strictAntiOn_of_deriv_neg (convex_Ioi 0)
  · intro x hx
    obtain ⟨d, hd, _⟩ := h x hx
    exact hd.continuousAt.continuousWithinAt
  · intro x hx
    rw [interior_Ioi] at hx
    obtain ⟨d, hd, hneg⟩ := h x hx
    rw [hd.deriv]; exact hneg

/-- derivative of each star-state residual: positive for SCS and RCS, negative for SCR and RCR -/
theorem SCS_hasDerivAt (q : Prob) (hq : q.Admissible) {px : ℝ} (hpx : 0 < px) :
    ∃ d, HasDerivAt (fun x => SCS q x) d px ∧ 0 < d := by
  obtain ⟨hpl, hrl, hgl, hpr, hrr, hgr⟩ := hq
  obtain ⟨d1, h1, p1⟩ := shock_hasDerivAt_pos q.ur hpr hrr hgr hpx
  obtain ⟨d2, h2, p2⟩ := shock_hasDerivAt_pos (-q.ul) hpl hrl hgl hpx
  refine ⟨d1 + d2, ?_, by linarith⟩
  have e : (fun x => SCS q x) = fun x => shock x q.pr q.rr q.ur q.gr + shock x q.pl q.rl (-q.ul) q.gl := by
    funext x; exact SCS_eq q x
  rw [e]; exact h1.add h2
theorem RCS_hasDerivAt (q : Prob) (hq : q.Admissible) {px : ℝ} (hpx : 0 < px) :
    ∃ d, HasDerivAt (fun x => RCS q x) d px ∧ 0 < d := by
  obtain ⟨hpl, hrl, hgl, hpr, hrr, hgr⟩ := hq
  obtain ⟨d1, h1, p1⟩ := shock_hasDerivAt_pos q.ur hpr hrr hgr hpx
  obtain ⟨d2, h2, p2⟩ := rare_hasDerivAt_neg q.ul hpl hrl hgl hpx
  refine ⟨d1 - d2, ?_, by linarith⟩
  have e : (fun x => RCS q x) = fun x => shock x q.pr q.rr q.ur q.gr - rare x q.pl q.rl q.ul q.gl := by
    funext x; exact RCS_eq q x
  rw [e]; exact h1.sub h2
theorem SCR_hasDerivAt (q : Prob) (hq : q.Admissible) {px : ℝ} (hpx : 0 < px) :
    ∃ d, HasDerivAt (fun x => SCR q x) d px ∧ d < 0 := by
  obtain ⟨hpl, hrl, hgl, hpr, hrr, hgr⟩ := hq
  obtain ⟨d1, h1, p1⟩ := rare_hasDerivAt_neg (-q.ur) hpr hrr hgr hpx
  obtain ⟨d2, h2, p2⟩ := shock_hasDerivAt_pos (-q.ul) hpl hrl hgl hpx
  refine ⟨d1 - d2, ?_, by linarith⟩
  have e : (fun x => SCR q x) = fun x => rare x q.pr q.rr (-q.ur) q.gr - shock x q.pl q.rl (-q.ul) q.gl := by
    funext x; exact SCR_eq q x
  rw [e]; exact h1.sub h2
theorem RCR_hasDerivAt (q : Prob) (hq : q.Admissible) {px : ℝ} (hpx : 0 < px) :
    ∃ d, HasDerivAt (fun x => RCR q x) d px ∧ d < 0 := by
  obtain ⟨hpl, hrl, hgl, hpr, hrr, hgr⟩ := hq
  obtain ⟨d1, h1, p1⟩ := rare_hasDerivAt_neg (-q.ur) hpr hrr hgr hpx
  obtain ⟨d2, h2, p2⟩ := rare_hasDerivAt_neg q.ul hpl hrl hgl hpx
  refine ⟨d1 + d2, ?_, by linarith⟩
  have e : (fun x => RCR q x) = fun x => rare x q.pr q.rr (-q.ur) q.gr + rare x q.pl q.rl q.ul q.gl := by
    funext x; exact RCR_eq q x
  rw [e]; exact h1.add h2

theorem SCS_strictMono (q : Prob) (hq : q.Admissible) : StrictMonoOn (fun x => SCS q x) (Set.Ioi 0) :=
  strictMonoOn_of_pos fun _ hx => SCS_hasDerivAt q hq hx
theorem RCS_strictMono (q : Prob) (hq : q.Admissible) : StrictMonoOn (fun x => RCS q x) (Set.Ioi 0) :=
  strictMonoOn_of_pos fun _ hx => RCS_hasDerivAt q hq hx
theorem SCR_strictAnti (q : Prob) (hq : q.Admissible) : StrictAntiOn (fun x => SCR q x) (Set.Ioi 0) :=
  strictAntiOn_of_neg fun _ hx => SCR_hasDerivAt q hq hx
theorem RCR_strictAnti (q : Prob) (hq : q.Admissible) : StrictAntiOn (fun x => RCR q x) (Set.Ioi 0) :=
  strictAntiOn_of_neg fun _ hx => RCR_hasDerivAt q hq hx


/-- the Gottlieb–Groth threshold factor is the shock wave function: a/γ (z/p - 1)/√(…) = (z - p)/m -/
theorem thr_factor {p ρ γ z : ℝ} (hp : 0 < p) (hρ : 0 < ρ) (hγ : 1 < γ) (hz : 0 ≤ z) :
    Real.sqrt (γ * p / ρ) / γ * (z / p - 1) / Real.sqrt ((γ + 1) / 2 / γ * z / p + (γ - 1) / 2 / γ)
      = (z - p) / mflux z p ρ γ := by
  have hγ0 : 0 < γ := by linarith
  have hN := NN_pos hp hγ hz
  have h2 : (γ + 1) / 2 / γ * z / p + (γ - 1) / 2 / γ = (γ + 1) * z / 2 / γ / p + (γ - 1) / 2 / γ := by ring
  have hvf := vel_factor hp hρ hγ0 hN
  have hm := mflux_pos hρ hN
  have hm2 := mflux_sq hρ hN
  have hs2 : (γ + 1) * z / 2 / γ / p + (γ - 1) / 2 / γ = NN z p γ / (2 * γ * p) := by
    unfold NN; field_simp
  have hs2pos : 0 < (γ + 1) * z / 2 / γ / p + (γ - 1) / 2 / γ := by rw [hs2]; positivity
  rw [h2]
  set a := Real.sqrt (γ * p / ρ)
  set s2 := Real.sqrt ((γ + 1) * z / 2 / γ / p + (γ - 1) / 2 / γ) with hs2def
  set m := mflux z p ρ γ
  have hs2p : 0 < s2 := Real.sqrt_pos.mpr hs2pos
  have hs2sq : s2 ^ 2 = NN z p γ / (2 * γ * p) := by rw [hs2def, Real.sq_sqrt hs2pos.le, hs2]
  have ha : a = m / ρ / s2 := by rw [← hvf]; field_simp
  rw [ha]
  have hN' : NN z p γ = 2 * γ * p * s2 ^ 2 := by rw [hs2sq]; field_simp
  rw [hN'] at hm2
  field_simp
  nlinarith [hm2]

/-! ### the classification thresholds are values of the wave functions -/

theorem uSCN_mflux (q : Prob) (hq : q.Admissible) {px : ℝ} (hpx : 0 ≤ px) :
    uSCN q px = q.ul - (px - q.pl) / mflux px q.pl q.rl q.gl := by
  obtain ⟨hpl, hrl, hgl, -, -, -⟩ := hq
  rw [← thr_factor hpl hrl hgl hpx, uSCN_eq]
theorem uNCS_mflux (q : Prob) (hq : q.Admissible) {px : ℝ} (hpx : 0 < px) :
    uNCS q px = q.ul - (q.pl - px) / mflux q.pl px q.rr q.gr := by
  obtain ⟨hpl, -, -, -, hrr, hgr⟩ := hq
  rw [← thr_factor hpx hrr hgr hpl.le, uNCS_eq]
theorem uNCR_rare (q : Prob) : uNCR q q.pr = rare q.pl q.pr q.rr q.ul q.gr := by
  simp only [uNCR_eq, rare_eq]; ring
theorem uRCN_rare (q : Prob) (px : ℝ) : uRCN q px = rare px q.pl q.rl q.ul q.gl := by
  simp only [uRCN_eq, rare_eq]; ring

theorem shock_self (p ρ u γ : ℝ) : shock p p ρ u γ = u := by rw [shock_eq]; ring
theorem rare_self {p : ℝ} (hp : p ≠ 0) (ρ u γ : ℝ) : rare p p ρ u γ = u := by
  rw [rare_eq, div_self hp, Real.one_rpow]; ring

/-- each classification condition is the sign of a residual at `pl` or `pr` -/
theorem SCS_at_pr (q : Prob) (hq : q.Admissible) : SCS q q.pr = q.ur - uSCN q q.pr := by
  obtain ⟨hpl, hrl, hgl, hpr, hrr, hgr⟩ := id hq
  rw [SCS_eq, shock_self, shock_mflux hrl (by linarith) (NN_pos hpl hgl hpr.le), uSCN_mflux q hq hpr.le]; ring
theorem SCS_at_pl (q : Prob) (hq : q.Admissible) : SCS q q.pl = q.ur - uNCS q q.pr := by
  obtain ⟨hpl, hrl, hgl, hpr, hrr, hgr⟩ := id hq
  rw [SCS_eq, shock_self, shock_mflux hrr (by linarith) (NN_pos hpr hgr hpl.le), uNCS_mflux q hq hpr]; ring
theorem SCR_at_pr (q : Prob) (hq : q.Admissible) : SCR q q.pr = -(q.ur - uSCN q q.pr) := by
  obtain ⟨hpl, hrl, hgl, hpr, hrr, hgr⟩ := id hq
  rw [SCR_eq, rare_self hpr.ne', shock_mflux hrl (by linarith) (NN_pos hpl hgl hpr.le), uSCN_mflux q hq hpr.le]; ring
theorem SCR_at_pl (q : Prob) (hq : q.Admissible) : SCR q q.pl = -(q.ur - uNCR q q.pr) := by
  rw [SCR_eq, shock_self, uNCR_rare, rare_u q.pl q.pr q.rr (-q.ur), rare_u q.pl q.pr q.rr q.ul]; ring
theorem RCS_at_pl (q : Prob) (hq : q.Admissible) : RCS q q.pl = q.ur - uNCS q q.pr := by
  obtain ⟨hpl, hrl, hgl, hpr, hrr, hgr⟩ := id hq
  rw [RCS_eq, rare_self hpl.ne', shock_mflux hrr (by linarith) (NN_pos hpr hgr hpl.le), uNCS_mflux q hq hpr]; ring
theorem RCS_at_pr (q : Prob) (hq : q.Admissible) : RCS q q.pr = q.ur - uRCN q q.pr := by
  rw [RCS_eq, shock_self, uRCN_rare]
theorem RCR_at_pl (q : Prob) (hq : q.Admissible) : RCR q q.pl = -(q.ur - uNCR q q.pr) := by
  obtain ⟨hpl, hrl, hgl, hpr, hrr, hgr⟩ := id hq
  rw [RCR_eq, rare_self hpl.ne', uNCR_rare, rare_u q.pl q.pr q.rr (-q.ur), rare_u q.pl q.pr q.rr q.ul]; ring
theorem RCR_at_pr (q : Prob) (hq : q.Admissible) : RCR q q.pr = -(q.ur - uRCN q q.pr) := by
  obtain ⟨hpl, hrl, hgl, hpr, hrr, hgr⟩ := id hq
  rw [RCR_eq, rare_self hpr.ne', uRCN_rare]; ring

/-! ### pressure range of the root in each pattern -/

private theorem mono_le {f : ℝ → ℝ} (hf : StrictMonoOn f (Set.Ioi 0)) {a x : ℝ} (ha : 0 < a) (hx : 0 < x)
    (h : f a ≤ f x) : a ≤ x := by
  by_contra hc; push Not at hc
  exact absurd (hf hx ha hc) (not_lt.mpr h)
private theorem mono_lt {f : ℝ → ℝ} (hf : StrictMonoOn f (Set.Ioi 0)) {a x : ℝ} (ha : 0 < a) (hx : 0 < x)
    (h : f x < f a) : x < a := by
  by_contra hc; push Not at hc
  exact absurd (hf.monotoneOn ha hx hc) (not_le.mpr h)
private theorem anti_le {f : ℝ → ℝ} (hf : StrictAntiOn f (Set.Ioi 0)) {a x : ℝ} (ha : 0 < a) (hx : 0 < x)
    (h : f x ≤ f a) : a ≤ x := by
  by_contra hc; push Not at hc
  exact absurd (hf hx ha hc) (not_lt.mpr h)
private theorem anti_lt {f : ℝ → ℝ} (hf : StrictAntiOn f (Set.Ioi 0)) {a x : ℝ} (ha : 0 < a) (hx : 0 < x)
    (h : f a < f x) : x < a := by
  by_contra hc; push Not at hc
  exact absurd (hf.antitoneOn ha hx hc) (not_le.mpr h)

/-- SCS: the root lies at or above both initial pressures (both shocks compress) -/
theorem scs_range (q : Prob) (hq : q.Admissible) {px : ℝ} (hpx : 0 < px) (h0 : SCS q px = 0)
    (hc : (q.pl ≤ q.pr ∧ q.ur ≤ uSCN q q.pr) ∨ (q.pr < q.pl ∧ q.ur ≤ uNCS q q.pr)) :
    q.pl ≤ px ∧ q.pr ≤ px := by
  obtain ⟨hpl, hrl, hgl, hpr, hrr, hgr⟩ := id hq
  have hm := SCS_strictMono q hq
  rcases hc with ⟨h1, h2⟩ | ⟨h1, h2⟩
  · have : q.pr ≤ px := mono_le hm hpr hpx (by show SCS q q.pr ≤ SCS q px; rw [h0, SCS_at_pr q hq]; linarith)
    exact ⟨le_trans h1 this, this⟩
  · have : q.pl ≤ px := mono_le hm hpl hpx (by show SCS q q.pl ≤ SCS q px; rw [h0, SCS_at_pl q hq]; linarith)
    exact ⟨this, le_trans h1.le this⟩

/-- SCR: pl ≤ px < pr (left shock compresses, right wave expands) -/
theorem scr_range (q : Prob) (hq : q.Admissible) {px : ℝ} (hpx : 0 < px) (h0 : SCR q px = 0)
    (hc : q.pl ≤ q.pr ∧ (uSCN q q.pr < q.ur ∧ q.ur ≤ uNCR q q.pr)) :
    q.pl ≤ px ∧ px < q.pr := by
  obtain ⟨hpl, hrl, hgl, hpr, hrr, hgr⟩ := id hq
  have hm := SCR_strictAnti q hq
  obtain ⟨h1, h2, h3⟩ := hc
  exact ⟨anti_le hm hpl hpx (by show SCR q px ≤ SCR q q.pl; rw [h0, SCR_at_pl q hq]; linarith),
    anti_lt hm hpr hpx (by show SCR q q.pr < SCR q px; rw [h0, SCR_at_pr q hq]; linarith)⟩

/-- RCS: pr ≤ px < pl -/
theorem rcs_range (q : Prob) (hq : q.Admissible) {px : ℝ} (hpx : 0 < px) (h0 : RCS q px = 0)
    (hc : q.pr < q.pl ∧ (uNCS q q.pr < q.ur ∧ q.ur ≤ uRCN q q.pr)) :
    q.pr ≤ px ∧ px < q.pl := by
  obtain ⟨hpl, hrl, hgl, hpr, hrr, hgr⟩ := id hq
  have hm := RCS_strictMono q hq
  obtain ⟨h1, h2, h3⟩ := hc
  exact ⟨mono_le hm hpr hpx (by show RCS q q.pr ≤ RCS q px; rw [h0, RCS_at_pr q hq]; linarith),
    mono_lt hm hpl hpx (by show RCS q px < RCS q q.pl; rw [h0, RCS_at_pl q hq]; linarith)⟩

/-- RCR: the root lies below both initial pressures (both waves expand) -/
theorem rcr_range (q : Prob) (hq : q.Admissible) {px : ℝ} (hpx : 0 < px) (h0 : RCR q px = 0)
    (hc : (q.pl ≤ q.pr ∧ uNCR q q.pr < q.ur) ∨ (q.pr < q.pl ∧ uRCN q q.pr < q.ur)) :
    px < q.pl ∧ px < q.pr := by
  obtain ⟨hpl, hrl, hgl, hpr, hrr, hgr⟩ := id hq
  have hm := RCR_strictAnti q hq
  rcases hc with ⟨h1, h2⟩ | ⟨h1, h2⟩
  · have : px < q.pl := anti_lt hm hpl hpx (by show RCR q q.pl < RCR q px; rw [h0, RCR_at_pl q hq]; linarith)
    exact ⟨this, lt_of_lt_of_le this h1⟩
  · have : px < q.pr := anti_lt hm hpr hpx (by show RCR q q.pr < RCR q px; rw [h0, RCR_at_pr q hq]; linarith)
    exact ⟨lt_trans this h1, this⟩

/-! ### what the chain's outcome says about the thresholds -/

theorem chain_SCS {pl pr ur a b c d e : ℝ} (h : chain pl pr ur a b c d e = .SCS) :
    (pl ≤ pr ∧ ur ≤ a) ∨ (pr < pl ∧ ur ≤ b) := by
  unfold chain at h; split_ifs at h <;> simp_all
theorem chain_SCR {pl pr ur a b c d e : ℝ} (h : chain pl pr ur a b c d e = .SCR) :
    pl ≤ pr ∧ (a < ur ∧ ur ≤ c) := by
  unfold chain at h; split_ifs at h <;> simp_all
theorem chain_RCS {pl pr ur a b c d e : ℝ} (h : chain pl pr ur a b c d e = .RCS) :
    pr < pl ∧ (b < ur ∧ ur ≤ d) := by
  unfold chain at h; split_ifs at h <;> simp_all
theorem chain_RCR {pl pr ur a b c d e : ℝ} (h : chain pl pr ur a b c d e = .RCR) :
    (pl ≤ pr ∧ c < ur) ∨ (pr < pl ∧ d < ur) := by
  unfold chain at h; split_ifs at h with h1 h2 h3 h4 <;> simp_all
  rcases h4 with h4 | h4
  · exact Or.inl ⟨h4.1, h4.2.1⟩
  · exact Or.inr ⟨h4.1, h4.2.1⟩

end EPV.Riem
