/-
C04 — the centred rarefaction fan of the ideal-gas Riemann solution in normal form
(see the header of `EPV.Lemmas.RiemannIGWaves` for the notation).

  `y = 2/(g+1) + s (g-1)/(a (g+1)) (u - ξ)`, `ρ = r y^(2/(g-1))`, `p = p y^(2g/(g-1))`,
  `v = 2 (s a + (g-1) u/2 + ξ)/(g+1)`,  `s = +1` left fan, `s = -1` right fan.

* `fan_mass`, `fan_momentum`, `fan_energy`: `G_c' = U_c` wherever `y > 0`, i.e. the
  similarity form of the Euler equations `(v - ξ) ρ' + ρ v' = 0`, `ρ (v - ξ) v' + p' = 0`,
  `p ρ^(-g)` constant, obtained from the derivative of the closed forms;
* `fan_head`: at `ξ = u - s a` the fan state is the known state;
* `fan_tail`: at `ξ = ux - s a π` it is the star state; `fan_star_sound`: `√(g px/ρ*) = a π`;
* `fanY_pos`: `y ≥ π > 0` between tail and head; `fan_order`: head before tail (in the
  direction of the wave) when `px ≤ p`;
* `fan_sgood`: the fan is a good region in the sense of `EPV.Conservation.SGood`.
-/
import EPV.Lemmas.RiemannIGWaves
set_option linter.all false
namespace EPV.C04
open EPV.Spec EPV.Conservation Set
noncomputable section

def fanY (s g a u ξ : ℝ) : ℝ := 2 / (g + 1) + s * (g - 1) / a / (g + 1) * (u - ξ)
def fanRho (s g a r u ξ : ℝ) : ℝ := r * fanY s g a u ξ ^ (2 / (g - 1))
def fanP (s g a p u ξ : ℝ) : ℝ := p * fanY s g a u ξ ^ (2 * g / (g - 1))
def fanV (s g a u ξ : ℝ) : ℝ := 2 * (s * a + (g - 1) * u / 2 + ξ) / (g + 1)
def fanState (s g a p r u ξ : ℝ) : State :=
  ⟨fanRho s g a r u ξ, fanV s g a u ξ, fanP s g a p u ξ, igSie g (fanP s g a p u ξ) (fanRho s g a r u ξ)⟩

theorem fanY_hasDerivAt (s g a u ξ : ℝ) :
    HasDerivAt (fun ξ => fanY s g a u ξ) (-(s * (g - 1) / a / (g + 1))) ξ := by
  unfold fanY
  have h := EPV.D.const_add (2 / (g + 1)) (EPV.D.const_mul (s * (g - 1) / a / (g + 1))
    (EPV.D.const_sub u (hasDerivAt_id' ξ)))
  exact h.congr_deriv (by ring)

theorem fanRho_hasDerivAt (s g a r u ξ : ℝ) (hy : 0 < fanY s g a u ξ) :
    HasDerivAt (fun ξ => fanRho s g a r u ξ)
      (r * (-(s * (g - 1) / a / (g + 1)) * (2 / (g - 1)) *
        (fanY s g a u ξ ^ (2 / (g - 1)) / fanY s g a u ξ))) ξ := by
  unfold fanRho
  exact EPV.D.const_mul r (EPV.D.rpow_const (fanY_hasDerivAt s g a u ξ) _ hy)

theorem fanP_hasDerivAt (s g a p u ξ : ℝ) (hy : 0 < fanY s g a u ξ) :
    HasDerivAt (fun ξ => fanP s g a p u ξ)
      (p * (-(s * (g - 1) / a / (g + 1)) * (2 * g / (g - 1)) *
        (fanY s g a u ξ ^ (2 * g / (g - 1)) / fanY s g a u ξ))) ξ := by
  unfold fanP
  exact EPV.D.const_mul p (EPV.D.rpow_const (fanY_hasDerivAt s g a u ξ) _ hy)

theorem fanV_hasDerivAt (s g a u ξ : ℝ) :
    HasDerivAt (fun ξ => fanV s g a u ξ) (2 / (g + 1)) ξ := by
  unfold fanV
  have h := EPV.D.div_const (EPV.D.const_mul 2 (EPV.D.const_add (s * a + (g - 1) * u / 2) (hasDerivAt_id' ξ))) (g + 1)
  exact h.congr_deriv (by ring)

theorem fan_pow_split {Y g : ℝ} (hY : 0 < Y) (hg : 1 < g) :
    Y ^ (2 * g / (g - 1)) = Y ^ (2 / (g - 1)) * Y ^ 2 := by
  have hg1 : g - 1 ≠ 0 := by linarith
  rw [← Real.rpow_natCast Y 2, ← Real.rpow_add hY]
  congr 1
  push_cast
  field_simp
  ring

theorem fan_mass (s g a p r u ξ : ℝ) (hs : s = 1 ∨ s = -1) (hg : 1 < g) (ha : 0 < a)
    (hy : 0 < fanY s g a u ξ) :
    HasDerivAt (statePiece (fanState s g a p r u) .mass).G ((statePiece (fanState s g a p r u) .mass).U ξ) ξ := by
  have hρ := fanRho_hasDerivAt s g a r u ξ hy
  have hv := fanV_hasDerivAt s g a u ξ
  simp only [statePiece, fanState, State.cons, State.flux]
  have h := EPV.D.sub (EPV.D.mul (hasDerivAt_id' ξ) hρ) (EPV.D.mul hρ hv)
  refine h.congr_deriv ?_
  have hg1 : g - 1 ≠ 0 := by linarith
  have hξ : ξ = u - s * a * ((g + 1) * fanY s g a u ξ - 2) / (g - 1) := by
    unfold fanY
    rcases hs with rfl | rfl <;> field_simp <;> ring
  simp only [fanRho, fanV]
  generalize fanY s g a u ξ = Y at *
  generalize Y ^ (2 / (g - 1)) = A
  subst hξ
  rcases hs with rfl | rfl <;> field_simp <;> ring

theorem fan_momentum (s g a p r u ξ : ℝ) (hs : s = 1 ∨ s = -1) (hg : 1 < g) (ha : 0 < a)
    (hr : 0 < r) (ha2 : a ^ 2 = g * p / r) (hy : 0 < fanY s g a u ξ) :
    HasDerivAt (statePiece (fanState s g a p r u) .momentum).G
      ((statePiece (fanState s g a p r u) .momentum).U ξ) ξ := by
  have hρ := fanRho_hasDerivAt s g a r u ξ hy
  have hv := fanV_hasDerivAt s g a u ξ
  have hP := fanP_hasDerivAt s g a p u ξ hy
  simp only [statePiece, fanState, State.cons, State.flux]
  have h := EPV.D.sub (EPV.D.mul (hasDerivAt_id' ξ) (EPV.D.mul hρ hv))
    (EPV.D.add (EPV.D.mul hρ (EPV.D.pow hv 2 1 2 rfl (by norm_num))) hP)
  refine h.congr_deriv ?_
  have hg1 : g - 1 ≠ 0 := by linarith
  have hg0 : g ≠ 0 := by linarith
  have hξ : ξ = u - s * a * ((g + 1) * fanY s g a u ξ - 2) / (g - 1) := by
    unfold fanY
    rcases hs with rfl | rfl <;> field_simp <;> ring
  have hp : p = a ^ 2 * r / g := by rw [ha2]; field_simp
  simp only [fanRho, fanV, fanP]
  rw [fan_pow_split hy hg]
  generalize fanY s g a u ξ = Y at *
  generalize Y ^ (2 / (g - 1)) = A
  subst hξ
  subst hp
  rcases hs with rfl | rfl <;> field_simp <;> ring

theorem fan_energy (s g a p r u ξ : ℝ) (hs : s = 1 ∨ s = -1) (hg : 1 < g) (ha : 0 < a)
    (hr : 0 < r) (ha2 : a ^ 2 = g * p / r) (hy : 0 < fanY s g a u ξ) :
    HasDerivAt (statePiece (fanState s g a p r u) .energy).G
      ((statePiece (fanState s g a p r u) .energy).U ξ) ξ := by
  have hρ := fanRho_hasDerivAt s g a r u ξ hy
  have hv := fanV_hasDerivAt s g a u ξ
  have hP := fanP_hasDerivAt s g a p u ξ hy
  have hA := Real.rpow_pos_of_pos hy (2 / (g - 1))
  have hρ0 : fanRho s g a r u ξ ≠ 0 := by
    unfold fanRho
    positivity
  have he := EPV.D.div (EPV.D.div_const hP (g - 1)) hρ hρ0
  simp only [statePiece, fanState, State.cons, State.flux, igSie]
  have hE := EPV.D.mul hρ (EPV.D.add he (EPV.D.div_const (EPV.D.pow hv 2 1 2 rfl (by norm_num)) 2))
  have h := EPV.D.sub (EPV.D.mul (hasDerivAt_id' ξ) hE) (EPV.D.mul hv (EPV.D.add hE hP))
  refine h.congr_deriv ?_
  have hg1 : g - 1 ≠ 0 := by linarith
  have hg0 : g ≠ 0 := by linarith
  have hξ : ξ = u - s * a * ((g + 1) * fanY s g a u ξ - 2) / (g - 1) := by
    unfold fanY
    rcases hs with rfl | rfl <;> field_simp <;> ring
  have hp : p = a ^ 2 * r / g := by rw [ha2]; field_simp
  simp only [fanRho, fanV, fanP]
  rw [fan_pow_split hy hg]
  generalize fanY s g a u ξ = Y at *
  generalize Y ^ (2 / (g - 1)) = A at *
  subst hξ
  subst hp
  rcases hs with rfl | rfl <;> field_simp <;> ring

/-! ### Head, tail, positivity, ordering -/

/-- `π = (px/p)^((g-1)/(2g))`, written as `utils.rarefaction` writes the exponent -/
def fanPi (g p px : ℝ) : ℝ := (px / p) ^ ((g - 1) / 2 / g)
/-- `utils.rho_star_rarefaction` -/
def rareRho (g p r px : ℝ) : ℝ := r * (px / p) ^ (1 / g)
/-- `utils.rarefaction` with `u = 0`: the velocity change across the fan -/
def rareDu (g a p px : ℝ) : ℝ := 2 * a / (g - 1) * (1 - fanPi g p px)

theorem fanPi_pos {g p px : ℝ} (hp : 0 < p) (hpx : 0 < px) : 0 < fanPi g p px :=
  Real.rpow_pos_of_pos (div_pos hpx hp) _

theorem fanPi_le_one {g p px : ℝ} (hg : 1 < g) (hp : 0 < p) (hpx : 0 < px) (h : px ≤ p) :
    fanPi g p px ≤ 1 := by
  have hg1 : 0 < g - 1 := by linarith
  have hg0 : 0 < g := by linarith
  exact Real.rpow_le_one (div_pos hpx hp).le ((div_le_one hp).mpr h) (by positivity)

theorem fan_head (s g a p r u : ℝ) (hs : s = 1 ∨ s = -1) (hg : 1 < g) (ha : 0 < a) :
    fanState s g a p r u (u - s * a) = ⟨r, u, p, igSie g p r⟩ := by
  have hg1 : g + 1 ≠ 0 := by linarith
  have hY : fanY s g a u (u - s * a) = 1 := by
    unfold fanY
    rcases hs with rfl | rfl <;> field_simp <;> ring
  have hV : fanV s g a u (u - s * a) = u := by
    unfold fanV
    field_simp
    ring
  simp only [fanState, fanRho, fanP, hY, hV, Real.one_rpow, mul_one]

theorem fanY_tail (s g a p u px : ℝ) (hs : s = 1 ∨ s = -1) (hg : 1 < g) (ha : 0 < a) :
    fanY s g a u (u + s * rareDu g a p px - s * (a * fanPi g p px)) = fanPi g p px := by
  have hg1 : g + 1 ≠ 0 := by linarith
  have hg2 : g - 1 ≠ 0 := by linarith
  unfold fanY rareDu
  rcases hs with rfl | rfl <;> field_simp <;> ring

theorem fan_tail (s g a p r u px : ℝ) (hs : s = 1 ∨ s = -1) (hg : 1 < g) (ha : 0 < a)
    (hp : 0 < p) (hpx : 0 < px) :
    fanState s g a p r u (u + s * rareDu g a p px - s * (a * fanPi g p px))
      = ⟨rareRho g p r px, u + s * rareDu g a p px, px, igSie g px (rareRho g p r px)⟩ := by
  have hg1 : g + 1 ≠ 0 := by linarith
  have hg2 : g - 1 ≠ 0 := by linarith
  have hg0 : g ≠ 0 := by linarith
  have hq : 0 < px / p := div_pos hpx hp
  have hY := fanY_tail s g a p u px hs hg ha
  have hR : fanPi g p px ^ (2 / (g - 1)) = (px / p) ^ (1 / g) := by
    unfold fanPi
    rw [← Real.rpow_mul hq.le]
    congr 1
    field_simp
  have hP : p * fanPi g p px ^ (2 * g / (g - 1)) = px := by
    unfold fanPi
    rw [← Real.rpow_mul hq.le]
    have : (g - 1) / 2 / g * (2 * g / (g - 1)) = 1 := by field_simp
    rw [this, Real.rpow_one]
    field_simp
  have hV : fanV s g a u (u + s * rareDu g a p px - s * (a * fanPi g p px)) = u + s * rareDu g a p px := by
    unfold fanV rareDu
    field_simp
    ring
  simp only [fanState, fanRho, fanP, hY, hV, hR, hP, rareRho]

/-- the sound speed `√(g px / ρ*)` behind the fan is `a π` -/
theorem fan_star_sound {g a p r px : ℝ} (hg : 1 < g) (ha : 0 < a) (ha2 : a ^ 2 = g * p / r)
    (hp : 0 < p) (hr : 0 < r) (hpx : 0 < px) :
    Real.sqrt (g * px / rareRho g p r px) = a * fanPi g p px := by
  have hg0 : g ≠ 0 := by linarith
  have hq : 0 < px / p := div_pos hpx hp
  have hπ := fanPi_pos (g := g) hp hpx
  rw [Real.sqrt_eq_iff_mul_self_eq_of_pos (mul_pos ha hπ)]
  have h1 : fanPi g p px * fanPi g p px = (px / p) ^ (1 - 1 / g) := by
    unfold fanPi
    rw [← Real.rpow_add hq]
    congr 1
    field_simp
    ring
  have h2 : (px / p) ^ (1 - 1 / g) = px / p / (px / p) ^ (1 / g) := by
    rw [Real.rpow_sub hq, Real.rpow_one]
  have h3 := Real.rpow_pos_of_pos hq (1 / g)
  have : a * fanPi g p px * (a * fanPi g p px) = a ^ 2 * (fanPi g p px * fanPi g p px) := by ring
  rw [this, h1, h2, ha2]
  unfold rareRho
  field_simp

/-- in the fan, between tail and head, `y ≥ π` -/
theorem fanY_ge (s g a p u px ξ : ℝ) (hs : s = 1 ∨ s = -1) (hg : 1 < g) (ha : 0 < a)
    (hξ : 0 ≤ s * (u + s * rareDu g a p px - s * (a * fanPi g p px) - ξ)) :
    fanPi g p px ≤ fanY s g a u ξ := by
  rw [← fanY_tail s g a p u px hs hg ha]
  have hg1 : 0 < g - 1 := by linarith
  have hc : 0 < (g - 1) / a / (g + 1) := by positivity
  have e : fanY s g a u ξ - fanY s g a u (u + s * rareDu g a p px - s * (a * fanPi g p px))
      = (g - 1) / a / (g + 1) * (s * (u + s * rareDu g a p px - s * (a * fanPi g p px) - ξ)) := by
    unfold fanY
    ring
  nlinarith [mul_nonneg hc.le hξ]

/-- the head comes before the tail in the direction of the wave when `px ≤ p` -/
theorem fan_order (s g a p u px : ℝ) (hs : s = 1 ∨ s = -1) (hg : 1 < g) (ha : 0 < a) (hp : 0 < p)
    (hpx : 0 < px) (h : px ≤ p) :
    0 ≤ s * ((u + s * rareDu g a p px - s * (a * fanPi g p px)) - (u - s * a)) := by
  have hπ := fanPi_le_one hg hp hpx h
  have hg1 : 0 < g - 1 := by linarith
  have e : s * ((u + s * rareDu g a p px - s * (a * fanPi g p px)) - (u - s * a))
      = s ^ 2 * (a * (1 - fanPi g p px) * (2 / (g - 1) + 1)) := by
    unfold rareDu
    ring
  have hs2 : s ^ 2 = 1 := by rcases hs with rfl | rfl <;> norm_num
  rw [e, hs2, one_mul]
  have : 0 ≤ 1 - fanPi g p px := by linarith
  positivity

/-! ### The fan as a good region -/

theorem fan_hasDerivAt (s g a p r u ξ : ℝ) (hs : s = 1 ∨ s = -1) (hg : 1 < g) (ha : 0 < a)
    (hr : 0 < r) (ha2 : a ^ 2 = g * p / r) (hy : 0 < fanY s g a u ξ) (c : Comp) :
    HasDerivAt (statePiece (fanState s g a p r u) c).G ((statePiece (fanState s g a p r u) c).U ξ) ξ := by
  cases c
  · exact fan_mass s g a p r u ξ hs hg ha hy
  · exact fan_momentum s g a p r u ξ hs hg ha hr ha2 hy
  · exact fan_energy s g a p r u ξ hs hg ha hr ha2 hy

theorem fan_U_continuousAt (s g a p r u ξ : ℝ) (hy : 0 < fanY s g a u ξ) (hr : 0 < r) (c : Comp) :
    ContinuousAt (statePiece (fanState s g a p r u) c).U ξ := by
  have hρ := fanRho_hasDerivAt s g a r u ξ hy
  have hv := fanV_hasDerivAt s g a u ξ
  have hP := fanP_hasDerivAt s g a p u ξ hy
  have hA := Real.rpow_pos_of_pos hy (2 / (g - 1))
  have hρ0 : fanRho s g a r u ξ ≠ 0 := by
    unfold fanRho
    positivity
  have he := EPV.D.div (EPV.D.div_const hP (g - 1)) hρ hρ0
  cases c <;> simp only [statePiece, fanState, State.cons, igSie]
  · exact hρ.continuousAt
  · exact (EPV.D.mul hρ hv).continuousAt
  · exact (EPV.D.mul hρ (EPV.D.add he (EPV.D.div_const (EPV.D.pow hv 2 1 2 rfl (by norm_num)) 2))).continuousAt

/-- the fan is a good region on every interval on which `y > 0` -/
theorem fan_sgood (s g a p r u ξ₁ ξ₂ : ℝ) (hs : s = 1 ∨ s = -1) (hg : 1 < g) (ha : 0 < a)
    (hr : 0 < r) (ha2 : a ^ 2 = g * p / r) (h12 : ξ₁ ≤ ξ₂)
    (hy : ∀ ξ ∈ Icc ξ₁ ξ₂, 0 < fanY s g a u ξ) :
    SGood (fanState s g a p r u) ξ₁ ξ₂ := by
  intro c
  refine Piece.good_of_continuousOn h12 ?_ ?_ ?_
  · intro ξ hξ
    exact (fan_hasDerivAt s g a p r u ξ hs hg ha hr ha2 (hy ξ hξ) c).continuousAt.continuousWithinAt
  · intro ξ hξ
    exact fan_hasDerivAt s g a p r u ξ hs hg ha hr ha2 (hy ξ (Ioo_subset_Icc_self hξ)) c
  · intro ξ hξ
    exact (fan_U_continuousAt s g a p r u ξ (hy ξ hξ) hr c).continuousWithinAt
end
end EPV.C04
