/-
Sedov: the leaf structure of the generated models of `sedov_funcs_standard`
(SedovFuncs / SedovFuncsO2 / SedovFuncsO3), shared by Props/C01/Sedov.lean and
Props/C11/SedovIntegrands.lean.
-/
import EPV.Gen.SedovFuncs
import EPV.Gen.SedovFuncsO2
import EPV.Gen.SedovFuncsO3
import EPV.Tactics
import EPV.Lemmas.Bridge.SemiSedovFuncs
import EPV.Lemmas.Bridge.SemiSedovFuncsO2
import EPV.Lemmas.Bridge.SemiSedovFuncsO3
import EPV.Lemmas.HydroRobust

set_option linter.all false
set_option maxRecDepth 100000

open EPV EPV.Gen

namespace EPV.Sedov

/-- SedovFuncs: the traced model has the four leaves of the two guards `max(1e-30, c_val v - 1)`,
`max(x4, 1e-12)`; leaf 1 is the one where neither guard is active -/
theorem SedovFuncs_leaves : SedovFuncs.okLeaves = [0, 1, 2, 3] := rfl
theorem SedovFuncs_leaf1 (p : SedovFuncs.P) (v : ℝ) :
    SedovFuncs.leaf p v = 1 ↔ ¬ SedovFuncs.c0 p v ∧ SedovFuncs.c1 p v := by
  simp only [epv_tree]
  split_ifs <;> simp_all

/-- SedovFuncsO2: the traced model has the four leaves of the two guards `max(1e-30, c_val v - 1)`,
`max(x4, 1e-12)`; leaf 1 is the one where neither guard is active -/
theorem SedovFuncsO2_leaves : SedovFuncsO2.okLeaves = [0, 1, 2, 3] := rfl
theorem SedovFuncsO2_leaf1 (p : SedovFuncsO2.P) (v : ℝ) :
    SedovFuncsO2.leaf p v = 1 ↔ ¬ SedovFuncsO2.c0 p v ∧ SedovFuncsO2.c1 p v := by
  simp only [epv_tree]
  split_ifs <;> simp_all

/-- SedovFuncsO3: the traced model has the four leaves of the two guards `max(1e-30, c_val v - 1)`,
`max(x4, 1e-12)`; leaf 1 is the one where neither guard is active -/
theorem SedovFuncsO3_leaves : SedovFuncsO3.okLeaves = [0, 1, 2, 3] := rfl
theorem SedovFuncsO3_leaf1 (p : SedovFuncsO3.P) (v : ℝ) :
    SedovFuncsO3.leaf p v = 1 ↔ ¬ SedovFuncsO3.c0 p v ∧ SedovFuncsO3.c1 p v := by
  simp only [epv_tree]
  split_ifs <;> simp_all

end EPV.Sedov
