/-
Sedov (C01 growth): the chain rule through λ = r / r2(t).

For the fields `_run` returns behind the shock, ρ = ρ₂(t) g(λ), u = u₂(t) f(λ), p = p₂(t) h(λ),
e = p/(γ-1)/ρ (generated model SedovShock for r2, ρ₂, u₂, p₂; `EPV.Sedov.density/velocity/pressure`),
and ANY similarity functions f, g, h that are differentiable at λ = r/r2(t), the three Euler
residuals of `Spec/Euler1D.lean` ARE the three similarity-ODE residuals of `Spec/SedovODE.lean`
times explicit scale factors (`euler_of_similarity`); the factors are non-zero on the admissible
domain, so the fields solve the PDEs at (r, t) iff (f, g, h) solve the ODEs at λ.
-/
import EPV.Lemmas.HydroRobust
import EPV.Lemmas.Bridge.SemiTac
import EPV.Gen.SedovShockD
import EPV.Lemmas.SedovFields
import EPV.Spec.SedovODE

set_option linter.all false
set_option maxRecDepth 100000

open EPV EPV.Gen EPV.Spec EPV.Spec.SedovODE Filter Topology

namespace EPV.Sedov

noncomputable section

/-- the returned fields behind the shock as fields of (r, t) -/
def ρF (q : SedovShock.P) (g : ℝ → ℝ) : Field := fun r t => density q g t r
def uF (q : SedovShock.P) (f : ℝ → ℝ) : Field := fun r t => velocity q f t r
def pF (q : SedovShock.P) (h : ℝ → ℝ) : Field := fun r t => pressure q h t r
/-- specific internal energy as `_run` computes it: pressure / gamm1 / density -/
def eF (q : SedovShock.P) (g h : ℝ → ℝ) : Field := fun r t => pressure q h t r / (q.gamma - 1) / density q g t r

/-- t-derivative of a similarity field S(t) φ(r/R(t)) -/
theorem field_dt {S R φ : ℝ → ℝ} {Sd Rd φ' r t : ℝ} (hS : HasDerivAt S Sd t) (hR : HasDerivAt R Rd t)
    (hR0 : R t ≠ 0) (hφ : HasDerivAt φ φ' (r / R t)) :
    HasDerivAt (fun s => S s * φ (r / R s)) (Sd * φ (r / R t) + S t * (φ' * (-(r * Rd) / R t ^ 2))) t := by
  have h1 : HasDerivAt (fun s => r / R s) (-(r * Rd) / R t ^ 2) t := by
    have := (hasDerivAt_const t r).div hR hR0
    refine this.congr_deriv ?_
    ring
  have h2 : HasDerivAt (fun s => φ (r / R s)) (φ' * (-(r * Rd) / R t ^ 2)) t := hφ.comp t h1
  exact hS.mul h2

/-- r-derivative of a similarity field c φ(r/R) -/
theorem field_dr {φ : ℝ → ℝ} {φ' r : ℝ} (c Rt : ℝ) (hφ : HasDerivAt φ φ' (r / Rt)) :
    HasDerivAt (fun x => c * φ (x / Rt)) (c * (φ' * (1 / Rt))) r := by
  have h1 : HasDerivAt (fun x : ℝ => x / Rt) (1 / Rt) r := (hasDerivAt_id r).div_const Rt
  exact (hφ.comp r h1).const_mul c

/-- the coded shock speed is d r2/dt (generated certificate of SedovShock) -/
theorem r2_hasDerivAt (q : SedovShock.P) {t : ℝ} (ht : 0 < t) :
    HasDerivAt (SedovShock.r2 q) (SedovShock.us q t) t := by
  have hval : SedovShock.us q t = SedovShock.L1.r2_dt q t := by
    -- t > 0 selects the computing leaf (whatever the guard looks like); then both sides are the same
    -- rational expression in the atoms (E/(αρ₀))^(1/x), t^(2/x), t — compared up to normalisation
    have ht0 := ht.ne'
    simp only [epv_tree]
    epv_semi_prune
    all_goals (simp only [epv_leaf, epv_deriv] <;> epv_semi_eq)
  rw [hval]
  -- the certificate's side conditions (number and form follow the Python) are discharged from `ht`
  epv_hydro_have_cert hcert : SedovShock.L1.r2_hasDerivAt_t q t
  refine hcert.congr_of_eventuallyEq ?_
  filter_upwards [Ioi_mem_nhds ht] with s hs
  have hs0 : 0 < s := Set.mem_Ioi.mp hs
  simp only [epv_tree]
  epv_semi_prune

/-- d us/dt = -((k-ω)/2) us²/r2  (R̈ = (δ-1) Ṙ/t with δ = 2/(k+2-ω)) -/
theorem us_hasDerivAt {q : SedovShock.P} {k : ℕ} (A : Admissible q k) {t : ℝ} (ht : 0 < t) :
    HasDerivAt (SedovShock.us q) (-((q.geometry - q.omega) / 2) * SedovShock.us q t ^ 2 / SedovShock.r2 q t) t := by
  have hx := A.xg2_pos.ne'
  have hR := r2_hasDerivAt q ht
  have hRpos := (r2_pos A ht).ne'
  have h1 : HasDerivAt (fun s => 2 / (q.geometry + 2 - q.omega) * SedovShock.r2 q s / s)
      ((2 / (q.geometry + 2 - q.omega) * SedovShock.us q t * t - 2 / (q.geometry + 2 - q.omega) * SedovShock.r2 q t * 1) / t ^ 2) t :=
    (hR.const_mul _).div (hasDerivAt_id t) ht.ne'
  have h2 : HasDerivAt (SedovShock.us q)
      ((2 / (q.geometry + 2 - q.omega) * SedovShock.us q t * t - 2 / (q.geometry + 2 - q.omega) * SedovShock.r2 q t * 1) / t ^ 2) t := by
    refine h1.congr_of_eventuallyEq ?_
    filter_upwards [Ioi_mem_nhds ht] with s hs
    exact us_eq q (Set.mem_Ioi.mp hs)
  refine h2.congr_deriv ?_
  rw [us_eq q ht]
  field_simp
  ring

/-- dρ₂/dt = -ω (us/r2) ρ₂ -/
theorem rho2_hasDerivAt {q : SedovShock.P} {k : ℕ} (A : Admissible q k) {t : ℝ} (ht : 0 < t) :
    HasDerivAt (SedovShock.rho2 q) (-q.omega * (SedovShock.us q t / SedovShock.r2 q t) * SedovShock.rho2 q t) t := by
  have hR := r2_hasDerivAt q ht
  have hRpos := r2_pos A ht
  have h1 : HasDerivAt (fun s => (q.gamma + 1) / (q.gamma - 1) * (q.rho0 * SedovShock.r2 q s ^ (-q.omega)))
      ((q.gamma + 1) / (q.gamma - 1) * (q.rho0 * (SedovShock.us q t * (-q.omega) * SedovShock.r2 q t ^ (-q.omega - 1)))) t :=
    ((hR.rpow_const (Or.inl hRpos.ne')).const_mul _).const_mul _
  have h2 : HasDerivAt (SedovShock.rho2 q)
      ((q.gamma + 1) / (q.gamma - 1) * (q.rho0 * (SedovShock.us q t * (-q.omega) * SedovShock.r2 q t ^ (-q.omega - 1)))) t := by
    refine h1.congr_of_eventuallyEq ?_
    filter_upwards [Ioi_mem_nhds ht] with s hs
    rw [rho2_eq q (Set.mem_Ioi.mp hs), rho1_eq q (Set.mem_Ioi.mp hs)]
  refine h2.congr_deriv ?_
  rw [rho2_eq q ht, rho1_eq q ht, Real.rpow_sub_one hRpos.ne' (-q.omega)]
  field_simp

/-- du₂/dt = -((k-ω)/2) (us/r2) u₂ -/
theorem u2_hasDerivAt {q : SedovShock.P} {k : ℕ} (A : Admissible q k) {t : ℝ} (ht : 0 < t) :
    HasDerivAt (SedovShock.u2 q) (-((q.geometry - q.omega) / 2) * (SedovShock.us q t / SedovShock.r2 q t) * SedovShock.u2 q t) t := by
  have hU := us_hasDerivAt A ht
  have h1 : HasDerivAt (fun s => 2 * SedovShock.us q s / (q.gamma + 1))
      (2 * (-((q.geometry - q.omega) / 2) * SedovShock.us q t ^ 2 / SedovShock.r2 q t) / (q.gamma + 1)) t :=
    (hU.const_mul 2).div_const _
  have h2 : HasDerivAt (SedovShock.u2 q)
      (2 * (-((q.geometry - q.omega) / 2) * SedovShock.us q t ^ 2 / SedovShock.r2 q t) / (q.gamma + 1)) t := by
    refine h1.congr_of_eventuallyEq ?_
    filter_upwards [Ioi_mem_nhds ht] with s hs
    exact u2_eq q (Set.mem_Ioi.mp hs)
  refine h2.congr_deriv ?_
  rw [u2_eq q ht]
  ring

/-- dp₂/dt = -k (us/r2) p₂ -/
theorem p2_hasDerivAt {q : SedovShock.P} {k : ℕ} (A : Admissible q k) {t : ℝ} (ht : 0 < t) :
    HasDerivAt (SedovShock.p2 q) (-q.geometry * (SedovShock.us q t / SedovShock.r2 q t) * SedovShock.p2 q t) t := by
  have hR := r2_hasDerivAt q ht
  have hRpos := r2_pos A ht
  have hU := us_hasDerivAt A ht
  have hρ : HasDerivAt (fun s => q.rho0 * SedovShock.r2 q s ^ (-q.omega))
      (q.rho0 * (SedovShock.us q t * (-q.omega) * SedovShock.r2 q t ^ (-q.omega - 1))) t :=
    (hR.rpow_const (Or.inl hRpos.ne')).const_mul _
  have hU2 := EPV.D.pow hU 2 1 2 rfl (by norm_num)
  have h1 := EPV.D.div_const (EPV.D.mul (EPV.D.const_mul 2 hρ) hU2) (q.gamma + 1)
  have h2 := h1.congr_of_eventuallyEq (f₁ := SedovShock.p2 q) (by
    filter_upwards [Ioi_mem_nhds ht] with s hs
    rw [p2_eq q (Set.mem_Ioi.mp hs), rho1_eq q (Set.mem_Ioi.mp hs)])
  refine h2.congr_deriv ?_
  rw [p2_eq q ht, rho1_eq q ht, Real.rpow_sub_one hRpos.ne' (-q.omega)]
  have hγ := A.gp1
  field_simp
  ring

/-- **Chain rule.**  The Euler residuals of the assembled Sedov fields at (r, t) are the
similarity-ODE residuals of (f, g, h) at λ = r/r2(t) times the scale factors
ρ₂ us/r2, u₂ us/r2, (p₂/((γ-1)ρ₂)) us/r2. -/
theorem euler_of_similarity {q : SedovShock.P} {k : ℕ} (A : Admissible q k) (f g h : ℝ → ℝ)
    {f' g' h' r t : ℝ} (ht : 0 < t) (hr : 0 < r)
    (hf : HasDerivAt f f' (r / SedovShock.r2 q t)) (hg : HasDerivAt g g' (r / SedovShock.r2 q t))
    (hh : HasDerivAt h h' (r / SedovShock.r2 q t)) (hg0 : g (r / SedovShock.r2 q t) ≠ 0) :
    massRes (ρF q g) (uF q f) (q.geometry - 1) r t
        = SedovShock.rho2 q t * (SedovShock.us q t / SedovShock.r2 q t)
          * massODE q.gamma q.geometry q.omega (r / SedovShock.r2 q t) (f (r / SedovShock.r2 q t)) (g (r / SedovShock.r2 q t)) f' g' ∧
    momResP (ρF q g) (uF q f) (pF q h) r t
        = SedovShock.u2 q t * (SedovShock.us q t / SedovShock.r2 q t)
          * momODE q.gamma q.geometry q.omega (r / SedovShock.r2 q t) (f (r / SedovShock.r2 q t)) (g (r / SedovShock.r2 q t)) f' h' ∧
    energyResE (ρF q g) (uF q f) (pF q h) (eF q g h) (q.geometry - 1) r t
        = SedovShock.p2 q t / (q.gamma - 1) / SedovShock.rho2 q t * (SedovShock.us q t / SedovShock.r2 q t)
          * energyODE q.gamma q.geometry q.omega (r / SedovShock.r2 q t) (f (r / SedovShock.r2 q t)) (g (r / SedovShock.r2 q t))
              (h (r / SedovShock.r2 q t)) f' g' h' := by
  have hRpos := r2_pos A ht
  have hR0 := hRpos.ne'
  have hR := r2_hasDerivAt q ht
  have hγ1 := A.gm1
  have hγ2 := A.gp1
  have hρ0 := A.rho0.ne'
  have hρ1pos : 0 < SedovShock.rho1 q t := by
    rw [rho1_eq q ht]; exact mul_pos A.rho0 (Real.rpow_pos_of_pos hRpos _)
  have hρ2ne : SedovShock.rho2 q t ≠ 0 := by
    rw [rho2_eq q ht]
    have : 0 < (q.gamma + 1) / (q.gamma - 1) := div_pos (by linarith [A.gamma]) (by linarith [A.gamma])
    exact (mul_pos this hρ1pos).ne'
  -- the six field derivatives
  have dρt : HasDerivAt (fun s => ρF q g r s) _ t := field_dt (rho2_hasDerivAt A ht) hR hR0 hg
  have dρr : HasDerivAt (fun x => ρF q g x t) _ r := field_dr (SedovShock.rho2 q t) (SedovShock.r2 q t) hg
  have dut : HasDerivAt (fun s => uF q f r s) _ t := field_dt (u2_hasDerivAt A ht) hR hR0 hf
  have dur : HasDerivAt (fun x => uF q f x t) _ r := field_dr (SedovShock.u2 q t) (SedovShock.r2 q t) hf
  have dpt : HasDerivAt (fun s => pF q h r s) _ t := field_dt (p2_hasDerivAt A ht) hR hR0 hh
  have dpr : HasDerivAt (fun x => pF q h x t) _ r := field_dr (SedovShock.p2 q t) (SedovShock.r2 q t) hh
  have hρne : ρF q g r t ≠ 0 := mul_ne_zero hρ2ne hg0
  have det : HasDerivAt (fun s => eF q g h r s) _ t := (dpt.div_const (q.gamma - 1)).div dρt hρne
  have der : HasDerivAt (fun x => eF q g h x t) _ r := (dpr.div_const (q.gamma - 1)).div dρr hρne
  have hu2 := u2_eq q ht
  have hp2 := p2_eq q ht
  have hrho2 := rho2_eq q ht
  refine ⟨?_, ?_, ?_⟩
  · unfold massRes dr dt
    rw [dρt.deriv, dρr.deriv, dur.deriv]
    simp only [massODE, ρF, uF, density, velocity]
    rw [hu2, hrho2]
    generalize SedovShock.rho1 q t = ρ1 at *
    generalize SedovShock.us q t = D at *
    generalize SedovShock.r2 q t = R at *
    generalize g (r / R) = G at *
    generalize f (r / R) = F at *
    field_simp
    ring
  · unfold momResP dr dt
    rw [dut.deriv, dur.deriv, dpr.deriv]
    simp only [momODE, ρF, uF, pF, density, velocity, pressure]
    rw [hu2, hrho2, hp2]
    have hρ1 := hρ1pos.ne'
    generalize SedovShock.rho1 q t = ρ1 at *
    generalize SedovShock.us q t = D at *
    generalize SedovShock.r2 q t = R at *
    generalize g (r / R) = G at *
    generalize f (r / R) = F at *
    field_simp
    ring
  · unfold energyResE dr dt
    rw [det.deriv, der.deriv, dur.deriv]
    simp only [energyODE, ρF, uF, pF, eF, density, velocity, pressure] at *
    rw [hu2, hrho2, hp2] at *
    have hρ1 := hρ1pos.ne'
    generalize SedovShock.rho1 q t = ρ1 at *
    generalize SedovShock.us q t = D at *
    generalize SedovShock.r2 q t = R at *
    generalize g (r / R) = G at *
    generalize f (r / R) = F at *
    generalize h (r / R) = H at *
    field_simp
    ring

/-- the scale factors do not vanish: the Euler residuals vanish IFF the ODE residuals do -/
theorem scale_factors_ne {q : SedovShock.P} {k : ℕ} (A : Admissible q k) {t : ℝ} (ht : 0 < t) :
    SedovShock.rho2 q t * (SedovShock.us q t / SedovShock.r2 q t) ≠ 0 ∧
    SedovShock.u2 q t * (SedovShock.us q t / SedovShock.r2 q t) ≠ 0 ∧
    SedovShock.p2 q t / (q.gamma - 1) / SedovShock.rho2 q t * (SedovShock.us q t / SedovShock.r2 q t) ≠ 0 := by
  have hRpos := r2_pos A ht
  have hγ := A.gamma
  have hρ1pos : 0 < SedovShock.rho1 q t := by
    rw [rho1_eq q ht]; exact mul_pos A.rho0 (Real.rpow_pos_of_pos hRpos _)
  have hus : 0 < SedovShock.us q t := by
    rw [us_eq q ht]; exact div_pos (mul_pos (div_pos two_pos A.xg2_pos) hRpos) ht
  have hu2 : 0 < SedovShock.u2 q t := by
    rw [u2_eq q ht]; exact div_pos (mul_pos two_pos hus) (by linarith)
  have hrho2 : 0 < SedovShock.rho2 q t := by
    rw [rho2_eq q ht]; exact mul_pos (div_pos (by linarith) (by linarith)) hρ1pos
  have hp2 : 0 < SedovShock.p2 q t := by
    rw [p2_eq q ht]; exact div_pos (mul_pos (mul_pos two_pos hρ1pos) (pow_pos hus 2)) (by linarith)
  have hq : 0 < SedovShock.us q t / SedovShock.r2 q t := div_pos hus hRpos
  exact ⟨(mul_pos hrho2 hq).ne', (mul_pos hu2 hq).ne',
    (mul_pos (div_pos (div_pos hp2 (by linarith)) hrho2) hq).ne'⟩

/-- similarity functions that solve the ODE system at λ > 0 give fields that solve the Euler
equations at r = λ r2(t), for every t > 0 -/
theorem euler_of_solvesAt {q : SedovShock.P} {k : ℕ} (A : Admissible q k) (f g h : ℝ → ℝ) {lam t : ℝ}
    (hS : SolvesAt q.gamma q.geometry q.omega f g h lam) (hlam : 0 < lam) (hg0 : g lam ≠ 0) (ht : 0 < t) :
    massRes (ρF q g) (uF q f) (q.geometry - 1) (lam * SedovShock.r2 q t) t = 0 ∧
    momResP (ρF q g) (uF q f) (pF q h) (lam * SedovShock.r2 q t) t = 0 ∧
    energyResE (ρF q g) (uF q f) (pF q h) (eF q g h) (q.geometry - 1) (lam * SedovShock.r2 q t) t = 0 := by
  obtain ⟨f', g', h', hf, hg, hh, hm, hp, he⟩ := hS
  have hRpos := r2_pos A ht
  have hr : lam * SedovShock.r2 q t / SedovShock.r2 q t = lam := by field_simp
  have key := euler_of_similarity A f g h (f' := f') (g' := g') (h' := h') (r := lam * SedovShock.r2 q t) ht
    (mul_pos hlam hRpos) (by rw [hr]; exact hf) (by rw [hr]; exact hg) (by rw [hr]; exact hh) (by rw [hr]; exact hg0)
  rw [hr] at key
  obtain ⟨k1, k2, k3⟩ := key
  exact ⟨by rw [k1, hm, mul_zero], by rw [k2, hp, mul_zero], by rw [k3, he, mul_zero]⟩

end

end EPV.Sedov
