/-
Sedov (C01 growth), special_singularity omega3 (generated model SedovFuncsO3, leaf 1): logarithmic
form of the derivative certificates, exponent relation, and — AT THE EXACTLY SPECIAL ω
(denom3 = k(2-γ) - ω = 0; the code uses these closed forms on the whole band |denom3| ≤ 1e-4,
where they are approximations) — the three similarity ODEs in parametric form and dλ/dv > 0.
The omega3 exponent always belongs to the standard solution type.
-/
import EPV.Gen.SedovFuncsO3D
import EPV.Lemmas.SedovODEO2

set_option linter.all false
set_option maxRecDepth 100000

open EPV EPV.Gen EPV.Spec.SedovODE Filter Topology

namespace EPV.Sedov.O3

noncomputable section

/-- the power bases of leaf 1 are positive and the pole of the exponent is avoided -/
structure Bases (p : SedovFuncsO3.P) (v : ℝ) : Prop where
  x1 : 0 < p.a_val * v
  x2 : 0 < p.b_val * (p.c_val * v - 1)
  x4 : 0 < p.b_val * (1 - 1 / 2 * p.xg2 * v)
  y : 1 / 2 * p.gamp1 - p.a_val * v ≠ 0

/-! ### The generated derivative expressions in logarithmic form -/

theorem l_dv (p : SedovFuncsO3.P) (v : ℝ) (B : Bases p v) :
    SedovFuncsO3.L1.l_fun_dv p v = SedovFuncsO3.L1.l_fun p v * Alg.tL p.a0 p.a1 p.a2 p.c_val p.xg2 v := by
  obtain ⟨hs1, hs2, hs4, hy⟩ := B
  simp only [epv_semi_deriv, epv_semi_leaf, Alg.tL]
  have e4 : 2 - p.xg2 * v = 2 * (1 - 1 / 2 * p.xg2 * v) := by ring
  rw [e4]
  have h1 := hs1.ne'; have h2 := hs2.ne'; have h3' := hs4.ne'
  have h4 : p.a_val ≠ 0 := left_ne_zero_of_mul h1
  have h5 : p.b_val ≠ 0 := left_ne_zero_of_mul h2
  have h7 : v ≠ 0 := right_ne_zero_of_mul h1
  have h8 : p.c_val * v - 1 ≠ 0 := right_ne_zero_of_mul h2
  have h10 : 1 - 1 / 2 * p.xg2 * v ≠ 0 := right_ne_zero_of_mul h3'
  generalize hD2 : p.c_val * v - 1 = D2 at *
  generalize hD4 : 1 - 1 / 2 * p.xg2 * v = D4 at *
  field_simp
  ring

theorem f_dv (p : SedovFuncsO3.P) (v : ℝ) (B : Bases p v) :
    SedovFuncsO3.L1.f_fun_dv p v = p.a_val * v * SedovFuncsO3.L1.l_fun p v
      * (1 / v + Alg.tL p.a0 p.a1 p.a2 p.c_val p.xg2 v) := by
  obtain ⟨hs1, hs2, hs4, hy⟩ := B
  simp only [epv_semi_deriv, epv_semi_leaf, Alg.tL]
  have e4 : 2 - p.xg2 * v = 2 * (1 - 1 / 2 * p.xg2 * v) := by ring
  rw [e4]
  have h1 := hs1.ne'; have h2 := hs2.ne'; have h3' := hs4.ne'
  have h4 : p.a_val ≠ 0 := left_ne_zero_of_mul h1
  have h5 : p.b_val ≠ 0 := left_ne_zero_of_mul h2
  have h7 : v ≠ 0 := right_ne_zero_of_mul h1
  have h8 : p.c_val * v - 1 ≠ 0 := right_ne_zero_of_mul h2
  have h10 : 1 - 1 / 2 * p.xg2 * v ≠ 0 := right_ne_zero_of_mul h3'
  generalize hD2 : p.c_val * v - 1 = D2 at *
  generalize hD4 : 1 - 1 / 2 * p.xg2 * v = D4 at *
  field_simp
  ring

theorem g_dv (p : SedovFuncsO3.P) (γ v : ℝ) (B : Bases p v) (hgp : p.gamp1 = γ + 1) (hg : p.gamma = γ) :
    SedovFuncsO3.L1.g_fun_dv p v = SedovFuncsO3.L1.g_fun p v
      * Alg.tG p.a0 p.a2 p.a3 (1 / (2 * p.e_val)) p.a_val p.c_val (1 / 2 * p.gamp1) p.xg2 γ p.geometry p.omega v := by
  obtain ⟨hs1, hs2, hs4, hy⟩ := B
  simp only [epv_semi_deriv, epv_semi_leaf, Alg.tG, Alg.dpp3]
  have e4 : 2 - p.xg2 * v = 2 * (1 - 1 / 2 * p.xg2 * v) := by ring
  rw [e4, ← hg]
  have e5 : p.gamma + 1 = p.gamp1 := by rw [hg, hgp]
  rw [e5]
  have h1 := hs1.ne'; have h2 := hs2.ne'; have h3' := hs4.ne'
  have h4 : p.a_val ≠ 0 := left_ne_zero_of_mul h1
  have h5 : p.b_val ≠ 0 := left_ne_zero_of_mul h2
  have h7 : v ≠ 0 := right_ne_zero_of_mul h1
  have h8 : p.c_val * v - 1 ≠ 0 := right_ne_zero_of_mul h2
  have h10 : 1 - 1 / 2 * p.xg2 * v ≠ 0 := right_ne_zero_of_mul h3'
  generalize Real.exp _ = Ex
  generalize (p.b_val * (p.c_val * v - 1)) ^ _ = Bq
  generalize (p.b_val * (1 - 1 / 2 * p.xg2 * v)) ^ _ = Cq
  generalize (p.a_val * v) ^ _ = A
  generalize (1 : ℝ) / (2 * p.e_val) = β
  generalize hD2 : p.c_val * v - 1 = D2 at *
  generalize hD4 : 1 - 1 / 2 * p.xg2 * v = D4 at *
  generalize hD6 : 1 / 2 * p.gamp1 - p.a_val * v = D6 at *
  field_simp
  rw [← hD6]
  ring

theorem h_dv (p : SedovFuncsO3.P) (γ v : ℝ) (B : Bases p v) (hgm : p.gamm1 = γ - 1) (hgp : p.gamp1 = γ + 1)
    (hg : p.gamma = γ) :
    SedovFuncsO3.L1.h_fun_dv p v = SedovFuncsO3.L1.h_fun p v
      * Alg.tH p.a0 (1 / (2 * p.e_val)) p.a_val (1 / 2 * p.gamp1) p.xg2 γ p.geometry v := by
  obtain ⟨hs1, hs2, hs4, hy⟩ := B
  simp only [epv_semi_deriv, epv_semi_leaf, Alg.tH, Alg.dpp3]
  have e4 : 2 - p.xg2 * v = 2 * (1 - 1 / 2 * p.xg2 * v) := by ring
  rw [e4, ← hg]
  have e5 : p.gamma + 1 = p.gamp1 := by rw [hg, hgp]
  have e6 : p.gamma - 1 = p.gamm1 := by rw [hg, hgm]
  rw [e5, e6]
  have h1 := hs1.ne'; have h3' := hs4.ne'
  have h4 : p.a_val ≠ 0 := left_ne_zero_of_mul h1
  have h5 : p.b_val ≠ 0 := left_ne_zero_of_mul h3'
  have h7 : v ≠ 0 := right_ne_zero_of_mul h1
  have h10 : 1 - 1 / 2 * p.xg2 * v ≠ 0 := right_ne_zero_of_mul h3'
  generalize Real.exp _ = Ex
  generalize (p.b_val * (1 - 1 / 2 * p.xg2 * v)) ^ _ = Cq
  generalize (p.a_val * v) ^ _ = A
  generalize (1 : ℝ) / (2 * p.e_val) = β
  generalize hD4 : 1 - 1 / 2 * p.xg2 * v = D4 at *
  generalize hD6 : 1 / 2 * p.gamp1 - p.a_val * v = D6 at *
  field_simp
  rw [← hD6]
  ring

theorem hasDerivAt (p : SedovFuncsO3.P) (v : ℝ) (B : Bases p v) :
    HasDerivAt (SedovFuncsO3.L1.l_fun p) (SedovFuncsO3.L1.l_fun_dv p v) v ∧
    HasDerivAt (SedovFuncsO3.L1.f_fun p) (SedovFuncsO3.L1.f_fun_dv p v) v ∧
    HasDerivAt (SedovFuncsO3.L1.g_fun p) (SedovFuncsO3.L1.g_fun_dv p v) v ∧
    HasDerivAt (SedovFuncsO3.L1.h_fun p) (SedovFuncsO3.L1.h_fun_dv p v) v := by
  -- the certificates' side conditions (their number, order and form follow the Python) are discharged from `B`
  have hx1 := B.x1
  have hx2 := B.x2
  have hx4 := B.x4
  have hy := B.y
  refine ⟨?_, ?_, ?_, ?_⟩
  · epv_hydro_cert SedovFuncsO3.L1.l_fun_hasDerivAt_v p v
  · epv_hydro_cert SedovFuncsO3.L1.f_fun_hasDerivAt_v p v
  · epv_hydro_cert SedovFuncsO3.L1.g_fun_hasDerivAt_v p v
  · epv_hydro_cert SedovFuncsO3.L1.h_fun_hasDerivAt_v p v

theorem l_pos (p : SedovFuncsO3.P) (v : ℝ) (B : Bases p v) : 0 < SedovFuncsO3.L1.l_fun p v := by
  simp only [epv_semi_leaf]
  exact mul_pos (mul_pos (Real.rpow_pos_of_pos B.x1 _) (Real.rpow_pos_of_pos B.x2 _)) (Real.rpow_pos_of_pos B.x4 _)
theorem g_pos (p : SedovFuncsO3.P) (v : ℝ) (B : Bases p v) : 0 < SedovFuncsO3.L1.g_fun p v := by
  simp only [epv_semi_leaf]
  exact mul_pos (mul_pos (mul_pos (Real.rpow_pos_of_pos B.x1 _) (Real.rpow_pos_of_pos B.x2 _))
    (Real.rpow_pos_of_pos B.x4 _)) (Real.exp_pos _)

/-! ### The exponents add up -/

theorem h_rel_abstract (x1 x2 x4 a0 a1 a2 q1 q2 q4 k ω P : ℝ) (h1 : 0 < x1) (h2 : 0 < x2) (h4 : 0 < x4)
    (e1 : a0 * ω + (-a0) * (2 : ℕ) + 2 = a0 * k) (e2 : q1 + (-a2) * (2 : ℕ) = 1)
    (e4 : q2 + (-a1) * (2 : ℕ) + 1 = q4) :
    (x1 ^ (a0 * k) * x4 ^ q4 * Real.exp P) * x2
      = (x1 ^ (a0 * ω) * x2 ^ q1 * x4 ^ q2 * Real.exp P) * x1 ^ 2
        * (x1 ^ (-a0) * x2 ^ (-a2) * x4 ^ (-a1)) ^ 2 * x4 := by
  have E1 : x1 ^ (a0 * ω) * (x1 ^ (-a0)) ^ 2 * x1 ^ 2 = x1 ^ (a0 * k) := by
    rw [Std.rpow_combine h1 (a0 * ω) (-a0) (a0 * ω + (-a0) * (2 : ℕ)) 2 rfl, ← Real.rpow_two x1, ← Real.rpow_add h1, e1]
  have E2 : x2 ^ q1 * (x2 ^ (-a2)) ^ 2 = x2 := by
    rw [Std.rpow_combine h2 _ _ _ 2 e2, Real.rpow_one]
  have E4 : x4 ^ q2 * (x4 ^ (-a1)) ^ 2 * x4 = x4 ^ q4 := by
    rw [Std.rpow_combine h4 q2 (-a1) (q2 + (-a1) * (2 : ℕ)) 2 rfl]
    nth_rewrite 2 [← Real.rpow_one x4]
    rw [← Real.rpow_add h4, e4]
  rw [← E1, ← E4, mul_pow, mul_pow]
  linear_combination (-(x1 ^ (a0 * ω) * (x1 ^ (-a0)) ^ 2 * x1 ^ 2 * (x4 ^ q2 * (x4 ^ (-a1)) ^ 2 * x4) * Real.exp P)) * E2

/-! ### With the constants of `__init__`, at the exactly special ω -/

theorem bases {p : SedovFuncsO3.P} {γ k ω v : ℝ} (hC : O3Consts p γ k ω) (S : O2.Signs γ k ω v) : Bases p v := by
  obtain ⟨hγ, hX, hE, hv, h2, h4⟩ := S
  have hb : 0 < (γ + 1) / (γ - 1) := div_pos (by linarith) (by linarith)
  refine ⟨?_, ?_, ?_, ?_⟩
  · rw [hC.a_val]; unfold K.a_val
    exact mul_pos (mul_pos (mul_pos (by norm_num) hX) (by linarith)) hv
  · rw [hC.b_val, hC.c_val]; unfold K.b_val K.c_val
    exact mul_pos hb h2
  · rw [hC.b_val, hC.xg2]; unfold K.b_val
    exact mul_pos hb (by linarith)
  · -- c6 - a_val v = ((γ+1)/4) (2 - X v)
    rw [hC.a_val, hC.gamp1]; unfold K.a_val
    have e : 1 / 2 * (γ + 1) - 1 / 4 * (k + 2 - ω) * (γ + 1) * v = (γ + 1) / 4 * (2 - (k + 2 - ω) * v) := by ring
    rw [e]
    exact (mul_pos (by linarith) h4).ne'

/-- the algebra: brackets vanish, d log λ/dv = N(v)/(2 E v (c v - 1)(2 - X v)) -/
theorem brackets {p : SedovFuncsO3.P} {γ k ω v : ℝ} (hC : O3Consts p γ k ω) (S : O2.Signs γ k ω v)
    (hω3 : K.denom3 γ k ω = 0) :
    Alg.Bmass (k + 2 - ω) k ω v (Alg.tL p.a0 p.a1 p.a2 p.c_val (k + 2 - ω) v)
        (Alg.tG p.a0 p.a2 p.a3 (1 / (2 * p.e_val)) p.a_val p.c_val (1 / 2 * p.gamp1) (k + 2 - ω) γ k ω v) = 0 ∧
    Alg.Benergy (k + 2 - ω) γ k ω v (Alg.tL p.a0 p.a1 p.a2 p.c_val (k + 2 - ω) v)
        (Alg.tG p.a0 p.a2 p.a3 (1 / (2 * p.e_val)) p.a_val p.c_val (1 / 2 * p.gamp1) (k + 2 - ω) γ k ω v)
        (Alg.tH p.a0 (1 / (2 * p.e_val)) p.a_val (1 / 2 * p.gamp1) (k + 2 - ω) γ k v) = 0 ∧
    Alg.Bmom (k + 2 - ω) p.c_val γ k ω v (Alg.tL p.a0 p.a1 p.a2 p.c_val (k + 2 - ω) v)
        (Alg.tH p.a0 (1 / (2 * p.e_val)) p.a_val (1 / 2 * p.gamp1) (k + 2 - ω) γ k v) = 0 ∧
    Alg.tL p.a0 p.a1 p.a2 p.c_val (k + 2 - ω) v
      = (γ * (γ + 1) * (k + 2 - ω) ^ 2 * v ^ 2 - 4 * (γ + 1) * (k + 2 - ω) * v + 8)
        / (2 * (2 + k * (γ - 1)) * v * (p.c_val * v - 1) * (2 - (k + 2 - ω) * v)) := by
  have B := bases hC S
  obtain ⟨hγ, hX, hE, hv, h2, h4⟩ := S
  have hg0 : γ ≠ 0 := by linarith
  unfold K.denom3 at hω3
  have hω : ω = k * (2 - γ) := by linarith
  have hd20 : 2 * (γ - 1) + k - γ * ω ≠ 0 := by
    have e : 2 * (γ - 1) + k - γ * ω = (γ - 1) * (2 + k * (γ - 1)) := by rw [hω]; ring
    rw [e]; exact mul_ne_zero (by linarith) hE.ne'
  have ha0 : p.a0 = 2 / (k + 2 - ω) := hC.a0
  have ha2 : p.a2 = -(γ - 1) / (2 * (γ - 1) + k - γ * ω) := hC.a2
  have ha1 : p.a1 = (k + 2 - ω) * γ / (2 + k * (γ - 1)) * (2 * (k * (2 - γ) - ω) / (γ * (k + 2 - ω) * (k + 2 - ω)) - p.a2) := by
    rw [hC.a1, hC.a2]; rfl
  have ha3 : p.a3 = (k - ω) / (2 * (γ - 1) + k - γ * ω) := hC.a3
  have hb0 : 1 / (2 * p.e_val) = 1 / (2 + k * (γ - 1)) := by
    rw [hC.e_val]; unfold K.e_val; congr 1; ring
  have hc : p.c_val = 1 / 2 * (k + 2 - ω) * γ := hC.c_val
  have hav : p.a_val = 1 / 4 * (k + 2 - ω) * (γ + 1) := hC.a_val
  have hc6 : 1 / 2 * p.gamp1 = (γ + 1) / 2 := by rw [hC.gamp1]; ring
  have hv0 := hv.ne'
  have hD2 : p.c_val * v - 1 ≠ 0 := by rw [hc]; exact h2.ne'
  have hD6 := B.y
  have hD4 := h4.ne'
  exact ⟨Alg.t_mass_bracket γ k ω _ _ _ p.a0 p.a1 p.a2 p.a3 _ p.a_val p.c_val _ v hX.ne' hd20 hE.ne' hg0 hω rfl rfl rfl
      ha0 ha2 ha1 ha3 hb0 hc hav hc6 hv0 hD2 hD6 hD4,
    Alg.t_energy_bracket γ k ω _ _ _ p.a0 p.a1 p.a2 p.a3 _ p.a_val p.c_val _ v hX.ne' hd20 hE.ne' hg0 hω rfl rfl rfl
      ha0 ha2 ha1 ha3 hb0 hc hav hc6 hv0 hD2 hD6 hD4,
    Alg.t_mom_bracket γ k ω _ _ _ p.a0 p.a1 p.a2 p.a3 _ p.a_val p.c_val _ v hX.ne' hd20 hE.ne' hg0 hω rfl rfl rfl
      ha0 ha2 ha1 ha3 hb0 hc hav hc6 hv0 hD2 hD6 hD4,
    Alg.t_L_eq γ k ω _ _ _ p.a0 p.a1 p.a2 p.a3 _ p.a_val p.c_val _ v hX.ne' hd20 hE.ne' hg0 hω rfl rfl rfl
      ha0 ha2 ha1 ha3 hb0 hc hav hc6 hv0 hD2 hD6 hD4⟩

theorem h_rel {p : SedovFuncsO3.P} {γ k ω v : ℝ} (hC : O3Consts p γ k ω) (S : O2.Signs γ k ω v)
    (hω3 : K.denom3 γ k ω = 0) :
    SedovFuncsO3.L1.h_fun p v * (p.c_val * v - 1)
      = SedovFuncsO3.L1.g_fun p v * (p.a_val * v) ^ 2 * SedovFuncsO3.L1.l_fun p v ^ 2 * (1 - (k + 2 - ω) / 2 * v) := by
  have B := bases hC S
  have hX := S.hX.ne'
  have hE := S.hE.ne'
  have hγ := S.hγ
  unfold K.denom3 at hω3
  have hω : ω = k * (2 - γ) := by linarith
  have hd2 : 2 * (γ - 1) + k - γ * ω = (γ - 1) * (2 + k * (γ - 1)) := by rw [hω]; ring
  have hXE : k + 2 - ω = 2 + k * (γ - 1) := by rw [hω]; ring
  have hg1 : γ - 1 ≠ 0 := by linarith
  have hg0 : γ ≠ 0 := by linarith
  have e1 : p.a0 * p.omega + (-p.a0) * (2 : ℕ) + 2 = p.a0 * p.geometry := by
    rw [hC.a0, hC.omega, hC.geometry]; unfold K.a0; push_cast; field_simp; ring
  have e2 : p.a3 + p.omega * p.a2 + (-p.a2) * (2 : ℕ) = 1 := by
    rw [hC.a3, hC.a2, hC.omega]; unfold K.a3 K.a2; rw [hd2]; push_cast; field_simp; rw [hω]; ring
  have e4 : 1 - 4 * (1 / (2 * p.e_val)) + (-p.a1) * (2 : ℕ) + 1
      = 2 * (p.geometry * p.gamm1 - p.gamma) * (1 / (2 * p.e_val)) := by
    rw [hC.a1, hC.geometry, hC.gamm1, hC.gamma, hC.e_val]; unfold K.a1 K.a2 K.e_val
    rw [hd2, hXE]
    have h0 : k * (2 - γ) - ω = 0 := by linarith
    rw [h0]
    push_cast; field_simp; ring
  have key := h_rel_abstract (p.a_val * v) (p.b_val * (p.c_val * v - 1))
    (p.b_val * (1 - 1 / 2 * p.xg2 * v)) p.a0 p.a1 p.a2 _ _ _ p.geometry p.omega
    (-p.geometry * p.gamma * p.gamp1 * (1 / (2 * p.e_val)) * (1 - p.a_val * v) / (1 / 2 * p.gamp1 - p.a_val * v))
    B.x1 B.x2 B.x4 e1 e2 e4
  have hb : p.b_val ≠ 0 := left_ne_zero_of_mul B.x2.ne'
  simp only [epv_semi_leaf]
  rw [hC.xg2] at key ⊢
  have e5 : (1 : ℝ) - (k + 2 - ω) / 2 * v = 1 - 1 / 2 * (k + 2 - ω) * v := by ring
  rw [e5]
  apply mul_left_cancel₀ hb
  linear_combination key

theorem mass_ode {p : SedovFuncsO3.P} {γ k ω v : ℝ} (hC : O3Consts p γ k ω) (S : O2.Signs γ k ω v)
    (hω3 : K.denom3 γ k ω = 0) :
    massODEv γ k ω (SedovFuncsO3.L1.l_fun p v) (SedovFuncsO3.L1.f_fun p v) (SedovFuncsO3.L1.g_fun p v)
      (SedovFuncsO3.L1.l_fun_dv p v) (SedovFuncsO3.L1.f_fun_dv p v) (SedovFuncsO3.L1.g_fun_dv p v) = 0 := by
  have B := bases hC S
  have hF : SedovFuncsO3.L1.f_fun p v = p.a_val * v * SedovFuncsO3.L1.l_fun p v := by simp only [epv_semi_leaf]
  have hs : 2 / (γ + 1) * (p.a_val * v) = (k + 2 - ω) / 2 * v := by
    rw [hC.a_val]; unfold K.a_val; have := S.hγ; field_simp; ring
  rw [hF, l_dv p v B, f_dv p v B, g_dv p γ v B hC.gamp1 hC.gamma, hC.xg2, hC.omega, hC.geometry,
    Alg.massODEv_factor γ k ω (k + 2 - ω) v _ _ (p.a_val * v) _ _ (l_pos p v B).ne' S.hv.ne'
      (by linarith [S.hγ]) hs, (brackets hC S hω3).1, mul_zero]

theorem energy_ode {p : SedovFuncsO3.P} {γ k ω v : ℝ} (hC : O3Consts p γ k ω) (S : O2.Signs γ k ω v)
    (hω3 : K.denom3 γ k ω = 0) :
    energyODEv γ k ω (SedovFuncsO3.L1.l_fun p v) (SedovFuncsO3.L1.f_fun p v) (SedovFuncsO3.L1.g_fun p v)
      (SedovFuncsO3.L1.h_fun p v) (SedovFuncsO3.L1.l_fun_dv p v) (SedovFuncsO3.L1.f_fun_dv p v)
      (SedovFuncsO3.L1.g_fun_dv p v) (SedovFuncsO3.L1.h_fun_dv p v) = 0 := by
  have B := bases hC S
  have hF : SedovFuncsO3.L1.f_fun p v = p.a_val * v * SedovFuncsO3.L1.l_fun p v := by simp only [epv_semi_leaf]
  have hs : 2 / (γ + 1) * (p.a_val * v) = (k + 2 - ω) / 2 * v := by
    rw [hC.a_val]; unfold K.a_val; have := S.hγ; field_simp; ring
  rw [hF, l_dv p v B, f_dv p v B, g_dv p γ v B hC.gamp1 hC.gamma, h_dv p γ v B hC.gamm1 hC.gamp1 hC.gamma,
    hC.xg2, hC.omega, hC.geometry,
    Alg.energyODEv_factor γ k ω (k + 2 - ω) v _ _ _ (p.a_val * v) _ _ _ (l_pos p v B).ne' (g_pos p v B).ne' S.hv.ne'
      (by linarith [S.hγ]) hs, (brackets hC S hω3).2.1, mul_zero]

theorem mom_ode {p : SedovFuncsO3.P} {γ k ω v : ℝ} (hC : O3Consts p γ k ω) (S : O2.Signs γ k ω v)
    (hω3 : K.denom3 γ k ω = 0) :
    momODEv γ k ω (SedovFuncsO3.L1.l_fun p v) (SedovFuncsO3.L1.f_fun p v) (SedovFuncsO3.L1.g_fun p v)
      (SedovFuncsO3.L1.l_fun_dv p v) (SedovFuncsO3.L1.f_fun_dv p v) (SedovFuncsO3.L1.h_fun_dv p v) = 0 := by
  have B := bases hC S
  have hF : SedovFuncsO3.L1.f_fun p v = p.a_val * v * SedovFuncsO3.L1.l_fun p v := by simp only [epv_semi_leaf]
  have hs : 2 / (γ + 1) * (p.a_val * v) = (k + 2 - ω) / 2 * v := by
    rw [hC.a_val]; unfold K.a_val; have := S.hγ; field_simp; ring
  have hD2 : p.c_val * v - 1 ≠ 0 := by rw [hC.c_val]; exact S.x2.ne'
  rw [hF, l_dv p v B, f_dv p v B, h_dv p γ v B hC.gamm1 hC.gamp1 hC.gamma, hC.xg2, hC.geometry,
    Alg.momODEv_factor γ k ω (k + 2 - ω) p.c_val v _ _ _ (p.a_val * v) _ _ (l_pos p v B).ne' (g_pos p v B).ne' S.hv.ne'
      (by linarith [S.hγ]) hD2 hs (h_rel hC S hω3), (brackets hC S hω3).2.2.1, mul_zero]

/-- λ increases with v (the omega3 exponent belongs to the standard type) -/
theorem l_dv_pos {p : SedovFuncsO3.P} {γ k ω v : ℝ} (hC : O3Consts p γ k ω) (S : O2.Signs γ k ω v)
    (hω3 : K.denom3 γ k ω = 0) : 0 < SedovFuncsO3.L1.l_fun_dv p v := by
  have B := bases hC S
  rw [l_dv p v B, hC.xg2, (brackets hC S hω3).2.2.2, hC.c_val]
  exact mul_pos (l_pos p v B) (div_pos (Alg.N_pos γ _ v S.hγ)
    (mul_pos (mul_pos (mul_pos (mul_pos (by norm_num) S.hE) S.hv) S.x2) S.x4))

theorem l_strict (p : SedovFuncsO3.P) (v : ℝ) (B : Bases p v) :
    HasStrictDerivAt (SedovFuncsO3.L1.l_fun p) (SedovFuncsO3.L1.l_fun_dv p v) v := by
  have hc : ContDiffAt ℝ 1 (SedovFuncsO3.L1.l_fun p) v := by
    -- the closed form of the pinned source (bridge lemma), whatever shape the generated definition has
    rw [(funext (EPV.Bridge.Semi.SedovFuncsO3_L1_l_fun p) : SedovFuncsO3.L1.l_fun p = _)]
    have h1 := B.x1.ne'; have h2 := B.x2.ne'; have h4 := B.x4.ne'
    exact ((ContDiffAt.rpow_const_of_ne (by fun_prop) h1).mul (ContDiffAt.rpow_const_of_ne (by fun_prop) h2)).mul
      (ContDiffAt.rpow_const_of_ne (by fun_prop) h4)
  exact hc.hasStrictDerivAt' (hasDerivAt p v B).1 (by norm_num)

/-- **The similarity functions solve the similarity ODEs** (special_singularity omega3, at the
exactly special ω), for v₀ strictly inside the branch -/
theorem solvesAt {p : SedovFuncsO3.P} {γ k ω v₀ : ℝ} (hC : O3Consts p γ k ω)
    (I : StdInterior γ k ω v₀ ∨ VacInterior γ k ω v₀) (hω3 : K.denom3 γ k ω = 0) (f g h : ℝ → ℝ)
    (hf : ∀ᶠ v in 𝓝 v₀, f (SedovFuncsO3.L1.l_fun p v) = SedovFuncsO3.L1.f_fun p v)
    (hg : ∀ᶠ v in 𝓝 v₀, g (SedovFuncsO3.L1.l_fun p v) = SedovFuncsO3.L1.g_fun p v)
    (hh : ∀ᶠ v in 𝓝 v₀, h (SedovFuncsO3.L1.l_fun p v) = SedovFuncsO3.L1.h_fun p v) :
    SolvesAt γ k ω f g h (SedovFuncsO3.L1.l_fun p v₀) := by
  have S := (Std.signs_of_interior I).toO2
  have B := bases hC S
  obtain ⟨-, dF, dG, dH⟩ := hasDerivAt p v₀ B
  exact solvesAt_of_param (l_strict p v₀ B) (l_dv_pos hC S hω3).ne' dF dG dH hf hg hh
    (mass_ode hC S hω3) (mom_ode hC S hω3) (energy_ode hC S hω3)

end

end EPV.Sedov.O3
