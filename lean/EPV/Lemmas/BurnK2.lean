/-
The bridge between the generated burn-time models (one file per solver: BurnK1, BurnK2, BurnK3, BurnDSD —
so that a change of one solver breaks only its own theorems) and the documented solutions of `EPV.Spec.Burn`:

* `…_outcome`  : the traced request is served (`outcome = .ok`) exactly under the conditions the
                 constructor enforces, written in the vocabulary of the specification;
* `…_eq_spec` / `…_eq_cone` : wherever it is served, the traced `burntime` IS the documented
                 formula, with points read as elements of `EuclideanSpace ℝ (Fin n)`.

Everything the property files (C13, C09, C07, C08, C20 shares) prove about the code goes through
these statements.  They are proved by reducing the traced tree with the acceptance conditions (whatever
their order), rewriting the documented norms / distances / inner products into coordinates and ring
normalisation inside and outside the square roots (EPV/Lemmas/Bridge/DetonTactics.lean), so they do not
depend on how the Python writes the formula, and break — loudly — when the traced formula changes.
-/
import EPV.Gen.K2d2
import EPV.Gen.K2d3
import EPV.Spec.Burn
import EPV.Lemmas.Burn
import EPV.Tactics
import EPV.Lemmas.Bridge.DetonTactics

set_option linter.all false

open EPV EPV.Gen EPV.Spec.Burn

namespace EPV.Burn

/-! ### Kenamond 2 -/

theorem k2d2_leaves : K2d2.okLeaves = [12] := rfl
theorem k2d3_leaves : K2d3.okLeaves = [12] := rfl

/-- a point on the symmetry axis (y in 2-D, z in 3-D) -/
noncomputable def axis2 (a : ℝ) : E2 := !₂[0, a]
noncomputable def axis3 (a : ℝ) : E3 := !₂[0, 0, a]

@[simp] theorem axis2_0 (a : ℝ) : (axis2 a) 0 = 0 := by simp [axis2]
@[simp] theorem axis2_1 (a : ℝ) : (axis2 a) 1 = a := by simp [axis2]
@[simp] theorem axis3_0 (a : ℝ) : (axis3 a) 0 = 0 := by simp [axis3]
@[simp] theorem axis3_1 (a : ℝ) : (axis3 a) 1 = 0 := by simp [axis3]
@[simp] theorem axis3_2 (a : ℝ) : (axis3 a) 2 = a := by simp [axis3]

theorem norm_axis2 (a : ℝ) : ‖axis2 a‖ = |a| := by
  rw [← sqrt_norm2]; simp [axis2, Real.sqrt_mul_self_eq_abs]

theorem norm_axis3 (a : ℝ) : ‖axis3 a‖ = |a| := by
  rw [← sqrt_norm3]; simp [axis3, Real.sqrt_mul_self_eq_abs]

/-- the constructor's checks in the vocabulary of the specification -/
def K2d2.Adm (p : K2d2.P) : Prop :=
  K2Adm p.R p.D1 p.D2 p.td1 p.td2 p.td3 p.td4 p.td5 (axis2 p.a1) (axis2 p.a2) (axis2 p.a4) (axis2 p.a5)
def K2d3.Adm (p : K2d3.P) : Prop :=
  K2Adm p.R p.D1 p.D2 p.td1 p.td2 p.td3 p.td4 p.td5 (axis3 p.a1) (axis3 p.a2) (axis3 p.a4) (axis3 p.a5)

/-- the documented solution for the parameters of the traced model -/
noncomputable def K2d2.spec (p : K2d2.P) (q : E2) : ℝ :=
  k2 p.R p.D1 p.D2 p.td1 p.td2 p.td3 p.td4 p.td5 (axis2 p.a1) (axis2 p.a2) (axis2 p.a4) (axis2 p.a5) q
noncomputable def K2d3.spec (p : K2d3.P) (q : E3) : ℝ :=
  k2 p.R p.D1 p.D2 p.td1 p.td2 p.td3 p.td4 p.td5 (axis3 p.a1) (axis3 p.a2) (axis3 p.a4) (axis3 p.a5) q

/-- `K2Adm` as a plain conjunction (so that the order of the constructor's checks does not matter) -/
theorem K2Adm_iff {E : Type*} [NormedAddCommGroup E] [InnerProductSpace ℝ E]
    {R D1 D2 td1 td2 td3 td4 td5 : ℝ} {d1 d2 d4 d5 : E} :
    K2Adm R D1 D2 td1 td2 td3 td4 td5 d1 d2 d4 d5 ↔
      (0 < R ∧ 0 < D2 ∧ D2 ≤ D1 ∧ R < ‖d1‖ ∧ R < ‖d2‖ ∧ R < ‖d4‖ ∧ R < ‖d5‖ ∧
        td3 + R * (1 / D1 + 1 / D2) - ‖d1‖ / D2 ≤ td1 ∧ td3 + R * (1 / D1 + 1 / D2) - ‖d2‖ / D2 ≤ td2 ∧
        td3 + R * (1 / D1 + 1 / D2) - ‖d4‖ / D2 ≤ td4 ∧ td3 + R * (1 / D1 + 1 / D2) - ‖d5‖ / D2 ≤ td5) :=
  ⟨fun h => ⟨h.hR, h.hD2, h.hD, h.out1, h.out2, h.out4, h.out5, h.time1, h.time2, h.time4, h.time5⟩,
   fun ⟨a, b, c, d, e, f, g, h, i, j, k⟩ => ⟨a, b, c, d, e, f, g, h, i, j, k⟩⟩

/-- the request is accepted exactly under the documented ordering conditions (with D₁ ≥ D₂ as coded) -/
theorem k2d2_outcome (p : K2d2.P) (x y : ℝ) : K2d2.outcome p x y = .ok ↔ K2d2.Adm p := by
  simp only [epv_tree, Bridge.Deton.ite_raise_ok, Bridge.Deton.ite_else_raise_ok, ite_self, Bridge.Deton.ok_eq_ok, and_true]
  simp only [epv_cond, not_le, not_lt]
  unfold K2d2.Adm
  rw [K2Adm_iff]
  simp only [norm_axis2]
  epv_deton_conj_iff

theorem k2d3_outcome (p : K2d3.P) (x y z : ℝ) : K2d3.outcome p x y z = .ok ↔ K2d3.Adm p := by
  simp only [epv_tree, Bridge.Deton.ite_raise_ok, Bridge.Deton.ite_else_raise_ok, ite_self, Bridge.Deton.ok_eq_ok, and_true]
  simp only [epv_cond, not_le, not_lt]
  unfold K2d3.Adm
  rw [K2Adm_iff]
  simp only [norm_axis3]
  epv_deton_conj_iff

/-- under the constructor's checks the traced burn time is the documented solution -/
theorem k2d2_eq_spec (p : K2d2.P) (q : E2) (h : K2d2.outcome p (q 0) (q 1) = .ok) :
    K2d2.burntime p (q 0) (q 1) = K2d2.spec p q := by
  epv_deton_ok_reduce h
  simp only [epv_leaf]
  unfold K2d2.spec k2 cone
  rw [← sqrt_norm2 q, ← sqrt_dist2 q (axis2 p.a1), ← sqrt_dist2 q (axis2 p.a2), ← sqrt_dist2 q (axis2 p.a4),
    ← sqrt_dist2 q (axis2 p.a5)]
  simp only [axis2_0, axis2_1]
  epv_deton_nf_eq

theorem k2d3_eq_spec (p : K2d3.P) (q : E3) (h : K2d3.outcome p (q 0) (q 1) (q 2) = .ok) :
    K2d3.burntime p (q 0) (q 1) (q 2) = K2d3.spec p q := by
  epv_deton_ok_reduce h
  simp only [epv_leaf]
  unfold K2d3.spec k2 cone
  rw [← sqrt_norm3 q, ← sqrt_dist3 q (axis3 p.a1), ← sqrt_dist3 q (axis3 p.a2), ← sqrt_dist3 q (axis3 p.a4),
    ← sqrt_dist3 q (axis3 p.a5)]
  simp only [axis3_0, axis3_1, axis3_2]
  epv_deton_nf_eq


theorem k2d2_eq_spec' (p : K2d2.P) (h : K2d2.Adm p) (q : E2) : K2d2.burntime p (q 0) (q 1) = K2d2.spec p q :=
  k2d2_eq_spec p q ((k2d2_outcome p _ _).mpr h)

theorem k2d3_eq_spec' (p : K2d3.P) (h : K2d3.Adm p) (q : E3) : K2d3.burntime p (q 0) (q 1) (q 2) = K2d3.spec p q :=
  k2d3_eq_spec p q ((k2d3_outcome p _ _ _).mpr h)

end EPV.Burn
