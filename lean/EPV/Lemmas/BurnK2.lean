/-
The bridge between the generated burn-time models (one file per solver: BurnK1, BurnK2, BurnK3, BurnDSD —
so that a change of one solver breaks only its own theorems) and the documented solutions of `EPV.Spec.Burn`:

* `…_outcome`  : the traced request is served (`outcome = .ok`) exactly under the conditions the
                 constructor enforces, written in the vocabulary of the specification;
* `…_eq_spec` / `…_eq_cone` : wherever it is served, the traced `burntime` IS the documented
                 formula, with points read as elements of `EuclideanSpace ℝ (Fin n)`.

Everything the property files (C13, C09, C07, C08, C20 shares) prove about the code goes through
these statements.  They are proved by unfolding the generated definitions and rewriting
`Real.sqrt (… * … + …)` into norms / distances / inner products, so they break — loudly — when
the traced formula changes.
-/
import EPV.Gen.K2d2
import EPV.Gen.K2d3
import EPV.Spec.Burn
import EPV.Lemmas.Burn
import EPV.Tactics

set_option linter.all false

open EPV EPV.Gen EPV.Spec.Burn

namespace EPV.Burn

/-! ### Kenamond 2 -/

theorem k2d2_leaves : K2d2.okLeaves = [12] := rfl
theorem k2d3_leaves : K2d3.okLeaves = [12] := rfl

/-- a point on the symmetry axis (y in 2-D, z in 3-D) -/
noncomputable def axis2 (a : ℝ) : E2 := !₂[0, a]
noncomputable def axis3 (a : ℝ) : E3 := !₂[0, 0, a]

@[simp] theorem axis2_0 (a : ℝ) : (axis2 a) 0 = 0 := by simp [axis2]
@[simp] theorem axis2_1 (a : ℝ) : (axis2 a) 1 = a := by simp [axis2]
@[simp] theorem axis3_0 (a : ℝ) : (axis3 a) 0 = 0 := by simp [axis3]
@[simp] theorem axis3_1 (a : ℝ) : (axis3 a) 1 = 0 := by simp [axis3]
@[simp] theorem axis3_2 (a : ℝ) : (axis3 a) 2 = a := by simp [axis3]

theorem norm_axis2 (a : ℝ) : ‖axis2 a‖ = |a| := by
  rw [← sqrt_norm2]; simp [axis2, Real.sqrt_mul_self_eq_abs]

theorem norm_axis3 (a : ℝ) : ‖axis3 a‖ = |a| := by
  rw [← sqrt_norm3]; simp [axis3, Real.sqrt_mul_self_eq_abs]

/-- the constructor's checks in the vocabulary of the specification -/
def K2d2.Adm (p : K2d2.P) : Prop :=
  K2Adm p.R p.D1 p.D2 p.td1 p.td2 p.td3 p.td4 p.td5 (axis2 p.a1) (axis2 p.a2) (axis2 p.a4) (axis2 p.a5)
def K2d3.Adm (p : K2d3.P) : Prop :=
  K2Adm p.R p.D1 p.D2 p.td1 p.td2 p.td3 p.td4 p.td5 (axis3 p.a1) (axis3 p.a2) (axis3 p.a4) (axis3 p.a5)

/-- the documented solution for the parameters of the traced model -/
noncomputable def K2d2.spec (p : K2d2.P) (q : E2) : ℝ :=
  k2 p.R p.D1 p.D2 p.td1 p.td2 p.td3 p.td4 p.td5 (axis2 p.a1) (axis2 p.a2) (axis2 p.a4) (axis2 p.a5) q
noncomputable def K2d3.spec (p : K2d3.P) (q : E3) : ℝ :=
  k2 p.R p.D1 p.D2 p.td1 p.td2 p.td3 p.td4 p.td5 (axis3 p.a1) (axis3 p.a2) (axis3 p.a4) (axis3 p.a5) q

/-- the request is accepted exactly under the documented ordering conditions (with D₁ ≥ D₂ as coded) -/
theorem k2d2_outcome (p : K2d2.P) (x y : ℝ) : K2d2.outcome p x y = .ok ↔ K2d2.Adm p := by
  simp only [epv_tree, ite_raise_eq_ok]
  simp only [epv_cond, not_le, not_lt]
  unfold K2d2.Adm
  constructor
  · rintro ⟨h0, h1, h2, h3, o1, o2, o4, o5, t1, t2, t4, t5, -⟩
    exact ⟨h0, h2, h3, by rwa [norm_axis2], by rwa [norm_axis2], by rwa [norm_axis2], by rwa [norm_axis2],
      by rwa [norm_axis2], by rwa [norm_axis2], by rwa [norm_axis2], by rwa [norm_axis2]⟩
  · rintro ⟨h0, h2, h3, o1, o2, o4, o5, t1, t2, t4, t5⟩
    rw [norm_axis2] at o1 o2 o4 o5 t1 t2 t4 t5
    exact ⟨h0, h2.trans_le h3, h2, h3, o1, o2, o4, o5, t1, t2, t4, t5, trivial⟩

theorem k2d3_outcome (p : K2d3.P) (x y z : ℝ) : K2d3.outcome p x y z = .ok ↔ K2d3.Adm p := by
  simp only [epv_tree, ite_raise_eq_ok]
  simp only [epv_cond, not_le, not_lt]
  unfold K2d3.Adm
  constructor
  · rintro ⟨h0, h1, h2, h3, o1, o2, o4, o5, t1, t2, t4, t5, -⟩
    exact ⟨h0, h2, h3, by rwa [norm_axis3], by rwa [norm_axis3], by rwa [norm_axis3], by rwa [norm_axis3],
      by rwa [norm_axis3], by rwa [norm_axis3], by rwa [norm_axis3], by rwa [norm_axis3]⟩
  · rintro ⟨h0, h2, h3, o1, o2, o4, o5, t1, t2, t4, t5⟩
    rw [norm_axis3] at o1 o2 o4 o5 t1 t2 t4 t5
    exact ⟨h0, h2.trans_le h3, h2, h3, o1, o2, o4, o5, t1, t2, t4, t5, trivial⟩

/-- under the constructor's checks the traced burn time is the documented solution -/
theorem k2d2_eq_spec (p : K2d2.P) (q : E2) (h : K2d2.outcome p (q 0) (q 1) = .ok) :
    K2d2.burntime p (q 0) (q 1) = K2d2.spec p q := by
  simp only [epv_tree, ite_raise_eq_ok] at h
  obtain ⟨h0, h1, h2, h3, h4, h5, h6, h7, h8, h9, h10, h11, -⟩ := h
  simp only [epv_tree, if_neg h0, if_neg h1, if_neg h2, if_neg h3, if_neg h4, if_neg h5, if_neg h6, if_neg h7,
    if_neg h8, if_neg h9, if_neg h10, if_neg h11, epv_leaf]
  unfold K2d2.spec k2 cone
  rw [← sqrt_norm2 q, ← sqrt_dist2 q (axis2 p.a1), ← sqrt_dist2 q (axis2 p.a2), ← sqrt_dist2 q (axis2 p.a4),
    ← sqrt_dist2 q (axis2 p.a5)]
  simp only [axis2, PiLp.toLp_apply, Matrix.cons_val_zero, Matrix.cons_val_one, sub_zero]
  first | done | rfl | ring_nf

theorem k2d3_eq_spec (p : K2d3.P) (q : E3) (h : K2d3.outcome p (q 0) (q 1) (q 2) = .ok) :
    K2d3.burntime p (q 0) (q 1) (q 2) = K2d3.spec p q := by
  simp only [epv_tree, ite_raise_eq_ok] at h
  obtain ⟨h0, h1, h2, h3, h4, h5, h6, h7, h8, h9, h10, h11, -⟩ := h
  simp only [epv_tree, if_neg h0, if_neg h1, if_neg h2, if_neg h3, if_neg h4, if_neg h5, if_neg h6, if_neg h7,
    if_neg h8, if_neg h9, if_neg h10, if_neg h11, epv_leaf]
  unfold K2d3.spec k2 cone
  rw [← sqrt_norm3 q, ← sqrt_dist3 q (axis3 p.a1), ← sqrt_dist3 q (axis3 p.a2), ← sqrt_dist3 q (axis3 p.a4),
    ← sqrt_dist3 q (axis3 p.a5)]
  simp only [axis3, PiLp.toLp_apply, Matrix.cons_val_zero, Matrix.cons_val_one, Matrix.cons_val_two,
    Matrix.cons_val, sub_zero]
  first | done | rfl | ring_nf


theorem k2d2_eq_spec' (p : K2d2.P) (h : K2d2.Adm p) (q : E2) : K2d2.burntime p (q 0) (q 1) = K2d2.spec p q :=
  k2d2_eq_spec p q ((k2d2_outcome p _ _).mpr h)

theorem k2d3_eq_spec' (p : K2d3.P) (h : K2d3.Adm p) (q : E3) : K2d3.burntime p (q 0) (q 1) (q 2) = K2d3.spec p q :=
  k2d3_eq_spec p q ((k2d3_outcome p _ _ _).mpr h)

end EPV.Burn
