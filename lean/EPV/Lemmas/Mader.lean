/-
Compact forms of the generated `MaderRare` leaves (`rarefaction.rare` for one cell).

The traced expressions have every local of `rare` inlined; the definitions below are those
locals (same names as in the Python), and the `*_eq` theorems state each returned leaf field in
terms of them.  They are proved by unfolding both sides and ring normalisation inside and outside the
real powers (`epv_deton_mader_fold`, see EPV/Lemmas/Bridge/DetonTactics.lean), i.e. they are the generated
expressions, folded — however the Python names, hoists, associates and commutes its locals.

    y(X)  = aa X + bb                      (c / c_cj along the fan, X = xdet)
    fan:        u = dd X + ee,  c = c_cj y(X),
                p = p_cj (y(x1+dx)^(b+1) - y(x1)^(b+1)) / (dx aa (b+1))     (cell average of p_cj y^b)
                ρ = ρ_cj (y(x1+dx)^(d+1) - y(x1)^(d+1)) / (dx aa (d+1))     (cell average of ρ_cj y^d)
    plateau:    u = u_piston, c = c_cj z, p = p_cj z^b, ρ = ρ_cj (p/p_cj)^(1/γ),
                z = 1 + (γ-1)(u_piston - u_cj)/(2 c_cj)
-/
import EPV.Gen.MaderRare
import EPV.Tactics
import EPV.Lemmas.Bridge.DetonTactics

set_option linter.all false

open EPV EPV.Gen

namespace EPV.MaderL

noncomputable section

variable (p : MaderRare.P) (xlab time : ℝ)

def ccj : ℝ := (p.gam * p.d_cj) / (p.gam + 1)
def ucj : ℝ := p.d_cj / (p.gam + 1)
def rho0 : ℝ := ((p.gam + 1) * p.p_cj) / (p.d_cj ^ 2)
def rhocj : ℝ := (rho0 p * (p.gam + 1)) / p.gam
def aa : ℝ := 1 / ((2 * ccj p) * time)
def bb : ℝ := (2 - ((p.gam - 1) * ucj p) / ccj p) / (p.gam + 1)
def bexp : ℝ := (2 * p.gam) / (p.gam - 1)
def dexp : ℝ := 2 / (p.gam - 1)
def dd : ℝ := 2 / (time * (p.gam + 1))
def ee : ℝ := ((p.gam - 1) * (ucj p - (2 * ccj p) / (p.gam - 1))) / (p.gam + 1)
/-- `xdet`: the coordinate of `rare` (front at `d_cj * time`, i.e. at `xlab = 0`) -/
def xdet : ℝ := (p.d_cj * time) - xlab
def x1 : ℝ := xdet p xlab time - ((1 : ℝ) / 2) * p.dx
/-- `xp`: tail of the Taylor wave in the coordinate of `rare` -/
def xp : ℝ := (((1 : ℝ) / 2) * (p.gam + 1)) * time * (p.u_piston - ee p)
def Y (X : ℝ) : ℝ := (aa p time * X) + bb p
/-- plateau value of c / c_cj -/
def Z : ℝ := 1 + ((p.gam - 1) * (p.u_piston - ucj p)) / (2 * ccj p)

/-- a generated leaf / condition is the documented expression in the locals above -/
macro "epv_deton_mader_fold" : tactic =>
  `(tactic| (simp only [epv_leaf, epv_cond, ccj, ucj, rho0, rhocj, aa, bb, bexp, dexp, dd, ee, xdet, x1, xp, Y, Z]
             epv_deton_nf_eq))

theorem fan_velocity_eq : MaderRare.L0.velocity p xlab time
    = dd p time * (x1 p xlab time + ((1 : ℝ) / 2) * p.dx) + ee p := by epv_deton_mader_fold
theorem fan_sound_speed_eq : MaderRare.L0.sound_speed p xlab time
    = ccj p * Y p time (x1 p xlab time + ((1 : ℝ) / 2) * p.dx) := by epv_deton_mader_fold
theorem fan_pressure_eq : MaderRare.L0.pressure p xlab time
    = (p.p_cj * (Y p time (x1 p xlab time + p.dx) ^ (bexp p + 1) - Y p time (x1 p xlab time) ^ (bexp p + 1)))
      / ((p.dx * aa p time) * (bexp p + 1)) := by epv_deton_mader_fold
theorem fan_density_eq : MaderRare.L0.density p xlab time
    = (rhocj p * (Y p time (x1 p xlab time + p.dx) ^ (dexp p + 1) - Y p time (x1 p xlab time) ^ (dexp p + 1)))
      / ((p.dx * aa p time) * (dexp p + 1)) := by epv_deton_mader_fold

/-- half width of the fan part of the transition cell, `h = (x1 + dx - xp) / 2` -/
def hh : ℝ := ((x1 p xlab time + p.dx) - xp p time) / 2

macro "epv_deton_mader_fold_h" : tactic =>
  `(tactic| (simp only [epv_leaf, epv_cond, hh, ccj, ucj, rho0, rhocj, aa, bb, bexp, dexp, dd, ee, xdet, x1, xp, Y, Z]
             epv_deton_nf_eq))

/-- transition cell: `u = u_r + (u_fan(x1 + h) - u_r) * 2 h / dx` -/
theorem trans_velocity_eq : MaderRare.L1.velocity p xlab time
    = p.u_piston + ((((dd p time * (x1 p xlab time + hh p xlab time) + ee p) - p.u_piston) * 2) * hh p xlab time) / p.dx := by epv_deton_mader_fold_h
theorem trans_sound_speed_eq : MaderRare.L1.sound_speed p xlab time
    = ccj p * (1 + ((p.gam - 1) * ((dd p time * (x1 p xlab time + hh p xlab time) + ee p) - ucj p)) / (2 * ccj p))
      + (((ccj p * Y p time (x1 p xlab time + hh p xlab time)
           - ccj p * (1 + ((p.gam - 1) * ((dd p time * (x1 p xlab time + hh p xlab time) + ee p) - ucj p)) / (2 * ccj p))) * 2)
          * hh p xlab time) / p.dx := by epv_deton_mader_fold_h

/-- width of the fan part of the transition cell, `dxp = x2 - xp` -/
def dxp : ℝ := (x1 p xlab time + p.dx) - xp p time
/-- the "partial q's" of the transition branch -/
def uf : ℝ := dd p time * (x1 p xlab time + hh p xlab time) + ee p
def pf : ℝ := (p.p_cj * (Y p time (x1 p xlab time + dxp p xlab time) ^ (bexp p + 1) - Y p time (x1 p xlab time) ^ (bexp p + 1)))
      / ((dxp p xlab time * aa p time) * (bexp p + 1))
def cf : ℝ := ccj p * Y p time (x1 p xlab time + hh p xlab time)
def rf : ℝ := (rhocj p * (Y p time (x1 p xlab time + dxp p xlab time) ^ (dexp p + 1) - Y p time (x1 p xlab time) ^ (dexp p + 1)))
      / ((dxp p xlab time * aa p time) * (dexp p + 1))
/-- the "residual q's": plateau formulas evaluated at the *fan's* u (the defect) -/
def zr : ℝ := 1 + ((p.gam - 1) * (uf p xlab time - ucj p)) / (2 * ccj p)
def pr : ℝ := p.p_cj * zr p xlab time ^ bexp p
def cr : ℝ := ccj p * zr p xlab time
def rhor : ℝ := rhocj p * (pf p xlab time / p.p_cj) ^ ((1 : ℝ) / p.gam)

macro "epv_deton_mader_fold_t" : tactic =>
  `(tactic| (simp only [epv_leaf, epv_cond, rhor, cr, pr, zr, rf, cf, pf, uf, dxp, hh, ccj, ucj, rho0, rhocj, aa, bb, bexp,
               dexp, dd, ee, xdet, x1, xp, Y, Z]
             epv_deton_nf_eq))

theorem trans_velocity_eq' : MaderRare.L1.velocity p xlab time
    = p.u_piston + (((uf p xlab time - p.u_piston) * 2) * hh p xlab time) / p.dx := by epv_deton_mader_fold_t
theorem trans_pressure_eq : MaderRare.L1.pressure p xlab time
    = pr p xlab time + (((pf p xlab time - pr p xlab time) * 2) * hh p xlab time) / p.dx := by epv_deton_mader_fold_t
theorem trans_sound_speed_eq' : MaderRare.L1.sound_speed p xlab time
    = cr p xlab time + (((cf p xlab time - cr p xlab time) * 2) * hh p xlab time) / p.dx := by epv_deton_mader_fold_t
theorem trans_density_eq : MaderRare.L1.density p xlab time
    = rf p xlab time + (((rf p xlab time - rhor p xlab time) * 2) * hh p xlab time) / p.dx := by epv_deton_mader_fold_t

theorem plateau_velocity_eq : MaderRare.L4.velocity p xlab time = p.u_piston := by epv_deton_mader_fold_t
theorem plateau_sound_speed_eq : MaderRare.L4.sound_speed p xlab time = ccj p * Z p := by epv_deton_mader_fold_t
theorem plateau_pressure_eq : MaderRare.L4.pressure p xlab time = p.p_cj * Z p ^ bexp p := by epv_deton_mader_fold_t
theorem plateau_density_eq : MaderRare.L4.density p xlab time
    = rhocj p * ((p.p_cj * Z p ^ bexp p) / p.p_cj) ^ ((1 : ℝ) / p.gam) := by epv_deton_mader_fold_t

/-- path conditions in terms of the locals: c0 = `dist > tol`, c1 = `xdet > xp`, c2 = `dist ≤ tol` -/
theorem c0_eq : MaderRare.c0 p xlab time ↔ ((1 : ℝ) / 10) * p.dx < |xdet p xlab time - xp p time| := by
  refine Iff.of_eq ?_; epv_deton_mader_fold_t
theorem c1_eq : MaderRare.c1 p xlab time ↔ xp p time < xdet p xlab time := by
  refine Iff.of_eq ?_; epv_deton_mader_fold_t
theorem c2_eq : MaderRare.c2 p xlab time ↔ |xdet p xlab time - xp p time| ≤ ((1 : ℝ) / 10) * p.dx := by
  refine Iff.of_eq ?_; epv_deton_mader_fold_t

end

end EPV.MaderL
