/-
Blake, the six elastic parameters: for every pair, an accepting path of the traced `set_elastic_params`
returns one positive-definite isotropic material that reproduces the two supplied values.  Used by
`Props/C15/Moduli.lean` (the property) and `Props/C20/Blake.lean` (accepted ⇒ documented-valid).
-/
import EPV.Gen.BlakeModLG
import EPV.Gen.BlakeModLE
import EPV.Gen.BlakeModLNu
import EPV.Gen.BlakeModLK
import EPV.Gen.BlakeModLM
import EPV.Gen.BlakeModGE
import EPV.Gen.BlakeModGNu
import EPV.Gen.BlakeModGK
import EPV.Gen.BlakeModGM
import EPV.Gen.BlakeModENu
import EPV.Gen.BlakeModEK
import EPV.Gen.BlakeModEM
import EPV.Gen.BlakeModNuK
import EPV.Gen.BlakeModNuM
import EPV.Gen.BlakeModKM
import EPV.Spec.Blake
import EPV.Lemmas.Blake
import EPV.Tactics
import EPV.Lemmas.Bridge.DetonTactics

set_option linter.all false

open EPV EPV.Gen EPV.Spec.Blake

namespace EPV.Blake

/-- clear denominators; the side goals `d ≠ 0` are discharged from sign facts in the context -/
macro "fsimp" : tactic => `(tactic| field_simp (disch := first | assumption | linarith | positivity))

/-- `0 < X` (resp. `X ≠ 0`) for a generated expression `X`, through its documented closed form `c`: `c` is positive
by `positivity` and `c = X` is a field identity — whatever `X` looks like -/
syntax "epv_deton_pos_via " term : tactic
macro_rules
  | `(tactic| epv_deton_pos_via $c) =>
    `(tactic| first
        | (refine lt_of_lt_of_eq (b := $c) ?_ ?_ <;> first | positivity | ring1 | (fsimp <;> ring1))
        | (refine ne_of_gt (lt_of_lt_of_eq (b := $c) ?_ ?_) <;> first | positivity | ring1 | (fsimp <;> ring1)))

theorem modLG_ok (p : BlakeModLG.P) (h : BlakeModLG.outcome p = .ok) :
    IsoMaterial (BlakeModLG.lame_mod p) (BlakeModLG.shear_mod p) (BlakeModLG.youngs_mod p) (BlakeModLG.poisson_ratio p) (BlakeModLG.bulk_mod p) (BlakeModLG.long_mod p)
      ∧ BlakeModLG.lame_mod p = p.lame_mod ∧ BlakeModLG.shear_mod p = p.shear_mod := by
  unfold BlakeModLG.outcome at h
  unfold BlakeModLG.lame_mod BlakeModLG.shear_mod BlakeModLG.youngs_mod BlakeModLG.poisson_ratio BlakeModLG.bulk_mod BlakeModLG.long_mod
  epv_walk (
    simp only [epv_cond] at *
    simp only [epv_leaf]
    simp only [not_le, not_lt] at *
    have h1 : 0 < p.lame_mod + p.shear_mod := by linarith
    refine ⟨IsoMaterial.of_mul ?_ ?_ ?_ ?_ ?_ ?_, ?_, ?_⟩ <;> first | trivial | assumption | linarith | ring1 | (fsimp <;> ring1))

theorem modLE_ok (p : BlakeModLE.P) (h : BlakeModLE.outcome p = .ok) :
    IsoMaterial (BlakeModLE.lame_mod p) (BlakeModLE.shear_mod p) (BlakeModLE.youngs_mod p) (BlakeModLE.poisson_ratio p) (BlakeModLE.bulk_mod p) (BlakeModLE.long_mod p)
      ∧ BlakeModLE.lame_mod p = p.lame_mod ∧ BlakeModLE.youngs_mod p = p.youngs_mod := by
  unfold BlakeModLE.outcome at h
  unfold BlakeModLE.lame_mod BlakeModLE.shear_mod BlakeModLE.youngs_mod BlakeModLE.poisson_ratio BlakeModLE.bulk_mod BlakeModLE.long_mod
  epv_walk (
    simp only [epv_cond] at *
    simp only [epv_leaf]
    simp only [not_le, not_lt] at *
    have hsq1 := sq_nonneg (p.youngs_mod + p.lame_mod)
    have hsq2 := sq_nonneg p.lame_mod
    epv_deton_rpow_half_gen R hR0 hR2
    have h1 : 0 < p.youngs_mod + p.lame_mod + R := by linarith
    refine ⟨IsoMaterial.of_mul ?_ ?_ ?_ ?_ ?_ ?_, ?_, ?_⟩ <;> first | trivial | assumption | linarith | ring1 | (fsimp <;> ring1) | linear_combination (-1 / 8 : ℝ) * hR2)

theorem modLNu_ok (p : BlakeModLNu.P) (h : BlakeModLNu.outcome p = .ok) :
    IsoMaterial (BlakeModLNu.lame_mod p) (BlakeModLNu.shear_mod p) (BlakeModLNu.youngs_mod p) (BlakeModLNu.poisson_ratio p) (BlakeModLNu.bulk_mod p) (BlakeModLNu.long_mod p)
      ∧ BlakeModLNu.lame_mod p = p.lame_mod ∧ BlakeModLNu.poisson_ratio p = p.poisson_ratio := by
  unfold BlakeModLNu.outcome at h
  unfold BlakeModLNu.lame_mod BlakeModLNu.shear_mod BlakeModLNu.youngs_mod BlakeModLNu.poisson_ratio BlakeModLNu.bulk_mod BlakeModLNu.long_mod
  epv_walk (
    simp only [epv_cond] at *
    simp only [epv_leaf]
    simp only [not_le, not_lt] at *
    have hν : 0 < p.poisson_ratio := by
      by_contra hc
      rw [not_lt] at hc
      epv_deton_ctx_lt h : 0 < p.lame_mod * (1 - 2 * p.poisson_ratio) / (2 * p.poisson_ratio)
      have : p.lame_mod * (1 - 2 * p.poisson_ratio) / (2 * p.poisson_ratio) ≤ 0 :=
        div_nonpos_of_nonneg_of_nonpos (mul_nonneg (by linarith) (by linarith)) (by linarith)
      linarith
    refine ⟨IsoMaterial.of_mul ?_ ?_ ?_ ?_ ?_ ?_, ?_, ?_⟩ <;> first | trivial | assumption | linarith | ring1 | (fsimp <;> ring1))

theorem modLK_ok (p : BlakeModLK.P) (h : BlakeModLK.outcome p = .ok) :
    IsoMaterial (BlakeModLK.lame_mod p) (BlakeModLK.shear_mod p) (BlakeModLK.youngs_mod p) (BlakeModLK.poisson_ratio p) (BlakeModLK.bulk_mod p) (BlakeModLK.long_mod p)
      ∧ BlakeModLK.lame_mod p = p.lame_mod ∧ BlakeModLK.bulk_mod p = p.bulk_mod := by
  unfold BlakeModLK.outcome at h
  unfold BlakeModLK.lame_mod BlakeModLK.shear_mod BlakeModLK.youngs_mod BlakeModLK.poisson_ratio BlakeModLK.bulk_mod BlakeModLK.long_mod
  epv_walk (
    simp only [epv_cond] at *
    simp only [epv_leaf]
    simp only [not_le, not_lt] at *
    have h1 : 0 < 3 * p.bulk_mod - p.lame_mod := by linarith
    refine ⟨IsoMaterial.of_mul ?_ ?_ ?_ ?_ ?_ ?_, ?_, ?_⟩ <;> first | trivial | assumption | linarith | ring1 | (fsimp <;> ring1))

theorem modLM_ok (p : BlakeModLM.P) (h : BlakeModLM.outcome p = .ok) :
    IsoMaterial (BlakeModLM.lame_mod p) (BlakeModLM.shear_mod p) (BlakeModLM.youngs_mod p) (BlakeModLM.poisson_ratio p) (BlakeModLM.bulk_mod p) (BlakeModLM.long_mod p)
      ∧ BlakeModLM.lame_mod p = p.lame_mod ∧ BlakeModLM.long_mod p = p.long_mod := by
  unfold BlakeModLM.outcome at h
  unfold BlakeModLM.lame_mod BlakeModLM.shear_mod BlakeModLM.youngs_mod BlakeModLM.poisson_ratio BlakeModLM.bulk_mod BlakeModLM.long_mod
  epv_walk (
    simp only [epv_cond] at *
    simp only [epv_leaf]
    simp only [not_le, not_lt] at *
    have h1 : 0 < p.long_mod + p.lame_mod := by linarith
    refine ⟨IsoMaterial.of_mul ?_ ?_ ?_ ?_ ?_ ?_, ?_, ?_⟩ <;> first | trivial | assumption | linarith | ring1 | (fsimp <;> ring1))

theorem modGE_ok (p : BlakeModGE.P) (h : BlakeModGE.outcome p = .ok) :
    IsoMaterial (BlakeModGE.lame_mod p) (BlakeModGE.shear_mod p) (BlakeModGE.youngs_mod p) (BlakeModGE.poisson_ratio p) (BlakeModGE.bulk_mod p) (BlakeModGE.long_mod p)
      ∧ BlakeModGE.shear_mod p = p.shear_mod ∧ BlakeModGE.youngs_mod p = p.youngs_mod := by
  unfold BlakeModGE.outcome at h
  unfold BlakeModGE.lame_mod BlakeModGE.shear_mod BlakeModGE.youngs_mod BlakeModGE.poisson_ratio BlakeModGE.bulk_mod BlakeModGE.long_mod
  epv_walk (
    simp only [epv_cond] at *
    simp only [epv_leaf]
    simp only [not_le, not_lt] at *
    have hG : 0 < p.shear_mod := by linarith
    have hE : 0 < p.youngs_mod := by linarith
    have hlt : p.youngs_mod < 3 * p.shear_mod := by
      have h2G : 0 < 2 * p.shear_mod := by linarith
      have := (div_lt_iff₀ h2G).mp (by linarith : p.youngs_mod / (2 * p.shear_mod) < 3 / 2)
      linarith
    have h1 : 3 * p.shear_mod - p.youngs_mod ≠ 0 := by intro h0; linarith
    have h1p : 0 < 3 * p.shear_mod - p.youngs_mod := by linarith
    have hG0 : p.shear_mod ≠ 0 := ne_of_gt hG
    -- G > 0 and 3λ + 2G > 0 through the documented closed forms, whatever the code's λ and G look like
    refine ⟨IsoMaterial.of_mul ?_ ?_ ?_ ?_ ?_ ?_, ?_, ?_⟩ <;>
      first | trivial | assumption | linarith | positivity | ring1 | (fsimp <;> ring1)
            | epv_deton_pos_via (p.shear_mod * p.youngs_mod / (3 * p.shear_mod - p.youngs_mod)))

theorem modGNu_ok (p : BlakeModGNu.P) (h : BlakeModGNu.outcome p = .ok) :
    IsoMaterial (BlakeModGNu.lame_mod p) (BlakeModGNu.shear_mod p) (BlakeModGNu.youngs_mod p) (BlakeModGNu.poisson_ratio p) (BlakeModGNu.bulk_mod p) (BlakeModGNu.long_mod p)
      ∧ BlakeModGNu.shear_mod p = p.shear_mod ∧ BlakeModGNu.poisson_ratio p = p.poisson_ratio := by
  unfold BlakeModGNu.outcome at h
  unfold BlakeModGNu.lame_mod BlakeModGNu.shear_mod BlakeModGNu.youngs_mod BlakeModGNu.poisson_ratio BlakeModGNu.bulk_mod BlakeModGNu.long_mod
  epv_walk (
    simp only [epv_cond] at *
    simp only [epv_leaf]
    simp only [not_le, not_lt] at *
    have hG : 0 < p.shear_mod := by linarith
    have h1p : 0 < 1 - 2 * p.poisson_ratio := by linarith
    have h1 : 1 - 2 * p.poisson_ratio ≠ 0 := ne_of_gt h1p
    have hn : 0 < 1 + p.poisson_ratio := by linarith
    -- G > 0 and 3λ + 2G > 0 through the documented closed forms, whatever the code's λ and G look like
    refine ⟨IsoMaterial.of_mul ?_ ?_ ?_ ?_ ?_ ?_, ?_, ?_⟩ <;>
      first | trivial | assumption | linarith | positivity | ring1 | (fsimp <;> ring1)
            | epv_deton_pos_via (2 * p.shear_mod * (1 + p.poisson_ratio) / (1 - 2 * p.poisson_ratio)))

theorem modGK_ok (p : BlakeModGK.P) (h : BlakeModGK.outcome p = .ok) :
    IsoMaterial (BlakeModGK.lame_mod p) (BlakeModGK.shear_mod p) (BlakeModGK.youngs_mod p) (BlakeModGK.poisson_ratio p) (BlakeModGK.bulk_mod p) (BlakeModGK.long_mod p)
      ∧ BlakeModGK.shear_mod p = p.shear_mod ∧ BlakeModGK.bulk_mod p = p.bulk_mod := by
  unfold BlakeModGK.outcome at h
  unfold BlakeModGK.lame_mod BlakeModGK.shear_mod BlakeModGK.youngs_mod BlakeModGK.poisson_ratio BlakeModGK.bulk_mod BlakeModGK.long_mod
  epv_walk (
    simp only [epv_cond] at *
    simp only [epv_leaf]
    simp only [not_le, not_lt] at *
    have h1 : 0 < 3 * p.bulk_mod + p.shear_mod := by linarith
    have h2 : 0 < 6 * p.bulk_mod + 2 * p.shear_mod := by linarith
    refine ⟨IsoMaterial.of_mul ?_ ?_ ?_ ?_ ?_ ?_, ?_, ?_⟩ <;> first | trivial | assumption | linarith | ring1 | (fsimp <;> ring1))

theorem modGM_ok (p : BlakeModGM.P) (h : BlakeModGM.outcome p = .ok) :
    IsoMaterial (BlakeModGM.lame_mod p) (BlakeModGM.shear_mod p) (BlakeModGM.youngs_mod p) (BlakeModGM.poisson_ratio p) (BlakeModGM.bulk_mod p) (BlakeModGM.long_mod p)
      ∧ BlakeModGM.shear_mod p = p.shear_mod ∧ BlakeModGM.long_mod p = p.long_mod := by
  unfold BlakeModGM.outcome at h
  unfold BlakeModGM.lame_mod BlakeModGM.shear_mod BlakeModGM.youngs_mod BlakeModGM.poisson_ratio BlakeModGM.bulk_mod BlakeModGM.long_mod
  epv_walk (
    simp only [epv_cond] at *
    simp only [epv_leaf]
    simp only [not_le, not_lt] at *
    have hG : 0 < p.shear_mod := by linarith
    have hne : p.long_mod - p.shear_mod ≠ 0 := by
      intro h0
      have hh := ‹_ < |p.long_mod - p.shear_mod|›
      rw [h0, abs_zero] at hh
      have : (0 : ℝ) ≤ 0 + 3961408125713217 / 39614081257132168796771975168 * |p.shear_mod| := by positivity
      linarith
    have hgt : p.shear_mod < p.long_mod := by
      rcases lt_or_gt_of_ne hne with hlt | hgt
      · exfalso
        have hneg : 2 * p.long_mod - 2 * p.shear_mod < 0 := by linarith
        have := (div_lt_iff_of_neg hneg).mp ‹_ < (1:ℝ) / 2›
        linarith
      · linarith
    have hpos : 0 < 2 * p.long_mod - 2 * p.shear_mod := by linarith
    have h34 : 0 < 3 * p.long_mod - 4 * p.shear_mod := by
      have := (lt_div_iff₀ hpos).mp ‹(-1 : ℝ) < _›
      linarith
    have h1 : 2 * p.long_mod - 2 * p.shear_mod ≠ 0 := ne_of_gt hpos
    have h2 : p.long_mod - 2 * p.shear_mod + p.shear_mod ≠ 0 := by intro h0; linarith
    refine ⟨IsoMaterial.of_mul ?_ ?_ ?_ ?_ ?_ ?_, ?_, ?_⟩ <;> first | trivial | assumption | linarith | ring1 | (fsimp <;> ring1))

theorem modENu_ok (p : BlakeModENu.P) (h : BlakeModENu.outcome p = .ok) :
    IsoMaterial (BlakeModENu.lame_mod p) (BlakeModENu.shear_mod p) (BlakeModENu.youngs_mod p) (BlakeModENu.poisson_ratio p) (BlakeModENu.bulk_mod p) (BlakeModENu.long_mod p)
      ∧ BlakeModENu.youngs_mod p = p.youngs_mod ∧ BlakeModENu.poisson_ratio p = p.poisson_ratio := by
  unfold BlakeModENu.outcome at h
  unfold BlakeModENu.lame_mod BlakeModENu.shear_mod BlakeModENu.youngs_mod BlakeModENu.poisson_ratio BlakeModENu.bulk_mod BlakeModENu.long_mod
  epv_walk (
    simp only [epv_cond] at *
    simp only [epv_leaf]
    simp only [not_le, not_lt] at *
    have hE : 0 < p.youngs_mod := by linarith
    have h1p : 0 < 1 - 2 * p.poisson_ratio := by linarith
    have h1 : 1 - 2 * p.poisson_ratio ≠ 0 := ne_of_gt h1p
    have hn : 0 < 1 + p.poisson_ratio := by linarith
    have hn0 : 1 + p.poisson_ratio ≠ 0 := ne_of_gt hn
    -- G > 0 by `positivity`; 3λ + 2G = E/(1 - 2ν) > 0 through the closed form, whatever λ and G look like
    refine ⟨IsoMaterial.of_mul ?_ ?_ ?_ ?_ ?_ ?_, ?_, ?_⟩ <;>
      first | trivial | assumption | linarith | positivity | ring1 | (fsimp <;> ring1)
            | epv_deton_pos_via (p.youngs_mod / (1 - 2 * p.poisson_ratio)))

theorem modEK_ok (p : BlakeModEK.P) (h : BlakeModEK.outcome p = .ok) :
    IsoMaterial (BlakeModEK.lame_mod p) (BlakeModEK.shear_mod p) (BlakeModEK.youngs_mod p) (BlakeModEK.poisson_ratio p) (BlakeModEK.bulk_mod p) (BlakeModEK.long_mod p)
      ∧ BlakeModEK.youngs_mod p = p.youngs_mod ∧ BlakeModEK.bulk_mod p = p.bulk_mod := by
  unfold BlakeModEK.outcome at h
  unfold BlakeModEK.lame_mod BlakeModEK.shear_mod BlakeModEK.youngs_mod BlakeModEK.poisson_ratio BlakeModEK.bulk_mod BlakeModEK.long_mod
  epv_walk (
    simp only [epv_cond] at *
    simp only [epv_leaf]
    simp only [not_le, not_lt] at *
    have hE : 0 < p.youngs_mod := by linarith
    have hK : 0 < p.bulk_mod := by linarith
    have h6K : 0 < 6 * p.bulk_mod := by linarith
    have h9 : 0 < 9 * p.bulk_mod - p.youngs_mod := by
      have := (lt_div_iff₀ h6K).mp ‹(-1 : ℝ) < _›
      linarith
    have h1 : 9 * p.bulk_mod - p.youngs_mod ≠ 0 := ne_of_gt h9
    have hK0 : p.bulk_mod ≠ 0 := ne_of_gt hK
    -- G > 0 and 3λ + 2G > 0 through the documented closed forms, whatever the code's λ and G look like
    refine ⟨IsoMaterial.of_mul ?_ ?_ ?_ ?_ ?_ ?_, ?_, ?_⟩ <;>
      first | trivial | assumption | linarith | positivity | ring1 | (fsimp <;> ring1)
            | epv_deton_pos_via (3 * p.bulk_mod))

theorem modEM_ok (p : BlakeModEM.P) (h : BlakeModEM.outcome p = .ok) :
    IsoMaterial (BlakeModEM.lame_mod p) (BlakeModEM.shear_mod p) (BlakeModEM.youngs_mod p) (BlakeModEM.poisson_ratio p) (BlakeModEM.bulk_mod p) (BlakeModEM.long_mod p)
      ∧ BlakeModEM.youngs_mod p = p.youngs_mod ∧ BlakeModEM.long_mod p = p.long_mod := by
  unfold BlakeModEM.outcome at h
  unfold BlakeModEM.lame_mod BlakeModEM.shear_mod BlakeModEM.youngs_mod BlakeModEM.poisson_ratio BlakeModEM.bulk_mod BlakeModEM.long_mod
  epv_walk (
    simp only [epv_cond] at *
    simp only [epv_leaf]
    simp only [not_le, not_lt] at *
    have hE : 0 < p.youngs_mod := by linarith
    have hM : 0 < p.long_mod := by linarith
    epv_deton_rpow_half_gen S hS0 hS2
    have hEM : 0 < p.youngs_mod * p.long_mod := mul_pos hE hM
    have h4M : 0 < 4 * p.long_mod := by linarith
    -- ν < 1/2  gives  S < 3M - E
    have hlt : S < 3 * p.long_mod - p.youngs_mod := by
      epv_deton_ctx_lt h : 1 / 4 * (p.youngs_mod - p.long_mod + S) / p.long_mod < 1 / 2
      rw [div_lt_iff₀ hM] at h
      linarith
    have hG : 0 < 1 / 8 * (3 * p.long_mod + p.youngs_mod - S) := by linarith
    have hB : 0 < 3 * p.long_mod - p.youngs_mod + S := by
      by_contra hc
      rw [not_lt] at hc
      nlinarith
    have h2 : 1 / 4 * (p.long_mod - p.youngs_mod + S) + 1 / 8 * (3 * p.long_mod + p.youngs_mod - S) ≠ 0 := by
      intro h0; linarith
    have hM0 : p.long_mod ≠ 0 := ne_of_gt hM
    refine ⟨IsoMaterial.of_mul ?_ ?_ ?_ ?_ ?_ ?_, ?_, ?_⟩ <;> first | trivial | assumption | linarith | ring1 | (fsimp <;> ring1) | linear_combination (1 / 16 : ℝ) * hS2 | (rw [div_mul_eq_mul_div, div_eq_iff (ne_of_gt hM)]; linear_combination (1 / 16 : ℝ) * hS2))

theorem modNuK_ok (p : BlakeModNuK.P) (h : BlakeModNuK.outcome p = .ok) :
    IsoMaterial (BlakeModNuK.lame_mod p) (BlakeModNuK.shear_mod p) (BlakeModNuK.youngs_mod p) (BlakeModNuK.poisson_ratio p) (BlakeModNuK.bulk_mod p) (BlakeModNuK.long_mod p)
      ∧ BlakeModNuK.poisson_ratio p = p.poisson_ratio ∧ BlakeModNuK.bulk_mod p = p.bulk_mod := by
  unfold BlakeModNuK.outcome at h
  unfold BlakeModNuK.lame_mod BlakeModNuK.shear_mod BlakeModNuK.youngs_mod BlakeModNuK.poisson_ratio BlakeModNuK.bulk_mod BlakeModNuK.long_mod
  epv_walk (
    simp only [epv_cond] at *
    simp only [epv_leaf]
    simp only [not_le, not_lt] at *
    have hK : 0 < p.bulk_mod := by linarith
    have h1p : 0 < 1 - 2 * p.poisson_ratio := by linarith
    have hn : 0 < 1 + p.poisson_ratio := by linarith
    have hn0 : 1 + p.poisson_ratio ≠ 0 := ne_of_gt hn
    -- G > 0 and 3λ + 2G > 0 through the documented closed forms, whatever the code's λ and G look like
    refine ⟨IsoMaterial.of_mul ?_ ?_ ?_ ?_ ?_ ?_, ?_, ?_⟩ <;>
      first | trivial | assumption | linarith | positivity | ring1 | (fsimp <;> ring1)
            | epv_deton_pos_via (3 * p.bulk_mod))

theorem modNuM_ok (p : BlakeModNuM.P) (h : BlakeModNuM.outcome p = .ok) :
    IsoMaterial (BlakeModNuM.lame_mod p) (BlakeModNuM.shear_mod p) (BlakeModNuM.youngs_mod p) (BlakeModNuM.poisson_ratio p) (BlakeModNuM.bulk_mod p) (BlakeModNuM.long_mod p)
      ∧ BlakeModNuM.poisson_ratio p = p.poisson_ratio ∧ BlakeModNuM.long_mod p = p.long_mod := by
  unfold BlakeModNuM.outcome at h
  unfold BlakeModNuM.lame_mod BlakeModNuM.shear_mod BlakeModNuM.youngs_mod BlakeModNuM.poisson_ratio BlakeModNuM.bulk_mod BlakeModNuM.long_mod
  epv_walk (
    simp only [epv_cond] at *
    simp only [epv_leaf]
    simp only [not_le, not_lt] at *
    have hM : 0 < p.long_mod := by linarith
    have h1p : 0 < 1 - 2 * p.poisson_ratio := by linarith
    have hn : 0 < 1 + p.poisson_ratio := by linarith
    have hm : 0 < 1 - p.poisson_ratio := by linarith
    have hm0 : 1 - p.poisson_ratio ≠ 0 := ne_of_gt hm
    -- G > 0 by `positivity`; 3λ + 2G = M(1 + ν)/(1 - ν) > 0 through the closed form
    refine ⟨IsoMaterial.of_mul ?_ ?_ ?_ ?_ ?_ ?_, ?_, ?_⟩ <;>
      first | trivial | assumption | linarith | positivity | ring1 | (fsimp <;> ring1)
            | epv_deton_pos_via (p.long_mod * (1 + p.poisson_ratio) / (1 - p.poisson_ratio)))

theorem modKM_ok (p : BlakeModKM.P) (h : BlakeModKM.outcome p = .ok) :
    IsoMaterial (BlakeModKM.lame_mod p) (BlakeModKM.shear_mod p) (BlakeModKM.youngs_mod p) (BlakeModKM.poisson_ratio p) (BlakeModKM.bulk_mod p) (BlakeModKM.long_mod p)
      ∧ BlakeModKM.bulk_mod p = p.bulk_mod ∧ BlakeModKM.long_mod p = p.long_mod := by
  unfold BlakeModKM.outcome at h
  unfold BlakeModKM.lame_mod BlakeModKM.shear_mod BlakeModKM.youngs_mod BlakeModKM.poisson_ratio BlakeModKM.bulk_mod BlakeModKM.long_mod
  epv_walk (
    simp only [epv_cond] at *
    simp only [epv_leaf]
    simp only [not_le, not_lt] at *
    have h1 : 0 < 3 * p.bulk_mod + p.long_mod := by linarith
    refine ⟨IsoMaterial.of_mul ?_ ?_ ?_ ?_ ?_ ?_, ?_, ?_⟩ <;> first | trivial | assumption | linarith | ring1 | (fsimp <;> ring1))

end EPV.Blake
