/-
The bridge between the generated burn-time models (Kenamond 1-3 in 2-D and 3-D, DSD cylindrical
expansion) and the documented solutions of `EPV.Spec.Burn`:

* `…_outcome`  : the traced request is served (`outcome = .ok`) exactly under the conditions the
                 constructor enforces, written in the vocabulary of the specification;
* `…_eq_spec` / `…_eq_cone` : wherever it is served, the traced `burntime` IS the documented
                 formula, with points read as elements of `EuclideanSpace ℝ (Fin n)`.

Everything the property files (C13, C09, C07, C08, C20 shares) prove about the code goes through
these statements.  They are proved by unfolding the generated definitions and rewriting
`Real.sqrt (… * … + …)` into norms / distances / inner products, so they break — loudly — when
the traced formula changes.
-/
import EPV.Gen.K1d2
import EPV.Gen.K1d3
import EPV.Gen.K2d2
import EPV.Gen.K2d3
import EPV.Gen.K3d2
import EPV.Gen.K3d3
import EPV.Gen.DSDCyl
import EPV.Spec.Burn
import EPV.Lemmas.Burn
import EPV.Tactics

set_option linter.all false

open EPV EPV.Gen EPV.Spec.Burn

namespace EPV.Burn

/-! ### Kenamond 1 -/

/-- the traced models have exactly the leaves the theorems below cover -/
theorem k1d2_leaves : K1d2.okLeaves = [1] := rfl
theorem k1d3_leaves : K1d3.okLeaves = [1] := rfl

/-- detonator of the 2-D / 3-D model as a point of Euclidean space -/
noncomputable def K1d2.det (p : K1d2.P) : E2 := !₂[p.xd0, p.xd1]
noncomputable def K1d3.det (p : K1d3.P) : E3 := !₂[p.xd0, p.xd1, p.xd2]

/-- the request is accepted exactly when D > 0 (geometry and the length of `x_d` are concrete here) -/
theorem k1d2_outcome (p : K1d2.P) (x y : ℝ) : K1d2.outcome p x y = .ok ↔ 0 < p.D := by
  simp only [epv_tree]
  by_cases h : K1d2.c0 p x y
  · rw [if_pos h]; simp only [epv_cond] at h
    exact ⟨fun h' => absurd h' (by decide), fun h' => absurd h (not_le.mpr h')⟩
  · rw [if_neg h]; simp only [epv_cond] at h
    exact ⟨fun _ => not_le.mp h, fun _ => rfl⟩

theorem k1d3_outcome (p : K1d3.P) (x y z : ℝ) : K1d3.outcome p x y z = .ok ↔ 0 < p.D := by
  simp only [epv_tree]
  by_cases h : K1d3.c0 p x y z
  · rw [if_pos h]; simp only [epv_cond] at h
    exact ⟨fun h' => absurd h' (by decide), fun h' => absurd h (not_le.mpr h')⟩
  · rw [if_neg h]; simp only [epv_cond] at h
    exact ⟨fun _ => not_le.mp h, fun _ => rfl⟩

/-- the traced burn time is the documented cone -/
theorem k1d2_eq_cone (p : K1d2.P) (hD : 0 < p.D) (q : E2) :
    K1d2.burntime p (q 0) (q 1) = cone p.t_d p.D (K1d2.det p) q := by
  have hc : ¬ K1d2.c0 p (q 0) (q 1) := by simp only [epv_cond]; exact not_le.mpr hD
  simp only [epv_tree, if_neg hc, epv_leaf]
  unfold cone
  rw [← sqrt_dist2 q (K1d2.det p)]
  simp only [K1d2.det, PiLp.toLp_apply, Matrix.cons_val_zero, Matrix.cons_val_one]
  first | done | rfl | ring_nf

theorem k1d3_eq_cone (p : K1d3.P) (hD : 0 < p.D) (q : E3) :
    K1d3.burntime p (q 0) (q 1) (q 2) = cone p.t_d p.D (K1d3.det p) q := by
  have hc : ¬ K1d3.c0 p (q 0) (q 1) (q 2) := by simp only [epv_cond]; exact not_le.mpr hD
  simp only [epv_tree, if_neg hc, epv_leaf]
  unfold cone
  rw [← sqrt_dist3 q (K1d3.det p)]
  simp only [K1d3.det, PiLp.toLp_apply, Matrix.cons_val_zero, Matrix.cons_val_one, Matrix.cons_val_two,
    Matrix.cons_val]
  first | done | rfl | ring_nf


/-! ### Kenamond 2 -/

theorem k2d2_leaves : K2d2.okLeaves = [12] := rfl
theorem k2d3_leaves : K2d3.okLeaves = [12] := rfl

/-- a point on the symmetry axis (y in 2-D, z in 3-D) -/
noncomputable def axis2 (a : ℝ) : E2 := !₂[0, a]
noncomputable def axis3 (a : ℝ) : E3 := !₂[0, 0, a]

@[simp] theorem axis2_0 (a : ℝ) : (axis2 a) 0 = 0 := by simp [axis2]
@[simp] theorem axis2_1 (a : ℝ) : (axis2 a) 1 = a := by simp [axis2]
@[simp] theorem axis3_0 (a : ℝ) : (axis3 a) 0 = 0 := by simp [axis3]
@[simp] theorem axis3_1 (a : ℝ) : (axis3 a) 1 = 0 := by simp [axis3]
@[simp] theorem axis3_2 (a : ℝ) : (axis3 a) 2 = a := by simp [axis3]

theorem norm_axis2 (a : ℝ) : ‖axis2 a‖ = |a| := by
  rw [← sqrt_norm2]; simp [axis2, Real.sqrt_mul_self_eq_abs]

theorem norm_axis3 (a : ℝ) : ‖axis3 a‖ = |a| := by
  rw [← sqrt_norm3]; simp [axis3, Real.sqrt_mul_self_eq_abs]

/-- the constructor's checks in the vocabulary of the specification -/
def K2d2.Adm (p : K2d2.P) : Prop :=
  K2Adm p.R p.D1 p.D2 p.td1 p.td2 p.td3 p.td4 p.td5 (axis2 p.a1) (axis2 p.a2) (axis2 p.a4) (axis2 p.a5)
def K2d3.Adm (p : K2d3.P) : Prop :=
  K2Adm p.R p.D1 p.D2 p.td1 p.td2 p.td3 p.td4 p.td5 (axis3 p.a1) (axis3 p.a2) (axis3 p.a4) (axis3 p.a5)

/-- the documented solution for the parameters of the traced model -/
noncomputable def K2d2.spec (p : K2d2.P) (q : E2) : ℝ :=
  k2 p.R p.D1 p.D2 p.td1 p.td2 p.td3 p.td4 p.td5 (axis2 p.a1) (axis2 p.a2) (axis2 p.a4) (axis2 p.a5) q
noncomputable def K2d3.spec (p : K2d3.P) (q : E3) : ℝ :=
  k2 p.R p.D1 p.D2 p.td1 p.td2 p.td3 p.td4 p.td5 (axis3 p.a1) (axis3 p.a2) (axis3 p.a4) (axis3 p.a5) q

/-- the request is accepted exactly under the documented ordering conditions (with D₁ ≥ D₂ as coded) -/
theorem k2d2_outcome (p : K2d2.P) (x y : ℝ) : K2d2.outcome p x y = .ok ↔ K2d2.Adm p := by
  simp only [epv_tree, ite_raise_eq_ok]
  simp only [epv_cond, not_le, not_lt]
  unfold K2d2.Adm
  constructor
  · rintro ⟨h0, h1, h2, h3, o1, o2, o4, o5, t1, t2, t4, t5, -⟩
    exact ⟨h0, h2, h3, by rwa [norm_axis2], by rwa [norm_axis2], by rwa [norm_axis2], by rwa [norm_axis2],
      by rwa [norm_axis2], by rwa [norm_axis2], by rwa [norm_axis2], by rwa [norm_axis2]⟩
  · rintro ⟨h0, h2, h3, o1, o2, o4, o5, t1, t2, t4, t5⟩
    rw [norm_axis2] at o1 o2 o4 o5 t1 t2 t4 t5
    exact ⟨h0, h2.trans_le h3, h2, h3, o1, o2, o4, o5, t1, t2, t4, t5, trivial⟩

theorem k2d3_outcome (p : K2d3.P) (x y z : ℝ) : K2d3.outcome p x y z = .ok ↔ K2d3.Adm p := by
  simp only [epv_tree, ite_raise_eq_ok]
  simp only [epv_cond, not_le, not_lt]
  unfold K2d3.Adm
  constructor
  · rintro ⟨h0, h1, h2, h3, o1, o2, o4, o5, t1, t2, t4, t5, -⟩
    exact ⟨h0, h2, h3, by rwa [norm_axis3], by rwa [norm_axis3], by rwa [norm_axis3], by rwa [norm_axis3],
      by rwa [norm_axis3], by rwa [norm_axis3], by rwa [norm_axis3], by rwa [norm_axis3]⟩
  · rintro ⟨h0, h2, h3, o1, o2, o4, o5, t1, t2, t4, t5⟩
    rw [norm_axis3] at o1 o2 o4 o5 t1 t2 t4 t5
    exact ⟨h0, h2.trans_le h3, h2, h3, o1, o2, o4, o5, t1, t2, t4, t5, trivial⟩

/-- under the constructor's checks the traced burn time is the documented solution -/
theorem k2d2_eq_spec (p : K2d2.P) (q : E2) (h : K2d2.outcome p (q 0) (q 1) = .ok) :
    K2d2.burntime p (q 0) (q 1) = K2d2.spec p q := by
  simp only [epv_tree, ite_raise_eq_ok] at h
  obtain ⟨h0, h1, h2, h3, h4, h5, h6, h7, h8, h9, h10, h11, -⟩ := h
  simp only [epv_tree, if_neg h0, if_neg h1, if_neg h2, if_neg h3, if_neg h4, if_neg h5, if_neg h6, if_neg h7,
    if_neg h8, if_neg h9, if_neg h10, if_neg h11, epv_leaf]
  unfold K2d2.spec k2 cone
  rw [← sqrt_norm2 q, ← sqrt_dist2 q (axis2 p.a1), ← sqrt_dist2 q (axis2 p.a2), ← sqrt_dist2 q (axis2 p.a4),
    ← sqrt_dist2 q (axis2 p.a5)]
  simp only [axis2, PiLp.toLp_apply, Matrix.cons_val_zero, Matrix.cons_val_one, sub_zero]
  first | done | rfl | ring_nf

theorem k2d3_eq_spec (p : K2d3.P) (q : E3) (h : K2d3.outcome p (q 0) (q 1) (q 2) = .ok) :
    K2d3.burntime p (q 0) (q 1) (q 2) = K2d3.spec p q := by
  simp only [epv_tree, ite_raise_eq_ok] at h
  obtain ⟨h0, h1, h2, h3, h4, h5, h6, h7, h8, h9, h10, h11, -⟩ := h
  simp only [epv_tree, if_neg h0, if_neg h1, if_neg h2, if_neg h3, if_neg h4, if_neg h5, if_neg h6, if_neg h7,
    if_neg h8, if_neg h9, if_neg h10, if_neg h11, epv_leaf]
  unfold K2d3.spec k2 cone
  rw [← sqrt_norm3 q, ← sqrt_dist3 q (axis3 p.a1), ← sqrt_dist3 q (axis3 p.a2), ← sqrt_dist3 q (axis3 p.a4),
    ← sqrt_dist3 q (axis3 p.a5)]
  simp only [axis3, PiLp.toLp_apply, Matrix.cons_val_zero, Matrix.cons_val_one, Matrix.cons_val_two,
    Matrix.cons_val, sub_zero]
  first | done | rfl | ring_nf


theorem k2d2_eq_spec' (p : K2d2.P) (h : K2d2.Adm p) (q : E2) : K2d2.burntime p (q 0) (q 1) = K2d2.spec p q :=
  k2d2_eq_spec p q ((k2d2_outcome p _ _).mpr h)

theorem k2d3_eq_spec' (p : K2d3.P) (h : K2d3.Adm p) (q : E3) : K2d3.burntime p (q 0) (q 1) (q 2) = K2d3.spec p q :=
  k2d3_eq_spec p q ((k2d3_outcome p _ _ _).mpr h)


/-! ### Kenamond 3 -/

theorem k3d2_leaves : K3d2.okLeaves = [4, 5] := rfl
theorem k3d3_leaves : K3d3.okLeaves = [4, 5] := rfl

noncomputable def K3d2.det (p : K3d2.P) : E2 := !₂[p.xd0, p.xd1]
noncomputable def K3d3.det (p : K3d3.P) : E3 := !₂[p.xd0, p.xd1, p.xd2]

@[simp] theorem K3d2.det_0 (p : K3d2.P) : (K3d2.det p) 0 = p.xd0 := by simp [K3d2.det]
@[simp] theorem K3d2.det_1 (p : K3d2.P) : (K3d2.det p) 1 = p.xd1 := by simp [K3d2.det]
@[simp] theorem K3d3.det_0 (p : K3d3.P) : (K3d3.det p) 0 = p.xd0 := by simp [K3d3.det]
@[simp] theorem K3d3.det_1 (p : K3d3.P) : (K3d3.det p) 1 = p.xd1 := by simp [K3d3.det]
@[simp] theorem K3d3.det_2 (p : K3d3.P) : (K3d3.det p) 2 = p.xd2 := by simp [K3d3.det]

/-- what the constructor documents and enforces -/
structure K3d2.Adm (p : K3d2.P) : Prop where
  hR : 0 < p.R
  hD : 0 < p.D
  hdet : p.R < ‖K3d2.det p‖
structure K3d3.Adm (p : K3d3.P) : Prop where
  hR : 0 < p.R
  hD : 0 < p.D
  hdet : p.R < ‖K3d3.det p‖

/-- the request is served exactly when the constructor's conditions hold and the point is in
the explosive (outside or on the obstacle) -/
theorem k3d2_outcome (p : K3d2.P) (q : E2) : K3d2.outcome p (q 0) (q 1) = .ok ↔ K3d2.Adm p ∧ p.R ≤ ‖q‖ := by
  simp only [epv_tree, ite_raise_eq_ok, ite_self]
  simp only [epv_cond, not_le, not_lt, and_true]
  have e1 := sqrt_norm2 (K3d2.det p)
  simp only [K3d2.det_0, K3d2.det_1] at e1
  rw [e1, sqrt_norm2 q]
  exact ⟨fun ⟨a, b, c, d⟩ => ⟨⟨a, b, c⟩, d⟩, fun ⟨⟨a, b, c⟩, d⟩ => ⟨a, b, c, d⟩⟩

theorem k3d3_outcome (p : K3d3.P) (q : E3) :
    K3d3.outcome p (q 0) (q 1) (q 2) = .ok ↔ K3d3.Adm p ∧ p.R ≤ ‖q‖ := by
  simp only [epv_tree, ite_raise_eq_ok, ite_self]
  simp only [epv_cond, not_le, not_lt, and_true]
  have e1 := sqrt_norm3 (K3d3.det p)
  simp only [K3d3.det_0, K3d3.det_1, K3d3.det_2] at e1
  rw [e1, sqrt_norm3 q]
  exact ⟨fun ⟨a, b, c, d⟩ => ⟨⟨a, b, c⟩, d⟩, fun ⟨⟨a, b, c⟩, d⟩ => ⟨a, b, c, d⟩⟩

/-- the traced shadow test is the documented θ > 0 -/
theorem k3d2_shadow_iff (p : K3d2.P) (q : E2) : K3d2.c4 p (q 0) (q 1) ↔ 0 < k3theta p.R (K3d2.det p) q := by
  simp only [epv_cond]
  unfold k3theta
  rw [← sqrt_norm2 q, ← sqrt_norm2 (K3d2.det p), ← inner2 q (K3d2.det p)]
  simp only [K3d2.det_0, K3d2.det_1, one_mul, div_one]

theorem k3d3_shadow_iff (p : K3d3.P) (q : E3) :
    K3d3.c4 p (q 0) (q 1) (q 2) ↔ 0 < k3theta p.R (K3d3.det p) q := by
  simp only [epv_cond]
  unfold k3theta
  rw [← sqrt_norm3 q, ← sqrt_norm3 (K3d3.det p), ← inner3 q (K3d3.det p)]
  simp only [K3d3.det_0, K3d3.det_1, K3d3.det_2, one_mul, div_one]

/-- the traced burn time is the documented solution wherever the request is served -/
theorem k3d2_eq_spec (p : K3d2.P) (q : E2) (h : K3d2.outcome p (q 0) (q 1) = .ok) :
    K3d2.burntime p (q 0) (q 1) = k3 p.R p.D p.t_d (K3d2.det p) q := by
  simp only [epv_tree, ite_raise_eq_ok, ite_self] at h
  obtain ⟨h0, h1, h2, h3, -⟩ := h
  simp only [epv_tree, if_neg h0, if_neg h1, if_neg h2, if_neg h3]
  unfold k3
  by_cases hs : K3d2.c4 p (q 0) (q 1)
  · rw [if_pos hs, if_pos ((k3d2_shadow_iff p q).mp hs)]
    simp only [epv_leaf]
    unfold k3path k3theta
    rw [← sqrt_norm2 q, ← sqrt_norm2 (K3d2.det p), ← inner2 q (K3d2.det p)]
    simp only [K3d2.det_0, K3d2.det_1, one_mul, div_one]
  · rw [if_neg hs, if_neg (fun h' => hs ((k3d2_shadow_iff p q).mpr h'))]
    simp only [epv_leaf]
    unfold cone
    rw [← sqrt_dist2 q (K3d2.det p)]
    simp only [K3d2.det_0, K3d2.det_1]

theorem k3d2_eq_spec' (p : K3d2.P) (h : K3d2.Adm p) (q : E2) (hq : p.R ≤ ‖q‖) :
    K3d2.burntime p (q 0) (q 1) = k3 p.R p.D p.t_d (K3d2.det p) q :=
  k3d2_eq_spec p q ((k3d2_outcome p q).mpr ⟨h, hq⟩)

/-- the traced burn time is the documented solution wherever the request is served -/
theorem k3d3_eq_spec (p : K3d3.P) (q : E3) (h : K3d3.outcome p (q 0) (q 1) (q 2) = .ok) :
    K3d3.burntime p (q 0) (q 1) (q 2) = k3 p.R p.D p.t_d (K3d3.det p) q := by
  simp only [epv_tree, ite_raise_eq_ok, ite_self] at h
  obtain ⟨h0, h1, h2, h3, -⟩ := h
  simp only [epv_tree, if_neg h0, if_neg h1, if_neg h2, if_neg h3]
  unfold k3
  by_cases hs : K3d3.c4 p (q 0) (q 1) (q 2)
  · rw [if_pos hs, if_pos ((k3d3_shadow_iff p q).mp hs)]
    simp only [epv_leaf]
    unfold k3path k3theta
    rw [← sqrt_norm3 q, ← sqrt_norm3 (K3d3.det p), ← inner3 q (K3d3.det p)]
    simp only [K3d3.det_0, K3d3.det_1, K3d3.det_2, one_mul, div_one]
  · rw [if_neg hs, if_neg (fun h' => hs ((k3d3_shadow_iff p q).mpr h'))]
    simp only [epv_leaf]
    unfold cone
    rw [← sqrt_dist3 q (K3d3.det p)]
    simp only [K3d3.det_0, K3d3.det_1, K3d3.det_2]

theorem k3d3_eq_spec' (p : K3d3.P) (h : K3d3.Adm p) (q : E3) (hq : p.R ≤ ‖q‖) :
    K3d3.burntime p (q 0) (q 1) (q 2) = k3 p.R p.D p.t_d (K3d3.det p) q :=
  k3d3_eq_spec p q ((k3d3_outcome p q).mpr ⟨h, hq⟩)


/-! ### DSD cylindrical expansion -/

theorem dsdcyl_leaves : DSDCyl.okLeaves = [7, 8, 9] := rfl

/-- documented admissible domain (class docstring of `CylindricalExpansion`) -/
def DSDCyl.Adm (p : DSDCyl.P) : Prop := DsdAdm p.r_1 p.r_2 p.D_CJ_1 p.D_CJ_2 p.alpha_1 p.alpha_2

/-- the documented solution at the parameters of the traced model -/
noncomputable def DSDCyl.spec (p : DSDCyl.P) (r : ℝ) : ℝ :=
  dsd p.r_1 p.r_2 p.D_CJ_1 p.D_CJ_2 p.alpha_1 p.alpha_2 p.t_d r

/-- what the constructor enforces -/
theorem dsdcyl_outcome (p : DSDCyl.P) (x y : ℝ) :
    DSDCyl.outcome p x y = .ok ↔
      0 < p.r_1 ∧ 0 < p.r_2 ∧ p.r_1 < p.r_2 ∧ 0 < p.D_CJ_1 ∧ 0 < p.D_CJ_2 ∧ 0 ≤ p.alpha_1 ∧ 0 ≤ p.alpha_2 := by
  simp only [epv_tree, ite_raise_eq_ok, ite_self]
  simp only [epv_cond, not_le, not_lt, and_true]

/-- the documented domain is accepted by the constructor -/
theorem dsdcyl_accepts (p : DSDCyl.P) (h : DSDCyl.Adm p) (x y : ℝ) : DSDCyl.outcome p x y = .ok := by
  rw [dsdcyl_outcome]
  have h1 : 0 ≤ p.alpha_1 / p.D_CJ_1 := div_nonneg h.hα1 h.hD1.le
  have hr1 : 0 < p.r_1 := lt_of_le_of_lt h1 h.h1
  exact ⟨hr1, hr1.trans h.hr, h.hr, h.hD1, h.hD2, h.hα1, h.hα2⟩

/-- the traced burn time is the documented function of the radius -/
theorem dsdcyl_eq_spec (p : DSDCyl.P) (x y : ℝ) (h : DSDCyl.outcome p x y = .ok) :
    DSDCyl.burntime p x y = DSDCyl.spec p (Real.sqrt (x * x + y * y)) := by
  simp only [epv_tree, ite_raise_eq_ok, ite_self] at h
  obtain ⟨h0, h1, h2, h3, h4, h5, h6, -⟩ := h
  simp only [epv_tree, if_neg h0, if_neg h1, if_neg h2, if_neg h3, if_neg h4, if_neg h5, if_neg h6]
  unfold DSDCyl.spec dsd dsdLeg
  by_cases c7 : DSDCyl.c7 p x y
  · rw [if_pos c7]; simp only [epv_cond] at c7; rw [if_pos c7]; simp only [epv_leaf]
  · rw [if_neg c7]; simp only [epv_cond] at c7; rw [if_neg c7]
    by_cases c8 : DSDCyl.c8 p x y
    · rw [if_pos c8]; simp only [epv_cond] at c8; rw [if_pos c8]; simp only [epv_leaf]
    · rw [if_neg c8]; simp only [epv_cond] at c8; rw [if_neg c8]; simp only [epv_leaf]

theorem dsdcyl_eq_spec_norm (p : DSDCyl.P) (h : DSDCyl.Adm p) (q : E2) :
    DSDCyl.burntime p (q 0) (q 1) = DSDCyl.spec p ‖q‖ := by
  rw [dsdcyl_eq_spec p _ _ (dsdcyl_accepts p h _ _), sqrt_norm2]


theorem dsdcyl_eq_L8 (p : DSDCyl.P) (h : DSDCyl.Adm p) (x y : ℝ) (h1 : p.r_1 ≤ Real.sqrt (x * x + y * y))
    (h2 : Real.sqrt (x * x + y * y) < p.r_2) : DSDCyl.burntime p x y = DSDCyl.L8.burntime p x y := by
  have hok := dsdcyl_accepts p h x y
  simp only [epv_tree, ite_raise_eq_ok, ite_self] at hok
  obtain ⟨h0, h1', h2', h3, h4, h5, h6, -⟩ := hok
  have c7 : ¬ DSDCyl.c7 p x y := by simp only [epv_cond]; exact not_lt.mpr h1
  have c8 : DSDCyl.c8 p x y := by simp only [epv_cond]; exact h2
  simp only [epv_tree, if_neg h0, if_neg h1', if_neg h2', if_neg h3, if_neg h4, if_neg h5, if_neg h6, if_neg c7,
    if_pos c8]

theorem dsdcyl_eq_L9 (p : DSDCyl.P) (h : DSDCyl.Adm p) (x y : ℝ) (h2 : p.r_2 ≤ Real.sqrt (x * x + y * y)) :
    DSDCyl.burntime p x y = DSDCyl.L9.burntime p x y := by
  have hok := dsdcyl_accepts p h x y
  simp only [epv_tree, ite_raise_eq_ok, ite_self] at hok
  obtain ⟨h0, h1', h2', h3, h4, h5, h6, -⟩ := hok
  have c7 : ¬ DSDCyl.c7 p x y := by simp only [epv_cond]; exact not_lt.mpr (h.hr.le.trans h2)
  have c8 : ¬ DSDCyl.c8 p x y := by simp only [epv_cond]; exact not_lt.mpr h2
  simp only [epv_tree, if_neg h0, if_neg h1', if_neg h2', if_neg h3, if_neg h4, if_neg h5, if_neg h6, if_neg c7,
    if_neg c8]


end EPV.Burn
