/-
Sedov (C11 growth, wp sedov3): the two energy integrals for special_singularity omega3 (generated
model SedovFuncsO3, leaf 1) at the exactly special ω = k(2-γ) — always the standard solution type.
Same argument as `Lemmas/SedovEnergyStd.lean` with the omega3 closed forms: the pressure function
h = x1^(a0 k) x4^(pp4) exp(pp3) has no factor x2 and the pole of pp3 (x1 = (γ+1)/2) lies beyond the
branch (x1 ≤ 1), so h is continuous on [v0, v2]; the kinetic integrand is integrable by the exact mass
differential `Mass.M3_hasDerivAt` of wp sedov2.
-/
import EPV.Lemmas.SedovEnergy
import EPV.Lemmas.SedovMassO3

set_option linter.all false
set_option maxRecDepth 100000

open EPV EPV.Gen EPV.Spec.Sedov EPV.Spec.SedovODE MeasureTheory Set

namespace EPV.Sedov.Energy

noncomputable section

/-- the coded `dlamdv` is the generated derivative of the coded λ (omega3, leaf 1) -/
theorem dlamdv_eq3 (p : SedovFuncsO3.P) (v : ℝ) (B : O3.Bases p v) :
    SedovFuncsO3.L1.dlamdv p v = SedovFuncsO3.L1.l_fun_dv p v := by
  obtain ⟨hs1, hs2, hs3, hs4⟩ := B
  simp only [epv_semi_deriv, epv_semi_leaf]
  have h1 := hs1.ne'; have h2 := hs2.ne'; have h3 := hs3.ne'
  have h4 : p.a_val ≠ 0 := left_ne_zero_of_mul h1
  have h5 : p.b_val ≠ 0 := left_ne_zero_of_mul h2
  field_simp
  ring

theorem h_pos3 (p : SedovFuncsO3.P) (v : ℝ) (B : O3.Bases p v) : 0 < SedovFuncsO3.L1.h_fun p v := by
  simp only [epv_semi_leaf]
  exact mul_pos (mul_pos (Real.rpow_pos_of_pos B.x1 _) (Real.rpow_pos_of_pos B.x4 _)) (Real.exp_pos _)

theorem efun01_eq3 (p : SedovFuncsO3.P) (v : ℝ) (B : O3.Bases p v) (kn : ℕ) (hgeo : p.geometry = kn) (h1 : 1 ≤ kn) :
    SedovFuncsO3.L1.efun01 p v = p.gpogm / p.a_val ^ 2
      * psi1 (SedovFuncsO3.L1.l_fun p) (SedovFuncsO3.L1.l_fun_dv p) (SedovFuncsO3.L1.g_fun p) (fun v => p.a_val * v) kn v := by
  have he : SedovFuncsO3.L1.efun01 p v = SedovFuncsO3.L1.dlamdv p v * SedovFuncsO3.L1.l_fun p v ^ (p.geometry + 1) * p.gpogm
      * SedovFuncsO3.L1.g_fun p v * v ^ 2 := by
    simp only [epv_semi_leaf]
  have hl := O3.l_pos p v B
  have ha : p.a_val ≠ 0 := left_ne_zero_of_mul B.x1.ne'
  have hpow : SedovFuncsO3.L1.l_fun p v ^ (p.geometry + 1) = SedovFuncsO3.L1.l_fun p v ^ (kn - 1) * SedovFuncsO3.L1.l_fun p v ^ 2 := by
    have e : p.geometry + 1 = ((kn - 1 : ℕ) : ℝ) + ((2 : ℕ) : ℝ) := by
      rw [hgeo, Nat.cast_sub h1]; push_cast; ring
    rw [e, Real.rpow_add hl, Real.rpow_natCast, Real.rpow_natCast]
  rw [he, hpow, dlamdv_eq3 p v B]
  simp only [psi1]
  field_simp

theorem efun02_eq3 (p : SedovFuncsO3.P) (v : ℝ) (B : O3.Bases p v) (kn : ℕ) (hgeo : p.geometry = kn) (h1 : 1 ≤ kn) :
    SedovFuncsO3.L1.efun02 p v = 8 / ((p.geometry + 2 - p.omega) ^ 2 * p.gamp1)
      * psi2 (SedovFuncsO3.L1.l_fun p) (SedovFuncsO3.L1.l_fun_dv p) (SedovFuncsO3.L1.h_fun p) kn v := by
  have he : SedovFuncsO3.L1.efun02 p v = SedovFuncsO3.L1.dlamdv p v * SedovFuncsO3.L1.l_fun p v ^ (p.geometry - 1)
      * SedovFuncsO3.L1.h_fun p v * (8 / ((p.geometry + 2 - p.omega) ^ 2 * p.gamp1)) := by
    simp only [epv_semi_leaf]
  have hpow : SedovFuncsO3.L1.l_fun p v ^ (p.geometry - 1) = SedovFuncsO3.L1.l_fun p v ^ (kn - 1) := by
    have e : p.geometry - 1 = ((kn - 1 : ℕ) : ℝ) := by rw [hgeo, Nat.cast_sub h1]; push_cast; ring
    rw [e, Real.rpow_natCast]
  rw [he, hpow, dlamdv_eq3 p v B]
  simp only [psi2]
  ring

/-- the pressure similarity function (omega3) is continuous on the closed branch -/
theorem h_continuousOn3 {p : SedovFuncsO3.P} (s : Set ℝ) (hs : ∀ v ∈ s, Mass.ClosedBases3 p v) :
    ContinuousOn (SedovFuncsO3.L1.h_fun p) s := by
  rw [(funext (EPV.Bridge.Semi.SedovFuncsO3_L1_h_fun p) : SedovFuncsO3.L1.h_fun p = _)]
  refine (ContinuousOn.mul (ContinuousOn.rpow_const (by fun_prop) ?_) (ContinuousOn.rpow_const (by fun_prop) ?_)).mul
    (Real.continuous_exp.comp_continuousOn (ContinuousOn.div (by fun_prop) (by fun_prop) ?_))
  · intro v hv; exact Or.inl (hs v hv).x1.ne'
  · intro v hv; exact Or.inl (hs v hv).x4.ne'
  · intro v hv; exact (hs v hv).y

theorem leaf1_of_interior3 (p : SedovFuncsO3.P) (v : ℝ) (h0 : ¬ SedovFuncsO3.c0 p v) (h1 : SedovFuncsO3.c1 p v) :
    SedovFuncsO3.leaf p v = 1 ∧ SedovFuncsO3.efun01 p v = SedovFuncsO3.L1.efun01 p v
      ∧ SedovFuncsO3.efun02 p v = SedovFuncsO3.L1.efun02 p v := by
  simp only [epv_tree, h0, h1, if_false, if_true, and_self]

/-- the (standard) branch of SedovFuncsO3 at the exactly special ω is a `Branch` -/
theorem o3_branch {p : SedovFuncsO3.P} {γ ω : ℝ} (kn : ℕ) (h1 : 1 ≤ kn) (hC : O3Consts p γ kn ω)
    (P : Params γ kn ω) (hω3 : K.denom3 γ kn ω = 0) :
    Branch (v0 γ kn ω) (v2 γ kn ω) (SedovFuncsO3.L1.l_fun p) (SedovFuncsO3.L1.l_fun_dv p) (SedovFuncsO3.L1.g_fun p)
      (SedovFuncsO3.L1.h_fun p) (fun v => p.a_val * v) kn := by
  set k : ℝ := (kn : ℝ) with hk
  have htype := Mass.o3_is_standard P hω3
  have hX := P.X_pos; have hγ := P.hγ
  have hγ0 := P.γ_pos
  have hab : v0 γ k ω < v2 γ k ω := by
    unfold v0 v2
    rw [div_lt_div_iff₀ (mul_pos hX hγ0) (mul_pos hX (by linarith))]
    nlinarith
  have hcl : ∀ v ∈ Icc (v0 γ k ω) (v2 γ k ω), Mass.StdClosed γ k ω v := fun v hv => ⟨P, htype, hv.1, hv.2⟩
  have hS0 := (hcl _ (left_mem_Icc.mpr hab.le)).signs
  have hd2pos := Mass.denom2_pos hS0 P.hk
  have ha2 := Mass.neg_a2_pos3 hC hγ hd2pos
  have he2 := Mass.e2_pos3 hC P hd2pos kn rfl
  have hCB : ∀ v ∈ Icc (v0 γ k ω) (v2 γ k ω), Mass.ClosedBases3 p v := fun v hv => Mass.closedBases3 hC (hcl v hv).signs
  have hint : ∀ v ∈ Ioo (v0 γ k ω) (v2 γ k ω), O2.Signs γ k ω v := fun v hv =>
    (StdInterior.toSigns ⟨P, htype, hv.1, hv.2⟩).toO2
  have hB : ∀ v ∈ Ioo (v0 γ k ω) (v2 γ k ω), O3.Bases p v := fun v hv => O3.bases hC (hint v hv)
  exact
    { hab := hab
      h1 := h1
      Lc := Mass.l_continuousOn3 _ hCB ha2
      Ld := fun v hv => (O3.hasDerivAt p v (hB v hv)).1
      Lpos := fun v hv => O3.l_pos p v (hB v hv)
      Gnn := fun v hv => (O3.g_pos p v (hB v hv)).le
      Ki := mass_integrable_of_exact_nonneg hab.le (κ := k - ω) (by linarith [P.hωk])
        ((Mass.Mc3_continuousOn (k + 2 - ω) kn _ hCB he2).congr (fun v hv => Mass.M3_eq_Mc3 (hCB v hv) _ kn h1 ha2 he2))
        (fun v hv => Mass.M3_hasDerivAt hC (hint v hv) hω3 kn rfl h1)
        (fun v hv => mul_nonneg (mul_nonneg (O3.g_pos p v (hB v hv)).le (pow_nonneg (O3.l_pos p v (hB v hv)).le _))
          (O3.l_dv_pos hC (hint v hv) hω3).le)
      Ac := by fun_prop
      Hc := h_continuousOn3 _ hCB }

/-- the two energy integrals of the omega3 closed forms on the standard branch, for ANY ω, as soon as
the branch is a `Branch` and the coded λ increases (used at the exactly special ω below, and inside the
band |denom3| ≤ 1e-4 in `Lemmas/SedovEnergyBand.lean`) -/
theorem eval_o3_of_branch {p : SedovFuncsO3.P} {γ ω : ℝ} (kn : ℕ) (h1 : 1 ≤ kn) (hC : O3Consts p γ kn ω)
    (P : Params γ kn ω) (htype : v2 γ kn ω < vstar γ kn)
    (Br : Branch (v0 γ kn ω) (v2 γ kn ω) (SedovFuncsO3.L1.l_fun p) (SedovFuncsO3.L1.l_fun_dv p) (SedovFuncsO3.L1.g_fun p)
      (SedovFuncsO3.L1.h_fun p) (fun v => p.a_val * v) kn)
    (hL' : ∀ v ∈ Ioo (v0 γ kn ω) (v2 γ kn ω), 0 < SedovFuncsO3.L1.l_fun_dv p v) (f g h : ℝ → ℝ)
    (hf : ∀ v ∈ Ioo (v0 γ kn ω) (v2 γ kn ω), f (SedovFuncsO3.L1.l_fun p v) = SedovFuncsO3.L1.f_fun p v)
    (hg : ∀ v ∈ Ioo (v0 γ kn ω) (v2 γ kn ω), g (SedovFuncsO3.L1.l_fun p v) = SedovFuncsO3.L1.g_fun p v)
    (hh : ∀ v ∈ Ioo (v0 γ kn ω) (v2 γ kn ω), h (SedovFuncsO3.L1.l_fun p v) = SedovFuncsO3.L1.h_fun p v) :
    IntervalIntegrable (fun x => g x * f x ^ 2 * x ^ (kn - 1)) volume 0 1 ∧
    IntervalIntegrable (fun x => h x * x ^ (kn - 1)) volume 0 1 ∧
    ∫ v in (v0 γ kn ω)..(v2 γ kn ω), SedovFuncsO3.L1.efun01 p v = eval1 kn γ ω f g ∧
    ∫ v in (v0 γ kn ω)..(v2 γ kn ω), SedovFuncsO3.L1.efun02 p v = eval2 kn γ ω h ∧
    0 ≤ eval1 kn γ ω f g ∧ 0 < eval2 kn γ ω h := by
  set k : ℝ := (kn : ℝ) with hk
  have hγ := P.hγ; have hX := P.X_pos
  have hint : ∀ v ∈ Ioo (v0 γ k ω) (v2 γ k ω), O2.Signs γ k ω v := fun v hv =>
    (StdInterior.toSigns ⟨P, htype, hv.1, hv.2⟩).toO2
  have hB : ∀ v ∈ Ioo (v0 γ k ω) (v2 γ k ω), O3.Bases p v := fun v hv => O3.bases hC (hint v hv)
  have hS0 : Mass.StdClosedSigns γ k ω (v0 γ k ω) := (Mass.StdClosed.mk P htype le_rfl Br.hab.le).signs
  have hd2pos := Mass.denom2_pos hS0 P.hk
  have hf' : ∀ v ∈ Ioo (v0 γ k ω) (v2 γ k ω), f (SedovFuncsO3.L1.l_fun p v) = p.a_val * v * SedovFuncsO3.L1.l_fun p v := by
    intro v hv; rw [hf v hv]; simp only [epv_semi_leaf]
  obtain ⟨⟨I1, E1⟩, ⟨I2, E2⟩⟩ := branch_mono Br hL' f g h hf' hg hh
  obtain ⟨N1, N2⟩ := Br.pos_mono hL' (fun v hv => h_pos3 p v (hB v hv))
  have ha2 := Mass.neg_a2_pos3 hC hγ hd2pos
  rw [Mass.l_at_v0_3 hC P ha2, (Mass.at_v2_3 hC P).1] at I1 E1 I2 E2
  have hq1 : ∫ v in (v0 γ k ω)..(v2 γ k ω), SedovFuncsO3.L1.efun01 p v = p.gpogm / p.a_val ^ 2
      * ∫ v in (v0 γ k ω)..(v2 γ k ω), psi1 (SedovFuncsO3.L1.l_fun p) (SedovFuncsO3.L1.l_fun_dv p) (SedovFuncsO3.L1.g_fun p)
          (fun v => p.a_val * v) kn v := by
    rw [← intervalIntegral.integral_const_mul, intervalIntegral.integral_of_le Br.hab.le,
      intervalIntegral.integral_of_le Br.hab.le, integral_Ioc_eq_integral_Ioo, integral_Ioc_eq_integral_Ioo]
    exact setIntegral_congr_fun measurableSet_Ioo (fun v hv => efun01_eq3 p v (hB v hv) kn hC.geometry h1)
  have hq2 : ∫ v in (v0 γ k ω)..(v2 γ k ω), SedovFuncsO3.L1.efun02 p v = 8 / ((p.geometry + 2 - p.omega) ^ 2 * p.gamp1)
      * ∫ v in (v0 γ k ω)..(v2 γ k ω), psi2 (SedovFuncsO3.L1.l_fun p) (SedovFuncsO3.L1.l_fun_dv p) (SedovFuncsO3.L1.h_fun p) kn v := by
    rw [← intervalIntegral.integral_const_mul, intervalIntegral.integral_of_le Br.hab.le,
      intervalIntegral.integral_of_le Br.hab.le, integral_Ioc_eq_integral_Ioo, integral_Ioc_eq_integral_Ioo]
    exact setIntegral_congr_fun measurableSet_Ioo (fun v hv => efun02_eq3 p v (hB v hv) kn hC.geometry h1)
  have hc1 : p.gpogm / p.a_val ^ 2 = ((γ + 1) / (γ - 1)) / ((1 / 4) * (k + 2 - ω) * (γ + 1)) ^ 2 := by
    rw [hC.gpogm, hC.a_val]; rfl
  have hc2 : 8 / ((p.geometry + 2 - p.omega) ^ 2 * p.gamp1) = 8 / ((k + 2 - ω) ^ 2 * (γ + 1)) := by
    rw [hC.geometry, hC.omega, hC.gamp1]
  have hc1pos : 0 < ((γ + 1) / (γ - 1)) / ((1 / 4) * (k + 2 - ω) * (γ + 1)) ^ 2 := by
    have : 0 < γ - 1 := by linarith
    positivity
  have hc2pos : 0 < 8 / ((k + 2 - ω) ^ 2 * (γ + 1)) := by
    have : 0 < γ + 1 := by linarith
    positivity
  refine ⟨I1, I2, ?_, ?_, ?_, ?_⟩
  · rw [hq1, hc1, ← E1]; rfl
  · rw [hq2, hc2, ← E2]; rfl
  · unfold eval1 J1; rw [E1]; exact mul_nonneg hc1pos.le N1
  · unfold eval2 J2; rw [E2]; exact mul_pos hc2pos N2

/-- **The two energy integrals, special_singularity omega3** (exactly special ω = k(2-γ); standard type) -/
theorem eval_o3 {p : SedovFuncsO3.P} {γ ω : ℝ} (kn : ℕ) (h1 : 1 ≤ kn) (hC : O3Consts p γ kn ω)
    (P : Params γ kn ω) (hω3 : K.denom3 γ kn ω = 0) (f g h : ℝ → ℝ)
    (hf : ∀ v ∈ Ioo (v0 γ kn ω) (v2 γ kn ω), f (SedovFuncsO3.L1.l_fun p v) = SedovFuncsO3.L1.f_fun p v)
    (hg : ∀ v ∈ Ioo (v0 γ kn ω) (v2 γ kn ω), g (SedovFuncsO3.L1.l_fun p v) = SedovFuncsO3.L1.g_fun p v)
    (hh : ∀ v ∈ Ioo (v0 γ kn ω) (v2 γ kn ω), h (SedovFuncsO3.L1.l_fun p v) = SedovFuncsO3.L1.h_fun p v) :
    IntervalIntegrable (fun x => g x * f x ^ 2 * x ^ (kn - 1)) volume 0 1 ∧
    IntervalIntegrable (fun x => h x * x ^ (kn - 1)) volume 0 1 ∧
    ∫ v in (v0 γ kn ω)..(v2 γ kn ω), SedovFuncsO3.L1.efun01 p v = eval1 kn γ ω f g ∧
    ∫ v in (v0 γ kn ω)..(v2 γ kn ω), SedovFuncsO3.L1.efun02 p v = eval2 kn γ ω h ∧
    0 ≤ eval1 kn γ ω f g ∧ 0 < eval2 kn γ ω h := by
  have htype := Mass.o3_is_standard P hω3
  exact eval_o3_of_branch kn h1 hC P htype (o3_branch kn h1 hC P hω3)
    (fun v hv => O3.l_dv_pos hC (StdInterior.toSigns ⟨P, htype, hv.1, hv.2⟩).toO2 hω3) f g h hf hg hh

/-- non-vacuity of the root-finder atom (omega3) -/
theorem exists_funcs_o3 {p : SedovFuncsO3.P} {γ ω : ℝ} (kn : ℕ) (h1 : 1 ≤ kn) (hC : O3Consts p γ kn ω)
    (P : Params γ kn ω) (hω3 : K.denom3 γ kn ω = 0) :
    ∃ f g h : ℝ → ℝ,
      (∀ v ∈ Ioo (v0 γ kn ω) (v2 γ kn ω), f (SedovFuncsO3.L1.l_fun p v) = SedovFuncsO3.L1.f_fun p v) ∧
      (∀ v ∈ Ioo (v0 γ kn ω) (v2 γ kn ω), g (SedovFuncsO3.L1.l_fun p v) = SedovFuncsO3.L1.g_fun p v) ∧
      (∀ v ∈ Ioo (v0 γ kn ω) (v2 γ kn ω), h (SedovFuncsO3.L1.l_fun p v) = SedovFuncsO3.L1.h_fun p v) := by
  have Br := o3_branch kn h1 hC P hω3
  have htype := Mass.o3_is_standard P hω3
  have hL' : ∀ v ∈ Ioo (v0 γ kn ω) (v2 γ kn ω), 0 < SedovFuncsO3.L1.l_fun_dv p v :=
    fun v hv => O3.l_dv_pos hC (StdInterior.toSigns ⟨P, htype, hv.1, hv.2⟩).toO2 hω3
  obtain ⟨f, g, h, hf, hg, hh, -⟩ := exists_param_functions (Br.injOn_mono hL') (SedovFuncsO3.L1.f_fun p)
    (SedovFuncsO3.L1.g_fun p) (SedovFuncsO3.L1.h_fun p)
  exact ⟨f, g, h, hf, hg, hh⟩

end

end EPV.Sedov.Energy
