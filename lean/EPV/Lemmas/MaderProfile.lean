/-
The point profile of Mader's Taylor wave in the coordinate of `rare` (X = xdet), and the coded
antiderivatives whose differences `rare` returns as cell averages.  Shared by C03 and C17.
-/
import EPV.Lemmas.Mader
import Mathlib.Analysis.Calculus.Deriv.MeanValue

set_option linter.all false

open EPV EPV.Gen

namespace EPV.MaderL

noncomputable section

/-- point profile of the Taylor wave -/
def maderP (p : MaderRare.P) (time X : ℝ) : ℝ := p.p_cj * Y p time X ^ bexp p
def maderR (p : MaderRare.P) (time X : ℝ) : ℝ := rhocj p * Y p time X ^ dexp p
def maderC (p : MaderRare.P) (time X : ℝ) : ℝ := ccj p * Y p time X
def maderU (p : MaderRare.P) (time X : ℝ) : ℝ := dd p time * X + ee p

variable (p : MaderRare.P) (time : ℝ)

theorem Y_hasDerivAt (X : ℝ) : HasDerivAt (fun X => Y p time X) (aa p time) X := by
  have := ((hasDerivAt_id' X).const_mul (aa p time)).add_const (bb p)
  simpa [Y] using this

theorem aa_pos (hγ : 1 < p.gam) (hD : 0 < p.d_cj) (ht : 0 < time) : 0 < aa p time := by
  simp only [aa, ccj]; positivity

theorem bexp_pos (hγ : 1 < p.gam) : 0 < bexp p := by
  simp only [bexp]; apply div_pos <;> linarith
theorem dexp_pos (hγ : 1 < p.gam) : 0 < dexp p := by
  simp only [dexp]; apply div_pos <;> linarith

/-- the coded antiderivative `k y^(e+1) / (aa (e+1))` of `k y^e` -/
theorem antideriv (k e : ℝ) (he : e + 1 ≠ 0) (ha : aa p time ≠ 0) (X : ℝ) (hy : 0 < Y p time X) :
    HasDerivAt (fun X => k * Y p time X ^ (e + 1) / (aa p time * (e + 1))) (k * Y p time X ^ e) X := by
  have h := ((Y_hasDerivAt p time X).rpow_const (p := e + 1) (Or.inl hy.ne')).const_mul k
    |>.div_const (aa p time * (e + 1))
  refine h.congr_deriv ?_
  rw [add_sub_cancel_right]
  field_simp

theorem Y_mono (hγ : 1 < p.gam) (hD : 0 < p.d_cj) (ht : 0 < time) {X X' : ℝ} (h : X ≤ X') :
    Y p time X ≤ Y p time X' := by
  have := aa_pos p time hγ hD ht
  simp only [Y]; nlinarith

/-- y > 0 on a cell as soon as it is at the cell's lower end (y is increasing) -/
theorem Y_pos_of_le (hγ : 1 < p.gam) (hD : 0 < p.d_cj) (ht : 0 < time) {X X' : ℝ} (h : X ≤ X')
    (hy : 0 < Y p time X) : 0 < Y p time X' := lt_of_lt_of_le hy (Y_mono p time hγ hD ht h)

/-- **mean value form of the cell average**: the coded `k (y(b)^(e+1) - y(a)^(e+1)) / ((b - a) aa (e+1))`
is the value of `k y^e` at an interior point of the cell -/
theorem cell_mean (k e a dx : ℝ) (hγ : 1 < p.gam) (hD : 0 < p.d_cj) (ht : 0 < time) (he : 0 < e)
    (hdx : 0 < dx) (hy : 0 < Y p time a) :
    ∃ ξ ∈ Set.Ioo a (a + dx),
      (k * (Y p time (a + dx) ^ (e + 1) - Y p time a ^ (e + 1))) / ((dx * aa p time) * (e + 1))
        = k * Y p time ξ ^ e := by
  have ha := (aa_pos p time hγ hD ht).ne'
  have he1 : e + 1 ≠ 0 := by linarith
  have hpos : ∀ X ∈ Set.Icc a (a + dx), 0 < Y p time X := fun X hX => Y_pos_of_le p time hγ hD ht hX.1 hy
  have hd : ∀ X ∈ Set.Icc a (a + dx),
      HasDerivAt (fun X => k * Y p time X ^ (e + 1) / (aa p time * (e + 1))) (k * Y p time X ^ e) X :=
    fun X hX => antideriv p time k e he1 ha X (hpos X hX)
  obtain ⟨ξ, hξ, h⟩ := exists_hasDerivAt_eq_slope (fun X => k * Y p time X ^ (e + 1) / (aa p time * (e + 1)))
    (fun X => k * Y p time X ^ e) (by linarith : a < a + dx)
    (fun X hX => (hd X hX).continuousAt.continuousWithinAt)
    (fun X hX => hd X ⟨hX.1.le, hX.2.le⟩)
  refine ⟨ξ, hξ, ?_⟩
  rw [h, add_sub_cancel_left]
  have hdx' : dx ≠ 0 := hdx.ne'
  field_simp

end

end EPV.MaderL
