/-
Lemmas about the generated EHEP model shared by the C03 / C10 / C17 / C20 theorems:
what the constructor accepts (the first seven path conditions of the traced tree).
-/
import EPV.Gen.EHEP
import EPV.Lemmas.DetTactics
import EPV.Tactics

set_option linter.all false

open EPV EPV.Gen

namespace EPV.EHEPL

/-- the constructor's acceptance predicate, read off the traced path conditions c0 … c6 -/
def Accepted (p : EHEP.P) : Prop :=
  0 < p.D ∧ 0 < p.rho_0 ∧ 0 ≤ p.up ∧ p.up < p.D / (p.gamma + 1) ∧ 0 < p.xtilde ∧ p.xtilde ≤ p.xmax ∧ 0 < p.tmax

/-- `_run` returns fields exactly for the accepted parameter sets; every rejection is a ValueError -/
theorem outcome_ok_iff (p : EHEP.P) (x t : ℝ) : EHEP.outcome p x t = .ok ↔ Accepted p := by
  unfold EHEP.outcome Accepted
  constructor
  · epv_split <;> intro h <;> first
      | (exact absurd h (by decide))
      | (simp only [epv_cond, not_le, not_lt] at *
         exact ⟨by assumption, by assumption, by assumption, by assumption, by assumption, by assumption,
           by assumption⟩)
  · rintro ⟨h0, h1, h2, h3, h4, h5, h6⟩
    have c0 : ¬ EHEP.c0 p x t := by simp only [epv_cond]; linarith
    have c1 : ¬ EHEP.c1 p x t := by simp only [epv_cond]; linarith
    have c2 : ¬ EHEP.c2 p x t := by simp only [epv_cond]; linarith
    have c3 : ¬ EHEP.c3 p x t := by simp only [epv_cond]; linarith
    have c4 : ¬ EHEP.c4 p x t := by simp only [epv_cond]; linarith
    have c5 : ¬ EHEP.c5 p x t := by simp only [epv_cond]; linarith
    have c6 : ¬ EHEP.c6 p x t := by simp only [epv_cond]; linarith
    simp only [if_neg c0, if_neg c1, if_neg c2, if_neg c3, if_neg c4, if_neg c5, if_neg c6]
    epv_split <;> rfl

theorem outcome_raise (p : EHEP.P) (x t : ℝ) (h : EHEP.outcome p x t ≠ .ok) :
    EHEP.outcome p x t = .raise "ValueError" := by
  unfold EHEP.outcome at *
  revert h
  epv_split <;> intro h <;> first | trivial | rfl | (exact absurd rfl h)


/-! ### the tree-level fields per region (value of the atom `region`)

The `ρ = 0` twin of each region leaf returns the same density, pressure, sound speed and velocity
and `e = 0`, which is also the value of `p / ρ / (γ - 1)` at ρ = 0 in Lean (x / 0 = 0): one
statement per region covers both twins. -/

/-- region I -/
theorem region_I (p : EHEP.P) (x t : ℝ) (ha : Accepted p) (hr : p.region = 1) :
    EHEP.density p x t = EHEP.L23.density p x t ∧
    EHEP.pressure p x t = EHEP.L23.pressure p x t ∧
    EHEP.specific_internal_energy p x t = EHEP.L23.specific_internal_energy p x t ∧
    EHEP.sound_speed p x t = EHEP.L23.sound_speed p x t ∧
    EHEP.velocity p x t = EHEP.L23.velocity p x t := by
  obtain ⟨a0, a1, a2, a3, a4, a5, a6⟩ := ha
  have h0 : ¬ EHEP.c0 p x t := by simp only [epv_cond]; linarith
  have h1 : ¬ EHEP.c1 p x t := by simp only [epv_cond]; linarith
  have h2 : ¬ EHEP.c2 p x t := by simp only [epv_cond]; linarith
  have h3 : ¬ EHEP.c3 p x t := by simp only [epv_cond]; linarith
  have h4 : ¬ EHEP.c4 p x t := by simp only [epv_cond]; linarith
  have h5 : ¬ EHEP.c5 p x t := by simp only [epv_cond]; linarith
  have h6 : ¬ EHEP.c6 p x t := by simp only [epv_cond]; linarith
  have r7 : EHEP.c7 p x t ↔ True := by simp only [epv_cond, hr] <;> norm_num
  have r9 : EHEP.c9 p x t ↔ False := by simp only [epv_cond, hr] <;> norm_num
  have r12 : EHEP.c12 p x t ↔ False := by simp only [epv_cond, hr] <;> norm_num
  have r14 : EHEP.c14 p x t ↔ False := by simp only [epv_cond, hr] <;> norm_num
  have r16 : EHEP.c16 p x t ↔ False := by simp only [epv_cond, hr] <;> norm_num
  have r18 : EHEP.c18 p x t ↔ False := by simp only [epv_cond, hr] <;> norm_num
  have r19 : EHEP.c19 p x t ↔ False := by simp only [epv_cond, hr] <;> norm_num
  have r20 : EHEP.c20 p x t ↔ False := by simp only [epv_cond, hr] <;> norm_num
  unfold EHEP.density EHEP.pressure EHEP.specific_internal_energy EHEP.sound_speed EHEP.velocity
  simp only [if_neg h0, if_neg h1, if_neg h2, if_neg h3, if_neg h4, if_neg h5, if_neg h6,
    r7, r9, r12, r14, r16, r18, r19, r20, if_true, if_false]
  by_cases hz : EHEP.c8 p x t
  · simp only [if_pos hz]
    simp only [epv_cond] at hz
    simp only [epv_leaf] at hz ⊢
    refine ⟨trivial, trivial, ?_, trivial, trivial⟩
    rw [hz]; simp
  · simp only [if_neg hz, and_self]
/-- region III -/
theorem region_III (p : EHEP.P) (x t : ℝ) (ha : Accepted p) (hr : p.region = 3) :
    EHEP.density p x t = EHEP.L19.density p x t ∧
    EHEP.pressure p x t = EHEP.L19.pressure p x t ∧
    EHEP.specific_internal_energy p x t = EHEP.L19.specific_internal_energy p x t ∧
    EHEP.sound_speed p x t = EHEP.L19.sound_speed p x t ∧
    EHEP.velocity p x t = EHEP.L19.velocity p x t := by
  obtain ⟨a0, a1, a2, a3, a4, a5, a6⟩ := ha
  have h0 : ¬ EHEP.c0 p x t := by simp only [epv_cond]; linarith
  have h1 : ¬ EHEP.c1 p x t := by simp only [epv_cond]; linarith
  have h2 : ¬ EHEP.c2 p x t := by simp only [epv_cond]; linarith
  have h3 : ¬ EHEP.c3 p x t := by simp only [epv_cond]; linarith
  have h4 : ¬ EHEP.c4 p x t := by simp only [epv_cond]; linarith
  have h5 : ¬ EHEP.c5 p x t := by simp only [epv_cond]; linarith
  have h6 : ¬ EHEP.c6 p x t := by simp only [epv_cond]; linarith
  have r7 : EHEP.c7 p x t ↔ False := by simp only [epv_cond, hr] <;> norm_num
  have r9 : EHEP.c9 p x t ↔ False := by simp only [epv_cond, hr] <;> norm_num
  have r12 : EHEP.c12 p x t ↔ True := by simp only [epv_cond, hr] <;> norm_num
  have r14 : EHEP.c14 p x t ↔ False := by simp only [epv_cond, hr] <;> norm_num
  have r16 : EHEP.c16 p x t ↔ False := by simp only [epv_cond, hr] <;> norm_num
  have r18 : EHEP.c18 p x t ↔ False := by simp only [epv_cond, hr] <;> norm_num
  have r19 : EHEP.c19 p x t ↔ False := by simp only [epv_cond, hr] <;> norm_num
  have r20 : EHEP.c20 p x t ↔ False := by simp only [epv_cond, hr] <;> norm_num
  unfold EHEP.density EHEP.pressure EHEP.specific_internal_energy EHEP.sound_speed EHEP.velocity
  simp only [if_neg h0, if_neg h1, if_neg h2, if_neg h3, if_neg h4, if_neg h5, if_neg h6,
    r7, r9, r12, r14, r16, r18, r19, r20, if_true, if_false]
  by_cases hz : EHEP.c13 p x t
  · simp only [if_pos hz]
    simp only [epv_cond] at hz
    simp only [epv_leaf] at hz ⊢
    refine ⟨trivial, trivial, ?_, trivial, trivial⟩
    rw [hz]; simp
  · simp only [if_neg hz, and_self]
/-- region IV -/
theorem region_IV (p : EHEP.P) (x t : ℝ) (ha : Accepted p) (hr : p.region = 4) :
    EHEP.density p x t = EHEP.L18.density p x t ∧
    EHEP.pressure p x t = EHEP.L18.pressure p x t ∧
    EHEP.specific_internal_energy p x t = EHEP.L18.specific_internal_energy p x t ∧
    EHEP.sound_speed p x t = EHEP.L18.sound_speed p x t ∧
    EHEP.velocity p x t = EHEP.L18.velocity p x t := by
  obtain ⟨a0, a1, a2, a3, a4, a5, a6⟩ := ha
  have h0 : ¬ EHEP.c0 p x t := by simp only [epv_cond]; linarith
  have h1 : ¬ EHEP.c1 p x t := by simp only [epv_cond]; linarith
  have h2 : ¬ EHEP.c2 p x t := by simp only [epv_cond]; linarith
  have h3 : ¬ EHEP.c3 p x t := by simp only [epv_cond]; linarith
  have h4 : ¬ EHEP.c4 p x t := by simp only [epv_cond]; linarith
  have h5 : ¬ EHEP.c5 p x t := by simp only [epv_cond]; linarith
  have h6 : ¬ EHEP.c6 p x t := by simp only [epv_cond]; linarith
  have r7 : EHEP.c7 p x t ↔ False := by simp only [epv_cond, hr] <;> norm_num
  have r9 : EHEP.c9 p x t ↔ False := by simp only [epv_cond, hr] <;> norm_num
  have r12 : EHEP.c12 p x t ↔ False := by simp only [epv_cond, hr] <;> norm_num
  have r14 : EHEP.c14 p x t ↔ True := by simp only [epv_cond, hr] <;> norm_num
  have r16 : EHEP.c16 p x t ↔ False := by simp only [epv_cond, hr] <;> norm_num
  have r18 : EHEP.c18 p x t ↔ False := by simp only [epv_cond, hr] <;> norm_num
  have r19 : EHEP.c19 p x t ↔ False := by simp only [epv_cond, hr] <;> norm_num
  have r20 : EHEP.c20 p x t ↔ False := by simp only [epv_cond, hr] <;> norm_num
  unfold EHEP.density EHEP.pressure EHEP.specific_internal_energy EHEP.sound_speed EHEP.velocity
  simp only [if_neg h0, if_neg h1, if_neg h2, if_neg h3, if_neg h4, if_neg h5, if_neg h6,
    r7, r9, r12, r14, r16, r18, r19, r20, if_true, if_false]
  by_cases hz : EHEP.c15 p x t
  · simp only [if_pos hz]
    simp only [epv_cond] at hz
    simp only [epv_leaf] at hz ⊢
    refine ⟨trivial, trivial, ?_, trivial, trivial⟩
    rw [hz]; simp
  · simp only [if_neg hz, and_self]
/-- region V -/
theorem region_V (p : EHEP.P) (x t : ℝ) (ha : Accepted p) (hr : p.region = 5) :
    EHEP.density p x t = EHEP.L17.density p x t ∧
    EHEP.pressure p x t = EHEP.L17.pressure p x t ∧
    EHEP.specific_internal_energy p x t = EHEP.L17.specific_internal_energy p x t ∧
    EHEP.sound_speed p x t = EHEP.L17.sound_speed p x t ∧
    EHEP.velocity p x t = EHEP.L17.velocity p x t := by
  obtain ⟨a0, a1, a2, a3, a4, a5, a6⟩ := ha
  have h0 : ¬ EHEP.c0 p x t := by simp only [epv_cond]; linarith
  have h1 : ¬ EHEP.c1 p x t := by simp only [epv_cond]; linarith
  have h2 : ¬ EHEP.c2 p x t := by simp only [epv_cond]; linarith
  have h3 : ¬ EHEP.c3 p x t := by simp only [epv_cond]; linarith
  have h4 : ¬ EHEP.c4 p x t := by simp only [epv_cond]; linarith
  have h5 : ¬ EHEP.c5 p x t := by simp only [epv_cond]; linarith
  have h6 : ¬ EHEP.c6 p x t := by simp only [epv_cond]; linarith
  have r7 : EHEP.c7 p x t ↔ False := by simp only [epv_cond, hr] <;> norm_num
  have r9 : EHEP.c9 p x t ↔ False := by simp only [epv_cond, hr] <;> norm_num
  have r12 : EHEP.c12 p x t ↔ False := by simp only [epv_cond, hr] <;> norm_num
  have r14 : EHEP.c14 p x t ↔ False := by simp only [epv_cond, hr] <;> norm_num
  have r16 : EHEP.c16 p x t ↔ True := by simp only [epv_cond, hr] <;> norm_num
  have r18 : EHEP.c18 p x t ↔ False := by simp only [epv_cond, hr] <;> norm_num
  have r19 : EHEP.c19 p x t ↔ False := by simp only [epv_cond, hr] <;> norm_num
  have r20 : EHEP.c20 p x t ↔ False := by simp only [epv_cond, hr] <;> norm_num
  unfold EHEP.density EHEP.pressure EHEP.specific_internal_energy EHEP.sound_speed EHEP.velocity
  simp only [if_neg h0, if_neg h1, if_neg h2, if_neg h3, if_neg h4, if_neg h5, if_neg h6,
    r7, r9, r12, r14, r16, r18, r19, r20, if_true, if_false]
  by_cases hz : EHEP.c17 p x t
  · simp only [if_pos hz]
    simp only [epv_cond] at hz
    simp only [epv_leaf] at hz ⊢
    refine ⟨trivial, trivial, ?_, trivial, trivial⟩
    rw [hz]; simp
  · simp only [if_neg hz, and_self]
/-- region II, unclamped branch (cs ≥ 0) -/
theorem region_II (p : EHEP.P) (x t : ℝ) (ha : Accepted p) (hr : p.region = 2)
    (hc : EHEP.c10 p x t) :
    EHEP.density p x t = EHEP.L22.density p x t ∧
    EHEP.pressure p x t = EHEP.L22.pressure p x t ∧
    EHEP.specific_internal_energy p x t = EHEP.L22.specific_internal_energy p x t ∧
    EHEP.sound_speed p x t = EHEP.L22.sound_speed p x t ∧
    EHEP.velocity p x t = EHEP.L22.velocity p x t := by
  obtain ⟨a0, a1, a2, a3, a4, a5, a6⟩ := ha
  have h0 : ¬ EHEP.c0 p x t := by simp only [epv_cond]; linarith
  have h1 : ¬ EHEP.c1 p x t := by simp only [epv_cond]; linarith
  have h2 : ¬ EHEP.c2 p x t := by simp only [epv_cond]; linarith
  have h3 : ¬ EHEP.c3 p x t := by simp only [epv_cond]; linarith
  have h4 : ¬ EHEP.c4 p x t := by simp only [epv_cond]; linarith
  have h5 : ¬ EHEP.c5 p x t := by simp only [epv_cond]; linarith
  have h6 : ¬ EHEP.c6 p x t := by simp only [epv_cond]; linarith
  have r7 : EHEP.c7 p x t ↔ False := by simp only [epv_cond, hr] <;> norm_num
  have r9 : EHEP.c9 p x t ↔ True := by simp only [epv_cond, hr] <;> norm_num
  have r12 : EHEP.c12 p x t ↔ False := by simp only [epv_cond, hr] <;> norm_num
  have r14 : EHEP.c14 p x t ↔ False := by simp only [epv_cond, hr] <;> norm_num
  have r16 : EHEP.c16 p x t ↔ False := by simp only [epv_cond, hr] <;> norm_num
  have r18 : EHEP.c18 p x t ↔ False := by simp only [epv_cond, hr] <;> norm_num
  have r19 : EHEP.c19 p x t ↔ False := by simp only [epv_cond, hr] <;> norm_num
  have r20 : EHEP.c20 p x t ↔ False := by simp only [epv_cond, hr] <;> norm_num
  unfold EHEP.density EHEP.pressure EHEP.specific_internal_energy EHEP.sound_speed EHEP.velocity
  simp only [if_neg h0, if_neg h1, if_neg h2, if_neg h3, if_neg h4, if_neg h5, if_neg h6,
    r7, r9, r12, r14, r16, r18, r19, r20, if_true, if_false]
  simp only [if_pos hc]
  by_cases hz : EHEP.c11 p x t
  · simp only [if_pos hz]
    simp only [epv_cond] at hz
    simp only [epv_leaf] at hz ⊢
    refine ⟨trivial, trivial, ?_, trivial, trivial⟩
    rw [hz]; simp
  · simp only [if_neg hz, and_self]
/-- region II, clamped branch (`max(…, 0)` returned 0): vacuum values, the velocity formula unchanged -/
theorem region_II_clamped (p : EHEP.P) (x t : ℝ) (ha : Accepted p) (hr : p.region = 2)
    (hc : ¬ EHEP.c10 p x t) :
    EHEP.density p x t = 0 ∧ EHEP.pressure p x t = 0 ∧ EHEP.specific_internal_energy p x t = 0 ∧
    EHEP.sound_speed p x t = 0 ∧
    EHEP.velocity p x t = EHEP.L20.velocity p x t := by
  obtain ⟨a0, a1, a2, a3, a4, a5, a6⟩ := ha
  have h0 : ¬ EHEP.c0 p x t := by simp only [epv_cond]; linarith
  have h1 : ¬ EHEP.c1 p x t := by simp only [epv_cond]; linarith
  have h2 : ¬ EHEP.c2 p x t := by simp only [epv_cond]; linarith
  have h3 : ¬ EHEP.c3 p x t := by simp only [epv_cond]; linarith
  have h4 : ¬ EHEP.c4 p x t := by simp only [epv_cond]; linarith
  have h5 : ¬ EHEP.c5 p x t := by simp only [epv_cond]; linarith
  have h6 : ¬ EHEP.c6 p x t := by simp only [epv_cond]; linarith
  have r7 : EHEP.c7 p x t ↔ False := by simp only [epv_cond, hr] <;> norm_num
  have r9 : EHEP.c9 p x t ↔ True := by simp only [epv_cond, hr] <;> norm_num
  have r12 : EHEP.c12 p x t ↔ False := by simp only [epv_cond, hr] <;> norm_num
  have r14 : EHEP.c14 p x t ↔ False := by simp only [epv_cond, hr] <;> norm_num
  have r16 : EHEP.c16 p x t ↔ False := by simp only [epv_cond, hr] <;> norm_num
  have r18 : EHEP.c18 p x t ↔ False := by simp only [epv_cond, hr] <;> norm_num
  have r19 : EHEP.c19 p x t ↔ False := by simp only [epv_cond, hr] <;> norm_num
  have r20 : EHEP.c20 p x t ↔ False := by simp only [epv_cond, hr] <;> norm_num
  unfold EHEP.density EHEP.pressure EHEP.specific_internal_energy EHEP.sound_speed EHEP.velocity
  simp only [if_neg h0, if_neg h1, if_neg h2, if_neg h3, if_neg h4, if_neg h5, if_neg h6,
    r7, r9, r12, r14, r16, r18, r19, r20, if_true, if_false]
  simp only [if_neg hc]
  have hz : EHEP.c22 p x t := by simp only [epv_cond]; simp
  simp only [if_pos hz, epv_leaf]
  simp
/-- region '00': vacuum -/
theorem region_00 (p : EHEP.P) (x t : ℝ) (ha : Accepted p) (hr : p.region = 6) :
    EHEP.density p x t = 0 ∧ EHEP.pressure p x t = 0 ∧ EHEP.specific_internal_energy p x t = 0 ∧
    EHEP.sound_speed p x t = 0 ∧ EHEP.velocity p x t = 0 := by
  obtain ⟨a0, a1, a2, a3, a4, a5, a6⟩ := ha
  have h0 : ¬ EHEP.c0 p x t := by simp only [epv_cond]; linarith
  have h1 : ¬ EHEP.c1 p x t := by simp only [epv_cond]; linarith
  have h2 : ¬ EHEP.c2 p x t := by simp only [epv_cond]; linarith
  have h3 : ¬ EHEP.c3 p x t := by simp only [epv_cond]; linarith
  have h4 : ¬ EHEP.c4 p x t := by simp only [epv_cond]; linarith
  have h5 : ¬ EHEP.c5 p x t := by simp only [epv_cond]; linarith
  have h6 : ¬ EHEP.c6 p x t := by simp only [epv_cond]; linarith
  have r7 : EHEP.c7 p x t ↔ False := by simp only [epv_cond, hr] <;> norm_num
  have r9 : EHEP.c9 p x t ↔ False := by simp only [epv_cond, hr] <;> norm_num
  have r12 : EHEP.c12 p x t ↔ False := by simp only [epv_cond, hr] <;> norm_num
  have r14 : EHEP.c14 p x t ↔ False := by simp only [epv_cond, hr] <;> norm_num
  have r16 : EHEP.c16 p x t ↔ False := by simp only [epv_cond, hr] <;> norm_num
  have r18 : EHEP.c18 p x t ↔ True := by simp only [epv_cond, hr] <;> norm_num
  have r19 : EHEP.c19 p x t ↔ False := by simp only [epv_cond, hr] <;> norm_num
  have r20 : EHEP.c20 p x t ↔ False := by simp only [epv_cond, hr] <;> norm_num
  unfold EHEP.density EHEP.pressure EHEP.specific_internal_energy EHEP.sound_speed EHEP.velocity
  simp only [if_neg h0, if_neg h1, if_neg h2, if_neg h3, if_neg h4, if_neg h5, if_neg h6,
    r7, r9, r12, r14, r16, r18, r19, r20, if_true, if_false]
  simp only [epv_leaf, and_self]
/-- region '0V': vacuum -/
theorem region_0V (p : EHEP.P) (x t : ℝ) (ha : Accepted p) (hr : p.region = 7) :
    EHEP.density p x t = 0 ∧ EHEP.pressure p x t = 0 ∧ EHEP.specific_internal_energy p x t = 0 ∧
    EHEP.sound_speed p x t = 0 ∧ EHEP.velocity p x t = 0 := by
  obtain ⟨a0, a1, a2, a3, a4, a5, a6⟩ := ha
  have h0 : ¬ EHEP.c0 p x t := by simp only [epv_cond]; linarith
  have h1 : ¬ EHEP.c1 p x t := by simp only [epv_cond]; linarith
  have h2 : ¬ EHEP.c2 p x t := by simp only [epv_cond]; linarith
  have h3 : ¬ EHEP.c3 p x t := by simp only [epv_cond]; linarith
  have h4 : ¬ EHEP.c4 p x t := by simp only [epv_cond]; linarith
  have h5 : ¬ EHEP.c5 p x t := by simp only [epv_cond]; linarith
  have h6 : ¬ EHEP.c6 p x t := by simp only [epv_cond]; linarith
  have r7 : EHEP.c7 p x t ↔ False := by simp only [epv_cond, hr] <;> norm_num
  have r9 : EHEP.c9 p x t ↔ False := by simp only [epv_cond, hr] <;> norm_num
  have r12 : EHEP.c12 p x t ↔ False := by simp only [epv_cond, hr] <;> norm_num
  have r14 : EHEP.c14 p x t ↔ False := by simp only [epv_cond, hr] <;> norm_num
  have r16 : EHEP.c16 p x t ↔ False := by simp only [epv_cond, hr] <;> norm_num
  have r18 : EHEP.c18 p x t ↔ False := by simp only [epv_cond, hr] <;> norm_num
  have r19 : EHEP.c19 p x t ↔ True := by simp only [epv_cond, hr] <;> norm_num
  have r20 : EHEP.c20 p x t ↔ False := by simp only [epv_cond, hr] <;> norm_num
  unfold EHEP.density EHEP.pressure EHEP.specific_internal_energy EHEP.sound_speed EHEP.velocity
  simp only [if_neg h0, if_neg h1, if_neg h2, if_neg h3, if_neg h4, if_neg h5, if_neg h6,
    r7, r9, r12, r14, r16, r18, r19, r20, if_true, if_false]
  simp only [epv_leaf, and_self]
/-- region '0H': undisturbed explosive -/
theorem region_0H (p : EHEP.P) (x t : ℝ) (ha : Accepted p) (hr : p.region = 8) :
    EHEP.density p x t = p.rho_0 ∧ EHEP.pressure p x t = 0 ∧ EHEP.specific_internal_energy p x t = 0 ∧
    EHEP.sound_speed p x t = 0 ∧ EHEP.velocity p x t = 0 := by
  obtain ⟨a0, a1, a2, a3, a4, a5, a6⟩ := ha
  have h0 : ¬ EHEP.c0 p x t := by simp only [epv_cond]; linarith
  have h1 : ¬ EHEP.c1 p x t := by simp only [epv_cond]; linarith
  have h2 : ¬ EHEP.c2 p x t := by simp only [epv_cond]; linarith
  have h3 : ¬ EHEP.c3 p x t := by simp only [epv_cond]; linarith
  have h4 : ¬ EHEP.c4 p x t := by simp only [epv_cond]; linarith
  have h5 : ¬ EHEP.c5 p x t := by simp only [epv_cond]; linarith
  have h6 : ¬ EHEP.c6 p x t := by simp only [epv_cond]; linarith
  have r7 : EHEP.c7 p x t ↔ False := by simp only [epv_cond, hr] <;> norm_num
  have r9 : EHEP.c9 p x t ↔ False := by simp only [epv_cond, hr] <;> norm_num
  have r12 : EHEP.c12 p x t ↔ False := by simp only [epv_cond, hr] <;> norm_num
  have r14 : EHEP.c14 p x t ↔ False := by simp only [epv_cond, hr] <;> norm_num
  have r16 : EHEP.c16 p x t ↔ False := by simp only [epv_cond, hr] <;> norm_num
  have r18 : EHEP.c18 p x t ↔ False := by simp only [epv_cond, hr] <;> norm_num
  have r19 : EHEP.c19 p x t ↔ False := by simp only [epv_cond, hr] <;> norm_num
  have r20 : EHEP.c20 p x t ↔ True := by simp only [epv_cond, hr] <;> norm_num
  unfold EHEP.density EHEP.pressure EHEP.specific_internal_energy EHEP.sound_speed EHEP.velocity
  simp only [if_neg h0, if_neg h1, if_neg h2, if_neg h3, if_neg h4, if_neg h5, if_neg h6,
    r7, r9, r12, r14, r16, r18, r19, r20, if_true, if_false]
  have hz : ¬ EHEP.c21 p x t := by simp only [epv_cond]; exact a1.ne'
  simp only [if_neg hz, epv_leaf]
  simp
/-- outside every polygon (`region = None`): zeros -/
theorem region_none (p : EHEP.P) (x t : ℝ) (ha : Accepted p)
    (hr : p.region ≠ 1 ∧ p.region ≠ 2 ∧ p.region ≠ 3 ∧ p.region ≠ 4 ∧ p.region ≠ 5 ∧ p.region ≠ 6 ∧ p.region ≠ 7 ∧ p.region ≠ 8) :
    EHEP.density p x t = 0 ∧ EHEP.pressure p x t = 0 ∧ EHEP.specific_internal_energy p x t = 0 ∧
    EHEP.sound_speed p x t = 0 ∧ EHEP.velocity p x t = 0 := by
  obtain ⟨a0, a1, a2, a3, a4, a5, a6⟩ := ha
  have h0 : ¬ EHEP.c0 p x t := by simp only [epv_cond]; linarith
  have h1 : ¬ EHEP.c1 p x t := by simp only [epv_cond]; linarith
  have h2 : ¬ EHEP.c2 p x t := by simp only [epv_cond]; linarith
  have h3 : ¬ EHEP.c3 p x t := by simp only [epv_cond]; linarith
  have h4 : ¬ EHEP.c4 p x t := by simp only [epv_cond]; linarith
  have h5 : ¬ EHEP.c5 p x t := by simp only [epv_cond]; linarith
  have h6 : ¬ EHEP.c6 p x t := by simp only [epv_cond]; linarith
  have r7 : EHEP.c7 p x t ↔ False := by simp only [epv_cond]; exact iff_false_intro hr.1
  have r9 : EHEP.c9 p x t ↔ False := by simp only [epv_cond]; exact iff_false_intro hr.2.1
  have r12 : EHEP.c12 p x t ↔ False := by simp only [epv_cond]; exact iff_false_intro hr.2.2.1
  have r14 : EHEP.c14 p x t ↔ False := by simp only [epv_cond]; exact iff_false_intro hr.2.2.2.1
  have r16 : EHEP.c16 p x t ↔ False := by simp only [epv_cond]; exact iff_false_intro hr.2.2.2.2.1
  have r18 : EHEP.c18 p x t ↔ False := by simp only [epv_cond]; exact iff_false_intro hr.2.2.2.2.2.1
  have r19 : EHEP.c19 p x t ↔ False := by simp only [epv_cond]; exact iff_false_intro hr.2.2.2.2.2.2.1
  have r20 : EHEP.c20 p x t ↔ False := by simp only [epv_cond]; exact iff_false_intro hr.2.2.2.2.2.2.2
  unfold EHEP.density EHEP.pressure EHEP.specific_internal_energy EHEP.sound_speed EHEP.velocity
  simp only [if_neg h0, if_neg h1, if_neg h2, if_neg h3, if_neg h4, if_neg h5, if_neg h6,
    r7, r9, r12, r14, r16, r18, r19, r20, if_true, if_false]
  simp only [epv_leaf, and_self]
end EPV.EHEPL
