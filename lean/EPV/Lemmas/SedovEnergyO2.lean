/-
Sedov (C11 growth, wp sedov3): the two energy integrals for special_singularity omega2 (generated
model SedovFuncsO2, leaf 1) at the exactly special ω = (2(γ-1)+k)/γ — always the vacuum solution type.
Same argument as `Lemmas/SedovEnergyVac.lean` with the omega2 closed forms: the pressure function
h = x1^(a0 k) x2^(pp4) x4^(1+a5) is continuous on [v2, vv] (1 + a5 > 0), the kinetic integrand is
integrable by the exact mass differential `Mass.M2_hasDerivAt` of wp sedov2 (g ~ x4^a5, a5 > -1); the
essential singularity exp(c/(v - v0)) of the closed form lies outside the vacuum branch.
-/
import EPV.Lemmas.SedovEnergy
import EPV.Lemmas.SedovMassO2

set_option linter.all false
set_option maxRecDepth 100000

open EPV EPV.Gen EPV.Spec.Sedov EPV.Spec.SedovODE MeasureTheory Set

namespace EPV.Sedov.Energy

noncomputable section

/-- the coded `dlamdv` is the generated derivative of the coded λ (omega2, leaf 1) -/
theorem dlamdv_eq2 (p : SedovFuncsO2.P) (v : ℝ) (B : O2.Bases p v) :
    SedovFuncsO2.L1.dlamdv p v = SedovFuncsO2.L1.l_fun_dv p v := by
  obtain ⟨hs1, hs2, hs4, hs3⟩ := B
  simp only [epv_semi_deriv, epv_semi_leaf]
  generalize Real.exp ((p.gamp1 * ((1 : ℝ) / ((2 : ℝ) * p.e_val))) * (((1 : ℝ) - (p.a_val * v)) * ((1 : ℝ) / ((p.a_val * v) - ((((1 : ℝ) / 2) * p.gamp1) / p.gamma))))) = Ex
  generalize (p.b_val * ((p.c_val * v) - (1 : ℝ))) ^ (p.gamm1 * ((1 : ℝ) / ((2 : ℝ) * p.e_val))) = Bq
  generalize (p.a_val * v) ^ (-p.a0) = A
  generalize (1 : ℝ) / ((2 : ℝ) * p.e_val) = β
  generalize hD : (p.a_val * v) - ((((1 : ℝ) / 2) * p.gamp1) / p.gamma) = D
  have hD0 : D ≠ 0 := by rw [← hD]; simpa using hs3
  have h1 := hs1.ne'; have h2 := hs2.ne'
  have h4 : p.a_val ≠ 0 := left_ne_zero_of_mul h1
  have h5 : p.b_val ≠ 0 := left_ne_zero_of_mul h2
  field_simp
  ring

theorem h_pos2 (p : SedovFuncsO2.P) (v : ℝ) (B : O2.Bases p v) : 0 < SedovFuncsO2.L1.h_fun p v := by
  simp only [epv_semi_leaf]
  exact mul_pos (mul_pos (Real.rpow_pos_of_pos B.x1 _) (Real.rpow_pos_of_pos B.x2 _)) (Real.rpow_pos_of_pos B.x4 _)

theorem efun01_eq2 (p : SedovFuncsO2.P) (v : ℝ) (B : O2.Bases p v) (kn : ℕ) (hgeo : p.geometry = kn) (h1 : 1 ≤ kn) :
    SedovFuncsO2.L1.efun01 p v = p.gpogm / p.a_val ^ 2
      * psi1 (SedovFuncsO2.L1.l_fun p) (SedovFuncsO2.L1.l_fun_dv p) (SedovFuncsO2.L1.g_fun p) (fun v => p.a_val * v) kn v := by
  have he : SedovFuncsO2.L1.efun01 p v = SedovFuncsO2.L1.dlamdv p v * SedovFuncsO2.L1.l_fun p v ^ (p.geometry + 1) * p.gpogm
      * SedovFuncsO2.L1.g_fun p v * v ^ 2 := by
    simp only [epv_semi_leaf]
  have hl := O2.l_pos p v B
  have ha : p.a_val ≠ 0 := left_ne_zero_of_mul B.x1.ne'
  have hpow : SedovFuncsO2.L1.l_fun p v ^ (p.geometry + 1) = SedovFuncsO2.L1.l_fun p v ^ (kn - 1) * SedovFuncsO2.L1.l_fun p v ^ 2 := by
    have e : p.geometry + 1 = ((kn - 1 : ℕ) : ℝ) + ((2 : ℕ) : ℝ) := by
      rw [hgeo, Nat.cast_sub h1]; push_cast; ring
    rw [e, Real.rpow_add hl, Real.rpow_natCast, Real.rpow_natCast]
  rw [he, hpow, dlamdv_eq2 p v B]
  simp only [psi1]
  field_simp

theorem efun02_eq2 (p : SedovFuncsO2.P) (v : ℝ) (B : O2.Bases p v) (kn : ℕ) (hgeo : p.geometry = kn) (h1 : 1 ≤ kn) :
    SedovFuncsO2.L1.efun02 p v = 8 / ((p.geometry + 2 - p.omega) ^ 2 * p.gamp1)
      * psi2 (SedovFuncsO2.L1.l_fun p) (SedovFuncsO2.L1.l_fun_dv p) (SedovFuncsO2.L1.h_fun p) kn v := by
  have he : SedovFuncsO2.L1.efun02 p v = SedovFuncsO2.L1.dlamdv p v * SedovFuncsO2.L1.l_fun p v ^ (p.geometry - 1)
      * SedovFuncsO2.L1.h_fun p v * (8 / ((p.geometry + 2 - p.omega) ^ 2 * p.gamp1)) := by
    simp only [epv_semi_leaf]
  have hpow : SedovFuncsO2.L1.l_fun p v ^ (p.geometry - 1) = SedovFuncsO2.L1.l_fun p v ^ (kn - 1) := by
    have e : p.geometry - 1 = ((kn - 1 : ℕ) : ℝ) := by rw [hgeo, Nat.cast_sub h1]; push_cast; ring
    rw [e, Real.rpow_natCast]
  rw [he, hpow, dlamdv_eq2 p v B]
  simp only [psi2]
  ring

/-- the pressure similarity function (omega2) is continuous on the closed vacuum branch -/
theorem h_continuousOn2 {p : SedovFuncsO2.P} (s : Set ℝ) (hs : ∀ v ∈ s, Mass.VacBases2 p v) (ha5 : 0 < p.a5 + 1) :
    ContinuousOn (SedovFuncsO2.L1.h_fun p) s := by
  rw [(funext (EPV.Bridge.Semi.SedovFuncsO2_L1_h_fun p) : SedovFuncsO2.L1.h_fun p = _)]
  refine (ContinuousOn.mul (ContinuousOn.rpow_const (by fun_prop) ?_) (ContinuousOn.rpow_const (by fun_prop) ?_)).mul
    (ContinuousOn.rpow_const (by fun_prop) ?_)
  · intro v hv; exact Or.inl (hs v hv).x1.ne'
  · intro v hv; exact Or.inl (hs v hv).x2.ne'
  · intro v hv; exact Or.inr (by linarith)

theorem leaf1_of_interior2 (p : SedovFuncsO2.P) (v : ℝ) (h0 : ¬ SedovFuncsO2.c0 p v) (h1 : SedovFuncsO2.c1 p v) :
    SedovFuncsO2.leaf p v = 1 ∧ SedovFuncsO2.efun01 p v = SedovFuncsO2.L1.efun01 p v
      ∧ SedovFuncsO2.efun02 p v = SedovFuncsO2.L1.efun02 p v := by
  simp only [epv_tree, h0, h1, if_false, if_true, and_self]

/-- the (vacuum) branch of SedovFuncsO2 at the exactly special ω is a `Branch` -/
theorem o2_branch {p : SedovFuncsO2.P} {γ ω : ℝ} (kn : ℕ) (h1 : 1 ≤ kn) (hC : O2Consts p γ kn ω)
    (P : Params γ kn ω) (hω2 : K.denom2 γ kn ω = 0) :
    Branch (v2 γ kn ω) (vv kn ω) (SedovFuncsO2.L1.l_fun p) (SedovFuncsO2.L1.l_fun_dv p) (SedovFuncsO2.L1.g_fun p)
      (SedovFuncsO2.L1.h_fun p) (fun v => p.a_val * v) kn := by
  set k : ℝ := (kn : ℝ) with hk
  have htype := Mass.o2_is_vacuum P hω2
  have hX := P.X_pos; have hγ := P.hγ
  have hγ0 := P.γ_pos
  have hab : v2 γ k ω < vv k ω := by
    unfold v2 vv
    rw [div_lt_div_iff₀ (mul_pos hX (by linarith)) hX]
    nlinarith
  have hcl : ∀ v ∈ Icc (v2 γ k ω) (vv k ω), Mass.VacClosed γ k ω v := fun v hv => ⟨P, htype, hv.1, hv.2⟩
  have hS0 := (hcl _ (left_mem_Icc.mpr hab.le)).signs
  have hd3neg := Mass.denom3_neg hS0 P.hk
  have ha5 := Mass.one_add_a5_pos2 hC P hd3neg
  have hVB : ∀ v ∈ Icc (v2 γ k ω) (vv k ω), Mass.VacBases2 p v := fun v hv => Mass.vacBases2 hC (hcl v hv).signs
  have hint : ∀ v ∈ Ioo (v2 γ k ω) (vv k ω), O2.Signs γ k ω v := fun v hv =>
    (VacInterior.toSigns ⟨P, htype, hv.1, hv.2⟩).toO2
  have hB : ∀ v ∈ Ioo (v2 γ k ω) (vv k ω), O2.Bases p v := fun v hv => O2.bases hC (hint v hv) hω2
  exact
    { hab := hab
      h1 := h1
      Lc := Mass.l_continuousOn2 _ hVB
      Ld := fun v hv => (O2.hasDerivAt p v (hB v hv)).1
      Lpos := fun v hv => O2.l_pos p v (hB v hv)
      Gnn := fun v hv => (O2.g_pos p v (hB v hv)).le
      Ki := mass_integrable_of_exact_nonpos hab.le (κ := k - ω) (Mf := Mass.M2 p (k + 2 - ω) kn) (by linarith [P.hωk])
        (by rw [← hC.xg2]
            exact (Mass.Mv2_continuousOn kn _ hVB ha5).congr (fun v hv => Mass.M2_eq_Mv2 (hVB v hv) kn ha5))
        (fun v hv => Mass.M2_hasDerivAt hC (hint v hv) hω2 kn rfl h1)
        (fun v hv => mul_nonpos_of_nonneg_of_nonpos
          (mul_nonneg (O2.g_pos p v (hB v hv)).le (pow_nonneg (O2.l_pos p v (hB v hv)).le _))
          (O2.l_dv_neg hC (hint v hv) hω2).le)
      Ac := by fun_prop
      Hc := h_continuousOn2 _ hVB ha5 }

/-- **The two energy integrals, special_singularity omega2** (exactly special ω; vacuum type) -/
theorem eval_o2 {p : SedovFuncsO2.P} {γ ω : ℝ} (kn : ℕ) (h1 : 1 ≤ kn) (hC : O2Consts p γ kn ω)
    (P : Params γ kn ω) (hω2 : K.denom2 γ kn ω = 0) (f g h : ℝ → ℝ)
    (hf : ∀ v ∈ Ioo (v2 γ kn ω) (vv kn ω), f (SedovFuncsO2.L1.l_fun p v) = SedovFuncsO2.L1.f_fun p v)
    (hg : ∀ v ∈ Ioo (v2 γ kn ω) (vv kn ω), g (SedovFuncsO2.L1.l_fun p v) = SedovFuncsO2.L1.g_fun p v)
    (hh : ∀ v ∈ Ioo (v2 γ kn ω) (vv kn ω), h (SedovFuncsO2.L1.l_fun p v) = SedovFuncsO2.L1.h_fun p v)
    (hgh : ∀ x ∈ Ioo 0 (SedovFuncsO2.L1.l_fun p (vv kn ω)), g x = 0)
    (hhh : ∀ x ∈ Ioo 0 (SedovFuncsO2.L1.l_fun p (vv kn ω)), h x = 0) :
    IntervalIntegrable (fun x => g x * f x ^ 2 * x ^ (kn - 1)) volume 0 1 ∧
    IntervalIntegrable (fun x => h x * x ^ (kn - 1)) volume 0 1 ∧
    ∫ v in (vv kn ω)..(v2 γ kn ω), SedovFuncsO2.L1.efun01 p v = eval1 kn γ ω f g ∧
    ∫ v in (vv kn ω)..(v2 γ kn ω), SedovFuncsO2.L1.efun02 p v = eval2 kn γ ω h ∧
    0 ≤ eval1 kn γ ω f g ∧ 0 < eval2 kn γ ω h := by
  have Br := o2_branch kn h1 hC P hω2
  set k : ℝ := (kn : ℝ) with hk
  have htype := Mass.o2_is_vacuum P hω2
  have hγ := P.hγ; have hX := P.X_pos
  have hint : ∀ v ∈ Ioo (v2 γ k ω) (vv k ω), O2.Signs γ k ω v := fun v hv =>
    (VacInterior.toSigns ⟨P, htype, hv.1, hv.2⟩).toO2
  have hB : ∀ v ∈ Ioo (v2 γ k ω) (vv k ω), O2.Bases p v := fun v hv => O2.bases hC (hint v hv) hω2
  have hcl : ∀ v ∈ Icc (v2 γ k ω) (vv k ω), Mass.VacClosed γ k ω v := fun v hv => ⟨P, htype, hv.1, hv.2⟩
  have hL' : ∀ v ∈ Ioo (v2 γ k ω) (vv k ω), SedovFuncsO2.L1.l_fun_dv p v < 0 :=
    fun v hv => O2.l_dv_neg hC (hint v hv) hω2
  have hf' : ∀ v ∈ Ioo (v2 γ k ω) (vv k ω), f (SedovFuncsO2.L1.l_fun p v) = p.a_val * v * SedovFuncsO2.L1.l_fun p v := by
    intro v hv; rw [hf v hv]; simp only [epv_semi_leaf]
  obtain ⟨⟨I1, E1⟩, ⟨I2, E2⟩⟩ := branch_anti Br hL' f g h hf' hg hh
  obtain ⟨N1, N2⟩ := Br.pos_anti hL' (fun v hv => h_pos2 p v (hB v hv))
  rw [(Mass.at_v2_2 hC P).1] at I1 E1 I2 E2
  have hBvv := Mass.vacBases2 hC (hcl _ (right_mem_Icc.mpr Br.hab.le)).signs
  have hlvv_pos : 0 < SedovFuncsO2.L1.l_fun p (vv k ω) := by
    simp only [epv_semi_leaf]
    exact mul_pos (mul_pos (Real.rpow_pos_of_pos hBvv.x1 _) (Real.rpow_pos_of_pos hBvv.x2 _)) (Real.exp_pos _)
  have hlvv_le : SedovFuncsO2.L1.l_fun p (vv k ω) ≤ 1 := by
    have hanti : AntitoneOn (SedovFuncsO2.L1.l_fun p) (Icc (v2 γ k ω) (vv k ω)) := by
      apply antitoneOn_of_deriv_nonpos (convex_Icc _ _) Br.Lc
      · rw [interior_Icc]; exact fun z hz => (Br.Ld z hz).differentiableAt.differentiableWithinAt
      · rw [interior_Icc]; intro z hz; rw [(Br.Ld z hz).deriv]; exact (hL' z hz).le
    have := hanti (left_mem_Icc.mpr Br.hab.le) (right_mem_Icc.mpr Br.hab.le) Br.hab.le
    rwa [(Mass.at_v2_2 hC P).1] at this
  obtain ⟨J1i, J1e⟩ := extend_hole (φ := fun x => g x * f x ^ 2 * x ^ (kn - 1)) hlvv_pos hlvv_le
    (fun x hx => by simp only [hgh x hx, zero_mul]) I1
  obtain ⟨J2i, J2e⟩ := extend_hole (φ := fun x => h x * x ^ (kn - 1)) hlvv_pos hlvv_le
    (fun x hx => by simp only [hhh x hx, zero_mul]) I2
  have hq1 : ∫ v in (vv k ω)..(v2 γ k ω), SedovFuncsO2.L1.efun01 p v = p.gpogm / p.a_val ^ 2
      * ∫ v in (vv k ω)..(v2 γ k ω), psi1 (SedovFuncsO2.L1.l_fun p) (SedovFuncsO2.L1.l_fun_dv p) (SedovFuncsO2.L1.g_fun p)
          (fun v => p.a_val * v) kn v := by
    rw [← intervalIntegral.integral_const_mul, intervalIntegral.integral_symm, intervalIntegral.integral_symm (v2 γ k ω),
      intervalIntegral.integral_of_le Br.hab.le,
      intervalIntegral.integral_of_le Br.hab.le, integral_Ioc_eq_integral_Ioo, integral_Ioc_eq_integral_Ioo]
    congr 1
    exact setIntegral_congr_fun measurableSet_Ioo (fun v hv => efun01_eq2 p v (hB v hv) kn hC.geometry h1)
  have hq2 : ∫ v in (vv k ω)..(v2 γ k ω), SedovFuncsO2.L1.efun02 p v = 8 / ((p.geometry + 2 - p.omega) ^ 2 * p.gamp1)
      * ∫ v in (vv k ω)..(v2 γ k ω), psi2 (SedovFuncsO2.L1.l_fun p) (SedovFuncsO2.L1.l_fun_dv p) (SedovFuncsO2.L1.h_fun p) kn v := by
    rw [← intervalIntegral.integral_const_mul, intervalIntegral.integral_symm, intervalIntegral.integral_symm (v2 γ k ω),
      intervalIntegral.integral_of_le Br.hab.le,
      intervalIntegral.integral_of_le Br.hab.le, integral_Ioc_eq_integral_Ioo, integral_Ioc_eq_integral_Ioo]
    congr 1
    exact setIntegral_congr_fun measurableSet_Ioo (fun v hv => efun02_eq2 p v (hB v hv) kn hC.geometry h1)
  have hc1 : p.gpogm / p.a_val ^ 2 = ((γ + 1) / (γ - 1)) / ((1 / 4) * (k + 2 - ω) * (γ + 1)) ^ 2 := by
    rw [hC.gpogm, hC.a_val]; rfl
  have hc2 : 8 / ((p.geometry + 2 - p.omega) ^ 2 * p.gamp1) = 8 / ((k + 2 - ω) ^ 2 * (γ + 1)) := by
    rw [hC.geometry, hC.omega, hC.gamp1]
  have hc1pos : 0 < ((γ + 1) / (γ - 1)) / ((1 / 4) * (k + 2 - ω) * (γ + 1)) ^ 2 := by
    have : 0 < γ - 1 := by linarith
    positivity
  have hc2pos : 0 < 8 / ((k + 2 - ω) ^ 2 * (γ + 1)) := by
    have : 0 < γ + 1 := by linarith
    positivity
  refine ⟨J1i, J2i, ?_, ?_, ?_, ?_⟩
  · rw [hq1, hc1, ← E1, ← J1e]; rfl
  · rw [hq2, hc2, ← E2, ← J2e]; rfl
  · unfold eval1 J1; rw [J1e, E1]; exact mul_nonneg hc1pos.le N1
  · unfold eval2 J2; rw [J2e, E2]; exact mul_pos hc2pos N2

/-- non-vacuity of the root-finder atom (omega2, vacuum type) -/
theorem exists_funcs_o2 {p : SedovFuncsO2.P} {γ ω : ℝ} (kn : ℕ) (h1 : 1 ≤ kn) (hC : O2Consts p γ kn ω)
    (P : Params γ kn ω) (hω2 : K.denom2 γ kn ω = 0) :
    ∃ f g h : ℝ → ℝ,
      (∀ v ∈ Ioo (v2 γ kn ω) (vv kn ω), f (SedovFuncsO2.L1.l_fun p v) = SedovFuncsO2.L1.f_fun p v) ∧
      (∀ v ∈ Ioo (v2 γ kn ω) (vv kn ω), g (SedovFuncsO2.L1.l_fun p v) = SedovFuncsO2.L1.g_fun p v) ∧
      (∀ v ∈ Ioo (v2 γ kn ω) (vv kn ω), h (SedovFuncsO2.L1.l_fun p v) = SedovFuncsO2.L1.h_fun p v) ∧
      (∀ x ∈ Ioo 0 (SedovFuncsO2.L1.l_fun p (vv kn ω)), g x = 0) ∧
      (∀ x ∈ Ioo 0 (SedovFuncsO2.L1.l_fun p (vv kn ω)), h x = 0) := by
  have Br := o2_branch kn h1 hC P hω2
  have htype := Mass.o2_is_vacuum P hω2
  have hL' : ∀ v ∈ Ioo (v2 γ kn ω) (vv kn ω), SedovFuncsO2.L1.l_fun_dv p v < 0 :=
    fun v hv => O2.l_dv_neg hC (VacInterior.toSigns ⟨P, htype, hv.1, hv.2⟩).toO2 hω2
  obtain ⟨hinj, hhole⟩ := Br.injOn_anti hL'
  obtain ⟨f, g, h, hf, hg, hh, hz⟩ := exists_param_functions hinj (SedovFuncsO2.L1.f_fun p)
    (SedovFuncsO2.L1.g_fun p) (SedovFuncsO2.L1.h_fun p)
  exact ⟨f, g, h, hf, hg, hh, fun x hx => (hz x (hhole x hx)).1, fun x hx => (hz x (hhole x hx)).2⟩

end

end EPV.Sedov.Energy
