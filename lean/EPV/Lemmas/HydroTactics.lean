/-
Tactics shared by the C17 / C20 theorems about the closed-form hydro solvers.  All of them work on the simp sets
the generator registers (tree / leaf / cond), never on leaf numbers.
-/
import EPV.Spec.AdmissibleHydro
import EPV.Lemmas.HydroRobust
import EPV.Tactics

set_option linter.all false

open EPV EPV.Gen EPV.Spec.AdmissibleHydro

/-- on every `ok` leaf: unfold, then `positivity` (sign facts come from the hypotheses in context) -/
macro "epv_positivity" : tactic =>
  `(tactic| (simp only [epv_tree] at *
             (try split_ifs at *) <;> first
               | epv_absurd
               | (simp only [epv_leaf, epv_cond, not_le, not_lt] at *
                  first
                  | positivity
                  | (epv_hydro_pos_facts; positivity)
                  | (simp only [mul_assoc, ← sq]; positivity)
                  | (epv_hydro_pos_facts; simp only [mul_assoc, ← sq]; positivity)
                  | (ring_nf; positivity))))


/-- go to the leaf the hypotheses select: split the tree, refute the other paths by linear arithmetic,
leave the leaf-level goal(s) -/
macro "epv_select" : tactic =>
  `(tactic| (simp only [epv_tree]
             (try split_ifs) <;> (try simp only [epv_cond, not_lt, not_le] at *) <;>
             first | (exfalso; linarith) | skip))

/-- the time domain read off `outcome = ok` -/
macro "epv_domain " h:ident : tactic =>
  `(tactic| (simp only [epv_tree] at $h:ident
             split_ifs at $h:ident <;> (try simp only [epv_cond, not_lt, not_le] at *) <;>
             first | (exact absurd $h (by decide)) | linarith))

/-- acceptance tree against the catalogue: split the tree, decide each path -/
macro "init_iff" : tactic =>
  `(tactic| (simp only [epv_tree, Geom123, Geom23, Noh.Documented, Noh2.Documented, Noh2Cog.Documented,
               Cog1.Documented, Cog2.Documented, Cog3.Documented, Cog4.Documented, Cog5.Documented, Cog6.Documented,
               Cog7.Documented, Cog8.Documented, Cog9.Documented, Cog10.Documented, Cog11.Documented,
               Cog12.Documented, Cog13.Documented, Cog14.Documented, Cog16.Documented, Cog17.Documented,
               Cog18.Documented, Cog19.Documented, Cog20.Documented, Cog21.Documented] <;>
             (try split_ifs) <;> (try simp only [epv_cond, not_lt, not_le] at *) <;>
             first
             | (simp_all; done)
             | (constructor <;> intro h <;> simp_all <;> (try constructor) <;> (try linarith) <;> (try norm_num) <;>
                 (try (intro hb; norm_num [hb] at *)))))

/-- every leaf of a constructor tree is `ok` or `raise ValueError` -/
macro "init_loud" : tactic =>
  `(tactic| (simp only [epv_tree] <;> (try split_ifs) <;> simp))

/-- split a `WellDefined` conjunction and discharge every side condition by `positivity` -/
macro "well_defined" : tactic =>
  `(tactic| ((repeat' constructor) <;> first | positivity | epv_hydro_side))
