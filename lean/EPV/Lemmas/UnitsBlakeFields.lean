/-
C08 (Blake), lemmas: dimensional analysis of `Blake._run` leaf by leaf.  The closed form of leaf 1 is derived once
for the two primitive fields (displacement, radial strain); the other eleven fields of that leaf are the
code's own combinations of these two (equalities of the unfolded leaf expressions up to ring normalisation,
so they survive a rewrite of the combination, e.g. `-third * s` ↔ `-(s / 3)`), so their dimensions follow from the
facts already derived.  Leaves 2 and 3 return the undisturbed state.
-/
import EPV.Lemmas.UnitsBlake
import EPV.Lemmas.Bridge.DetonTactics

set_option linter.all false

open EPV EPV.Gen EPV.Spec EPV.Spec.UnitsBlake

namespace EPV.UnitsBlake

variable (σ : Scaling) (p : BlakeFields.P) (r t : ℝ)

theorem fields_c0 : BlakeFields.c0 (fieldsSP σ p) (σ.L * r) (σ.T * t) ↔ BlakeFields.c0 p r t := by
  units_cond fieldsSP

theorem fields_c1 : BlakeFields.c1 (fieldsSP σ p) (σ.L * r) (σ.T * t) ↔ BlakeFields.c1 p r t := by
  units_cond fieldsSP

theorem fields_c2 : BlakeFields.c2 (fieldsSP σ p) (σ.L * r) (σ.T * t) ↔ BlakeFields.c2 p r t := by
  units_cond fieldsSP

set_option maxHeartbeats 1000000 in
theorem fields_L1_position : IsScaled σ Dim.length (BlakeFields.L1.position (fieldsSP σ p) (σ.L * r) (σ.T * t)) (BlakeFields.L1.position p r t) := by
  units_leaf fieldsSP

theorem fields_L2_position : IsScaled σ Dim.length (BlakeFields.L2.position (fieldsSP σ p) (σ.L * r) (σ.T * t)) (BlakeFields.L2.position p r t) := by
  units_leaf fieldsSP

theorem fields_L3_position : IsScaled σ Dim.length (BlakeFields.L3.position (fieldsSP σ p) (σ.L * r) (σ.T * t)) (BlakeFields.L3.position p r t) := by
  units_leaf fieldsSP

set_option maxHeartbeats 1000000 in
theorem fields_L1_displacement : IsScaled σ Dim.length (BlakeFields.L1.displacement (fieldsSP σ p) (σ.L * r) (σ.T * t)) (BlakeFields.L1.displacement p r t) := by
  units_leaf fieldsSP

theorem fields_L2_displacement : IsScaled σ Dim.length (BlakeFields.L2.displacement (fieldsSP σ p) (σ.L * r) (σ.T * t)) (BlakeFields.L2.displacement p r t) := by
  units_leaf fieldsSP

theorem fields_L3_displacement : IsScaled σ Dim.length (BlakeFields.L3.displacement (fieldsSP σ p) (σ.L * r) (σ.T * t)) (BlakeFields.L3.displacement p r t) := by
  units_leaf fieldsSP

set_option maxHeartbeats 1000000 in
theorem fields_L1_strain_rr : IsScaled σ 0 (BlakeFields.L1.strain_rr (fieldsSP σ p) (σ.L * r) (σ.T * t)) (BlakeFields.L1.strain_rr p r t) := by
  units_leaf fieldsSP

theorem fields_L2_strain_rr : IsScaled σ 0 (BlakeFields.L2.strain_rr (fieldsSP σ p) (σ.L * r) (σ.T * t)) (BlakeFields.L2.strain_rr p r t) := by
  units_leaf fieldsSP

theorem fields_L3_strain_rr : IsScaled σ 0 (BlakeFields.L3.strain_rr (fieldsSP σ p) (σ.L * r) (σ.T * t)) (BlakeFields.L3.strain_rr p r t) := by
  units_leaf fieldsSP

theorem fields_L1_curr_posn : IsScaled σ Dim.length (BlakeFields.L1.curr_posn (fieldsSP σ p) (σ.L * r) (σ.T * t)) (BlakeFields.L1.curr_posn p r t) := by
  have e : ∀ (q : BlakeFields.P) (x s : ℝ), BlakeFields.L1.curr_posn q x s = x + BlakeFields.L1.displacement q x s := fun _ _ _ => by simp only [epv_leaf]; first | rfl | ring1 | epv_deton_nf_eq
  have h0 := fields_L1_displacement σ p r t
  rw [e, e]
  simp only [fieldsSP]
  units_goal

theorem fields_L2_curr_posn : IsScaled σ Dim.length (BlakeFields.L2.curr_posn (fieldsSP σ p) (σ.L * r) (σ.T * t)) (BlakeFields.L2.curr_posn p r t) := by
  units_leaf fieldsSP

theorem fields_L3_curr_posn : IsScaled σ Dim.length (BlakeFields.L3.curr_posn (fieldsSP σ p) (σ.L * r) (σ.T * t)) (BlakeFields.L3.curr_posn p r t) := by
  units_leaf fieldsSP

theorem fields_L1_strain_qq : IsScaled σ 0 (BlakeFields.L1.strain_qq (fieldsSP σ p) (σ.L * r) (σ.T * t)) (BlakeFields.L1.strain_qq p r t) := by
  have e : ∀ (q : BlakeFields.P) (x s : ℝ), BlakeFields.L1.strain_qq q x s = BlakeFields.L1.displacement q x s / x := fun _ _ _ => by simp only [epv_leaf]; first | rfl | ring1 | epv_deton_nf_eq
  have h0 := fields_L1_displacement σ p r t
  rw [e, e]
  simp only [fieldsSP]
  units_goal

theorem fields_L2_strain_qq : IsScaled σ 0 (BlakeFields.L2.strain_qq (fieldsSP σ p) (σ.L * r) (σ.T * t)) (BlakeFields.L2.strain_qq p r t) := by
  units_leaf fieldsSP

theorem fields_L3_strain_qq : IsScaled σ 0 (BlakeFields.L3.strain_qq (fieldsSP σ p) (σ.L * r) (σ.T * t)) (BlakeFields.L3.strain_qq p r t) := by
  units_leaf fieldsSP

theorem fields_L1_strain_vol : IsScaled σ 0 (BlakeFields.L1.strain_vol (fieldsSP σ p) (σ.L * r) (σ.T * t)) (BlakeFields.L1.strain_vol p r t) := by
  have e : ∀ (q : BlakeFields.P) (x s : ℝ), BlakeFields.L1.strain_vol q x s = BlakeFields.L1.strain_rr q x s + 2 * BlakeFields.L1.strain_qq q x s := fun _ _ _ => by simp only [epv_leaf]; first | rfl | ring1 | epv_deton_nf_eq
  have h0 := fields_L1_strain_rr σ p r t
  have h1 := fields_L1_strain_qq σ p r t
  rw [e, e]
  simp only [fieldsSP]
  units_goal

theorem fields_L2_strain_vol : IsScaled σ 0 (BlakeFields.L2.strain_vol (fieldsSP σ p) (σ.L * r) (σ.T * t)) (BlakeFields.L2.strain_vol p r t) := by
  units_leaf fieldsSP

theorem fields_L3_strain_vol : IsScaled σ 0 (BlakeFields.L3.strain_vol (fieldsSP σ p) (σ.L * r) (σ.T * t)) (BlakeFields.L3.strain_vol p r t) := by
  units_leaf fieldsSP

theorem fields_L1_density : IsScaled σ Dim.density (BlakeFields.L1.density (fieldsSP σ p) (σ.L * r) (σ.T * t)) (BlakeFields.L1.density p r t) := by
  have e : ∀ (q : BlakeFields.P) (x s : ℝ), BlakeFields.L1.density q x s = q.ref_density / (1 + BlakeFields.L1.strain_vol q x s) := fun _ _ _ => by simp only [epv_leaf]; first | rfl | ring1 | epv_deton_nf_eq
  have h0 := fields_L1_strain_vol σ p r t
  rw [e, e]
  simp only [fieldsSP]
  units_goal

theorem fields_L2_density : IsScaled σ Dim.density (BlakeFields.L2.density (fieldsSP σ p) (σ.L * r) (σ.T * t)) (BlakeFields.L2.density p r t) := by
  units_leaf fieldsSP

theorem fields_L3_density : IsScaled σ Dim.density (BlakeFields.L3.density (fieldsSP σ p) (σ.L * r) (σ.T * t)) (BlakeFields.L3.density p r t) := by
  units_leaf fieldsSP

theorem fields_L1_stress_rr : IsScaled σ Dim.pressure (BlakeFields.L1.stress_rr (fieldsSP σ p) (σ.L * r) (σ.T * t)) (BlakeFields.L1.stress_rr p r t) := by
  have e : ∀ (q : BlakeFields.P) (x s : ℝ), BlakeFields.L1.stress_rr q x s = (q.lame_mod + 2 * q.shear_mod) * BlakeFields.L1.strain_rr q x s + 2 * q.lame_mod * BlakeFields.L1.strain_qq q x s := fun _ _ _ => by simp only [epv_leaf]; first | rfl | ring1 | epv_deton_nf_eq
  have h0 := fields_L1_strain_rr σ p r t
  have h1 := fields_L1_strain_qq σ p r t
  rw [e, e]
  simp only [fieldsSP]
  units_goal

theorem fields_L2_stress_rr : IsScaled σ Dim.pressure (BlakeFields.L2.stress_rr (fieldsSP σ p) (σ.L * r) (σ.T * t)) (BlakeFields.L2.stress_rr p r t) := by
  units_leaf fieldsSP

theorem fields_L3_stress_rr : IsScaled σ Dim.pressure (BlakeFields.L3.stress_rr (fieldsSP σ p) (σ.L * r) (σ.T * t)) (BlakeFields.L3.stress_rr p r t) := by
  units_leaf fieldsSP

theorem fields_L1_stress_qq : IsScaled σ Dim.pressure (BlakeFields.L1.stress_qq (fieldsSP σ p) (σ.L * r) (σ.T * t)) (BlakeFields.L1.stress_qq p r t) := by
  have e : ∀ (q : BlakeFields.P) (x s : ℝ), BlakeFields.L1.stress_qq q x s = q.lame_mod * BlakeFields.L1.strain_rr q x s + 2 * (q.lame_mod + q.shear_mod) * BlakeFields.L1.strain_qq q x s := fun _ _ _ => by simp only [epv_leaf]; first | rfl | ring1 | epv_deton_nf_eq
  have h0 := fields_L1_strain_rr σ p r t
  have h1 := fields_L1_strain_qq σ p r t
  rw [e, e]
  simp only [fieldsSP]
  units_goal

theorem fields_L2_stress_qq : IsScaled σ Dim.pressure (BlakeFields.L2.stress_qq (fieldsSP σ p) (σ.L * r) (σ.T * t)) (BlakeFields.L2.stress_qq p r t) := by
  units_leaf fieldsSP

theorem fields_L3_stress_qq : IsScaled σ Dim.pressure (BlakeFields.L3.stress_qq (fieldsSP σ p) (σ.L * r) (σ.T * t)) (BlakeFields.L3.stress_qq p r t) := by
  units_leaf fieldsSP

theorem fields_L1_pressure : IsScaled σ Dim.pressure (BlakeFields.L1.pressure (fieldsSP σ p) (σ.L * r) (σ.T * t)) (BlakeFields.L1.pressure p r t) := by
  have e : ∀ (q : BlakeFields.P) (x s : ℝ), BlakeFields.L1.pressure q x s = -(1 / 3) * (BlakeFields.L1.stress_rr q x s + 2 * BlakeFields.L1.stress_qq q x s) := fun _ _ _ => by simp only [epv_leaf]; first | rfl | ring1 | epv_deton_nf_eq
  have h0 := fields_L1_stress_rr σ p r t
  have h1 := fields_L1_stress_qq σ p r t
  rw [e, e]
  simp only [fieldsSP]
  units_goal

theorem fields_L2_pressure : IsScaled σ Dim.pressure (BlakeFields.L2.pressure (fieldsSP σ p) (σ.L * r) (σ.T * t)) (BlakeFields.L2.pressure p r t) := by
  units_leaf fieldsSP

theorem fields_L3_pressure : IsScaled σ Dim.pressure (BlakeFields.L3.pressure (fieldsSP σ p) (σ.L * r) (σ.T * t)) (BlakeFields.L3.pressure p r t) := by
  units_leaf fieldsSP

theorem fields_L1_stress_dev_rr : IsScaled σ Dim.pressure (BlakeFields.L1.stress_dev_rr (fieldsSP σ p) (σ.L * r) (σ.T * t)) (BlakeFields.L1.stress_dev_rr p r t) := by
  have e : ∀ (q : BlakeFields.P) (x s : ℝ), BlakeFields.L1.stress_dev_rr q x s = BlakeFields.L1.stress_rr q x s + BlakeFields.L1.pressure q x s := fun _ _ _ => by simp only [epv_leaf]; first | rfl | ring1 | epv_deton_nf_eq
  have h0 := fields_L1_stress_rr σ p r t
  have h1 := fields_L1_pressure σ p r t
  rw [e, e]
  simp only [fieldsSP]
  units_goal

theorem fields_L2_stress_dev_rr : IsScaled σ Dim.pressure (BlakeFields.L2.stress_dev_rr (fieldsSP σ p) (σ.L * r) (σ.T * t)) (BlakeFields.L2.stress_dev_rr p r t) := by
  units_leaf fieldsSP

theorem fields_L3_stress_dev_rr : IsScaled σ Dim.pressure (BlakeFields.L3.stress_dev_rr (fieldsSP σ p) (σ.L * r) (σ.T * t)) (BlakeFields.L3.stress_dev_rr p r t) := by
  units_leaf fieldsSP

theorem fields_L1_stress_dev_qq : IsScaled σ Dim.pressure (BlakeFields.L1.stress_dev_qq (fieldsSP σ p) (σ.L * r) (σ.T * t)) (BlakeFields.L1.stress_dev_qq p r t) := by
  have e : ∀ (q : BlakeFields.P) (x s : ℝ), BlakeFields.L1.stress_dev_qq q x s = BlakeFields.L1.stress_qq q x s + BlakeFields.L1.pressure q x s := fun _ _ _ => by simp only [epv_leaf]; first | rfl | ring1 | epv_deton_nf_eq
  have h0 := fields_L1_stress_qq σ p r t
  have h1 := fields_L1_pressure σ p r t
  rw [e, e]
  simp only [fieldsSP]
  units_goal

theorem fields_L2_stress_dev_qq : IsScaled σ Dim.pressure (BlakeFields.L2.stress_dev_qq (fieldsSP σ p) (σ.L * r) (σ.T * t)) (BlakeFields.L2.stress_dev_qq p r t) := by
  units_leaf fieldsSP

theorem fields_L3_stress_dev_qq : IsScaled σ Dim.pressure (BlakeFields.L3.stress_dev_qq (fieldsSP σ p) (σ.L * r) (σ.T * t)) (BlakeFields.L3.stress_dev_qq p r t) := by
  units_leaf fieldsSP

theorem fields_L1_stress_diff : IsScaled σ Dim.pressure (BlakeFields.L1.stress_diff (fieldsSP σ p) (σ.L * r) (σ.T * t)) (BlakeFields.L1.stress_diff p r t) := by
  have e : ∀ (q : BlakeFields.P) (x s : ℝ), BlakeFields.L1.stress_diff q x s = |BlakeFields.L1.stress_rr q x s - BlakeFields.L1.stress_qq q x s| := fun _ _ _ => by simp only [epv_leaf]; first | rfl | ring1 | epv_deton_nf_eq
  have h0 := fields_L1_stress_rr σ p r t
  have h1 := fields_L1_stress_qq σ p r t
  rw [e, e]
  simp only [fieldsSP]
  units_goal

theorem fields_L2_stress_diff : IsScaled σ Dim.pressure (BlakeFields.L2.stress_diff (fieldsSP σ p) (σ.L * r) (σ.T * t)) (BlakeFields.L2.stress_diff p r t) := by
  units_leaf fieldsSP

theorem fields_L3_stress_diff : IsScaled σ Dim.pressure (BlakeFields.L3.stress_diff (fieldsSP σ p) (σ.L * r) (σ.T * t)) (BlakeFields.L3.stress_diff p r t) := by
  units_leaf fieldsSP

end EPV.UnitsBlake
