/-
General lemmas about the conduction term of `EPV.Spec.energyResT`
(work package c01b: Coggeshall 13–21).

* `energyResT_of_T_const_r` : a temperature that does not depend on r (at the time
  considered) carries no heat flux: the energy residual is its hydrodynamic part.
* `energyResT_lam0_zero`    : the same when λ₀ = 0 (problems without conduction).
* `energyResT_powerLaw`     : for fields that are power laws in r at the time considered,
  ρ(x,t) = R x^m and T(x,t) = Θ x^n on x > 0 (R, Θ > 0 may depend on t), the heat flux is
  F = -(4 a c λ₀ / 3) n ρ^α T^β T⁴ / r, it is itself a power law of exponent
  q = m α + n (β + 4) - 1, and therefore

      (F_r + k F / r) / ρ = -(4 a c λ₀ / 3) · n · (q + k) · ρ^α T^β T⁴ / (r² ρ) .

  All conducting Coggeshall solutions treated here (13, 14, 16, 17, 18) have this form.
-/
import EPV.Spec.Euler1D

set_option linter.all false

open EPV.Spec

namespace EPV.Lemmas

/-- two positive reals with equal logarithms are equal: turns an identity between products of
real powers into a *linear* identity between logarithms (`epv_rpow_eq`) -/
theorem eq_of_log_eq {a b : ℝ} (ha : 0 < a) (hb : 0 < b) (h : Real.log a = Real.log b) : a = b :=
  Real.log_injOn_pos (Set.mem_Ioi.2 ha) (Set.mem_Ioi.2 hb) h

/-- name a positive expression that occurs in a generated side condition without writing it down -/
theorem exists_eq_of_pos {x : ℝ} (h : 0 < x) : ∃ B, B = x ∧ 0 < B := ⟨x, rfl, h⟩
theorem exists_eq_of_ne {x : ℝ} (h : x ≠ 0) : ∃ B, B = x ∧ B ≠ 0 := ⟨x, rfl, h⟩

/-- prove `a = b` for products / quotients / real powers of positive quantities: take logarithms,
expand them, and compare the coefficients of the logarithms of the atoms by `field_simp; ring` -/
macro "epv_rpow_eq" : tactic =>
  `(tactic| (apply EPV.Lemmas.eq_of_log_eq (by positivity) (by positivity)
             simp (disch := positivity) only [Real.log_mul, Real.log_div, Real.log_rpow, Real.log_pow,
               Real.log_inv, Real.log_one, mul_one]
             field_simp
             ring))

/-- a temperature profile that is flat in r has zero heat flux everywhere, hence zero
flux divergence -/
theorem energyResT_of_T_const_r (ρ u T : Field) (Γ γ k c a lam0 α β r t : ℝ)
    (hT : ∀ x, T x t = T r t) :
    energyResT ρ u T Γ γ k c a lam0 α β r t = energyHydroT u T Γ γ k r t := by
  have hF : ∀ x, heatFlux ρ T c a lam0 α β x t = 0 := by
    intro x
    unfold heatFlux dr
    have : (fun y => a * T y t ^ (4 : ℕ)) = fun _ => a * T r t ^ (4 : ℕ) := by
      funext y; rw [hT y]
    simp only [this, deriv_const, mul_zero]
  unfold energyResT dr
  have : (fun x => heatFlux ρ T c a lam0 α β x t) = fun _ => (0 : ℝ) := funext hF
  simp only [this, deriv_const, hF r, mul_zero, zero_div, add_zero]

/-- no conduction (λ₀ = 0): the energy residual is its hydrodynamic part -/
theorem energyResT_lam0_zero (ρ u T : Field) (Γ γ k c a α β r t : ℝ) :
    energyResT ρ u T Γ γ k c a 0 α β r t = energyHydroT u T Γ γ k r t := by
  have hF : ∀ x, heatFlux ρ T c a 0 α β x t = 0 := by
    intro x
    unfold heatFlux
    simp only [mul_zero, zero_mul, zero_div, neg_zero]
  unfold energyResT dr
  have : (fun x => heatFlux ρ T c a 0 α β x t) = fun _ => (0 : ℝ) := funext hF
  simp only [this, deriv_const, hF r, mul_zero, zero_div, add_zero]

/-- heat flux of power-law fields, closed form on x > 0 -/
theorem heatFlux_powerLaw (ρ T : Field) (c a lam0 α β R Θ m n t : ℝ)
    (hR : 0 < R) (hΘ : 0 < Θ)
    (hρ : ∀ x, 0 < x → ρ x t = R * x ^ m) (hT : ∀ x, 0 < x → T x t = Θ * x ^ n)
    (x : ℝ) (hx : 0 < x) :
    heatFlux ρ T c a lam0 α β x t
      = -(4 * a * c * lam0 / 3) * n * (R ^ α * Θ ^ β * Θ ^ (4 : ℕ)) * x ^ (m * α + n * (β + 4) - 1) := by
  -- derivative of a T⁴
  have h4 : ∀ y, 0 < y → a * T y t ^ (4 : ℕ) = a * Θ ^ (4 : ℕ) * y ^ (n * 4) := by
    intro y hy
    rw [hT y hy, mul_pow, Real.rpow_mul hy.le, ← Real.rpow_natCast (y ^ n) 4]
    norm_num
    ring
  have hd : HasDerivAt (fun y => a * T y t ^ (4 : ℕ)) (a * Θ ^ (4 : ℕ) * ((n * 4) * x ^ (n * 4 - 1))) x := by
    have h0 : HasDerivAt (fun y : ℝ => a * Θ ^ (4 : ℕ) * y ^ (n * 4))
        (a * Θ ^ (4 : ℕ) * ((n * 4) * x ^ (n * 4 - 1))) x :=
      (Real.hasDerivAt_rpow_const (Or.inl hx.ne')).const_mul _
    refine h0.congr_of_eventuallyEq ?_
    filter_upwards [Ioi_mem_nhds hx] with y hy
    exact h4 y hy
  have hρα : ρ x t ^ α = R ^ α * x ^ (m * α) := by
    rw [hρ x hx, Real.mul_rpow hR.le (Real.rpow_nonneg hx.le m), ← Real.rpow_mul hx.le]
  have hTβ : T x t ^ β = Θ ^ β * x ^ (n * β) := by
    rw [hT x hx, Real.mul_rpow hΘ.le (Real.rpow_nonneg hx.le n), ← Real.rpow_mul hx.le]
  have hq : x ^ (m * α + n * (β + 4) - 1) = x ^ (m * α) * x ^ (n * β) * x ^ (n * 4 - 1) := by
    rw [← Real.rpow_add hx, ← Real.rpow_add hx]
    congr 1
    ring
  unfold heatFlux dr
  rw [hd.deriv, hρα, hTβ, hq]
  ring

/-- energy residual of power-law fields: the conduction term in closed form -/
theorem energyResT_powerLaw (ρ u T : Field) (Γ γ k c a lam0 α β R Θ m n r t : ℝ)
    (hr : 0 < r) (hR : 0 < R) (hΘ : 0 < Θ)
    (hρ : ∀ x, 0 < x → ρ x t = R * x ^ m) (hT : ∀ x, 0 < x → T x t = Θ * x ^ n) :
    energyResT ρ u T Γ γ k c a lam0 α β r t
      = energyHydroT u T Γ γ k r t
        - (4 * a * c * lam0 / 3) * n * (m * α + n * (β + 4) - 1 + k)
            * (ρ r t ^ α * T r t ^ β * T r t ^ (4 : ℕ)) / (r ^ (2 : ℕ) * ρ r t) := by
  set q : ℝ := m * α + n * (β + 4) - 1 with hqdef
  set C : ℝ := -(4 * a * c * lam0 / 3) * n * (R ^ α * Θ ^ β * Θ ^ (4 : ℕ)) with hCdef
  have hF : ∀ x, 0 < x → heatFlux ρ T c a lam0 α β x t = C * x ^ q :=
    fun x hx => heatFlux_powerLaw ρ T c a lam0 α β R Θ m n t hR hΘ hρ hT x hx
  have hdF : HasDerivAt (fun x => heatFlux ρ T c a lam0 α β x t) (C * (q * r ^ (q - 1))) r := by
    have h0 : HasDerivAt (fun x : ℝ => C * x ^ q) (C * (q * r ^ (q - 1))) r :=
      (Real.hasDerivAt_rpow_const (Or.inl hr.ne')).const_mul _
    refine h0.congr_of_eventuallyEq ?_
    filter_upwards [Ioi_mem_nhds hr] with y hy
    exact hF y hy
  have hρα : ρ r t ^ α = R ^ α * r ^ (m * α) := by
    rw [hρ r hr, Real.mul_rpow hR.le (Real.rpow_nonneg hr.le m), ← Real.rpow_mul hr.le]
  have hTβ : T r t ^ β = Θ ^ β * r ^ (n * β) := by
    rw [hT r hr, Real.mul_rpow hΘ.le (Real.rpow_nonneg hr.le n), ← Real.rpow_mul hr.le]
  have hT4 : T r t ^ (4 : ℕ) = Θ ^ (4 : ℕ) * r ^ (n * 4) := by
    rw [hT r hr, mul_pow, Real.rpow_mul hr.le, ← Real.rpow_natCast (r ^ n) 4]
    norm_num
  have hq1 : r ^ (m * α) * r ^ (n * β) * r ^ (n * 4) = r ^ q * r := by
    rw [← Real.rpow_add hr, ← Real.rpow_add hr, ← Real.rpow_add_one hr.ne']
    congr 1
    rw [hqdef]; ring
  have hq2 : r ^ (q - 1) = r ^ q / r := Real.rpow_sub_one hr.ne' q
  have hρpos : 0 < ρ r t := by rw [hρ r hr]; exact mul_pos hR (Real.rpow_pos_of_pos hr m)
  unfold energyResT
  have e1 : dr (heatFlux ρ T c a lam0 α β) r t = C * (q * r ^ (q - 1)) := hdF.deriv
  rw [e1, hF r hr, hρα, hTβ, hT4, hq2]
  have hmul : R ^ α * r ^ (m * α) * (Θ ^ β * r ^ (n * β)) * (Θ ^ (4 : ℕ) * r ^ (n * 4))
      = (R ^ α * Θ ^ β * Θ ^ (4 : ℕ)) * (r ^ q * r) := by
    rw [← hq1]; ring
  rw [hmul]
  have hρne := hρpos.ne'
  have hrne := hr.ne'
  rw [hCdef]
  field_simp
  ring

end EPV.Lemmas

/-! ### Transfer from a leaf of a traced decision tree to the returned (tree-level) fields

When the path conditions depend on the position (a shock), the returned field agrees with the
field of one leaf only *near* the point.  The residuals of `Spec.Euler1D` at (r, t) depend only on
the germs of x ↦ f x t at r and of s ↦ f r s at t. -/
namespace EPV.Lemmas

open Filter Topology

/-- `f` and `g` agree near (r, t) along both coordinate lines through the point -/
def AgreeNear (f g : Field) (r t : ℝ) : Prop :=
  (fun x => f x t) =ᶠ[𝓝 r] (fun x => g x t) ∧ (fun s => f r s) =ᶠ[𝓝 t] fun s => g r s

theorem AgreeNear.eq {f g : Field} {r t : ℝ} (h : AgreeNear f g r t) : f r t = g r t :=
  h.1.eq_of_nhds

theorem AgreeNear.dr {f g : Field} {r t : ℝ} (h : AgreeNear f g r t) : dr f r t = dr g r t := by
  unfold Spec.dr
  exact h.1.deriv_eq

theorem AgreeNear.dt {f g : Field} {r t : ℝ} (h : AgreeNear f g r t) : dt f r t = dt g r t := by
  unfold Spec.dt
  exact h.2.deriv_eq

/-- two fields that coincide wherever a condition holds agree near every point around which the
condition holds along both coordinate lines (an open region of the (r, t) plane) -/
theorem agreeNear_of_cond {f g : Field} {c : ℝ → ℝ → Prop} {r t : ℝ}
    (hfg : ∀ x s, c x s → f x s = g x s)
    (hx : ∀ᶠ x in 𝓝 r, c x t) (hs : ∀ᶠ s in 𝓝 t, c r s) : AgreeNear f g r t :=
  ⟨hx.mono fun x hc => hfg x t hc, hs.mono fun s hc => hfg r s hc⟩

theorem massRes_congr_near {ρ ρ' u u' : Field} {k r t : ℝ} (hρ : AgreeNear ρ ρ' r t)
    (hu : AgreeNear u u' r t) : massRes ρ u k r t = massRes ρ' u' k r t := by
  unfold massRes
  rw [hρ.dt, hρ.dr, hu.dr, hρ.eq, hu.eq]

theorem momResT_congr_near {ρ ρ' u u' T T' : Field} {Γ r t : ℝ} (hρ : AgreeNear ρ ρ' r t)
    (hu : AgreeNear u u' r t) (hT : AgreeNear T T' r t) :
    momResT ρ u T Γ r t = momResT ρ' u' T' Γ r t := by
  unfold momResT
  rw [hu.dt, hu.dr, hρ.dr, hT.dr, hρ.eq, hu.eq, hT.eq]

theorem momResP_congr_near {ρ ρ' u u' p p' : Field} {r t : ℝ} (hρ : AgreeNear ρ ρ' r t)
    (hu : AgreeNear u u' r t) (hp : AgreeNear p p' r t) :
    momResP ρ u p r t = momResP ρ' u' p' r t := by
  unfold momResP
  rw [hu.dt, hu.dr, hp.dr, hρ.eq, hu.eq]

theorem energyResE_congr_near {ρ ρ' u u' p p' e e' : Field} {k r t : ℝ} (hρ : AgreeNear ρ ρ' r t)
    (hu : AgreeNear u u' r t) (hp : AgreeNear p p' r t) (he : AgreeNear e e' r t) :
    energyResE ρ u p e k r t = energyResE ρ' u' p' e' k r t := by
  unfold energyResE
  rw [he.dt, he.dr, hu.dr, hρ.eq, hu.eq, hp.eq]

theorem energyHydroT_congr_near {u u' T T' : Field} {Γ γ k r t : ℝ} (hu : AgreeNear u u' r t)
    (hT : AgreeNear T T' r t) : energyHydroT u T Γ γ k r t = energyHydroT u' T' Γ γ k r t := by
  unfold energyHydroT
  rw [hT.dt, hT.dr, hu.dr, hu.eq, hT.eq]

/-- the heat flux as a function of the position, near r -/
theorem heatFlux_congr_near {ρ ρ' T T' : Field} {c a lam0 α β r t : ℝ}
    (hρ : (fun x => ρ x t) =ᶠ[𝓝 r] fun x => ρ' x t) (hT : (fun x => T x t) =ᶠ[𝓝 r] fun x => T' x t) :
    (fun x => heatFlux ρ T c a lam0 α β x t) =ᶠ[𝓝 r] fun x => heatFlux ρ' T' c a lam0 α β x t := by
  have hT2 : ∀ᶠ x in 𝓝 r, (fun y => T y t) =ᶠ[𝓝 x] fun y => T' y t := hT.eventually_nhds
  filter_upwards [hρ, hT, hT2] with x hρx hTx hTx2
  unfold heatFlux Spec.dr
  have h4 : (fun y => a * T y t ^ (4 : ℕ)) =ᶠ[𝓝 x] fun y => a * T' y t ^ (4 : ℕ) := by
    filter_upwards [hTx2] with y hy
    have hy' : T y t = T' y t := hy
    rw [hy']
  have hρx' : ρ x t = ρ' x t := hρx
  have hTx' : T x t = T' x t := hTx
  rw [h4.deriv_eq, hρx', hTx']

theorem energyResT_congr_near {ρ ρ' u u' T T' : Field} {Γ γ k c a lam0 α β r t : ℝ}
    (hρ : AgreeNear ρ ρ' r t) (hu : AgreeNear u u' r t) (hT : AgreeNear T T' r t) :
    energyResT ρ u T Γ γ k c a lam0 α β r t = energyResT ρ' u' T' Γ γ k c a lam0 α β r t := by
  have hF := heatFlux_congr_near (c := c) (a := a) (lam0 := lam0) (α := α) (β := β) hρ.1 hT.1
  unfold energyResT
  have h1 : Spec.dr (heatFlux ρ T c a lam0 α β) r t = Spec.dr (heatFlux ρ' T' c a lam0 α β) r t := by
    unfold Spec.dr
    exact hF.deriv_eq
  rw [h1, hF.eq_of_nhds, energyHydroT_congr_near hu hT, hρ.eq]

end EPV.Lemmas
