/-
General lemmas about the conduction term of `EPV.Spec.energyResT`
(work package c01b: Coggeshall 13–21).

* `energyResT_of_T_const_r` : a temperature that does not depend on r (at the time
  considered) carries no heat flux: the energy residual is its hydrodynamic part.
* `energyResT_lam0_zero`    : the same when λ₀ = 0 (problems without conduction).
* `energyResT_powerLaw`     : for fields that are power laws in r at the time considered,
  ρ(x,t) = R x^m and T(x,t) = Θ x^n on x > 0 (R, Θ > 0 may depend on t), the heat flux is
  F = -(4 a c λ₀ / 3) n ρ^α T^β T⁴ / r, it is itself a power law of exponent
  q = m α + n (β + 4) - 1, and therefore

      (F_r + k F / r) / ρ = -(4 a c λ₀ / 3) · n · (q + k) · ρ^α T^β T⁴ / (r² ρ) .

  All conducting Coggeshall solutions treated here (13, 14, 16, 17, 18) have this form.
-/
import EPV.Spec.Euler1D

set_option linter.all false

open EPV.Spec

namespace EPV.Lemmas

/-- two positive reals with equal logarithms are equal: turns an identity between products of
real powers into a *linear* identity between logarithms (`epv_rpow_eq`) -/
theorem eq_of_log_eq {a b : ℝ} (ha : 0 < a) (hb : 0 < b) (h : Real.log a = Real.log b) : a = b :=
  Real.log_injOn_pos (Set.mem_Ioi.2 ha) (Set.mem_Ioi.2 hb) h

/-- name a positive expression that occurs in a generated side condition without writing it down -/
theorem exists_eq_of_pos {x : ℝ} (h : 0 < x) : ∃ B, B = x ∧ 0 < B := ⟨x, rfl, h⟩
theorem exists_eq_of_ne {x : ℝ} (h : x ≠ 0) : ∃ B, B = x ∧ B ≠ 0 := ⟨x, rfl, h⟩

/-- prove `a = b` for products / quotients / real powers of positive quantities: take logarithms,
expand them, and compare the coefficients of the logarithms of the atoms by `field_simp; ring` -/
macro "epv_rpow_eq" : tactic =>
  `(tactic| (apply EPV.Lemmas.eq_of_log_eq (by positivity) (by positivity)
             simp (disch := positivity) only [Real.log_mul, Real.log_div, Real.log_rpow, Real.log_pow,
               Real.log_inv, Real.log_one, mul_one]
             field_simp
             ring))

/-- a temperature profile that is flat in r has zero heat flux everywhere, hence zero
flux divergence -/
theorem energyResT_of_T_const_r (ρ u T : Field) (Γ γ k c a lam0 α β r t : ℝ)
    (hT : ∀ x, T x t = T r t) :
    energyResT ρ u T Γ γ k c a lam0 α β r t = energyHydroT u T Γ γ k r t := by
  have hF : ∀ x, heatFlux ρ T c a lam0 α β x t = 0 := by
    intro x
    unfold heatFlux dr
    have : (fun y => a * T y t ^ (4 : ℕ)) = fun _ => a * T r t ^ (4 : ℕ) := by
      funext y; rw [hT y]
    simp only [this, deriv_const, mul_zero]
  unfold energyResT dr
  have : (fun x => heatFlux ρ T c a lam0 α β x t) = fun _ => (0 : ℝ) := funext hF
  simp only [this, deriv_const, hF r, mul_zero, zero_div, add_zero]

/-- no conduction (λ₀ = 0): the energy residual is its hydrodynamic part -/
theorem energyResT_lam0_zero (ρ u T : Field) (Γ γ k c a α β r t : ℝ) :
    energyResT ρ u T Γ γ k c a 0 α β r t = energyHydroT u T Γ γ k r t := by
  have hF : ∀ x, heatFlux ρ T c a 0 α β x t = 0 := by
    intro x
    unfold heatFlux
    simp only [mul_zero, zero_mul, zero_div, neg_zero]
  unfold energyResT dr
  have : (fun x => heatFlux ρ T c a 0 α β x t) = fun _ => (0 : ℝ) := funext hF
  simp only [this, deriv_const, hF r, mul_zero, zero_div, add_zero]

/-- heat flux of power-law fields, closed form on x > 0 -/
theorem heatFlux_powerLaw (ρ T : Field) (c a lam0 α β R Θ m n t : ℝ)
    (hR : 0 < R) (hΘ : 0 < Θ)
    (hρ : ∀ x, 0 < x → ρ x t = R * x ^ m) (hT : ∀ x, 0 < x → T x t = Θ * x ^ n)
    (x : ℝ) (hx : 0 < x) :
    heatFlux ρ T c a lam0 α β x t
      = -(4 * a * c * lam0 / 3) * n * (R ^ α * Θ ^ β * Θ ^ (4 : ℕ)) * x ^ (m * α + n * (β + 4) - 1) := by
  -- derivative of a T⁴
  have h4 : ∀ y, 0 < y → a * T y t ^ (4 : ℕ) = a * Θ ^ (4 : ℕ) * y ^ (n * 4) := by
    intro y hy
    rw [hT y hy, mul_pow, Real.rpow_mul hy.le, ← Real.rpow_natCast (y ^ n) 4]
    norm_num
    ring
  have hd : HasDerivAt (fun y => a * T y t ^ (4 : ℕ)) (a * Θ ^ (4 : ℕ) * ((n * 4) * x ^ (n * 4 - 1))) x := by
    have h0 : HasDerivAt (fun y : ℝ => a * Θ ^ (4 : ℕ) * y ^ (n * 4))
        (a * Θ ^ (4 : ℕ) * ((n * 4) * x ^ (n * 4 - 1))) x :=
      (Real.hasDerivAt_rpow_const (Or.inl hx.ne')).const_mul _
    refine h0.congr_of_eventuallyEq ?_
    filter_upwards [Ioi_mem_nhds hx] with y hy
    exact h4 y hy
  have hρα : ρ x t ^ α = R ^ α * x ^ (m * α) := by
    rw [hρ x hx, Real.mul_rpow hR.le (Real.rpow_nonneg hx.le m), ← Real.rpow_mul hx.le]
  have hTβ : T x t ^ β = Θ ^ β * x ^ (n * β) := by
    rw [hT x hx, Real.mul_rpow hΘ.le (Real.rpow_nonneg hx.le n), ← Real.rpow_mul hx.le]
  have hq : x ^ (m * α + n * (β + 4) - 1) = x ^ (m * α) * x ^ (n * β) * x ^ (n * 4 - 1) := by
    rw [← Real.rpow_add hx, ← Real.rpow_add hx]
    congr 1
    ring
  unfold heatFlux dr
  rw [hd.deriv, hρα, hTβ, hq]
  ring

/-- energy residual of power-law fields: the conduction term in closed form -/
theorem energyResT_powerLaw (ρ u T : Field) (Γ γ k c a lam0 α β R Θ m n r t : ℝ)
    (hr : 0 < r) (hR : 0 < R) (hΘ : 0 < Θ)
    (hρ : ∀ x, 0 < x → ρ x t = R * x ^ m) (hT : ∀ x, 0 < x → T x t = Θ * x ^ n) :
    energyResT ρ u T Γ γ k c a lam0 α β r t
      = energyHydroT u T Γ γ k r t
        - (4 * a * c * lam0 / 3) * n * (m * α + n * (β + 4) - 1 + k)
            * (ρ r t ^ α * T r t ^ β * T r t ^ (4 : ℕ)) / (r ^ (2 : ℕ) * ρ r t) := by
  set q : ℝ := m * α + n * (β + 4) - 1 with hqdef
  set C : ℝ := -(4 * a * c * lam0 / 3) * n * (R ^ α * Θ ^ β * Θ ^ (4 : ℕ)) with hCdef
  have hF : ∀ x, 0 < x → heatFlux ρ T c a lam0 α β x t = C * x ^ q :=
    fun x hx => heatFlux_powerLaw ρ T c a lam0 α β R Θ m n t hR hΘ hρ hT x hx
  have hdF : HasDerivAt (fun x => heatFlux ρ T c a lam0 α β x t) (C * (q * r ^ (q - 1))) r := by
    have h0 : HasDerivAt (fun x : ℝ => C * x ^ q) (C * (q * r ^ (q - 1))) r :=
      (Real.hasDerivAt_rpow_const (Or.inl hr.ne')).const_mul _
    refine h0.congr_of_eventuallyEq ?_
    filter_upwards [Ioi_mem_nhds hr] with y hy
    exact hF y hy
  have hρα : ρ r t ^ α = R ^ α * r ^ (m * α) := by
    rw [hρ r hr, Real.mul_rpow hR.le (Real.rpow_nonneg hr.le m), ← Real.rpow_mul hr.le]
  have hTβ : T r t ^ β = Θ ^ β * r ^ (n * β) := by
    rw [hT r hr, Real.mul_rpow hΘ.le (Real.rpow_nonneg hr.le n), ← Real.rpow_mul hr.le]
  have hT4 : T r t ^ (4 : ℕ) = Θ ^ (4 : ℕ) * r ^ (n * 4) := by
    rw [hT r hr, mul_pow, Real.rpow_mul hr.le, ← Real.rpow_natCast (r ^ n) 4]
    norm_num
  have hq1 : r ^ (m * α) * r ^ (n * β) * r ^ (n * 4) = r ^ q * r := by
    rw [← Real.rpow_add hr, ← Real.rpow_add hr, ← Real.rpow_add_one hr.ne']
    congr 1
    rw [hqdef]; ring
  have hq2 : r ^ (q - 1) = r ^ q / r := Real.rpow_sub_one hr.ne' q
  have hρpos : 0 < ρ r t := by rw [hρ r hr]; exact mul_pos hR (Real.rpow_pos_of_pos hr m)
  unfold energyResT
  have e1 : dr (heatFlux ρ T c a lam0 α β) r t = C * (q * r ^ (q - 1)) := hdF.deriv
  rw [e1, hF r hr, hρα, hTβ, hT4, hq2]
  have hmul : R ^ α * r ^ (m * α) * (Θ ^ β * r ^ (n * β)) * (Θ ^ (4 : ℕ) * r ^ (n * 4))
      = (R ^ α * Θ ^ β * Θ ^ (4 : ℕ)) * (r ^ q * r) := by
    rw [← hq1]; ring
  rw [hmul]
  have hρne := hρpos.ne'
  have hrne := hr.ne'
  rw [hCdef]
  field_simp
  ring

end EPV.Lemmas
