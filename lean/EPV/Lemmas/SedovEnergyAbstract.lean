/-
Sedov (C11 growth, work package sedov3): the analytic core of the ENERGY substitution, free of Sedov
details.  Companion of `Lemmas/SedovMassAbstract.lean` (wp sedov2).

For the mass integral the v-space integrand W L' is an exact differential with a closed-form
primitive, so the integral is a boundary term.  The two energy integrals have no closed form (every
Sedov code evaluates them by quadrature) — what has to be proved is only that the quadrature in v IS
the λ-space integral, and that the λ-space integrands are integrable, across an end point where
λ(v) is not differentiable and the integrand may be unbounded.  Both follow from

  * the change of variables for MONOTONE maps on the OPEN interval
    (`integral_Icc_deriv_smul_of_deriv_nonneg`, `integrableOn_Icc_deriv_smul_iff_of_deriv_nonneg`
    and their antitone versions: continuity on [a, b] and differentiability inside are enough, no
    integrability assumption), and
  * integrability of the v-space integrand as (continuous on [a, b]) × (one-signed derivative of a
    function continuous on [a, b])  (`integrableOn_deriv_of_nonneg`).
-/
import Mathlib.MeasureTheory.Function.JacobianOneDim
import Mathlib.MeasureTheory.Integral.IntervalIntegral.FundThmCalculus
import Mathlib.Analysis.Calculus.Deriv.MeanValue

set_option linter.all false

open MeasureTheory Set intervalIntegral

namespace EPV.Sedov.Energy

/-- (continuous on [a,b]) × (non-negative derivative of a function continuous on [a,b]) is interval integrable -/
theorem integrable_mul_deriv_nonneg {a b : ℝ} (hab : a ≤ b) {N N' B : ℝ → ℝ}
    (hNc : ContinuousOn N (Icc a b)) (hNd : ∀ v ∈ Ioo a b, HasDerivAt N (N' v) v) (hN' : ∀ v ∈ Ioo a b, 0 ≤ N' v)
    (hBc : ContinuousOn B (Icc a b)) : IntervalIntegrable (fun v => B v * N' v) volume a b := by
  have h0 : IntervalIntegrable N' volume a b :=
    (intervalIntegrable_iff_integrableOn_Ioc_of_le hab).2 (integrableOn_deriv_of_nonneg hNc hNd hN')
  exact h0.continuousOn_mul (by rwa [uIcc_of_le hab])

/-- the same with a non-positive derivative -/
theorem integrable_mul_deriv_nonpos {a b : ℝ} (hab : a ≤ b) {N N' B : ℝ → ℝ}
    (hNc : ContinuousOn N (Icc a b)) (hNd : ∀ v ∈ Ioo a b, HasDerivAt N (N' v) v) (hN' : ∀ v ∈ Ioo a b, N' v ≤ 0)
    (hBc : ContinuousOn B (Icc a b)) : IntervalIntegrable (fun v => B v * N' v) volume a b := by
  have h := integrable_mul_deriv_nonneg hab (N := fun v => -N v) (N' := fun v => -N' v) (B := fun v => -B v)
    hNc.neg (fun v hv => (hNd v hv).neg) (fun v hv => by linarith [hN' v hv]) hBc.neg
  refine h.congr ?_
  intro v _
  simp only [neg_mul_neg]

/-- **substitution, increasing parametrisation.**  L continuous on [a,b], differentiable inside with
L' ≥ 0; ψ the v-space integrand, interval integrable, with ψ = (φ ∘ L) · L' inside.  Then φ is
interval integrable between L a and L b and ∫_{L a}^{L b} φ = ∫_a^b ψ. -/
theorem subst_mono {a b : ℝ} (hab : a ≤ b) {L L' ψ φ : ℝ → ℝ}
    (hLc : ContinuousOn L (Icc a b)) (hLd : ∀ v ∈ Ioo a b, HasDerivAt L (L' v) v) (hL' : ∀ v ∈ Ioo a b, 0 ≤ L' v)
    (hψ : IntervalIntegrable ψ volume a b) (hφ : ∀ v ∈ Ioo a b, ψ v = φ (L v) * L' v) :
    IntervalIntegrable φ volume (L a) (L b) ∧ ∫ x in (L a)..(L b), φ x = ∫ v in a..b, ψ v := by
  have hmono : MonotoneOn L (Icc a b) := by
    apply monotoneOn_of_deriv_nonneg (convex_Icc a b) hLc
    · rw [interior_Icc]; exact fun z hz => (hLd z hz).differentiableAt.differentiableWithinAt
    · rw [interior_Icc]; intro z hz; rw [(hLd z hz).deriv]; exact hL' z hz
  have hLab : L a ≤ L b := hmono (left_mem_Icc.mpr hab) (right_mem_Icc.mpr hab) hab
  -- the v-space integrand on the closed interval, in the form of Mathlib's change of variables
  have hψI : IntegrableOn (fun v => L' v • φ (L v)) (Icc a b) := by
    rw [integrableOn_Icc_iff_integrableOn_Ioo]
    have h1 : IntegrableOn ψ (Ioo a b) :=
      ((intervalIntegrable_iff_integrableOn_Ioc_of_le hab).1 hψ).mono_set Ioo_subset_Ioc_self
    refine h1.congr_fun (fun v hv => ?_) measurableSet_Ioo
    simp only [smul_eq_mul]; rw [hφ v hv, mul_comm]
  have hφI : IntegrableOn φ (Icc (L a) (L b)) :=
    (integrableOn_Icc_deriv_smul_iff_of_deriv_nonneg hLc hLd hL' hab).1 hψI
  refine ⟨(intervalIntegrable_iff_integrableOn_Icc_of_le hLab).2 hφI, ?_⟩
  have hcv := integral_Icc_deriv_smul_of_deriv_nonneg (g := φ) hLc hLd hL' hab
  rw [integral_of_le hLab, integral_of_le hab, ← integral_Icc_eq_integral_Ioc, ← hcv,
    integral_Icc_eq_integral_Ioo, integral_Ioc_eq_integral_Ioo]
  apply setIntegral_congr_fun measurableSet_Ioo
  intro v hv
  simp only [smul_eq_mul]; rw [hφ v hv, mul_comm]

/-- **substitution, decreasing parametrisation.**  As above with L' ≤ 0: φ is interval integrable
between L b and L a and (in oriented form) ∫_{L a}^{L b} φ = ∫_a^b ψ, i.e.
∫_{L b}^{L a} φ = ∫_b^a ψ = -∫_a^b ψ. -/
theorem subst_anti {a b : ℝ} (hab : a ≤ b) {L L' ψ φ : ℝ → ℝ}
    (hLc : ContinuousOn L (Icc a b)) (hLd : ∀ v ∈ Ioo a b, HasDerivAt L (L' v) v) (hL' : ∀ v ∈ Ioo a b, L' v ≤ 0)
    (hψ : IntervalIntegrable ψ volume a b) (hφ : ∀ v ∈ Ioo a b, ψ v = φ (L v) * L' v) :
    IntervalIntegrable φ volume (L b) (L a) ∧ ∫ x in (L b)..(L a), φ x = ∫ v in b..a, ψ v := by
  have hanti : AntitoneOn L (Icc a b) := by
    apply antitoneOn_of_deriv_nonpos (convex_Icc a b) hLc
    · rw [interior_Icc]; exact fun z hz => (hLd z hz).differentiableAt.differentiableWithinAt
    · rw [interior_Icc]; intro z hz; rw [(hLd z hz).deriv]; exact hL' z hz
  have hLab : L b ≤ L a := hanti (left_mem_Icc.mpr hab) (right_mem_Icc.mpr hab) hab
  have hψI : IntegrableOn (fun v => L' v • φ (L v)) (Icc a b) := by
    rw [integrableOn_Icc_iff_integrableOn_Ioo]
    have h1 : IntegrableOn ψ (Ioo a b) :=
      ((intervalIntegrable_iff_integrableOn_Ioc_of_le hab).1 hψ).mono_set Ioo_subset_Ioc_self
    refine h1.congr_fun (fun v hv => ?_) measurableSet_Ioo
    simp only [smul_eq_mul]; rw [hφ v hv, mul_comm]
  have hφI : IntegrableOn φ (Icc (L b) (L a)) :=
    (integrableOn_Icc_deriv_smul_iff_of_deriv_nonpos hLc hLd hL' hab).1 hψI
  refine ⟨(intervalIntegrable_iff_integrableOn_Icc_of_le hLab).2 hφI, ?_⟩
  have hcv := integral_Icc_deriv_smul_of_deriv_nonpos (g := φ) hLc hLd hL' hab
  have hv : ∫ v in a..b, ψ v = ∫ x in Icc a b, L' x • φ (L x) := by
    rw [integral_of_le hab, integral_Ioc_eq_integral_Ioo, integral_Icc_eq_integral_Ioo]
    apply setIntegral_congr_fun measurableSet_Ioo
    intro v hv
    simp only [smul_eq_mul]; rw [hφ v hv, mul_comm]
  rw [integral_symm a b, hv, hcv, neg_neg, integral_of_le hLab, integral_Icc_eq_integral_Ioc]

end EPV.Sedov.Energy
