/-
The scaling group of `rarefaction.rare` (shared by C08 and C10).

For a > 0 (length), b > 0 (time), m > 0 (pressure) let
    p' = (d_cj · a/b, dx · a, gam, p_cj · m, u_piston · a/b),  xlab' = a xlab,  time' = b time.
Then `rare` takes the same branch and
    velocity' = (a/b) velocity,  sound_speed' = (a/b) sound_speed,  pressure' = m pressure,
    density' = m (b/a)² density,  xdet' = a xdet
(`mader_scaling`).  C10 (self-similarity, cell width scaled with t) is a = b = s, m = 1; C08 (units)
is a = L, b = T, m = M/(L T²).
-/
import EPV.Lemmas.Mader

set_option linter.all false

open EPV EPV.Gen

namespace EPV.MaderL

noncomputable section

/-- the scaled parameter set -/
def scaleP (p : MaderRare.P) (a b m : ℝ) : MaderRare.P :=
  ⟨p.d_cj * (a / b), p.dx * a, p.gam, p.p_cj * m, p.u_piston * (a / b)⟩

variable (p : MaderRare.P) (xlab time a b m : ℝ)

section
variable (ha : a ≠ 0) (hb : b ≠ 0)
include ha hb

theorem ccj_scale : ccj (scaleP p a b m) = ccj p * (a / b) := by
  simp only [ccj, scaleP]; ring
theorem ucj_scale : ucj (scaleP p a b m) = ucj p * (a / b) := by
  simp only [ucj, scaleP]; ring
theorem bexp_scale : bexp (scaleP p a b m) = bexp p := rfl
theorem dexp_scale : dexp (scaleP p a b m) = dexp p := rfl
theorem rhocj_scale : rhocj (scaleP p a b m) = rhocj p * (m * (b / a) ^ 2) := by
  simp only [rhocj, rho0, scaleP]; field_simp
theorem ee_scale : ee (scaleP p a b m) = ee p * (a / b) := by
  rw [ee, ee, ucj_scale p a b m ha hb, ccj_scale p a b m ha hb]; simp only [scaleP]; ring
theorem bb_scale : bb (scaleP p a b m) = bb p := by
  rw [bb, bb, ucj_scale p a b m ha hb, ccj_scale p a b m ha hb]
  simp only [scaleP]
  by_cases hc : ccj p = 0
  · simp [hc]
  · congr 2
    have : a / b ≠ 0 := div_ne_zero ha hb
    field_simp
theorem aa_scale : aa (scaleP p a b m) (b * time) = aa p time / a := by
  rw [aa, aa, ccj_scale p a b m ha hb]
  by_cases hc : ccj p = 0
  · simp [hc]
  by_cases ht : time = 0
  · simp [ht]
  field_simp
theorem dd_scale : dd (scaleP p a b m) (b * time) = dd p time / b := by
  simp only [dd, scaleP]
  by_cases ht : time * (p.gam + 1) = 0
  · have : b * time * (p.gam + 1) = 0 := by rw [mul_assoc, ht, mul_zero]
    simp [ht, this]
  have : b * time * (p.gam + 1) ≠ 0 := by rw [mul_assoc]; exact mul_ne_zero hb ht
  field_simp
theorem xdet_scale : xdet (scaleP p a b m) (a * xlab) (b * time) = a * xdet p xlab time := by
  simp only [xdet, scaleP]; field_simp
theorem x1_scale : x1 (scaleP p a b m) (a * xlab) (b * time) = a * x1 p xlab time := by
  rw [x1, x1, xdet_scale p xlab time a b m ha hb]; simp only [scaleP]; ring
theorem xp_scale : xp (scaleP p a b m) (b * time) = a * xp p time := by
  rw [xp, xp, ee_scale p a b m ha hb]; simp only [scaleP]; field_simp
theorem Y_scale (X : ℝ) : Y (scaleP p a b m) (b * time) (a * X) = Y p time X := by
  rw [Y, Y, aa_scale p time a b m ha hb, bb_scale p a b m ha hb]; field_simp
theorem Z_scale : Z (scaleP p a b m) = Z p := by
  rw [Z, Z, ucj_scale p a b m ha hb, ccj_scale p a b m ha hb]
  simp only [scaleP]
  by_cases hc : ccj p = 0
  · simp [hc]
  have : a / b ≠ 0 := div_ne_zero ha hb
  congr 1
  field_simp
theorem dxp_scale : dxp (scaleP p a b m) (a * xlab) (b * time) = a * dxp p xlab time := by
  rw [dxp, dxp, x1_scale p xlab time a b m ha hb, xp_scale p time a b m ha hb]; simp only [scaleP]; ring
theorem hh_scale : hh (scaleP p a b m) (a * xlab) (b * time) = a * hh p xlab time := by
  rw [hh, hh, x1_scale p xlab time a b m ha hb, xp_scale p time a b m ha hb]; simp only [scaleP]; ring

end

end

end EPV.MaderL
