/-
The scaling group of `rarefaction.rare` (shared by C08 and C10).

For a > 0 (length), b > 0 (time), m > 0 (pressure) let
    p' = (d_cj · a/b, dx · a, gam, p_cj · m, u_piston · a/b),  xlab' = a xlab,  time' = b time.
Then `rare` takes the same branch and
    velocity' = (a/b) velocity,  sound_speed' = (a/b) sound_speed,  pressure' = m pressure,
    density' = m (b/a)² density,  xdet' = a xdet
(`mader_scaling`).  C10 (self-similarity, cell width scaled with t) is a = b = s, m = 1; C08 (units)
is a = L, b = T, m = M/(L T²).
-/
import EPV.Lemmas.Mader

set_option linter.all false

open EPV EPV.Gen

namespace EPV.MaderL

noncomputable section

/-- the scaled parameter set -/
def scaleP (p : MaderRare.P) (a b m : ℝ) : MaderRare.P :=
  ⟨p.d_cj * (a / b), p.dx * a, p.gam, p.p_cj * m, p.u_piston * (a / b)⟩

variable (p : MaderRare.P) (xlab time a b m : ℝ)

section
variable (ha : a ≠ 0) (hb : b ≠ 0)
include ha hb

theorem ccj_scale : ccj (scaleP p a b m) = ccj p * (a / b) := by
  simp only [ccj, scaleP]; ring
theorem ucj_scale : ucj (scaleP p a b m) = ucj p * (a / b) := by
  simp only [ucj, scaleP]; ring
theorem bexp_scale : bexp (scaleP p a b m) = bexp p := rfl
theorem dexp_scale : dexp (scaleP p a b m) = dexp p := rfl
theorem rhocj_scale : rhocj (scaleP p a b m) = rhocj p * (m * (b / a) ^ 2) := by
  simp only [rhocj, rho0, scaleP]; field_simp
theorem ee_scale : ee (scaleP p a b m) = ee p * (a / b) := by
  rw [ee, ee, ucj_scale p a b m ha hb, ccj_scale p a b m ha hb]; simp only [scaleP]; ring
theorem bb_scale : bb (scaleP p a b m) = bb p := by
  rw [bb, bb, ucj_scale p a b m ha hb, ccj_scale p a b m ha hb]
  simp only [scaleP]
  by_cases hc : ccj p = 0
  · simp [hc]
  · congr 2
    have : a / b ≠ 0 := div_ne_zero ha hb
    field_simp
theorem aa_scale : aa (scaleP p a b m) (b * time) = aa p time / a := by
  rw [aa, aa, ccj_scale p a b m ha hb]
  by_cases hc : ccj p = 0
  · simp [hc]
  by_cases ht : time = 0
  · simp [ht]
  field_simp
theorem dd_scale : dd (scaleP p a b m) (b * time) = dd p time / b := by
  simp only [dd, scaleP]
  by_cases ht : time * (p.gam + 1) = 0
  · have : b * time * (p.gam + 1) = 0 := by rw [mul_assoc, ht, mul_zero]
    simp [ht, this]
  have : b * time * (p.gam + 1) ≠ 0 := by rw [mul_assoc]; exact mul_ne_zero hb ht
  field_simp
theorem xdet_scale : xdet (scaleP p a b m) (a * xlab) (b * time) = a * xdet p xlab time := by
  simp only [xdet, scaleP]; field_simp
theorem x1_scale : x1 (scaleP p a b m) (a * xlab) (b * time) = a * x1 p xlab time := by
  rw [x1, x1, xdet_scale p xlab time a b m ha hb]; simp only [scaleP]; ring
theorem xp_scale : xp (scaleP p a b m) (b * time) = a * xp p time := by
  rw [xp, xp, ee_scale p a b m ha hb]; simp only [scaleP]; field_simp
theorem Y_scale (X : ℝ) : Y (scaleP p a b m) (b * time) (a * X) = Y p time X := by
  rw [Y, Y, aa_scale p time a b m ha hb, bb_scale p a b m ha hb]; field_simp
theorem Z_scale : Z (scaleP p a b m) = Z p := by
  rw [Z, Z, ucj_scale p a b m ha hb, ccj_scale p a b m ha hb]
  simp only [scaleP]
  by_cases hc : ccj p = 0
  · simp [hc]
  have : a / b ≠ 0 := div_ne_zero ha hb
  congr 1
  field_simp
theorem dxp_scale : dxp (scaleP p a b m) (a * xlab) (b * time) = a * dxp p xlab time := by
  rw [dxp, dxp, x1_scale p xlab time a b m ha hb, xp_scale p time a b m ha hb]; simp only [scaleP]; ring
theorem hh_scale : hh (scaleP p a b m) (a * xlab) (b * time) = a * hh p xlab time := by
  rw [hh, hh, x1_scale p xlab time a b m ha hb, xp_scale p time a b m ha hb]; simp only [scaleP]; ring

/-- abbreviations for the scaled arguments -/
local notation "p'" => scaleP p a b m
local notation "x'" => a * xlab
local notation "t'" => b * time

theorem arg1 : x1 p' x' t' + (scaleP p a b m).dx = a * (x1 p xlab time + p.dx) := by
  rw [x1_scale p xlab time a b m ha hb]; simp only [scaleP]; ring
theorem arg2 : x1 p' x' t' + (1 / 2 : ℝ) * (scaleP p a b m).dx = a * (x1 p xlab time + (1 / 2 : ℝ) * p.dx) := by
  rw [x1_scale p xlab time a b m ha hb]; simp only [scaleP]; ring
theorem arg3 : x1 p' x' t' + dxp p' x' t' = a * (x1 p xlab time + dxp p xlab time) := by
  rw [x1_scale p xlab time a b m ha hb, dxp_scale p xlab time a b m ha hb]; ring
theorem arg4 : x1 p' x' t' + hh p' x' t' = a * (x1 p xlab time + hh p xlab time) := by
  rw [x1_scale p xlab time a b m ha hb, hh_scale p xlab time a b m ha hb]; ring

/-! ### fan leaf -/
theorem fan_velocity_scale : MaderRare.L0.velocity p' x' t' = a / b * MaderRare.L0.velocity p xlab time := by
  rw [fan_velocity_eq, fan_velocity_eq, arg2 p xlab time a b m ha hb, dd_scale p time a b m ha hb,
    ee_scale p a b m ha hb]
  field_simp
theorem fan_sound_speed_scale :
    MaderRare.L0.sound_speed p' x' t' = a / b * MaderRare.L0.sound_speed p xlab time := by
  rw [fan_sound_speed_eq, fan_sound_speed_eq, arg2 p xlab time a b m ha hb, Y_scale p time a b m ha hb,
    ccj_scale p a b m ha hb]
  ring
theorem fan_pressure_scale : MaderRare.L0.pressure p' x' t' = m * MaderRare.L0.pressure p xlab time := by
  rw [fan_pressure_eq, fan_pressure_eq, arg1 p xlab time a b m ha hb, x1_scale p xlab time a b m ha hb,
    Y_scale p time a b m ha hb, Y_scale p time a b m ha hb, aa_scale p time a b m ha hb, bexp_scale p a b m ha hb]
  simp only [scaleP]
  have : p.dx * a * (aa p time / a) = p.dx * aa p time := by field_simp
  rw [this]; ring
theorem fan_density_scale :
    MaderRare.L0.density p' x' t' = m * (b / a) ^ 2 * MaderRare.L0.density p xlab time := by
  rw [fan_density_eq, fan_density_eq, arg1 p xlab time a b m ha hb, x1_scale p xlab time a b m ha hb,
    Y_scale p time a b m ha hb, Y_scale p time a b m ha hb, aa_scale p time a b m ha hb, dexp_scale p a b m ha hb,
    rhocj_scale p a b m ha hb]
  simp only [scaleP]
  have : p.dx * a * (aa p time / a) = p.dx * aa p time := by field_simp
  rw [this]; ring

/-! ### constant-state leaf -/
theorem plateau_velocity_scale : MaderRare.L4.velocity p' x' t' = a / b * MaderRare.L4.velocity p xlab time := by
  rw [plateau_velocity_eq, plateau_velocity_eq]; simp only [scaleP]; ring
theorem plateau_sound_speed_scale :
    MaderRare.L4.sound_speed p' x' t' = a / b * MaderRare.L4.sound_speed p xlab time := by
  rw [plateau_sound_speed_eq, plateau_sound_speed_eq, Z_scale p a b m ha hb, ccj_scale p a b m ha hb]; ring
theorem plateau_pressure_scale : MaderRare.L4.pressure p' x' t' = m * MaderRare.L4.pressure p xlab time := by
  rw [plateau_pressure_eq, plateau_pressure_eq, Z_scale p a b m ha hb, bexp_scale p a b m ha hb]
  simp only [scaleP]; ring
theorem ratio_scale (hm : m ≠ 0) (q : ℝ) : p.p_cj * m * q / (p.p_cj * m) = p.p_cj * q / p.p_cj := by
  by_cases hp : p.p_cj = 0
  · simp [hp]
  · field_simp
theorem plateau_density_scale (hm : m ≠ 0) :
    MaderRare.L4.density p' x' t' = m * (b / a) ^ 2 * MaderRare.L4.density p xlab time := by
  rw [plateau_density_eq, plateau_density_eq, Z_scale p a b m ha hb, bexp_scale p a b m ha hb,
    rhocj_scale p a b m ha hb]
  simp only [scaleP]
  rw [ratio_scale p a b m ha hb hm]; ring

/-! ### transition-cell leaf -/
theorem uf_scale : uf p' x' t' = a / b * uf p xlab time := by
  rw [uf, uf, arg4 p xlab time a b m ha hb, dd_scale p time a b m ha hb, ee_scale p a b m ha hb]
  field_simp
theorem cf_scale : cf p' x' t' = a / b * cf p xlab time := by
  rw [cf, cf, arg4 p xlab time a b m ha hb, Y_scale p time a b m ha hb, ccj_scale p a b m ha hb]; ring
theorem pf_scale : pf p' x' t' = m * pf p xlab time := by
  rw [pf, pf, arg3 p xlab time a b m ha hb, x1_scale p xlab time a b m ha hb, Y_scale p time a b m ha hb,
    Y_scale p time a b m ha hb, aa_scale p time a b m ha hb, bexp_scale p a b m ha hb, dxp_scale p xlab time a b m ha hb]
  simp only [scaleP]
  have : a * dxp p xlab time * (aa p time / a) = dxp p xlab time * aa p time := by field_simp
  rw [this]; ring
theorem rf_scale : rf p' x' t' = m * (b / a) ^ 2 * rf p xlab time := by
  rw [rf, rf, arg3 p xlab time a b m ha hb, x1_scale p xlab time a b m ha hb, Y_scale p time a b m ha hb,
    Y_scale p time a b m ha hb, aa_scale p time a b m ha hb, dexp_scale p a b m ha hb, dxp_scale p xlab time a b m ha hb,
    rhocj_scale p a b m ha hb]
  have : a * dxp p xlab time * (aa p time / a) = dxp p xlab time * aa p time := by field_simp
  rw [this]; ring
theorem zr_scale : zr p' x' t' = zr p xlab time := by
  rw [zr, zr, uf_scale p xlab time a b m ha hb, ucj_scale p a b m ha hb, ccj_scale p a b m ha hb]
  simp only [scaleP]
  by_cases hc : ccj p = 0
  · simp [hc]
  have : a / b ≠ 0 := div_ne_zero ha hb
  congr 1
  field_simp
theorem pr_scale : pr p' x' t' = m * pr p xlab time := by
  rw [pr, pr, zr_scale p xlab time a b m ha hb, bexp_scale p a b m ha hb]; simp only [scaleP]; ring
theorem cr_scale : cr p' x' t' = a / b * cr p xlab time := by
  rw [cr, cr, zr_scale p xlab time a b m ha hb, ccj_scale p a b m ha hb]; ring
theorem rhor_scale (hm : m ≠ 0) : rhor p' x' t' = m * (b / a) ^ 2 * rhor p xlab time := by
  rw [rhor, rhor, pf_scale p xlab time a b m ha hb, rhocj_scale p a b m ha hb]
  simp only [scaleP]
  have : m * pf p xlab time / (p.p_cj * m) = pf p xlab time / p.p_cj := by
    by_cases hp : p.p_cj = 0
    · simp [hp]
    · field_simp
  rw [this]; ring

theorem hh_over_dx : hh p' x' t' / (scaleP p a b m).dx = hh p xlab time / p.dx := by
  rw [hh_scale p xlab time a b m ha hb]; simp only [scaleP]
  by_cases hd : p.dx = 0
  · simp [hd]
  · field_simp

theorem trans_velocity_scale : MaderRare.L1.velocity p' x' t' = a / b * MaderRare.L1.velocity p xlab time := by
  rw [trans_velocity_eq', trans_velocity_eq', uf_scale p xlab time a b m ha hb, mul_div_assoc, mul_div_assoc,
    hh_over_dx p xlab time a b m ha hb]
  simp only [scaleP]; ring
theorem trans_sound_speed_scale :
    MaderRare.L1.sound_speed p' x' t' = a / b * MaderRare.L1.sound_speed p xlab time := by
  rw [trans_sound_speed_eq', trans_sound_speed_eq', cf_scale p xlab time a b m ha hb, cr_scale p xlab time a b m ha hb,
    mul_div_assoc, mul_div_assoc, hh_over_dx p xlab time a b m ha hb]
  ring
theorem trans_pressure_scale : MaderRare.L1.pressure p' x' t' = m * MaderRare.L1.pressure p xlab time := by
  rw [trans_pressure_eq, trans_pressure_eq, pf_scale p xlab time a b m ha hb, pr_scale p xlab time a b m ha hb,
    mul_div_assoc, mul_div_assoc, hh_over_dx p xlab time a b m ha hb]
  ring
theorem trans_density_scale (hm : m ≠ 0) :
    MaderRare.L1.density p' x' t' = m * (b / a) ^ 2 * MaderRare.L1.density p xlab time := by
  rw [trans_density_eq, trans_density_eq, rf_scale p xlab time a b m ha hb, rhor_scale p xlab time a b m ha hb hm,
    mul_div_assoc, mul_div_assoc, hh_over_dx p xlab time a b m ha hb]
  ring

end

/-! ### the branch -/

theorem c0_scale (ha : 0 < a) (hb : b ≠ 0) :
    MaderRare.c0 (scaleP p a b m) (a * xlab) (b * time) ↔ MaderRare.c0 p xlab time := by
  rw [c0_eq, c0_eq, xdet_scale p xlab time a b m ha.ne' hb, xp_scale p time a b m ha.ne' hb, ← mul_sub, abs_mul,
    abs_of_pos ha]
  simp only [scaleP]
  constructor <;> intro h <;> nlinarith
theorem c2_scale (ha : 0 < a) (hb : b ≠ 0) :
    MaderRare.c2 (scaleP p a b m) (a * xlab) (b * time) ↔ MaderRare.c2 p xlab time := by
  rw [c2_eq, c2_eq, xdet_scale p xlab time a b m ha.ne' hb, xp_scale p time a b m ha.ne' hb, ← mul_sub, abs_mul,
    abs_of_pos ha]
  simp only [scaleP]
  constructor <;> intro h <;> nlinarith
theorem c1_scale (ha : 0 < a) (hb : b ≠ 0) :
    MaderRare.c1 (scaleP p a b m) (a * xlab) (b * time) ↔ MaderRare.c1 p xlab time := by
  rw [c1_eq, c1_eq, xdet_scale p xlab time a b m ha.ne' hb, xp_scale p time a b m ha.ne' hb]
  constructor <;> intro h <;> nlinarith

/-- **The scaling group of `rare`** (tree level: same branch, scaled fields). -/
theorem mader_scaling (ha : 0 < a) (hb : 0 < b) (hm : 0 < m) :
    MaderRare.velocity (scaleP p a b m) (a * xlab) (b * time) = a / b * MaderRare.velocity p xlab time ∧
    MaderRare.sound_speed (scaleP p a b m) (a * xlab) (b * time) = a / b * MaderRare.sound_speed p xlab time ∧
    MaderRare.pressure (scaleP p a b m) (a * xlab) (b * time) = m * MaderRare.pressure p xlab time ∧
    MaderRare.density (scaleP p a b m) (a * xlab) (b * time) = m * (b / a) ^ 2 * MaderRare.density p xlab time ∧
    MaderRare.xdet (scaleP p a b m) (a * xlab) (b * time) = a * MaderRare.xdet p xlab time ∧
    MaderRare.leaf (scaleP p a b m) (a * xlab) (b * time) = MaderRare.leaf p xlab time := by
  have e0 := c0_scale p xlab time a b m ha hb.ne'
  have e1 := c1_scale p xlab time a b m ha hb.ne'
  have e2 := c2_scale p xlab time a b m ha hb.ne'
  have hx : ∀ (L : MaderRare.P → ℝ → ℝ → ℝ), (∀ q x t, L q x t = (q.d_cj * t) - x) →
      L (scaleP p a b m) (a * xlab) (b * time) = a * L p xlab time := by
    intro L hL; rw [hL, hL]; simp only [scaleP]; field_simp
  simp only [MaderRare.velocity, MaderRare.sound_speed, MaderRare.pressure, MaderRare.density, MaderRare.xdet,
    MaderRare.leaf]
  by_cases h0 : MaderRare.c0 p xlab time
  · by_cases h1 : MaderRare.c1 p xlab time
    · simp only [if_pos h0, if_pos h1, if_pos (e0.mpr h0), if_pos (e1.mpr h1)]
      exact ⟨fan_velocity_scale p xlab time a b m ha.ne' hb.ne', fan_sound_speed_scale p xlab time a b m ha.ne' hb.ne',
        fan_pressure_scale p xlab time a b m ha.ne' hb.ne', fan_density_scale p xlab time a b m ha.ne' hb.ne',
        hx _ (fun _ _ _ => rfl), trivial⟩
    · have h2 : ¬ MaderRare.c2 p xlab time := by
        rw [c0_eq] at h0; rw [c2_eq]; linarith
      simp only [if_pos h0, if_neg h1, if_neg h2, if_pos (e0.mpr h0), if_neg (mt e1.mp h1), if_neg (mt e2.mp h2)]
      exact ⟨plateau_velocity_scale p xlab time a b m ha.ne' hb.ne', plateau_sound_speed_scale p xlab time a b m ha.ne' hb.ne',
        plateau_pressure_scale p xlab time a b m ha.ne' hb.ne', plateau_density_scale p xlab time a b m ha.ne' hb.ne' hm.ne',
        hx _ (fun _ _ _ => rfl), trivial⟩
  · have h2 : MaderRare.c2 p xlab time := by
      rw [c0_eq] at h0; rw [c2_eq]; linarith
    simp only [if_neg h0, if_pos h2, if_neg (mt e0.mp h0), if_pos (e2.mpr h2)]
    exact ⟨trans_velocity_scale p xlab time a b m ha.ne' hb.ne', trans_sound_speed_scale p xlab time a b m ha.ne' hb.ne',
      trans_pressure_scale p xlab time a b m ha.ne' hb.ne', trans_density_scale p xlab time a b m ha.ne' hb.ne' hm.ne',
      hx _ (fun _ _ _ => rfl), trivial⟩

end

end EPV.MaderL
