/-
Dimensional analysis for Blake (C08): the typing rules for `sin` and `cos` of a pure number, added to the
derivation system of `EPV/Lemmas/Units.lean` (tactic `units`), the use of already derived facts as atoms, and
the assembly of a tree-level statement from its path conditions and leaves.
-/
import EPV.Spec.UnitsBlake
import EPV.Lemmas.Units
import EPV.Tactics

set_option linter.all false

open EPV EPV.Gen EPV.Spec

namespace EPV.Spec

theorem IsScaled.sin {σ : Scaling} {d : Dim} {x x' : ℝ} (hx : IsScaled σ d x' x) (e : d = 0) :
    IsScaled σ 0 (Real.sin x') (Real.sin x) := by
  subst e
  have : x' = x := by simpa [IsScaled] using hx
  rw [this]; exact IsScaled.pure _

theorem IsScaled.cos {σ : Scaling} {d : Dim} {x x' : ℝ} (hx : IsScaled σ d x' x) (e : d = 0) :
    IsScaled σ 0 (Real.cos x') (Real.cos x) := by
  subst e
  have : x' = x := by simpa [IsScaled] using hx
  rw [this]; exact IsScaled.pure _

/-- a field that is a pure number is simply unchanged -/
theorem IsScaled.eq_of_dim_zero {σ : Scaling} {x x' : ℝ} (h : IsScaled σ 0 x' x) : x' = x := by
  simpa [IsScaled] using h

end EPV.Spec

set_option hygiene false in
/-- additional alternatives of the `units` derivation step: a fact already derived (hypothesis); `sin`, `cos` of a
pure number; and a literal met before any dimensional quantity has fixed the change of units of the
sub-derivation (`0 < 2 * G + …`) — the change of units is the `σ` of the context -/
macro_rules
  | `(tactic| units) => `(tactic| first
      | assumption
      | (apply EPV.Spec.IsScaled.sin <;> units)
      | (apply EPV.Spec.IsScaled.cos <;> units)
      | (with_reducible apply EPV.Spec.IsScaled.zero (σ := σ))
      | (with_reducible exact EPV.Spec.IsScaled.pure (σ := σ) _))

/-- `IsScaled σ d <leaf expression of the re-expressed request> <leaf expression>` for an unfolded leaf -/
macro "units_leaf " sp:ident : tactic => `(tactic|
  (simp only [epv_leaf, $sp:ident, mul_zero, zero_mul, zero_div, mul_one, one_mul, add_zero, zero_add, sub_zero, abs_zero, neg_zero]
   units_goal))

/-- a path condition of the re-expressed request holds iff it holds for the original one -/
macro "units_cond " sp:ident : tactic => `(tactic| (simp only [epv_cond, $sp:ident]; units))

/-- assemble `IsScaled σ d (tree of the re-expressed request) (tree)` from the facts in the context: the
equivalences of the path conditions and the `IsScaled` facts of the leaves (raise/nan leaves are `0`) -/
macro "units_tree" : tactic => `(tactic|
  repeat' (first
    | assumption
    | (with_reducible apply EPV.Spec.IsScaled.zero)
    | (with_reducible rfl)
    | (apply EPV.Spec.IsScaled.ite)))

/-- the same for a branch selector (`leaf`, `outcome`) -/
macro "units_selector" : tactic => `(tactic|
  repeat' (first
    | (with_reducible rfl)
    | assumption
    | (apply EPV.Spec.ite_congr_iff)))
