/-
Sedov (C11 growth, wp sedov3): the two energy integrals of the traced similarity functions,
special_singularity none (generated model SedovFuncs, leaf 1), STANDARD solution type.

On the closed branch [v0, v2]: λ is continuous with λ(v0) = 0, λ(v2) = 1, increasing inside; the
pressure function h = x1^(a0 k) x3^(…) x4^(1+a5) has NO factor x2, so it is continuous up to v0; the
density g ~ x2^((k-γω)/denom2) may be unbounded at v0 (planar, ω > 1/γ), but the exact mass
differential of wp sedov2 (`Mass.M_hasDerivAt`, `Mass.Mc_continuousOn`) makes g λ^(k-1) λ' integrable,
and the kinetic integrand is that times the continuous factor (a_val v λ)².  Hence
(`eval_std`) for ANY f, g, h with f(λ(v)) = F(v), g(λ(v)) = G(v), h(λ(v)) = H(v) on v0 < v < v2:

    ∫_{v0}^{v2} efun01 dv = eval1 k γ ω f g ,      ∫_{v0}^{v2} efun02 dv = eval2 k γ ω h ,

the λ-space integrands are interval integrable on [0, 1], eval1 ≥ 0 and eval2 > 0.
`efun01`, `efun02` are leaf 1 of the traced integrands (neither guard `max(1e-30, ·)`, `max(x4, 1e-12)`
active — `leaf1_of_interior`: every v of the branch with c_val v - 1 > 1e-30 selects it).
-/
import EPV.Lemmas.SedovEnergy
import EPV.Lemmas.SedovMassStd

set_option linter.all false
set_option maxRecDepth 100000

open EPV EPV.Gen EPV.Spec.Sedov EPV.Spec.SedovODE MeasureTheory Set

namespace EPV.Sedov.Energy

noncomputable section

/-- the coded `dlamdv` is the generated derivative of the coded λ (leaf 1) -/
theorem dlamdv_eq (p : SedovFuncs.P) (v : ℝ) (B : Std.Bases p v) :
    SedovFuncs.L1.dlamdv p v = SedovFuncs.L1.l_fun_dv p v := by
  obtain ⟨hs1, hs2, hs3, hs4⟩ := B
  simp only [epv_semi_deriv, epv_semi_leaf]
  have h1 := hs1.ne'; have h2 := hs2.ne'; have h3 := hs3.ne'
  have h4 : p.a_val ≠ 0 := left_ne_zero_of_mul h1
  have h5 : p.b_val ≠ 0 := left_ne_zero_of_mul h2
  have h6 : p.d_val ≠ 0 := left_ne_zero_of_mul h3
  field_simp
  ring

/-- `efun01` (leaf 1) is gpogm / a_val² times the v-space kinetic integrand -/
theorem efun01_eq (p : SedovFuncs.P) (v : ℝ) (B : Std.Bases p v) (kn : ℕ) (hgeo : p.geometry = kn) (h1 : 1 ≤ kn) :
    SedovFuncs.L1.efun01 p v = p.gpogm / p.a_val ^ 2
      * psi1 (SedovFuncs.L1.l_fun p) (SedovFuncs.L1.l_fun_dv p) (SedovFuncs.L1.g_fun p) (fun v => p.a_val * v) kn v := by
  have he : SedovFuncs.L1.efun01 p v = SedovFuncs.L1.dlamdv p v * SedovFuncs.L1.l_fun p v ^ (p.geometry + 1) * p.gpogm
      * SedovFuncs.L1.g_fun p v * v ^ 2 := by
    simp only [epv_semi_leaf]
  have hl := Std.l_pos p v B
  have ha : p.a_val ≠ 0 := left_ne_zero_of_mul B.x1.ne'
  have hpow : SedovFuncs.L1.l_fun p v ^ (p.geometry + 1) = SedovFuncs.L1.l_fun p v ^ (kn - 1) * SedovFuncs.L1.l_fun p v ^ 2 := by
    have e : p.geometry + 1 = ((kn - 1 : ℕ) : ℝ) + ((2 : ℕ) : ℝ) := by
      rw [hgeo, Nat.cast_sub h1]; push_cast; ring
    rw [e, Real.rpow_add hl, Real.rpow_natCast, Real.rpow_natCast]
  rw [he, hpow, dlamdv_eq p v B]
  simp only [psi1]
  field_simp

/-- `efun02` (leaf 1) is 8/((k+2-ω)² gamp1) times the v-space internal-energy integrand -/
theorem efun02_eq (p : SedovFuncs.P) (v : ℝ) (B : Std.Bases p v) (kn : ℕ) (hgeo : p.geometry = kn) (h1 : 1 ≤ kn) :
    SedovFuncs.L1.efun02 p v = 8 / ((p.geometry + 2 - p.omega) ^ 2 * p.gamp1)
      * psi2 (SedovFuncs.L1.l_fun p) (SedovFuncs.L1.l_fun_dv p) (SedovFuncs.L1.h_fun p) kn v := by
  have he : SedovFuncs.L1.efun02 p v = SedovFuncs.L1.dlamdv p v * SedovFuncs.L1.l_fun p v ^ (p.geometry - 1)
      * SedovFuncs.L1.h_fun p v * (8 / ((p.geometry + 2 - p.omega) ^ 2 * p.gamp1)) := by
    simp only [epv_semi_leaf]
  have hpow : SedovFuncs.L1.l_fun p v ^ (p.geometry - 1) = SedovFuncs.L1.l_fun p v ^ (kn - 1) := by
    have e : p.geometry - 1 = ((kn - 1 : ℕ) : ℝ) := by rw [hgeo, Nat.cast_sub h1]; push_cast; ring
    rw [e, Real.rpow_natCast]
  rw [he, hpow, dlamdv_eq p v B]
  simp only [psi2]
  ring

/-- the pressure similarity function is continuous wherever x1, x3, x4 are positive (x2 does not occur) -/
theorem h_continuousOn_std {p : SedovFuncs.P} (s : Set ℝ) (hs : ∀ v ∈ s, Mass.ClosedBases p v) :
    ContinuousOn (SedovFuncs.L1.h_fun p) s := by
  rw [(funext (EPV.Bridge.Semi.SedovFuncs_L1_h_fun p) : SedovFuncs.L1.h_fun p = _)]
  refine (ContinuousOn.mul (ContinuousOn.rpow_const (by fun_prop) ?_) (ContinuousOn.rpow_const (by fun_prop) ?_)).mul
    (ContinuousOn.rpow_const (by fun_prop) ?_)
  · intro v hv; exact Or.inl (hs v hv).x1.ne'
  · intro v hv; exact Or.inl (hs v hv).x3.ne'
  · intro v hv; exact Or.inl (hs v hv).x4.ne'

/-- the guards: every v of the branch beyond the sliver c_val v - 1 ≤ 1e-30 next to v0 selects leaf 1
of the traced model (the x4 guard `max(x4, 1e-12)` is never active on the standard branch when
x4 ≥ 1e-12, which holds as soon as b_val (1 - X v/2) ≥ 1e-12) -/
theorem leaf1_of_interior (p : SedovFuncs.P) (v : ℝ)
    (h0 : (178405961588245 : ℝ) / 178405961588244985132285746181186892047843328 < p.c_val * v - 1)
    (h1 : (4951760157141521 : ℝ) / 4951760157141521099596496896 ≤ p.b_val * (1 - 1 / 2 * p.xg2 * v)) :
    SedovFuncs.leaf p v = 1 ∧ SedovFuncs.efun01 p v = SedovFuncs.L1.efun01 p v
      ∧ SedovFuncs.efun02 p v = SedovFuncs.L1.efun02 p v := by
  have hc0 : ¬ SedovFuncs.c0 p v := by simp only [epv_semi_cond, not_le]; exact h0
  have hc1 : SedovFuncs.c1 p v := by simp only [epv_semi_cond]; exact h1
  simp only [epv_tree, hc0, hc1, if_false, if_true, and_self]

/-- the standard branch of SedovFuncs is a `Branch` -/
theorem std_branch {p : SedovFuncs.P} {γ ω : ℝ} (kn : ℕ) (h1 : 1 ≤ kn) (hC : StdConsts p γ kn ω)
    (P : Params γ kn ω) (htype : v2 γ kn ω < vstar γ kn) (hd3 : K.denom3 γ kn ω ≠ 0) :
    Branch (v0 γ kn ω) (v2 γ kn ω) (SedovFuncs.L1.l_fun p) (SedovFuncs.L1.l_fun_dv p) (SedovFuncs.L1.g_fun p)
      (SedovFuncs.L1.h_fun p) (fun v => p.a_val * v) kn := by
  set k : ℝ := (kn : ℝ) with hk
  have hX := P.X_pos; have hγ := P.hγ
  have hγ0 := P.γ_pos
  have hab : v0 γ k ω < v2 γ k ω := by
    unfold v0 v2
    rw [div_lt_div_iff₀ (mul_pos hX hγ0) (mul_pos hX (by linarith))]
    nlinarith
  have hcl : ∀ v ∈ Icc (v0 γ k ω) (v2 γ k ω), Mass.StdClosed γ k ω v := fun v hv => ⟨P, htype, hv.1, hv.2⟩
  have hS0 := (hcl _ (left_mem_Icc.mpr hab.le)).signs
  have hd2pos := Mass.denom2_pos hS0 P.hk
  have hd2 := hd2pos.ne'
  have ha2 := Mass.neg_a2_pos hC hγ hd2pos
  have he2 := Mass.e2_pos hC P hd2pos kn rfl
  have hCB : ∀ v ∈ Icc (v0 γ k ω) (v2 γ k ω), Mass.ClosedBases p v := fun v hv => Mass.closedBases hC (hcl v hv).signs
  have hint : ∀ v ∈ Ioo (v0 γ k ω) (v2 γ k ω), StdInterior γ k ω v := fun v hv => ⟨P, htype, hv.1, hv.2⟩
  have hB : ∀ v ∈ Ioo (v0 γ k ω) (v2 γ k ω), Std.Bases p v := fun v hv => Std.bases hC (hint v hv).toSigns
  exact
    { hab := hab
      h1 := h1
      Lc := Mass.l_continuousOn hC _ hCB ha2
      Ld := fun v hv => (Std.hasDerivAt p v (hB v hv)).1
      Lpos := fun v hv => Std.l_pos p v (hB v hv)
      Gnn := fun v hv => (Std.g_pos p v (hB v hv)).le
      Ki := mass_integrable_of_exact_nonneg hab.le (κ := k - ω) (by linarith [P.hωk])
        ((Mass.Mc_continuousOn (k + 2 - ω) kn _ hCB he2).congr (fun v hv => Mass.M_eq_Mc (hCB v hv) _ kn h1 ha2 he2))
        (fun v hv => Mass.M_hasDerivAt hC (hint v hv).toSigns hd2 hd3 kn rfl h1)
        (fun v hv => mul_nonneg (mul_nonneg (Std.g_pos p v (hB v hv)).le (pow_nonneg (Std.l_pos p v (hB v hv)).le _))
          (Std.l_dv_pos hC (hint v hv) hd2 hd3).le)
      Ac := by fun_prop
      Hc := h_continuousOn_std _ hCB }

/-- **The two energy integrals of the traced similarity functions, standard solution type.** -/
theorem eval_std {p : SedovFuncs.P} {γ ω : ℝ} (kn : ℕ) (h1 : 1 ≤ kn) (hC : StdConsts p γ kn ω)
    (P : Params γ kn ω) (htype : v2 γ kn ω < vstar γ kn) (hd3 : K.denom3 γ kn ω ≠ 0) (f g h : ℝ → ℝ)
    (hf : ∀ v ∈ Ioo (v0 γ kn ω) (v2 γ kn ω), f (SedovFuncs.L1.l_fun p v) = SedovFuncs.L1.f_fun p v)
    (hg : ∀ v ∈ Ioo (v0 γ kn ω) (v2 γ kn ω), g (SedovFuncs.L1.l_fun p v) = SedovFuncs.L1.g_fun p v)
    (hh : ∀ v ∈ Ioo (v0 γ kn ω) (v2 γ kn ω), h (SedovFuncs.L1.l_fun p v) = SedovFuncs.L1.h_fun p v) :
    IntervalIntegrable (fun x => g x * f x ^ 2 * x ^ (kn - 1)) volume 0 1 ∧
    IntervalIntegrable (fun x => h x * x ^ (kn - 1)) volume 0 1 ∧
    ∫ v in (v0 γ kn ω)..(v2 γ kn ω), SedovFuncs.L1.efun01 p v = eval1 kn γ ω f g ∧
    ∫ v in (v0 γ kn ω)..(v2 γ kn ω), SedovFuncs.L1.efun02 p v = eval2 kn γ ω h ∧
    0 ≤ eval1 kn γ ω f g ∧ 0 < eval2 kn γ ω h := by
  have Br := std_branch kn h1 hC P htype hd3
  set k : ℝ := (kn : ℝ) with hk
  have hγ := P.hγ; have hX := P.X_pos
  have hint : ∀ v ∈ Ioo (v0 γ k ω) (v2 γ k ω), StdInterior γ k ω v := fun v hv => ⟨P, htype, hv.1, hv.2⟩
  have hB : ∀ v ∈ Ioo (v0 γ k ω) (v2 γ k ω), Std.Bases p v := fun v hv => Std.bases hC (hint v hv).toSigns
  have hS0 : Mass.StdClosedSigns γ k ω (v0 γ k ω) := (Mass.StdClosed.mk P htype le_rfl Br.hab.le).signs
  have hd2pos := Mass.denom2_pos hS0 P.hk
  have hL' : ∀ v ∈ Ioo (v0 γ k ω) (v2 γ k ω), 0 < SedovFuncs.L1.l_fun_dv p v :=
    fun v hv => Std.l_dv_pos hC (hint v hv) hd2pos.ne' hd3
  have hf' : ∀ v ∈ Ioo (v0 γ k ω) (v2 γ k ω), f (SedovFuncs.L1.l_fun p v) = p.a_val * v * SedovFuncs.L1.l_fun p v := by
    intro v hv; rw [hf v hv]; simp only [epv_semi_leaf]
  obtain ⟨⟨I1, E1⟩, ⟨I2, E2⟩⟩ := branch_mono Br hL' f g h hf' hg hh
  obtain ⟨N1, N2⟩ := Br.pos_mono hL' (fun v hv => Std.h_pos p v (hB v hv))
  have ha2 := Mass.neg_a2_pos hC hγ hd2pos
  rw [Mass.l_at_v0 hC P ha2, (Mass.at_v2 hC P hS0.dden.ne').1] at I1 E1 I2 E2
  -- the quadratures are the constants times the v-space integrals
  have hq1 : ∫ v in (v0 γ k ω)..(v2 γ k ω), SedovFuncs.L1.efun01 p v = p.gpogm / p.a_val ^ 2
      * ∫ v in (v0 γ k ω)..(v2 γ k ω), psi1 (SedovFuncs.L1.l_fun p) (SedovFuncs.L1.l_fun_dv p) (SedovFuncs.L1.g_fun p)
          (fun v => p.a_val * v) kn v := by
    rw [← intervalIntegral.integral_const_mul, intervalIntegral.integral_of_le Br.hab.le,
      intervalIntegral.integral_of_le Br.hab.le, integral_Ioc_eq_integral_Ioo, integral_Ioc_eq_integral_Ioo]
    exact setIntegral_congr_fun measurableSet_Ioo (fun v hv => efun01_eq p v (hB v hv) kn hC.geometry h1)
  have hq2 : ∫ v in (v0 γ k ω)..(v2 γ k ω), SedovFuncs.L1.efun02 p v = 8 / ((p.geometry + 2 - p.omega) ^ 2 * p.gamp1)
      * ∫ v in (v0 γ k ω)..(v2 γ k ω), psi2 (SedovFuncs.L1.l_fun p) (SedovFuncs.L1.l_fun_dv p) (SedovFuncs.L1.h_fun p) kn v := by
    rw [← intervalIntegral.integral_const_mul, intervalIntegral.integral_of_le Br.hab.le,
      intervalIntegral.integral_of_le Br.hab.le, integral_Ioc_eq_integral_Ioo, integral_Ioc_eq_integral_Ioo]
    exact setIntegral_congr_fun measurableSet_Ioo (fun v hv => efun02_eq p v (hB v hv) kn hC.geometry h1)
  have hc1 : p.gpogm / p.a_val ^ 2 = ((γ + 1) / (γ - 1)) / ((1 / 4) * (k + 2 - ω) * (γ + 1)) ^ 2 := by
    rw [hC.gpogm, hC.a_val]; rfl
  have hc2 : 8 / ((p.geometry + 2 - p.omega) ^ 2 * p.gamp1) = 8 / ((k + 2 - ω) ^ 2 * (γ + 1)) := by
    rw [hC.geometry, hC.omega, hC.gamp1]
  have hc1pos : 0 < ((γ + 1) / (γ - 1)) / ((1 / 4) * (k + 2 - ω) * (γ + 1)) ^ 2 := by
    have : 0 < γ - 1 := by linarith
    positivity
  have hc2pos : 0 < 8 / ((k + 2 - ω) ^ 2 * (γ + 1)) := by
    have : 0 < γ + 1 := by linarith
    positivity
  refine ⟨I1, I2, ?_, ?_, ?_, ?_⟩
  · rw [hq1, hc1, ← E1]; rfl
  · rw [hq2, hc2, ← E2]; rfl
  · unfold eval1 J1; rw [E1]; exact mul_nonneg hc1pos.le N1
  · unfold eval2 J2; rw [E2]; exact mul_pos hc2pos N2

/-- non-vacuity of the root-finder atom: similarity functions of λ with the traced parametric values exist -/
theorem exists_funcs_std {p : SedovFuncs.P} {γ ω : ℝ} (kn : ℕ) (h1 : 1 ≤ kn) (hC : StdConsts p γ kn ω)
    (P : Params γ kn ω) (htype : v2 γ kn ω < vstar γ kn) (hd3 : K.denom3 γ kn ω ≠ 0) :
    ∃ f g h : ℝ → ℝ,
      (∀ v ∈ Ioo (v0 γ kn ω) (v2 γ kn ω), f (SedovFuncs.L1.l_fun p v) = SedovFuncs.L1.f_fun p v) ∧
      (∀ v ∈ Ioo (v0 γ kn ω) (v2 γ kn ω), g (SedovFuncs.L1.l_fun p v) = SedovFuncs.L1.g_fun p v) ∧
      (∀ v ∈ Ioo (v0 γ kn ω) (v2 γ kn ω), h (SedovFuncs.L1.l_fun p v) = SedovFuncs.L1.h_fun p v) := by
  have Br := std_branch kn h1 hC P htype hd3
  have hS0 : Mass.StdClosedSigns γ kn ω (v0 γ kn ω) := (Mass.StdClosed.mk P htype le_rfl Br.hab.le).signs
  have hd2pos := Mass.denom2_pos hS0 P.hk
  have hL' : ∀ v ∈ Ioo (v0 γ kn ω) (v2 γ kn ω), 0 < SedovFuncs.L1.l_fun_dv p v :=
    fun v hv => Std.l_dv_pos hC ⟨P, htype, hv.1, hv.2⟩ hd2pos.ne' hd3
  obtain ⟨f, g, h, hf, hg, hh, -⟩ := exists_param_functions (Br.injOn_mono hL') (SedovFuncs.L1.f_fun p)
    (SedovFuncs.L1.g_fun p) (SedovFuncs.L1.h_fun p)
  exact ⟨f, g, h, hf, hg, hh⟩

end

end EPV.Sedov.Energy
